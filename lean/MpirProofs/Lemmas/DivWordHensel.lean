/- Word-level division lemmas, part 4: mpn_rsh_divrem_hensel_qr_1_1/_1_2, mpn_mod_1_1/2/3 folding,
   mpn_divrem_euclidean_r_1, the Hensel path of mpn_divrem_1, udiv_qrnnd_preinv1. -/
import MpirProofs.Lemmas.DivWordExact
import MpirProofs.Lemmas.DivWord3by2
namespace Mpir.DivWord
open Mpir

/-! ### mpn_rsh_divrem_hensel_qr_1_1 / _1_2: 2-adic division with on-the-fly right shift -/

/-- the output limbs: right shift by s of the limb vector q :: qs, built as the C does
    (`qo | (q' << (63-s) << 1)`, `qo = q' >> s`) -/
def shrList (s : Nat) : Nat → List Nat → List Nat
  | q, [] => [q >>> s]
  | q, q' :: qs => henselOr (q >>> s) q' s :: shrList s q' qs

theorem henselOr_eq (q q' s : Nat) (hq : q < B) (hs : s ≤ 63) :
    henselOr (q >>> s) q' s < B ∧
    ∀ rest, val (q :: q' :: rest) / 2 ^ s = henselOr (q >>> s) q' s + B * (val (q' :: rest) / 2 ^ s) := by
  unfold henselOr
  rcases Nat.eq_zero_or_pos s with h0 | hpos
  · subst h0
    have e1 : (((q' <<< (63 - 0)) % B) <<< 1) % B = 0 := by
      rw [Nat.shiftLeft_eq, Nat.shiftLeft_eq]
      have hB : B = 2 ^ 63 * 2 := rfl
      have : q' * 2 ^ 63 % B * 2 ^ 1 = (q' * 2 ^ 63 % B) * 2 := by ring
      rw [this, hB, Nat.mul_mod_mul_right]
      have : q' * 2 ^ 63 % (2 ^ 63 * 2) % 2 ^ 63 = 0 := by
        rw [Nat.mod_mul_right_mod, Nat.mul_mod_left]
      rw [this, Nat.zero_mul]
    rw [e1, Nat.shiftRight_zero, Nat.or_zero]
    refine ⟨hq, fun rest => ?_⟩
    rw [pow_zero, Nat.div_one, Nat.div_one, val_cons]
  · have e1 : (((q' <<< (63 - s)) % B) <<< 1) % B = (q' <<< (64 - s)) % B := by
      rw [Nat.shiftLeft_eq, Nat.shiftLeft_eq, Nat.shiftLeft_eq, pow_one, Nat.mod_mul_mod, Nat.mul_assoc, ← pow_succ]
      congr 3; omega
    rw [e1]
    obtain ⟨a, b⟩ := shr_limb q q' s [] hq hpos hs
    refine ⟨a, fun rest => ?_⟩
    exact (shr_limb q q' s rest hq hpos hs).2

theorem shrList_spec (s : Nat) (hs : s ≤ 63) (qs : List Nat) : ∀ q, q < B → Limbs qs →
    val (shrList s q qs) = val (q :: qs) / 2 ^ s ∧ Limbs (shrList s q qs) ∧ (shrList s q qs).length = qs.length + 1 := by
  induction qs with
  | nil =>
    intro q hq _
    have hv : val [q] = q := by rw [val_cons, val_nil, Nat.mul_zero, Nat.add_zero]
    refine ⟨?_, Limbs_cons.mpr ⟨?_, Limbs_nil⟩, rfl⟩
    · show val [q >>> s] = _
      rw [hv, Nat.shiftRight_eq_div_pow]
      have : val [q / 2 ^ s] = q / 2 ^ s := by rw [val_cons, val_nil, Nat.mul_zero, Nat.add_zero]
      rw [this]
    · rw [Nat.shiftRight_eq_div_pow]; exact Nat.lt_of_le_of_lt (Nat.div_le_self _ _) hq
  | cons q' qs ih =>
    intro q hq hl
    have ⟨hq', hqs⟩ := Limbs_cons.mp hl
    obtain ⟨a, b⟩ := henselOr_eq q q' s hq hs
    obtain ⟨i1, i2, i3⟩ := ih q' hq' hqs
    refine ⟨?_, Limbs_cons.mpr ⟨a, i2⟩, by show (shrList s q' qs).length + 1 = _; rw [i3]; rfl⟩
    show val (henselOr (q >>> s) q' s :: shrList s q' qs) = _
    rw [val_cons, i1, b qs]

theorem henselStep_q (d m x h c : Nat) : (henselStep d m x h c).1 = ((x + B - (h + c) % B) % B * m) % B := rfl
theorem henselStep_h (d m x h c : Nat) :
    (henselStep d m x h c).2.1 = (((x + B - (h + c) % B) % B * m) % B * d) / B := rfl
theorem henselStep_c (d m x h c : Nat) : (henselStep d m x h c).2.2 = if (h + c) % B > x then 1 else 0 := rfl

/-- one limb of the 2-adic division: x + (c' + h')·B = q·d + (h + c) -/
theorem henselStep_spec (d m x h c : Nat) (hx : x < B) (hT : h + c < B) (hd0 : 0 < d) (_hdB : d < B)
    (hinv : (d * m) % B = 1) :
    (henselStep d m x h c).1 < B ∧ (henselStep d m x h c).2.1 < d ∧ (henselStep d m x h c).2.2 ≤ 1 ∧
    x + ((henselStep d m x h c).2.2 + (henselStep d m x h c).2.1) * B = (henselStep d m x h c).1 * d + (h + c) := by
  rw [henselStep_q, henselStep_h, henselStep_c, Nat.mod_eq_of_lt hT]
  generalize h + c = t at *
  have hyB : (x + B - t) % B < B := Nat.mod_lt _ B_pos
  have hy : x + (if t > x then 1 else 0) * B = (x + B - t) % B + t := by
    simp only [B_eq] at *; split <;> omega
  have hb : (if t > x then 1 else 0) ≤ 1 := by split <;> omega
  generalize (x + B - t) % B = y at *
  have hq := hensel_limb y d m hyB hinv
  have hqB : (y * m) % B < B := Nat.mod_lt _ B_pos
  have hh' := (hi_lt ((y * m) % B) d hqB).resolve_right (by omega)
  refine ⟨hqB, hh', hb, ?_⟩
  generalize (y * m) % B = q at *
  generalize q * d / B = h' at *
  generalize (if t > x then 1 else 0) = b at *
  rw [hq]
  have : x + (b + h') * B = (x + b * B) + h' * B := by ring
  rw [this, hy]; ring

/-- the unshifted quotient limbs and the final carry of the one-limb-at-a-time loop -/
def henselQ (d m : Nat) : List Nat → Nat → Nat → List Nat × Nat
  | [], h, c => ([], (h + c) % B)
  | x :: xs, h, c =>
      ((henselStep d m x h c).1 :: (henselQ d m xs (henselStep d m x h c).2.1 (henselStep d m x h c).2.2).1,
       (henselQ d m xs (henselStep d m x h c).2.1 (henselStep d m x h c).2.2).2)

theorem henselQ_cons (d m x : Nat) (xs : List Nat) (h c : Nat) :
    henselQ d m (x :: xs) h c =
      ((henselStep d m x h c).1 :: (henselQ d m xs (henselStep d m x h c).2.1 (henselStep d m x h c).2.2).1,
       (henselQ d m xs (henselStep d m x h c).2.1 (henselStep d m x h c).2.2).2) := rfl

theorem hensel11Go_cons (d m s x : Nat) (xs : List Nat) (h c qo : Nat) :
    hensel11Go d m s (x :: xs) h c qo =
      (henselOr qo (henselStep d m x h c).1 s ::
        (hensel11Go d m s xs (henselStep d m x h c).2.1 (henselStep d m x h c).2.2 ((henselStep d m x h c).1 >>> s)).1,
       (hensel11Go d m s xs (henselStep d m x h c).2.1 (henselStep d m x h c).2.2 ((henselStep d m x h c).1 >>> s)).2) := rfl

theorem hensel11Go_eq (d m s : Nat) (xs : List Nat) : ∀ h c qp,
    hensel11Go d m s xs h c (qp >>> s) = (shrList s qp (henselQ d m xs h c).1, (henselQ d m xs h c).2) := by
  induction xs with
  | nil => intro h c qp; rfl
  | cons x xs ih =>
    intro h c qp
    rw [hensel11Go_cons, henselQ_cons, ih]
    rfl

/-- invariant of the 2-adic division: xs + ret·B^len = Q·d + (h + c) -/
theorem henselQ_spec (d m : Nat) (hd0 : 0 < d) (hdB : d < B) (hinv : (d * m) % B = 1) (xs : List Nat) :
    ∀ h c, h + c < B → Limbs xs →
    val xs + (henselQ d m xs h c).2 * B ^ xs.length = val (henselQ d m xs h c).1 * d + (h + c) ∧
      Limbs (henselQ d m xs h c).1 ∧ (henselQ d m xs h c).1.length = xs.length := by
  induction xs with
  | nil =>
    intro h c hT _
    have : (henselQ d m [] h c) = ([], (h + c) % B) := rfl
    rw [this, Nat.mod_eq_of_lt hT]
    exact ⟨by rw [val_nil, List.length_nil, pow_zero, Nat.zero_mul, Nat.mul_one, Nat.zero_add],
      Limbs_nil, rfl⟩
  | cons x xs ih =>
    intro h c hT hl
    have ⟨hx, hxs⟩ := Limbs_cons.mp hl
    obtain ⟨a1, a2, a3, a4⟩ := henselStep_spec d m x h c hx hT hd0 hdB hinv
    rw [henselQ_cons]
    generalize (henselStep d m x h c).1 = q at *
    generalize (henselStep d m x h c).2.1 = h' at *
    generalize (henselStep d m x h c).2.2 = c' at *
    obtain ⟨e, hL, hlen⟩ := ih h' c' (by omega) hxs
    refine ⟨?_, Limbs_cons.mpr ⟨a1, hL⟩, by rw [List.length_cons, hlen, List.length_cons]⟩
    rw [val_cons, val_cons, List.length_cons, pow_succ]
    generalize (henselQ d m xs h' c').2 = ret at *
    generalize val (henselQ d m xs h' c').1 = Vo at *
    generalize val xs = Vx at *
    generalize B ^ xs.length = P at *
    have : x + B * Vx + ret * (P * B) = x + B * (Vx + ret * P) := by ring
    rw [this, e]
    have : x + B * (Vo * d + (h' + c')) = (x + (c' + h') * B) + B * (Vo * d) := by ring
    rw [this, a4]; ring


theorem henselPair_unfold (d ml mh xl xh h c : Nat) :
    henselPair d ml mh xl xh h c =
      (((sub_ddmmss xh xl 0 ((h + c) % B)).2 * ml) % B,
       ((((sub_ddmmss xh xl 0 ((h + c) % B)).2 * ml) / B + ((sub_ddmmss xh xl 0 ((h + c) % B)).1 * ml) % B) % B +
          ((sub_ddmmss xh xl 0 ((h + c) % B)).2 * mh) % B) % B,
       (if (((((sub_ddmmss xh xl 0 ((h + c) % B)).2 * ml) / B + ((sub_ddmmss xh xl 0 ((h + c) % B)).1 * ml) % B) % B +
          ((sub_ddmmss xh xl 0 ((h + c) % B)).2 * mh) % B) % B * d) % B > (sub_ddmmss xh xl 0 ((h + c) % B)).1
        then ((((((sub_ddmmss xh xl 0 ((h + c) % B)).2 * ml) / B + ((sub_ddmmss xh xl 0 ((h + c) % B)).1 * ml) % B) % B +
          ((sub_ddmmss xh xl 0 ((h + c) % B)).2 * mh) % B) % B * d) / B + 1) % B
        else (((((sub_ddmmss xh xl 0 ((h + c) % B)).2 * ml) / B + ((sub_ddmmss xh xl 0 ((h + c) % B)).1 * ml) % B) % B +
          ((sub_ddmmss xh xl 0 ((h + c) % B)).2 * mh) % B) % B * d) / B),
       if xh == 0 && (h + c) % B > xl then 1 else 0) := rfl

/-- the arithmetic core of the two-limb step: with ml·d = hB·B + 1 and mh ≡ −ml·hB (mod B), the
    two-limb quotient ⟨qh,ql⟩ = ⟨xh',xl'⟩·⟨mh,ml⟩ mod B² satisfies ⟨qh,ql⟩·d = ⟨xh',xl'⟩ + H·B² with
    H = hi(qh·d) + [lo(qh·d) > xh'] -/
theorem henselPair_core (d ml mh hB xl' xh' a ql qh h0 h1 : ℤ) (Bz : ℤ) (hBz : 0 < Bz)
    (hmld : ml * d = hB * Bz + 1) (hmh : mh ≡ -(ml * hB) [ZMOD Bz])
    (hxl : 0 ≤ xl') (hxl' : xl' < Bz) (hxh : 0 ≤ xh') (hxh' : xh' < Bz)
    (hp : xl' * ml = a * Bz + ql) (hql : 0 ≤ ql) (hql' : ql < Bz)
    (hqh : qh ≡ a + xh' * ml + xl' * mh [ZMOD Bz])
    (hhh : qh * d = h0 * Bz + h1) (hh1 : 0 ≤ h1) (hh1' : h1 < Bz) (hd0 : 0 < d) (hdB : d < Bz) :
    (ql + qh * Bz) * d = xl' + xh' * Bz + (if h1 > xh' then h0 + 1 else h0) * (Bz * Bz) := by
  -- qh·d ≡ a·d + xh' − xl'·hB (mod B)
  have hmld' : ml * d ≡ 1 [ZMOD Bz] := by
    rw [hmld]; exact Int.modEq_iff_dvd.mpr ⟨-hB, by ring⟩
  have hmhd : mh * d ≡ -hB [ZMOD Bz] := by
    have h1 : mh * d ≡ -(ml * hB) * d [ZMOD Bz] := hmh.mul_right d
    have h2 : -(ml * hB) * d = -hB * (ml * d) := by ring
    rw [h2] at h1
    have h3 : -hB * (ml * d) ≡ -hB * 1 [ZMOD Bz] := hmld'.mul_left _
    rw [mul_one] at h3
    exact h1.trans h3
  have hqhd : qh * d ≡ a * d + xh' - xl' * hB [ZMOD Bz] := by
    have h1 : qh * d ≡ (a + xh' * ml + xl' * mh) * d [ZMOD Bz] := hqh.mul_right d
    have h2 : (a + xh' * ml + xl' * mh) * d = a * d + xh' * (ml * d) + xl' * (mh * d) := by ring
    rw [h2] at h1
    have h3 : a * d + xh' * (ml * d) + xl' * (mh * d) ≡ a * d + xh' * 1 + xl' * (-hB) [ZMOD Bz] :=
      ((Int.ModEq.refl _).add (hmld'.mul_left _)).add (hmhd.mul_left _)
    have h4 : a * d + xh' * 1 + xl' * (-hB) = a * d + xh' - xl' * hB := by ring
    rw [h4] at h3
    exact h1.trans h3
  obtain ⟨k1, hk1⟩ := Int.modEq_iff_dvd.mp hqhd
  -- ql·d = xl' + (xl'·hB − a·d)·B
  have hqld : ql * d = xl' + (xl' * hB - a * d) * Bz := by
    have : ql = xl' * ml - a * Bz := by linarith
    rw [this]
    have : (xl' * ml - a * Bz) * d = xl' * (ml * d) - a * d * Bz := by ring
    rw [this, hmld]; ring
  -- total: (ql + qh B) d = xl' + xh' B − k1 B²
  have htot : (ql + qh * Bz) * d = xl' + xh' * Bz + (-k1) * (Bz * Bz) := by
    have : (ql + qh * Bz) * d = ql * d + (qh * d) * Bz := by ring
    rw [this, hqld]
    have : qh * d = a * d + xh' - xl' * hB - Bz * k1 := by linarith
    rw [this]; ring
  -- identify −k1 with h0 + carry
  have hsum : (qh * d) * Bz + ql * d = xl' + xh' * Bz + (-k1) * (Bz * Bz) := by
    rw [← htot]; ring
  -- low limb of ql·d: write ql·d = hl·B + ll
  have hll : ql * d = (ql * d / Bz) * Bz + (ql * d) % Bz := by
    have := Int.mul_ediv_add_emod (ql * d) Bz; linarith
  have hll0 : 0 ≤ (ql * d) % Bz := Int.emod_nonneg _ (ne_of_gt hBz)
  have hll1 : (ql * d) % Bz < Bz := Int.emod_lt_of_pos _ hBz
  have hhl0 : 0 ≤ ql * d / Bz := Int.ediv_nonneg (mul_nonneg hql (le_of_lt hd0)) (le_of_lt hBz)
  have hhl1 : ql * d / Bz < Bz := by
    have : ql * d < Bz * Bz := by nlinarith
    exact Int.ediv_lt_of_lt_mul hBz this
  generalize ql * d / Bz = hl at *
  generalize (ql * d) % Bz = ll at *
  -- ll = xl'
  have hllx : ll = xl' := by
    have h1 : ll - xl' = Bz * (xl' * hB - a * d - hl) := by linarith
    have h2 : -Bz < ll - xl' := by linarith
    have h3 : ll - xl' < Bz := by linarith
    have : xl' * hB - a * d - hl = 0 := by
      by_contra hne
      rcases lt_or_gt_of_ne hne with hlt | hgt
      · have : Bz * (xl' * hB - a * d - hl) ≤ Bz * (-1) := mul_le_mul_of_nonneg_left (by linarith) (le_of_lt hBz)
        linarith
      · have : Bz * 1 ≤ Bz * (xl' * hB - a * d - hl) := mul_le_mul_of_nonneg_left (by linarith) (le_of_lt hBz)
        linarith
    rw [this] at h1; linarith
  subst hllx
  -- hl + h1 = xh' + (−k1 − h0)·B
  have hmid : hl + h1 - xh' = (-k1 - h0) * Bz := by
    have e1 : (h0 * Bz + h1) * Bz + (hl * Bz + ll) = ll + xh' * Bz + (-k1) * (Bz * Bz) := by
      rw [← hhh, ← hll]; exact hsum
    have e2 : (hl + h1 - xh') * Bz = ((-k1 - h0) * Bz) * Bz := by linarith
    exact mul_right_cancel₀ (ne_of_gt hBz) e2
  have hlo : -Bz < hl + h1 - xh' := by linarith
  have hhi : hl + h1 - xh' < 2 * Bz := by linarith
  have heps : -k1 - h0 = 0 ∨ -k1 - h0 = 1 := by
    have h1' : -1 < -k1 - h0 := by
      by_contra hc; rw [not_lt] at hc
      have : (-k1 - h0) * Bz ≤ (-1) * Bz := mul_le_mul_of_nonneg_right hc (le_of_lt hBz)
      linarith
    have h2' : -k1 - h0 < 2 := by
      by_contra hc; rw [not_lt] at hc
      have : 2 * Bz ≤ (-k1 - h0) * Bz := mul_le_mul_of_nonneg_right hc (le_of_lt hBz)
      linarith
    omega
  rw [htot]
  rcases heps with h | h
  · rw [h] at hmid
    have : ¬ (h1 > xh') := by linarith
    rw [if_neg this]
    have : -k1 = h0 := by linarith
    rw [this]
  · rw [h] at hmid
    have : h1 > xh' := by linarith
    rw [if_pos this]
    have : -k1 = h0 + 1 := by linarith
    rw [this]


theorem henselPair_spec (d ml mh xl xh h c : Nat) (hxl : xl < B) (hxh : xh < B) (hT : h + c < B)
    (hd0 : 0 < d) (hdB : d < B) (hinv : (d * ml) % B = 1) (hml : ml < B)
    (hmh : mh = (ml * ((B - (d * ml) / B) % B)) % B) :
    (henselPair d ml mh xl xh h c).1 < B ∧ (henselPair d ml mh xl xh h c).2.1 < B ∧
    (henselPair d ml mh xl xh h c).2.2.1 + (henselPair d ml mh xl xh h c).2.2.2 < B ∧
    xl + xh * B + ((henselPair d ml mh xl xh h c).2.2.2 + (henselPair d ml mh xl xh h c).2.2.1) * (B * B) =
      ((henselPair d ml mh xl xh h c).1 + (henselPair d ml mh xl xh h c).2.1 * B) * d + (h + c) := by
  have hB := B_pos
  have hBB : 0 < B * B := Nat.mul_pos hB hB
  have hBleBB : B ≤ B * B := Nat.le_mul_of_pos_left _ hB
  rw [henselPair_unfold, Nat.mod_eq_of_lt hT, Nat.add_comm xl (xh * B)]
  generalize h + c = t at *
  -- the two-limb subtraction
  rw [sub_ddmmss_eq xh xl 0 t hxh hxl hB hT, pair2_mod]
  simp only
  have hX : xh * B + xl < B * B := by
    have : (xh + 1) * B ≤ B * B := Nat.mul_le_mul_right _ hxh
    have : (xh + 1) * B = xh * B + B := by ring
    omega
  have hc' : (if (xh == 0 && decide (t > xl)) = true then 1 else 0) = if xh * B + xl < t then 1 else 0 := by
    by_cases h0 : xh = 0
    · subst h0; simp
    · have : ¬ (xh * B + xl < t) := by
        have : B ≤ xh * B := Nat.le_mul_of_pos_left _ (Nat.pos_of_ne_zero h0)
        omega
      simp [h0, this]
  rw [hc', Nat.zero_mul, Nat.zero_add]
  generalize xh * B + xl = X2 at *
  have hR : (X2 + B * B - t) % (B * B) < B * B := Nat.mod_lt _ hBB
  have hRt : ∃ cb, cb ≤ 1 ∧ (if X2 < t then 1 else 0) = cb ∧ (X2 + B * B - t) % (B * B) + t = X2 + cb * (B * B) := by
    by_cases hlt : X2 < t
    · refine ⟨1, le_refl _, if_pos hlt, ?_⟩
      rw [Nat.mod_eq_of_lt (by omega)]; omega
    · refine ⟨0, by omega, if_neg hlt, ?_⟩
      have : X2 + B * B - t = (X2 - t) + B * B := by omega
      rw [this, Nat.add_mod_right, Nat.mod_eq_of_lt (by omega)]; omega
  obtain ⟨cb, hcb, hcbe, hRt⟩ := hRt
  rw [hcbe]
  generalize (X2 + B * B - t) % (B * B) = R at *
  have hxh'B : R / B < B := (Nat.div_lt_iff_lt_mul hB).mpr hR
  have hxl'B : R % B < B := Nat.mod_lt _ hB
  have hRdm := Nat.div_add_mod' R B
  generalize R / B = xh' at *
  generalize R % B = xl' at *
  -- all quotients / remainders as fresh naturals
  have hqlB : (xl' * ml) % B < B := Nat.mod_lt _ hB
  have hp := Nat.div_add_mod' (xl' * ml) B
  generalize (xl' * ml) / B = a at *
  generalize (xl' * ml) % B = ql at *
  have hm1 := Nat.div_add_mod' (xh' * ml) B
  generalize (xh' * ml) / B = j1 at *
  generalize (xh' * ml) % B = m1 at *
  have hm2 := Nat.div_add_mod' (xl' * mh) B
  generalize (xl' * mh) / B = j2 at *
  generalize (xl' * mh) % B = m2 at *
  have hm3 := Nat.div_add_mod' (a + m1) B
  generalize (a + m1) / B = j3 at *
  generalize (a + m1) % B = m3 at *
  have hqhB : (m3 + m2) % B < B := Nat.mod_lt _ hB
  have hm4 := Nat.div_add_mod' (m3 + m2) B
  generalize (m3 + m2) / B = j4 at *
  generalize (m3 + m2) % B = qh at *
  have hhh := Nat.div_add_mod' (qh * d) B
  have hh1B : (qh * d) % B < B := Nat.mod_lt _ hB
  generalize (qh * d) / B = h0 at *
  generalize (qh * d) % B = h1 at *
  have hmld := Nat.div_add_mod' (d * ml) B
  rw [hinv] at hmld
  have hhBlt : d * ml / B < B := by
    rw [Nat.div_lt_iff_lt_mul hB]
    have h1' : d * ml ≤ d * B := Nat.mul_le_mul_left _ (Nat.le_of_lt hml)
    have h2' : d * B < B * B := Nat.mul_lt_mul_of_pos_right hdB hB
    omega
  generalize d * ml / B = hBn at *
  have hnb := Nat.div_add_mod' (B - hBn) B
  have hnbe : (B - hBn) % B + hBn = B * (1 - (B - hBn) / B) := by
    rcases Nat.eq_zero_or_pos hBn with h0 | h0
    · subst h0
      rw [Nat.sub_zero, Nat.mod_self, Nat.div_self hB, Nat.sub_self, Nat.mul_zero]
    · rw [Nat.mod_eq_of_lt (by omega), Nat.div_eq_of_lt (by omega)]; omega
  generalize (B - hBn) / B = j5 at *
  generalize (B - hBn) % B = nb at *
  have hm6 := Nat.div_add_mod' (ml * nb) B
  rw [← hmh] at hm6
  generalize (ml * nb) / B = j6 at *
  -- the core lemma over ℤ
  have z := fun {a b : ℕ} (e : a = b) => congrArg (Nat.cast : ℕ → ℤ) e
  have e_p := z hp; have e_m1 := z hm1; have e_m2 := z hm2; have e_m3 := z hm3; have e_m4 := z hm4
  have e_hh := z hhh; have e_mld := z hmld; have e_nbe := z hnbe; have e_m6 := z hm6
  push_cast at e_p e_m1 e_m2 e_m3 e_m4 e_hh e_mld e_nbe e_m6
  have hj5 : j5 ≤ 1 := by
    by_contra hcon
    have : 2 * B ≤ j5 * B := Nat.mul_le_mul_right _ (by omega)
    omega
  have e_nbe' : (nb : ℤ) + hBn = B * (1 - j5) := by
    rw [Nat.cast_sub hj5] at e_nbe; push_cast at e_nbe; exact e_nbe
  have hmhz : (mh : ℤ) ≡ -((ml : ℤ) * hBn) [ZMOD (B : ℤ)] :=
    Int.modEq_iff_dvd.mpr ⟨j6 - ml * (1 - j5), by linear_combination -e_m6 - (ml : ℤ) * e_nbe'⟩
  have hqhz : (qh : ℤ) ≡ (a : ℤ) + xh' * ml + xl' * mh [ZMOD (B : ℤ)] :=
    Int.modEq_iff_dvd.mpr ⟨(j1 : ℤ) + j2 + j3 + j4, by linear_combination -e_m1 - e_m2 - e_m3 - e_m4⟩
  have core := henselPair_core (d : ℤ) ml mh hBn xl' xh' a ql qh h0 h1 (B : ℤ)
    (Int.natCast_pos.mpr hB) (by linear_combination -e_mld) hmhz (Int.natCast_nonneg _) (Int.ofNat_lt.mpr hxl'B)
    (Int.natCast_nonneg _) (Int.ofNat_lt.mpr hxh'B) (by linear_combination -e_p)
    (Int.natCast_nonneg _) (Int.ofNat_lt.mpr hqlB) hqhz (by linear_combination -e_hh)
    (Int.natCast_nonneg _) (Int.ofNat_lt.mpr hh1B) (Int.natCast_pos.mpr hd0) (Int.ofNat_lt.mpr hdB)
  -- back to ℕ
  have coreN : (ql + qh * B) * d = xl' + xh' * B + (if h1 > xh' then h0 + 1 else h0) * (B * B) := by
    by_cases hc : h1 > xh'
    · rw [if_pos hc]
      rw [if_pos (by exact_mod_cast hc)] at core
      have : (((ql + qh * B) * d : ℕ) : ℤ) = ((xl' + xh' * B + (h0 + 1) * (B * B) : ℕ) : ℤ) := by
        push_cast; exact core
      exact_mod_cast this
    · rw [if_neg hc]
      rw [if_neg (by exact_mod_cast hc)] at core
      have : (((ql + qh * B) * d : ℕ) : ℤ) = ((xl' + xh' * B + h0 * (B * B) : ℕ) : ℤ) := by
        push_cast; exact core
      exact_mod_cast this
  -- H < d
  have hHd : (if h1 > xh' then h0 + 1 else h0) < d := by
    have h1' : (ql + qh * B) * d < (B * B) * d := by
      apply Nat.mul_lt_mul_of_pos_right _ hd0
      have : (qh + 1) * B ≤ B * B := Nat.mul_le_mul_right _ hqhB
      have : (qh + 1) * B = qh * B + B := by ring
      omega
    have h2' : (if h1 > xh' then h0 + 1 else h0) * (B * B) < d * (B * B) := by
      rw [Nat.mul_comm d]; omega
    exact Nat.lt_of_mul_lt_mul_right h2'
  have hHeq : (if h1 > xh' then (h0 + 1) % B else h0) = if h1 > xh' then h0 + 1 else h0 := by
    split
    · rename_i hc; rw [if_pos hc] at hHd; exact Nat.mod_eq_of_lt (by omega)
    · rfl
  rw [hHeq]
  generalize (if h1 > xh' then h0 + 1 else h0) = H at *
  refine ⟨hqlB, hqhB, by omega, ?_⟩
  rw [coreN]
  have : X2 + (cb + H) * (B * B) = (X2 + cb * (B * B)) + H * (B * B) := by ring
  rw [this, ← hRt, ← hRdm]; ring


/-- unshifted quotient limbs and final carry of the two-limbs-at-a-time loop -/
def henselQ2 (d ml mh : Nat) : List Nat → Nat → Nat → List Nat × Nat
  | xl :: xh :: xs, h, c =>
      ((henselPair d ml mh xl xh h c).1 :: (henselPair d ml mh xl xh h c).2.1 ::
        (henselQ2 d ml mh xs (henselPair d ml mh xl xh h c).2.2.1 (henselPair d ml mh xl xh h c).2.2.2).1,
       (henselQ2 d ml mh xs (henselPair d ml mh xl xh h c).2.2.1 (henselPair d ml mh xl xh h c).2.2.2).2)
  | [x], h, c => ([(henselStep d ml x h c).1], ((henselStep d ml x h c).2.1 + (henselStep d ml x h c).2.2) % B)
  | [], h, c => ([], (h + c) % B)

theorem hensel12Go_pair (d ml mh s xl xh : Nat) (xs : List Nat) (h c qo : Nat) :
    hensel12Go d ml mh s (xl :: xh :: xs) h c qo =
      (henselOr qo (henselPair d ml mh xl xh h c).1 s ::
        henselOr ((henselPair d ml mh xl xh h c).1 >>> s) (henselPair d ml mh xl xh h c).2.1 s ::
        (hensel12Go d ml mh s xs (henselPair d ml mh xl xh h c).2.2.1 (henselPair d ml mh xl xh h c).2.2.2
          ((henselPair d ml mh xl xh h c).2.1 >>> s)).1,
       (hensel12Go d ml mh s xs (henselPair d ml mh xl xh h c).2.2.1 (henselPair d ml mh xl xh h c).2.2.2
          ((henselPair d ml mh xl xh h c).2.1 >>> s)).2) := rfl

/-- strong induction principle: lists two elements at a time -/
theorem list_pair_induction {P : List Nat → Prop} (h0 : P []) (h1 : ∀ x, P [x])
    (h2 : ∀ x y xs, P xs → P (x :: y :: xs)) : ∀ l, P l
  | [] => h0
  | [x] => h1 x
  | x :: y :: xs => h2 x y xs (list_pair_induction h0 h1 h2 xs)

theorem hensel12Go_eq (d ml mh s : Nat) (xs : List Nat) : ∀ h c qp,
    hensel12Go d ml mh s xs h c (qp >>> s) = (shrList s qp (henselQ2 d ml mh xs h c).1, (henselQ2 d ml mh xs h c).2) := by
  induction xs using list_pair_induction with
  | h0 => intro h c qp; rfl
  | h1 x => intro h c qp; rfl
  | h2 xl xh xs ih =>
    intro h c qp
    rw [hensel12Go_pair, ih]
    rfl

theorem henselQ2_nil (d ml mh h c : Nat) : henselQ2 d ml mh [] h c = ([], (h + c) % B) := rfl
theorem henselQ2_one (d ml mh x h c : Nat) : henselQ2 d ml mh [x] h c =
      ([(henselStep d ml x h c).1], ((henselStep d ml x h c).2.1 + (henselStep d ml x h c).2.2) % B) := rfl
theorem henselQ2_pair (d ml mh xl xh : Nat) (xs : List Nat) (h c : Nat) : henselQ2 d ml mh (xl :: xh :: xs) h c =
      ((henselPair d ml mh xl xh h c).1 :: (henselPair d ml mh xl xh h c).2.1 ::
        (henselQ2 d ml mh xs (henselPair d ml mh xl xh h c).2.2.1 (henselPair d ml mh xl xh h c).2.2.2).1,
       (henselQ2 d ml mh xs (henselPair d ml mh xl xh h c).2.2.1 (henselPair d ml mh xl xh h c).2.2.2).2) := rfl

theorem val_singleton (y : Nat) : val [y] = y := by rw [val_cons, val_nil, Nat.mul_zero, Nat.add_zero]

theorem henselQ2_one_spec (d ml mh : Nat) (hd0 : 0 < d) (hdB : d < B) (hinv : (d * ml) % B = 1) (x h c : Nat)
    (hT : h + c < B) (hx : x < B) :
    val [x] + (henselQ2 d ml mh [x] h c).2 * B ^ [x].length = val (henselQ2 d ml mh [x] h c).1 * d + (h + c) ∧
      Limbs (henselQ2 d ml mh [x] h c).1 ∧ (henselQ2 d ml mh [x] h c).1.length = [x].length := by
  obtain ⟨a1, a2, a3, a4⟩ := henselStep_spec d ml x h c hx hT hd0 hdB hinv
  rw [henselQ2_one]
  generalize (henselStep d ml x h c).1 = q at *
  generalize (henselStep d ml x h c).2.1 = h' at *
  generalize (henselStep d ml x h c).2.2 = c' at *
  have hlt : h' + c' < B := by omega
  have e1 : ([q], (h' + c') % B).2 = h' + c' := Nat.mod_eq_of_lt hlt
  have e2 : ([q], (h' + c') % B).1 = [q] := rfl
  rw [e1, e2]
  refine ⟨?_, Limbs_cons.mpr ⟨a1, Limbs_nil⟩, by rw [List.length_singleton, List.length_singleton]⟩
  rw [List.length_singleton, pow_one, val_singleton, val_singleton, ← a4]; ring

theorem henselQ2_spec (d ml mh : Nat) (hd0 : 0 < d) (hdB : d < B) (hinv : (d * ml) % B = 1) (hml : ml < B)
    (hmh : mh = (ml * ((B - (d * ml) / B) % B)) % B) (xs : List Nat) :
    ∀ h c, h + c < B → Limbs xs →
    val xs + (henselQ2 d ml mh xs h c).2 * B ^ xs.length = val (henselQ2 d ml mh xs h c).1 * d + (h + c) ∧
      Limbs (henselQ2 d ml mh xs h c).1 ∧ (henselQ2 d ml mh xs h c).1.length = xs.length := by
  induction xs using list_pair_induction with
  | h0 =>
    intro h c hT _
    rw [henselQ2_nil, Nat.mod_eq_of_lt hT]
    exact ⟨by rw [val_nil, List.length_nil, pow_zero, Nat.zero_mul, Nat.mul_one, Nat.zero_add], Limbs_nil, rfl⟩
  | h1 x =>
    intro h c hT hl
    exact henselQ2_one_spec d ml mh hd0 hdB hinv x h c hT (Limbs_cons.mp hl).1
  | h2 xl xh xs ih =>
    intro h c hT hl
    have ⟨hxl, hl'⟩ := Limbs_cons.mp hl
    have ⟨hxh, hxs⟩ := Limbs_cons.mp hl'
    obtain ⟨a1, a2, a3, a4⟩ := henselPair_spec d ml mh xl xh h c hxl hxh hT hd0 hdB hinv hml hmh
    rw [henselQ2_pair]
    generalize (henselPair d ml mh xl xh h c).1 = ql at *
    generalize (henselPair d ml mh xl xh h c).2.1 = qh at *
    generalize (henselPair d ml mh xl xh h c).2.2.1 = h' at *
    generalize (henselPair d ml mh xl xh h c).2.2.2 = c' at *
    obtain ⟨e, hL, hlen⟩ := ih h' c' a3 hxs
    refine ⟨?_, Limbs_cons.mpr ⟨a1, Limbs_cons.mpr ⟨a2, hL⟩⟩,
      by rw [List.length_cons, List.length_cons, hlen, List.length_cons, List.length_cons]⟩
    rw [val_cons, val_cons, val_cons, val_cons, List.length_cons, List.length_cons, pow_succ, pow_succ]
    generalize (henselQ2 d ml mh xs h' c').2 = ret at *
    generalize val (henselQ2 d ml mh xs h' c').1 = Vo at *
    generalize val xs = Vx at *
    generalize B ^ xs.length = P at *
    have : xl + B * (xh + B * Vx) + ret * (P * B * B) = (xl + xh * B) + B * B * (Vx + ret * P) := by ring
    rw [this, e]
    have : xl + xh * B + B * B * (Vo * d + (h' + c')) = (xl + xh * B + (c' + h') * (B * B)) + B * B * (Vo * d) := by ring
    rw [this, a4]; ring

/-- contract of the 2-adic divisions: x + ret·B^n = Q·d + cin with Q < B^n, output = ⌊Q / 2^s⌋ -/
def HenselSpec (x : List Nat) (d s cin : Nat) (res : List Nat × Nat) : Prop :=
  ∃ Q, val x + res.2 * B ^ x.length = Q * d + cin ∧ Q < B ^ x.length ∧ val res.1 = Q / 2 ^ s ∧
    Limbs res.1 ∧ res.1.length = x.length

theorem rsh_divrem_hensel_qr_1_1_spec (x : List Nat) (d s cin : Nat) (hx : Limbs x) (hne : x ≠ [])
    (hodd : d % 2 = 1) (hdB : d < B) (hs : s ≤ 63) (hcin : cin < B) :
    HenselSpec x d s cin (rsh_divrem_hensel_qr_1_1 x d s cin) := by
  cases x with
  | nil => exact absurd rfl hne
  | cons x0 xs =>
    have hd0 : 0 < d := by omega
    have hinv := modlimb_invert_mul d hodd
    have hunf : rsh_divrem_hensel_qr_1_1 (x0 :: xs) d s cin =
        hensel11Go d (modlimb_invert d) s xs (henselStep d (modlimb_invert d) x0 cin 0).2.1
          (henselStep d (modlimb_invert d) x0 cin 0).2.2 ((henselStep d (modlimb_invert d) x0 cin 0).1 >>> s) := rfl
    rw [hunf, hensel11Go_eq]
    obtain ⟨e, hL, hlen⟩ := henselQ_spec d (modlimb_invert d) hd0 hdB hinv (x0 :: xs) cin 0 (by omega) hx
    rw [henselQ_cons] at e hL hlen
    have ⟨hq0, hQs⟩ := Limbs_cons.mp hL
    obtain ⟨s1, s2, s3⟩ := shrList_spec s hs _ _ hq0 hQs
    refine ⟨_, e, val_lt_pow _ _ hL hlen, s1, s2, ?_⟩
    rw [s3]; rw [List.length_cons] at hlen; exact hlen

theorem rsh_divrem_hensel_qr_1_2_spec (x : List Nat) (d s cin : Nat) (hx : Limbs x) (hne : x ≠ [])
    (hodd : d % 2 = 1) (hdB : d < B) (hs : s ≤ 63) (hcin : cin < B) :
    HenselSpec x d s cin (rsh_divrem_hensel_qr_1_2 x d s cin) := by
  cases x with
  | nil => exact absurd rfl hne
  | cons x0 xs =>
    have ⟨hx0, hxs⟩ := Limbs_cons.mp hx
    have hd0 : 0 < d := by omega
    have hinv := modlimb_invert_mul d hodd
    have hml : modlimb_invert d < B := Nat.mod_lt _ B_pos
    generalize hmldef : modlimb_invert d = ml at *
    have hunf : rsh_divrem_hensel_qr_1_2 (x0 :: xs) d s cin =
        hensel12Go d ml ((ml * ((B - (d * ml) / B) % B)) % B) s xs (henselStep d ml x0 cin 0).2.1
          (henselStep d ml x0 cin 0).2.2 ((henselStep d ml x0 cin 0).1 >>> s) := by
      rw [← hmldef]; rfl
    rw [hunf, hensel12Go_eq]
    obtain ⟨a1, a2, a3, a4⟩ := henselStep_spec d ml x0 cin 0 hx0 (by omega) hd0 hdB hinv
    obtain ⟨e, hL, hlen⟩ := henselQ2_spec d ml _ hd0 hdB hinv hml rfl xs (henselStep d ml x0 cin 0).2.1
      (henselStep d ml x0 cin 0).2.2 (by omega) hxs
    generalize (henselStep d ml x0 cin 0).1 = q0 at *
    generalize (henselStep d ml x0 cin 0).2.1 = h' at *
    generalize (henselStep d ml x0 cin 0).2.2 = c' at *
    generalize henselQ2 d ml ((ml * ((B - (d * ml) / B) % B)) % B) xs h' c' = r at *
    obtain ⟨s1, s2, s3⟩ := shrList_spec s hs r.1 q0 a1 hL
    have hLq : Limbs (q0 :: r.1) := Limbs_cons.mpr ⟨a1, hL⟩
    have hlenq : (q0 :: r.1).length = (x0 :: xs).length := by rw [List.length_cons, hlen, List.length_cons]
    refine ⟨val (q0 :: r.1), ?_, val_lt_pow _ _ hLq hlenq, s1, s2, by rw [s3, hlen, List.length_cons]⟩
    show val (x0 :: xs) + r.2 * B ^ (xs.length + 1) = _
    rw [val_cons, val_cons, pow_succ]
    generalize val r.1 = Vo at *
    generalize val xs = Vx at *
    generalize B ^ xs.length = P at *
    have : x0 + B * Vx + r.2 * (P * B) = x0 + B * (Vx + r.2 * P) := by ring
    rw [this, e]
    have : x0 + B * (Vo * d + (h' + c')) = (x0 + (c' + h') * B) + B * (Vo * d) := by ring
    rw [this, a4]; ring

theorem rsh_divrem_hensel_qr_1_spec (x : List Nat) (d s cin : Nat) (hx : Limbs x) (hne : x ≠ [])
    (hodd : d % 2 = 1) (hdB : d < B) (hs : s ≤ 63) (hcin : cin < B) :
    HenselSpec x d s cin (rsh_divrem_hensel_qr_1 x d s cin) := by
  unfold rsh_divrem_hensel_qr_1
  split
  · exact rsh_divrem_hensel_qr_1_1_spec x d s cin hx hne hodd hdB hs hcin
  · exact rsh_divrem_hensel_qr_1_2_spec x d s cin hx hne hodd hdB hs hcin

/-- when d divides x − cin the 2-adic quotient is the true quotient, shifted -/
theorem hensel_exact (x : List Nat) (d s cin : Nat) (res : List Nat × Nat) (h : HenselSpec x d s cin res)
    (hodd : d % 2 = 1) (hle : cin ≤ val x) (hdvd : d ∣ val x - cin) :
    val res.1 = (val x - cin) / d / 2 ^ s ∧ Limbs res.1 ∧ res.1.length = x.length := by
  obtain ⟨Q, e, hQ, hv, hL, hlen⟩ := h
  have hd0 : 0 < d := by omega
  have e' : (val x - cin) + res.2 * B ^ x.length = d * Q := by rw [Nat.mul_comm d Q]; omega
  have := exact_finish d (val x - cin) Q res.2 x.length hodd e' hQ hdvd
  refine ⟨?_, hL, hlen⟩
  rw [hv, this, Nat.mul_div_cancel_left _ hd0]


/-! ### mpn_mod_1_1/2/3 folding and mpn_divrem_euclidean_r_1 -/

/-- two-limb value of a (high, low) pair -/
def v2 (p : Nat × Nat) : Nat := p.1 * B + p.2

/-- a proper two-limb pair with value V -/
def Pair2 (p : Nat × Nat) (V : Nat) : Prop := p.1 < B ∧ p.2 < B ∧ v2 p = V

theorem add2_noovf (ah al bh bl : Nat) (h : ah * B + al + (bh * B + bl) < B * B) :
    Pair2 (add_ssaaaa ah al bh bl) (ah * B + al + (bh * B + bl)) := by
  have hB := B_pos
  rw [add_ssaaaa_eq]
  have hq : (ah * B + al + (bh * B + bl)) / B < B := (Nat.div_lt_iff_lt_mul hB).mpr h
  refine ⟨?_, Nat.mod_lt _ hB, ?_⟩
  · show (ah * B + al + (bh * B + bl)) / B % B < B
    exact Nat.mod_lt _ hB
  · show (ah * B + al + (bh * B + bl)) / B % B * B + (ah * B + al + (bh * B + bl)) % B = _
    rw [Nat.mod_eq_of_lt hq]; exact Nat.div_add_mod' _ _

theorem umul_pair (a b : Nat) (ha : a < B) (hb : b < B) : Pair2 (umul_ppmm a b) (a * b) := by
  have hB := B_pos
  rw [umul_ppmm_eq]
  refine ⟨?_, Nat.mod_lt _ hB, Nat.div_add_mod' _ _⟩
  show a * b / B < B
  rw [Nat.div_lt_iff_lt_mul hB]
  have h1 : a * b ≤ a * B := Nat.mul_le_mul_left _ (Nat.le_of_lt hb)
  have h2 : a * B < B * B := Nat.mul_lt_mul_of_pos_right ha hB
  omega

theorem BB_sub : (B - 1) * (B - 1) + B ≤ B * B := by rw [B_eq]; norm_num

theorem mul_limbs_le (a b : Nat) (ha : a < B) (hb : b < B) : a * b ≤ (B - 1) * (B - 1) :=
  Nat.mul_le_mul (by omega) (by omega)

theorem mulAddLimb_pair (a b x : Nat) (ha : a < B) (hb : b < B) (hx : x < B) :
    Pair2 (mulAddLimb a b x) (a * b + x) := by
  obtain ⟨p1, p2, p3⟩ := umul_pair a b ha hb
  have hab := mul_limbs_le a b ha hb
  have hBB := BB_sub
  simp only [v2] at p3
  have := add2_noovf (umul_ppmm a b).1 (umul_ppmm a b).2 0 x (by omega)
  rw [Nat.zero_mul, Nat.zero_add, p3] at this
  exact this

/-- ⟨s⟩ + a·b without overflow -/
theorem accMul_pair (s : Nat × Nat) (V a b : Nat) (hs : Pair2 s V) (ha : a < B) (hb : b < B) (hlt : V + a * b < B * B) :
    Pair2 (accMul s a b) (V + a * b) := by
  obtain ⟨p1, p2, p3⟩ := umul_pair a b ha hb
  obtain ⟨s1, s2, s3⟩ := hs
  simp only [v2] at p3 s3
  have := add2_noovf s.1 s.2 (umul_ppmm a b).1 (umul_ppmm a b).2 (by omega)
  rw [s3, p3] at this
  exact this

/-- a·b + ⟨s⟩ without overflow -/
theorem mulAcc_pair (a b : Nat) (s : Nat × Nat) (V : Nat) (hs : Pair2 s V) (ha : a < B) (hb : b < B)
    (hlt : a * b + V < B * B) : Pair2 (mulAcc a b s) (a * b + V) := by
  obtain ⟨p1, p2, p3⟩ := umul_pair a b ha hb
  obtain ⟨s1, s2, s3⟩ := hs
  simp only [v2] at p3 s3
  have := add2_noovf (umul_ppmm a b).1 (umul_ppmm a b).2 s.1 s.2 (by omega)
  rw [s3, p3] at this
  exact this

theorem foldFin_pair (db0 th tl : Nat) (hdb : db0 < B) (hth : th < B) (htl : tl < B) :
    (foldFin db0 th tl).2 * B + (foldFin db0 th tl).1 = th * db0 + tl ∧ (foldFin db0 th tl).1 < B := by
  obtain ⟨a, b, c⟩ := mulAddLimb_pair th db0 tl hth hdb htl
  exact ⟨c, b⟩

/-- the closing division of the mpn_mod_1_k_wrap functions -/
theorem modWrapFinal_spec (sl sh d c : Nat) (hc : c ≤ 63) (h1 : B / 2 ≤ d * 2 ^ c) (h2 : d * 2 ^ c < B)
    (hsl : sl < B) (hsh : sh < d) :
    modWrapFinal sl sh c (d * 2 ^ c) (invert_limb (d * 2 ^ c)) = (sh * B + sl) % d := by
  have hB := B_pos
  have hp : 0 < 2 ^ c := by positivity
  unfold modWrapFinal
  obtain ⟨e1, e2⟩ := limb_split sl c hc
  have hhi := limb_hi_lt sl c hsl (by omega)
  have hsum := limb_split_sum sl c (by omega)
  have hshc : sh * 2 ^ c < d * 2 ^ c := Nat.mul_lt_mul_of_pos_right hsh hp
  rw [e1, e2, Nat.shiftLeft_eq, Nat.mod_eq_of_lt (by omega)]
  have hor : sh * 2 ^ c ||| sl / 2 ^ (64 - c) = sh * 2 ^ c + sl / 2 ^ (64 - c) := by
    rw [← Nat.shiftLeft_eq]; exact (Nat.shiftLeft_add_eq_or_of_lt hhi _).symm
  rw [hor]
  have hnh : sh * 2 ^ c + sl / 2 ^ (64 - c) < d * 2 ^ c := by
    have : (sh + 1) * 2 ^ c ≤ d * 2 ^ c := Nat.mul_le_mul_right _ hsh
    have : (sh + 1) * 2 ^ c = sh * 2 ^ c + 2 ^ c := by ring
    omega
  have hlo : sl % 2 ^ (64 - c) * 2 ^ c < B := by
    rw [B_split c (by omega)]
    exact Nat.mul_lt_mul_of_pos_right (Nat.mod_lt _ (by positivity)) hp
  rw [udiv_qrnnd_preinv_eq _ _ _ h1 h2 hnh hlo, udiv_qrnnd_snd]
  have : (sh * 2 ^ c + sl / 2 ^ (64 - c)) * B + sl % 2 ^ (64 - c) * 2 ^ c = (sh * B + sl) * 2 ^ c := by
    have : (sh * B + sl) * 2 ^ c = sh * 2 ^ c * B + sl * 2 ^ c := by ring
    rw [this, ← hsum]; ring
  rw [this]
  exact shifted_rem _ _ _

/-- the power-of-B residues computed by the wraps: one preinv division per power -/
theorem wrap_pow_step (d c X : Nat) (h1 : B / 2 ≤ d * 2 ^ c) (h2 : d * 2 ^ c < B) (hX : X < d) :
    (udiv_qrnnd_preinv (X * 2 ^ c) 0 (d * 2 ^ c) (invert_limb (d * 2 ^ c))).2 = ((X * B) % d) * 2 ^ c := by
  have hp : 0 < 2 ^ c := by positivity
  have hlt : X * 2 ^ c < d * 2 ^ c := Nat.mul_lt_mul_of_pos_right hX hp
  rw [udiv_qrnnd_preinv_eq _ _ _ h1 h2 hlt B_pos, udiv_qrnnd_snd, Nat.add_zero]
  have : X * 2 ^ c * B = (X * B) * 2 ^ c := by ring
  rw [this, Nat.mul_mod_mul_right]

theorem wrap_pow_first (d : Nat) (hd0 : 0 < d) (hdB : d < B) :
    (udiv_qrnnd_preinv ((1 <<< count_leading_zeros d) % B) 0 (d * 2 ^ count_leading_zeros d)
      (invert_limb (d * 2 ^ count_leading_zeros d))).2 = (B % d) * 2 ^ count_leading_zeros d := by
  obtain ⟨hc, h1, h2⟩ := clz_spec d (by omega) hdB
  by_cases hd1 : d = 1
  · subst hd1; decide
  · have hp : 0 < 2 ^ count_leading_zeros d := by positivity
    have h1c : (1 <<< count_leading_zeros d) % B = 1 * 2 ^ count_leading_zeros d := by
      rw [Nat.shiftLeft_eq]
      apply Nat.mod_eq_of_lt
      have : 1 * 2 ^ count_leading_zeros d < d * 2 ^ count_leading_zeros d :=
        Nat.mul_lt_mul_of_pos_right (by omega) hp
      omega
    rw [h1c, wrap_pow_step d _ 1 h1 h2 (by omega), Nat.one_mul]

theorem shr_cancel (Y c : Nat) : (Y * 2 ^ c) >>> c = Y := by
  rw [Nat.shiftRight_eq_div_pow, Nat.mul_div_cancel _ (by positivity)]

/-- one trip of the mpn_mod_1_1 loop -/
theorem fold1Step_pair (d db0 db1 : Nat) (st : Nat × Nat) (V xj : Nat) (hst : Pair2 st V) (hxj : xj < B)
    (hd : 2 * d ≤ B + 2) (hd0 : 0 < d) (hdb0 : db0 = B % d) (hdb1 : db1 = B ^ 2 % d) :
    ∃ V', Pair2 (fold1Step db0 db1 st xj) V' ∧ V' % d = (V * B + xj) % d := by
  obtain ⟨s1, s2, s3⟩ := hst
  have hdb0lt : db0 < d := by rw [hdb0]; exact Nat.mod_lt _ hd0
  have hdb1lt : db1 < d := by rw [hdb1]; exact Nat.mod_lt _ hd0
  have hdB : d < B := by simp only [B_eq] at *; omega
  have hm := mulAddLimb_pair st.2 db0 xj s2 (by omega) hxj
  have b1 : st.2 * db0 ≤ (B - 1) * (d - 1) := Nat.mul_le_mul (by omega) (by omega)
  have b2 : st.1 * db1 ≤ (B - 1) * (d - 1) := Nat.mul_le_mul (by omega) (by omega)
  have hbound : st.1 * db1 + (st.2 * db0 + xj) < B * B := by
    have : (B - 1) * (d - 1) + (B - 1) * (d - 1) + B ≤ B * B := by
      simp only [B_eq] at *; omega
    omega
  have hm2 := mulAcc_pair st.1 db1 _ _ hm s1 (by omega) hbound
  refine ⟨_, hm2, ?_⟩
  simp only [v2] at s3
  rw [← s3, hdb0, hdb1]
  have e1 : st.1 * (B ^ 2 % d) + (st.2 * (B % d) + xj) ≡ st.1 * B ^ 2 + (st.2 * B + xj) [MOD d] :=
    Nat.ModEq.add (Nat.ModEq.mul_left _ (Nat.mod_modEq _ _))
      (Nat.ModEq.add_right _ (Nat.ModEq.mul_left _ (Nat.mod_modEq _ _)))
  have e2 : (st.1 * B + st.2) * B + xj = st.1 * B ^ 2 + (st.2 * B + xj) := by ring
  rw [e2]; exact e1

theorem valMS_congr (d : Nat) (l : List Nat) (a a' : Nat) (h : a % d = a' % d) : valMS a l % d = valMS a' l % d := by
  rw [valMS_mod, h, ← valMS_mod]

theorem foldFin_spec (d db0 th tl : Nat) (hd0 : 0 < d) (hdB : d < B) (hdb0 : db0 = B % d) (hth : th < B) (htl : tl < B) :
    ((foldFin db0 th tl).2 * B + (foldFin db0 th tl).1) % d = (th * B + tl) % d ∧
    (foldFin db0 th tl).2 < d ∧ (foldFin db0 th tl).1 < B := by
  have hdb0lt : db0 < d := by rw [hdb0]; exact Nat.mod_lt _ hd0
  obtain ⟨e, hl⟩ := foldFin_pair db0 th tl (by omega) hth htl
  refine ⟨?_, ?_, hl⟩
  · rw [e, hdb0]
    exact Nat.ModEq.add_right _ (Nat.ModEq.mul_left _ (Nat.mod_modEq _ _))
  · have b1 : th * db0 ≤ (B - 1) * (d - 1) := Nat.mul_le_mul (by omega) (by omega)
    have : (foldFin db0 th tl).2 * B < d * B := by
      have : (B - 1) * (d - 1) + B ≤ d * B := by simp only [B_eq] at *; omega
      omega
    exact Nat.lt_of_mul_lt_mul_right this

theorem mod_1_1Go_spec (d db0 db1 : Nat) (hd : 2 * d ≤ B + 2) (hd0 : 0 < d) (hdb0 : db0 = B % d)
    (hdb1 : db1 = B ^ 2 % d) (rest : List Nat) (h l : Nat) (hh : h < B) (hl : l < B) (hrest : Limbs rest) :
    ((mod_1_1Go db0 db1 rest h l).2 * B + (mod_1_1Go db0 db1 rest h l).1) % d = valMS (h * B + l) rest % d ∧
    (mod_1_1Go db0 db1 rest h l).2 < d ∧ (mod_1_1Go db0 db1 rest h l).1 < B := by
  have hdB : d < B := by simp only [B_eq] at *; omega
  have hfold : ∀ (rest : List Nat) (st : Nat × Nat) (V : Nat), Pair2 st V → Limbs rest →
      ∃ V', Pair2 (rest.foldl (fold1Step db0 db1) st) V' ∧ V' % d = valMS V rest % d := by
    intro rest
    induction rest with
    | nil => intro st V hst _; exact ⟨V, hst, rfl⟩
    | cons xj xs ih =>
      intro st V hst hlim
      have ⟨hxj, hxs⟩ := Limbs_cons.mp hlim
      obtain ⟨V1, p1, e1⟩ := fold1Step_pair d db0 db1 st V xj hst hxj hd hd0 hdb0 hdb1
      obtain ⟨V2, p2, e2⟩ := ih _ V1 p1 hxs
      refine ⟨V2, by rw [List.foldl_cons]; exact p2, ?_⟩
      rw [e2, valMS_cons]; exact valMS_congr d xs _ _ e1
  obtain ⟨V', ⟨q1, q2, q3⟩, e⟩ := hfold rest (h, l) (h * B + l) ⟨hh, hl, rfl⟩ hrest
  unfold mod_1_1Go
  simp only
  obtain ⟨f1, f2, f3⟩ := foldFin_spec d db0 _ _ hd0 hdB hdb0 q1 q2
  refine ⟨?_, f2, f3⟩
  rw [f1, ← e]; simp only [v2] at q3; rw [q3]

theorem mod_1_1_wrap_spec (x : List Nat) (d : Nat) (hx : Limbs x) (hd0 : 0 < d) (hd : 2 * d ≤ B + 2) :
    mod_1_1_wrap x d = val x % d := by
  have hdB : d < B := by simp only [B_eq] at *; omega
  rw [val_eq_valMS]
  unfold mod_1_1_wrap
  have hl := Limbs_reverse hx
  cases hrev : x.reverse with
  | nil => simp [valMS]
  | cons h t =>
    cases t with
    | nil => simp [valMS]
    | cons l rest =>
      rw [hrev] at hl
      have ⟨hh, hl'⟩ := Limbs_cons.mp hl
      have ⟨hll, hrest⟩ := Limbs_cons.mp hl'
      obtain ⟨hc, h1, h2⟩ := clz_spec d (by omega) hdB
      simp only
      rw [Nat.shiftLeft_eq d, Nat.mod_eq_of_lt h2, wrap_pow_first d hd0 hdB,
        wrap_pow_step d _ (B % d) h1 h2 (Nat.mod_lt _ hd0), shr_cancel, shr_cancel]
      have hdb1 : (B % d * B) % d = B ^ 2 % d := by rw [pow_two, Nat.mod_mul_mod]
      obtain ⟨g1, g2, g3⟩ := mod_1_1Go_spec d (B % d) ((B % d * B) % d) hd hd0 rfl hdb1 rest h l hh hll hrest
      rw [modWrapFinal_spec _ _ d _ hc h1 h2 g3 g2, g1, valMS_cons, valMS_cons, Nat.zero_mul, Nat.zero_add]

theorem prod_le (a b d : Nat) (ha : a < B) (hb : b < d) : a * b ≤ (B - 1) * (d - 1) :=
  Nat.mul_le_mul (by omega) (by omega)

/-- one trip of the mpn_mod_1_2 loop -/
theorem fold2Step_pair (d db0 db1 db2 xj1 xj th tl : Nat) (hxj1 : xj1 < B) (hxj : xj < B) (hth : th < B)
    (htl : tl < B) (hd : 3 * d ≤ B + 3) (hd0 : 0 < d) (hdb0 : db0 = B % d) (hdb1 : db1 = B ^ 2 % d)
    (hdb2 : db2 = B ^ 3 % d) :
    ∃ V', Pair2 (fold2Step db0 db1 db2 xj1 xj th tl) V' ∧ V' % d = ((th * B + tl) * B ^ 2 + xj1 * B + xj) % d := by
  have hl0 : db0 < d := by rw [hdb0]; exact Nat.mod_lt _ hd0
  have hl1 : db1 < d := by rw [hdb1]; exact Nat.mod_lt _ hd0
  have hl2 : db2 < d := by rw [hdb2]; exact Nat.mod_lt _ hd0
  have hdB : d < B := by simp only [B_eq] at *; omega
  have b0 := prod_le xj1 db0 d hxj1 hl0
  have b1 := prod_le tl db1 d htl hl1
  have b2 := prod_le th db2 d hth hl2
  have hb : 3 * ((B - 1) * (d - 1)) + B ≤ B * B := by simp only [B_eq] at *; omega
  have m0 := mulAddLimb_pair xj1 db0 xj hxj1 (by omega) hxj
  have m1 := accMul_pair _ _ tl db1 m0 htl (by omega) (by omega)
  have m2 := mulAcc_pair th db2 _ _ m1 hth (by omega) (by omega)
  refine ⟨_, m2, ?_⟩
  rw [hdb0, hdb1, hdb2]
  have e1 : th * (B ^ 3 % d) + (xj1 * (B % d) + xj + tl * (B ^ 2 % d)) ≡
      th * B ^ 3 + (xj1 * B + xj + tl * B ^ 2) [MOD d] :=
    Nat.ModEq.add (Nat.ModEq.mul_left _ (Nat.mod_modEq _ _))
      (Nat.ModEq.add (Nat.ModEq.add_right _ (Nat.ModEq.mul_left _ (Nat.mod_modEq _ _)))
        (Nat.ModEq.mul_left _ (Nat.mod_modEq _ _)))
  have e2 : (th * B + tl) * B ^ 2 + xj1 * B + xj = th * B ^ 3 + (xj1 * B + xj + tl * B ^ 2) := by ring
  rw [e2]; exact e1

theorem mod_1_2Go_pair (db0 db1 db2 xj1 xj : Nat) (xs : List Nat) (th tl : Nat) :
    mod_1_2Go db0 db1 db2 (xj1 :: xj :: xs) th tl =
      mod_1_2Go db0 db1 db2 xs (fold2Step db0 db1 db2 xj1 xj th tl).1 (fold2Step db0 db1 db2 xj1 xj th tl).2 := rfl
theorem mod_1_2Go_one (db0 db1 db2 x0 th tl : Nat) :
    mod_1_2Go db0 db1 db2 [x0] th tl =
      foldFin db0 (fold1Step db0 db1 (th, tl) x0).1 (fold1Step db0 db1 (th, tl) x0).2 := rfl
theorem mod_1_2Go_nil (db0 db1 db2 th tl : Nat) : mod_1_2Go db0 db1 db2 [] th tl = foldFin db0 th tl := rfl

theorem mod_1_2Go_spec (d db0 db1 db2 : Nat) (hd : 3 * d ≤ B + 3) (hd0 : 0 < d) (hdb0 : db0 = B % d)
    (hdb1 : db1 = B ^ 2 % d) (hdb2 : db2 = B ^ 3 % d) (rest : List Nat) :
    ∀ th tl, th < B → tl < B → Limbs rest →
    ((mod_1_2Go db0 db1 db2 rest th tl).2 * B + (mod_1_2Go db0 db1 db2 rest th tl).1) % d =
      valMS (th * B + tl) rest % d ∧
    (mod_1_2Go db0 db1 db2 rest th tl).2 < d ∧ (mod_1_2Go db0 db1 db2 rest th tl).1 < B := by
  have hdB : d < B := by simp only [B_eq] at *; omega
  induction rest using list_pair_induction with
  | h0 =>
    intro th tl hth htl _
    rw [mod_1_2Go_nil]
    exact foldFin_spec d db0 th tl hd0 hdB hdb0 hth htl
  | h1 x0 =>
    intro th tl hth htl hl
    have ⟨hx0, _⟩ := Limbs_cons.mp hl
    rw [mod_1_2Go_one]
    obtain ⟨V', ⟨q1, q2, q3⟩, e⟩ := fold1Step_pair d db0 db1 (th, tl) (th * B + tl) x0 ⟨hth, htl, rfl⟩ hx0
      (by omega) hd0 hdb0 hdb1
    obtain ⟨f1, f2, f3⟩ := foldFin_spec d db0 _ _ hd0 hdB hdb0 q1 q2
    refine ⟨?_, f2, f3⟩
    simp only [v2] at q3
    rw [f1, q3, e, valMS_cons]; rfl
  | h2 xj1 xj xs ih =>
    intro th tl hth htl hl
    have ⟨hxj1, hl'⟩ := Limbs_cons.mp hl
    have ⟨hxj, hxs⟩ := Limbs_cons.mp hl'
    rw [mod_1_2Go_pair]
    obtain ⟨V', ⟨q1, q2, q3⟩, e⟩ := fold2Step_pair d db0 db1 db2 xj1 xj th tl hxj1 hxj hth htl hd hd0 hdb0 hdb1 hdb2
    obtain ⟨g1, g2, g3⟩ := ih _ _ q1 q2 hxs
    refine ⟨?_, g2, g3⟩
    simp only [v2] at q3
    rw [g1, q3, valMS_cons, valMS_cons]
    apply valMS_congr
    have : ((th * B + tl) * B + xj1) * B + xj = (th * B + tl) * B ^ 2 + xj1 * B + xj := by ring
    rw [e, this]

/-- one trip of the mpn_mod_1_3 loop -/
theorem fold3Step_pair (d db0 db1 db2 db3 xj2 xj1 xj th tl : Nat) (hxj2 : xj2 < B) (hxj1 : xj1 < B) (hxj : xj < B)
    (hth : th < B) (htl : tl < B) (hd : 4 * d ≤ B + 4) (hd0 : 0 < d) (hdb0 : db0 = B % d)
    (hdb1 : db1 = B ^ 2 % d) (hdb2 : db2 = B ^ 3 % d) (hdb3 : db3 = B ^ 4 % d) :
    ∃ V', Pair2 (fold3Step db0 db1 db2 db3 xj2 xj1 xj th tl) V' ∧
      V' % d = ((th * B + tl) * B ^ 3 + xj2 * B ^ 2 + xj1 * B + xj) % d := by
  have hl0 : db0 < d := by rw [hdb0]; exact Nat.mod_lt _ hd0
  have hl1 : db1 < d := by rw [hdb1]; exact Nat.mod_lt _ hd0
  have hl2 : db2 < d := by rw [hdb2]; exact Nat.mod_lt _ hd0
  have hl3 : db3 < d := by rw [hdb3]; exact Nat.mod_lt _ hd0
  have hdB : d < B := by simp only [B_eq] at *; omega
  have b0 := prod_le xj1 db0 d hxj1 hl0
  have b1 := prod_le xj2 db1 d hxj2 hl1
  have b2 := prod_le tl db2 d htl hl2
  have b3 := prod_le th db3 d hth hl3
  have hb : 4 * ((B - 1) * (d - 1)) + B ≤ B * B := by simp only [B_eq] at *; omega
  have m0 := mulAddLimb_pair xj1 db0 xj hxj1 (by omega) hxj
  have m1 := accMul_pair _ _ xj2 db1 m0 hxj2 (by omega) (by omega)
  have m2 := accMul_pair _ _ tl db2 m1 htl (by omega) (by omega)
  have m3 := mulAcc_pair th db3 _ _ m2 hth (by omega) (by omega)
  refine ⟨_, m3, ?_⟩
  rw [hdb0, hdb1, hdb2, hdb3]
  have e1 : th * (B ^ 4 % d) + (xj1 * (B % d) + xj + xj2 * (B ^ 2 % d) + tl * (B ^ 3 % d)) ≡
      th * B ^ 4 + (xj1 * B + xj + xj2 * B ^ 2 + tl * B ^ 3) [MOD d] :=
    Nat.ModEq.add (Nat.ModEq.mul_left _ (Nat.mod_modEq _ _))
      (Nat.ModEq.add (Nat.ModEq.add (Nat.ModEq.add_right _ (Nat.ModEq.mul_left _ (Nat.mod_modEq _ _)))
        (Nat.ModEq.mul_left _ (Nat.mod_modEq _ _))) (Nat.ModEq.mul_left _ (Nat.mod_modEq _ _)))
  have e2 : (th * B + tl) * B ^ 3 + xj2 * B ^ 2 + xj1 * B + xj =
      th * B ^ 4 + (xj1 * B + xj + xj2 * B ^ 2 + tl * B ^ 3) := by ring
  rw [e2]; exact e1

/-- the one-limb tail of mod_1_3: `sh = 0; sl = xp[0]`, then tl·db0 and th·db1 -/
theorem tail3b_pair (d db0 db1 x0 th tl : Nat) (hx0 : x0 < B) (hth : th < B) (htl : tl < B)
    (hd : 2 * d ≤ B + 2) (hd0 : 0 < d) (hdb0 : db0 = B % d) (hdb1 : db1 = B ^ 2 % d) :
    ∃ V', Pair2 (mulAcc th db1 (accMul (0, x0) tl db0)) V' ∧ V' % d = ((th * B + tl) * B + x0) % d := by
  have hl0 : db0 < d := by rw [hdb0]; exact Nat.mod_lt _ hd0
  have hl1 : db1 < d := by rw [hdb1]; exact Nat.mod_lt _ hd0
  have hdB : d < B := by simp only [B_eq] at *; omega
  have b0 := prod_le tl db0 d htl hl0
  have b1 := prod_le th db1 d hth hl1
  have hb : 2 * ((B - 1) * (d - 1)) + B ≤ B * B := by simp only [B_eq] at *; omega
  have m0 : Pair2 (0, x0) x0 := ⟨B_pos, hx0, by simp [v2]⟩
  have m1 := accMul_pair _ _ tl db0 m0 htl (by omega) (by omega)
  have m2 := mulAcc_pair th db1 _ _ m1 hth (by omega) (by omega)
  refine ⟨_, m2, ?_⟩
  rw [hdb0, hdb1]
  have e1 : th * (B ^ 2 % d) + (x0 + tl * (B % d)) ≡ th * B ^ 2 + (x0 + tl * B) [MOD d] :=
    Nat.ModEq.add (Nat.ModEq.mul_left _ (Nat.mod_modEq _ _))
      (Nat.ModEq.add_left _ (Nat.ModEq.mul_left _ (Nat.mod_modEq _ _)))
  have e2 : (th * B + tl) * B + x0 = th * B ^ 2 + (x0 + tl * B) := by ring
  rw [e2]; exact e1

theorem mod_1_3Go_triple (db0 db1 db2 db3 xj2 xj1 xj : Nat) (xs : List Nat) (th tl : Nat) :
    mod_1_3Go db0 db1 db2 db3 (xj2 :: xj1 :: xj :: xs) th tl =
      mod_1_3Go db0 db1 db2 db3 xs (fold3Step db0 db1 db2 db3 xj2 xj1 xj th tl).1
        (fold3Step db0 db1 db2 db3 xj2 xj1 xj th tl).2 := rfl
theorem mod_1_3Go_two (db0 db1 db2 db3 x1 x0 th tl : Nat) :
    mod_1_3Go db0 db1 db2 db3 [x1, x0] th tl =
      foldFin db0 (fold2Step db0 db1 db2 x1 x0 th tl).1 (fold2Step db0 db1 db2 x1 x0 th tl).2 := rfl
theorem mod_1_3Go_one (db0 db1 db2 db3 x0 th tl : Nat) :
    mod_1_3Go db0 db1 db2 db3 [x0] th tl =
      foldFin db0 (mulAcc th db1 (accMul (0, x0) tl db0)).1 (mulAcc th db1 (accMul (0, x0) tl db0)).2 := rfl
theorem mod_1_3Go_nil (db0 db1 db2 db3 th tl : Nat) :
    mod_1_3Go db0 db1 db2 db3 [] th tl = foldFin db0 th tl := rfl

theorem list_triple_induction {P : List Nat → Prop} (h0 : P []) (h1 : ∀ x, P [x]) (h2 : ∀ x y, P [x, y])
    (h3 : ∀ x y z xs, P xs → P (x :: y :: z :: xs)) : ∀ l, P l
  | [] => h0
  | [x] => h1 x
  | [x, y] => h2 x y
  | x :: y :: z :: xs => h3 x y z xs (list_triple_induction h0 h1 h2 h3 xs)

theorem mod_1_3Go_spec (d db0 db1 db2 db3 : Nat) (hd : 4 * d ≤ B + 4) (hd0 : 0 < d) (hdb0 : db0 = B % d)
    (hdb1 : db1 = B ^ 2 % d) (hdb2 : db2 = B ^ 3 % d) (hdb3 : db3 = B ^ 4 % d) (rest : List Nat) :
    ∀ th tl, th < B → tl < B → Limbs rest →
    ((mod_1_3Go db0 db1 db2 db3 rest th tl).2 * B + (mod_1_3Go db0 db1 db2 db3 rest th tl).1) % d =
      valMS (th * B + tl) rest % d ∧
    (mod_1_3Go db0 db1 db2 db3 rest th tl).2 < d ∧ (mod_1_3Go db0 db1 db2 db3 rest th tl).1 < B := by
  have hdB : d < B := by simp only [B_eq] at *; omega
  induction rest using list_triple_induction with
  | h0 =>
    intro th tl hth htl _
    rw [mod_1_3Go_nil]
    exact foldFin_spec d db0 th tl hd0 hdB hdb0 hth htl
  | h1 x0 =>
    intro th tl hth htl hl
    have ⟨hx0, _⟩ := Limbs_cons.mp hl
    rw [mod_1_3Go_one]
    obtain ⟨V', ⟨q1, q2, q3⟩, e⟩ := tail3b_pair d db0 db1 x0 th tl hx0 hth htl (by omega) hd0 hdb0 hdb1
    obtain ⟨f1, f2, f3⟩ := foldFin_spec d db0 _ _ hd0 hdB hdb0 q1 q2
    refine ⟨?_, f2, f3⟩
    simp only [v2] at q3
    rw [f1, q3, e, valMS_cons]; rfl
  | h2 x1 x0 =>
    intro th tl hth htl hl
    have ⟨hx1, hl'⟩ := Limbs_cons.mp hl
    have ⟨hx0, _⟩ := Limbs_cons.mp hl'
    rw [mod_1_3Go_two]
    obtain ⟨V', ⟨q1, q2, q3⟩, e⟩ := fold2Step_pair d db0 db1 db2 x1 x0 th tl hx1 hx0 hth htl (by omega) hd0
      hdb0 hdb1 hdb2
    obtain ⟨f1, f2, f3⟩ := foldFin_spec d db0 _ _ hd0 hdB hdb0 q1 q2
    refine ⟨?_, f2, f3⟩
    simp only [v2] at q3
    have : valMS (th * B + tl) [x1, x0] = (th * B + tl) * B ^ 2 + x1 * B + x0 := by
      rw [valMS_cons, valMS_cons]; show ((th * B + tl) * B + x1) * B + x0 = _; ring
    rw [f1, q3, e, this]
  | h3 xj2 xj1 xj xs ih =>
    intro th tl hth htl hl
    have ⟨hxj2, hl'⟩ := Limbs_cons.mp hl
    have ⟨hxj1, hl''⟩ := Limbs_cons.mp hl'
    have ⟨hxj, hxs⟩ := Limbs_cons.mp hl''
    rw [mod_1_3Go_triple]
    obtain ⟨V', ⟨q1, q2, q3⟩, e⟩ := fold3Step_pair d db0 db1 db2 db3 xj2 xj1 xj th tl hxj2 hxj1 hxj hth htl hd hd0
      hdb0 hdb1 hdb2 hdb3
    obtain ⟨g1, g2, g3⟩ := ih _ _ q1 q2 hxs
    refine ⟨?_, g2, g3⟩
    simp only [v2] at q3
    rw [g1, q3, valMS_cons, valMS_cons, valMS_cons]
    apply valMS_congr
    have : (((th * B + tl) * B + xj2) * B + xj1) * B + xj =
        (th * B + tl) * B ^ 3 + xj2 * B ^ 2 + xj1 * B + xj := by ring
    rw [e, this]

theorem pow_mod_step (d k : Nat) : (B ^ k % d * B) % d = B ^ (k + 1) % d := by
  rw [pow_succ, Nat.mod_mul_mod]

theorem mod_1_2_wrap_spec (x : List Nat) (d : Nat) (hx : Limbs x) (hd0 : 0 < d) (hd : 3 * d ≤ B + 3) :
    mod_1_2_wrap x d = val x % d := by
  have hdB : d < B := by simp only [B_eq] at *; omega
  rw [val_eq_valMS]
  unfold mod_1_2_wrap
  have hl := Limbs_reverse hx
  cases hrev : x.reverse with
  | nil => simp [valMS]
  | cons h t =>
    cases t with
    | nil => simp [valMS]
    | cons l rest =>
      rw [hrev] at hl
      have ⟨hh, hl'⟩ := Limbs_cons.mp hl
      have ⟨hll, hrest⟩ := Limbs_cons.mp hl'
      obtain ⟨hc, h1, h2⟩ := clz_spec d (by omega) hdB
      have hm := fun k => Nat.mod_lt (B ^ k) hd0
      have hB1 : B % d = B ^ 1 % d := by rw [pow_one]
      simp only
      rw [Nat.shiftLeft_eq d, Nat.mod_eq_of_lt h2, wrap_pow_first d hd0 hdB, hB1,
        wrap_pow_step d _ _ h1 h2 (hm 1), pow_mod_step, wrap_pow_step d _ _ h1 h2 (hm 2), pow_mod_step,
        shr_cancel, shr_cancel, shr_cancel]
      obtain ⟨g1, g2, g3⟩ := mod_1_2Go_spec d _ _ _ hd hd0 hB1.symm rfl rfl rest h l hh hll hrest
      rw [modWrapFinal_spec _ _ d _ hc h1 h2 g3 g2, g1, valMS_cons, valMS_cons, Nat.zero_mul, Nat.zero_add]

theorem mod_1_3_wrap_spec (x : List Nat) (d : Nat) (hx : Limbs x) (hd0 : 0 < d) (hd : 4 * d ≤ B + 4) :
    mod_1_3_wrap x d = val x % d := by
  have hdB : d < B := by simp only [B_eq] at *; omega
  rw [val_eq_valMS]
  unfold mod_1_3_wrap
  have hl := Limbs_reverse hx
  cases hrev : x.reverse with
  | nil => simp [valMS]
  | cons h t =>
    cases t with
    | nil => simp [valMS]
    | cons l rest =>
      rw [hrev] at hl
      have ⟨hh, hl'⟩ := Limbs_cons.mp hl
      have ⟨hll, hrest⟩ := Limbs_cons.mp hl'
      obtain ⟨hc, h1, h2⟩ := clz_spec d (by omega) hdB
      have hm := fun k => Nat.mod_lt (B ^ k) hd0
      have hB1 : B % d = B ^ 1 % d := by rw [pow_one]
      simp only
      rw [Nat.shiftLeft_eq d, Nat.mod_eq_of_lt h2, wrap_pow_first d hd0 hdB, hB1,
        wrap_pow_step d _ _ h1 h2 (hm 1), pow_mod_step, wrap_pow_step d _ _ h1 h2 (hm 2), pow_mod_step,
        wrap_pow_step d _ _ h1 h2 (hm 3), pow_mod_step,
        shr_cancel, shr_cancel, shr_cancel, shr_cancel]
      obtain ⟨g1, g2, g3⟩ := mod_1_3Go_spec d _ _ _ _ hd hd0 hB1.symm rfl rfl rfl rest h l hh hll hrest
      rw [modWrapFinal_spec _ _ d _ hc h1 h2 g3 g2, g1, valMS_cons, valMS_cons, Nat.zero_mul, Nat.zero_add]

/-- mpn_divrem_euclidean_r_1 returns the remainder on every branch -/
theorem divrem_euclidean_r_1_spec (x : List Nat) (d : Nat) (hx : Limbs x) (hd0 : 0 < d) (hdB : d < B) :
    divrem_euclidean_r_1 x d = val x % d := by
  unfold divrem_euclidean_r_1
  simp only [Bool.and_eq_true, decide_eq_true_eq]
  have hH : HIGHBIT = 9223372036854775808 := by unfold HIGHBIT; rw [B_eq]
  have hM : LIMB_MAX = 18446744073709551615 := by unfold LIMB_MAX; rw [B_eq]
  split
  · rename_i h
    exact mod_1_3_wrap_spec x d hx hd0 (by have := h.1; rw [hH] at this; simp only [B_eq]; omega)
  · split
    · rename_i h
      exact mod_1_2_wrap_spec x d hx hd0 (by have := h.1; rw [hM] at this; simp only [B_eq]; omega)
    · split
      · rename_i h
        exact mod_1_1_wrap_spec x d hx hd0 (by have := h.1; rw [hH] at this; simp only [B_eq]; omega)
      · obtain ⟨hs, h1, h2⟩ := clz_spec d (by omega) hdB
        rw [Nat.shiftLeft_eq, Nat.mod_eq_of_lt h2]
        have := euclidLoop_eq d _ hs h1 h2 x.reverse 0 hd0 (Limbs_reverse hx)
        rw [Nat.zero_mul] at this
        rw [this]
        simp only
        rw [shr_cancel, plainLoop_rem d _ _ hd0 (Limbs_reverse hx), ← val_eq_valMS]


/-- the Hensel path of mpn_divrem_1 (divrem_1.c:102-108): remainder by mpn_divrem_euclidean_r_1,
    quotient by the 2-adic division of n − r by the odd part of d, shifted right on the fly -/
theorem divrem_1_hensel_path (u : List Nat) (d : Nat) (hu : Limbs u) (hne : u ≠ []) (hd0 : 0 < d) (hdB : d < B) :
    Divrem1Spec 0 u d
      ((rsh_divrem_hensel_qr_1 u (d >>> count_trailing_zeros d) (count_trailing_zeros d)
        (divrem_euclidean_r_1 u d)).1, divrem_euclidean_r_1 u d) := by
  rw [divrem_euclidean_r_1_spec u d hu hd0 hdB]
  obtain ⟨hdvd, hodd, hi⟩ := ctz_spec d hd0 hdB
  generalize count_trailing_zeros d = i at *
  rw [Nat.shiftRight_eq_div_pow]
  have hp : 0 < 2 ^ i := by positivity
  obtain ⟨d', hd'⟩ := hdvd
  have hdd : d / 2 ^ i = d' := by rw [hd', Nat.mul_div_cancel_left _ hp]
  rw [hdd] at hodd ⊢
  have hd'le : d' ≤ d := by rw [hd']; exact Nat.le_mul_of_pos_left _ hp
  have hr : val u % d < d := Nat.mod_lt _ hd0
  have hspec := rsh_divrem_hensel_qr_1_spec u d' i (val u % d) hu hne hodd (by omega) hi (by omega)
  have hdvd' : d' ∣ val u - val u % d :=
    Dvd.dvd.trans ⟨2 ^ i, by rw [hd', Nat.mul_comm]⟩ (Nat.dvd_sub_mod (val u))
  obtain ⟨e1, e2, e3⟩ := hensel_exact u d' i (val u % d) _ hspec hodd (Nat.mod_le _ _) hdvd'
  refine ⟨?_, hr, e2, by rw [e3, Nat.add_zero]⟩
  simp only
  rw [e1, Nat.div_div_eq_div_mul, Nat.mul_comm d' (2 ^ i), ← hd', pow_zero, Nat.mul_one]
  have h1 : (val u - val u % d) / d = val u / d := by
    have := Nat.div_add_mod (val u) d
    have h2 : val u - val u % d = d * (val u / d) := by omega
    rw [h2, Nat.mul_div_cancel_left _ hd0]
  rw [h1, Nat.mul_comm]; exact Nat.div_add_mod _ _

/-- mpn_divrem_1 on every path -/
theorem divrem_1_spec (qxn : Nat) (u : List Nat) (d : Nat) (hu : Limbs u) (hd0 : 0 < d) (hdB : d < B) :
    Divrem1Spec qxn u d (divrem_1 qxn u d) := by
  by_cases hnh : (decide (qxn = 0) && (decide (d ≤ HIGHBIT / 2 + 1) &&
      ABOVE_THRESHOLD u.length Gen.DIVREM_EUCLID_HENSEL_THRESHOLD)) = false
  · exact divrem_1_spec_nohensel qxn u d hu hd0 hdB hnh
  · rw [Bool.not_eq_false] at hnh
    unfold divrem_1
    simp only [hnh, if_true]
    split
    · rename_i h0
      have hu0 : u = [] := List.eq_nil_of_length_eq_zero (by omega)
      have hq0 : qxn = 0 := by omega
      subst hu0 hq0
      exact ⟨by simp, hd0, Limbs_nil, rfl⟩
    · rename_i hn0
      have hq : qxn = 0 := by
        simp only [Bool.and_eq_true, decide_eq_true_eq] at hnh; exact hnh.1
      subst hq
      have hne : u ≠ [] := by
        intro h; subst h; simp at hn0
      exact divrem_1_hensel_path u d hu hne hd0 hdB


/-! ### udiv_qrnnd_preinv1 (the branching variant; not selected in this build) -/

/-- the estimate q0 = nh + ⌊nh·di/B⌋ is never too large and at most three too small: 0 ≤ n − q0·d < B + 2d -/
theorem preinv1_core (nh nl d di : Nat) (h1 : B / 2 ≤ d) (h2 : d < B) (hnh : nh < d) (hnl : nl < B)
    (hv1 : (B + di) * d ≤ B * B - 1) (hv2 : B * B - 1 < (B + di + 1) * d) :
    (nh * di / B + nh) * d ≤ nh * B + nl ∧ nh * B + nl < (nh * di / B + nh) * d + B + 2 * d := by
  have hB := B_pos
  have hBB : 0 < B * B := Nat.mul_pos hB hB
  have hdm := Nat.div_add_mod' (nh * di) B
  have hb := Nat.mod_lt (nh * di) hB
  generalize nh * di / B = a at *
  generalize nh * di % B = b at *
  -- k = B² − (B+di)·d
  obtain ⟨k, hk, hk1, hk2⟩ : ∃ k, (B + di) * d + k = B * B ∧ 1 ≤ k ∧ k ≤ d := by
    refine ⟨B * B - (B + di) * d, by omega, by omega, ?_⟩
    have : (B + di + 1) * d = (B + di) * d + d := by ring
    omega
  -- (n − q0 d)·B = nl·B + nh·k + b·d
  have key : (a + nh) * d * B + (nl * B + nh * k + b * d) = (nh * B + nl) * B := by
    have e1 : (a + nh) * d * B = (a * B + nh * B) * d := by ring
    have e2 : a * B = nh * di - b := by omega
    have e3 : (a * B + nh * B) * d + b * d = nh * ((B + di) * d) := by
      have : a * B + b = nh * di := hdm
      calc (a * B + nh * B) * d + b * d = (a * B + b + nh * B) * d := by ring
        _ = (nh * di + nh * B) * d := by rw [this]
        _ = nh * ((B + di) * d) := by ring
    have e4 : nh * ((B + di) * d) + nh * k = nh * (B * B) := by rw [← Nat.mul_add, hk]
    calc (a + nh) * d * B + (nl * B + nh * k + b * d)
        = ((a * B + nh * B) * d + b * d) + nh * k + nl * B := by rw [e1]; ring
      _ = nh * ((B + di) * d) + nh * k + nl * B := by rw [e3]
      _ = nh * (B * B) + nl * B := by rw [e4]
      _ = (nh * B + nl) * B := by ring
  constructor
  · have : (a + nh) * d * B ≤ (nh * B + nl) * B := by omega
    exact Nat.le_of_mul_le_mul_right this hB
  · have b1 : nl * B ≤ (B - 1) * B := Nat.mul_le_mul_right _ (by omega)
    have b2 : nh * k ≤ (d - 1) * d := Nat.mul_le_mul (by omega) hk2
    have b3 : b * d ≤ (B - 1) * d := Nat.mul_le_mul_right _ (by omega)
    have b4 : (d - 1) * d ≤ (d - 1) * B := Nat.mul_le_mul_left _ (Nat.le_of_lt h2)
    have hlt : (nh * B + nl) * B < ((a + nh) * d + B + 2 * d) * B := by
      have e : ((a + nh) * d + B + 2 * d) * B = (a + nh) * d * B + B * B + 2 * d * B := by ring
      rw [e, ← key]
      have : (B - 1) * B + (d - 1) * B + (B - 1) * d < B * B + 2 * d * B := by
        have e1 : (B - 1) * B + B = B * B := by
          have : (B - 1 + 1) * B = B * B := by rw [Nat.sub_add_cancel hB]
          rw [← this]; ring
        have e2 : (d - 1) * B + B = d * B := by
          have : (d - 1 + 1) * B = d * B := by rw [Nat.sub_add_cancel (by omega)]
          rw [← this]; ring
        have e3 : (B - 1) * d + d = B * d := by
          have : (B - 1 + 1) * d = B * d := by rw [Nat.sub_add_cancel hB]
          rw [← this]; ring
        have e4 : 2 * d * B = d * B + B * d := by ring
        omega
      omega
    exact Nat.lt_of_mul_lt_mul_right hlt

theorem udiv_qrnnd_preinv1_eq (nh nl d : Nat) (h1 : B / 2 ≤ d) (h2 : d < B) (hnh : nh < d) (hnl : nl < B) :
    udiv_qrnnd_preinv1 nh nl d (invert_limb d) = ((nh * B + nl) / d, (nh * B + nl) % d) := by
  obtain ⟨hv, hv1, hv2⟩ := invert_limb_bounds d h1 h2
  generalize invert_limb d = di at *
  obtain ⟨c1, c2⟩ := preinv1_core nh nl d di h1 h2 hnh hnl hv1 hv2
  have hB := B_pos
  have hBB : 0 < B * B := Nat.mul_pos hB hB
  have hd0 : 0 < d := by omega
  have hnlt : nh * B + nl < d * B := by
    have : (nh + 1) * B ≤ d * B := Nat.mul_le_mul_right _ hnh
    have : (nh + 1) * B = nh * B + B := by ring
    omega
  have hq0B : nh * di / B + nh < B := by
    have : (nh * di / B + nh) * d < B * d := by rw [Nat.mul_comm B d]; omega
    exact Nat.lt_of_mul_lt_mul_right this
  unfold udiv_qrnnd_preinv1
  simp only [umul_ppmm_eq]
  rw [Nat.mod_eq_of_lt hq0B]
  generalize nh * di / B + nh = q0 at *
  -- the first subtraction: R = n − q0·d, no borrow
  have hdBB : d * B ≤ B * B := Nat.mul_le_mul_right _ (Nat.le_of_lt h2)
  have hXlt : q0 * d < B * B := by omega
  rw [sub_ddmmss_eq nh nl _ _ (by omega) hnl ((Nat.div_lt_iff_lt_mul hB).mpr hXlt) (Nat.mod_lt _ hB),
    Nat.div_add_mod', pair2_mod]
  have hR : (nh * B + nl + B * B - q0 * d) % (B * B) = nh * B + nl - q0 * d := by
    have : nh * B + nl + B * B - q0 * d = (nh * B + nl - q0 * d) + B * B := by omega
    rw [this, Nat.add_mod_right, Nat.mod_eq_of_lt (by omega)]
  rw [hR]
  simp only
  obtain ⟨R, hRdef⟩ : ∃ R, nh * B + nl - q0 * d = R := ⟨_, rfl⟩
  rw [hRdef]
  have hn : nh * B + nl = q0 * d + R := by omega
  have hRlt : R < B + 2 * d := by omega
  have hBd : B ≤ 2 * d := by simp only [B_eq] at *; omega
  -- number of remaining subtractions
  obtain ⟨j, hj, hj1, hj2⟩ : ∃ j, j ≤ 3 ∧ j * d ≤ R ∧ R < j * d + d := by
    refine ⟨R / d, ?_, Nat.div_mul_le_self R d, ?_⟩
    · have : R / d < 4 := by rw [Nat.div_lt_iff_lt_mul hd0]; omega
      omega
    · have := Nat.lt_mul_div_succ R hd0
      rw [Nat.mul_add, Nat.mul_one, Nat.mul_comm d] at this; exact this
  obtain ⟨e1, e2⟩ := divmod_of_eq (nh * B + nl) d (q0 + j) (R - j * d) (by rw [Nat.add_mul]; omega) (by omega)
  rw [e1, e2]
  have hqj : q0 + j < B := by
    have : (q0 + j) * d < B * d := by rw [Nat.add_mul, Nat.mul_comm B d]; omega
    exact Nat.lt_of_mul_lt_mul_right this
  generalize hJ : j * d = J at *
  clear hn hnlt c1 c2 hv1 hv2 hRdef hR e1 e2 hXlt
  unfold preinv1Adj1 preinv1Adj2
  by_cases hx : R / B = 0
  · -- R < B: at most one subtraction
    have hx' : (R / B != 0) = false := by simp [hx]
    rw [hx']
    simp only [Bool.false_eq_true, if_false]
    have hRB : R < B := by
      rcases Nat.lt_or_ge R B with h | h
      · exact h
      · have : 1 ≤ R / B := (Nat.one_le_div_iff hB).mpr h
        omega
    rw [Nat.mod_eq_of_lt hRB]
    have hj01 : j = 0 ∨ j = 1 := by
      rcases Nat.lt_or_ge j 2 with h | h
      · omega
      · have : 2 * d ≤ j * d := Nat.mul_le_mul_right _ h
        omega
    rcases hj01 with rfl | rfl
    · rw [Nat.zero_mul] at hJ; subst hJ
      rw [if_neg (by omega)]; simp
    · rw [Nat.one_mul] at hJ; subst hJ
      rw [if_pos (by omega)]
      refine Prod.ext ?_ ?_
      · exact Nat.mod_eq_of_lt hqj
      · show (R + B - d) % B = R - d
        have : R + B - d = (R - d) + B := by omega
        rw [this, Nat.add_mod_right, Nat.mod_eq_of_lt (by omega)]
  · -- R ≥ B: one or two subtractions inside the first block
    have hx' : (R / B != 0) = true := by simp [hx]
    rw [hx']
    simp only [if_true]
    have hRB : B ≤ R := by
      by_contra hcon
      exact hx (Nat.div_eq_of_lt (by omega))
    have h3B : 3 * B ≤ B * B := Nat.mul_le_mul_right _ (by rw [B_eq]; norm_num)
    have hRBB : R < B * B := by omega
    rw [sub2_eq R 0 d hRBB hB h2, Nat.zero_mul, Nat.zero_add]
    have hR1 : (R + B * B - d) % (B * B) = R - d := by
      have : R + B * B - d = (R - d) + B * B := by omega
      rw [this, Nat.add_mod_right, Nat.mod_eq_of_lt (by omega)]
    rw [hR1]
    have hj4 : j = 0 ∨ j = 1 ∨ j = 2 ∨ j = 3 := by omega
    have hq1 : (q0 + 1) % B = q0 + 1 := Nat.mod_eq_of_lt (by
      rcases hj4 with rfl | rfl | rfl | rfl
      · rw [Nat.zero_mul] at hJ; omega
      all_goals omega)
    rw [hq1]
    by_cases hx2 : (R - d) / B = 0
    · have hx2' : ((R - d) / B != 0) = false := by simp [hx2]
      rw [hx2']
      simp only [Bool.false_eq_true, if_false]
      have hR1B : R - d < B := by
        rcases Nat.lt_or_ge (R - d) B with h | h
        · exact h
        · have : 1 ≤ (R - d) / B := (Nat.one_le_div_iff hB).mpr h
          omega
      rw [Nat.mod_eq_of_lt hR1B]
      rcases hj4 with rfl | rfl | rfl | rfl
      · rw [Nat.zero_mul] at hJ; omega
      · rw [Nat.one_mul] at hJ; subst hJ
        rw [if_neg (by omega)]
      · subst hJ
        rw [if_pos (by omega)]
        refine Prod.ext (Nat.mod_eq_of_lt (by omega)) ?_
        show (R - d + B - d) % B = R - 2 * d
        have : R - d + B - d = (R - 2 * d) + B := by omega
        rw [this, Nat.add_mod_right, Nat.mod_eq_of_lt (by omega)]
      · subst hJ; omega
    · have hx2' : ((R - d) / B != 0) = true := by simp [hx2]
      rw [hx2']
      simp only [if_true]
      have hR1B : B ≤ R - d := by
        by_contra hcon
        exact hx2 (Nat.div_eq_of_lt (by omega))
      have hr2 : ((R - d) % B + B - d) % B = R - 2 * d := by
        have e1 : (R - d) % B = R - d - B := by
          have : R - d = (R - d - B) + B := by omega
          rw [this, Nat.add_mod_right, Nat.mod_eq_of_lt (by omega)]; omega
        rw [e1]
        have : R - d - B + B - d = R - 2 * d := by omega
        rw [this, Nat.mod_eq_of_lt (by omega)]
      rw [hr2]
      rcases hj4 with rfl | rfl | rfl | rfl
      · rw [Nat.zero_mul] at hJ; omega
      · rw [Nat.one_mul] at hJ; subst hJ; omega
      · subst hJ
        rw [if_neg (by omega)]
        exact Prod.ext (Nat.mod_eq_of_lt (by omega)) rfl
      · subst hJ
        rw [if_pos (by omega)]
        refine Prod.ext ?_ ?_
        · show ((q0 + 1 + 1) % B + 1) % B = q0 + 3
          have e1 : (q0 + 1 + 1) % B = q0 + 2 := Nat.mod_eq_of_lt (by omega)
          rw [e1]; exact Nat.mod_eq_of_lt (by omega)
        · show (R - 2 * d + B - d) % B = R - 3 * d
          have : R - 2 * d + B - d = (R - 3 * d) + B := by omega
          rw [this, Nat.add_mod_right, Nat.mod_eq_of_lt (by omega)]

end Mpir.DivWord
