/- Helper lemmas for C19: the buffer juggling of `randget_lc` (randlc2x.c) equals the concatenation of the
   high halves of consecutive `X_i`.  Bit-level (`Nat.testBit`) characterisations. -/
import Mpir.Model.Rand
import Mathlib.Tactic.Ring
import Mathlib.Tactic.Linarith
set_option linter.unusedSimpArgs false
namespace Mpir.Rand

theorem testBit_false_of_lt {x i j : Nat} (h : x < 2 ^ i) (hij : i ≤ j) : x.testBit j = false :=
  Nat.testBit_lt_two_pow (Nat.lt_of_lt_of_le h (Nat.pow_le_pow_right (by decide) hij))

/-- bits of `setLimbs`: inside the replaced window the bits of `v`, elsewhere those of `R`. -/
theorem setLimbs_testBit (R i k v j : Nat) :
    (setLimbs R i k v).testBit j =
      if j < 64 * i then R.testBit j
      else if j < 64 * (i + k) then v.testBit (j - 64 * i)
      else R.testBit j := by
  unfold setLimbs
  have e : R % 2 ^ (64 * i) + v % 2 ^ (64 * k) * 2 ^ (64 * i) + R / 2 ^ (64 * (i + k)) * 2 ^ (64 * (i + k))
      = 2 ^ (64 * i) * (2 ^ (64 * k) * (R / 2 ^ (64 * (i + k))) + v % 2 ^ (64 * k)) + R % 2 ^ (64 * i) := by
    rw [show 64 * (i + k) = 64 * i + 64 * k by ring, pow_add]; ring
  rw [e, Nat.testBit_two_pow_mul_add _ (Nat.mod_lt _ (by positivity))]
  by_cases h1 : j < 64 * i
  · simp [h1, Nat.testBit_mod_two_pow]
  · simp only [h1, if_false]
    rw [Nat.testBit_two_pow_mul_add _ (Nat.mod_lt _ (by positivity))]
    by_cases h2 : j < 64 * (i + k)
    · have : j - 64 * i < 64 * k := by omega
      simp [h2, this, Nat.testBit_mod_two_pow]
    · have : ¬ j - 64 * i < 64 * k := by omega
      simp only [h2, this, if_false, Nat.testBit_div_two_pow]
      congr 1; omega

theorem getLimb_testBit (R i j : Nat) : (getLimb R i).testBit j = (decide (j < 64) && R.testBit (j + 64 * i)) := by
  unfold getLimb
  rw [Nat.testBit_mod_two_pow, Nat.testBit_div_two_pow]

/-- `placeChunk` at bit level: the buffer below `pos` is kept, the `tn` limbs of `t` appear from `pos` on,
    cut at the end of limb `pos/64 + tn - 1` unless the shifted-out limb is stored too. -/
theorem placeChunk_testBit (R pos tn t : Nat) (carry : Bool) (hR : ∀ j, pos ≤ j → R.testBit j = false)
    (htn : 1 ≤ tn) (j : Nat) :
    (placeChunk R pos tn t carry).testBit j =
      if j < pos then R.testBit j
      else (decide (j < 64 * (pos / 64 + tn) + (if carry ∧ pos % 64 ≠ 0 then 64 else 0))
            && decide (j - pos < 64 * tn) && t.testBit (j - pos)) := by
  unfold placeChunk
  by_cases hsh : pos % 64 = 0
  · -- aligned
    simp only [hsh, ne_eq, not_true_eq_false, if_false, and_false]
    rw [setLimbs_testBit]
    by_cases h1 : j < pos
    · have : j < 64 * (pos / 64) := by omega
      simp [h1, this]
    · have h2 : ¬ j < 64 * (pos / 64) := by omega
      simp only [h1, h2, if_false]
      by_cases h3 : j < 64 * (pos / 64 + tn)
      · have : j - pos < 64 * tn := by omega
        have e : j - 64 * (pos / 64) = j - pos := by omega
        simp [h3, this, e]
      · have : ¬ j - pos < 64 * tn := by omega
        simp [h3, this, hR j (by omega)]
  · -- not aligned
    simp only [ne_eq, hsh, not_false_eq_true, if_true, and_true]
    have hq : 64 * (pos / 64) + pos % 64 = pos := Nat.div_add_mod pos 64
    have hshlt : pos % 64 < 64 := Nat.mod_lt _ (by decide)
    -- the two inner stores
    have inner : ∀ j, (setLimbs (setLimbs R (pos / 64) tn ((t % 2 ^ (64 * tn)) <<< (pos % 64) % 2 ^ (64 * tn))) (pos / 64) 1
        (getLimb (setLimbs R (pos / 64) tn ((t % 2 ^ (64 * tn)) <<< (pos % 64) % 2 ^ (64 * tn))) (pos / 64) ||| getLimb R (pos / 64))).testBit j
        = if j < pos then R.testBit j
          else (decide (j < 64 * (pos / 64 + tn)) && decide (j - pos < 64 * tn) && t.testBit (j - pos)) := by
      intro j
      rw [setLimbs_testBit]
      by_cases h1 : j < 64 * (pos / 64)
      · have : j < pos := by omega
        simp only [h1, if_true, this]
        rw [setLimbs_testBit]; simp [h1]
      · simp only [h1, if_false]
        by_cases h2 : j < 64 * (pos / 64 + 1)
        · -- limb q: lshift limb 0 | savelimb
          simp only [h2, if_true, Nat.testBit_or, getLimb_testBit, setLimbs_testBit]
          have a1 : j - 64 * (pos / 64) < 64 := by omega
          have a2 : j - 64 * (pos / 64) + 64 * (pos / 64) = j := by omega
          have a3 : j < 64 * (pos / 64 + tn) := by nlinarith
          simp only [a1, a2, h1, a3, decide_true, Bool.true_and, if_true, if_false,
            Nat.testBit_mod_two_pow, Nat.testBit_shiftLeft]
          by_cases h3 : j < pos
          · have : ¬ (j - 64 * (pos / 64) ≥ pos % 64) := by omega
            simp [h3, this]
          · have b1 : j - 64 * (pos / 64) ≥ pos % 64 := by omega
            have b2 : j - 64 * (pos / 64) < 64 * tn := by omega
            have b3 : j - 64 * (pos / 64) - pos % 64 = j - pos := by omega
            have b4 : j - pos < 64 * tn := by omega
            simp [h3, b1, b2, b3, b4, hR j (by omega)]
        · have h3 : ¬ j < pos := by omega
          simp only [h2, if_false, h3]
          rw [setLimbs_testBit]
          simp only [h1, if_false]
          by_cases h4 : j < 64 * (pos / 64 + tn)
          · have b1 : j - 64 * (pos / 64) ≥ pos % 64 := by omega
            have b2 : j - 64 * (pos / 64) < 64 * tn := by omega
            have b3 : j - 64 * (pos / 64) - pos % 64 = j - pos := by omega
            have b4 : j - pos < 64 * tn := by omega
            simp [h4, Nat.testBit_mod_two_pow, Nat.testBit_shiftLeft, b1, b2, b3, b4]
          · simp [h4, hR j (by omega)]
    cases carry
    · simp only [Bool.false_eq_true, if_false, Nat.add_zero]
      exact inner j
    · simp only [if_true]
      rw [setLimbs_testBit]
      by_cases h1 : j < 64 * (pos / 64 + tn)
      · simp only [h1, if_true]
        rw [inner j]
        have : j < 64 * (pos / 64 + tn) + 64 := by omega
        simp [h1, this]
      · simp only [h1, if_false]
        have h0 : ¬ j < pos := by nlinarith
        by_cases h2 : j < 64 * (pos / 64 + tn + 1)
        · have c1 : j < 64 * (pos / 64 + tn) + 64 := by omega
          have c2 : 64 * tn - pos % 64 + (j - 64 * (pos / 64 + tn)) = j - pos := by omega
          simp only [h2, if_true, h0, if_false, c1, decide_true, Bool.true_and, Nat.testBit_shiftRight,
            Nat.testBit_mod_two_pow, c2]
        · have c1 : ¬ j < 64 * (pos / 64 + tn) + 64 := by omega
          simp only [h2, if_false, h0, c1, decide_false, Bool.false_and]
          rw [inner j]; simp [h0, h1]

/-! ### the ideal stream of the linear congruential generator -/

/-- state after `i` steps of the recurrence. -/
def lcIter : Nat → LcState → LcState
  | 0, s => s
  | i + 1, s => (lcStep (lcIter i s)).2

/-- `X_i`: the seed value after `i` steps. -/
def lcX (s : LcState) (i : Nat) : Nat := (lcIter i s).seed

/-- bit `j` of the ideal output stream: chunk `j / (m/2)` is the high part of `X_{j/(m/2)+1}`, of which
    the low `(m+1)/2` bits are discarded. -/
def lcBit (s : LcState) (j : Nat) : Bool :=
  (lcX s (j / (s.m2exp / 2) + 1)).testBit ((s.m2exp + 1) / 2 + j % (s.m2exp / 2))

@[simp] theorem lcStep_m2exp (s : LcState) : (lcStep s).2.m2exp = s.m2exp := rfl
@[simp] theorem lcStep_a (s : LcState) : (lcStep s).2.a = s.a := rfl
@[simp] theorem lcStep_c (s : LcState) : (lcStep s).2.c = s.c := rfl

@[simp] theorem lcIter_m2exp (s : LcState) (i : Nat) : (lcIter i s).m2exp = s.m2exp := by
  induction i with
  | zero => rfl
  | succ i ih => simp [lcIter, ih]

@[simp] theorem lcIter_a (s : LcState) (i : Nat) : (lcIter i s).a = s.a := by
  induction i with
  | zero => rfl
  | succ i ih => simp [lcIter, ih]

@[simp] theorem lcIter_c (s : LcState) (i : Nat) : (lcIter i s).c = s.c := by
  induction i with
  | zero => rfl
  | succ i ih => simp [lcIter, ih]

/-- the recurrence `X_{i+1} = (a·X_i + c) mod 2^m`. -/
theorem lcX_succ (s : LcState) (i : Nat) : lcX s (i + 1) = (s.a * lcX s i + s.c) % 2 ^ s.m2exp := by
  simp [lcX, lcIter, lcStep]

theorem lcX_succ_lt (s : LcState) (i : Nat) : lcX s (i + 1) < 2 ^ s.m2exp := by
  rw [lcX_succ]; exact Nat.mod_lt _ (by positivity)

/-- delivered bit `b` of step `i+1` is bit `(m+1)/2 + b` of `X_{i+1}`. -/
theorem lcStep_out_testBit (s : LcState) (i b : Nat) :
    (lcStep (lcIter i s)).1.testBit b = (lcX s (i + 1)).testBit ((s.m2exp + 1) / 2 + b) := by
  simp [lcX, lcIter, lcStep, Nat.testBit_shiftRight]

theorem lcStep_out_lt (s : LcState) (i : Nat) : (lcStep (lcIter i s)).1 < 2 ^ (s.m2exp / 2) := by
  have h := lcX_succ_lt s i
  have e : (lcStep (lcIter i s)).1 = lcX s (i + 1) / 2 ^ ((s.m2exp + 1) / 2) := by
    simp [lcX, lcIter, lcStep, Nat.shiftRight_eq_div_pow]
  rw [e]
  apply Nat.div_lt_of_lt_mul
  rw [← pow_add]
  have : (s.m2exp + 1) / 2 + s.m2exp / 2 = s.m2exp := by omega
  rw [this]; exact h

theorem div_mod_of_range {chunk i pos j : Nat} (hpos : pos = chunk * i) (h1 : pos ≤ j) (h2 : j < pos + chunk) :
    j / chunk = i ∧ j % chunk = j - pos := by
  subst hpos
  have hd : j / chunk = i := by
    apply Nat.div_eq_of_lt_le
    · rw [Nat.mul_comm]; exact h1
    · rw [Nat.add_mul, Nat.one_mul, Nat.mul_comm]; exact h2
  refine ⟨hd, ?_⟩
  have := Nat.div_add_mod j chunk
  rw [hd] at this; omega

/-- one chunk placed by the loop of `randget_lc` extends the stream prefix by `chunk` bits. -/
theorem place_full (s0 : LcState) (chunk i pos R : Nat) (hchunk : chunk = s0.m2exp / 2) (hc : 0 < chunk)
    (hpos : pos = chunk * i)
    (hR : ∀ j, R.testBit j = (decide (j < pos) && lcBit s0 j)) (j : Nat) :
    (placeChunk R pos ((chunk + 63) / 64) (lcStep (lcIter i s0)).1 (decide (chunk % 64 + pos % 64 > 64))).testBit j
      = (decide (j < pos + chunk) && lcBit s0 j) := by
  have h64 : chunk % 64 = 0 → pos % 64 = 0 := by
    intro h; rw [hpos, Nat.mul_mod, h]; simp
  rw [placeChunk_testBit _ _ _ _ _ (fun j hj => by rw [hR j]; simp; omega) (by omega)]
  by_cases h1 : j < pos
  · have : j < pos + chunk := by omega
    simp [h1, this, hR j]
  · simp only [h1, if_false]
    by_cases h2 : j < pos + chunk
    · obtain ⟨hd, hm⟩ := div_mod_of_range hpos (by omega) h2
      have e : lcBit s0 j = (lcStep (lcIter i s0)).1.testBit (j - pos) := by
        rw [lcStep_out_testBit]; unfold lcBit; rw [← hchunk, hd, hm]
      have a1 : j - pos < 64 * ((chunk + 63) / 64) := by omega
      have a2 : j < 64 * (pos / 64 + (chunk + 63) / 64) +
          (if (decide (chunk % 64 + pos % 64 > 64) = true) ∧ pos % 64 ≠ 0 then 64 else 0) := by
        by_cases hcar : chunk % 64 + pos % 64 > 64
        · have : pos % 64 ≠ 0 := by omega
          simp [hcar, this]; omega
        · simp [hcar]
          by_cases hz : chunk % 64 = 0
          · have := h64 hz; omega
          · omega
      simp only [decide_eq_true_eq, ne_eq, gt_iff_lt] at a2
      simp [h2, a1, a2, e]
    · have : (lcStep (lcIter i s0)).1.testBit (j - pos) = false :=
        testBit_false_of_lt (lcStep_out_lt s0 i) (by rw [← hchunk]; omega)
      simp [h2, this]

/-- the `while (rbitpos + chunk_nbits <= nbits)` loop delivers the first `nbits / chunk` chunks. -/
theorem lcFull_spec (s0 : LcState) (chunk nbits : Nat) (hchunk : chunk = s0.m2exp / 2) (hc : 0 < chunk) :
    ∀ (d i pos R : Nat), d = nbits - pos → pos = chunk * i → pos ≤ nbits →
      (∀ j, R.testBit j = (decide (j < pos) && lcBit s0 j)) →
      (lcFull chunk nbits hc pos R (lcIter i s0)).1 = chunk * (nbits / chunk) ∧
      (∀ j, (lcFull chunk nbits hc pos R (lcIter i s0)).2.1.testBit j = (decide (j < chunk * (nbits / chunk)) && lcBit s0 j)) ∧
      (lcFull chunk nbits hc pos R (lcIter i s0)).2.2 = lcIter (nbits / chunk) s0 := by
  intro d
  induction d using Nat.strong_induction_on with
  | _ d ih =>
    intro i pos R hd hpos hle hR
    rw [lcFull]
    by_cases h : pos + chunk ≤ nbits
    · simp only [h, dite_true]
      have := ih (nbits - (pos + chunk)) (by omega) (i + 1) (pos + chunk)
        (placeChunk R pos ((chunk + 63) / 64) (lcStep (lcIter i s0)).1 (decide (chunk % 64 + pos % 64 > 64)))
        rfl (by rw [hpos]; ring) h (place_full s0 chunk i pos R hchunk hc hpos hR)
      exact this
    · simp only [h, dite_false]
      have hdiv : nbits / chunk = i := by
        apply Nat.div_eq_of_lt_le
        · rw [Nat.mul_comm, ← hpos]; exact hle
        · rw [Nat.add_mul, Nat.one_mul, Nat.mul_comm, ← hpos]; omega
      rw [hdiv, ← hpos]
      exact ⟨rfl, hR, rfl⟩

/-- `randget_lc` at bit level: the first `n` bits of the ideal stream, nothing above. -/
theorem randgetLc_testBit (s : LcState) (n : Nat) (hm : 2 ≤ s.m2exp) (j : Nat) :
    (randgetLc s n).1.testBit j = (decide (j < n) && lcBit s j) := by
  have hc : 0 < s.m2exp / 2 := by omega
  unfold randgetLc
  simp only [hc, dite_true]
  obtain ⟨h1, h2, h3⟩ := lcFull_spec s (s.m2exp / 2) n rfl hc n 0 0 0 rfl (by simp) (by omega)
    (by intro j; simp) 
  simp only [lcIter] at h1 h2 h3
  generalize hr : lcFull (s.m2exp / 2) n hc 0 0 s = r at h1 h2 h3
  obtain ⟨pos, R, s'⟩ := r
  simp only at h1 h2 h3
  have hle : pos ≤ n := by rw [h1]; exact Nat.mul_div_le n _
  have hlt : n < pos + s.m2exp / 2 := by
    rw [h1]; have := Nat.div_add_mod n (s.m2exp / 2); have := Nat.mod_lt n hc; omega
  by_cases hfin : pos = n
  · simp only [hfin, ne_eq, not_true_eq_false, if_false]
    rw [h2 j, ← h1, hfin]
  · simp only [ne_eq, hfin, not_false_eq_true, if_true]
    subst h3
    -- bits after the last, partial chunk
    have hplace : ∀ j, (placeChunk R pos ((n - pos + 63) / 64) (lcStep (lcIter (n / (s.m2exp / 2)) s)).1
        (decide (pos + (n - pos + 63) / 64 * 64 - pos % 64 < n))).testBit j =
        if j < pos then R.testBit j
        else (decide (j < 64 * (pos / 64 + (n - pos + 63) / 64) +
              (if (decide (pos + (n - pos + 63) / 64 * 64 - pos % 64 < n) = true) ∧ pos % 64 ≠ 0 then 64 else 0))
            && decide (j - pos < 64 * ((n - pos + 63) / 64))
            && (lcStep (lcIter (n / (s.m2exp / 2)) s)).1.testBit (j - pos)) := by
      intro j
      exact placeChunk_testBit _ _ _ _ _ (fun j hj => by rw [h2 j, ← h1]; simp; omega) (by omega) j
    have hbit : ∀ j, pos ≤ j → j < n →
        (lcStep (lcIter (n / (s.m2exp / 2)) s)).1.testBit (j - pos) = lcBit s j := by
      intro j hj1 hj2
      obtain ⟨hd, hmm⟩ := div_mod_of_range h1 hj1 (by omega)
      rw [lcStep_out_testBit]; unfold lcBit; rw [hd, hmm]
    have hq := Nat.div_add_mod pos 64
    -- the value before masking: right below n, zero from limb n/64 + 1 (or from n when n is limb aligned)
    have key : ∀ j, (placeChunk R pos ((n - pos + 63) / 64) (lcStep (lcIter (n / (s.m2exp / 2)) s)).1
        (decide (pos + (n - pos + 63) / 64 * 64 - pos % 64 < n))).testBit j =
        if j < n then lcBit s j
        else if n % 64 ≠ 0 ∧ j < 64 * (n / 64 + 1) then
          (placeChunk R pos ((n - pos + 63) / 64) (lcStep (lcIter (n / (s.m2exp / 2)) s)).1
            (decide (pos + (n - pos + 63) / 64 * 64 - pos % 64 < n))).testBit j
        else false := by
      intro j
      by_cases hjn : j < n
      · simp only [hjn, if_true]
        rw [hplace j]
        by_cases hjp : j < pos
        · simp [hjp, h2 j, ← h1]
        · simp only [hjp, if_false]
          rw [hbit j (by omega) hjn]
          have a1 : j - pos < 64 * ((n - pos + 63) / 64) := by omega
          have a2 : j < 64 * (pos / 64 + (n - pos + 63) / 64) +
              (if (decide (pos + (n - pos + 63) / 64 * 64 - pos % 64 < n) = true) ∧ pos % 64 ≠ 0 then 64 else 0) := by
            by_cases hcar : pos + (n - pos + 63) / 64 * 64 - pos % 64 < n
            · by_cases hz : pos % 64 = 0
              · simp [hz]; omega
              · simp [hcar, hz]; omega
            · simp [hcar]; omega
          simp only [decide_eq_true_eq, ne_eq, gt_iff_lt] at a2
          simp [a1, a2]
      · simp only [hjn, if_false]
        by_cases hlimb : n % 64 ≠ 0 ∧ j < 64 * (n / 64 + 1)
        · simp [hlimb]
        · simp only [hlimb, if_false]
          rw [hplace j]
          have hjp : ¬ j < pos := by omega
          simp only [hjp, if_false]
          have a2 : ¬ j < 64 * (pos / 64 + (n - pos + 63) / 64) +
              (if (decide (pos + (n - pos + 63) / 64 * 64 - pos % 64 < n) = true) ∧ pos % 64 ≠ 0 then 64 else 0) := by
            by_cases hcar : pos + (n - pos + 63) / 64 * 64 - pos % 64 < n
            · by_cases hz : pos % 64 = 0
              · simp [hz]; omega
              · simp [hcar, hz]; omega
            · simp [hcar]; omega
          simp only [decide_eq_true_eq, ne_eq, gt_iff_lt] at a2
          simp [a2]
    by_cases hn64 : n % 64 = 0
    · simp only [hn64, ne_eq, not_true_eq_false, if_false]
      rw [key j]; simp [hn64]
    · simp only [ne_eq, hn64, not_false_eq_true, if_true]
      rw [setLimbs_testBit]
      by_cases g1 : j < 64 * (n / 64)
      · have : j < n := by omega
        simp only [g1, if_true]; rw [key j]; simp [this]
      · simp only [g1, if_false]
        by_cases g2 : j < 64 * (n / 64 + 1)
        · simp only [g2, if_true, Nat.testBit_mod_two_pow, getLimb_testBit]
          have e : j - 64 * (n / 64) + 64 * (n / 64) = j := by omega
          rw [e, key j]
          by_cases hjn : j < n
          · have b1 : j - 64 * (n / 64) < n % 64 := by omega
            have b2 : j - 64 * (n / 64) < 64 := by omega
            simp [hjn, b1, b2]
          · have b1 : ¬ j - 64 * (n / 64) < n % 64 := by omega
            simp [hjn, b1]
        · simp only [g2, if_false]
          rw [key j]
          have : ¬ j < n := by omega
          simp [this, g2]

theorem randgetLc_state (s : LcState) (n : Nat) (hm : 2 ≤ s.m2exp) :
    (randgetLc s n).2 = lcIter ((n + s.m2exp / 2 - 1) / (s.m2exp / 2)) s := by
  have hc : 0 < s.m2exp / 2 := by omega
  unfold randgetLc
  simp only [hc, dite_true]
  obtain ⟨h1, _, h3⟩ := lcFull_spec s (s.m2exp / 2) n rfl hc n 0 0 0 rfl (by simp) (by omega)
    (by intro j; simp)
  simp only [lcIter] at h1 h3
  generalize hr : lcFull (s.m2exp / 2) n hc 0 0 s = r at h1 h3
  obtain ⟨pos, R, s'⟩ := r
  simp only at h1 h3
  have hdm := Nat.div_add_mod n (s.m2exp / 2)
  have hml := Nat.mod_lt n hc
  by_cases hfin : pos = n
  · simp only [hfin, ne_eq, not_true_eq_false, if_false]
    rw [h3]; congr 1
    have : n % (s.m2exp / 2) = 0 := by omega
    apply (Nat.div_eq_of_lt_le _ _).symm
    · rw [Nat.mul_comm]; omega
    · rw [Nat.add_mul, Nat.one_mul, Nat.mul_comm]; omega
  · simp only [ne_eq, hfin, not_false_eq_true, if_true]
    rw [h3]
    show lcIter (n / (s.m2exp / 2) + 1) s = _
    congr 1
    have : n % (s.m2exp / 2) ≠ 0 := by omega
    apply (Nat.div_eq_of_lt_le _ _).symm
    · rw [Nat.mul_comm, Nat.mul_add, Nat.mul_one]; omega
    · rw [Nat.add_mul, Nat.one_mul, Nat.mul_comm, Nat.mul_add, Nat.mul_one]; omega

/-- the linear congruential `randget` delivers fewer than `2^n`. -/
theorem randgetLc_lt (s : LcState) (n : Nat) (hm : 2 ≤ s.m2exp) : (randgetLc s n).1 < 2 ^ n := by
  apply Nat.lt_pow_two_of_testBit
  intro j hj
  rw [randgetLc_testBit s n hm j]
  have : ¬ j < n := by omega
  simp [this]

end Mpir.Rand
