/- Helper lemmas for C06 (radix conversion): digit-string specification, basecase and power-of-two
   conversions, parser, sizeinbase. -/
import MpirProofs.Lemmas.Base
import Mpir.Model.Radix
import MpirProofs.Lemmas.Kernels
import Mathlib.Tactic.Ring
import Mathlib.Tactic.Linarith
import Mathlib.Tactic.IntervalCases
import Mathlib.Data.Nat.Digits.Defs
namespace Mpir.Radix
open Mpir

/-! ### digit strings -/

theorem digitsAcc_eq (b : Nat) : ∀ (x : Nat) (acc : List Nat),
    digitsAcc b x acc = digitsAcc b x [] ++ acc := by
  intro x
  induction x using Nat.strong_induction_on with
  | _ x ih =>
    intro acc
    rw [digitsAcc]; conv_rhs => rw [digitsAcc]
    split
    · simp
    · rename_i h
      have hlt : x / b < x := Nat.div_lt_self (by omega) (by omega)
      rw [ih _ hlt (x % b :: acc), ih _ hlt [x % b]]; simp

theorem digitsAcc_eq_digitsOf (b x : Nat) (acc : List Nat) : digitsAcc b x acc = digitsOf b x ++ acc :=
  digitsAcc_eq b x acc

@[simp] theorem digitsOf_zero (b : Nat) : digitsOf b 0 = [] := by
  unfold digitsOf; rw [digitsAcc]; simp

theorem digitsOf_step {b x : Nat} (hb : 2 ≤ b) (hx : 0 < x) :
    digitsOf b x = digitsOf b (x / b) ++ [x % b] := by
  conv_lhs => unfold digitsOf; rw [digitsAcc]
  rw [dif_neg (by omega), digitsAcc_eq_digitsOf]

theorem digitsOf_eq_digits {b : Nat} (hb : 2 ≤ b) (x : Nat) : digitsOf b x = (Nat.digits b x).reverse := by
  induction x using Nat.strong_induction_on with
  | _ x ih =>
    rcases Nat.eq_zero_or_pos x with rfl | hx
    · simp
    · rw [digitsOf_step hb hx, ih _ (Nat.div_lt_self hx (by omega)),
        Nat.digits_eq_cons_digits_div (b := b) (n := x) (by omega) (by omega)]
      simp

theorem ofDigits_append (b : Nat) (l : List Nat) (d : Nat) : ofDigits b (l ++ [d]) = ofDigits b l * b + d := by
  simp [ofDigits, List.foldl_append]

@[simp] theorem ofDigits_nil (b : Nat) : ofDigits b [] = 0 := rfl

theorem ofDigits_digitsOf {b : Nat} (hb : 2 ≤ b) (x : Nat) : ofDigits b (digitsOf b x) = x := by
  induction x using Nat.strong_induction_on with
  | _ x ih =>
    rcases Nat.eq_zero_or_pos x with rfl | hx
    · simp
    · rw [digitsOf_step hb hx, ofDigits_append, ih _ (Nat.div_lt_self hx (by omega))]
      exact Nat.div_add_mod' x b

theorem digitsOf_lt {b : Nat} (hb : 2 ≤ b) (x : Nat) : ∀ d ∈ digitsOf b x, d < b := by
  induction x using Nat.strong_induction_on with
  | _ x ih =>
    rcases Nat.eq_zero_or_pos x with rfl | hx
    · simp
    · rw [digitsOf_step hb hx]
      intro d hd
      rcases List.mem_append.mp hd with h | h
      · exact ih _ (Nat.div_lt_self hx (by omega)) d h
      · simp at h; subst h; exact Nat.mod_lt _ (by omega)

theorem digitsOf_ne_nil {b x : Nat} (hb : 2 ≤ b) (hx : 0 < x) : digitsOf b x ≠ [] := by
  rw [digitsOf_step hb hx]; simp

/-- the most significant digit is not zero -/
theorem digitsOf_head_ne_zero {b : Nat} (hb : 2 ≤ b) (x : Nat) : (digitsOf b x).head? ≠ some 0 := by
  induction x using Nat.strong_induction_on with
  | _ x ih =>
    rcases Nat.eq_zero_or_pos x with rfl | hx
    · simp
    · rw [digitsOf_step hb hx]
      by_cases hq : x / b = 0
      · rw [hq]; simp
        have : x < b := by
          by_contra hcon
          have := Nat.div_pos (Nat.le_of_not_lt hcon) (by omega : 0 < b); omega
        rw [Nat.mod_eq_of_lt this]; omega
      · have hb1 : 1 < b := by omega
        have := ih (x / b) (Nat.div_lt_self hx hb1)
        have hne := digitsOf_ne_nil hb (Nat.pos_of_ne_zero hq)
        cases hd : digitsOf b (x / b) with
        | nil => exact absurd hd hne
        | cons a l => rw [hd] at this; simpa using this

/-- fixed-width digits, peeled from the least significant end -/
theorem fixedDigits_snoc {b : Nat} (hb : 0 < b) : ∀ (n r : Nat), r < b ^ (n + 1) →
    fixedDigits b (n + 1) r = fixedDigits b n (r / b) ++ [r % b]
  | 0, r, hr => by
    simp only [Nat.zero_add, pow_one] at hr
    simp [fixedDigits, Nat.mod_eq_of_lt hr]
  | n + 1, r, _ => by
    rw [fixedDigits, fixedDigits_snoc hb n (r % b ^ (n + 1)) (Nat.mod_lt _ (Nat.pow_pos hb))]
    conv_rhs => rw [fixedDigits]
    have e1 : r / b ^ (n + 1) = r / b / b ^ n := by
      rw [pow_succ, Nat.mul_comm, Nat.div_div_eq_div_mul]
    have e2 : r % b ^ (n + 1) / b = r / b % b ^ n := by
      rw [pow_succ, Nat.mul_comm, Nat.mod_mul_right_div_self]
    have e3 : r % b ^ (n + 1) % b = r % b := by
      rw [pow_succ]; exact Nat.mod_mul_left_mod r (b ^ n) b
    rw [e1, e2, e3]; simp

theorem digitsOf_append_fixed {b : Nat} (hb : 2 ≤ b) : ∀ (n Q r : Nat), 0 < Q → r < b ^ n →
    digitsOf b (Q * b ^ n + r) = digitsOf b Q ++ fixedDigits b n r
  | 0, Q, r, _, hr => by
    have : r = 0 := by simpa using hr
    subst this; simp [fixedDigits]
  | n + 1, Q, r, hQ, hr => by
    have hbpos : 0 < b := by omega
    have hpos : 0 < Q * b ^ (n + 1) + r := by
      have : 0 < b ^ (n + 1) := Nat.pow_pos hbpos
      have := Nat.mul_pos hQ this; omega
    rw [digitsOf_step hb hpos, fixedDigits_snoc hbpos n r hr]
    have e1 : (Q * b ^ (n + 1) + r) / b = Q * b ^ n + r / b := by
      rw [pow_succ, ← Nat.mul_assoc, Nat.add_comm, Nat.add_mul_div_right _ _ hbpos, Nat.add_comm]
    have e2 : (Q * b ^ (n + 1) + r) % b = r % b := by
      rw [pow_succ, ← Nat.mul_assoc, Nat.add_comm, Nat.add_mul_mod_self_right]
    have hr' : r / b < b ^ n := by
      rw [Nat.div_lt_iff_lt_mul hbpos, ← pow_succ]; exact hr
    rw [e1, e2, digitsOf_append_fixed hb n Q (r / b) hQ hr', List.append_assoc]

theorem fixedDigits_length (b : Nat) : ∀ (n r : Nat), (fixedDigits b n r).length = n
  | 0, _ => rfl
  | n + 1, r => by simp [fixedDigits, fixedDigits_length b n]

/-! ### mpn_sb_get_str -/

theorem dropLast_getLast! : ∀ (l : List Nat), l ≠ [] → l.dropLast ++ [l.getLast!] = l
  | [], h => absurd rfl h
  | [x], _ => by simp [List.getLast!]
  | x :: y :: l, _ => by
    have := dropLast_getLast! (y :: l) (by simp)
    simp only [List.dropLast_cons_cons, List.cons_append]
    rw [show (x :: y :: l).getLast! = (y :: l).getLast! by simp [List.getLast!]]
    rw [this]

theorem divrem1_spec (d : Nat) (hd : 0 < d) : ∀ (u : List Nat), Limbs u →
    val u = val (divrem1 u d).1 * d + (divrem1 u d).2 ∧ (divrem1 u d).2 < d ∧
    (divrem1 u d).1.length = u.length ∧ Limbs (divrem1 u d).1
  | [], _ => by simp [divrem1, hd, Limbs_nil]
  | x :: xs, h => by
    have ⟨hx, hxs⟩ := Limbs_cons.mp h
    obtain ⟨hv, hr, hl, hq⟩ := divrem1_spec d hd xs hxs
    simp only [divrem1]
    generalize divrem1 xs d = res at *
    obtain ⟨qs, r⟩ := res
    simp only at hv hr hl hq ⊢
    refine ⟨?_, Nat.mod_lt _ hd, by simp [hl], Limbs_cons.mpr ⟨?_, hq⟩⟩
    · simp only [val_cons]
      have := Nat.div_add_mod (r * B + x) d
      rw [hv]; nlinarith [this]
    · rw [Nat.div_lt_iff_lt_mul hd]
      have : r + 1 ≤ d := hr
      nlinarith [B_pos]

theorem peel_step_arith {p b f r E : Nat} (hp : 0 < p) (hE : E < B)
    (h1 : r * B < f * (p * b)) (h2 : f * (p * b) ≤ r * B + E) :
    f * b / B = r / p ∧ (r % p) * B < (f * b % B) * p ∧ (f * b % B) * p ≤ (r % p) * B + E := by
  have hr := Nat.div_add_mod r p
  have hr' : r % p < p := Nat.mod_lt _ hp
  generalize r / p = d0 at *
  generalize r % p = r' at *
  have lo : d0 * B ≤ f * b := by
    have : d0 * B * p < f * b * p := by nlinarith
    exact Nat.le_of_lt (Nat.lt_of_mul_lt_mul_right this)
  have hi : f * b < (d0 + 1) * B := by
    have : f * b * p < (d0 + 1) * B * p := by nlinarith
    exact Nat.lt_of_mul_lt_mul_right this
  have hdiv : f * b / B = d0 := Nat.div_eq_of_lt_le lo hi
  have hm := Nat.div_add_mod (f * b) B
  rw [hdiv] at hm
  generalize f * b % B = m at *
  refine ⟨hdiv, ?_, ?_⟩ <;> nlinarith

theorem peel_digits {b : Nat} (E : Nat) (hE : E < B) (n : Nat) : ∀ (r f : Nat), r < b ^ n → f < B →
    r * B < f * b ^ n → f * b ^ n ≤ r * B + E → (peel b n f).1 = fixedDigits b n r := by
  induction n with
  | zero => intro r f _ _ _ _; simp [peel, fixedDigits]
  | succ n ih =>
    intro r f hr hf h1 h2
    have hbpos : 0 < b := by
      rcases Nat.eq_zero_or_pos b with rfl | h
      · simp at hr
      · exact h
    have hp : 0 < b ^ n := Nat.pow_pos hbpos
    rw [pow_succ] at h1 h2
    obtain ⟨e1, e2, e3⟩ := peel_step_arith hp hE h1 h2
    simp only [peel, umul_ppmm, fixedDigits]
    rw [e1, ih (r % b ^ n) (f * b % B) (Nat.mod_lt _ hp) (Nat.mod_lt _ B_pos) e2 e3]

theorem peel_append (b : Nat) : ∀ (i j f : Nat),
    peel b (i + j) f = ((peel b i f).1 ++ (peel b j (peel b i f).2).1, (peel b j (peel b i f).2).2)
  | 0, j, f => by simp [peel]
  | i + 1, j, f => by
    rw [show i + 1 + j = (i + j) + 1 by omega]
    simp only [peel]
    rw [peel_append b i j]
    simp


theorem peel_snd_lt (b : Nat) : ∀ (i f : Nat), f < B → (peel b i f).2 < B
  | 0, f, h => by simpa [peel] using h
  | i + 1, f, _ => by
    simp only [peel, umul_ppmm]
    exact peel_snd_lt b i _ (Nat.mod_lt _ B_pos)

theorem peel10_eq : ∀ (i f : Nat), f % 16 = 0 → f < B → peel10 i (f / 16) = (peel 10 i f).1
  | 0, _, _, _ => by simp [peel10, peel]
  | i + 1, f, h16, hf => by
    simp only [peel10, peel, umul_ppmm]
    have hmask : (B - 1) >>> 4 = 2 ^ 60 - 1 := by simp [B_eq]
    rw [hmask, Nat.and_two_pow_sub_one_eq_mod, Nat.shiftRight_eq_div_pow]
    have e1 : f / 16 * 10 % B / 2 ^ 60 = f * 10 / B := by simp only [B_eq] at *; omega
    have e2 : f / 16 * 10 % B % 2 ^ 60 = f * 10 % B / 16 := by simp only [B_eq] at *; omega
    have e3 : f * 10 % B % 16 = 0 := by simp only [B_eq] at *; omega
    rw [e1, e2, peel10_eq i (f * 10 % B) e3 (Nat.mod_lt _ B_pos)]

theorem peel_ten_div (j : Nat) : ∀ (i f : Nat), f % 2 ^ j = 0 → i + j ≤ 4 → (peel 10 i f).2 % 2 ^ (i + j) = 0
  | 0, f, h, _ => by simpa [peel] using h
  | i + 1, f, h, hij => by
    simp only [peel, umul_ppmm]
    have := peel_ten_div (j + 1) i (f * 10 % B) (by
      have : j ≤ 3 := by omega
      interval_cases j <;> simp only [B_eq] at * <;> omega) (by omega)
    rw [show i + 1 + j = i + (j + 1) by omega]; exact this

theorem peelBase10_eq (h10 : Gen.mpBases10.1 = 19 ∧ Gen.mpBases10.2.2.2 = 0) (f : Nat) (hf : f < B) :
    peelBase10 f = (peel 10 19 f).1 := by
  unfold peelBase10
  rw [h10.1, h10.2]
  simp only [Nat.min_eq_left (Nat.zero_le 4), Nat.sub_zero]
  rw [show (19 : Nat) = 4 + 15 from rfl, peel_append]
  have hd : (peel 10 4 f).2 % 16 = 0 := by
    have := peel_ten_div 0 4 f (Nat.mod_one f) (by omega); simpa using this
  have hl := peel_snd_lt 10 4 f hf
  generalize (peel 10 4 f).2 = g at *
  generalize (peel 10 4 f).1 = ds
  simp only
  have : ((g + 15) % B) >>> 4 = g / 16 := by
    rw [Nat.shiftRight_eq_div_pow]; simp only [B_eq] at *; omega
  rw [this, peel10_eq 15 g hd hl]

theorem val_snoc (l : List Nat) (x : Nat) : val (l ++ [x]) = val l + B ^ l.length * x := by
  rw [val_append]; simp

/-- a non-zero top limb bounds the value from below -/
theorem val_ge_of_top {u : List Nat} (hne : u ≠ []) (htop : u.getLast! ≠ 0) : B ^ (u.length - 1) ≤ val u := by
  have h := dropLast_getLast! u hne
  rw [← h, val_snoc]
  have hl : (u.dropLast ++ [u.getLast!]).length - 1 = u.dropLast.length := by simp
  rw [hl]
  have : 1 ≤ u.getLast! := Nat.pos_of_ne_zero htop
  nlinarith [Nat.pow_pos (n := u.dropLast.length) B_pos]

/-- the fraction limb + 1 brackets r·B/bb -/
theorem frac_bounds {r bb : Nat} (hr : r < bb) (hbb : bb < B) :
    r * B / bb + 1 < B ∧ r * B < (r * B / bb + 1) * bb ∧ (r * B / bb + 1) * bb ≤ r * B + bb := by
  have hpos : 0 < bb := by omega
  have h1 := Nat.div_add_mod (r * B) bb
  have h2 := Nat.mod_lt (r * B) hpos
  generalize r * B / bb = q at *
  generalize r * B % bb = m at *
  have e : (q + 1) * bb = bb * q + bb := by ring
  refine ⟨?_, by omega, by omega⟩
  by_contra hcon
  have hq : B - 1 ≤ q := by omega
  have : bb * (B - 1) ≤ bb * q := Nat.mul_le_mul_left _ hq
  have e2 : bb * (B - 1) = bb * B - bb := by rw [Nat.mul_sub, Nat.mul_one]
  have : r * B + B ≤ bb * B := by nlinarith
  have : bb * B - bb > r * B := by omega
  omega

theorem sbLoop_spec {b cpl bb : Nat} {ten : Bool} (hb : 2 ≤ b) (hcpl : 0 < cpl) (hbb : bb = b ^ cpl) (hlt : bb < B)
    (hpeel : ∀ f, f < B → (if ten then peelBase10 f else (peel b cpl f).1) = (peel b cpl f).1) :
    ∀ (fuel : Nat) (u acc : List Nat), Limbs u → u ≠ [] → B ^ (u.length - 1) ≤ val u → val u < 2 ^ fuel →
      digitsAcc b ((sbLoop b cpl bb ten fuel u acc).1.headD 0) (sbLoop b cpl bb ten fuel u acc).2
        = digitsOf b (val u) ++ acc := by
  intro fuel
  have hbbpos : 0 < bb := by rw [hbb]; exact Nat.pow_pos (by omega)
  have hbb2 : 2 ≤ bb := by
    rw [hbb]; calc 2 ≤ b ^ 1 := by simpa using hb
      _ ≤ b ^ cpl := Nat.pow_le_pow_right (by omega) hcpl
  induction fuel with
  | zero =>
    intro u acc _ _ hge hlt0
    have : 0 < B ^ (u.length - 1) := Nat.pow_pos B_pos
    omega
  | succ fuel ih =>
    intro u acc hu hne hge hfuel
    rw [sbLoop]
    split
    · rename_i hlen
      obtain ⟨hv, hr, hl, hq⟩ := divrem1_spec bb hbbpos u hu
      generalize divrem1 u bb = res at *
      obtain ⟨q, r⟩ := res
      simp only at hv hr hl hq ⊢
      -- the digits of the remainder
      obtain ⟨f1, f2, f3⟩ := frac_bounds hr hlt
      have hds : (if ten then peelBase10 ((r * B / bb + 1) % B) else (peel b cpl ((r * B / bb + 1) % B)).1)
          = fixedDigits b cpl r := by
        rw [Nat.mod_eq_of_lt f1, hpeel _ f1]
        exact peel_digits bb hlt cpl r _ (hbb ▸ hr) f1 (hbb ▸ f2) (hbb ▸ f3)
      rw [hds]
      -- the quotient
      have hqne : q ≠ [] := by intro e; rw [e] at hl; simp at hl; omega
      have hsplit := dropLast_getLast! q hqne
      have hqv : val q = val q.dropLast + B ^ (u.length - 1) * q.getLast! := by
        conv_lhs => rw [← hsplit]
        rw [val_snoc]; simp [hl]
      have hQge : B ^ (u.length - 2) ≤ val q := by
        have e : B ^ (u.length - 1) = B ^ (u.length - 2) * B := by
          rw [← pow_succ]; congr 1; omega
        have : B ^ (u.length - 2) * bb ≤ val q * bb + r := by
          rw [← hv]; refine le_trans ?_ hge; rw [e]
          exact Nat.mul_le_mul_left _ (Nat.le_of_lt hlt)
        by_contra hcon
        have : val q + 1 ≤ B ^ (u.length - 2) := by omega
        nlinarith
      have hQpos : 0 < val q := lt_of_lt_of_le (Nat.pow_pos B_pos) hQge
      have hQlt : val q < 2 ^ fuel := by
        have : val q * 2 ≤ val u := by rw [hv]; nlinarith
        rw [pow_succ] at hfuel; omega
      -- q' : drop the top limb when it is zero
      have hQ' : ∀ q' : List Nat, q' = (if (q.getLast! == 0) = true then q.dropLast else q) →
          Limbs q' ∧ q' ≠ [] ∧ B ^ (q'.length - 1) ≤ val q' ∧ val q' = val q := by
        intro q' hq'
        by_cases h0 : q.getLast! = 0
        · have hc : (q.getLast! == 0) = true := by rw [h0]; rfl
          have : q' = q.dropLast := by rw [hq', if_pos hc]
          rw [this]
          have hvq : val q.dropLast = val q := by rw [hqv, h0]; simp
          have hlen' : q.dropLast.length = u.length - 1 := by simp [hl]
          refine ⟨(Limbs_append.mp (hsplit ▸ hq)).1, ?_, ?_, hvq⟩
          · intro e; rw [e] at hlen'; simp at hlen'; omega
          · rw [hlen', hvq, show u.length - 1 - 1 = u.length - 2 by omega]; exact hQge
        · have hc : ¬ (q.getLast! == 0) = true := fun h => h0 (beq_iff_eq.mp h)
          have : q' = q := by rw [hq', if_neg hc]
          rw [this]
          refine ⟨hq, hqne, ?_, rfl⟩
          rw [hl, hqv]
          have : 1 ≤ q.getLast! := Nat.pos_of_ne_zero h0
          nlinarith [Nat.pow_pos (n := u.length - 1) B_pos]
      obtain ⟨a1, a2, a3, a4⟩ := hQ' _ rfl
      rw [ih _ _ a1 a2 a3 (a4 ▸ hQlt), a4, ← List.append_assoc]
      congr 1
      rw [hv, hbb]
      exact (digitsOf_append_fixed hb cpl (val q) r hQpos (hbb ▸ hr)).symm
    · rename_i hlen
      have h1 : u.length = 1 := by
        have : u.length ≠ 0 := by simpa using hne
        omega
      match u, h1 with
      | [x], _ => simp [digitsAcc_eq_digitsOf]

/-- what `bases_table_ok` establishes for a base that is not a power of two -/
def NonPow2Ok (b : Nat) : Prop :=
  bigBase b = b ^ charsPerLimb b ∧ b ^ charsPerLimb b < B ∧ B ≤ b ^ (charsPerLimb b + 1) ∧
  bigBaseInv b = (B * B - 1) / (bigBase b <<< clz (bigBase b)) - B
instance (b : Nat) : Decidable (NonPow2Ok b) := by unfold NonPow2Ok; infer_instance

/-- what `bases_table_ok` establishes for a power of two -/
def Pow2Ok (b : Nat) : Prop :=
  2 ^ bigBase b = b ∧ 0 < bigBase b ∧ charsPerLimb b = 64 / bigBase b ∧ bigBaseInv b = 0
instance (b : Nat) : Decidable (Pow2Ok b) := by unfold Pow2Ok; infer_instance

/-- the base-10 constants of gmp-impl.h agree with the table and big_base is normalised -/
def Base10Ok : Prop :=
  Gen.mpBases10 = (charsPerLimb 10, bigBase 10, bigBaseInv 10, clz (bigBase 10)) ∧
  charsPerLimb 10 = 19 ∧ clz (bigBase 10) = 0
instance : Decidable Base10Ok := by unfold Base10Ok; infer_instance

/-- the power-of-two table entries fit a limb -/
theorem bigBase_le_64 {b : Nat} (hb62 : b ≤ 62) (hok : Pow2Ok b) : bigBase b ≤ 64 := by
  by_contra hcon
  have : 2 ^ 64 ≤ 2 ^ bigBase b := Nat.pow_le_pow_right (by omega) (by omega)
  rw [hok.1] at this; omega

theorem NonPow2Ok.cpl_pos {b : Nat} (hb62 : b ≤ 62) (h : NonPow2Ok b) : 0 < charsPerLimb b := by
  rcases Nat.eq_zero_or_pos (charsPerLimb b) with h0 | h0
  · have := h.2.2.1; rw [h0] at this; simp [B_eq] at this; omega
  · exact h0

theorem sb_get_str_of_table {b : Nat} (hb : 2 ≤ b) (hb62 : b ≤ 62) (hok : NonPow2Ok b) (h10 : Base10Ok)
    (up : List Nat) (hu : Limbs up) (hne : up ≠ []) (htop : up.getLast! ≠ 0) :
    sb_get_str b up = digitsOf b (val up) := by
  obtain ⟨t1, t2, t3⟩ := h10
  have hcpl := hok.cpl_pos hb62
  have hval : val up < 2 ^ (64 * up.length + 1) := by
    have := val_lt up hu
    have e : B ^ up.length = 2 ^ (64 * up.length) := by unfold B; rw [← pow_mul]
    rw [e] at this; rw [pow_succ]; omega
  have hge := val_ge_of_top hne htop
  unfold sb_get_str
  by_cases hten : b = 10
  · subst hten
    have e1 : Gen.mpBases10.1 = charsPerLimb 10 := by rw [t1]
    have e2 : Gen.mpBases10.2.1 = bigBase 10 := by rw [t1]
    have e3 : Gen.mpBases10.2.2.2 = 0 := by rw [t1]; exact t3
    simp only [show ((10 : Nat) == 10) = true from rfl, if_true, e1, e2]
    have := sbLoop_spec (b := 10) (cpl := charsPerLimb 10) (bb := bigBase 10) (ten := true) hb hcpl hok.1
      (hok.1 ▸ hok.2.1)
      (by intro f hf; simp only [if_true]; rw [t2]; exact peelBase10_eq ⟨e1.trans t2, e3⟩ f hf)
      (64 * up.length + 1) up [] hu hne hge hval
    simpa using this
  · have hf : (b == 10) = false := by simpa using hten
    simp only [hf, Bool.false_eq_true, if_false]
    have := sbLoop_spec (b := b) (cpl := charsPerLimb b) (bb := bigBase b) (ten := false) hb hcpl hok.1
      (hok.1 ▸ hok.2.1) (by intro f _; simp)
      (64 * up.length + 1) up [] hu hne hge hval
    simpa using this

/-! ### mpn_get_str, power-of-two bases -/

theorem fixedDigits_split {D : Nat} (hD : 0 < D) (c : Nat) : ∀ (a y : Nat), y < D ^ (a + c) →
    fixedDigits D (a + c) y = fixedDigits D a (y / D ^ c) ++ fixedDigits D c (y % D ^ c)
  | 0, y, h => by
    simp only [Nat.zero_add] at h
    simp [fixedDigits, Nat.mod_eq_of_lt h]
  | a + 1, y, _ => by
    rw [show a + 1 + c = (a + c) + 1 by omega, fixedDigits, fixedDigits]
    have hp : 0 < D ^ (a + c) := Nat.pow_pos hD
    rw [fixedDigits_split hD c a (y % D ^ (a + c)) (Nat.mod_lt _ hp)]
    have e1 : y / D ^ (a + c) = y / D ^ c / D ^ a := by
      rw [Nat.div_div_eq_div_mul, ← pow_add, Nat.add_comm]
    have e2 : y % D ^ (a + c) / D ^ c = y / D ^ c % D ^ a := by
      rw [Nat.add_comm, pow_add, Nat.mod_mul_right_div_self]
    have e3 : y % D ^ (a + c) % D ^ c = y % D ^ c := by
      rw [Nat.add_comm, pow_add]; exact Nat.mod_mul_right_mod _ _ _
    rw [e1, e2, e3]; simp

theorem digitsOf_small {D Q : Nat} (hD : 2 ≤ D) (h0 : 0 < Q) (h1 : Q < D) : digitsOf D Q = [Q] := by
  rw [digitsOf_step hD h0, Nat.div_eq_of_lt h1, Nat.mod_eq_of_lt h1]; simp

/-- a number with exactly `m` digits: its digit string is the fixed-width one -/
theorem digitsOf_eq_fixed {D : Nat} (hD : 2 ≤ D) {m W : Nat} (hm : 0 < m) (hlo : D ^ (m - 1) ≤ W) (hhi : W < D ^ m) :
    digitsOf D W = fixedDigits D m W := by
  obtain ⟨k, rfl⟩ : ∃ k, m = k + 1 := ⟨m - 1, by omega⟩
  simp only [Nat.add_sub_cancel] at hlo
  have hp : 0 < D ^ k := Nat.pow_pos (by omega)
  rw [fixedDigits]
  have hQ0 : 0 < W / D ^ k := Nat.div_pos hlo hp
  have hQ1 : W / D ^ k < D := by rw [Nat.div_lt_iff_lt_mul hp, Nat.mul_comm, ← pow_succ]; exact hhi
  conv_lhs => rw [← Nat.div_add_mod W (D ^ k), Nat.mul_comm]
  rw [digitsOf_append_fixed hD k _ _ hQ0 (Nat.mod_lt _ hp), digitsOf_small hD hQ0 hQ1]; simp

theorem pow2Inner_spec {bpd : Nat} (hbpd : 0 < bpd) (n1 r : Nat) (hr : r < bpd) : ∀ k : Nat,
    pow2Inner bpd n1 (((r + k * bpd : Nat) : Int) - bpd) =
      (fixedDigits (2 ^ bpd) k (n1 / 2 ^ r % (2 ^ bpd) ^ k), (r : Int) - bpd)
  | 0 => by
    rw [pow2Inner, dif_neg (by omega)]; simp [fixedDigits]
  | k + 1 => by
    rw [pow2Inner, dif_pos (by constructor <;> [(push_cast; nlinarith); exact hbpd])]
    have harg : ((r + (k + 1) * bpd : Nat) : Int) - bpd - bpd = ((r + k * bpd : Nat) : Int) - bpd := by
      push_cast; ring
    have htn : (((r + (k + 1) * bpd : Nat) : Int) - bpd).toNat = r + k * bpd := by
      have : ((r + (k + 1) * bpd : Nat) : Int) - bpd = ((r + k * bpd : Nat) : Int) := by push_cast; ring
      rw [this]; exact Int.toNat_natCast _
    simp only [harg, htn]
    rw [pow2Inner_spec hbpd n1 r hr k, fixedDigits]
    simp only
    rw [Nat.one_shiftLeft, Nat.and_two_pow_sub_one_eq_mod, Nat.shiftRight_eq_div_pow]
    have hD : 0 < (2 ^ bpd) ^ k := Nat.pow_pos (Nat.pow_pos (by omega))
    have e1 : n1 / 2 ^ r % (2 ^ bpd) ^ (k + 1) / (2 ^ bpd) ^ k = n1 / 2 ^ (r + k * bpd) % 2 ^ bpd := by
      rw [pow_succ, Nat.mod_mul_right_div_self, Nat.div_div_eq_div_mul, ← pow_mul, ← pow_add, Nat.mul_comm bpd k]
    have e2 : n1 / 2 ^ r % (2 ^ bpd) ^ (k + 1) % (2 ^ bpd) ^ k = n1 / 2 ^ r % (2 ^ bpd) ^ k := by
      rw [pow_succ]; exact Nat.mod_mul_right_mod _ _ _
    rw [e1, e2]

/-- arithmetic core of one limb boundary of the power-of-two conversion -/
theorem pow2_boundary {bpd r k s E n1 u lower : Nat} (hs : s + r = bpd) (hs64 : s ≤ 64) (hs1 : 0 < s)
    (hu : u < 2 ^ 64) (hlow : lower < 2 ^ E) :
    let W := n1 * 2 ^ (E + 64) + (u * 2 ^ E + lower)
    let P0' := 64 - s + E
    let P0 := P0' + (k + 1) * bpd
    (W % 2 ^ P0) % 2 ^ P0' = (u * 2 ^ E + lower) % 2 ^ P0' ∧
    (W % 2 ^ P0) / 2 ^ P0' = (n1 * 2 ^ s + u / 2 ^ (64 - s)) % (2 ^ bpd) ^ (k + 1) ∧
    (n1 * 2 ^ s + u / 2 ^ (64 - s)) % (2 ^ bpd) ^ (k + 1) / 2 ^ bpd = n1 / 2 ^ r % (2 ^ bpd) ^ k ∧
    (n1 * 2 ^ s + u / 2 ^ (64 - s)) % (2 ^ bpd) ^ (k + 1) % 2 ^ bpd = n1 % 2 ^ r * 2 ^ s + u / 2 ^ (64 - s) ∧
    u / 2 ^ (64 - s) < 2 ^ s := by
  intro W P0' P0
  have hu' : u / 2 ^ (64 - s) < 2 ^ s := by
    rw [Nat.div_lt_iff_lt_mul (Nat.pow_pos (by omega)), ← pow_add]
    rw [show s + (64 - s) = 64 by omega]; exact hu
  have e64 : E + 64 = s + P0' := by omega
  have hW : W = (n1 * 2 ^ s) * 2 ^ P0' + (u * 2 ^ E + lower) := by
    show n1 * 2 ^ (E + 64) + _ = _
    rw [e64, pow_add]; ring
  have hP0 : (2 : Nat) ^ P0 = 2 ^ P0' * (2 ^ bpd) ^ (k + 1) := by
    show 2 ^ (P0' + (k + 1) * bpd) = _
    rw [pow_add, ← pow_mul, Nat.mul_comm bpd]
  have hdiv : (u * 2 ^ E + lower) / 2 ^ P0' = u / 2 ^ (64 - s) := by
    show _ / 2 ^ (64 - s + E) = _
    rw [Nat.add_comm (64 - s) E, pow_add, ← Nat.div_div_eq_div_mul]
    congr 1
    rw [Nat.mul_comm, Nat.mul_add_div (Nat.pow_pos (by omega)), Nat.div_eq_of_lt hlow]; simp
  refine ⟨?_, ?_, ?_, ?_, hu'⟩
  · rw [hP0, Nat.mod_mul_right_mod, hW, Nat.mul_comm _ (2 ^ P0'), Nat.mul_add_mod]
  · rw [hP0, Nat.mod_mul_right_div_self, hW, Nat.mul_comm _ (2 ^ P0'),
      Nat.mul_add_div (Nat.pow_pos (by omega)), hdiv]
  · rw [pow_succ, Nat.mul_comm ((2 ^ bpd) ^ k), Nat.mod_mul_right_div_self]
    congr 1
    rw [← hs, pow_add, ← Nat.div_div_eq_div_mul, Nat.mul_comm n1, Nat.mul_add_div (Nat.pow_pos (by omega)),
      Nat.div_eq_of_lt hu']; simp
  · rw [pow_succ, Nat.mul_comm ((2 ^ bpd) ^ k), Nat.mod_mul_right_mod]
    have hn := Nat.div_add_mod n1 (2 ^ r)
    have : n1 * 2 ^ s + u / 2 ^ (64 - s) = 2 ^ bpd * (n1 / 2 ^ r) + (n1 % 2 ^ r * 2 ^ s + u / 2 ^ (64 - s)) := by
      rw [← hs, pow_add]; conv_lhs => rw [← hn]
      ring
    rw [this, Nat.mul_add_mod]
    apply Nat.mod_eq_of_lt
    rw [← hs, pow_add]
    have : n1 % 2 ^ r < 2 ^ r := Nat.mod_lt _ (Nat.pow_pos (by omega))
    nlinarith [Nat.pow_pos (n := s) (show 0 < 2 by omega)]

theorem B_pow (n : Nat) : B ^ n = 2 ^ (64 * n) := by unfold B; rw [← pow_mul]

theorem pow2Go_spec {bpd : Nat} (hbpd : 0 < bpd) (hbpd64 : bpd ≤ 64) :
    ∀ (rest : List Nat) (n1 p : Nat), Limbs rest → bpd ∣ (p + 64 * rest.length) →
      pow2Go bpd n1 (p : Int) rest =
        fixedDigits (2 ^ bpd) ((p + 64 * rest.length) / bpd)
          ((n1 * B ^ rest.length + val rest.reverse) % 2 ^ (p + 64 * rest.length))
  | [], n1, p, _, hdvd => by
    obtain ⟨k, hk⟩ := hdvd
    simp only [List.length_nil, Nat.mul_zero, Nat.add_zero] at hk
    subst hk
    have h := pow2Inner_spec hbpd n1 0 hbpd k
    simp only [Nat.zero_add, pow_zero, Nat.div_one] at h
    simp only [pow2Go, List.length_nil, Nat.mul_zero, Nat.add_zero, pow_zero, Nat.mul_one, List.reverse_nil, val_nil]
    rw [show ((bpd * k : Nat) : Int) - (bpd : Int) = ((k * bpd : Nat) : Int) - bpd by rw [Nat.mul_comm], h,
      Nat.mul_div_cancel_left _ hbpd, pow_mul]
  | u :: rest, n1, p, hl, hdvd => by
    have ⟨hu, hrest⟩ := Limbs_cons.mp hl
    have hp := Nat.div_add_mod p bpd
    have hr : p % bpd < bpd := Nat.mod_lt _ hbpd
    generalize p / bpd = k at hp
    generalize p % bpd = r at hp hr
    subst hp
    have hi := pow2Inner_spec hbpd n1 r hr k
    rw [pow2Go, show ((bpd * k + r : Nat) : Int) - (bpd : Int) = ((r + k * bpd : Nat) : Int) - bpd by
      push_cast; ring, hi]
    simp only
    have hs : (-((r : Int) - bpd)).toNat = bpd - r := by omega
    have hp' : (r : Int) - bpd + 64 = ((64 - (bpd - r) : Nat) : Int) := by omega
    rw [hs, hp', Int.toNat_natCast]
    -- induction hypothesis
    have hdvd' : bpd ∣ (64 - (bpd - r)) + 64 * rest.length := by
      have : (64 - (bpd - r)) + 64 * rest.length + (k + 1) * bpd = bpd * k + r + 64 * (u :: rest).length := by
        simp only [List.length_cons]; ring_nf; omega
      have h2 : bpd ∣ (64 - (bpd - r)) + 64 * rest.length + (k + 1) * bpd := this ▸ hdvd
      exact (Nat.dvd_add_left (Dvd.intro_left _ rfl)).mp h2
    rw [pow2Go_spec hbpd hbpd64 rest u _ hrest hdvd']
    -- arithmetic
    have hlow := val_lt rest.reverse (fun x hx => hrest x (List.mem_reverse.mp hx))
    rw [List.length_reverse, B_pow] at hlow
    have hb := pow2_boundary (bpd := bpd) (r := r) (k := k) (s := bpd - r) (E := 64 * rest.length) (n1 := n1)
      (u := u) (lower := val rest.reverse) (by omega) (by omega) (by omega) (by simpa [B_eq] using hu) hlow
    simp only at hb
    obtain ⟨b1, b2, b3, b4, b5⟩ := hb
    have hW : n1 * B ^ (u :: rest).length + val (u :: rest).reverse
        = n1 * 2 ^ (64 * rest.length + 64) + (u * 2 ^ (64 * rest.length) + val rest.reverse) := by
      simp only [List.length_cons, List.reverse_cons, val_snoc, List.length_reverse, B_pow]
      ring_nf
    have hP : bpd * k + r + 64 * (u :: rest).length = 64 - (bpd - r) + 64 * rest.length + (k + 1) * bpd := by
      simp only [List.length_cons]; ring_nf; omega
    have hcnt : (64 - (bpd - r) + 64 * rest.length + (k + 1) * bpd) / bpd
        = (k + 1) + (64 - (bpd - r) + 64 * rest.length) / bpd := by
      rw [Nat.add_mul_div_right _ _ hbpd, Nat.add_comm]
    rw [hW, hP, hcnt]
    have hD : 0 < 2 ^ bpd := Nat.pow_pos (by omega)
    have hm : (64 - (bpd - r) + 64 * rest.length) = bpd * ((64 - (bpd - r) + 64 * rest.length) / bpd) :=
      (Nat.mul_div_cancel' hdvd').symm
    generalize (64 - (bpd - r) + 64 * rest.length) / bpd = m' at *
    have hpow : (2 : Nat) ^ (64 - (bpd - r) + 64 * rest.length) = (2 ^ bpd) ^ m' := by rw [hm, pow_mul]
    have hpow2 : (2 ^ bpd) ^ (k + 1 + m') = 2 ^ (64 - (bpd - r) + 64 * rest.length + (k + 1) * bpd) := by
      rw [← pow_mul, hm]; congr 1; ring
    rw [fixedDigits_split hD m' (k + 1) _ (by rw [hpow2]; exact Nat.mod_lt _ (Nat.pow_pos (by omega)))]
    rw [← hpow, b1, b2]
    rw [fixedDigits_snoc hD k _ (Nat.mod_lt _ (Nat.pow_pos hD)), b3, b4]
    rw [B_pow]
    -- the straddling digit
    have hn0 : ((n1 <<< (bpd - r)) % B) &&& ((1 <<< bpd) - 1) = (n1 % 2 ^ r) <<< (bpd - r) := by
      rw [Nat.one_shiftLeft, Nat.and_two_pow_sub_one_eq_mod, Nat.shiftLeft_eq, Nat.shiftLeft_eq]
      have hBD : B = 2 ^ bpd * 2 ^ (64 - bpd) := by unfold B; rw [← pow_add]; congr 1; omega
      rw [hBD, Nat.mod_mul_right_mod]
      have e : (2 : Nat) ^ bpd = 2 ^ r * 2 ^ (bpd - r) := by rw [← pow_add]; congr 1; omega
      rw [e, Nat.mul_mod_mul_right]
    rw [hn0, Nat.shiftRight_eq_div_pow, ← Nat.shiftLeft_add_eq_or_of_lt b5, Nat.shiftLeft_eq]
    simp [List.append_assoc]

/-- bit length of a normalised limb vector: 2^(bits-1) ≤ val < 2^bits with bits = 64·n - clz(top) -/
theorem bitlen_bounds {up : List Nat} (hu : Limbs up) (hne : up ≠ []) (htop : up.getLast! ≠ 0) :
    63 - Nat.log2 up.getLast! ≤ 63 ∧ Nat.log2 up.getLast! ≤ 63 ∧
    2 ^ (64 * up.length - clz up.getLast! - 1) ≤ val up ∧ val up < 2 ^ (64 * up.length - clz up.getLast!) := by
  unfold clz
  have hsplit := dropLast_getLast! up hne
  have hlim := Limbs_append.mp (hsplit ▸ hu)
  have hn1 : up.getLast! < B := hlim.2 _ (by simp)
  have hlo := Nat.log2_self_le htop
  have hhi := Nat.lt_log2_self (n := up.getLast!)
  have hl63 : Nat.log2 up.getLast! ≤ 63 := by
    by_contra hcon
    have : 2 ^ 64 ≤ 2 ^ Nat.log2 up.getLast! := Nat.pow_le_pow_right (by omega) (by omega)
    rw [B_eq] at hn1; omega
  have hdl := val_lt up.dropLast hlim.1
  have hlen : up.length = up.dropLast.length + 1 := by
    conv_lhs => rw [← hsplit]
    simp
  have hv : val up = val up.dropLast + B ^ up.dropLast.length * up.getLast! := by
    conv_lhs => rw [← hsplit]
    rw [val_snoc]
  generalize up.getLast! = n1 at *
  generalize Nat.log2 n1 = l at *
  generalize up.dropLast.length = m at *
  rw [B_pow] at hdl hv
  have e1 : 64 * up.length - (63 - l) - 1 = 64 * m + l := by omega
  have e2 : 64 * up.length - (63 - l) = 64 * m + (l + 1) := by omega
  refine ⟨by omega, hl63, ?_, ?_⟩
  · rw [e1, hv, pow_add]
    have := Nat.mul_le_mul_left (2 ^ (64 * m)) hlo; omega
  · rw [e2, hv, pow_add]
    have h1 : n1 + 1 ≤ 2 ^ (l + 1) := hhi
    have := Nat.mul_le_mul_left (2 ^ (64 * m)) h1
    rw [Nat.mul_add, Nat.mul_one] at this; omega

theorem get_str_pow2_of_table {b : Nat} (hb : 2 ≤ b) (hok : Pow2Ok b) (h64 : bigBase b ≤ 64)
    (up : List Nat) (hu : Limbs up) (hne : up ≠ []) (htop : up.getLast! ≠ 0) :
    get_str_pow2 b up = digitsOf b (val up) := by
  obtain ⟨hpow, hbpd, _, _⟩ := hok
  obtain ⟨_, hl63, hlo, hhi⟩ := bitlen_bounds hu hne htop
  have hsplit := dropLast_getLast! up hne
  have hlim := Limbs_append.mp (hsplit ▸ hu)
  have hlen : up.length = up.dropLast.length + 1 := by
    conv_lhs => rw [← hsplit]
    simp
  have hrest : up.reverse.drop 1 = up.dropLast.reverse := by
    conv_lhs => rw [← hsplit]
    simp
  have hv : val up = up.getLast! * B ^ up.dropLast.length + val up.dropLast := by
    conv_lhs => rw [← hsplit]
    rw [val_snoc]; ring
  unfold get_str_pow2
  simp only [hrest]
  generalize hbits : 64 * up.length - clz up.getLast! = bits at *
  generalize hbpdg : bigBase b = bpd at *
  have hbits1 : 64 * up.dropLast.length + 1 ≤ bits := by
    rw [← hbits, hlen]; unfold clz; omega
  -- rounded-up bit count
  have hround : ∃ bits', (if (bits % bpd != 0) = true then bits + (bpd - bits % bpd) else bits) = bits' ∧
      bpd ∣ bits' ∧ bits ≤ bits' ∧ bits' < bits + bpd := by
    by_cases h0 : bits % bpd = 0
    · exact ⟨bits, by simp [h0], Nat.dvd_of_mod_eq_zero h0, le_refl _, by omega⟩
    · refine ⟨bits + (bpd - bits % bpd), by simp [h0], ?_, by omega, ?_⟩
      · have hm := Nat.div_add_mod bits bpd
        have hlt := Nat.mod_lt bits hbpd
        refine ⟨bits / bpd + 1, ?_⟩
        rw [Nat.mul_add, Nat.mul_one]; omega
      · have hlt := Nat.mod_lt bits hbpd; omega
  obtain ⟨bits', hb', hdvd, hge, hlt⟩ := hround
  rw [hb']
  have hcast : ((bits' : Int) - ((up.length - 1 : Nat) : Int) * 64) = ((bits' - 64 * up.dropLast.length : Nat) : Int) := by
    rw [hlen]; simp only [Nat.add_sub_cancel]; omega
  rw [hcast]
  have hP : bits' - 64 * up.dropLast.length + 64 * up.dropLast.reverse.length = bits' := by
    rw [List.length_reverse]; omega
  rw [pow2Go_spec hbpd h64 up.dropLast.reverse _ _
    (fun x hx => hlim.1 x (List.mem_reverse.mp hx)) (by rw [hP]; exact hdvd)]
  rw [hP, List.reverse_reverse, List.length_reverse, ← hv, hpow]
  have hWlt : val up < 2 ^ bits' := lt_of_lt_of_le hhi (Nat.pow_le_pow_right (by omega) hge)
  rw [Nat.mod_eq_of_lt hWlt]
  obtain ⟨m, hm⟩ := hdvd
  have hmpos : 0 < m := by
    rcases Nat.eq_zero_or_pos m with h | h
    · subst h; omega
    · exact h
  rw [hm, Nat.mul_div_cancel_left _ hbpd]
  refine (digitsOf_eq_fixed hb hmpos ?_ ?_).symm
  · rw [← hpow, ← pow_mul]
    refine le_trans (Nat.pow_le_pow_right (by omega) ?_) hlo
    have : bpd * (m - 1) = bpd * m - bpd := by rw [Nat.mul_sub, Nat.mul_one]
    rw [this]; omega
  · rw [← hpow, ← pow_mul, ← hm]; exact hWlt

/-! ### mpn_set_str -/

theorem mul1_limb (u vl cl : Nat) (hu : u < B) (hv : vl < B) (hc : cl < B) :
    (u * vl % B + cl) % B + B * ((boolToNat (decide ((u * vl % B + cl) % B < cl)) + u * vl / B) % B) = u * vl + cl ∧
    (boolToNat (decide ((u * vl % B + cl) % B < cl)) + u * vl / B) % B < B := by
  have hp : u * vl ≤ (B - 1) * (B - 1) := Nat.mul_le_mul (by omega) (by omega)
  generalize u * vl = pr at *
  have hb : ∀ p : Prop, [Decidable p] → boolToNat (decide p) = if p then 1 else 0 := by
    intro p _; by_cases h : p <;> simp [boolToNat, h]
  rw [hb]
  simp only [B_eq] at *
  split <;> omega

theorem mul1C_cons (u : Nat) (us : List Nat) (vl cl : Nat) :
    mul1C (u :: us) vl cl =
      ((u * vl % B + cl) % B ::
        (mul1C us vl ((boolToNat (decide ((u * vl % B + cl) % B < cl)) + u * vl / B) % B)).1,
        (mul1C us vl ((boolToNat (decide ((u * vl % B + cl) % B < cl)) + u * vl / B) % B)).2) := rfl

theorem mul1C_val : ∀ (u : List Nat) (vl cl : Nat), Limbs u → vl < B → cl < B →
    val (mul1C u vl cl).1 + B ^ u.length * (mul1C u vl cl).2 = val u * vl + cl ∧
    (mul1C u vl cl).2 < B ∧ Limbs (mul1C u vl cl).1 ∧ (mul1C u vl cl).1.length = u.length
  | [], vl, cl, _, _, hc => by simp [mul1C, hc, Limbs_nil]
  | u :: us, vl, cl, hu, hv, hc => by
    have ⟨hu0, hus⟩ := Limbs_cons.mp hu
    obtain ⟨e, c1⟩ := mul1_limb u vl cl hu0 hv hc
    obtain ⟨ihv, ihc, ihl, ihn⟩ := mul1C_val us vl _ hus hv c1
    rw [mul1C_cons]
    generalize (boolToNat (decide ((u * vl % B + cl) % B < cl)) + u * vl / B) % B = c at *
    simp only [val_cons, List.length_cons, pow_succ]
    refine ⟨?_, ihc, Limbs_cons.mpr ⟨Nat.mod_lt _ B_pos, ihl⟩, by rw [ihn]⟩
    generalize mul1C us vl c = res at *
    nlinarith [ihv, e]

theorem incr_val : ∀ (u : List Nat), Limbs u →
    val (incr u).1 + B ^ u.length * (incr u).2 = val u + 1 ∧ (incr u).2 ≤ 1 ∧ Limbs (incr u).1 ∧
    (incr u).1.length = u.length
  | [], _ => by simp [incr, Limbs_nil]
  | x :: xs, h => by
    have ⟨hx, hxs⟩ := Limbs_cons.mp h
    obtain ⟨iv, ic, il, in_⟩ := incr_val xs hxs
    simp only [incr]
    split
    · rename_i hlt
      simp only [val_cons, List.length_cons, pow_succ]
      refine ⟨?_, ic, Limbs_cons.mpr ⟨Nat.mod_lt _ B_pos, il⟩, by rw [in_]⟩
      have : (x + 1) % B = 0 ∧ x + 1 = B := by simp only [B_eq] at *; omega
      rw [this.1]; generalize incr xs = res at *
      nlinarith [iv, this.2]
    · rename_i hlt
      simp only [val_cons, List.length_cons, pow_succ]
      refine ⟨?_, by omega, Limbs_cons.mpr ⟨Nat.mod_lt _ B_pos, hxs⟩, trivial⟩
      have : (x + 1) % B = x + 1 := by simp only [B_eq] at *; omega
      rw [this]; ring

theorem add_1_val (u : List Nat) (v : Nat) (hu : Limbs u) (hne : u ≠ []) (hv : v < B) :
    val (add_1 u v).1 + B ^ u.length * (add_1 u v).2 = val u + v ∧ (add_1 u v).2 ≤ 1 ∧ Limbs (add_1 u v).1 ∧
    (add_1 u v).1.length = u.length := by
  match u, hne with
  | x :: xs, _ =>
    have ⟨hx, hxs⟩ := Limbs_cons.mp hu
    obtain ⟨iv, ic, il, in_⟩ := incr_val xs hxs
    simp only [add_1]
    split
    · rename_i hlt
      simp only [val_cons, List.length_cons, pow_succ]
      refine ⟨?_, ic, Limbs_cons.mpr ⟨Nat.mod_lt _ B_pos, il⟩, by rw [in_]⟩
      have : (x + v) % B + B = x + v := by simp only [B_eq] at *; omega
      generalize incr xs = res at *
      generalize (x + v) % B = r at *
      nlinarith [iv, this]
    · rename_i hlt
      simp only [val_cons, List.length_cons, pow_succ]
      refine ⟨?_, by omega, Limbs_cons.mpr ⟨Nat.mod_lt _ B_pos, hxs⟩, trivial⟩
      have : (x + v) % B = x + v := by simp only [B_eq] at *; omega
      rw [this]; ring

theorem foldl_ofDigits (b : Nat) : ∀ (l : List Nat) (acc : Nat),
    l.foldl (fun a d => a * b + d) acc = acc * b ^ l.length + ofDigits b l
  | [], acc => by simp
  | x :: l, acc => by
    have h1 := foldl_ofDigits b l (acc * b + x)
    have h2 := foldl_ofDigits b l (0 * b + x)
    simp only [List.foldl_cons, ofDigits, List.length_cons, pow_succ] at *
    rw [h1, h2]; ring

theorem ofDigits_cons (b d : Nat) (ds : List Nat) : ofDigits b (d :: ds) = d * b ^ ds.length + ofDigits b ds := by
  have := foldl_ofDigits b ds (0 * b + d)
  simp only [ofDigits, List.foldl_cons] at *
  rw [this]; ring

theorem ofDigits_app (b : Nat) (l1 l2 : List Nat) :
    ofDigits b (l1 ++ l2) = ofDigits b l1 * b ^ l2.length + ofDigits b l2 := by
  unfold ofDigits
  rw [List.foldl_append, foldl_ofDigits]; rfl

theorem ofDigits_lt {b : Nat} (hb : 0 < b) : ∀ (ds : List Nat), (∀ d ∈ ds, d < b) → ofDigits b ds < b ^ ds.length
  | [], _ => by simp
  | x :: l, h => by
    rw [ofDigits_cons]
    have := ofDigits_lt hb l (fun d hd => h d (List.mem_cons_of_mem _ hd))
    have hx : x + 1 ≤ b := h x (by simp)
    simp only [List.length_cons, pow_succ]
    have := Nat.mul_le_mul_right (b ^ l.length) hx
    nlinarith

/-- a chunk that fits a limb is read exactly -/
theorem chunkVal_eq {b : Nat} (hb : 0 < b) (ds : List Nat) (h : ∀ d ∈ ds, d < b) (hfit : b ^ ds.length ≤ B) :
    chunkVal b ds = ofDigits b ds := by
  match ds with
  | [] => rfl
  | d :: ds =>
    have key : ∀ (l : List Nat) (acc : Nat), (∀ x ∈ l, x < b) → acc * b ^ l.length + ofDigits b l < B →
        l.foldl (fun r d => (r * b + d) % B) acc = acc * b ^ l.length + ofDigits b l := by
      intro l
      induction l with
      | nil => intro acc _ _; simp
      | cons x l ih =>
        intro acc hl hlt
        rw [ofDigits_cons] at hlt ⊢
        simp only [List.foldl_cons, List.length_cons, pow_succ] at hlt ⊢
        have hp : 0 < b ^ l.length := Nat.pow_pos hb
        have hsmall : acc * b + x < B := by
          have : (acc * b + x) * b ^ l.length ≤ acc * (b ^ l.length * b) + (x * b ^ l.length + ofDigits b l) := by
            nlinarith
          have : acc * b + x ≤ (acc * b + x) * b ^ l.length := Nat.le_mul_of_pos_right _ hp
          omega
        rw [Nat.mod_eq_of_lt hsmall, ih _ (fun y hy => hl y (List.mem_cons_of_mem _ hy)) (by nlinarith)]
        ring
    have hlt := ofDigits_lt hb (d :: ds) h
    rw [ofDigits_cons] at hlt ⊢
    exact key ds d (fun x hx => h x (List.mem_cons_of_mem _ hx)) (lt_of_lt_of_le hlt hfit)

theorem bcStep_val (rp : List Nat) (m d : Nat) (hrp : Limbs rp) (hm : m < B) (hd : d < B) :
    val (bcStep rp m d) = val rp * m + d ∧ Limbs (bcStep rp m d) := by
  unfold bcStep
  by_cases h0 : rp.length = 0
  · have : rp = [] := List.length_eq_zero_iff.mp h0
    subst this
    by_cases hd0 : d = 0
    · subst hd0; simp [Limbs_nil]
    · have : (d != 0) = true := by simpa using hd0
      simp [this, Limbs_cons, hd, Limbs_nil]
  · have hne : rp ≠ [] := fun e => h0 (by rw [e]; rfl)
    have hb : (rp.length == 0) = false := by simpa using h0
    simp only [hb, Bool.false_eq_true, if_false]
    obtain ⟨mv, mc, ml, mn⟩ := mul1C_val rp m 0 hrp hm B_pos
    have hne1 : (mul_1 rp m).1 ≠ [] := by
      intro e; have := congrArg List.length e; rw [show (mul_1 rp m).1.length = rp.length from mn] at this
      simp at this; exact hne this
    obtain ⟨av, ac, al, an⟩ := add_1_val (mul_1 rp m).1 d ml hne1 hd
    change val (mul_1 rp m).1 + B ^ rp.length * (mul_1 rp m).2 = val rp * m + 0 at mv
    change (mul_1 rp m).2 < B at mc
    rw [show (mul_1 rp m).1.length = rp.length from mn] at av an
    generalize mul_1 rp m = r1 at *
    obtain ⟨r1, cy1⟩ := r1
    generalize add_1 r1 d = r2 at *
    obtain ⟨r2, cy2⟩ := r2
    simp only at *
    -- the two carries add up to less than B
    have hlt := val_lt rp hrp
    have hr2 := val_lt r2 al
    rw [an] at hr2
    have hp : 0 < B ^ rp.length := Nat.pow_pos B_pos
    have hsum : cy1 + cy2 < B := by
      by_contra hcon
      have h1 : B ^ rp.length * B ≤ B ^ rp.length * (cy1 + cy2) := Nat.mul_le_mul_left _ (by omega)
      have h2 : val rp * m + d < B ^ rp.length * B := by
        have : val rp + 1 ≤ B ^ rp.length := hlt
        have : (val rp + 1) * B ≤ B ^ rp.length * B := Nat.mul_le_mul_right _ this
        nlinarith
      nlinarith
    rw [Nat.mod_eq_of_lt hsum]
    by_cases hc : cy1 + cy2 = 0
    · have : ((cy1 + cy2) != 0) = false := by simp [hc]
      simp only [this, Bool.false_eq_true, if_false]
      refine ⟨?_, al⟩
      have : cy1 = 0 ∧ cy2 = 0 := by omega
      rw [this.1] at mv; rw [this.2] at av; simp only [Nat.mul_zero, Nat.add_zero] at mv av; linarith
    · have : ((cy1 + cy2) != 0) = true := by simpa using hc
      simp only [this, if_true]
      refine ⟨?_, Limbs_append.mpr ⟨al, Limbs_cons.mpr ⟨hsum, Limbs_nil⟩⟩⟩
      rw [val_snoc, an]; nlinarith

theorem foldl_pow (b : Nat) : ∀ (l : List Nat) (acc : Nat), acc * b ^ l.length < B → 0 < b →
    l.foldl (fun m _ => (m * b) % B) acc = acc * b ^ l.length
  | [], acc, _, _ => by simp
  | x :: l, acc, h, hb => by
    simp only [List.foldl_cons, List.length_cons, pow_succ] at h ⊢
    have hp : 0 < b ^ l.length := Nat.pow_pos hb
    have hs : acc * b < B := by
      have : acc * b ≤ acc * b * b ^ l.length := Nat.le_mul_of_pos_right _ hp
      nlinarith
    rw [Nat.mod_eq_of_lt hs, foldl_pow b l (acc * b) (by nlinarith) hb]; ring

theorem bcLoop_val {b cpl bb : Nat} (hb : 2 ≤ b) (hcpl : 0 < cpl) (hbb : bb = b ^ cpl) (hlt : bb < B) :
    ∀ (n : Nat) (str rp : List Nat), str.length = n → str ≠ [] → (∀ d ∈ str, d < b) → Limbs rp →
      val (bcLoop b cpl bb str rp) = val rp * b ^ str.length + ofDigits b str ∧
      Limbs (bcLoop b cpl bb str rp) := by
  intro n
  induction n using Nat.strong_induction_on with
  | _ n ih =>
    intro str rp hn hne hd hrp
    have hbpos : 0 < b := by omega
    rw [bcLoop]
    split
    · rename_i hc
      have htl : (str.take cpl).length = cpl := by rw [List.length_take]; omega
      have htd : ∀ d ∈ str.take cpl, d < b := fun d h => hd d (List.mem_of_mem_take h)
      have hcv : chunkVal b (str.take cpl) = ofDigits b (str.take cpl) :=
        chunkVal_eq hbpos _ htd (by rw [htl, ← hbb]; exact Nat.le_of_lt hlt)
      have hclt : ofDigits b (str.take cpl) < bb := by
        have := ofDigits_lt hbpos _ htd; rw [htl, ← hbb] at this; exact this
      obtain ⟨sv, sl⟩ := bcStep_val rp bb (chunkVal b (str.take cpl)) hrp hlt (by rw [hcv]; omega)
      have hdl : (str.drop cpl).length = str.length - cpl := List.length_drop
      obtain ⟨rv, rl⟩ := ih (str.drop cpl).length (by rw [hdl, ← hn]; omega) (str.drop cpl) _ rfl
        (by intro e; rw [e] at hdl; simp at hdl; omega)
        (fun d h => hd d (List.mem_of_mem_drop h)) sl
      refine ⟨?_, rl⟩
      rw [rv, sv, hcv, hdl]
      conv_rhs => rw [← List.take_append_drop cpl str, ofDigits_app, hdl]
      have : b ^ str.length = bb * b ^ (str.length - cpl) := by
        rw [hbb, ← pow_add]; congr 1; omega
      rw [List.take_append_drop, this]; ring
    · rename_i hc
      have hlen : str.length ≤ cpl := by omega
      have hpos : 0 < str.length := List.length_pos_iff.mpr hne
      have hple : b ^ str.length ≤ bb := by rw [hbb]; exact Nat.pow_le_pow_right hbpos hlen
      have hm : (str.drop 1).foldl (fun m _ => (m * b) % B) b = b ^ str.length := by
        have e : b * b ^ (str.drop 1).length = b ^ str.length := by
          rw [List.length_drop, ← pow_succ']; congr 1; omega
        rw [foldl_pow b _ b (by rw [e]; omega) hbpos, e]
      have hcv : chunkVal b str = ofDigits b str := chunkVal_eq hbpos _ hd (by omega)
      have hclt := ofDigits_lt hbpos _ hd
      rw [hm, hcv]
      exact bcStep_val rp _ _ hrp (by omega) (by omega)

theorem setPow2Go_val {bpd : Nat} (hbpd : 0 < bpd) (h64 : bpd ≤ 64) : ∀ (ds : List Nat) (res nb : Nat),
    (∀ d ∈ ds, d < 2 ^ bpd) → nb < 64 → res < 2 ^ nb →
    val (setPow2Go bpd ds res nb) = res + 2 ^ nb * ofDigits (2 ^ bpd) ds.reverse ∧
    Limbs (setPow2Go bpd ds res nb)
  | [], res, nb, _, hnb, hres => by
    have hB : res < B := lt_trans hres (by rw [B_eq]; exact Nat.pow_lt_pow_right (by omega) hnb |>.trans_eq (by norm_num))
    by_cases h0 : res = 0
    · subst h0; simp [setPow2Go, Limbs_nil]
    · have : (res != 0) = true := by simpa using h0
      simp [setPow2Go, this, Limbs_cons, hB, Limbs_nil]
  | d :: ds, res, nb, hd, hnb, hres => by
    have hd0 : d < 2 ^ bpd := hd d (by simp)
    have hds : ∀ x ∈ ds, x < 2 ^ bpd := fun x hx => hd x (List.mem_cons_of_mem _ hx)
    have hBsplit : B = 2 ^ (64 - nb) * 2 ^ nb := by unfold B; rw [← pow_add]; congr 1; omega
    have hlow : (d <<< nb) % B = (d % 2 ^ (64 - nb)) <<< nb := by
      rw [Nat.shiftLeft_eq, Nat.shiftLeft_eq, hBsplit, Nat.mul_mod_mul_right]
    have hor : res ||| ((d <<< nb) % B) = (d % 2 ^ (64 - nb)) * 2 ^ nb + res := by
      rw [hlow, Nat.or_comm, ← Nat.shiftLeft_add_eq_or_of_lt hres, Nat.shiftLeft_eq]
    have hV : ofDigits (2 ^ bpd) (d :: ds).reverse = ofDigits (2 ^ bpd) ds.reverse * 2 ^ bpd + d := by
      rw [List.reverse_cons, ofDigits_append]
    rw [setPow2Go]
    simp only [hor, hV]
    have hk := Nat.div_add_mod d (2 ^ (64 - nb))
    have hkm : d % 2 ^ (64 - nb) < 2 ^ (64 - nb) := Nat.mod_lt _ (Nat.pow_pos (by omega))
    split
    · rename_i hge
      have hsh : bpd - (nb + bpd - 64) = 64 - nb := by omega
      have hnew : d >>> (64 - nb) < 2 ^ (nb + bpd - 64) := by
        rw [Nat.shiftRight_eq_div_pow, Nat.div_lt_iff_lt_mul (Nat.pow_pos (by omega)), ← pow_add]
        rw [show nb + bpd - 64 + (64 - nb) = bpd by omega]; exact hd0
      rw [hsh]
      obtain ⟨iv, il⟩ := setPow2Go_val hbpd h64 ds (d >>> (64 - nb)) (nb + bpd - 64) hds (by omega) hnew
      have hlimb : d % 2 ^ (64 - nb) * 2 ^ nb + res < B := by
        rw [hBsplit]
        have : d % 2 ^ (64 - nb) + 1 ≤ 2 ^ (64 - nb) := hkm
        have := Nat.mul_le_mul_right (2 ^ nb) this
        nlinarith
      refine ⟨?_, Limbs_cons.mpr ⟨hlimb, il⟩⟩
      rw [val_cons, iv, Nat.shiftRight_eq_div_pow]
      have e1 : (2 : Nat) ^ (nb + bpd - 64) * B = 2 ^ nb * 2 ^ bpd := by
        unfold B; rw [← pow_add, ← pow_add]; congr 1; omega
      generalize ofDigits (2 ^ bpd) ds.reverse = V at *
      generalize d / 2 ^ (64 - nb) = q at *
      generalize d % 2 ^ (64 - nb) = m at *
      calc m * 2 ^ nb + res + B * (q + 2 ^ (nb + bpd - 64) * V)
          = res + 2 ^ nb * (2 ^ (64 - nb) * q + m) + (2 ^ (nb + bpd - 64) * B) * V := by rw [hBsplit]; ring
        _ = res + 2 ^ nb * (V * 2 ^ bpd + d) := by rw [e1, hk]; ring
    · rename_i hlt
      have hres' : d % 2 ^ (64 - nb) * 2 ^ nb + res < 2 ^ (nb + bpd) := by
        have hdd : d % 2 ^ (64 - nb) ≤ d := Nat.mod_le _ _
        have : d + 1 ≤ 2 ^ bpd := hd0
        rw [pow_add]
        have := Nat.mul_le_mul_left (2 ^ nb) this
        have := Nat.mul_le_mul_right (2 ^ nb) hdd
        nlinarith
      obtain ⟨iv, il⟩ := setPow2Go_val hbpd h64 ds _ (nb + bpd) hds (by omega) hres'
      refine ⟨?_, il⟩
      rw [iv]
      have hdsmall : d % 2 ^ (64 - nb) = d := by
        apply Nat.mod_eq_of_lt
        exact lt_of_lt_of_le hd0 (Nat.pow_le_pow_right (by omega) (by omega))
      rw [hdsmall, pow_add]; ring

theorem set_str_pow2_of_table {b : Nat} (hok : Pow2Ok b) (h64 : bigBase b ≤ 64) (str : List Nat)
    (hd : ∀ d ∈ str, d < b) :
    val (set_str_pow2 b str) = ofDigits b str ∧ Limbs (set_str_pow2 b str) := by
  obtain ⟨hpow, hbpd, _, _⟩ := hok
  unfold set_str_pow2
  obtain ⟨v, l⟩ := setPow2Go_val hbpd h64 str.reverse 0 0
    (fun d h => by rw [hpow]; exact hd d (List.mem_reverse.mp h)) (by omega) (by simp)
  refine ⟨?_, l⟩
  rw [v, List.reverse_reverse, hpow]; simp

/-! ### parser -/

theorem skipSpace_eq : ∀ l : List Nat, skipSpace l = rd (l.dropWhile isSpace)
  | [] => rfl
  | c :: r => by
    by_cases h : isSpace c = true
    · simp [skipSpace, h, skipSpace_eq r]
    · simp [skipSpace, h, rd]

/-- the characters skipped after the prefix: `'0'` and white space -/
def zs (c : Nat) : Bool := c == 48 || isSpace c

theorem skipZeroSpace_eq : ∀ l : List Nat, skipZeroSpace (rd l).1 (rd l).2 = rd (l.dropWhile zs)
  | [] => by simp [rd, skipZeroSpace]
  | [c] => by
    by_cases h : zs c = true
    · have h' : (c == 48 || isSpace c) = true := h
      simp [rd, skipZeroSpace, h, h']
    · have h' : ¬ (c == 48 || isSpace c) = true := h
      simp [rd, skipZeroSpace, h, h']
  | c :: c' :: r => by
    have ih := skipZeroSpace_eq (c' :: r)
    by_cases h : zs c = true
    · have h' : (c == 48 || isSpace c) = true := h
      simp only [rd, skipZeroSpace, h', if_true, List.dropWhile_cons_of_pos h] at ih ⊢
      exact ih
    · have h' : ¬ (c == 48 || isSpace c) = true := h
      simp [rd, skipZeroSpace, h', List.dropWhile_cons_of_neg h]

/-- the table offset used for a requested base -/
def offOf (rb : Nat) : Nat := if rb > 36 then 224 else 0

theorem charValue_base (rb c : Nat) : charValue rb c = if rb ≤ 36 then charValue 36 c else charValue 62 c := by
  unfold charValue
  by_cases h : rb ≤ 36 <;> simp [h]

/-- hypothesis form of `digit_tab_ok` -/
def TabOk : Prop := ∀ c < 256,
  digitValue 0 c = (match charValue 36 c with | some v => v | none => 255) ∧
  digitValue 224 c = (match charValue 62 c with | some v => v | none => 255)

theorem digitValue_eq (htab : TabOk) (rb c : Nat) (hc : c < 256) :
    digitValue (offOf rb) c = (charValue rb c).getD 255 := by
  obtain ⟨h1, h2⟩ := htab c hc
  rw [charValue_base]
  unfold offOf
  by_cases h : rb ≤ 36
  · have : ¬ rb > 36 := by omega
    simp only [this, if_false, h, if_true, h1]
    cases charValue 36 c <;> rfl
  · have : rb > 36 := by omega
    simp only [this, if_true, h, if_false, h2]
    cases charValue 62 c <;> rfl

theorem charValue_lt (rb c v : Nat) (h : charValue rb c = some v) : v < 62 := by
  unfold charValue at h
  split at h
  · simp at h; omega
  · split at h
    · simp at h; omega
    · split at h
      · simp at h; split at h <;> omega
      · simp at h

theorem digitOf_eq (htab : TabOk) (rb b c : Nat) (hc : c < 256) (hb : b ≤ 62) :
    digitOf rb b c = if digitValue (offOf rb) c < b then some (digitValue (offOf rb) c) else none := by
  rw [digitValue_eq htab rb c hc]
  unfold digitOf
  cases h : charValue rb c with
  | none => simp; omega
  | some v => simp

theorem convDigits_eq (htab : TabOk) (rb b : Nat) (hb : b ≤ 62) : ∀ l : List Nat, (∀ c ∈ l, c < 256) →
    convDigits (offOf rb) b l = (l.filter (fun c => !isSpace c)).mapM (digitOf rb b)
  | [], _ => by simp [convDigits]
  | c :: r, h => by
    have ih := convDigits_eq htab rb b hb r (fun x hx => h x (List.mem_cons_of_mem _ hx))
    have hc := h c (by simp)
    rw [convDigits]
    by_cases hs : isSpace c = true
    · simp [hs, ih]
    · simp only [hs, Bool.not_false, if_true, List.filter_cons_of_pos, List.mapM_cons,
        digitOf_eq htab rb b c hc hb, ih]
      by_cases hd : digitValue (offOf rb) c < b
      · have : ¬ digitValue (offOf rb) c ≥ b := by omega
        simp only [this, if_false, hd, if_true]
        cases (List.filter (fun c => !isSpace c) r).mapM (digitOf rb b) <;> simp
      · have : digitValue (offOf rb) c ≥ b := by omega
        simp [this, hd]

theorem val_natLimbs (v : Nat) : val (natLimbs v) = v ∧ Limbs (natLimbs v) := by
  induction v using Nat.strong_induction_on with
  | _ v ih =>
    rw [natLimbs]
    split
    · rename_i h; subst h; simp [Limbs_nil]
    · rename_i h
      obtain ⟨iv, il⟩ := ih (v / B) (Nat.div_lt_self (Nat.pos_of_ne_zero h) (by rw [B_eq]; omega))
      refine ⟨?_, Limbs_cons.mpr ⟨Nat.mod_lt _ B_pos, il⟩⟩
      rw [val_cons, iv]; have := Nat.div_add_mod v B; omega

/-- mpn_set_str returns the value of the digit string (power-of-two path, basecase, and the
    specification-level stand-in for the divide-and-conquer path) -/
theorem mpn_set_str_val_of_table {b : Nat} (hb : 2 ≤ b) (hb62 : b ≤ 62)
    (hnp : pow2P b = false → NonPow2Ok b) (hp2 : pow2P b = true → Pow2Ok b)
    (str : List Nat) (hne : str ≠ []) (hd : ∀ d ∈ str, d < b) :
    val (mpn_set_str b str) = ofDigits b str := by
  unfold mpn_set_str
  cases hp : pow2P b with
  | true =>
    simp only [if_true]
    have hok := hp2 hp
    have h64 : bigBase b ≤ 64 := by
      by_contra hcon
      have : 2 ^ 64 ≤ 2 ^ bigBase b := Nat.pow_le_pow_right (by omega) (by omega)
      rw [hok.1] at this; omega
    exact (set_str_pow2_of_table hok h64 str hd).1
  | false =>
    simp only [Bool.false_eq_true, if_false]
    split
    · have hok := hnp hp
      have := bcLoop_val hb (hok.cpl_pos hb62) hok.1 (hok.1 ▸ hok.2.1) str.length str [] rfl hne hd Limbs_nil
      simpa [bc_set_str] using this.1
    · exact (val_natLimbs _).1

/-- leading `'0'` characters and white space do not change the value -/
theorem mapM_dropWhile_zs (rb b : Nat) (hb : 0 < b) : ∀ l : List Nat,
    ((l.filter (fun c => !isSpace c)).mapM (digitOf rb b)).map (ofDigits b) =
    (((l.dropWhile zs).filter (fun c => !isSpace c)).mapM (digitOf rb b)).map (ofDigits b)
  | [] => rfl
  | c :: r => by
    have ih := mapM_dropWhile_zs rb b hb r
    by_cases h : zs c = true
    · rw [List.dropWhile_cons_of_pos h, ← ih]
      by_cases hs : isSpace c = true
      · simp [hs]
      · have h48 : c = 48 := by
          unfold zs at h; simp only [Bool.or_eq_true, beq_iff_eq] at h
          rcases h with h | h
          · exact h
          · exact absurd h hs
        subst h48
        have hd0 : digitOf rb b 48 = some 0 := by
          unfold digitOf charValue; simp; omega
        simp only [hs, Bool.not_false, List.filter_cons_of_pos, List.mapM_cons, hd0]
        cases (List.filter (fun c => !isSpace c) r).mapM (digitOf rb b) with
        | none => simp
        | some ds => simp [ofDigits_cons]
    · rw [List.dropWhile_cons_of_neg h]

theorem mapM_digitOf_lt (rb b : Nat) : ∀ (l ds : List Nat), l.mapM (digitOf rb b) = some ds →
    (∀ d ∈ ds, d < b) ∧ ds.length = l.length
  | [], ds, h => by simp at h; subst h; simp
  | c :: r, ds, h => by
    simp only [List.mapM_cons] at h
    cases hc : digitOf rb b c with
    | none => simp [hc] at h
    | some v =>
      cases hr : r.mapM (digitOf rb b) with
      | none => simp [hc, hr] at h
      | some vs =>
        simp [hc, hr] at h
        subst h
        obtain ⟨i1, i2⟩ := mapM_digitOf_lt rb b r vs hr
        have hv : v < b := by
          unfold digitOf at hc
          cases hcv : charValue rb c with
          | none => simp [hcv] at hc
          | some w =>
            simp [hcv] at hc
            obtain ⟨h1, h2⟩ := hc; omega
        refine ⟨?_, by simp [i2]⟩
        intro d hd
        rcases List.mem_cons.mp hd with h | h
        · omega
        · exact i1 d h

/-- the value part of the specification once sign, base and prefix are settled -/
def specTail (rb b : Nat) (neg : Bool) (s3 : List Nat) : Option Int :=
  match (s3.filter (fun c => !isSpace c)).mapM (digitOf rb b) with
  | none => none
  | some ds => some (if neg then -(Int.ofNat (ofDigits b ds)) else Int.ofNat (ofDigits b ds))

theorem setStrTail_eq (htab : TabOk) {rb b : Nat} (hb : 2 ≤ b) (hb62 : b ≤ 62)
    (hnp : pow2P b = false → NonPow2Ok b) (hp2 : pow2P b = true → Pow2Ok b) (neg : Bool)
    (s3 : List Nat) (h3 : ∀ c ∈ s3, c ≠ 0 ∧ c < 256) :
    setStrTail (offOf rb) b neg (rd s3).1 (rd s3).2 = specTail rb b neg s3 := by
  unfold setStrTail specTail
  rw [skipZeroSpace_eq]
  have hdz := mapM_dropWhile_zs rb b (by omega) s3
  have hsub : ∀ c ∈ s3.dropWhile zs, c ≠ 0 ∧ c < 256 :=
    fun c hc => h3 c ((List.dropWhile_sublist _).subset hc)
  cases hs4 : s3.dropWhile zs with
  | nil =>
    rw [hs4] at hdz
    simp only [rd, beq_self_eq_true, if_true]
    simp only [List.filter_nil, List.mapM_nil] at hdz
    cases hm : (s3.filter (fun c => !isSpace c)).mapM (digitOf rb b) with
    | none => rw [hm] at hdz; simp at hdz
    | some ds =>
      rw [hm] at hdz
      have : ofDigits b ds = 0 := by simpa using hdz
      simp [this]
  | cons c str =>
    rw [hs4] at hdz hsub
    have hc0 : c ≠ 0 := (hsub c (by simp)).1
    have hnz : ¬ zs c = true := by
      have := List.head_dropWhile_not zs (l := s3) (by rw [hs4]; simp)
      simp only [hs4, List.head_cons] at this
      simpa using this
    have hnsp : isSpace c = false := by
      unfold zs at hnz; simp only [Bool.or_eq_true, not_or] at hnz
      simpa using hnz.2
    have hcb : (c == 0) = false := by simpa using hc0
    simp only [rd, hcb, Bool.false_eq_true, if_false]
    rw [convDigits_eq htab rb b hb62 (c :: str) (fun x hx => (hsub x hx).2)]
    cases hm4 : ((c :: str).filter (fun c => !isSpace c)).mapM (digitOf rb b) with
    | none =>
      rw [hm4] at hdz
      cases hm : (s3.filter (fun c => !isSpace c)).mapM (digitOf rb b) with
      | none => rfl
      | some ds => rw [hm] at hdz; simp at hdz
    | some ds =>
      rw [hm4] at hdz
      obtain ⟨hlt, hlen⟩ := mapM_digitOf_lt rb b _ ds hm4
      have hne : ds ≠ [] := by
        intro e; rw [e] at hlen
        simp [hnsp] at hlen
      have hv := mpn_set_str_val_of_table hb hb62 hnp hp2 ds hne hlt
      cases hm : (s3.filter (fun c => !isSpace c)).mapM (digitOf rb b) with
      | none => rw [hm] at hdz; simp at hdz
      | some ds' =>
        rw [hm] at hdz
        have : ofDigits b ds' = ofDigits b ds := by simpa using hdz
        simp [hv, this]

theorem splitPrefix_other (c1 : Nat) (r : List Nat) (h1 : c1 ≠ 120) (h2 : c1 ≠ 88) (h3 : c1 ≠ 98) (h4 : c1 ≠ 66) :
    splitPrefix (48 :: c1 :: r) = (8, c1 :: r) := by
  unfold splitPrefix
  split <;> simp_all

theorem splitPrefix_not48 (c : Nat) (r : List Nat) (h : c ≠ 48) : splitPrefix (c :: r) = (10, c :: r) := by
  unfold splitPrefix
  split <;> simp_all

theorem setStrPrefix_zero (c : Nat) (r : List Nat) :
    setStrPrefix 0 c r = ((splitPrefix (c :: r)).1, (rd (splitPrefix (c :: r)).2).1, (rd (splitPrefix (c :: r)).2).2) := by
  unfold setStrPrefix
  simp only [if_true]
  by_cases h48 : c = 48
  · subst h48
    simp only [beq_self_eq_true, if_true]
    cases r with
    | nil => simp [rd, splitPrefix]
    | cons c1 r1 =>
      by_cases h1 : c1 = 120
      · subst h1; simp [rd, splitPrefix]
      by_cases h2 : c1 = 88
      · subst h2; simp [rd, splitPrefix]
      by_cases h3 : c1 = 98
      · subst h3; simp [rd, splitPrefix]
      by_cases h4 : c1 = 66
      · subst h4; simp [rd, splitPrefix]
      rw [splitPrefix_other c1 r1 h1 h2 h3 h4]
      simp [rd, h1, h2, h3, h4]
  · rw [splitPrefix_not48 c r h48]
    have : (c == 48) = false := by simpa using h48
    simp [this, rd]

/-- the bases mpz_set_str can end up converting in -/
theorem splitPrefix_base (s : List Nat) : (splitPrefix s).1 = 16 ∨ (splitPrefix s).1 = 2 ∨ (splitPrefix s).1 = 8 ∨
    (splitPrefix s).1 = 10 := by
  unfold splitPrefix; split <;> simp

theorem splitPrefix_suffix (s : List Nat) : ∀ c ∈ (splitPrefix s).2, c ∈ s := by
  unfold splitPrefix; split <;> simp_all

/-- table facts for all bases, as established by `bases_table_ok` -/
def BasesOk : Prop := ∀ b < 63, 2 ≤ b → (pow2P b = false → NonPow2Ok b) ∧ (pow2P b = true → Pow2Ok b)

/-- mpz_set_str after white space and sign -/
def modelRest (rb : Nat) (neg : Bool) (c : Nat) (str : List Nat) : Option Int :=
  if ((digitValue (offOf rb) c : Nat) : Int) ≥ (if (rb : Int) = 0 then 10 else (rb : Int)) then none else
  match setStrPrefix (rb : Int) c str with
  | (b, c, str) => setStrTail (offOf rb) b neg c str

/-- parseSpec after white space and sign -/
def specRest (rb : Nat) (neg : Bool) (s2 : List Nat) : Option Int :=
  match s2 with
  | [] => none
  | c :: _ =>
    if (digitOf rb (if rb = 0 then 10 else rb) c).isNone then none else
    match (if rb = 0 then splitPrefix s2 else (rb, s2)) with
    | (b, s) => specTail rb b neg s

theorem rest_eq (htab : TabOk) (hbases : BasesOk) {rb : Nat} (hrb62 : rb ≤ 62) (hrb1 : rb ≠ 1) (neg : Bool)
    (s2 : List Nat) (h2 : ∀ c ∈ s2, c ≠ 0 ∧ c < 256) :
    modelRest rb neg (rd s2).1 (rd s2).2 = specRest rb neg s2 := by
  have hlimI : (if (rb : Int) = 0 then (10 : Int) else (rb : Int)) = (((if rb = 0 then 10 else rb) : Nat) : Int) := by
    by_cases h : rb = 0 <;> simp [h]
  have hlim62 : (if rb = 0 then 10 else rb) ≤ 62 := by split <;> omega
  cases s2 with
  | nil =>
    show modelRest rb neg 0 [] = none
    unfold modelRest
    have h255 : digitValue (offOf rb) 0 = 255 := by
      rw [digitValue_eq htab rb 0 (by omega)]; rfl
    rw [if_pos (by rw [h255, hlimI]; omega)]
  | cons c r =>
    show modelRest rb neg c r = _
    have hc := (h2 c (by simp)).2
    unfold modelRest specRest
    dsimp only
    rw [hlimI, digitOf_eq htab rb _ c hc hlim62]
    by_cases hd : digitValue (offOf rb) c < (if rb = 0 then 10 else rb)
    · rw [if_neg (by omega), if_pos hd]
      simp only [Option.isNone_some, Bool.false_eq_true, if_false]
      by_cases h0 : rb = 0
      · subst h0
        simp only [Nat.cast_zero, if_true]
        rw [setStrPrefix_zero]
        have hb := splitPrefix_base (c :: r)
        have hsuf := splitPrefix_suffix (c :: r)
        generalize splitPrefix (c :: r) = p at *
        obtain ⟨b, s3⟩ := p
        simp only at hb hsuf ⊢
        have hb2 : 2 ≤ b ∧ b ≤ 62 := by omega
        exact setStrTail_eq htab hb2.1 hb2.2 (hbases b (by omega) hb2.1).1 (hbases b (by omega) hb2.1).2 neg s3
          (fun x hx => h2 x (hsuf x hx))
      · have hb2 : 2 ≤ rb := by omega
        have hne : ((rb : Nat) : Int) ≠ 0 := by omega
        simp only [setStrPrefix, hne, if_false, h0, Int.toNat_natCast]
        exact setStrTail_eq htab hb2 hrb62 (hbases rb (by omega) hb2).1 (hbases rb (by omega) hb2).2 neg (c :: r) h2
    · rw [if_pos (by omega), if_neg hd]
      simp only [Option.isNone_none, if_true]

theorem mem_takeWhile_ne0 (c : Nat) : ∀ l : List Nat, c ∈ l.takeWhile (· != 0) → c ≠ 0 := by
  intro l
  induction l with
  | nil => simp
  | cons x l ih =>
    intro h
    by_cases hx : x = 0
    · subst hx; simp at h
    · simp only [List.takeWhile_cons, bne_iff_ne, ne_eq, hx, not_false_eq_true, if_true,
        List.mem_cons] at h
      rcases h with h | h
      · omega
      · exact ih h

theorem mpz_set_str_eq_parse_of (htab : TabOk) (hbases : BasesOk) (base : Int) (hb1 : base ≠ 1)
    (s : List Nat) (hs : ∀ c ∈ s, c < 256) : mpz_set_str base s = parseSpec base s := by
  have hs' : ∀ c ∈ s.takeWhile (· != 0), c ≠ 0 ∧ c < 256 := fun c hc =>
    ⟨mem_takeWhile_ne0 c s hc, hs c ((List.takeWhile_sublist _).subset hc)⟩
  by_cases h62 : base > 62
  · unfold mpz_set_str parseSpec
    have : base < 0 ∨ base = 1 ∨ 62 < base := Or.inr (Or.inr h62)
    dsimp only
    rw [if_pos this, if_pos h62]
  by_cases hneg : base < 0
  · unfold mpz_set_str parseSpec
    have hne0 : base ≠ 0 := by omega
    have hor : base < 0 ∨ base = 1 ∨ 62 < base := Or.inl hneg
    dsimp only
    rw [if_pos hor, if_neg h62]
    have : ∀ (off c : Nat), ((digitValue off c : Nat) : Int) ≥ (if base = 0 then 10 else base) := by
      intro off c; rw [if_neg hne0]; omega
    simp only [this, if_true]
  -- 0 ≤ base ≤ 62, base ≠ 1
  obtain ⟨rb, hrb⟩ : ∃ rb : Nat, base = (rb : Int) := ⟨base.toNat, by omega⟩
  subst hrb
  have hrb62 : rb ≤ 62 := by omega
  have hrb1 : rb ≠ 1 := by omega
  have hoff : (if ((rb : Nat) : Int) > 36 then 224 else 0) = offOf rb := by
    unfold offOf; by_cases h : rb > 36
    · have : ((rb : Nat) : Int) > 36 := by omega
      simp [h, this]
    · have : ¬ ((rb : Nat) : Int) > 36 := by omega
      simp [h, this]
  have hcond : ¬ (((rb : Nat) : Int) < 0 ∨ ((rb : Nat) : Int) = 1 ∨ 62 < ((rb : Nat) : Int)) := by omega
  -- both sides in terms of modelRest / specRest
  have hmodel : mpz_set_str (rb : Int) s =
      (match setStrSign (rd ((s.takeWhile (· != 0)).dropWhile isSpace)).1 (rd ((s.takeWhile (· != 0)).dropWhile isSpace)).2 with
       | (negative, c, str) => modelRest rb negative c str) := by
    unfold mpz_set_str
    simp only [h62, if_false, hoff]
    rw [skipSpace_eq]
    rfl
  have hspec : parseSpec (rb : Int) s =
      (let s1 := (s.takeWhile (· != 0)).dropWhile isSpace
       let neg := s1.head? == some 45
       specRest rb neg (if neg then s1.drop 1 else s1)) := by
    unfold parseSpec
    simp only [hcond, if_false, Int.toNat_natCast]
    rfl
  rw [hmodel, hspec]
  have hsub1 : ∀ c ∈ (s.takeWhile (· != 0)).dropWhile isSpace, c ≠ 0 ∧ c < 256 :=
    fun c hc => hs' c ((List.dropWhile_sublist _).subset hc)
  generalize (s.takeWhile (· != 0)).dropWhile isSpace = s1 at hsub1
  cases s1 with
  | nil =>
    show modelRest rb false 0 [] = specRest rb false []
    exact rest_eq htab hbases hrb62 hrb1 false [] (by simp)
  | cons c0 r0 =>
    by_cases h45 : c0 = 45
    · subst h45
      show modelRest rb true (rd r0).1 (rd r0).2 = specRest rb true r0
      exact rest_eq htab hbases hrb62 hrb1 true r0 (fun x hx => hsub1 x (List.mem_cons_of_mem _ hx))
    · have hb : (c0 == 45) = false := by simpa using h45
      have hh : (some c0 == some 45) = false := by simpa using h45
      simp only [rd, setStrSign, hb, Bool.false_eq_true, if_false, List.head?_cons, hh]
      exact rest_eq htab hbases hrb62 hrb1 false (c0 :: r0) hsub1

/-! ### mpz_get_str and the round trip -/

theorem natLimbs_zero : natLimbs 0 = [] := by rw [natLimbs]; simp

theorem natLimbs_top (v : Nat) (hv : v ≠ 0) : natLimbs v ≠ [] ∧ (natLimbs v).getLast! ≠ 0 := by
  induction v using Nat.strong_induction_on with
  | _ v ih =>
    rw [natLimbs, dif_neg hv]
    refine ⟨by simp, ?_⟩
    by_cases hq : v / B = 0
    · rw [hq, natLimbs_zero]
      have : v < B := by
        by_contra hcon
        have := Nat.div_pos (Nat.le_of_not_lt hcon) B_pos; omega
      simp [List.getLast!, Nat.mod_eq_of_lt this, hv]
    · obtain ⟨h1, h2⟩ := ih (v / B) (Nat.div_lt_self (Nat.pos_of_ne_zero hv) (by rw [B_eq]; omega)) hq
      cases hl : natLimbs (v / B) with
      | nil => exact absurd hl h1
      | cons a l =>
        rw [hl] at h2
        simpa [List.getLast!] using h2

/-- the legal bases of mpz_get_str / mpz_out_str -/
def LegalOutBase (base : Int) : Prop := (2 ≤ base ∧ base ≤ 62) ∨ (-36 ≤ base ∧ base ≤ -2)

theorem digitChar_props (base : Int) (hb : LegalOutBase base) (d : Nat) (hd : d < base.natAbs) :
    charValue base.natAbs (digitChar base d) = some d ∧ isSpace (digitChar base d) = false ∧
    digitChar base d ≠ 0 ∧ digitChar base d ≠ 45 ∧ digitChar base d < 256 := by
  unfold LegalOutBase at hb
  unfold digitChar charValue isSpace
  rcases hb with ⟨h1, h2⟩ | ⟨h1, h2⟩
  · have hn : ¬ base < 0 := by omega
    simp only [hn, if_false]
    by_cases h36 : base ≤ 36
    · have : base.natAbs ≤ 36 := by omega
      simp only [h36, if_true, this]
      by_cases h10 : d < 10
      · simp only [h10, if_true]
        refine ⟨?_, ?_, by omega, by omega, by omega⟩
        · rw [if_pos (by omega)]; congr 1; omega
        · simp; omega
      · simp only [h10, if_false]
        refine ⟨?_, ?_, by omega, by omega, by omega⟩
        · rw [if_neg (by omega), if_neg (by omega), if_pos (by omega)]; congr 1; omega
        · simp; omega
    · have : ¬ base.natAbs ≤ 36 := by omega
      simp only [h36, if_false, this]
      by_cases h10 : d < 10
      · simp only [h10, if_true]
        refine ⟨?_, ?_, by omega, by omega, by omega⟩
        · rw [if_pos (by omega)]; congr 1; omega
        · simp; omega
      · simp only [h10, if_false]
        by_cases h36d : d < 36
        · simp only [h36d, if_true]
          refine ⟨?_, ?_, by omega, by omega, by omega⟩
          · rw [if_neg (by omega), if_pos (by omega)]; congr 1; omega
          · simp; omega
        · simp only [h36d, if_false]
          refine ⟨?_, ?_, by omega, by omega, by omega⟩
          · rw [if_neg (by omega), if_neg (by omega), if_pos (by omega)]; congr 1; omega
          · simp; omega
  · have hn : base < 0 := by omega
    have : base.natAbs ≤ 36 := by omega
    simp only [hn, if_true, this]
    by_cases h10 : d < 10
    · simp only [h10, if_true]
      refine ⟨?_, ?_, by omega, by omega, by omega⟩
      · rw [if_pos (by omega)]; congr 1; omega
      · simp; omega
    · simp only [h10, if_false]
      refine ⟨?_, ?_, by omega, by omega, by omega⟩
      · rw [if_neg (by omega), if_pos (by omega)]; congr 1; omega
      · simp; omega

theorem mapM_digitChar (base : Int) (hb : LegalOutBase base) : ∀ ds : List Nat, (∀ d ∈ ds, d < base.natAbs) →
    (ds.map (digitChar base)).mapM (digitOf base.natAbs base.natAbs) = some ds
  | [], _ => rfl
  | d :: ds, h => by
    have hd := h d (by simp)
    have ih := mapM_digitChar base hb ds (fun x hx => h x (List.mem_cons_of_mem _ hx))
    have hp := (digitChar_props base hb d hd).1
    simp only [List.map_cons, List.mapM_cons, digitOf, hp, hd, if_true, ih]
    rfl

theorem takeWhile_all {p : Nat → Bool} : ∀ l : List Nat, (∀ c ∈ l, p c = true) → l.takeWhile p = l
  | [], _ => rfl
  | x :: l, h => by
    rw [List.takeWhile_cons_of_pos (h x (by simp)), takeWhile_all l (fun c hc => h c (List.mem_cons_of_mem _ hc))]

theorem parseSpec_nat (rb : Nat) (h1 : rb ≠ 1) (h62 : rb ≤ 62) (s : List Nat) :
    parseSpec (rb : Int) s =
      specRest rb (((s.takeWhile (· != 0)).dropWhile isSpace).head? == some 45)
        (if (((s.takeWhile (· != 0)).dropWhile isSpace).head? == some 45) = true
          then ((s.takeWhile (· != 0)).dropWhile isSpace).drop 1 else (s.takeWhile (· != 0)).dropWhile isSpace) := by
  have hcond : ¬ (((rb : Nat) : Int) < 0 ∨ ((rb : Nat) : Int) = 1 ∨ 62 < ((rb : Nat) : Int)) := by omega
  unfold parseSpec
  simp only [hcond, if_false, Int.toNat_natCast]
  rfl

theorem parse_getStrSpec (base : Int) (hb : LegalOutBase base) (x : Int) :
    parseSpec ((base.natAbs : Nat) : Int) (getStrSpec base x) = some x := by
  have hb2 : 2 ≤ base.natAbs ∧ base.natAbs ≤ 62 := by unfold LegalOutBase at hb; omega
  -- the digit list
  obtain ⟨ds, hds, hlt, hne, hval⟩ : ∃ ds : List Nat,
      (if x = 0 then [0] else digitsOf base.natAbs x.natAbs) = ds ∧ (∀ d ∈ ds, d < base.natAbs) ∧ ds ≠ [] ∧
      ofDigits base.natAbs ds = x.natAbs := by
    by_cases hx : x = 0
    · subst hx; exact ⟨[0], by simp, by simp; omega, by simp, by simp [ofDigits]⟩
    · refine ⟨_, by simp [hx], digitsOf_lt hb2.1 _, digitsOf_ne_nil hb2.1 (by omega), ofDigits_digitsOf hb2.1 _⟩
  have hprops : ∀ c ∈ ds.map (digitChar base), isSpace c = false ∧ c ≠ 0 ∧ c ≠ 45 := by
    intro c hc
    obtain ⟨d, hd, rfl⟩ := List.mem_map.mp hc
    have := digitChar_props base hb d (hlt d hd)
    exact ⟨this.2.1, this.2.2.1, this.2.2.2.1⟩
  unfold getStrSpec
  simp only [hds]
  generalize hcs : ds.map (digitChar base) = cs at hprops
  have hcsne : cs ≠ [] := by rw [← hcs]; simpa using hne
  have hmap : cs.mapM (digitOf base.natAbs base.natAbs) = some ds := by
    rw [← hcs]; exact mapM_digitChar base hb ds hlt
  have htw : ∀ pre : List Nat, (∀ c ∈ pre, c ≠ 0) → (pre ++ cs).takeWhile (· != 0) = pre ++ cs := by
    intro pre hpre
    apply takeWhile_all
    intro c hc
    rcases List.mem_append.mp hc with h | h
    · simpa using hpre c h
    · simpa using (hprops c h).2.1
  have hfilter : cs.filter (fun c => !isSpace c) = cs := by
    apply List.filter_eq_self.mpr
    intro c hc; simp [(hprops c hc).1]
  obtain ⟨c0, r0, hcr⟩ : ∃ c0 r0, cs = c0 :: r0 := by
    cases cs with
    | nil => exact absurd rfl hcsne
    | cons a l => exact ⟨a, l, rfl⟩
  have hc0 := hprops c0 (by rw [hcr]; simp)
  have hrb0 : base.natAbs ≠ 0 := by omega
  -- specRest on the digit characters
  have hrest : ∀ neg : Bool, specRest base.natAbs neg cs =
      some (if neg then -(Int.ofNat x.natAbs) else Int.ofNat x.natAbs) := by
    intro neg
    have hfirst : (digitOf base.natAbs (if base.natAbs = 0 then 10 else base.natAbs) c0).isNone = false := by
      rw [if_neg hrb0]
      have hm := hmap
      rw [hcr] at hm
      simp only [List.mapM_cons] at hm
      cases hd : digitOf base.natAbs base.natAbs c0 with
      | none => simp [hd] at hm
      | some v => rfl
    unfold specRest
    rw [hcr]
    dsimp only
    rw [hfirst]
    simp only [Bool.false_eq_true, if_false, hrb0]
    unfold specTail
    rw [← hcr, hfilter, hmap]
    simp only [hval]
  rw [parseSpec_nat _ (by omega) hb2.2]
  by_cases hx : x < 0
  · simp only [hx, if_true]
    rw [htw [45] (by simp)]
    have hdw : ([45] ++ cs).dropWhile isSpace = 45 :: cs := by
      simp [isSpace]
    rw [hdw]
    simp only [List.head?_cons, beq_self_eq_true, if_true, List.drop_succ_cons, List.drop_zero]
    rw [hrest true]
    simp only [if_true]
    congr 1; simp only [Int.ofNat_eq_natCast]; omega
  · simp only [hx, if_false, List.nil_append]
    have := htw [] (by simp)
    simp only [List.nil_append] at this
    rw [this]
    have hdw : cs.dropWhile isSpace = cs := by
      rw [hcr]; simp [hc0.1]
    rw [hdw]
    have hh : (cs.head? == some 45) = false := by
      rw [hcr]; simpa using hc0.2.2
    simp only [hh, Bool.false_eq_true, if_false]
    rw [hrest false]
    simp only [Bool.false_eq_true, if_false]
    congr 1; simp only [Int.ofNat_eq_natCast]; omega

theorem mpn_get_str_of_table {b : Nat} (hb : 2 ≤ b) (hb62 : b ≤ 62)
    (hnp : pow2P b = false → NonPow2Ok b) (hp2 : pow2P b = true → Pow2Ok b) (h10 : Base10Ok)
    (up : List Nat) (hu : Limbs up) (hne : up ≠ []) (htop : up.getLast! ≠ 0) :
    mpn_get_str b up = digitsOf b (val up) := by
  unfold mpn_get_str
  have hl : (up.length == 0) = false := by
    cases up with
    | nil => exact absurd rfl hne
    | cons a l => rfl
  simp only [hl, Bool.false_eq_true, if_false]
  cases hp : pow2P b with
  | true =>
    simp only [if_true]
    have hok := hp2 hp
    have h64 : bigBase b ≤ 64 := by
      by_contra hcon
      have : 2 ^ 64 ≤ 2 ^ bigBase b := Nat.pow_le_pow_right (by omega) (by omega)
      rw [hok.1] at this; omega
    exact get_str_pow2_of_table hb hok h64 up hu hne htop
  | false =>
    simp only [Bool.false_eq_true, if_false]
    split
    · exact sb_get_str_of_table hb hb62 (hnp hp) h10 up hu hne htop
    · rfl

theorem text_lower : ∀ d < 36, numToTextLower.getD d 0 = (if d < 10 then 48 + d else 97 + (d - 10)) := by decide
theorem text_upper : ∀ d < 36, numToTextUpper.getD d 0 = (if d < 10 then 48 + d else 65 + (d - 10)) := by decide
theorem text_62 : ∀ d < 62, numToText62.getD d 0 =
    (if d < 10 then 48 + d else if d < 36 then 65 + (d - 10) else 97 + (d - 36)) := by decide

theorem getStrBase_legal (base : Int) (hb : LegalOutBase base) :
    ∃ tab, getStrBase base = some (base.natAbs, tab) ∧ ∀ d < base.natAbs, tab.getD d 0 = digitChar base d := by
  unfold LegalOutBase at hb
  unfold getStrBase digitChar
  rcases hb with ⟨h1, h2⟩ | ⟨h1, h2⟩
  · have e : base.toNat = base.natAbs := by omega
    by_cases h36 : base > 36
    · refine ⟨numToText62, ?_, ?_⟩
      · simp only [show base ≥ 0 by omega, if_true, show ¬ base ≤ 1 by omega, if_false, h36, show ¬ base > 62 by omega, e]
      · intro d hd
        simp only [show ¬ base < 0 by omega, if_false, show ¬ base ≤ 36 by omega]
        exact text_62 d (by omega)
    · refine ⟨numToTextLower, ?_, ?_⟩
      · simp only [show base ≥ 0 by omega, if_true, show ¬ base ≤ 1 by omega, if_false, h36, e]
      · intro d hd
        simp only [show ¬ base < 0 by omega, if_false, show base ≤ 36 by omega, if_true]
        exact text_lower d (by omega)
  · refine ⟨numToTextUpper, ?_, ?_⟩
    · have e : (-base).toNat = base.natAbs := by omega
      simp only [show ¬ base ≥ 0 by omega, if_false, e, show ¬ base.natAbs ≤ 1 by omega, show ¬ base.natAbs > 36 by omega]
    · intro d hd
      simp only [show base < 0 by omega, if_true]
      exact text_upper d (by omega)

theorem mpz_get_str_spec_of (hbases : BasesOk) (h10 : Base10Ok) (base : Int) (hb : LegalOutBase base) (x : Int) :
    mpz_get_str base x = some (getStrSpec base x) := by
  have hb2 : 2 ≤ base.natAbs ∧ base.natAbs ≤ 62 := by unfold LegalOutBase at hb; omega
  obtain ⟨tab, ht, htab⟩ := getStrBase_legal base hb
  unfold mpz_get_str getStrSpec
  rw [ht]
  simp only
  have hbo := hbases base.natAbs (by omega) hb2.1
  have hds : mpn_get_str base.natAbs (natLimbs x.natAbs) = (if x = 0 then [0] else digitsOf base.natAbs x.natAbs) := by
    by_cases hx : x = 0
    · subst hx; simp [natLimbs_zero, mpn_get_str]
    · have hxn : x.natAbs ≠ 0 := by omega
      obtain ⟨t1, t2⟩ := natLimbs_top _ hxn
      obtain ⟨v1, v2⟩ := val_natLimbs x.natAbs
      rw [mpn_get_str_of_table hb2.1 hb2.2 hbo.1 hbo.2 h10 _ v2 t1 t2, v1]; simp [hx]
  rw [hds]
  congr 2
  apply List.map_congr_left
  intro d hd
  apply htab
  by_cases hx : x = 0
  · simp only [hx, if_true, List.mem_singleton] at hd; omega
  · simp only [hx, if_false] at hd; exact digitsOf_lt hb2.1 _ d hd

theorem getStrSpec_bytes (base : Int) (hb : LegalOutBase base) (x : Int) : ∀ c ∈ getStrSpec base x, c < 256 := by
  have hb2 : 2 ≤ base.natAbs ∧ base.natAbs ≤ 62 := by unfold LegalOutBase at hb; omega
  intro c hc
  unfold getStrSpec at hc
  simp only at hc
  rcases List.mem_append.mp hc with h | h
  · split at h
    · simp at h; omega
    · simp at h
  · obtain ⟨d, hd, rfl⟩ := List.mem_map.mp h
    refine (digitChar_props base hb d ?_).2.2.2.2
    by_cases hx : x = 0
    · simp only [hx, if_true, List.mem_singleton] at hd; omega
    · simp only [hx, if_false] at hd; exact digitsOf_lt hb2.1 _ d hd

/-! ### sizeinbase -/

/-- number of base-2^k digits of a number of exactly `bits` bits -/
theorem digits_len_pow2 {k bits W : Nat} (hk : 0 < k) (hbits : 0 < bits) (hlo : 2 ^ (bits - 1) ≤ W) (hhi : W < 2 ^ bits) :
    (digitsOf (2 ^ k) W).length = (bits + k - 1) / k := by
  have hm := Nat.div_add_mod (bits + k - 1) k
  have hr := Nat.mod_lt (bits + k - 1) hk
  generalize (bits + k - 1) / k = m at *
  generalize (bits + k - 1) % k = r at *
  have hmpos : 0 < m := by
    rcases Nat.eq_zero_or_pos m with h | h
    · subst h; omega
    · exact h
  have hD : 2 ≤ 2 ^ k := by
    calc 2 = 2 ^ 1 := rfl
      _ ≤ 2 ^ k := Nat.pow_le_pow_right (by omega) hk
  rw [digitsOf_eq_fixed hD hmpos ?_ ?_, fixedDigits_length]
  · rw [← pow_mul]
    refine le_trans (Nat.pow_le_pow_right (by omega) ?_) hlo
    have : k * (m - 1) = k * m - k := by rw [Nat.mul_sub, Nat.mul_one]
    rw [this]; omega
  · rw [← pow_mul]
    exact lt_of_lt_of_le hhi (Nat.pow_le_pow_right (by omega) (by omega))

theorem sizeinbase_pow2_of_table {b : Nat} (hok : Pow2Ok b) (hp : pow2P b = true) (x : Int) :
    mpz_sizeinbase x b = if x = 0 then 1 else (digitsOf b x.natAbs).length := by
  obtain ⟨hpow, hbpd, _, _⟩ := hok
  unfold mpz_sizeinbase sizeinbase sizeinbaseBits
  by_cases hx : x = 0
  · subst hx; simp [natLimbs_zero]
  · have hxn : x.natAbs ≠ 0 := by omega
    obtain ⟨t1, t2⟩ := natLimbs_top _ hxn
    obtain ⟨v1, v2⟩ := val_natLimbs x.natAbs
    obtain ⟨_, hl63, hlo, hhi⟩ := bitlen_bounds v2 t1 t2
    have hl : ((natLimbs x.natAbs).length == 0) = false := by
      cases h : natLimbs x.natAbs with
      | nil => exact absurd h t1
      | cons a l => rfl
    simp only [hl, Bool.false_eq_true, if_false, hp, if_true, hx]
    rw [v1] at hlo hhi
    rw [Nat.mul_comm (natLimbs x.natAbs).length 64]
    have hpos : 0 < 64 * (natLimbs x.natAbs).length - clz (natLimbs x.natAbs).getLast! := by
      have : 0 < (natLimbs x.natAbs).length := List.length_pos_iff.mpr t1
      unfold clz; omega
    conv_rhs => rw [← hpow]
    exact (digits_len_pow2 hbpd hpos hlo hhi).symm

/-! ### MPN_SIZEINBASE, bases that are not powers of two -/

theorem rn53_small {t : Nat} (ht : t < 2 ^ 53) (k : Nat) : rn53 t k = (t, 0, k) := by
  unfold rn53
  have : (if t = 0 then 0 else Nat.log2 t + 1) ≤ 53 := by
    split
    · omega
    · rename_i h
      have := (Nat.log2_lt h).mpr ht; omega
  simp only [this, if_true]

/-- round-to-nearest-even on 53 bits: exact at integers (when the unit in the last place is at most 1) and
    never more than half a unit above -/
theorem rn53_spec (N k : Nat) (hN : N < 2 ^ 77) (hk : 24 ≤ k) :
    (rn53 N k).2.2 = k ∧
    (∀ n, n * 2 ^ k ≤ N → n * 2 ^ k ≤ (rn53 N k).1 <<< (rn53 N k).2.1) ∧
    (rn53 N k).1 <<< (rn53 N k).2.1 ≤ N + 2 ^ 23 := by
  unfold rn53
  by_cases hlen : (if N = 0 then 0 else Nat.log2 N + 1) ≤ 53
  · simp only [hlen, if_true, Nat.shiftLeft_zero]
    exact ⟨trivial, fun n h => h, by omega⟩
  · simp only [hlen, if_false]
    have hN0 : N ≠ 0 := by
      intro h; rw [h] at hlen; simp at hlen
    simp only [hN0, if_false] at hlen ⊢
    have hl77 : Nat.log2 N < 77 := (Nat.log2_lt hN0).mpr hN
    generalize hs : Nat.log2 N + 1 - 53 = s at *
    have hs1 : 1 ≤ s := by omega
    have hs24 : s ≤ 24 := by omega
    have hdm := Nat.div_add_mod N (2 ^ s)
    have hrem := Nat.mod_lt N (Nat.pow_pos (n := s) (show 0 < 2 by omega))
    rw [Nat.shiftRight_eq_div_pow]
    generalize N / 2 ^ s = q at *
    generalize N % 2 ^ s = rem at *
    have hhalf : 2 ^ s = 2 * 2 ^ (s - 1) := by
      rw [← pow_succ']; congr 1; omega
    have h23 : 2 ^ (s - 1) ≤ 2 ^ 23 := Nat.pow_le_pow_right (by omega) (by omega)
    refine ⟨trivial, ?_, ?_⟩
    · intro n hn
      -- n·2^k is a multiple of 2^s
      have hks : 2 ^ k = 2 ^ s * 2 ^ (k - s) := by rw [← pow_add]; congr 1; omega
      have hq : n * 2 ^ (k - s) ≤ q := by
        have : 2 ^ s * (n * 2 ^ (k - s)) ≤ 2 ^ s * q + rem := by
          rw [hdm]; calc 2 ^ s * (n * 2 ^ (k - s)) = n * 2 ^ k := by rw [hks]; ring
            _ ≤ N := hn
        by_contra hcon
        have : q + 1 ≤ n * 2 ^ (k - s) := by omega
        have := Nat.mul_le_mul_left (2 ^ s) this
        rw [Nat.mul_add, Nat.mul_one] at this; omega
      rw [Nat.shiftLeft_eq]
      have hqq : q ≤ (if rem > 2 ^ (s - 1) ∨ rem = 2 ^ (s - 1) ∧ q % 2 = 1 then q + 1 else q) := by
        split <;> omega
      calc n * 2 ^ k = n * 2 ^ (k - s) * 2 ^ s := by rw [hks]; ring
        _ ≤ q * 2 ^ s := Nat.mul_le_mul_right _ hq
        _ ≤ _ := Nat.mul_le_mul_right _ hqq
    · rw [Nat.shiftLeft_eq]
      split
      · rename_i hup
        have : 2 ^ (s - 1) ≤ rem := by rcases hup with h | h <;> omega
        rw [Nat.add_mul, Nat.one_mul]
        rw [Nat.mul_comm] at hdm; omega
      · rw [Nat.mul_comm] at hdm; omega

theorem mulTrunc_spec {t bits M k : Nat} (hdec : decodeDouble bits = (M, k)) (ht : t ≤ 2 ^ 24) (hM : M < 2 ^ 53)
    (hk : 53 ≤ k) :
    t * M / 2 ^ k ≤ mulTrunc t bits ∧ mulTrunc t bits * 2 ^ k ≤ t * M + 2 ^ 23 := by
  have ht53 : t < 2 ^ 53 := lt_of_le_of_lt ht (by norm_num)
  unfold mulTrunc
  rw [hdec, rn53_small ht53 0]
  simp only [Nat.add_zero]
  have hN : t * M < 2 ^ 77 := by
    have h1 : t * M ≤ 2 ^ 24 * M := Nat.mul_le_mul_right _ ht
    have h2 : 2 ^ 24 * M < 2 ^ 24 * 2 ^ 53 := Nat.mul_lt_mul_of_pos_left hM (by norm_num)
    have h3 : (2 : Nat) ^ 24 * 2 ^ 53 = 2 ^ 77 := by rw [← pow_add]
    omega
  obtain ⟨e, lo, hi⟩ := rn53_spec (t * M) k hN (by omega)
  generalize rn53 (t * M) k = res at *
  obtain ⟨p, pu, pk⟩ := res
  simp only at e lo hi ⊢
  subst e
  have hp : 0 < 2 ^ pk := Nat.pow_pos (by omega)
  refine ⟨?_, ?_⟩
  · rw [Nat.le_div_iff_mul_le hp]
    exact lo _ (Nat.div_mul_le_self _ _)
  · exact le_trans (Nat.div_mul_le_self _ _) hi

/-- `b^n ≤ 2^t` and `2^v < b^u` (i.e. n/t ≤ log_b 2 < u/v) give n·v < t·u -/
theorem pow_ratio_lt {b n t u v : Nat} (h1 : b ^ n ≤ 2 ^ t) (h2 : 2 ^ v < b ^ u) (ht : 0 < t) : n * v < t * u := by
  by_contra hcon
  have hle : t * u ≤ n * v := by omega
  have hb : 0 < b := by
    rcases Nat.eq_zero_or_pos b with rfl | h
    · rcases Nat.eq_zero_or_pos u with rfl | hu
      · simp at h2
      · rw [Nat.zero_pow hu] at h2; exact absurd h2 (Nat.not_lt_zero _)
    · exact h
  have c1 : (b ^ u) ^ t ≤ (b ^ n) ^ v := by
    rw [← pow_mul, ← pow_mul, Nat.mul_comm u t]; exact Nat.pow_le_pow_right hb hle
  have c2 : (b ^ n) ^ v ≤ (2 ^ t) ^ v := Nat.pow_le_pow_left h1 v
  have c3 : (2 ^ t) ^ v = (2 ^ v) ^ t := by rw [← pow_mul, ← pow_mul, Nat.mul_comm]
  have c4 : (2 ^ v) ^ t < (b ^ u) ^ t := Nat.pow_lt_pow_left h2 (by omega)
  omega

/-- `b^p ≤ 2^q` (p/q ≤ log_b 2) and m·q ≤ s·p give b^m ≤ 2^s -/
theorem pow_ratio_le {b m s p q : Nat} (hb : 0 < b) (h : b ^ p ≤ 2 ^ q) (hq : 0 < q) (hm : m * q ≤ s * p) :
    b ^ m ≤ 2 ^ s := by
  have c1 : (b ^ m) ^ q ≤ (b ^ p) ^ s := by
    rw [← pow_mul, ← pow_mul, Nat.mul_comm p s]; exact Nat.pow_le_pow_right hb hm
  have c2 : (b ^ p) ^ s ≤ (2 ^ q) ^ s := Nat.pow_le_pow_left h s
  have c3 : (2 ^ q) ^ s = (2 ^ s) ^ q := by rw [← pow_mul, ← pow_mul, Nat.mul_comm]
  exact (Nat.pow_le_pow_iff_left (by omega)).mp (le_trans c1 (c3 ▸ c2))

/-- Farey neighbours: a fraction n/t strictly between u1/v1 and u2/v2 with u2·v1 - u1·v2 = 1 has t ≥ v1 + v2 -/
theorem farey_den {n t u1 v1 u2 v2 : Nat} (hadj : u2 * v1 = u1 * v2 + 1) (hlo : t * u1 < n * v1) (hhi : n * v2 < t * u2) :
    v1 + v2 ≤ t := by
  have h1 : t * u1 + 1 ≤ n * v1 := hlo
  have h2 : n * v2 + 1 ≤ t * u2 := hhi
  have e1 := Nat.mul_le_mul_left v2 h1
  have e2 := Nat.mul_le_mul_left v1 h2
  have e3 : t * (u2 * v1) = t * (u1 * v2) + t := by rw [hadj]; ring
  nlinarith

/-- bit-length bound of `sizeinbase_bound_partial` -/
def sibT : Nat := 2 ^ 24

/-- Proof hints, one row per base 2..62 (dummy rows for powers of two): `(p1, q1, u1, v1, u2, v2)` with
    p1/q1 ≤ log_b 2 (a convergent) and Farey neighbours u1/v1 ≤ chars_per_bit_exactly, log_b 2 < u2/v2,
    v1 + v2 > sibT.  Nothing here is trusted: `SibOk` re-checks every property in the kernel. -/
def sibHints : List (Nat × Nat × Nat × Nat × Nat × Nat) := [
  (0, 1, 0, 1, 1, 1),
  (190537, 301994, 190537, 301994, 10400200, 16483927),
  (0, 1, 0, 1, 1, 1),
  (97879, 227268, 1936274, 4495889, 5710943, 13260399),
  (190537, 492531, 190537, 492531, 6398923, 16540976),
  (91313, 256348, 3720121, 10443700, 4173722, 11717119),
  (0, 1, 0, 1, 1, 1),
  (190537, 603988, 190537, 603988, 5200100, 16483927),
  (97879, 325147, 1936274, 6432163, 3774669, 12539179),
  (417431, 1444074, 1686227, 5833387, 4641250, 16056087),
  (190537, 683068, 190537, 683068, 4493553, 16109219),
  (5458, 20197, 4516757, 16713987, 54353, 201130),
  (91313, 347661, 3720121, 14163821, 4173722, 15890841),
  (416263, 1626294, 416263, 1626294, 4070577, 15903299),
  (0, 1, 0, 1, 1, 1),
  (32631, 133378, 4102668, 16769503, 36667, 149875),
  (190537, 794525, 190537, 794525, 3866341, 16122352),
  (163451, 694328, 163451, 694328, 3843692, 16327725),
  (97879, 423026, 1936274, 8368437, 3774669, 16313848),
  (118580, 520841, 1454590, 6389021, 3042781, 13364860),
  (417431, 1861505, 1686227, 7519614, 2955023, 13177723),
  (35969, 162708, 3105451, 14047700, 1160048, 5247549),
  (190537, 873605, 190537, 873605, 3540868, 16234747),
  (97879, 454536, 968137, 4495889, 2806532, 13033131),
  (5458, 25655, 3538403, 16632050, 54353, 255483),
  (190537, 905982, 190537, 905982, 3403221, 16181933),
  (91313, 438974, 3266520, 15703321, 453601, 2180621),
  (390321, 1896172, 2596913, 12615754, 1103296, 5359791),
  (416263, 2042557, 416263, 2042557, 3238051, 15888762),
  (31766, 157375, 2354068, 11662515, 1644671, 8148023),
  (0, 1, 0, 1, 1, 1),
  (134680, 679379, 2948386, 14872821, 622177, 3138506),
  (32631, 166009, 3295994, 16768247, 36667, 186542),
  (158358, 812263, 1923323, 9865268, 2276316, 11675869),
  (190537, 985062, 190537, 985062, 3104193, 16048445),
  (170754, 889535, 3167803, 16502522, 176297, 918411),
  (163451, 857779, 163451, 857779, 3189888, 16740301),
  (133671, 706505, 2872553, 15182598, 1622363, 8574841),
  (97879, 520905, 1936274, 10304711, 1838395, 9783806),
  (3317, 17771, 2934499, 15721731, 1465591, 7851980),
  (118580, 639421, 1454590, 7843611, 3042781, 16407641),
  (163253, 885854, 1679041, 9110921, 1515788, 8225067),
  (4856, 26511, 1686227, 9205841, 2955023, 16132746),
  (15466, 84937, 3041585, 16703938, 2054707, 11284149),
  (35969, 198677, 1945403, 10745554, 1160048, 6407597),
  (178269, 990211, 178269, 990211, 2865292, 15915519),
  (190537, 1064142, 190537, 1064142, 2969257, 16583189),
  (272457, 1529767, 1633260, 9170281, 2086861, 11717119),
  (97879, 552415, 968137, 5464026, 2806532, 15839663),
  (350833, 1990074, 350833, 1990074, 2842494, 16123835),
  (5458, 31113, 2940520, 16762257, 54353, 309836),
  (18807, 107725, 634807, 3636124, 2627228, 15048553),
  (190537, 1096519, 190537, 1096519, 2831610, 16295597),
  (57821, 334284, 2567482, 14843537, 2795633, 16162560),
  (91313, 530287, 2812919, 16335619, 453601, 2634222),
  (210909, 1230209, 1999312, 11661767, 2756855, 16080432),
  (67667, 396392, 2596913, 15212667, 1103296, 6463087),
  (57585, 338752, 2804836, 16499849, 1594537, 9380092),
  (92053, 543747, 416263, 2458820, 2821788, 16667993),
  (190781, 1131472, 1692427, 10037340, 1221625, 7245137),
  (31766, 189141, 2354068, 14016583, 1644671, 9792694)]

def sibHint (b : Nat) : Nat × Nat × Nat × Nat × Nat × Nat := sibHints.getD (b - 2) (0, 1, 0, 1, 1, 1)
def dM (b : Nat) : Nat := (decodeDouble (cpbeBits b)).1
def dk (b : Nat) : Nat := (decodeDouble (cpbeBits b)).2

/-- the per-base certificate checked by the kernel -/
def SibOk (b : Nat) : Prop :=
  (sibHint b).2.2.2.2.1 * (sibHint b).2.2.2.1 = (sibHint b).2.2.1 * (sibHint b).2.2.2.2.2 + 1 ∧   -- u2·v1 = u1·v2 + 1
  (sibHint b).2.2.1 * 2 ^ dk b ≤ dM b * (sibHint b).2.2.2.1 ∧                                      -- u1/v1 ≤ c
  2 ^ (sibHint b).2.2.2.2.2 < b ^ (sibHint b).2.2.2.2.1 ∧                                          -- log_b 2 < u2/v2
  sibT < (sibHint b).2.2.2.1 + (sibHint b).2.2.2.2.2 ∧                                             -- v1 + v2 > T
  b ^ (sibHint b).1 ≤ 2 ^ (sibHint b).2.1 ∧ 0 < (sibHint b).2.1 ∧                                  -- p1/q1 ≤ log_b 2
  sibT * (dM b * (sibHint b).2.1 - (sibHint b).1 * 2 ^ dk b) + (sibHint b).2.1 * 2 ^ (dk b - 30)
      + (sibHint b).1 * 2 ^ dk b ≤ (sibHint b).2.1 * 2 ^ dk b ∧                                    -- T·(c - p1/q1) + 2^-30 ≤ 1 - p1/q1
  53 ≤ dk b ∧ dM b < 2 ^ 53
instance (b : Nat) : Decidable (SibOk b) := by unfold SibOk; infer_instance

/-- from the certificate: for every bit length `1 ≤ t ≤ 2^24`, the model's answer `r` satisfies
    `2^t ≤ b^r` (so no `t`-bit number has more than `r` digits) and `b^(r-2) ≤ 2^(t-1)` (so every `t`-bit
    number has at least `r-1` digits) -/
theorem sib_sound {b : Nat} (hb : 2 ≤ b) (hok : SibOk b) (t : Nat) (ht1 : 1 ≤ t) (htT : t ≤ sibT) :
    2 ^ t ≤ b ^ (mulTrunc t (cpbeBits b) + 1) ∧ b ^ (mulTrunc t (cpbeBits b) + 1 - 2) ≤ 2 ^ (t - 1) := by
  obtain ⟨hadj, hu1, hu2, hT, hp1, hq1, h6, hk53, hM53⟩ := hok
  have hdec : decodeDouble (cpbeBits b) = (dM b, dk b) := rfl
  obtain ⟨mlo, mhi⟩ := mulTrunc_spec hdec (by unfold sibT at htT; exact htT) hM53 hk53
  generalize mulTrunc t (cpbeBits b) = m2 at *
  generalize dM b = M at *
  generalize dk b = k at *
  generalize hh : sibHint b = h at *
  obtain ⟨p1, q1, u1, v1, u2, v2⟩ := h
  simp only at hadj hu1 hu2 hT hp1 hq1 h6
  have hkpos : 0 < 2 ^ k := Nat.pow_pos (by omega)
  constructor
  · -- 2^t ≤ b^(m2+1)
    by_contra hcon
    have hlt : b ^ (m2 + 1) ≤ 2 ^ t := by omega
    have hr2 := pow_ratio_lt hlt hu2 (by omega)
    -- (m2+1)·2^k > t·M
    have hgt : t * M < (m2 + 1) * 2 ^ k := by
      have := Nat.lt_succ_of_le mlo
      rw [Nat.div_lt_iff_lt_mul hkpos] at this; exact this
    have hr1 : t * u1 < (m2 + 1) * v1 := by
      have a1 : t * u1 * 2 ^ k ≤ t * M * v1 := by
        have := Nat.mul_le_mul_left t hu1; nlinarith
      have a2 : t * M * v1 < (m2 + 1) * 2 ^ k * v1 ∨ v1 = 0 := by
        rcases Nat.eq_zero_or_pos v1 with h | h
        · exact Or.inr h
        · exact Or.inl (Nat.mul_lt_mul_of_pos_right hgt h)
      rcases a2 with a2 | a2
      · have : t * u1 * 2 ^ k < (m2 + 1) * v1 * 2 ^ k := by nlinarith
        exact Nat.lt_of_mul_lt_mul_right this
      · subst a2
        -- v1 = 0 contradicts adjacency: u2·0 = u1·v2 + 1
        simp at hadj
    have := farey_den hadj hr1 hr2
    omega
  · -- b^(m2-1) ≤ 2^(t-1)
    rw [show m2 + 1 - 2 = m2 - 1 by omega]
    apply pow_ratio_le (by omega) hp1 hq1
    rcases Nat.eq_zero_or_pos m2 with h0 | h0
    · subst h0; simp
    · -- (m2-1)·q1·2^k ≤ (t-1)·p1·2^k
      have h23 : 2 ^ 23 ≤ 2 ^ (k - 30) := Nat.pow_le_pow_right (by omega) (by omega)
      have key : (m2 - 1) * q1 * 2 ^ k ≤ (t - 1) * p1 * 2 ^ k := by
        have e1 : (m2 - 1) * q1 * 2 ^ k = m2 * 2 ^ k * q1 - q1 * 2 ^ k := by
          rw [Nat.sub_mul, Nat.sub_mul, Nat.one_mul]
          congr 1; ring
        have e2 : (t - 1) * p1 * 2 ^ k = t * p1 * 2 ^ k - p1 * 2 ^ k := by
          rw [Nat.sub_mul, Nat.sub_mul, Nat.one_mul]
        have hA : m2 * 2 ^ k * q1 ≤ (t * M + 2 ^ 23) * q1 := Nat.mul_le_mul_right _ mhi
        have hB : t * (M * q1 - p1 * 2 ^ k) ≤ sibT * (M * q1 - p1 * 2 ^ k) := Nat.mul_le_mul_right _ htT
        have hC : t * (M * q1) ≤ t * (p1 * 2 ^ k) + t * (M * q1 - p1 * 2 ^ k) := by
          rw [← Nat.mul_add]; exact Nat.mul_le_mul_left _ (by omega)
        have hD : 2 ^ 23 * q1 ≤ q1 * 2 ^ (k - 30) := by rw [Nat.mul_comm]; exact Nat.mul_le_mul_left _ h23
        have hE : p1 * 2 ^ k ≤ t * p1 * 2 ^ k := by
          calc p1 * 2 ^ k = 1 * (p1 * 2 ^ k) := (Nat.one_mul _).symm
            _ ≤ t * (p1 * 2 ^ k) := Nat.mul_le_mul_right _ ht1
            _ = t * p1 * 2 ^ k := by ring
        rw [e1, e2]
        have hsum : (t * M + 2 ^ 23) * q1 + p1 * 2 ^ k ≤ t * p1 * 2 ^ k + q1 * 2 ^ k := by
          have : (t * M + 2 ^ 23) * q1 = t * (M * q1) + 2 ^ 23 * q1 := by ring
          have e3 : t * (p1 * 2 ^ k) = t * p1 * 2 ^ k := by ring
          omega
        omega
      exact Nat.le_of_mul_le_mul_right key hkpos

/-- the digit count `d` of `x > 0` is characterised by `b^(d-1) ≤ x < b^d` -/
theorem digitsOf_length_bounds {b : Nat} (hb : 2 ≤ b) {x : Nat} (hx : 0 < x) :
    0 < (digitsOf b x).length ∧ b ^ ((digitsOf b x).length - 1) ≤ x ∧ x < b ^ (digitsOf b x).length := by
  have hval := ofDigits_digitsOf hb x
  have hlt := digitsOf_lt hb x
  have hne := digitsOf_ne_nil hb hx
  have hhead := digitsOf_head_ne_zero hb x
  cases hds : digitsOf b x with
  | nil => exact absurd hds hne
  | cons d ds =>
    rw [hds] at hval hlt hhead
    refine ⟨by simp, ?_, ?_⟩
    · rw [← hval, ofDigits_cons]
      simp only [List.length_cons, Nat.add_sub_cancel]
      have hd : 1 ≤ d := by
        rcases Nat.eq_zero_or_pos d with h | h
        · subst h; simp at hhead
        · exact h
      calc b ^ ds.length = 1 * b ^ ds.length := (Nat.one_mul _).symm
        _ ≤ d * b ^ ds.length := Nat.mul_le_mul_right _ hd
        _ ≤ d * b ^ ds.length + ofDigits b ds := Nat.le_add_right _ _
    · rw [← hval]; exact ofDigits_lt (by omega) _ hlt

theorem sizeinbase_bound_of {b : Nat} (hb : 2 ≤ b) (hnp : pow2P b = false) (hok : SibOk b) (x : Int) (hx : x ≠ 0)
    (hbits : x.natAbs < 2 ^ sibT) :
    mpz_sizeinbase x b = (digitsOf b x.natAbs).length ∨ mpz_sizeinbase x b = (digitsOf b x.natAbs).length + 1 := by
  have hxn : x.natAbs ≠ 0 := by omega
  obtain ⟨t1, t2⟩ := natLimbs_top _ hxn
  obtain ⟨v1, v2⟩ := val_natLimbs x.natAbs
  obtain ⟨_, hl63, hlo, hhi⟩ := bitlen_bounds v2 t1 t2
  have hl : ((natLimbs x.natAbs).length == 0) = false := by
    cases h : natLimbs x.natAbs with
    | nil => exact absurd h t1
    | cons a l => rfl
  unfold mpz_sizeinbase sizeinbase sizeinbaseBits
  simp only [hl, Bool.false_eq_true, if_false, hnp]
  rw [Nat.mul_comm (natLimbs x.natAbs).length 64]
  rw [v1] at hlo hhi
  have hpos : 0 < 64 * (natLimbs x.natAbs).length - clz (natLimbs x.natAbs).getLast! := by
    have : 0 < (natLimbs x.natAbs).length := List.length_pos_iff.mpr t1
    unfold clz; omega
  generalize 64 * (natLimbs x.natAbs).length - clz (natLimbs x.natAbs).getLast! = t at *
  -- t ≤ T
  have htT : t ≤ sibT := by
    by_contra hcon
    have : 2 ^ sibT ≤ 2 ^ (t - 1) := Nat.pow_le_pow_right (by omega) (by omega)
    omega
  obtain ⟨c1, c2⟩ := sib_sound hb hok t hpos htT
  obtain ⟨d0, dlo, dhi⟩ := digitsOf_length_bounds hb (Nat.pos_of_ne_zero hxn)
  generalize mulTrunc t (cpbeBits b) = m2 at *
  generalize (digitsOf b x.natAbs).length = d at *
  -- d ≤ r
  have h1 : d - 1 < m2 + 1 := by
    have : b ^ (d - 1) < b ^ (m2 + 1) := lt_of_le_of_lt dlo (lt_of_lt_of_le hhi c1)
    exact (Nat.pow_lt_pow_iff_right (by omega)).mp this
  -- r ≤ d + 1
  have h2 : m2 + 1 - 2 < d := by
    have : b ^ (m2 + 1 - 2) < b ^ d := lt_of_le_of_lt c2 (lt_of_le_of_lt hlo dhi)
    exact (Nat.pow_lt_pow_iff_right (by omega)).mp this
  omega

end Mpir.Radix
