/- Lemmas for the grammar of mpf_set_str's input (C13, part c13_parse): the left-to-right recogniser
   `MpfParse.recog` and the scanner model `MpfStr.parse` are the same function. -/
import Mpir.Model.MpfParse
import Mathlib.Tactic.Ring
import Mathlib.Tactic.Linarith
namespace Mpir.MpfParse
open Mpir Mpir.MpfStr

/-! ### facts about the digit value table -/

theorem dv_lo (b : Nat) (h : ¬ 36 < b) (c : Nat) : dv b c = Radix.digitValue 0 c := by simp [dv, h]
theorem dv_hi (b : Nat) (h : 36 < b) (c : Nat) : dv b c = Radix.digitValue 224 c := by simp [dv, h]

theorem tab_at : Radix.digitValue 0 64 = 255 ∧ Radix.digitValue 224 64 = 255 ∧ Radix.digitValue 0 101 = 14 ∧
    Radix.digitValue 0 69 = 14 ∧ Radix.digitValue 0 46 = 255 ∧ Radix.digitValue 224 46 = 255 := by decide +kernel

/-- the point is not a digit -/
theorem dv_point (b : Nat) (hb : b ≤ 62) : ¬ dv b 46 < b := by
  by_cases h : 36 < b
  · rw [dv_hi b h, tab_at.2.2.2.2.2]; omega
  · rw [dv_lo b h, tab_at.2.2.2.2.1]; omega

/-- a marker is neither white space nor the point nor a digit -/
theorem marker_facts (b k : Nat) (hb : b ≤ 62) (hk : isMarker b k = true) :
    Radix.isSpace k = false ∧ k ≠ 46 ∧ ¬ dv b k < b := by
  simp only [isMarker, Bool.or_eq_true, Bool.and_eq_true, beq_iff_eq, decide_eq_true_eq] at hk
  rcases hk with rfl | ⟨h10, rfl | rfl⟩
  · refine ⟨by decide, by decide, ?_⟩
    by_cases h : 36 < b
    · rw [dv_hi b h, tab_at.2.1]; omega
    · rw [dv_lo b h, tab_at.1]; omega
  · refine ⟨by decide, by decide, ?_⟩
    rw [dv_lo b (by omega), tab_at.2.2.1]; omega
  · refine ⟨by decide, by decide, ?_⟩
    rw [dv_lo b (by omega), tab_at.2.2.2.1]; omega

/-! ### the marker search -/

theorem splitLast_none (b : Nat) (l : List Nat) (h : ∀ x ∈ l, isMarker b x = false) : splitLast b l = none := by
  induction l with
  | nil => rfl
  | cons c cs ih =>
    have h1 := ih (fun x hx => h x (List.mem_cons_of_mem _ hx))
    have h2 := h c (List.mem_cons_self ..)
    simp [splitLast, h1, h2]

theorem splitLast_append (b : Nat) (l1 l2 m e : List Nat) (h : splitLast b l2 = some (m, e)) :
    splitLast b (l1 ++ l2) = some (l1 ++ m, e) := by
  induction l1 with
  | nil => simpa using h
  | cons c cs ih => simp [splitLast, ih]

theorem splitLast_at (b : Nat) (k : Nat) (e : List Nat) (hk : isMarker b k = true)
    (he : ∀ x ∈ e, isMarker b x = false) : splitLast b (k :: e) = some ([], e) := by
  simp [splitLast, splitLast_none b e he, hk]

theorem splitLast_some_of_marker (b : Nat) (l : List Nat) (h : ∃ x ∈ l, isMarker b x = true) :
    ∃ m e, splitLast b l = some (m, e) := by
  induction l with
  | nil => simp at h
  | cons c cs ih =>
    cases hs : splitLast b cs with
    | some p => exact ⟨c :: p.1, p.2, by simp [splitLast, hs]⟩
    | none =>
      by_cases hc : isMarker b c = true
      · exact ⟨[], cs, by simp [splitLast, hs, hc]⟩
      · exfalso
        obtain ⟨x, hx, hm⟩ := h
        rcases List.mem_cons.1 hx with rfl | hx
        · exact hc hm
        · obtain ⟨m, e, he⟩ := ih ⟨x, hx, hm⟩
          rw [hs] at he; cases he

/-! ### the mantissa -/

/-- a marker anywhere in the mantissa text makes the scanner fail -/
theorem scanMant_marker (b k : Nat) (hb : b ≤ 62) (hk : isMarker b k = true) (m : List Nat) (hm : k ∈ m) :
    scanMant (dv b) b m = none := by
  induction m with
  | nil => simp at hm
  | cons c cs ih =>
    rcases List.mem_cons.1 hm with rfl | h
    · obtain ⟨h1, h2, h3⟩ := marker_facts b k hb hk
      cases hs : scanMant (dv b) b cs with
      | none => simp [scanMant, hs]
      | some p => simp [scanMant, hs, h1, h2, h3]
    · simp [scanMant, ih h]

theorem mantText_nil (b : Nat) : mantText b [] = some ([], none) := by simp [mantText]

theorem mantText_point (b : Nat) (hb : b ≤ 62) (t : List Nat) :
    mantText b (46 :: t) =
      (match mantText b t with
       | none => none
       | some (_, some _) => none
       | some (ds, none) => some (ds, some ds.length)) := by
  have hp : isDig b b 46 = false := by simpa [isDig] using dv_point b hb
  have ht := List.takeWhile_append_dropWhile (p := (· != 46)) (l := t)
  simp only [mantText, bne_self_eq_false, List.takeWhile_cons_of_neg, List.dropWhile_cons_of_neg,
    Bool.false_eq_true, not_false_eq_true, List.all_nil, Bool.true_and, List.nil_append]
  cases hd : t.dropWhile (· != 46) with
  | nil =>
    rw [hd, List.append_nil] at ht
    rw [ht]
    by_cases ha : t.all (isDig b b) = true <;> simp [ha]
  | cons x fp =>
    have hx : x = 46 := by
      have := @List.head_dropWhile_not _ (· != 46) t (by rw [hd]; simp)
      simpa [hd] using this
    subst hx
    have hall : t.all (isDig b b) = false := by
      rw [← ht, hd]; simp [hp]
    rw [hall]
    by_cases ha : ((t.takeWhile (· != 46)).all (isDig b b) && fp.all (isDig b b)) = true <;> simp [ha]

theorem mantText_digit (b c : Nat) (hc : c ≠ 46) (t : List Nat) :
    mantText b (c :: t) =
      (match mantText b t with
       | none => none
       | some (ds, dot) => if dv b c < b then some (dv b c :: ds, dot) else none) := by
  have h1 : (c != 46) = true := by simpa using hc
  simp only [mantText, h1, List.takeWhile_cons_of_pos, List.dropWhile_cons_of_pos, List.all_cons, List.map_cons,
    List.cons_append]
  cases hd : t.dropWhile (· != 46) with
  | nil =>
    by_cases hcd : dv b c < b <;> by_cases ha : (t.takeWhile (· != 46)).all (isDig b b) = true <;>
      simp [isDig, hcd, ha]
  | cons x fp =>
    by_cases hcd : dv b c < b <;>
      by_cases ha : ((t.takeWhile (· != 46)).all (isDig b b) && fp.all (isDig b b)) = true <;>
      simp [isDig, hcd, ha]

/-- the scanner's mantissa loop computes the grammar's `mant` -/
theorem scanMant_eq (b : Nat) (hb : b ≤ 62) (m : List Nat) : scanMant (dv b) b m = mantissa b m := by
  induction m with
  | nil => simp [scanMant, mantissa, mantText_nil]
  | cons c cs ih =>
    unfold mantissa at ih ⊢
    by_cases hs : Radix.isSpace c = true
    · simp only [scanMant, ih, hs, if_true, List.filter_cons, Bool.not_true, Bool.false_eq_true, if_false]
      cases mantText b (cs.filter fun c => !Radix.isSpace c) with
      | none => rfl
      | some p => rfl
    · have hs' : Radix.isSpace c = false := by simpa using hs
      simp only [scanMant, ih, hs', List.filter_cons, Bool.not_false, if_true, Bool.false_eq_true, if_false]
      by_cases h46 : c = 46
      · subst h46
        rw [mantText_point b hb]
        cases mantText b (cs.filter fun c => !Radix.isSpace c) with
        | none => rfl
        | some p =>
          obtain ⟨ds, dot⟩ := p
          cases dot <;> simp
      · rw [mantText_digit b c h46]
        cases mantText b (cs.filter fun c => !Radix.isSpace c) with
        | none => rfl
        | some p => simp [h46]

/-! ### the exponent -/

theorem scanExp_eq (b eb : Nat) (e : List Nat) : scanExp (dv b) eb e = exponent b eb e := by
  have hfun : isDig b eb = fun c => decide (dv b c < eb) := by funext c; rfl
  unfold scanExp exponent
  rw [hfun]
  split
  rename_i x sgn t heq
  split at heq
  · simp only [Prod.mk.injEq] at heq
    obtain ⟨rfl, rfl⟩ := heq
    simp [List.isEmpty_iff]
  · simp only [Prod.mk.injEq] at heq
    obtain ⟨rfl, rfl⟩ := heq
    simp [List.isEmpty_iff]
  · rename_i h1 h2
    simp only [Prod.mk.injEq] at heq
    obtain ⟨rfl, rfl⟩ := heq
    have hh : (e.head? == some 43 || e.head? == some 45) = false := by
      rcases e with _ | ⟨c, r⟩
      · simp
      · have : c ≠ 43 := fun h => h1 r (by rw [h])
        have : c ≠ 45 := fun h => h2 r (by rw [h])
        simp [*]
    have h45 : (e.head? == some 45) = false := by
      simp only [Bool.or_eq_false_iff] at hh; exact hh.2
    have h43 : (e.head? == some 43) = false := by
      simp only [Bool.or_eq_false_iff] at hh; exact hh.1
    have h43' : ¬ e.head? = some 43 := by simpa using h43
    simp [h43', h45, List.isEmpty_iff]

/-! ### first marker = last marker -/

theorem mem_tw {p : Nat → Bool} (l : List Nat) (x : Nat) (h : x ∈ l.takeWhile p) : p x = true := by
  induction l with
  | nil => simp at h
  | cons a t ih =>
    by_cases ha : p a = true
    · simp only [List.takeWhile_cons, ha, if_true, List.mem_cons] at h
      rcases h with rfl | h
      · exact ha
      · exact ih h
    · simp [List.takeWhile_cons, ha] at h

/-- how the scanner's right-to-left marker search relates to cutting at the first marker -/
theorem split_cases (b : Nat) (rest : List Nat) :
    (rest.dropWhile (fun x => !isMarker b x) = [] ∧ rest.takeWhile (fun x => !isMarker b x) = rest ∧
        splitLast b rest = none) ∨
    (∃ k e, rest.dropWhile (fun x => !isMarker b x) = k :: e ∧ e.any (isMarker b) = false ∧
        splitLast b rest = some (rest.takeWhile (fun x => !isMarker b x), e)) ∨
    (∃ k e m e', rest.dropWhile (fun x => !isMarker b x) = k :: e ∧ e.any (isMarker b) = true ∧
        isMarker b k = true ∧ splitLast b rest = some (m, e') ∧ k ∈ m) := by
  have hd := List.takeWhile_append_dropWhile (p := fun x => !isMarker b x) (l := rest)
  cases hdw : rest.dropWhile (fun x => !isMarker b x) with
  | nil =>
    left
    rw [hdw, List.append_nil] at hd
    refine ⟨rfl, hd, splitLast_none b rest ?_⟩
    intro x hx
    rw [← hd] at hx
    simpa using mem_tw _ _ hx
  | cons k e =>
    right
    have hk : isMarker b k = true := by
      have := @List.head_dropWhile_not _ (fun x => !isMarker b x) rest (by rw [hdw]; simp)
      simpa [hdw] using this
    rw [hdw] at hd
    by_cases hany : e.any (isMarker b) = true
    · right
      obtain ⟨m2, e2, h2⟩ := splitLast_some_of_marker b e (by simpa using hany)
      have h3 : splitLast b (k :: e) = some (k :: m2, e2) := by simp [splitLast, h2]
      have h4 := splitLast_append b (rest.takeWhile (fun x => !isMarker b x)) (k :: e) _ _ h3
      rw [hd] at h4
      exact ⟨k, e, _, e2, rfl, hany, hk, h4, by simp⟩
    · left
      have hany' : e.any (isMarker b) = false := by simpa using hany
      have h3 := splitLast_at b k e hk (by simpa using hany')
      have h4 := splitLast_append b (rest.takeWhile (fun x => !isMarker b x)) (k :: e) _ _ h3
      rw [hd, List.append_nil] at h4
      exact ⟨k, e, rfl, hany', h4⟩

/-- set_str.c:238-304, 352-376 (scanner model) = `body` (grammar) -/
theorem parseBody_eq (neg : Bool) (b eb : Nat) (hb : b ≤ 62) (s : List Nat) :
    parseBody neg b eb s = body neg b eb s := by
  cases s with
  | nil => rfl
  | cons c rest =>
    have hdv : Radix.digitValue (if 36 < b then 224 else 0) = dv b := rfl
    unfold parseBody body
    simp only [hdv]
    by_cases h0 : (dv b c < b ∨ (c = 46 ∧ dv b (rest.headD 0) < b))
    · have h0' : (!(isDig b b c || (c == 46 && isDig b b (rest.headD 0)))) = false := by
        unfold isDig
        rcases h0 with h | ⟨rfl, h⟩
        · simp [h]
        · have h' : dv b (rest.head?.getD 0) < b := by simpa using h
          simp [h']
      simp only [h0, not_true_eq_false, if_false, h0', Bool.false_eq_true]
      rcases split_cases b rest with ⟨h1, h2, h3⟩ | ⟨k, e, h1, h2, h3⟩ | ⟨k, e, m, e', h1, h2, hk, h3, h4⟩
      · simp only [h1, h2, h3, scanMant_eq b hb]
        cases mantissa b (c :: rest) with
        | none => rfl
        | some p => simp
      · simp only [h1, h2, h3, scanMant_eq b hb, scanExp_eq]
        cases mantissa b (c :: rest.takeWhile (fun x => !isMarker b x)) with
        | none => rfl
        | some p =>
          simp only [Bool.false_eq_true, if_false]
          by_cases hz : Radix.ofDigits b p.1 = 0
          · simp [hz]
          · simp only [hz, if_false]
            cases exponent b eb e with
            | none => rfl
            | some x => rfl
      · simp only [h1, h2, h3, scanMant_marker b k hb hk (c :: m) (List.mem_cons_of_mem _ h4)]
        cases mantissa b (c :: rest.takeWhile (fun x => !isMarker b x)) with
        | none => rfl
        | some p => simp
    · have h0' : (!(isDig b b c || (c == 46 && isDig b b (rest.headD 0)))) = true := by
        have h := h0
        simp only [not_or, not_and] at h
        obtain ⟨ha, hb'⟩ := h
        unfold isDig
        by_cases hc : c = 46
        · have h2 : ¬ dv b (rest.head?.getD 0) < b := by simpa using hb' hc
          subst hc
          simp [Nat.not_lt.1 ha, Nat.not_lt.1 h2]
        · simp [ha, hc]
      simp only [h0, not_false_eq_true, if_true, h0']

theorem baseOf_eq (base : Int) : baseOf base = (if base = 0 then 10 else base.natAbs) := by
  unfold baseOf; by_cases h1 : base < 0 <;> by_cases h2 : base = 0 <;> simp [h1, h2] <;> omega

theorem expBaseOf_eq (base : Int) :
    expBaseOf base = (if base ≤ 0 then 10 else (if base = 0 then 10 else base.natAbs)) := by
  unfold expBaseOf; by_cases h1 : base ≤ 0 <;> by_cases h2 : base = 0 <;> simp [h1, h2] <;> omega

/-- the scanner model and the grammar are the same function -/
theorem parse_eq_recog' (base : Int) (s : List Nat) : parse base s = recog base s := by
  unfold parse recog cstr
  rw [baseOf_eq, expBaseOf_eq]
  dsimp only
  generalize (if base = 0 then 10 else base.natAbs) = b
  generalize (if base ≤ 0 then 10 else b) = eb
  by_cases hr : b < 2 ∨ 62 < b
  · have hr' : (decide (b < 2) || decide (62 < b)) = true := by simpa using hr
    simp [hr, hr']
  · have hr' : (decide (b < 2) || decide (62 < b)) = false := by simpa using hr
    have hb : b ≤ 62 := by omega
    simp only [hr, if_false, hr', Bool.false_eq_true]
    cases hs : (s.takeWhile (· != 0)).dropWhile Radix.isSpace with
    | nil => simp [parseBody_eq _ _ _ hb]
    | cons c r =>
      by_cases hc : c = 45
      · subst hc; simp [parseBody_eq _ _ _ hb]
      · have hc' : (c == 45) = false := by simpa using hc
        simp [hc, hc', parseBody_eq _ _ _ hb]

end Mpir.MpfParse
