/- C20 lemmas: comparisons, `cmp` and `sgn` through mpirxx.h's `const&` binding strategy equal the comparison of the temporaries. -/
import MpirProofs.Lemmas.CxxQ2
namespace Mpir.Cxx

/-! ### comparisons, `cmp`, `sgn` on mpz-typed operands -/

def Opnd.zOk (K : Nat) (h : Heap) : Opnd → Prop
  | .ex e => e.ty = .z ∧ e.wt = true ∧ e.zbelow K ∧ e.canon h
  | .bi c => c.ok = true

theorem opndRat_ex_z (h : Heap) (e : E) (hty : e.ty = .z) (hc : e.canon h) :
    opndRat h.abs (.ex e) = (evalTmpZ h.get e).map fun x => ((x : Int) : Rat) := by
  simp only [opndRat, evalTmp_z h e hty hc, Option.map_map]
  rfl

/-- Comparisons equal the C comparison of the temporaries (`== != < <= > >=`, `cmp`; `_partial`: mpz-typed
    operands and built-ins on either side — comparisons with mpq/mpf operands are tied by the correspondence
    run only): the `const&` binding strategy (no temporary for an
    `mpz_class` operand, one temporary per expression operand) followed by the
    `__gmp_binary_equal/less/greater/__gmp_cmp_function` overload gives exactly
    `execTmp (.cmp o a b)`, including raising when an operand raises. -/
theorem execCmpZ_correct (cst : Bool) (K : Nat) (o : Cmp) (a b : Opnd) (h : Heap)
    (ha : a.zOk K h) (hb : b.zOk K h) (hab : ¬(∃ c c', a = .bi c ∧ b = .bi c')) :
    (execCmpZ cst K o a b h).map Res.int = execTmp h.abs (.cmp o a b) := by
  have B := bindZ_correct cst (evalZ_correct cst)
  cases a with
  | ex ea =>
    obtain ⟨hta, hwa, hba, hca⟩ := ha
    have Ba := B ea hta hwa K h hba
    cases b with
    | ex eb =>
      obtain ⟨htb, hwb, hbb, hcb⟩ := hb
      simp only [execCmpZ, execTmp, opndRat_ex_z h ea hta hca, opndRat_ex_z h eb htb hcb]
      cases hra : evalTmpZ h.get ea with
      | none => rw [hra] at Ba; simp [Ba]
      | some x =>
        rw [hra] at Ba
        obtain ⟨la, h1, e1, hx, hla, hfr1⟩ := Ba
        have hag : ∀ l : ZLoc, l.below K → h1 l = h l := fun l hl => hfr1 l hl
        have Bb := B eb htb hwb (K + 1) h1 (E.zbelow_mono (by omega) _ hbb)
        rw [evalTmpZ_frame (k := K) hag eb hbb] at Bb
        simp only [e1, Option.bind_some]
        cases hrb : evalTmpZ h.get eb with
        | none => rw [hrb] at Bb; simp [Bb]
        | some y =>
          rw [hrb] at Bb
          obtain ⟨lb, h2, e2, hy, _, hfr2⟩ := Bb
          simp only [e2, Option.bind_some]
          rw [fnCmpZ_spec o _ _ h2 (by simp [ZArg.isBi])]
          simp [argQ, hy, hfr2 la hla, hx]
    | bi c =>
      simp only [execCmpZ, execTmp, opndRat_ex_z h ea hta hca]
      simp only [opndRat]
      cases hra : evalTmpZ h.get ea with
      | none => rw [hra] at Ba; simp [Ba]
      | some x =>
        rw [hra] at Ba
        obtain ⟨la, h1, e1, hx, hla, hfr1⟩ := Ba
        simp only [e1, Option.bind_some]
        rw [fnCmpZ_spec o _ _ h1 (by simp [ZArg.isBi])]
        simp only [argQ, hx, Option.bind_some, Option.map_some]
        cases biRat c <;> simp
  | bi c =>
    cases b with
    | bi c' => exact absurd ⟨c, c', rfl, rfl⟩ hab
    | ex eb =>
      obtain ⟨htb, hwb, hbb, hcb⟩ := hb
      have Bb := B eb htb hwb K h hbb
      simp only [execCmpZ, execTmp, opndRat_ex_z h eb htb hcb]
      simp only [opndRat]
      cases hrb : evalTmpZ h.get eb with
      | none => rw [hrb] at Bb; simp only [Bb]; cases biRat c <;> simp
      | some y =>
        rw [hrb] at Bb
        obtain ⟨lb, h1, e1, hy, _, hfr1⟩ := Bb
        simp only [e1, Option.bind_some]
        rw [fnCmpZ_spec o _ _ h1 (by simp [ZArg.isBi])]
        simp only [argQ, hy]
        cases biRat c <;> simp



theorem CmpFQ.qArg_spec (h : Heap) (q : Nat) (b : QArg) (hb : ∀ i, b ≠ .z i) :
    CmpFQ.qArg h q b = (argR h b).map fun y => qcmp (qval h q) y := by
  cases b with
  | q r => simp [CmpFQ.qArg, argR]
  | z i => exact absurd rfl (hb i)
  | bi c => cases c <;> simp [CmpFQ.qArg, argR, biRat]

def QArg.isQ : QArg → Bool
  | .q _ => true
  | _ => false

/-- every mpq comparison function object / operator returns the comparison of the exact values -/
theorem fnCmpQ_spec (o : Cmp) (a b : QArg) (h : Heap)
    (hab : (a.isQ = true ∧ ∀ i, b ≠ .z i) ∨ (b.isQ = true ∧ ∃ c, a = .bi c)) :
    fnCmpQ o a b h = (argR h a).bind fun x => (argR h b).map fun y => cmpRes o (qcmp x y) := by
  cases a with
  | q q =>
    have hb : ∀ i, b ≠ .z i := by
      rcases hab with h1 | h1
      · exact h1.2
      · obtain ⟨c, hc⟩ := h1.2; cases hc
    cases o <;> simp only [fnCmpQ, CmpFQ.cmp, CmpFQ.equal, CmpFQ.less, CmpFQ.greater, CmpFQ.qArg_spec h q b hb, argR, Option.bind_some, Option.map_map] <;>
      cases argR h b <;> simp [cmpRes, b2i, Function.comp_def] <;>
      try (rename_i y; rcases qcmp_cases (qval h q) y with e | e | e <;> simp [e])
  | z i =>
    rcases hab with h1 | h1
    · simp [QArg.isQ] at h1
    · obtain ⟨c, hc⟩ := h1.2; cases hc
  | bi c =>
    cases b with
    | bi c' => rcases hab with h1 | h1 <;> simp [QArg.isQ] at h1
    | z j => rcases hab with h1 | h1 <;> simp [QArg.isQ] at h1
    | q q =>
      cases o <;> simp only [fnCmpQ, CmpFQ.cmp, CmpFQ.equal, CmpFQ.less, CmpFQ.greater, CmpFQ.qArg_spec h q (.bi c) (by intro i; simp), argR, Option.bind_some, Option.map_map, Option.map_some] <;>
        cases biRat c <;> simp [cmpRes, b2i, Function.comp_def] <;>
        try (rename_i y; rw [qcmp_swap (qval h q) y] <;> (rcases qcmp_cases (qval h q) y with e | e | e <;> simp [e]))

/-- `mpq_class const& temp(expr)`: the bound object is canonical and holds the operand's value; nothing below `k` changes -/
theorem bindQ_correct (cst : Bool) (e : E) (hwt : e.wt = true) (k : Nat) (h : Heap)
    (hz : e.zbelow k) (hq : e.qbelow k) (hc : e.canon h) :
    match evalTmpR h.abs e with
    | none => bindQ cst k e h = none
    | some x => ∃ l h', bindQ cst k e h = some (l, h') ∧ Canon h' l ∧ qval h' l = x ∧ l < k + 1 ∧ AgreeBelow k h h' := by
  unfold bindQ
  cases hl : e.qleaf? with
  | some i =>
    have := qleaf?_some hl; subst this
    simp only [evalTmpR_qv]
    exact ⟨i, h, rfl, hc, rfl, by simp only [E.qbelow] at hq; omega, fun _ _ => rfl⟩
  | none =>
    simp only []
    have H := evalQ_correct cst e hwt (k + 1) k h (by omega) (E.zbelow_mono (by omega) _ hz) (E.qbelow_mono (by omega) _ hq) hc
    cases hr : evalTmpR h.abs e with
    | none => rw [hr] at H; simp only [PostQ] at H; simp [H]
    | some x =>
      rw [hr] at H
      obtain ⟨h', e1, hc', hx, hfr⟩ := H
      exact ⟨k, h', by simp [e1], hc', hx, by omega, agree_of_PostQ_temp hfr⟩


def Opnd.ok (K : Nat) (h : Heap) : Opnd → Prop
  | .ex e => e.wt = true ∧ e.zbelow K ∧ e.qbelow K ∧ e.canon h
  | .bi c => c.ok = true

theorem opndRat_ex (h : Heap) (e : E) : opndRat h.abs (.ex e) = evalTmpR h.abs e := rfl

theorem execCmpQ_correct (cst : Bool) (K : Nat) (o : Cmp) (a b : Opnd) (h : Heap)
    (ha : a.ok K h) (hb : b.ok K h) (hab : ¬(∃ c c', a = .bi c ∧ b = .bi c')) :
    (execCmpQ cst K o a b h).map Res.int = execTmp h.abs (.cmp o a b) := by
  cases a with
  | ex ea =>
    obtain ⟨hwa, hza, hqa, hca⟩ := ha
    have Ba := bindQ_correct cst ea hwa K h hza hqa hca
    cases b with
    | ex eb =>
      obtain ⟨hwb, hzb, hqb, hcb⟩ := hb
      simp only [execCmpQ, execTmp, opndRat_ex]
      cases hra : evalTmpR h.abs ea with
      | none => rw [hra] at Ba; simp [Ba]
      | some x =>
        rw [hra] at Ba
        obtain ⟨la, h1, e1, hc1, hx, hla, hag1⟩ := Ba
        have Bb := bindQ_correct cst eb hwb (K + 1) h1 (E.zbelow_mono (by omega) _ hzb) (E.qbelow_mono (by omega) _ hqb)
          (canon_agree hag1 _ hqb hcb)
        rw [evalTmpR_agree hag1 eb hzb hqb] at Bb
        simp only [e1, Option.bind_some]
        cases hrb : evalTmpR h.abs eb with
        | none => rw [hrb] at Bb; simp [Bb]
        | some y =>
          rw [hrb] at Bb
          obtain ⟨lb, h2, e2, hc2, hy, _, hag2⟩ := Bb
          simp only [e2, Option.bind_some]
          rw [fnCmpQ_spec o _ _ h2 (Or.inl ⟨rfl, by intro i; simp⟩)]
          simp [argR, hy, qval_of_agree hag2 hla, hx]
    | bi c =>
      simp only [execCmpQ, execTmp, opndRat_ex]
      simp only [opndRat]
      cases hra : evalTmpR h.abs ea with
      | none => rw [hra] at Ba; simp [Ba]
      | some x =>
        rw [hra] at Ba
        obtain ⟨la, h1, e1, hc1, hx, hla, hag1⟩ := Ba
        simp only [e1, Option.bind_some]
        rw [fnCmpQ_spec o _ _ h1 (Or.inl ⟨rfl, by intro i; simp⟩)]
        simp only [argR, hx, Option.bind_some, Option.map_some]
        cases biRat c <;> simp
  | bi c =>
    cases b with
    | bi c' => exact absurd ⟨c, c', rfl, rfl⟩ hab
    | ex eb =>
      obtain ⟨hwb, hzb, hqb, hcb⟩ := hb
      have Bb := bindQ_correct cst eb hwb K h hzb hqb hcb
      simp only [execCmpQ, execTmp, opndRat_ex]
      simp only [opndRat]
      cases hrb : evalTmpR h.abs eb with
      | none => rw [hrb] at Bb; simp only [Bb]; cases biRat c <;> simp
      | some y =>
        rw [hrb] at Bb
        obtain ⟨lb, h1, e1, hc1, hy, _, _⟩ := Bb
        simp only [e1, Option.bind_some]
        rw [fnCmpQ_spec o _ _ h1 (Or.inr ⟨rfl, c, rfl⟩)]
        simp only [argR, hy]
        cases biRat c <;> simp

theorem execSgn_correct (cst : Bool) (K : Nat) (a : E) (h : Heap)
    (hwt : a.wt = true) (hz : a.zbelow K) (hq : a.qbelow K) (hc : a.canon h) :
    (execSgn cst K a h).map Res.int = execTmp h.abs (.sgn a) := by
  unfold execSgn
  by_cases hty : a.ty = .z
  · simp only [hty, if_true, execSgnZ, execTmp, evalTmp_z h a hty hc]
    have B := bindZ_correct cst (evalZ_correct cst) a hty hwt K h hz
    show _ = ((evalTmpZ h.get a).map Val.z).map _
    cases hr : evalTmpZ h.get a with
    | none => rw [hr] at B; simp [B]
    | some x =>
      rw [hr] at B
      obtain ⟨l, h', e1, hx, _, _⟩ := B
      simp [e1, hx]
  · have htq := ty_q_of_ne_z hty
    simp only [hty, if_false, execTmp]
    have B := bindQ_correct cst a hwt K h hz hq hc
    unfold evalTmpR at B
    cases hr : evalTmp h.abs a with
    | none => rw [hr] at B; simp at B; simp [B]
    | some v =>
      obtain ⟨r, rfl⟩ := val_of_ty_q ((evalTmp_ty _ a v hr).trans htq)
      rw [hr] at B
      obtain ⟨l, h', e1, hc', hx, _, _⟩ := B
      simp only [Option.map_some, Val.toQ] at hx
      simp only [e1, Option.map_some, qsgn]
      rw [← hx, (qval_num_den hc').1]


end Mpir.Cxx
