/- mpn_gcdext_hook / mpn_gcdext_lehmer_n with the size bookkeeping (Mpir/Model/Gcdext.lean): the sized
   model computes the same values as the value-level model `Mpir.Gcd.gcdext_lehmer_n`, never stores outside
   a buffer, keeps `un` exact, and the result satisfies the cofactor contract with the bound. -/
import MpirProofs.Lemmas.GcdextBound
import MpirProofs.Lemmas.HgcdRec
import Mpir.Model.Gcdext
namespace Mpir.Gcdext
open Mpir Mpir.Gcd Mpir.Hgcd

/-! ### the gcd-found exits of mpn_gcd_subdiv_step (s = 0) -/

/-- the caller's pair (a, b) at the moment the hook is called with gp != NULL, and what d says about it -/
def ExitOk (A Bv : Nat) (w : Nat × Nat) (g : Nat) (d : Int) : Prop :=
  ∃ a b, 0 < a ∧ 0 < b ∧ CofOk A Bv a b w.1 w.2 ∧
    ((d = -1 ∧ a = g ∧ b = g) ∨ (d = 0 ∧ a = g ∧ ∃ q, 2 ≤ q ∧ b = q * g) ∨ (d = 1 ∧ b = g ∧ ∃ q, 2 ≤ q ∧ a = q * g))

theorem loc_exit {A Bv lo hi q : Nat} {s : Bool} {w : Nat × Nat} (h : LocOk A Bv lo hi s w) (hlo : 0 < lo)
    (hq : 2 ≤ q) (hhi : hi = q * lo) : ExitOk A Bv w lo (if s then 1 else 0) := by
  unfold LocOk at h
  have hhi0 : 0 < hi := by rw [hhi]; exact Nat.mul_pos (by omega) hlo
  cases s
  · simp only [Bool.false_eq_true, if_false] at h ⊢
    exact ⟨lo, hi, hlo, hhi0, h, Or.inr (Or.inl ⟨rfl, rfl, q, hq, hhi⟩)⟩
  · simp only [if_true] at h ⊢
    exact ⟨hi, lo, hhi0, hlo, h, Or.inr (Or.inr ⟨rfl, rfl, q, hq, hhi⟩)⟩

theorem quot_of_mod_zero {lo hi : Nat} (hlt : lo < hi) (hr : hi % lo = 0) : 2 ≤ hi / lo ∧ hi = hi / lo * lo := by
  have h2 := Nat.div_add_mod hi lo
  rw [hr, Nat.add_zero, Nat.mul_comm] at h2
  generalize hi / lo = q at *
  refine ⟨?_, h2.symm⟩
  by_contra hc
  have hq : q = 0 ∨ q = 1 := by omega
  rcases hq with h | h <;> subst h <;> simp at h2 <;> omega

theorem subdivDivide_exit (A Bv la lb : Nat) (sw : Bool) (q1 : List (Nat × Bool)) (a b : Nat) (init : Nat × Nat)
    (h0a : 0 < la) (h0b : 0 < lb) (hne : la ≠ lb) (h : LocOk A Bv la lb sw (q1.foldl hookQ init)) :
    ∀ g d, (subdivDivide la lb sw q1 a b).fin = some (g, d) →
      ExitOk A Bv ((subdivDivide la lb sw q1 a b).qs.foldl hookQ init) g d := by
  have key : ∀ (lo hi : Nat) (s : Bool), 0 < lo → lo < hi → LocOk A Bv lo hi s (q1.foldl hookQ init) →
      ∀ g d, (if hi % lo = 0 then (⟨q1, some (lo, if s then 1 else 0), a, b, 0⟩ : Subdiv)
         else if s then ⟨q1 ++ [(hi / lo, s)], none, hi % lo, lo, nlimbs lo⟩
         else ⟨q1 ++ [(hi / lo, s)], none, lo, hi % lo, nlimbs lo⟩).fin = some (g, d) →
      ExitOk A Bv ((if hi % lo = 0 then (⟨q1, some (lo, if s then 1 else 0), a, b, 0⟩ : Subdiv)
         else if s then ⟨q1 ++ [(hi / lo, s)], none, hi % lo, lo, nlimbs lo⟩
         else ⟨q1 ++ [(hi / lo, s)], none, lo, hi % lo, nlimbs lo⟩).qs.foldl hookQ init) g d := by
    intro lo hi s hlo hlt hloc g d
    by_cases hr : hi % lo = 0
    · rw [if_pos hr]
      intro hfin
      simp only [Option.some.injEq, Prod.mk.injEq] at hfin
      obtain ⟨hg, hd⟩ := hfin
      obtain ⟨hq, he⟩ := quot_of_mod_zero hlt hr
      rw [← hg, ← hd]
      exact loc_exit hloc hlo hq he
    · rw [if_neg hr]
      cases s <;> simp
  unfold subdivDivide
  dsimp only
  by_cases hgt : la > lb
  · simp only [if_pos hgt]
    exact key lb la (!sw) h0b hgt (locOk_swap h)
  · simp only [if_neg hgt]
    exact key la lb sw h0a (by omega) h

theorem subdivOrdered_exit (A Bv la lb : Nat) (sw : Bool) (a b : Nat) (init : Nat × Nat)
    (h0a : 0 < la) (hlt : la < lb) (h : LocOk A Bv la lb sw init) :
    ∀ g d, (subdivOrdered la lb sw a b).fin = some (g, d) →
      ExitOk A Bv ((subdivOrdered la lb sw a b).qs.foldl hookQ init) g d := by
  unfold subdivOrdered
  rw [if_neg (by omega)]
  dsimp only
  by_cases he : la = lb - la
  · rw [if_pos he]
    intro g d hfin
    simp only [Option.some.injEq, Prod.mk.injEq] at hfin
    obtain ⟨hg, hd⟩ := hfin
    rw [← hg, ← hd, ← he]
    exact loc_exit (q := 2) h h0a (le_refl _) (by omega)
  · rw [if_neg he]
    apply subdivDivide_exit A Bv la (lb - la) sw [(1, sw)] a b init h0a (by omega) he
    show LocOk A Bv la (lb - la) sw (hookQ init (1, sw))
    unfold LocOk hookQ at *
    cases sw
    · simp only [Bool.false_eq_true, if_false] at h ⊢
      have := cofOk_sub_b 1 h (by omega)
      simpa using this
    · simp only [if_true] at h ⊢
      have := cofOk_sub_a 1 h (by omega)
      simpa using this

theorem subdivStep_exit (A Bv a b u0 u1 : Nat) (ha : 0 < a) (hb : 0 < b) (h : CofOk A Bv a b u0 u1) :
    ∀ g d, (subdivStep a b).fin = some (g, d) → ExitOk A Bv ((subdivStep a b).qs.foldl hookQ (u0, u1)) g d := by
  unfold subdivStep
  by_cases hab : a = b
  · rw [if_pos hab]
    intro g d hfin
    simp only [Option.some.injEq, Prod.mk.injEq] at hfin
    obtain ⟨hg, hd⟩ := hfin
    exact ⟨a, b, ha, hb, h, Or.inl ⟨hd.symm, hg, by rw [← hab]; exact hg⟩⟩
  · rw [if_neg hab]
    by_cases hgt : a > b
    · rw [if_pos hgt]
      exact subdivOrdered_exit A Bv b a true a b (u0, u1) hb hgt (by unfold LocOk; simpa using h)
    · rw [if_neg hgt]
      exact subdivOrdered_exit A Bv a b false a b (u0, u1) ha (by omega) (by unfold LocOk; simpa using h)

/-- what an exit yields: the Bezout identity and the bound -/
theorem exitOk_result {A Bv : Nat} {w : Nat × Nat} {g : Nat} {d : Int} (h : ExitOk A Bv w g d) :
    (∃ t : Int, (A : Int) * pickCofactor w.1 w.2 d + Bv * t = g) ∧ CofBound Bv g (pickCofactor w.1 w.2 d) := by
  obtain ⟨a, b, ha, hb, hc, hcase⟩ := h
  rcases hcase with ⟨hd, hag, hbg⟩ | ⟨hd, hag, q, hq, hbq⟩ | ⟨hd, hbg, q, hq, haq⟩
  · subst hd; subst hag
    rw [hbg] at hc
    refine ⟨?_, exit_eq hc ha⟩
    rcases pickCofactor_cases w.1 w.2 (-1) with e | e <;> rw [e]
    · exact cofOk_b hc
    · exact cofOk_a hc
  · subst hd; subst hag
    rw [pick_zero]
    exact ⟨cofOk_a hc, exit_d0 hc ha hbq hq⟩
  · subst hd; subst hbg
    rw [pick_one]
    exact ⟨cofOk_b hc, exit_d1 hc hb haq hq⟩

theorem cof_lt {A Bv a b u0 u1 N : Nat} (h : CofOk A Bv a b u0 u1) (ha : 0 < a) (hb : 0 < b) (hBv : Bv < B ^ N) :
    u0 < B ^ N ∧ u1 < B ^ N := by
  obtain ⟨hs, _, _, _⟩ := cofOk_sum h
  have h1 : u0 ≤ u0 * a := Nat.le_mul_of_pos_right _ ha
  have h2 : u1 ≤ u1 * b := Nat.le_mul_of_pos_right _ hb
  omega

theorem exitOk_lt {A Bv N : Nat} {w : Nat × Nat} {g : Nat} {d : Int} (h : ExitOk A Bv w g d) (hBv : Bv < B ^ N) :
    w.1 < B ^ N ∧ w.2 < B ^ N := by
  obtain ⟨a, b, ha, hb, hc, _⟩ := h
  exact cof_lt hc ha hb hBv

/-! ### sizes -/

/-- the cofactor buffers hold their values in exactly un limbs, and no store went outside a buffer -/
def SzInv (c : Ctx) : Prop :=
  c.u0 < B ^ c.un ∧ c.u1 < B ^ c.un ∧ (B ^ (c.un - 1) ≤ c.u0 ∨ B ^ (c.un - 1) ≤ c.u1) ∧ 1 ≤ c.un ∧ c.ok = true

/-- a result {gp, gn}, {up, |*usize|}, *usize represents (g, S): sizes normalised, sign of *usize = sign of S -/
def FinOk (r : Fin) (g : Nat) (S : Int) : Prop :=
  r.g = g ∧ r.gn = nlimbs g ∧ r.ok = true ∧ r.up = S.natAbs ∧
  r.usize = (if S < 0 then -1 else 1) * (nlimbs S.natAbs : Int)

theorem finOk_S {r : Fin} {g : Nat} {S : Int} (h : FinOk r g S) : r.S = S := by
  obtain ⟨_, _, _, hu, hs⟩ := h
  unfold Fin.S
  rw [hu, hs]
  by_cases hneg : S < 0
  · have hp : 0 < S.natAbs := Int.natAbs_pos.mpr (by omega)
    have hn : 0 < nlimbs S.natAbs := nlimbs_pos hp
    rw [if_pos hneg, if_pos (by omega)]
    omega
  · rw [if_neg hneg, if_neg (by simp)]
    omega

theorem szInv_un_le {c : Ctx} {N : Nat} (h : SzInv c) (h0 : c.u0 < B ^ N) (h1 : c.u1 < B ^ N) : c.un ≤ N := by
  obtain ⟨_, _, ht, hn, _⟩ := h
  rcases ht with ht | ht
  · have := pow_lt_of ht h0; omega
  · have := pow_lt_of ht h1; omega

theorem hookQ_ge (u : Nat × Nat) (qd : Nat × Bool) : u.1 ≤ (hookQ u qd).1 ∧ u.2 ≤ (hookQ u qd).2 := by
  unfold hookQ; split <;> simp

theorem foldl_hookQ_ge (qs : List (Nat × Bool)) : ∀ u : Nat × Nat, u.1 ≤ (qs.foldl hookQ u).1 ∧ u.2 ≤ (qs.foldl hookQ u).2 := by
  induction qs with
  | nil => intro u; simp
  | cons qd rest ih =>
    intro u
    simp only [List.foldl_cons]
    have h1 := hookQ_ge u qd
    have h2 := ih (hookQ u qd)
    omega

theorem nlimbs_mul_ge {x y : Nat} (hx : 0 < x) (hy : 0 < y) : nlimbs x + nlimbs y ≤ nlimbs (x * y) + 1 := by
  have h1 := pow_le_of_nlimbs hx
  have h2 := pow_le_of_nlimbs hy
  have h3 := lt_pow_nlimbs (x * y)
  have hnx := nlimbs_pos hx
  have hny := nlimbs_pos hy
  have h4 : B ^ (nlimbs x - 1) * B ^ (nlimbs y - 1) ≤ x * y := Nat.mul_le_mul h1 h2
  rw [← pow_add] at h4
  have := pow_lt_of h4 h3
  omega

/-- the update x = t + q·s of one cofactor: new size and its exactness -/
theorem size_update {t s x un un' : Nat} (hx : x < B ^ (un' + 1)) (ht : t ≤ x)
    (hun : un ≤ un') (hts : t < B ^ un ∧ s < B ^ un) (htight : B ^ (un - 1) ≤ t ∨ B ^ (un - 1) ≤ s)
    (htight' : un < un' → B ^ (un' - 1) ≤ x) (h1 : 1 ≤ un) :
    let k := if x / B ^ un' ≠ 0 then un' + 1 else un'
    x < B ^ k ∧ s < B ^ k ∧ (B ^ (k - 1) ≤ x ∨ B ^ (k - 1) ≤ s) ∧ 1 ≤ k := by
  intro k
  have hp : 0 < B ^ un' := pow_pos B_pos _
  have hmono : B ^ un ≤ B ^ un' := Nat.pow_le_pow_right B_pos hun
  by_cases hc : x / B ^ un' ≠ 0
  · have hk : k = un' + 1 := if_pos hc
    rw [hk]
    have hge : B ^ un' ≤ x := div_pow_ne_zero.mp hc
    have : B ^ un' ≤ B ^ (un' + 1) := Nat.pow_le_pow_right B_pos (by omega)
    exact ⟨hx, by omega, Or.inl (by simpa using hge), by omega⟩
  · have hk : k = un' := if_neg hc
    rw [hk]
    rw [not_not, Nat.div_eq_zero_iff_lt hp] at hc
    refine ⟨hc, by omega, ?_, by omega⟩
    by_cases hlt : un < un'
    · exact Or.inl (htight' hlt)
    · have : un' = un := by omega
      rw [this]
      rcases htight with h | h
      · exact Or.inl (by omega)
      · exact Or.inr h

theorem updQ_spec (N t s un q : Nat) (ok : Bool) (ht0 : t < B ^ un) (hs0 : s < B ^ un)
    (htight : B ^ (un - 1) ≤ t ∨ B ^ (un - 1) ≤ s) (hn : 1 ≤ un) (hok : ok = true)
    (hxN : t + q * s < B ^ N) (hsN : s < B ^ N) :
    (updQ (N + 1) t s un ok q).1 = t + q * s ∧
    t + q * s < B ^ (updQ (N + 1) t s un ok q).2.1 ∧ s < B ^ (updQ (N + 1) t s un ok q).2.1 ∧
    (B ^ ((updQ (N + 1) t s un ok q).2.1 - 1) ≤ t + q * s ∨ B ^ ((updQ (N + 1) t s un ok q).2.1 - 1) ≤ s) ∧
    1 ≤ (updQ (N + 1) t s un ok q).2.1 ∧ (updQ (N + 1) t s un ok q).2.2 = true := by
  have hunN : un ≤ N := by
    rcases htight with h | h
    · have := pow_lt_of h (lt_of_le_of_lt (Nat.le_add_right _ _) hxN); omega
    · have := pow_lt_of h hsN; omega
  unfold updQ
  by_cases hq1 : nlimbs q = 1
  · rw [if_pos hq1]
    dsimp only
    obtain ⟨hqp, hqB⟩ := (nlimbs_eq_one_iff q).mp hq1
    have hx : t + q * s < B ^ (un + 1) := by
      have : q * s ≤ (B - 1) * B ^ un := Nat.mul_le_mul (by omega) (le_of_lt hs0)
      have hB : (B - 1) * B ^ un + B ^ un = B ^ (un + 1) := by
        rw [pow_succ, Nat.mul_comm (B ^ un) B, Nat.sub_mul]
        have : B ^ un ≤ B * B ^ un := Nat.le_mul_of_pos_left _ B_pos
        omega
      omega
    obtain ⟨a1, a2, a3, a4⟩ := size_update (t := t) (s := s) (x := t + q * s) (un := un) (un' := un) hx (by omega)
      (le_refl _) ⟨ht0, hs0⟩ htight (fun h => absurd h (lt_irrefl _)) hn
    refine ⟨rfl, a1, a2, a3, a4, ?_⟩
    rw [hok]; simp; omega
  · rw [if_neg hq1]
    dsimp only
    by_cases hz : nlimbs s = 0
    · rw [if_pos hz]
      have hs00 := (nlimbs_eq_zero_iff s).mp hz
      subst hs00
      simp only [Nat.mul_zero, Nat.add_zero]
      exact ⟨(by first | rfl | trivial), ht0, hs0, htight, hn, hok⟩
    · rw [if_neg hz]
      have hs1 : 0 < s := Nat.pos_of_ne_zero (fun h => hz (by rw [h]; exact nlimbs_zero))
      obtain ⟨un', hun'⟩ : ∃ un', (if nlimbs (q * s) ≥ un then nlimbs (q * s) else un) = un' := ⟨_, rfl⟩
      have hle : un ≤ un' := by rw [← hun']; split <;> omega
      have hm : nlimbs (q * s) ≤ un' := by rw [← hun']; split <;> omega
      have hor : un' = un ∨ un' = nlimbs (q * s) := by rw [← hun']; split <;> simp
      have htp : q * s < B ^ un' := lt_of_lt_of_le (lt_pow_nlimbs (q * s)) (Nat.pow_le_pow_right B_pos hm)
      have htl : t < B ^ un' := lt_of_lt_of_le ht0 (Nat.pow_le_pow_right B_pos hle)
      have hx : t + q * s < B ^ (un' + 1) := by
        have := two_pow_le un'; omega
      have htight' : un < un' → B ^ (un' - 1) ≤ t + q * s := by
        intro hlt
        have hun2 : un' = nlimbs (q * s) := by omega
        have hpos : 0 < q * s := by
          rcases Nat.eq_zero_or_pos (q * s) with h | h
          · rw [h, nlimbs_zero] at hun2; omega
          · exact h
        have := pow_le_of_nlimbs hpos
        rw [hun2]; omega
      obtain ⟨a1, a2, a3, a4⟩ := size_update (t := t) (s := s) (x := t + q * s) (un := un) (un' := un') hx (by omega)
        hle ⟨ht0, hs0⟩ htight htight' hn
      have hn1 : nlimbs s + nlimbs q ≤ N + 1 := by
        rcases Nat.eq_zero_or_pos q with h | h
        · rw [h, nlimbs_zero]; have := nlimbs_le_of_lt hsN; omega
        · have := nlimbs_mul_ge h hs1
          have h2 : nlimbs (q * s) ≤ N := nlimbs_le_of_lt (by omega)
          omega
      have hn2 : un' < N + 1 := by
        rcases hor with h | h
        · omega
        · have : nlimbs (q * s) ≤ N := nlimbs_le_of_lt (by omega)
          omega
      subst hun'
      refine ⟨rfl, a1, a2, a3, a4, ?_⟩
      rw [hok]; simp; exact ⟨hn1, hn2⟩

theorem hookQS_spec (N : Nat) (c : Ctx) (qd : Nat × Bool) (hs : SzInv c)
    (h0 : (hookQ (c.u0, c.u1) qd).1 < B ^ N) (h1 : (hookQ (c.u0, c.u1) qd).2 < B ^ N) :
    (hookQS (N + 1) c qd).u0 = (hookQ (c.u0, c.u1) qd).1 ∧ (hookQS (N + 1) c qd).u1 = (hookQ (c.u0, c.u1) qd).2 ∧
    SzInv (hookQS (N + 1) c qd) := by
  obtain ⟨q, d⟩ := qd
  obtain ⟨b0, b1, ht, hn, hok⟩ := hs
  unfold hookQS hookQ at *
  cases d
  · simp only [Bool.false_eq_true, if_false] at h0 h1 ⊢
    obtain ⟨e, a1, a2, a3, a4, a5⟩ := updQ_spec N c.u0 c.u1 c.un q c.ok b0 b1 ht hn hok h0 h1
    unfold SzInv
    dsimp only
    rw [e]
    exact ⟨(by first | rfl | trivial), (by first | rfl | trivial), a1, a2, a3, a4, a5⟩
  · simp only [if_true] at h0 h1 ⊢
    obtain ⟨e, a1, a2, a3, a4, a5⟩ := updQ_spec N c.u1 c.u0 c.un q c.ok b1 b0 (Or.symm ht) hn hok h1 h0
    unfold SzInv
    dsimp only
    rw [e]
    exact ⟨(by first | rfl | trivial), (by first | rfl | trivial), a2, a1, Or.symm a3, a4, a5⟩

theorem hookQS_fold (N : Nat) : ∀ (qs : List (Nat × Bool)) (c : Ctx), SzInv c →
    (qs.foldl hookQ (c.u0, c.u1)).1 < B ^ N → (qs.foldl hookQ (c.u0, c.u1)).2 < B ^ N →
    (qs.foldl (hookQS (N + 1)) c).u0 = (qs.foldl hookQ (c.u0, c.u1)).1 ∧
    (qs.foldl (hookQS (N + 1)) c).u1 = (qs.foldl hookQ (c.u0, c.u1)).2 ∧ SzInv (qs.foldl (hookQS (N + 1)) c) := by
  intro qs
  induction qs with
  | nil => intro c hs _ _; exact ⟨rfl, rfl, hs⟩
  | cons qd rest ih =>
    intro c hs h0 h1
    simp only [List.foldl_cons] at h0 h1 ⊢
    have hge := foldl_hookQ_ge rest (hookQ (c.u0, c.u1) qd)
    obtain ⟨e0, e1, hs'⟩ := hookQS_spec N c qd hs (by omega) (by omega)
    have := ih (hookQS (N + 1) c qd) hs' (by rw [e0, e1]; exact h0) (by rw [e0, e1]; exact h1)
    rw [e0, e1] at this
    exact this

theorem hookG_spec (c : Ctx) (g : Nat) (d : Int) (hs : SzInv c) :
    FinOk (hookG c g (nlimbs g) d) g (pickCofactor c.u0 c.u1 d) := by
  obtain ⟨_, _, _, _, hok⟩ := hs
  unfold hookG pickCofactor FinOk
  dsimp only
  generalize (if d < 0 then decide (c.u0 < c.u1) else decide (d ≠ 0)) = d1
  cases d1
  · simp only [Bool.false_eq_true, if_false, Int.natAbs_natCast]
    refine ⟨(by first | rfl | trivial), (by first | rfl | trivial), hok, (by first | rfl | trivial), ?_⟩
    rw [if_neg (by omega)]; omega
  · simp only [if_true, Int.natAbs_neg, Int.natAbs_natCast]
    refine ⟨(by first | rfl | trivial), (by first | rfl | trivial), hok, (by first | rfl | trivial), ?_⟩
    by_cases h0 : c.u0 = 0
    · rw [h0, nlimbs_zero]; simp
    · rw [if_pos (by omega)]; omega

/-- mpn_hgcd_mul_matrix1_vector on the cofactors: exact, the new un is exact -/
theorem szInv_mulM1 (N : Nat) (c : Ctx) (m : M1) (hm : Msb0 m) (hd : m.u00 * m.u11 = m.u01 * m.u10 + 1) (hs : SzInv c)
    (h0 : c.u0 * m.u00 + c.u1 * m.u10 < B ^ N) (h1 : c.u0 * m.u01 + c.u1 * m.u11 < B ^ N) :
    (mulMatrix1Vector m c.u0 c.u1 c.un).1 = c.u0 * m.u00 + c.u1 * m.u10 ∧
    (mulMatrix1Vector m c.u0 c.u1 c.un).2.1 = c.u0 * m.u01 + c.u1 * m.u11 ∧
    SzInv ⟨(mulMatrix1Vector m c.u0 c.u1 c.un).1, (mulMatrix1Vector m c.u0 c.u1 c.un).2.1,
      (mulMatrix1Vector m c.u0 c.u1 c.un).2.2, c.ok && decide (c.un < N + 1)⟩ := by
  obtain ⟨b0, b1, ht, hn, hok⟩ := hs
  obtain ⟨p00, p11⟩ : 1 ≤ m.u00 ∧ 1 ≤ m.u11 := det1_pos hd
  have g0 : c.u0 ≤ c.u0 * m.u00 + c.u1 * m.u10 := le_trans (Nat.le_mul_of_pos_right _ p00) (Nat.le_add_right _ _)
  have g1 : c.u1 ≤ c.u0 * m.u01 + c.u1 * m.u11 := le_trans (Nat.le_mul_of_pos_right _ p11) (Nat.le_add_left _ _)
  have hunN : c.un ≤ N := szInv_un_le ⟨b0, b1, ht, hn, hok⟩ (by omega) (by omega)
  obtain ⟨e1, e2, l1, l2, l3, l4⟩ := mulMatrix1Vector_spec m c.u0 c.u1 c.un hm b0 b1
  have e1' : (mulMatrix1Vector m c.u0 c.u1 c.un).1 = c.u0 * m.u00 + c.u1 * m.u10 := by rw [e1]; ring
  have e2' : (mulMatrix1Vector m c.u0 c.u1 c.un).2.1 = c.u0 * m.u01 + c.u1 * m.u11 := by rw [e2]; ring
  refine ⟨e1', e2', ?_⟩
  have hn' : (mulMatrix1Vector m c.u0 c.u1 c.un).2.2 =
      if (mulMatrix1Vector m c.u0 c.u1 c.un).1 / B ^ c.un ≠ 0 ∨ (mulMatrix1Vector m c.u0 c.u1 c.un).2.1 / B ^ c.un ≠ 0
      then c.un + 1 else c.un := rfl
  unfold SzInv
  dsimp only
  refine ⟨by rw [e1]; exact l3, by rw [e2]; exact l4, ?_, by omega, by rw [hok]; simp; omega⟩
  by_cases hc : (mulMatrix1Vector m c.u0 c.u1 c.un).1 / B ^ c.un ≠ 0 ∨ (mulMatrix1Vector m c.u0 c.u1 c.un).2.1 / B ^ c.un ≠ 0
  · rw [hn', if_pos hc]
    simp only [Nat.add_sub_cancel]
    rcases hc with h | h
    · exact Or.inl (div_pow_ne_zero.mp h)
    · exact Or.inr (div_pow_ne_zero.mp h)
  · rw [hn', if_neg hc, e1', e2']
    rcases ht with h | h
    · exact Or.inl (by omega)
    · exact Or.inr (by omega)

theorem hgcd2_top2_msb0 (a b n : Nat) (m : M1) (hn : 2 ≤ n) (ha : a < B ^ n) (hb : b < B ^ n)
    (h : hgcd2 (top2 a b n).1 (top2 a b n).2.1 (top2 a b n).2.2.1 (top2 a b n).2.2.2 = some m) : Msb0 m := by
  obtain ⟨s, rx, ry, hs, hrx, hry, t1, t2, t3, t4, ea, eb⟩ := top2_spec a b n hn ha hb
  exact post_msb0 (hgcd2_post _ _ _ _ m t1 t2 t3 t4 h)

end Mpir.Gcdext
