/- Strided access of the matrix Fourier models (getCol / setCol / onRows of Mpir/Model/FftX.lean): what a fold of
   column-local or row-local updates leaves in every entry. -/
import MpirProofs.Lemmas.FftXMfa
set_option linter.unusedSimpArgs false
namespace Mpir.FftX
open Mpir Finset

theorem length_setCol (xs : List Int) (off is : Nat) (col : List Int) : (setCol xs off is col).length = xs.length := by
  simp [setCol]

theorem length_getCol (xs : List Int) (off is cnt : Nat) : (getCol xs off is cnt).length = cnt := by simp [getCol]

theorem el_ge_length (xs : List Int) (k : Nat) (h : xs.length ≤ k) : el xs k = 0 := by
  simp [el, List.getD_eq_getElem?_getD, List.getElem?_eq_none h]

theorem el_setCol (xs : List Int) (off is : Nat) (col : List Int) (k : Nat) (hk : k < xs.length) :
    el (setCol xs off is col) k =
      if off ≤ k ∧ (k - off) % is = 0 ∧ (k - off) / is < col.length then el col ((k - off) / is) else el xs k :=
  el_range_map _ _ _ hk

theorem add_mul_mod (a q n : Nat) (ha : a < n) : (a + q * n) % n = a := by
  rw [Nat.add_mul_mod_self_right, Nat.mod_eq_of_lt ha]

theorem add_mul_div (a q n : Nat) (ha : a < n) : (a + q * n) / n = q := by
  rw [Nat.add_mul_div_right _ _ (by omega), Nat.div_eq_of_lt ha]; simp

/-- writing column c (offset base' + c) of an n2 × n1 matrix and reading entry (j, i) of the matrix at `base`;
    the two matrices are the same (base = base') or apart by a multiple of n1 rows beyond n2 -/
theorem el_setCol_same (xs : List Int) (base n1 n2 c i j : Nat) (col : List Int) (hcl : col.length = n2)
    (hc : c < n1) (hi : i < n1) (hj : j < n2) (hk : base + i + j * n1 < xs.length) :
    el (setCol xs (base + c) n1 col) (base + i + j * n1) = if i = c then el col j else el xs (base + i + j * n1) := by
  rw [el_setCol _ _ _ _ _ hk]
  by_cases hic : i = c
  · subst hic
    have e : base + i + j * n1 - (base + i) = 0 + j * n1 := by omega
    rw [e, add_mul_mod 0 j n1 (by omega), add_mul_div 0 j n1 (by omega), if_pos ⟨by omega, rfl, by omega⟩, if_pos rfl]
  · rw [if_neg hic]
    apply if_neg
    rintro ⟨h1, h2, _⟩
    rcases Nat.lt_or_ge c i with h | h
    · have e : base + i + j * n1 - (base + c) = (i - c) + j * n1 := by omega
      rw [e, add_mul_mod _ _ _ (by omega)] at h2; omega
    · -- i < c: then j ≥ 1 and the remainder is n1 + i − c
      have hj1 : 1 ≤ j := by
        rcases Nat.eq_zero_or_pos j with h0 | h0
        · subst h0; simp at h1; omega
        · exact h0
      obtain ⟨j', rfl⟩ : ∃ j', j = j' + 1 := ⟨j - 1, by omega⟩
      have e : base + i + (j' + 1) * n1 - (base + c) = (n1 + i - c) + j' * n1 := by
        rw [Nat.add_mul]; omega
      rw [e, add_mul_mod _ _ _ (by omega)] at h2; omega

/-- … of the other matrix: first-half write, second-half read (the matrices are n1·n2 apart) -/
theorem el_setCol_lo_hi (xs : List Int) (n1 n2 c i j : Nat) (col : List Int) (hcl : col.length = n2)
    (hc : c < n1) (hi : i < n1) (hk : n1 * n2 + i + j * n1 < xs.length) :
    el (setCol xs c n1 col) (n1 * n2 + i + j * n1) = el xs (n1 * n2 + i + j * n1) := by
  rw [el_setCol _ _ _ _ _ hk]
  apply if_neg
  rintro ⟨_, h2, h3⟩
  rcases Nat.lt_or_ge i c with h | h
  · have e : n1 * n2 + i + j * n1 - c = (n1 + i - c) + (n2 - 1 + j) * n1 := by
      have : 1 ≤ n2 := Nat.pos_of_ne_zero (by rintro rfl; rw [hcl] at h3; exact Nat.not_lt_zero _ h3)
      obtain ⟨m, rfl⟩ : ∃ m, n2 = m + 1 := ⟨n2 - 1, by omega⟩
      simp only [Nat.add_sub_cancel, Nat.mul_succ, Nat.add_mul]; rw [Nat.mul_comm n1 m]; omega
    rw [e, add_mul_mod _ _ _ (by omega)] at h2; omega
  · have e : n1 * n2 + i + j * n1 - c = (i - c) + (n2 + j) * n1 := by
      rw [Nat.add_mul, Nat.mul_comm n1 n2]; omega
    rw [e, add_mul_mod _ _ _ (by omega)] at h2
    rw [e, add_mul_div _ _ _ (by omega)] at h3; omega

/-- second-half write, first-half read -/
theorem el_setCol_hi_lo (xs : List Int) (n1 n2 c i j : Nat) (col : List Int) (hi : i < n1) (hj : j < n2)
    (hk : i + j * n1 < xs.length) :
    el (setCol xs (n1 * n2 + c) n1 col) (i + j * n1) = el xs (i + j * n1) := by
  rw [el_setCol _ _ _ _ _ hk]
  apply if_neg
  rintro ⟨h1, _, _⟩
  have : i + j * n1 < n1 * n2 := by
    calc i + j * n1 < n1 + j * n1 := by omega
      _ = (j + 1) * n1 := by ring
      _ ≤ n2 * n1 := Nat.mul_le_mul_right _ hj
      _ = n1 * n2 := Nat.mul_comm _ _
  omega

/-! ### a fold of column-local updates of two stacked n2 × n1 matrices -/

/-- one step: columns i of both matrices are replaced by `G i` of them -/
def colStep (n1 n2 off2 : Nat) (G : Nat → List Int → List Int → List Int × List Int) (xs : List Int) (i : Nat) : List Int :=
  setCol (setCol xs i n1 (G i (getCol xs i n1 n2) (getCol xs (off2 + i) n1 n2)).1) (off2 + i) n1
    (G i (getCol xs i n1 n2) (getCol xs (off2 + i) n1 n2)).2

theorem idx_lt (n1 n2 i j : Nat) (hi : i < n1) (hj : j < n2) : i + j * n1 < n1 * n2 := by
  calc i + j * n1 < n1 + j * n1 := by omega
    _ = (j + 1) * n1 := by ring
    _ ≤ n2 * n1 := Nat.mul_le_mul_right _ hj
    _ = n1 * n2 := Nat.mul_comm _ _

theorem fold_cols (n1 n2 : Nat) (G : Nat → List Int → List Int → List Int × List Int)
    (hG : ∀ i ca cb, (G i ca cb).1.length = n2 ∧ (G i ca cb).2.length = n2) (xs : List Int)
    (hlen : xs.length = 2 * (n1 * n2)) (c : Nat) (hc : c ≤ n1) :
    ((List.range c).foldl (colStep n1 n2 (n1 * n2) G) xs).length = xs.length ∧
    ∀ i < n1, ∀ j < n2,
      el ((List.range c).foldl (colStep n1 n2 (n1 * n2) G) xs) (i + j * n1) =
        (if i < c then el (G i (getCol xs i n1 n2) (getCol xs (n1 * n2 + i) n1 n2)).1 j else el xs (i + j * n1)) ∧
      el ((List.range c).foldl (colStep n1 n2 (n1 * n2) G) xs) (n1 * n2 + i + j * n1) =
        (if i < c then el (G i (getCol xs i n1 n2) (getCol xs (n1 * n2 + i) n1 n2)).2 j
         else el xs (n1 * n2 + i + j * n1)) := by
  induction c with
  | zero => simp
  | succ c ih =>
    obtain ⟨hl, hv⟩ := ih (by omega)
    rw [List.range_succ, List.foldl_append, List.foldl_cons, List.foldl_nil]
    set ys := (List.range c).foldl (colStep n1 n2 (n1 * n2) G) xs with hys
    have ga : getCol ys c n1 n2 = getCol xs c n1 n2 := by
      unfold getCol; apply List.map_congr_left; intro j hj
      have := (hv c (by omega) j (List.mem_range.mp hj)).1
      rw [if_neg (by omega)] at this; exact this
    have gb : getCol ys (n1 * n2 + c) n1 n2 = getCol xs (n1 * n2 + c) n1 n2 := by
      unfold getCol; apply List.map_congr_left; intro j hj
      have := (hv c (by omega) j (List.mem_range.mp hj)).2
      rw [if_neg (by omega)] at this; exact this
    unfold colStep
    rw [ga, gb]
    refine ⟨by rw [length_setCol, length_setCol, hl], ?_⟩
    intro i hi j hj
    have hb := idx_lt n1 n2 i j hi hj
    obtain ⟨g1, g2⟩ := hG c (getCol xs c n1 n2) (getCol xs (n1 * n2 + c) n1 n2)
    constructor
    · rw [el_setCol_hi_lo _ n1 n2 c i j _ hi hj (by rw [length_setCol, hl, hlen]; omega)]
      have := el_setCol_same ys 0 n1 n2 c i j _ g1 (by omega) hi hj (by rw [hl, hlen]; omega)
      simp only [Nat.zero_add] at this
      rw [this, (hv i hi j hj).1]
      by_cases hic : i = c
      · subst hic; rw [if_pos rfl, if_pos (by omega)]
      · rw [if_neg hic]
        by_cases h : i < c
        · rw [if_pos h, if_pos (by omega)]
        · rw [if_neg h, if_neg (by omega)]
    · have hb2 : n1 * n2 + i + j * n1 < (setCol ys c n1 (G c (getCol xs c n1 n2) (getCol xs (n1 * n2 + c) n1 n2)).1).length := by
        rw [length_setCol, hl, hlen]; omega
      rw [el_setCol_same _ (n1 * n2) n1 n2 c i j _ g2 (by omega) hi hj hb2,
        el_setCol_lo_hi ys n1 n2 c i j _ g1 (by omega) hi (by rw [hl, hlen]; omega), (hv i hi j hj).2]
      by_cases hic : i = c
      · subst hic; rw [if_pos rfl, if_pos (by omega)]
      · rw [if_neg hic]
        by_cases h : i < c
        · rw [if_pos h, if_pos (by omega)]
        · rw [if_neg h, if_neg (by omega)]

/-! ### a fold of row-local updates -/

theorem el_row_upd (xs : List Int) (a n1 : Nat) (R : List Int) (hR : R.length = n1) (ha : a + n1 ≤ xs.length) (k : Nat) :
    el (xs.take a ++ R ++ xs.drop (a + n1)) k =
      if a ≤ k ∧ k < a + n1 then el R (k - a) else el xs k := by
  have hta : (xs.take a).length = a := by simp; omega
  by_cases h1 : k < a
  · rw [if_neg (by omega), List.append_assoc, el_append_left _ _ _ (by omega), el_take _ _ _ h1]
  · by_cases h2 : k < a + n1
    · rw [if_pos ⟨by omega, h2⟩, el_append_left _ _ _ (by simp; omega)]
      have : k = (xs.take a).length + (k - a) := by omega
      rw [this, el_append_right, hta]; simp
    · rw [if_neg (by omega)]
      have : k = (xs.take a ++ R).length + (k - (a + n1)) := by simp; omega
      rw [this, el_append_right, el_drop]; congr 1; simp; omega

theorem length_row_upd (xs : List Int) (a n1 : Nat) (R : List Int) (hR : R.length = n1) (ha : a + n1 ≤ xs.length) :
    (xs.take a ++ R ++ xs.drop (a + n1)).length = xs.length := by
  simp; omega

/-- rows `rows` (distinct, < n2) of the n2 × n1 matrix at `off` replaced by `f` of them -/
theorem onRows_spec (off n1 n2 : Nat) (f : List Int → List Int) (hf : ∀ r, r.length = n1 → (f r).length = n1)
    (rows : List Nat) (hnd : rows.Nodup) (hr : ∀ i ∈ rows, i < n2) (xs : List Int) (hlen : off + n1 * n2 ≤ xs.length) :
    (onRows xs off n1 rows f).length = xs.length ∧
    (∀ k, (k < off ∨ off + n1 * n2 ≤ k) → el (onRows xs off n1 rows f) k = el xs k) ∧
    ∀ j < n2, ∀ t < n1,
      el (onRows xs off n1 rows f) (off + j * n1 + t) =
        if j ∈ rows then el (f ((xs.drop (off + j * n1)).take n1)) t else el xs (off + j * n1 + t) := by
  induction rows generalizing xs with
  | nil => simp [onRows]
  | cons i rest ih =>
    have hi : i < n2 := hr i (by simp)
    have hnd' := (List.nodup_cons.mp hnd)
    have hrow : off + i * n1 + n1 ≤ xs.length := by
      have : (i + 1) * n1 ≤ n2 * n1 := Nat.mul_le_mul_right _ hi
      rw [Nat.mul_comm n2 n1] at this
      have e : (i + 1) * n1 = i * n1 + n1 := by ring
      omega
    have hRl : ((xs.drop (off + i * n1)).take n1).length = n1 := by simp; omega
    set ys := xs.take (off + i * n1) ++ f ((xs.drop (off + i * n1)).take n1) ++ xs.drop (off + i * n1 + n1) with hys
    have hyl : ys.length = xs.length := length_row_upd _ _ _ _ (hf _ hRl) hrow
    have hstep : onRows xs off n1 (i :: rest) f = onRows ys off n1 rest f := by
      simp only [onRows, List.foldl_cons]; rfl
    obtain ⟨l1, l2, l3⟩ := ih hnd'.2 (fun x hx => hr x (by simp [hx])) ys (by rw [hyl]; exact hlen)
    have hyv : ∀ k, el ys k = if off + i * n1 ≤ k ∧ k < off + i * n1 + n1 then
        el (f ((xs.drop (off + i * n1)).take n1)) (k - (off + i * n1)) else el xs k :=
      fun k => el_row_upd xs _ n1 _ (hf _ hRl) hrow k
    rw [hstep]
    refine ⟨by rw [l1, hyl], ?_, ?_⟩
    · intro k hk
      rw [l2 k hk, hyv, if_neg]
      rintro ⟨h1, h2⟩
      have : (i + 1) * n1 ≤ n2 * n1 := Nat.mul_le_mul_right _ hi
      rw [Nat.mul_comm n2 n1] at this
      have e : (i + 1) * n1 = i * n1 + n1 := by ring
      omega
    · intro j hj t ht
      rw [l3 j hj t ht]
      -- rows other than i are the same in ys and xs
      have hother : j ≠ i → ∀ t' < n1, el ys (off + j * n1 + t') = el xs (off + j * n1 + t') := by
        intro hji t' ht'
        rw [hyv, if_neg]
        rintro ⟨h1, h2⟩
        rcases Nat.lt_or_gt_of_ne hji with h | h
        · have : (j + 1) * n1 ≤ i * n1 := Nat.mul_le_mul_right _ h
          have e : (j + 1) * n1 = j * n1 + n1 := by ring
          omega
        · have : (i + 1) * n1 ≤ j * n1 := Nat.mul_le_mul_right _ h
          have e : (i + 1) * n1 = i * n1 + n1 := by ring
          omega
      by_cases hji : j = i
      · subst hji
        rw [if_neg hnd'.1, if_pos (List.mem_cons_self), hyv, if_pos ⟨by omega, by omega⟩]
        congr 1; omega
      · have hrowj : (ys.drop (off + j * n1)).take n1 = (xs.drop (off + j * n1)).take n1 := by
          apply List.ext_getElem
          · simp; rw [hyl]
          · intro m h1 h2
            have hm : m < n1 := by simp at h1; omega
            have e1 := hother hji m hm
            simp only [el, List.getD_eq_getElem?_getD] at e1
            simp only [List.getElem_take, List.getElem_drop]
            have hb1 : off + j * n1 + m < ys.length := by simp at h1; omega
            have hb2 : off + j * n1 + m < xs.length := by rw [← hyl]; exact hb1
            rw [List.getElem?_eq_getElem hb1, List.getElem?_eq_getElem hb2] at e1
            simpa using e1
        simp only [List.mem_cons, hji, false_or]
        rw [hrowj, hother hji t ht]

end Mpir.FftX
