/- Helper lemmas for C02 part c02_inv (Mpir/Model/InvDiv.lean): the inverse contract and the quotient estimate of
   mpn_inv_div_qr_n. -/
import Mpir.Model.InvDiv
import MpirProofs.Lemmas.Base
import Mathlib.Tactic.Ring
import Mathlib.Tactic.Linarith
namespace Mpir.InvDiv
open Mpir

theorem isInvert_iff' (n X A : Nat) (hA : 0 < A) :
    isInvert n X A = true ↔ (B ^ n + X) * A < B ^ (2 * n) ∧ B ^ (2 * n) ≤ (B ^ n + X + 1) * A := by
  have hT : X * A + B ^ n * A = (B ^ n + X) * A := by ring
  have hT1 : (B ^ n + X + 1) * A = (B ^ n + X) * A + A := by ring
  have hpos : 0 < (B ^ n + X) * A := Nat.mul_pos (by have := Nat.pow_pos (n := n) B_pos; omega) hA
  unfold isInvert
  simp only [hT, hT1]
  generalize (B ^ n + X) * A = T at *
  generalize B ^ (2 * n) = E at *
  by_cases h : E ≤ T
  · simp [h]
  · have hm : (E - T) % E = E - T := Nat.mod_eq_of_lt (by omega)
    simp only [h, if_false, hm, decide_eq_true_eq]; omega

end Mpir.InvDiv
