/- Helper lemmas for C02 part c02_inv (Mpir/Model/InvDiv.lean): the inverse contract and the quotient estimate of
   mpn_inv_div_qr_n. -/
import Mpir.Model.InvDiv
import MpirProofs.Lemmas.Base
import Mathlib.Tactic.Ring
import Mathlib.Tactic.Linarith
namespace Mpir.InvDiv
open Mpir

theorem isInvert_iff' (n X A : Nat) (hA : 0 < A) :
    isInvert n X A = true ↔ (B ^ n + X) * A < B ^ (2 * n) ∧ B ^ (2 * n) ≤ (B ^ n + X + 1) * A := by
  have hT : X * A + B ^ n * A = (B ^ n + X) * A := by ring
  have hT1 : (B ^ n + X + 1) * A = (B ^ n + X) * A + A := by ring
  have hpos : 0 < (B ^ n + X) * A := Nat.mul_pos (by have := Nat.pow_pos (n := n) B_pos; omega) hA
  unfold isInvert
  simp only [hT, hT1]
  generalize (B ^ n + X) * A = T at *
  generalize B ^ (2 * n) = E at *
  by_cases h : E ≤ T
  · simp [h]
  · have hm : (E - T) % E = E - T := Nat.mod_eq_of_lt (by omega)
    simp only [h, if_false, hm, decide_eq_true_eq]; omega

/-- the estimate never exceeds the quotient: inv_div_qr_n.c:57-62, left inequality.
    P = B^(dn-1), E = B^(dn+1), W = ⌊N1/P⌋ the dn+1 top limbs, X = B^dn + inv, qf = ⌊W·X/E⌋. -/
theorem est_le (P E D X W N1 qf : Nat) (hE : 0 < E) (hDX : D * X ≤ P * E)
    (hW : W * P ≤ N1) (hqf : qf * E ≤ W * X) : qf * D ≤ N1 := by
  have h : qf * D * E ≤ W * P * E := by
    calc qf * D * E = (qf * E) * D := by ring
      _ ≤ (W * X) * D := Nat.mul_le_mul_right _ hqf
      _ = W * (D * X) := by ring
      _ ≤ W * (P * E) := Nat.mul_le_mul_left _ hDX
      _ = W * P * E := by ring
  exact le_trans (Nat.le_of_mul_le_mul_right h hE) hW

/-- the estimate is at most 2 below the quotient: inv_div_qr_n.c:57-62, right inequality -/
theorem est_ge (P E D X W N1 qf : Nat) (hD : 0 < D) (hXD : P * E ≤ D * (X + 1))
    (hW : N1 < (W + 1) * P) (hqf : W * X < (qf + 1) * E) (hWE : W < E) (hXE : X + 1 ≤ E) :
    N1 < (qf + 3) * D := by
  have h : (W + 1) * P * E < (qf + 3) * D * E := by
    calc (W + 1) * P * E = (W + 1) * (P * E) := by ring
      _ ≤ (W + 1) * (D * (X + 1)) := Nat.mul_le_mul_left _ hXD
      _ = D * (W * X + W + X + 1) := by ring
      _ < D * ((qf + 3) * E) := by
          apply Nat.mul_lt_mul_of_pos_left _ hD
          have : (qf + 3) * E = (qf + 1) * E + 2 * E := by ring
          omega
      _ = (qf + 3) * D * E := by ring
  have := Nat.lt_of_mul_lt_mul_right h
  omega

theorem addN_small (k a b : Nat) (h : a + b < B ^ k) : addN k a b = (a + b, 0) := by
  unfold addN; rw [if_neg (by omega)]

theorem subN_ge (k a b : Nat) (h : b ≤ a) : subN k a b = (a - b, 0) := by
  unfold subN; rw [if_neg (by omega)]

theorem add_div_B (a b : Nat) : (a + b) / B = a / B + b / B + (b % B + a % B) / B := by
  rw [B_eq]; omega

theorem estimate_eq (j N1 D inv : Nat)     (hN1 : N1 < D * B ^ (j+1))
    (hDX : D * (B ^ (j+1) + inv) ≤ B ^ j * B ^ (j+2)) :
    estimate (j+1) N1 inv = ((N1 / B ^ j) * (B ^ (j+1) + inv) / B ^ (j+2) - 1, 0, true) := by
  have hP : 0 < B ^ j := Nat.pow_pos B_pos
  have hBd : B ^ (j+1) = B ^ j * B := pow_succ ..
  have hE : B ^ (j+2) = B ^ j * B * B := by rw [pow_succ, pow_succ]
  have hqfD := est_le (B ^ j) (B ^ (j+2)) D (B ^ (j+1) + inv) (N1 / B ^ j) N1 _ (Nat.pow_pos B_pos) hDX
    (Nat.div_mul_le_self _ _) (Nat.div_mul_le_self _ _)
  generalize hqf : (N1 / B ^ j) * (B ^ (j+1) + inv) / B ^ (j+2) = qf at *
  have hqlt : qf < B ^ (j+1) := by
    by_contra h
    have : D * B ^ (j+1) ≤ qf * D := by rw [Nat.mul_comm]; exact Nat.mul_le_mul_right _ (by omega)
    omega
  -- decomposition of qf
  have hdec : qf = (N1 / B ^ j * inv / B ^ (j+1)) / B + N1 / B ^ (j+1)
      + (N1 / B ^ j % B + N1 / B ^ j * inv / B ^ (j+1) % B) / B := by
    rw [← hqf, hE, hBd, ← Nat.div_div_eq_div_mul, ← Nat.div_div_eq_div_mul N1]
    have : N1 / B ^ j * (B ^ j * B + inv) = N1 / B ^ j * inv + N1 / B ^ j * (B ^ j * B) := by ring
    rw [this, Nat.add_mul_div_right _ _ (Nat.mul_pos hP B_pos)]
    exact add_div_B _ _
  have htp : N1 / B ^ j * inv / B ^ (j+2) = (N1 / B ^ j * inv / B ^ (j+1)) / B := by
    rw [hE, ← hBd, Nat.div_div_eq_div_mul]
  unfold estimate
  simp only [Nat.add_sub_cancel, show j + 1 + 1 = j + 2 from rfl, htp]
  generalize N1 / B ^ j * inv / B ^ (j+1) = t at *
  generalize N1 / B ^ (j+1) = h at *
  generalize N1 / B ^ j % B = nl at *
  generalize (nl + t % B) / B = c at *
  have ht : t / B % B ^ (j+1) = t / B := Nat.mod_eq_of_lt (by omega)
  rw [ht, addN_small _ _ _ (by omega)]
  simp only []
  rw [addN_small _ _ _ (by omega)]
  simp only [← hdec]
  simp only [Nat.add_zero, Nat.zero_ne_one, if_false, Nat.sub_zero, Nat.zero_add]
  have hB1 : (B - 1) % B = B - 1 := Nat.mod_eq_of_lt (by have := B_pos; omega)
  have hBB : (B - 1 + 1) % B = 0 := by rw [Nat.sub_add_cancel B_pos, Nat.mod_self]
  have hne : (0:Nat) ≠ B - 1 := by rw [B_eq]; omega
  rcases Nat.eq_zero_or_pos qf with h0 | h0
  · subst h0
    have hs : subN (j+1) 0 1 = (B^(j+1) - 1, 1) := by unfold subN; rw [if_pos (by omega)]; congr 1; omega
    have ha : addN (j+1) (B^(j+1) - 1) 1 = (0, 1) := by unfold addN; rw [if_pos (by omega)]; congr 1; omega
    simp [hs, ha, hB1, hBB]
  · have hs : subN (j+1) qf 1 = (qf - 1, 0) := subN_ge _ _ _ h0
    simp [hs, hne]

theorem reduceTop_eq (dn N D : Nat) (hnorm : B ^ dn ≤ 2 * D) (hN : N < B ^ dn * B ^ dn) :
    let ret2 := if D ≤ N / B ^ dn then 1 else 0
    reduceTop dn N D = (N - ret2 * (D * B ^ dn), ret2) ∧ N - ret2 * (D * B ^ dn) < D * B ^ dn ∧
      ret2 * (D * B ^ dn) ≤ N := by
  have hP : 0 < B ^ dn := Nat.pow_pos B_pos
  have hdm := Nat.mod_add_div N (B ^ dn)
  have hml := Nat.mod_lt N hP
  have hh : N / B ^ dn < B ^ dn := Nat.div_lt_of_lt_mul hN
  unfold reduceTop
  by_cases h : D ≤ N / B ^ dn
  · simp only [h, if_true, subN_ge _ _ _ h, Nat.one_mul]
    obtain ⟨k, hk⟩ : ∃ k, N / B ^ dn = D + k := ⟨N / B ^ dn - D, by omega⟩
    rw [hk] at hdm hh ⊢
    rw [Nat.add_sub_cancel_left]
    have e1 : B ^ dn * (D + k) = D * B ^ dn + B ^ dn * k := by ring
    have e3 : B ^ dn * (k + 1) ≤ B ^ dn * D := Nat.mul_le_mul_left _ (by omega)
    have e4 : B ^ dn * (k + 1) = B ^ dn * k + B ^ dn := by ring
    have e5 : D * B ^ dn = B ^ dn * D := Nat.mul_comm ..
    generalize B ^ dn * k = x at *
    generalize B ^ dn * D = y at *
    generalize D * B ^ dn = z at *
    generalize N % B ^ dn = l at *
    refine ⟨?_, ?_, ?_⟩
    · congr 1; omega
    · omega
    · omega
  · simp only [h, if_false, Nat.zero_mul, Nat.sub_zero, Nat.zero_le, and_true, true_and]
    have e3 : B ^ dn * (N / B ^ dn + 1) ≤ B ^ dn * D := Nat.mul_le_mul_left _ (by omega)
    have e4 : B ^ dn * (N / B ^ dn + 1) = B ^ dn * (N / B ^ dn) + B ^ dn := by ring
    have e5 : D * B ^ dn = B ^ dn * D := Nat.mul_comm ..
    generalize N % B ^ dn = l at *
    generalize N / B ^ dn = hh' at *
    omega

/-- `np[dn] || mpn_cmp (np, dp, dn) >= 0` on an area below B^(dn+1) says r ≥ D -/
theorem loopCond_iff (dn D r : Nat) (hD : D < B ^ dn) (hr : r < B ^ (dn + 1)) :
    loopCond dn D r = true ↔ D ≤ r := by
  have hP : 0 < B ^ dn := Nat.pow_pos B_pos
  have hdm := Nat.mod_add_div r (B ^ dn)
  have hml := Nat.mod_lt r hP
  have hh : r / B ^ dn < B := Nat.div_lt_of_lt_mul (by rw [pow_succ] at hr; exact hr)
  unfold loopCond
  rw [Nat.mod_eq_of_lt hh]
  simp only [Bool.or_eq_true, decide_eq_true_eq]
  generalize r % B ^ dn = l at *
  generalize r / B ^ dn = h at *
  rcases Nat.eq_zero_or_pos h with h0 | h0
  · subst h0; simp at hdm; omega
  · have : B ^ dn ≤ B ^ dn * h := Nat.le_mul_of_pos_right _ h0
    generalize B ^ dn * h = y at *
    constructor
    · intro _; omega
    · intro _; left; omega

/-- one round of the final loop subtracts D from the area and adds 1 to the quotient -/
theorem corrLoop_spec (dn D : Nat) (hD0 : 0 < D) (hD : D < B ^ dn) :
    ∀ fuel (s : Loop), s.ret < B → s.r < B ^ (dn + 1) → s.r / D ≤ fuel → s.q + s.r / D < B ^ dn →
      corrLoop dn D fuel s = { q := s.q + s.r / D, ret := s.ret, r := s.r % D, adds := s.adds + s.r / D } := by
  intro fuel
  induction fuel with
  | zero =>
    intro s _ _ h _
    have h0 : s.r / D = 0 := Nat.le_zero.mp h
    have : s.r < D := by
      rcases Nat.lt_or_ge s.r D with h | h
      · exact h
      · have := Nat.div_pos h hD0; omega
    simp [corrLoop, h0, Nat.mod_eq_of_lt this]
  | succ fuel ih =>
    intro s hret hr hf hq
    unfold corrLoop
    by_cases hc : D ≤ s.r
    · rw [if_pos ((loopCond_iff dn D s.r hD hr).mpr hc)]
      have hdiv : s.r / D = (s.r - D) / D + 1 := by
        conv_lhs => rw [show s.r = (s.r - D) + D by omega]
        exact Nat.add_div_right _ hD0
      have hmod : s.r % D = (s.r - D) % D := by
        conv_lhs => rw [show s.r = (s.r - D) + D by omega]
        exact Nat.add_mod_right _ _
      have hP : 0 < B ^ dn := Nat.pow_pos B_pos
      have hdm := Nat.mod_add_div s.r (B ^ dn)
      have hml := Nat.mod_lt s.r hP
      have hh : s.r / B ^ dn < B := Nat.div_lt_of_lt_mul (by rw [pow_succ] at hr; exact hr)
      have hhi : s.r / B ^ (dn + 1) = 0 := Nat.div_eq_of_lt hr
      have hnew : (subN dn (s.r % B ^ dn) D).1 + B ^ dn * ((s.r / B ^ dn % B + B - (subN dn (s.r % B ^ dn) D).2) % B)
          + B ^ (dn + 1) * (s.r / B ^ (dn + 1)) = s.r - D := by
        rw [hhi, Nat.mul_zero, Nat.add_zero, Nat.mod_eq_of_lt hh]
        generalize s.r % B ^ dn = l at *
        generalize s.r / B ^ dn = h at *
        unfold subN
        by_cases hl : l < D
        · simp only [hl, if_true]
          have h1 : 1 ≤ h := by
            rcases Nat.eq_zero_or_pos h with h0 | h0
            · subst h0; simp at hdm; omega
            · exact h0
          obtain ⟨h', rfl⟩ : ∃ h', h = h' + 1 := ⟨h - 1, by omega⟩
          have : (h' + 1 + B - 1) % B = h' := by
            rw [show h' + 1 + B - 1 = h' + B by omega, Nat.add_mod_right, Nat.mod_eq_of_lt (by omega)]
          rw [this]
          have : B ^ dn * (h' + 1) = B ^ dn * h' + B ^ dn := by ring
          generalize B ^ dn * h' = y at *
          omega
        · simp only [hl, if_false]
          have : (h + B - 0) % B = h := by
            rw [Nat.sub_zero, Nat.add_mod_right, Nat.mod_eq_of_lt hh]
          rw [this]
          generalize B ^ dn * h = y at *
          omega
      have hg := Nat.zero_le ((s.r - D) / D)
      have hq1 : s.q + 1 < B ^ dn := by omega
      dsimp only
      rw [addN_small _ _ _ hq1, hnew]
      rw [ih _ (by simp; exact Nat.mod_lt _ B_pos) (by simp; omega) (by simp; omega) (by simp; omega)]
      simp only [Loop.mk.injEq, Nat.add_zero, Nat.mod_eq_of_lt hret]
      refine ⟨by omega, trivial, hmod.symm, by omega⟩
    · have hlt : s.r < D := by omega
      have hnc : loopCond dn D s.r = false := by
        rcases hb : loopCond dn D s.r with _ | _
        · rfl
        · exact absurd ((loopCond_iff dn D s.r hD hr).mp hb) hc
      rw [hnc]
      simp [Nat.div_eq_of_lt hlt, Nat.mod_eq_of_lt hlt]

/-- mpn_sub_n on the low k limbs of x and y gives x - y when that difference fits -/
theorem subN_mod (k x y : Nat) (hyx : y ≤ x) (hd : x - y < B ^ k) :
    (subN k (x % B ^ k) (y % B ^ k)).1 = x - y := by
  have hM : 0 < B ^ k := Nat.pow_pos B_pos
  obtain ⟨d, rfl⟩ : ∃ d, x = y + d := ⟨x - y, by omega⟩
  rw [Nat.add_sub_cancel_left] at hd ⊢
  have hx : (y + d) % B ^ k = (y % B ^ k + d) % B ^ k := by
    rw [Nat.add_mod, Nat.mod_eq_of_lt hd]
  have ha := Nat.mod_lt y hM
  rw [hx]
  generalize y % B ^ k = a at *
  unfold subN
  by_cases h : a + d < B ^ k
  · rw [Nat.mod_eq_of_lt h, if_neg (by omega)]; simp
  · rw [Nat.mod_eq_sub_mod (by omega), Nat.mod_eq_of_lt (by omega), if_pos (by omega)]
    show a + d - B ^ k + B ^ k - a = d
    omega

end Mpir.InvDiv
