/- Refinement proof for the size-aware model of mpz/combit.c (Mpir/Model/AllocSafeMpz3.lean): extension to
   `limb_index + 1` limbs, then the three arithmetic branches; the negative "clearing" branch reallocates to
   `dsize + 1` AFTER the extension has been written (a second block replacement) and stores the carry limb there. -/
import MpirProofs.Lemmas.AllocSafeBit
namespace Mpir.AllocSafe
open Mpir
open Mpir.Mpz (sgn natAbs_sgn)

/-- a prefix of what has been written has been written -/
theorem Wrote.take {s1 s2 : St} {w : Nat} {R : List Nat} (W : Wrote s1 s2 w R) (k : Nat) : Wrote s1 s2 w (R.take k) :=
  ⟨W.ok, W.bwf, by
    conv_rhs => rw [← W.lim]
    rw [List.take_take, List.length_take], W.alloc, W.gen, W.frame⟩

/-- combit.c:43-81 on the (extended) limbs `dp` -/
def combitZ (neg : Bool) (dp : List Nat) (li bit : Nat) : Bits.Z :=
  if !neg then ⟨false, normalize (dp.set li (dp.getD li 0 ^^^ bit))⟩
  else if Bits.twosLimb dp li &&& bit ≠ 0 then
    ⟨true, normalize (dp.take li ++ (Bits.addLimb (dp.drop li) bit).1 ++ [(Bits.addLimb (dp.drop li) bit).2])⟩
  else ⟨true, normalize (dp.take li ++ (Bits.subLimb (dp.drop li) bit).1)⟩

/-- the limbs after combit.c:34-41 -/
def combitPad (d : List Nat) (li : Nat) : List Nat :=
  if li ≥ d.length then d ++ List.replicate (li + 1 - d.length) 0 else d

theorem mpz_combit_eq (z : Bits.Z) (i : Nat) :
    Bits.mpz_combit z i = combitZ z.neg (combitPad z.mag (i / 64)) (i / 64) (2 ^ (i % 64)) := by
  unfold Bits.mpz_combit combitZ combitPad
  rw [show Bits.addLimb (List.drop (i / 64) (if i / 64 ≥ z.mag.length then z.mag ++ List.replicate (i / 64 + 1 - z.mag.length) 0 else z.mag)) (2 ^ (i % 64)) =
    ((Bits.addLimb (List.drop (i / 64) (if i / 64 ≥ z.mag.length then z.mag ++ List.replicate (i / 64 + 1 - z.mag.length) 0 else z.mag)) (2 ^ (i % 64))).1,
     (Bits.addLimb (List.drop (i / 64) (if i / 64 ≥ z.mag.length then z.mag ++ List.replicate (i / 64 + 1 - z.mag.length) 0 else z.mag)) (2 ^ (i % 64))).2) from rfl]

theorem combit_body_spec {sb sc : St} {d : Nat} {P : List Nat} (W : Wrote sb sc d P) (li bit : Nat)
    (hli : li < P.length) (hbit : bit < B) (hL : Limbs P) (neg : Bool) (hneg : (sc.h d).size ≥ 0 ↔ neg = false)
    (hsz : (sc.h d).size.natAbs ≤ (sb.h d).buf.alloc) (hfitP : P.length ≤ (sb.h d).buf.alloc)
    (h1a : 1 ≤ (sb.h d).buf.alloc) :
    Refines sb (combit_body 1 sc d li bit P.length) d
      (ofZ (if neg = true ∧ Bits.twosLimb P li &&& bit ≠ 0 then max (sb.h d).buf.alloc (P.length + 1) else (sb.h d).buf.alloc)
        (combitZ neg P li bit)) := by
  have hp : sc.PTR d = sb.PTR d := by simp [St.PTR, W.gen]
  unfold combit_body combitZ
  simp only [St.SIZ, hp]
  rw [W.load li hli]
  dsimp only
  cases neg
  · have hpos : (sc.h d).size ≥ 0 := hneg.mpr rfl
    simp only [hpos, if_true, Bool.false_eq_true, false_and, if_false, Bool.not_false]
    have W1 := (W.chk true rfl).store_set li (P.getD li 0 ^^^ bit) hli (xor_lt (Bits.getD_lt hL _) hbit)
    have hlen : (P.set li (P.getD li 0 ^^^ bit)).length = P.length := List.length_set
    have E := W1.norm_end false
    rw [hlen] at E
    simpa [sgn, ofZ] using E
  · have hpos : ¬ (sc.h d).size ≥ 0 := fun h => by have := hneg.mp h; cases this
    simp only [hpos, if_false, true_and, Bool.not_true, Bool.false_eq_true]
    obtain ⟨elow, oklow⟩ := (W.chk true rfl).rd li (by omega)
    simp only [elow, oklow]
    have htw : (if (P.take li).any (· != 0) = true then (Bits.negL (P.getD li 0) + B - 1) % B else Bits.negL (P.getD li 0))
        = Bits.twosLimb P li := rfl
    rw [htw]
    have W1 := (W.chk true rfl).chk true rfl
    by_cases hx : Bits.twosLimb P li &&& bit = 0
    · have hx' : (Bits.twosLimb P li &&& bit != 0) = false := by simp [hx]
      simp only [hx', Bool.false_eq_true, if_false, hx, ne_eq, not_true_eq_false]
      obtain ⟨e, ok⟩ := W1.rd_off li (P.length - li) (by omega)
      rw [List.take_of_length_le (by simp)] at e
      simp only [e, ok]
      have hsl := subLimb_len (P.drop li) bit
      have hsL := subLimb_limbs (P.drop li) bit (Limbs_drop hL _)
      have W2 := (W1.chk true rfl).wr_tail li (Bits.subLimb (P.drop li) bit).1 hsL (by rw [hsl]; simp; omega)
      have hMl : (P.take li ++ (Bits.subLimb (P.drop li) bit).1).length = P.length := by simp [hsl]; omega
      have E := W2.norm_end true
      rw [hMl] at E
      exact E
    · have hx' : (Bits.twosLimb P li &&& bit != 0) = true := by simp [hx]
      simp only [hx', if_true, hx, ne_eq, not_false_eq_true]
      have hsz1 : ((((sc.chk true).chk true).h d).size).natAbs ≤ (((sc.chk true).chk true).h d).buf.alloc := by
        simp only [chk_h, W.alloc]; exact hsz
      obtain ⟨W3, ha, _, hfr, _⟩ := W1.realloc (P.length + 1) hsz1 h1a
      generalize MPZ_REALLOC ((sc.chk true).chk true) d (P.length + 1) = s3 at *
      obtain ⟨e, ok⟩ := W3.rd_off li (P.length - li) (by omega)
      rw [List.take_of_length_le (by simp)] at e
      simp only [e, ok]
      have hne : P.drop li ≠ [] := by intro h; have := congrArg List.length h; simp at this; omega
      have hal := addLimb_len (P.drop li) bit
      have haL := addLimb_limbs (P.drop li) bit (Limbs_drop hL _)
      have hac := addLimb_cy (P.drop li) bit hne
      have W4 := (W3.chk true rfl).wr_tail li (Bits.addLimb (P.drop li) bit).1 haL (by rw [hal]; simp; omega)
      generalize (Bits.addLimb (P.drop li) bit).1 = r at *
      generalize (Bits.addLimb (P.drop li) bit).2 = c at *
      have hXl : (P.take li ++ r).length = P.length := by simp [hal]; omega
      have W5 := W4.append [c] (limb_singleton (by unfold B; omega)) (by rw [ha, hXl]; simp)
      rw [hXl] at W5
      refine Refines.rebase ?_ hfr
      rw [← ha]
      by_cases hc : c = 0
      · subst hc
        rw [Bits.normalize_snoc, if_pos rfl]
        have W6 := W5.take P.length
        rw [List.take_append_of_le_length (by omega), List.take_of_length_le (by omega)] at W6
        have E := W6.norm_end true
        rw [hXl] at E
        simpa [St.store, ofZ] using E
      · have hc1 : c = 1 := by omega
        subst hc1
        have hl2 : (P.take li ++ r ++ [1]).length = P.length + 1 := by simp [hal]; omega
        have E := W5.norm_end true
        rw [hl2] at E
        simpa [St.store, ofZ] using E

/-- value-level result of mpz_combit with the allocation the C leaves: `limb_index + 1` limbs when the bit lies above
    the number, and `dsize + 1` whenever the negative "clearing" branch is taken (whether or not the carry comes) -/
def Spec.combit (w : Mpz.Mpz) (i : Nat) : Mpz.Mpz :=
  let li := i / 64
  let dp := combitPad w.d li
  let a1 := if li ≥ w.size.natAbs then max w.alloc (li + 1) else w.alloc
  let a2 := if w.size < 0 ∧ Bits.twosLimb dp li &&& 2 ^ (i % 64) ≠ 0 then max a1 (dp.length + 1) else a1
  ofZ a2 (Bits.mpz_combit (zOf w) i)

theorem combit_refines (s : St) (d i : Nat) (hs : s.ok = true) (hd : OWF (s.h d)) :
    Refines s (combit 1 s d i) d (Spec.combit (view (s.h d)) i) := by
  have hD := view_d_length hd
  have LD := view_limbs hd
  have hfit := view_fit hd
  have h1a : 1 ≤ (s.h d).buf.alloc := hd.2.1
  have W0 : Wrote s s d (view (s.h d)).d := Wrote.refl s d _ hs hd.1 hfit
  have e1 : (view (s.h d)).size = (s.h d).size := rfl
  have e2 : (view (s.h d)).alloc = (s.h d).buf.alloc := rfl
  unfold Spec.combit
  rw [mpz_combit_eq]
  have hzof : zOf (view (s.h d)) = ⟨decide ((s.h d).size < 0), (view (s.h d)).d⟩ := rfl
  rw [hzof]
  dsimp only
  rw [e1, e2]
  generalize (view (s.h d)).d = D at *
  have hbit := bit_lt i
  have hnegiff : ∀ sc : St, (sc.h d).size = (s.h d).size →
      ((sc.h d).size ≥ 0 ↔ decide ((s.h d).size < 0) = false) := by
    intro sc h; rw [h]; simp
  unfold combit
  simp only [St.ABSIZ]
  by_cases hge : i / 64 ≥ (s.h d).size.natAbs
  · have hge' : i / 64 ≥ D.length := by omega
    simp only [hge, if_true]
    have hpad : combitPad D (i / 64) = D ++ List.replicate (i / 64 + 1 - D.length) 0 := by
      unfold combitPad; rw [if_pos hge']
    rw [hpad]
    obtain ⟨W3, ha, hsize3, hfr, _⟩ := W0.realloc (i / 64 + 1) hfit h1a
    generalize MPZ_REALLOC s d (i / 64 + 1) = s3 at *
    have W4 := W3.append (List.replicate (i / 64 + 1 - D.length) 0) (Limbs_rep0 _) (by rw [ha]; simp; omega)
    have hPl : (D ++ List.replicate (i / 64 + 1 - D.length) 0).length = i / 64 + 1 := by simp; omega
    have hsz4 : ((s3.wr ((s3.PTR d).add D.length) (List.replicate (i / 64 + 1 - D.length) 0)).h d).size = (s.h d).size := by
      simp only [wr_size]; exact hsize3
    have E := combit_body_spec W4 (i / 64) (2 ^ (i % 64)) (by rw [hPl]; omega) hbit
      (Limbs_append.mpr ⟨LD, Limbs_rep0 _⟩) (decide ((s.h d).size < 0)) (hnegiff _ hsz4)
      (by rw [hsz4, ha]; omega) (by rw [hPl, ha]; omega) (by rw [ha]; omega)
    rw [hPl, ha] at E
    rw [hPl, ← hD]
    have E' := E.rebase hfr
    simpa [MPN_ZERO] using E'
  · have hge' : ¬ i / 64 ≥ D.length := by omega
    simp only [hge, if_false]
    have hpad : combitPad D (i / 64) = D := by unfold combitPad; rw [if_neg hge']
    rw [hpad]
    have E := combit_body_spec W0 (i / 64) (2 ^ (i % 64)) (by omega) hbit LD (decide ((s.h d).size < 0)) (hnegiff _ rfl)
      hfit (by omega) h1a
    rw [← hD]
    simpa using E

theorem combit_need_le (w : Mpz.Mpz) (hw : Mpz.WF w) (i : Nat) :
    (Bits.mpz_combit (zOf w) i).mag.length ≤
      (if w.size < 0 ∧ Bits.twosLimb (combitPad w.d (i / 64)) (i / 64) &&& 2 ^ (i % 64) ≠ 0 then
        max (if i / 64 ≥ w.size.natAbs then max w.alloc (i / 64 + 1) else w.alloc) ((combitPad w.d (i / 64)).length + 1)
       else (if i / 64 ≥ w.size.natAbs then max w.alloc (i / 64 + 1) else w.alloc)) := by
  obtain ⟨_, hfit, hl, _, _⟩ := hw
  rw [mpz_combit_eq]
  have hzof : zOf w = ⟨decide (w.size < 0), w.d⟩ := rfl
  rw [hzof]
  dsimp only
  have hPl : (combitPad w.d (i / 64)).length ≤ (if i / 64 ≥ w.size.natAbs then max w.alloc (i / 64 + 1) else w.alloc) := by
    unfold combitPad
    by_cases h : i / 64 ≥ w.d.length
    · have h' : i / 64 ≥ w.size.natAbs := by omega
      rw [if_pos h, if_pos h']; simp; omega
    · have h' : ¬ i / 64 ≥ w.size.natAbs := by omega
      rw [if_neg h, if_neg h']; omega
  generalize combitPad w.d (i / 64) = P at *
  generalize (if i / 64 ≥ w.size.natAbs then max w.alloc (i / 64 + 1) else w.alloc) = a1 at *
  unfold combitZ
  by_cases hn : w.size < 0
  · simp only [hn, decide_true, Bool.not_true, Bool.false_eq_true, if_false, true_and]
    by_cases hx : Bits.twosLimb P (i / 64) &&& 2 ^ (i % 64) ≠ 0
    · simp only [hx, ne_eq, not_false_eq_true, if_true]
      refine Nat.le_trans (Mpz.normalize_length_le _) ?_
      simp [addLimb_len]; omega
    · simp only [hx, if_false]
      refine Nat.le_trans (Mpz.normalize_length_le _) ?_
      simp [subLimb_len]; omega
  · simp only [hn, decide_false, Bool.not_false, if_true, false_and, if_false]
    refine Nat.le_trans (Mpz.normalize_length_le _) ?_
    simp; omega

end Mpir.AllocSafe
