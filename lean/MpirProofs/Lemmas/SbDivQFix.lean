/-
  Lemmas for C02 part c02_sbq (mpn_sb_div_q): the fix-up code sb_div_q.c:203-298 computes the sign of N - Q'·D exactly.
  The remainder is kept as memory limbs (r1 / mem), the limb y above them and the counter x above y; every subtraction
  that borrows out of y (or out of the memory) decrements x, and a borrow with x = 0 means the remainder is negative.
-/
import MpirProofs.Lemmas.SbDivQExactLoop
namespace Mpir.SbDivQ
open Mpir Mpir.DivWord Mpir.SbDiv

/-- what the loop sb_div_q.c:238-253 subtracts in the iterations i < cnt (in units of the position of np - dn) -/
def triSum (q dp : List Nat) (k : Nat) : Nat → Nat
  | 0 => 0
  | i + 1 => q.getD i 0 * (B ^ i * val (dp.take (k - i))) + triSum q dp k i

theorem getD_mul_le_val : ∀ (l : List Nat) (i : Nat), B ^ i * l.getD i 0 ≤ val l
  | [], i => by simp
  | x :: xs, 0 => by simp
  | x :: xs, i + 1 => by
    have ih := getD_mul_le_val xs i
    rw [List.getD_cons_succ, val_cons, pow_succ]
    nlinarith [Nat.zero_le x]

/-- one iteration of the triangularization loop, value level -/
theorem tri_step (r1 u : List Nat) (i k v y : Nat) (hr1 : Limbs r1) (hu : Limbs u) (hr1l : r1.length = k) (hi : i ≤ k)
    (hul : u.length = k - i) (hv : v < B) :
    let rc := submul_1 (r1.drop i) u v
    let r1' := r1.take i ++ rc.1
    Limbs r1' ∧ r1'.length = k ∧ rc.2 < B ∧
    val r1' + B ^ i * (val u * v) = val r1 + B ^ k * rc.2 ∧
    (y < rc.2 → val r1 + B ^ k * y < v * (B ^ i * val u)) := by
  have hB := B_pos
  have hdl : (r1.drop i).length = u.length := by rw [List.length_drop, hr1l, hul]
  obtain ⟨h1, hc, hrl, hrn⟩ := submul1C_val v hv (r1.drop i) u 0 (Limbs_drop hr1 _) hu hdl hB
  change val (submul_1 _ _ _).1 + _ + 0 = _ + _ * (submul_1 _ _ _).2 at h1
  change (submul_1 _ _ _).2 < B at hc
  change Limbs (submul_1 _ _ _).1 at hrl
  change (submul_1 _ _ _).1.length = _ at hrn
  generalize submul_1 (r1.drop i) u v = rc at *
  obtain ⟨seg, cy⟩ := rc
  simp only at h1 hc hrl hrn ⊢
  have htl : (r1.take i).length = i := by rw [List.length_take, hr1l]; omega
  have hsplit := val_take_drop r1 i (by omega)
  have hpow : B ^ k = B ^ i * B ^ (k - i) := by rw [← pow_add]; congr 1; omega
  have hseg := val_lt seg hrl
  rw [hrn, hul] at hseg
  rw [hul] at h1
  have hvt := val_lt (r1.take i) (Limbs_take hr1 _)
  rw [htl] at hvt
  have key : val (r1.take i ++ seg) + B ^ i * (val u * v) = val r1 + B ^ k * cy := by
    rw [val_append, htl, hsplit, hpow]
    have : B ^ i * (val seg + val u * v + 0) = B ^ i * (val (r1.drop i) + B ^ (k - i) * cy) := by rw [h1]
    linarith
  refine ⟨Limbs_append.mpr ⟨Limbs_take hr1 _, hrl⟩, by rw [List.length_append, htl, hrn, hul]; omega, hc, key, ?_⟩
  intro hlt
  have h2 : val (r1.take i ++ seg) < B ^ k := by
    rw [val_append, htl, hpow]
    have : B ^ i * (val seg + 1) ≤ B ^ i * B ^ (k - i) := Nat.mul_le_mul_left _ hseg
    nlinarith
  have h3 : B ^ k * (y + 1) ≤ B ^ k * cy := Nat.mul_le_mul_left _ hlt
  have e : v * (B ^ i * val u) = B ^ i * (val u * v) := by ring
  rw [e]
  nlinarith

theorem dqTri_succ (q dp : List Nat) (dn qh i : Nat) (r1 : List Nat) (x y : Nat) :
    dqTri q dp dn qh (i + 1) r1 x y =
      if y < (submul_1 (r1.drop i) (dp.take (dn - i - 2)) (q.getD i 0)).2 then
        if x = 0 then .inl (dqExit1 q qh)
        else dqTri q dp dn qh i (r1.take i ++ (submul_1 (r1.drop i) (dp.take (dn - i - 2)) (q.getD i 0)).1) (x - 1)
          ((y + B - (submul_1 (r1.drop i) (dp.take (dn - i - 2)) (q.getD i 0)).2) % B)
      else dqTri q dp dn qh i (r1.take i ++ (submul_1 (r1.drop i) (dp.take (dn - i - 2)) (q.getD i 0)).1) x
        (y - (submul_1 (r1.drop i) (dp.take (dn - i - 2)) (q.getD i 0)).2) := rfl

/-- one iteration of the triangularization loop: early exit (remainder negative, some quotient limb non-zero) or the
    state of the next iteration with A_i subtracted -/
theorem tri_iter (q dp : List Nat) (k qh : Nat) (hq : Limbs q) (hdp : Limbs dp) (hdpl : dp.length = k + 2)
    (i : Nat) (r1 : List Nat) (x y : Nat) (hi : i + 1 ≤ k) (hr1 : Limbs r1) (hr1l : r1.length = k) (hy : y < B) :
    (dqTri q dp (k + 2) qh (i + 1) r1 x y = .inl (dqExit1 q qh) ∧
      val r1 + B ^ k * y + B ^ (k + 1) * x < q.getD i 0 * (B ^ i * val (dp.take (k - i))) ∧ 0 < val q) ∨
    (∃ r1' x' y', dqTri q dp (k + 2) qh (i + 1) r1 x y = dqTri q dp (k + 2) qh i r1' x' y' ∧
      Limbs r1' ∧ r1'.length = k ∧ y' < B ∧
      val r1' + B ^ k * y' + B ^ (k + 1) * x' + q.getD i 0 * (B ^ i * val (dp.take (k - i)))
        = val r1 + B ^ k * y + B ^ (k + 1) * x) := by
  have hB := B_pos
  have hv : q.getD i 0 < B := limb_getD hq i
  have hu : Limbs (dp.take (k - i)) := Limbs_take hdp _
  have hul : (dp.take (k - i)).length = k - i := by rw [List.length_take, hdpl]; omega
  obtain ⟨t1, t2, t3, t4, t5⟩ := tri_step r1 (dp.take (k - i)) i k (q.getD i 0) y hr1 hu hr1l (by omega) hul hv
  rw [dqTri_succ, show k + 2 - i - 2 = k - i by omega]
  generalize submul_1 (r1.drop i) (dp.take (k - i)) (q.getD i 0) = rc at *
  obtain ⟨seg, cy⟩ := rc
  simp only at t1 t2 t3 t4 t5 ⊢
  have hpk : B ^ (k + 1) = B ^ k * B := pow_succ _ _
  have eA' : B ^ i * (val (dp.take (k - i)) * q.getD i 0) = q.getD i 0 * (B ^ i * val (dp.take (k - i))) := by ring
  rw [eA'] at t4
  have hle := getD_mul_le_val q i
  by_cases hlt : y < cy
  · rw [if_pos hlt]
    by_cases hx : x = 0
    · rw [if_pos hx]
      subst hx
      left
      have h5 := t5 hlt
      refine ⟨rfl, by rw [Nat.mul_zero, Nat.add_zero]; exact h5, ?_⟩
      rcases Nat.eq_zero_or_pos (q.getD i 0) with h0 | h0
      · rw [h0] at h5; simp at h5
      · have : 0 < B ^ i * q.getD i 0 := Nat.mul_pos (by positivity) h0
        omega
    · rw [if_neg hx]
      right
      have hy' : (y + B - cy) % B = y + B - cy := Nat.mod_eq_of_lt (by omega)
      rw [hy']
      refine ⟨_, _, _, rfl, t1, t2, by omega, ?_⟩
      obtain ⟨x', rfl⟩ : ∃ x', x = x' + 1 := ⟨x - 1, by omega⟩
      obtain ⟨e, he⟩ : ∃ e, cy = y + 1 + e := ⟨cy - y - 1, by omega⟩
      subst he
      rw [Nat.add_sub_cancel, show y + B - (y + 1 + e) = B - 1 - e by omega, hpk]
      have hb : B - 1 - e + 1 + e = B := by omega
      generalize B - 1 - e = z at *
      generalize q.getD i 0 * (B ^ i * val (dp.take (k - i))) = Ai at *
      have hb' : B ^ k * B = B ^ k * (z + 1 + e) := by rw [hb]
      nlinarith
  · rw [if_neg hlt]
    right
    refine ⟨_, _, _, rfl, t1, t2, by omega, ?_⟩
    obtain ⟨e, he⟩ : ∃ e, y = cy + e := ⟨y - cy, by omega⟩
    subst he
    rw [Nat.add_sub_cancel_left]
    generalize q.getD i 0 * (B ^ i * val (dp.take (k - i))) = Ai at *
    nlinarith

/-- the triangularization loop sb_div_q.c:238-253: either it runs through and has subtracted `triSum`, or it leaves
    early and the remainder is smaller than what was to be subtracted -/
theorem dqTri_spec (q dp : List Nat) (k qh : Nat) (hq : Limbs q) (hdp : Limbs dp) (hdpl : dp.length = k + 2)
    (cnt : Nat) : ∀ (r1 : List Nat) (x y : Nat), cnt ≤ k → Limbs r1 → r1.length = k → y < B →
      (∀ r1' x' y', dqTri q dp (k + 2) qh cnt r1 x y = .inr (r1', x', y') →
        Limbs r1' ∧ r1'.length = k ∧ y' < B ∧
        val r1' + B ^ k * y' + B ^ (k + 1) * x' + triSum q dp k cnt = val r1 + B ^ k * y + B ^ (k + 1) * x) ∧
      (∀ res, dqTri q dp (k + 2) qh cnt r1 x y = .inl res →
        res = dqExit1 q qh ∧ val r1 + B ^ k * y + B ^ (k + 1) * x < triSum q dp k cnt ∧ 0 < val q) := by
  induction cnt with
  | zero =>
    intro r1 x y _ hr1 hr1l hy
    constructor
    · intro r1' x' y' h
      have h' : (Sum.inr (r1, x, y) : Sum DqRes (List Nat × Nat × Nat)) = Sum.inr (r1', x', y') := h
      injection h' with h''
      injection h'' with e1 e23
      injection e23 with e2 e3
      subst e1 e2 e3
      exact ⟨hr1, hr1l, hy, by simp [triSum]⟩
    · intro res h
      have h' : (Sum.inr (r1, x, y) : Sum DqRes (List Nat × Nat × Nat)) = Sum.inl res := h
      cases h'
  | succ i ih =>
    intro r1 x y hcnt hr1 hr1l hy
    have eA : triSum q dp k (i + 1) = q.getD i 0 * (B ^ i * val (dp.take (k - i))) + triSum q dp k i := rfl
    rcases tri_iter q dp k qh hq hdp hdpl i r1 x y hcnt hr1 hr1l hy with ⟨e, hlt, hpos⟩ | ⟨r1n, xn, yn, e, hl, hn, hyn, hval⟩
    · rw [e]
      constructor
      · intro r1' x' y' h; cases h
      · intro res h
        injection h with h'
        exact ⟨h'.symm, by rw [eA]; omega, hpos⟩
    · rw [e]
      obtain ⟨ih1, ih2⟩ := ih r1n xn yn (by omega) hl hn hyn
      constructor
      · intro r1' x' y' h
        obtain ⟨a1, a2, a3, a4⟩ := ih1 r1' x' y' h
        exact ⟨a1, a2, a3, by rw [eA]; omega⟩
      · intro res h
        obtain ⟨a1, a2, a3⟩ := ih2 res h
        exact ⟨a1, by rw [eA]; omega, a3⟩

/-! ### "Compensate for ignored dividend and divisor tails" (sb_div_q.c:258-297) -/

theorem sub_1_val (l : List Nat) (v : Nat) (hl : Limbs l) (hne : 0 < l.length) (hv : v < B) :
    val (sub_1 l v).1 + v = val l + B ^ l.length * (sub_1 l v).2 ∧ (sub_1 l v).2 ≤ 1 ∧
    Limbs (sub_1 l v).1 ∧ (sub_1 l v).1.length = l.length := by
  match l, hl, hne with
  | x :: xs, hl, _ => exact sub_1_val' x xs v hl hv

/-- what the loop sb_div_q.c:283-296 subtracts in the iterations i < cnt -/
def tailSum (q dp0 : List Nat) : Nat → Nat
  | 0 => 0
  | i + 1 => val q * (B ^ i * dp0.getD i 0) + tailSum q dp0 i

theorem tailSum_eq (q dp0 : List Nat) : ∀ s, s ≤ dp0.length → tailSum q dp0 s = val q * val (dp0.take s)
  | 0, _ => by simp [tailSum]
  | s + 1, h => by
    have ih := tailSum_eq q dp0 s (by omega)
    have hv := val_take_top (dp0.take (s + 1)) s (by rw [List.length_take]; omega)
    have e1 : (dp0.take (s + 1)).take s = dp0.take s := by rw [List.take_take]; congr 1; omega
    have e2 : (dp0.take (s + 1)).getD s 0 = dp0.getD s 0 := by
      simp [List.getD_eq_getElem?_getD]
    rw [e1, e2] at hv
    rw [tailSum, ih, ← hv]; ring

theorem dqTail_succ (q dp0 : List Nat) (qh i : Nat) (mem : List Nat) (x : Nat) :
    dqTail q dp0 qh (i + 1) mem x =
      if (sub_1 (mem.drop (q.length + i)) (submul_1 ((mem.drop i).take q.length) q (dp0.getD i 0)).2).2 ≠ 0 then
        if x = 0 then ((sub_1 q 1).1, qh)
        else dqTail q dp0 qh i
          (mem.take i ++ (submul_1 ((mem.drop i).take q.length) q (dp0.getD i 0)).1 ++
            (sub_1 (mem.drop (q.length + i)) (submul_1 ((mem.drop i).take q.length) q (dp0.getD i 0)).2).1) (x - 1)
      else dqTail q dp0 qh i
          (mem.take i ++ (submul_1 ((mem.drop i).take q.length) q (dp0.getD i 0)).1 ++
            (sub_1 (mem.drop (q.length + i)) (submul_1 ((mem.drop i).take q.length) q (dp0.getD i 0)).2).1) x := rfl

/-- one iteration of the tail loop, value level: mem' + q·d_i·B^i = mem + B^len·borrow -/
theorem tail_step (q mem : List Nat) (i v : Nat) (hq : Limbs q) (hm : Limbs mem) (hi : i + q.length < mem.length)
    (hv : v < B) :
    let rc := submul_1 ((mem.drop i).take q.length) q v
    let sb := sub_1 (mem.drop (q.length + i)) rc.2
    let mem' := mem.take i ++ rc.1 ++ sb.1
    Limbs mem' ∧ mem'.length = mem.length ∧ sb.2 ≤ 1 ∧
    val mem' + val q * (B ^ i * v) = val mem + B ^ mem.length * sb.2 := by
  have hB := B_pos
  have hs1 : Limbs ((mem.drop i).take q.length) := Limbs_take (Limbs_drop hm _) _
  have hs1l : ((mem.drop i).take q.length).length = q.length := by
    rw [List.length_take, List.length_drop]; omega
  obtain ⟨h1, hc, hrl, hrn⟩ := submul1C_val v hv ((mem.drop i).take q.length) q 0 hs1 hq hs1l hB
  change val (submul_1 _ _ _).1 + _ + 0 = _ + _ * (submul_1 _ _ _).2 at h1
  change (submul_1 _ _ _).2 < B at hc
  change Limbs (submul_1 _ _ _).1 at hrl
  change (submul_1 _ _ _).1.length = _ at hrn
  generalize submul_1 ((mem.drop i).take q.length) q v = rc at *
  obtain ⟨seg, cy⟩ := rc
  simp only at h1 hc hrl hrn ⊢
  have hrest : Limbs (mem.drop (q.length + i)) := Limbs_drop hm _
  have hrestl : (mem.drop (q.length + i)).length = mem.length - (q.length + i) := List.length_drop
  obtain ⟨s1, s2, s3, s4⟩ := sub_1_val (mem.drop (q.length + i)) cy hrest (by rw [hrestl]; omega) hc
  generalize sub_1 (mem.drop (q.length + i)) cy = sb at *
  obtain ⟨rs, b⟩ := sb
  simp only at s1 s2 s3 s4 ⊢
  have htl : (mem.take i).length = i := by rw [List.length_take]; omega
  -- value of mem in three pieces
  have hv1 := val_take_drop mem i (by omega)
  have hv2 := val_take_drop (mem.drop i) q.length (by rw [List.length_drop]; omega)
  have hdd : (mem.drop i).drop q.length = mem.drop (q.length + i) := by rw [List.drop_drop, Nat.add_comm]
  rw [hdd] at hv2
  have hpow : B ^ mem.length = B ^ i * (B ^ q.length * B ^ (mem.length - (q.length + i))) := by
    rw [← pow_add, ← pow_add]; congr 1; omega
  refine ⟨Limbs_append.mpr ⟨Limbs_append.mpr ⟨Limbs_take hm _, hrl⟩, s3⟩, ?_, s2, ?_⟩
  · rw [List.length_append, List.length_append, htl, hrn, s4, hrestl]; omega
  · rw [val_append, val_append, List.length_append, htl, hrn, hv1, hv2, hpow, hrestl] at *
    rw [pow_add]
    have e1 : B ^ i * (val seg + val q * v + 0) = B ^ i * (val ((mem.drop i).take q.length) + B ^ q.length * cy) := by
      rw [h1]
    have e2 : B ^ i * B ^ q.length * (val rs + cy)
        = B ^ i * B ^ q.length * (val (mem.drop (q.length + i)) + B ^ (mem.length - (q.length + i)) * b) := by rw [s1]
    nlinarith

/-- the tail loop sb_div_q.c:283-296 decides the sign: it returns the quotient unchanged iff the remainder is at least
    what it subtracts, and the decremented quotient otherwise -/
theorem dqTail_spec (q dp0 : List Nat) (qh M : Nat) (hq : Limbs q) (hdp0 : Limbs dp0) (cnt : Nat) :
    ∀ (mem : List Nat) (x : Nat), cnt + q.length ≤ M → Limbs mem → mem.length = M →
      (tailSum q dp0 cnt ≤ val mem + B ^ M * x → dqTail q dp0 qh cnt mem x = (q, qh)) ∧
      (val mem + B ^ M * x < tailSum q dp0 cnt → dqTail q dp0 qh cnt mem x = ((sub_1 q 1).1, qh) ∧ 0 < val q) := by
  induction cnt with
  | zero =>
    intro mem x _ _ _
    exact ⟨fun _ => rfl, fun h => by simp [tailSum] at h⟩
  | succ i ih =>
    intro mem x hc hm hml
    have hv : dp0.getD i 0 < B := limb_getD hdp0 i
    obtain ⟨t1, t2, t3, t4⟩ := tail_step q mem i (dp0.getD i 0) hq hm (by omega) hv
    rw [dqTail_succ]
    generalize submul_1 ((mem.drop i).take q.length) q (dp0.getD i 0) = rc at *
    generalize sub_1 (mem.drop (q.length + i)) rc.2 = sb at *
    have eA : tailSum q dp0 (i + 1) = val q * (B ^ i * dp0.getD i 0) + tailSum q dp0 i := rfl
    rw [eA]
    rw [hml] at t2 t4
    have hm' := val_lt _ t1
    rw [t2] at hm'
    have hAi0 : val q = 0 → val q * (B ^ i * dp0.getD i 0) = 0 := by intro h; rw [h, Nat.zero_mul]
    generalize val q * (B ^ i * dp0.getD i 0) = Ai at *
    generalize mem.take i ++ rc.1 ++ sb.1 = mem' at *
    by_cases hb : sb.2 ≠ 0
    · rw [if_pos hb]
      have hb1 : sb.2 = 1 := by omega
      rw [hb1, Nat.mul_one] at t4
      by_cases hx : x = 0
      · rw [if_pos hx]
        subst hx
        rw [Nat.mul_zero, Nat.add_zero]
        constructor
        · intro h; omega
        · intro _
          refine ⟨rfl, ?_⟩
          rcases Nat.eq_zero_or_pos (val q) with h0 | h0
          · exfalso
            have := hAi0 h0
            omega
          · exact h0
      · rw [if_neg hx]
        obtain ⟨x', rfl⟩ : ∃ x', x = x' + 1 := ⟨x - 1, by omega⟩
        rw [Nat.add_sub_cancel]
        obtain ⟨ih1, ih2⟩ := ih mem' x' (by omega) t1 t2
        have e : B ^ M * (x' + 1) = B ^ M * x' + B ^ M := by ring
        rw [e]
        constructor
        · intro h; exact ih1 (by omega)
        · intro h; exact ih2 (by omega)
    · rw [if_neg hb]
      have hb0 : sb.2 = 0 := by omega
      rw [hb0, Nat.mul_zero, Nat.add_zero] at t4
      obtain ⟨ih1, ih2⟩ := ih mem' x (by omega) t1 t2
      constructor
      · intro h; exact ih1 (by omega)
      · intro h; exact ih2 (by omega)

theorem decr_quot (q : List Nat) (hq : Limbs q) (hql : 0 < q.length) :
    Limbs (sub_1 q 1).1 ∧ (sub_1 q 1).1.length = q.length ∧ (sub_1 q 1).2 ≤ 1 ∧
    val (sub_1 q 1).1 + 1 = val q + B ^ q.length * (sub_1 q 1).2 ∧ (0 < val q → (sub_1 q 1).2 = 0) := by
  obtain ⟨s1, s2, s3, s4⟩ := sub_1_val q 1 hq hql (by simp only [B_eq]; omega)
  refine ⟨s3, s4, s2, s1, ?_⟩
  intro hpos
  have hlt := val_lt _ s3
  rw [s4] at hlt
  rcases Nat.eq_zero_or_pos (sub_1 q 1).2 with h | h
  · exact h
  · exfalso
    have : (sub_1 q 1).2 = 1 := by omega
    rw [this, Nat.mul_one] at s1
    omega

theorem dqExit1_ok (q : List Nat) (qh : Nat) (hq : Limbs q) (hql : 0 < q.length) (hpos : 0 < val q) :
    dqExit1 q qh = some ((sub_1 q 1).1, qh) ∧ val (sub_1 q 1).1 + 1 = val q := by
  obtain ⟨_, _, _, h4, h5⟩ := decr_quot q hq hql
  have h0 := h5 hpos
  unfold dqExit1
  simp only [h0, ne_eq, not_true_eq_false, if_false]
  rw [h0, Nat.mul_zero, Nat.add_zero] at h4
  exact ⟨trivial, h4⟩

end Mpir.SbDivQ
