/- mpz_tdiv_r_2exp on the pointer-level model: in place (res = in) only the masked high limb is stored; otherwise the
   low limbs are copied after the reallocation of res through the re-read `in->_mp_d`. -/
import MpirProofs.Lemmas.AliasGcd
namespace Mpir.AliasMem
open Mpir
open Mpir.DivZ (sizeNat siz sameSign)

theorem limbAt_var {s : St} (h : Inv s) {i : Nat} (hi : i < s.nv) (k : Nat) (hk : k < (s.size i).natAbs) :
    limbAt s (s.ptr i) k = .ok (s.mag i / B ^ k % B) := by
  obtain ⟨l, hl, hlen, hL⟩ := h.live i hi
  have hf := h.fits i hi
  rw [limbAt_of_blk hl (by omega)]
  congr 1
  have hU := MulLoops.eq_toLimbs (s.limbs i) (h.limbs_spec hi).2
  rw [(h.limbs_spec hi).1] at hU
  have : l.getD k 0 = (s.limbs i).getD k 0 := by
    unfold St.limbs; rw [hl]; simp only [Option.getD_some]
    rw [List.getD_eq_getElem?_getD, List.getD_eq_getElem?_getD, List.getElem?_take_of_lt hk]
  rw [this, hU, toLimbs_getD _ _ _ hk]; rfl

theorem val_limbs_take {s : St} (h : Inv s) {i : Nat} (hi : i < s.nv) (k : Nat) (hk : k ≤ (s.size i).natAbs) :
    val ((s.limbs i).take k) = s.mag i % B ^ k :=
  val_take_eq_mod (h.limbs_spec hi).2 k (by rw [(h.limbs_spec hi).1]; exact hk)

/-- `MPN_COPY (PTR (r), PTR (u), k); SIZ (r) = ±k` for r ≠ u, when the k low limbs of u are normalised -/
theorem copy_low_ok {s : St} (h : Inv s) {r u : Nat} (hr : r < s.nv) (hu : u < s.nv) (hru : r ≠ u) (k : Nat)
    (hk : k ≤ (s.size u).natAbs) (hka : k ≤ s.alloc r) (hnorm : sizeNat (s.mag u % B ^ k) = k) (neg : Bool) :
    ∃ X, s.loadAt (s.ptr u) 0 k = .ok ((s.limbs u).take k) ∧ s.storeAt (s.ptr r) 0 ((s.limbs u).take k) = .ok X ∧
      (∀ i, X.size i = s.size i) ∧ (∀ i, X.ptr i = s.ptr i) ∧
      Res s (X.setSize r (if neg then -(k : Int) else (k : Int))) r
        (if neg then -((s.mag u % B ^ k : Nat) : Int) else ((s.mag u % B ^ k : Nat) : Int)) := by
  obtain ⟨b, hb, hbl, hbL⟩ := h.live r hr
  have hlen : ((s.limbs u).take k).length = k := by simp [(h.limbs_spec hu).1]; omega
  have hv := val_limbs_take h hu k hk
  have p := put_list h hr hb ((s.limbs u).take k) (by rw [hlen]; omega) (Limbs_take (h.limbs_spec hu).2 _)
    (by rw [hv, hlen]; exact hnorm) neg
  rw [hlen, hv] at p
  exact ⟨_, loadAt_var_low h hu k hk, storeAt_ok hb (by rw [hlen]; omega), fun _ => rfl, fun _ => rfl, p.1, p.2.1.nv, p.2.2,
    fun i hi hir => p.2.1.value_o h hr hi hir⟩

/-- `SIZ (u) = ±k` in place, when the k low limbs of u are normalised -/
theorem shrink_ok {s : St} (h : Inv s) {u : Nat} (hu : u < s.nv) (k : Nat)
    (hk : k ≤ (s.size u).natAbs) (hnorm : sizeNat (s.mag u % B ^ k) = k) (neg : Bool) :
    Res s (s.setSize u (if neg then -(k : Int) else (k : Int))) u
      (if neg then -((s.mag u % B ^ k : Nat) : Int) else ((s.mag u % B ^ k : Nat) : Int)) := by
  obtain ⟨b, hb, hbl, hbL⟩ := h.live u hu
  have hf := h.fits u hu
  rw [setSize_eq_put s hb]
  have hv : val (b.take k) = s.mag u % B ^ k := by
    rw [← val_limbs_take h hu k hk]; unfold St.limbs; rw [hb]; simp only [Option.getD_some]
    rw [List.take_take, Nat.min_eq_left hk]
  have p := put_upd h hu b (s.mag u % B ^ k) neg hbl hbL (by rw [hnorm]; omega) (by rw [hnorm]; exact hv)
  rw [hnorm] at p
  exact ⟨p.1, p.2.1.nv, p.2.2, fun i hi hir => p.2.1.value_o h hu hi hir⟩

theorem tdiv_r_2exp_ok {s : St} (h : Inv s) {r u : Nat} (hr : r < s.nv) (hu : u < s.nv) (cnt : Nat) :
    ∃ s', tdiv_r_2exp r u cnt s = .ok s' ∧ Res s s' r (DivZ.tdivR (s.value u) ((2 ^ cnt : Nat) : Int)) := by
  unfold tdiv_r_2exp
  simp only [bind, Except.bind, pure, Except.pure]
  set n := (s.size u).natAbs with hn
  set lc := cnt / 64 with hlc
  set c := cnt % 64 with hc
  set N := s.mag u with hN
  have hspec : DivZ.tdivR (s.value u) ((2 ^ cnt : Nat) : Int) =
      if s.size u ≥ 0 then ((N % 2 ^ cnt : Nat) : Int) else -((N % 2 ^ cnt : Nat) : Int) := by
    unfold DivZ.tdivR
    rw [DivZ.tmod_natCast, value_natAbs]
    have := h.size_neg_iff hu
    by_cases h0 : 0 ≤ s.value u
    · rw [if_pos h0, if_pos (by omega)]
    · rw [if_neg h0, if_neg (by omega)]
  rw [hspec]
  have hsplit := DivZ.mod_split N cnt
  rw [← hlc, ← hc] at hsplit
  have hszform : ∀ k : Nat, (if s.size u ≥ 0 then (k : Int) else -(k : Int)) =
      (if decide (s.size u < 0) = true then -(k : Int) else (k : Int)) := fun k => by
    by_cases h0 : s.size u < 0
    · rw [if_neg (by omega), if_pos (by simpa using h0)]
    · rw [if_pos (by omega), if_neg (by simpa using h0)]
  have hnegform : ∀ (X : St) (k : Nat), X.size u = s.size u →
      (if X.size u ≥ 0 then (k : Int) else -(k : Int)) = (if decide (s.size u < 0) = true then -(k : Int) else (k : Int)) :=
    fun X k e => by rw [e]; exact hszform k
  have hNlt : N < B ^ n := h.mag_lt hu
  have h2cnt : B ^ lc ≤ 2 ^ cnt := by
    rw [← DivZ.pow_split cnt, ← hlc]; exact Nat.le_mul_of_pos_right _ (Nat.pow_pos (by decide))
  -- a copy / shrink to the k low limbs, k normalised, with the value N % 2^cnt
  have hlow : ∀ (k : Nat), k ≤ n → sizeNat (N % B ^ k) = k → N % B ^ k = N % 2 ^ cnt →
      ∃ s', tdivR2expTail r u k k (s.mpzRealloc r k) = Except.ok s' ∧
        Res s s' r (if s.size u ≥ 0 then ((N % 2 ^ cnt : Nat) : Int) else -((N % 2 ^ cnt : Nat) : Int)) := by
    intro k hkn hnorm hval
    obtain ⟨i1, nv1, size1, val1, a1, _⟩ := realloc_spec h hr k
    set s1 := s.mpzRealloc r k with hs1
    have hr1 : r < s1.nv := by rw [nv1]; exact hr
    have hu1 : u < s1.nv := by rw [nv1]; exact hu
    have hmag : s1.mag u = N := by
      show s1.mag u = s.mag u
      rw [← value_natAbs, ← value_natAbs, val1 u hu]
    unfold tdivR2expTail
    simp only [bind, Except.bind, pure, Except.pure]
    rw [hszform, ← hval]
    by_cases hru : r = u
    · subst hru
      simp only [ne_eq, not_true_eq_false, if_false]
      rw [hnegform s1 k (size1 r)]
      have p := shrink_ok i1 hr1 k (by rw [size1]; exact hkn) (by rw [hmag]; exact hnorm) (decide (s.size r < 0))
      rw [hmag] at p
      exact ⟨_, rfl, p.1, p.2.1.trans nv1, p.2.2.1, fun i hi hir => (p.2.2.2 i (by rw [nv1]; exact hi) hir).trans (val1 i hi)⟩
    · rw [if_pos hru]
      obtain ⟨X, e1, e2, hXs, _, p⟩ := copy_low_ok i1 hr1 hu1 hru k (by rw [size1]; exact hkn) a1
        (by rw [hmag]; exact hnorm) (decide (s.size u < 0))
      rw [e1]; simp only []
      rw [e2]; simp only []
      rw [hnegform X k ((hXs u).trans (size1 u))]
      rw [hmag] at p
      exact ⟨_, rfl, p.1, p.2.1.trans nv1, p.2.2.1, fun i hi hir => (p.2.2.2 i (by rw [nv1]; exact hi) hir).trans (val1 i hi)⟩
  by_cases hgt : n > lc
  · rw [if_pos hgt, limbAt_var h hu lc hgt]; simp only []
    rw [DivZ.limb_mod]
    set x := N / B ^ lc % 2 ^ c with hx
    by_cases hx0 : x ≠ 0
    · rw [if_pos hx0]
      obtain ⟨i1, nv1, size1, val1, a1, _⟩ := realloc_spec h hr (lc + 1)
      set s1 := s.mpzRealloc r (lc + 1) with hs1
      have hr1 : r < s1.nv := by rw [nv1]; exact hr
      have hu1 : u < s1.nv := by rw [nv1]; exact hu
      obtain ⟨br, hbr, hbrl, hbrL⟩ := i1.live r hr1
      have hmagu : s1.mag u = N := by
        show s1.mag u = s.mag u
        rw [← value_natAbs, ← value_natAbs, val1 u hu]
      have hfitr : lc + 1 ≤ br.length := by omega
      rw [storeAt_ok hbr (by simp; omega)]; simp only []
      unfold tdivR2expTail
      simp only [bind, Except.bind, pure, Except.pure]
      have hc64 : c < 64 := Nat.mod_lt _ (by decide)
      have hxB : x < B := by
        have h1 : x < 2 ^ c := Nat.mod_lt _ (Nat.pow_pos (by decide))
        have h2 : 2 ^ c < B := by
          show 2 ^ c < 2 ^ 64
          exact Nat.pow_lt_pow_right (by decide) hc64
        omega
      set M := N % B ^ lc + B ^ lc * x with hM
      have hMval : M = N % 2 ^ cnt := hsplit.symm
      have hlow' : N % B ^ lc < B ^ lc := Nat.mod_lt _ (DivZ.Bpow_pos _)
      have hMsz : sizeNat M = lc + 1 := by
        apply sizeNat_eq
        · simp only [Nat.add_sub_cancel]
          calc B ^ lc = B ^ lc * 1 := (Nat.mul_one _).symm
            _ ≤ B ^ lc * x := Nat.mul_le_mul_left _ (Nat.one_le_iff_ne_zero.mpr hx0)
            _ ≤ M := Nat.le_add_left _ _
        · rw [pow_succ]
          calc M < B ^ lc + B ^ lc * x := by omega
            _ = B ^ lc * (x + 1) := by ring
            _ ≤ B ^ lc * B := Nat.mul_le_mul_left _ (by omega)
        · omega
      -- the lc low limbs of a variable, read from its block
      have hlowval : ∀ (v : Nat) (bv : List Nat), v < s1.nv → s1.blk (s1.ptr v) = some bv → lc ≤ (s1.size v).natAbs →
          val (bv.take lc) = s1.mag v % B ^ lc := fun v bv hv hbv hle => by
        rw [← val_limbs_take i1 hv lc hle]; unfold St.limbs; rw [hbv]; simp only [Option.getD_some]
        rw [List.take_take, Nat.min_eq_left hle]
      by_cases hru : r = u
      · subst hru
        simp only [ne_eq, not_true_eq_false, if_false]
        have hXs : (s1.setBlk (s1.ptr r) (some (wrAt br lc [x]))).size r = s.size r := size1 r
        rw [hnegform _ _ hXs, ← hMsz]
        have htk : (wrAt br lc [x]).take (sizeNat M) = br.take lc ++ [x] := by
          rw [hMsz]; unfold wrAt
          exact List.take_left' (by simp; omega)
        have p := put_upd i1 hr1 (wrAt br lc [x]) M (decide (s.size r < 0))
          (by rw [wrAt_length (by simp; omega)]; exact hbrl)
          (Limbs_wrAt hbrL (by intro y hy; simp at hy; rw [hy]; exact hxB)) (by rw [hMsz]; omega)
          (by have hlt : (br.take lc).length = lc := by simp; omega
              rw [htk, val_append, hlt]; simp only [val_cons, val_nil, Nat.mul_zero, Nat.add_zero]
              rw [hlowval r br hr1 hbr (by rw [size1]; omega), hmagu])
        rw [← hMval, hszform]
        exact ⟨_, rfl, p.1, p.2.1.nv.trans nv1, p.2.2, fun i hi hir =>
          (p.2.1.value_o i1 hr1 (by rw [nv1]; exact hi) hir).trans (val1 i hi)⟩
      · rw [if_pos hru]
        obtain ⟨bu, hbu, hbul, hbuL⟩ := i1.live u hu1
        have hne : s1.ptr u ≠ s1.ptr r := fun e => hru (i1.inj u r hu1 hr1 e).symm
        have hXu : (s1.setBlk (s1.ptr r) (some (wrAt br lc [x]))).blk (s1.ptr u) = some bu := by
          simp [St.setBlk, hne, hbu]
        have hfu := i1.fits u hu1
        have hXpu : (s1.setBlk (s1.ptr r) (some (wrAt br lc [x]))).ptr u = s1.ptr u := rfl
        have hXpr : (s1.setBlk (s1.ptr r) (some (wrAt br lc [x]))).ptr r = s1.ptr r := rfl
        rw [hXpu, loadAt_ok hXu (by rw [size1] at hfu; omega)]; simp only [List.drop_zero]
        have hlen : (bu.take lc).length = lc := by simp; rw [size1] at hfu; omega
        rw [hXpr, storeAt_ok (setBlk_blk_self _ _ _) (by rw [wrAt_length (by simp; omega), hlen]; omega), setBlk_setBlk,
          wrAt_wrAt_zero hlen (by simp; omega)]
        simp only []
        have hXs : (s1.setBlk (s1.ptr r) (some (wrAt br 0 (bu.take lc ++ [x])))).size u = s.size u := size1 u
        rw [hnegform _ _ hXs]
        have hLlen : (bu.take lc ++ [x]).length = lc + 1 := by simp [hlen]
        have hLval : val (bu.take lc ++ [x]) = M := by
          rw [val_append, hlen]; simp only [val_cons, val_nil, Nat.mul_zero, Nat.add_zero]
          rw [hlowval u bu hu1 hbu (by rw [size1]; omega), hmagu]
        have p := put_list i1 hr1 hbr (bu.take lc ++ [x]) (by rw [hLlen]; omega)
          (Limbs_append.mpr ⟨Limbs_take hbuL _, by intro y hy; simp at hy; rw [hy]; exact hxB⟩)
          (by rw [hLval, hLlen]; exact hMsz) (decide (s.size u < 0))
        rw [hLlen, hLval] at p
        rw [← hMval, hszform]
        exact ⟨_, rfl, p.1, p.2.1.nv.trans nv1, p.2.2, fun i hi hir =>
          (p.2.1.value_o i1 hr1 (by rw [nv1]; exact hi) hir).trans (val1 i hi)⟩
    · rw [if_neg hx0, loadAt_var_low h hu lc (by omega)]; simp only []
      rw [val_limbs_take h hu lc (by omega)]
      have hx0' : x = 0 := by simpa using hx0
      have hm : N % B ^ lc = N % 2 ^ cnt := by rw [hsplit, hx0']; simp
      set k := sizeNat (N % B ^ lc) with hk
      have hklc : k ≤ lc := (DivZ.sizeNat_le_iff _ _).mpr (Nat.mod_lt _ (DivZ.Bpow_pos _))
      have hmk : N % B ^ k = N % B ^ lc := by
        rw [← Nat.mod_mod_of_dvd N (Nat.pow_dvd_pow B hklc)]
        exact Nat.mod_eq_of_lt (DivZ.lt_B_pow_sizeNat _)
      exact hlow k (by omega) (by rw [hmk]) (by rw [hmk, hm])
  · rw [if_neg hgt]; simp only []
    have hmn : N % B ^ n = N := Nat.mod_eq_of_lt hNlt
    have hle : B ^ n ≤ B ^ lc := Nat.pow_le_pow_right B_pos (by omega)
    exact hlow n (Nat.le_refl _) (by rw [hmn]; exact (h.size_natAbs hu).symm)
      (by rw [hmn, Nat.mod_eq_of_lt (by omega)])


end Mpir.AliasMem
