/- Refinement proof for the size-aware model of mpz_mul_ui (mpz/mul_i.h; Mpir/Model/AllocSafeMpz2.lean). -/
import MpirProofs.Lemmas.AllocSafeCore2
namespace Mpir.AllocSafe
open Mpir
open Mpir.Mpz (sgn Norm natAbs_sgn)

theorem mul_ui_refines (s : St) (w u : Nat) (v : Nat) (hs : s.ok = true) (hw : OWF (s.h w)) (hu : OWF (s.h u))
    (hv : v < B) :
    Refines s (mul_ui 1 s w u v) w (Mpz.mul_ui (view (s.h w)) (view (s.h u)) v) := by
  unfold mul_ui Mpz.mul_ui Mpz.mul_i
  simp only [St.SIZ]
  have e1 : (view (s.h u)).size = (s.h u).size := rfl
  rw [e1]
  by_cases h0 : ((s.h u).size == 0 || v == 0) = true
  · simp only [h0, if_true]
    refine ⟨by simpa using hs, by simp [view], by simpa using hw.1, fun x hx => setSize_other _ _ _ hx⟩
  · simp only [h0, Bool.false_eq_true, if_false]
    have G := MPZ_REALLOC_grown s w ((s.h u).size.natAbs + 1) hw
    obtain ⟨ea, oka⟩ := grown_rd G u (s.h u).size.natAbs hu (Nat.le_refl _)
    have hul := view_d_length hu
    rw [List.take_of_length_le (by omega)] at ea
    obtain ⟨_, mc, ml, mn⟩ := Mpz.K.mul_1_val (view (s.h u)).d v (view_limbs hu) hv
    have halloc : (Mpz.grow (view (s.h w)) ((s.h u).size.natAbs + 1)).alloc =
      ((MPZ_REALLOC s w ((s.h u).size.natAbs + 1)).h w).buf.alloc := G.alloc.symm
    rw [halloc]
    refine Refines.of_grown G ?_
    simp only [mpn_mul_1, ea, oka]
    have T := tail_carry (MPZ_REALLOC s w ((s.h u).size.natAbs + 1)) w (Mpir.mul_1 (view (s.h u)).d v).1
      (Mpir.mul_1 (view (s.h u)).d v).2
      ((s.h u).size.natAbs + (if (Mpir.mul_1 (view (s.h u)).d v).2 != 0 then 1 else 0)) (decide ((s.h u).size < 0)) true
      (by rw [G.ok]; exact hs) rfl (G.bwf w hw.1) ml mc (by rw [mn, hul]; exact G.room) (by rw [mn, hul]; split <;> omega)
    simp only [mn, hul] at T
    have e : ∀ b : Bool, (b != false) = b := by decide
    simp only [e]
    exact T

end Mpir.AllocSafe
