/- The Kronecker symbol as a mathematical definition on top of Mathlib's Jacobi symbol; the
   reference for `kronecker_wrappers_spec` and for the executable `Mpir.Gcd.kronecker`. -/
import Mpir.Model.Gcd
import Mathlib.NumberTheory.LegendreSymbol.JacobiSymbol
import Mathlib.NumberTheory.Padics.PadicVal.Basic
namespace Mpir.Gcd

/-- Kronecker symbol (a/b): (a/0) = [|a| = 1]; for b ≠ 0 with |b| = 2^e·m, m odd:
    (a/b) = (a/sign b) · (a/2)^e · J(a | m), where (a / -1) = -1 iff a < 0 and (a/2) = `kron2 a`. -/
noncomputable def kronSym (a b : ℤ) : ℤ :=
  if b = 0 then (if a.natAbs = 1 then 1 else 0)
  else (if b < 0 ∧ a < 0 then -1 else 1) * kron2 a ^ padicValNat 2 b.natAbs *
       jacobiSym a (b.natAbs / 2 ^ padicValNat 2 b.natAbs)

end Mpir.Gcd
