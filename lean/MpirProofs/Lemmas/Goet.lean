/- Goetgheluck's binomial algorithm (mpz/bin_uiui.c:585-702, model in Mpir/Model/Numth.lean): Kummer's theorem in
   the borrow-chain form COUNT_A_PRIME computes, the prime ranges, the product over the sieve walk. -/
import MpirProofs.Lemmas.SwingAsm
import Mathlib.Data.Nat.Choose.Factorization
namespace Mpir.Numth
open Mpir Mpir.Gen.NumthTabs Mpir.Sieve
open Nat

/-! ## Kummer's theorem as a borrow chain -/

/-- number of borrows when b (+ incoming borrow c) is subtracted from a in base p, walked the way COUNT_A_PRIME
    does: `do { mb += b % p; b /= p; ma = a % p; a /= p; if (ma < mb) { mb = 1; e++; } else mb = 0; } while (a >= p)` -/
def kumExp (p : ℕ) : ℕ → ℕ → ℕ → ℕ → ℕ
  | 0, _, _, _ => 0
  | f + 1, a, b, c =>
    (if a % p < c + b % p then 1 else 0) +
      (if a / p ≥ p then kumExp p f (a / p) (b / p) (if a % p < c + b % p then 1 else 0) else 0)

theorem kumExp_lt (p f a b c : ℕ) (ha : a < p) (hbc : b + c ≤ a) : kumExp p f a b c = 0 := by
  cases f with
  | zero => rfl
  | succ f =>
    have h1 : a % p = a := Nat.mod_eq_of_lt ha
    have h2 : b % p = b := Nat.mod_eq_of_lt (by omega)
    have h3 : a / p = 0 := Nat.div_eq_of_lt ha
    have h4 : ¬ (a < c + b) := by omega
    have h5 : ¬ (0 ≥ p) := by omega
    simp [kumExp, h1, h2, h3, h4, h5]

/-- one digit of the subtraction a − b − c in base p -/
theorem sub_div_digit (p a b c : ℕ) (hp : 0 < p) (hc : c ≤ 1) (hbc : b + c ≤ a) :
    b / p + (if a % p < c + b % p then 1 else 0) ≤ a / p ∧
    (a - b - c) / p = a / p - b / p - (if a % p < c + b % p then 1 else 0) := by
  have ha := Nat.div_add_mod a p
  have hb := Nat.div_add_mod b p
  have hα : a % p < p := Nat.mod_lt _ hp
  have hγ : b % p < p := Nat.mod_lt _ hp
  have hle : b / p ≤ a / p := Nat.div_le_div_right (by omega)
  have hmul : p * (b / p) ≤ p * (a / p) := Nat.mul_le_mul_left _ hle
  by_cases hβ : a % p < c + b % p
  · simp only [hβ, if_true]
    have hlt : b / p + 1 ≤ a / p := by
      by_contra hcon
      have : a / p = b / p := by omega
      rw [this] at ha; omega
    have hmul2 : p * (b / p + 1) ≤ p * (a / p) := Nat.mul_le_mul_left _ hlt
    refine ⟨hlt, ?_⟩
    apply Nat.div_eq_of_lt_le
    · rw [Nat.sub_mul, Nat.sub_mul, Nat.mul_comm (a / p), Nat.mul_comm (b / p), Nat.one_mul]
      rw [Nat.mul_add, Nat.mul_one] at hmul2; omega
    · rw [show a / p - b / p - 1 + 1 = a / p - b / p by omega, Nat.sub_mul, Nat.mul_comm (a / p), Nat.mul_comm (b / p)]
      omega
  · simp only [hβ, if_false, Nat.add_zero, Nat.sub_zero]
    refine ⟨hle, ?_⟩
    apply Nat.div_eq_of_lt_le
    · rw [Nat.sub_mul, Nat.mul_comm (a / p), Nat.mul_comm (b / p)]; omega
    · rw [Nat.add_mul, Nat.sub_mul, Nat.mul_comm (a / p), Nat.mul_comm (b / p), Nat.one_mul]; omega

/-- Kummer via Legendre: v_p(a!) = v_p(b!) + v_p((a−b−c)!) + (number of borrows) -/
theorem kummer_legendre (p : ℕ) [hp : Fact p.Prime] :
    ∀ f a b c, c ≤ 1 → b + c ≤ a → a < 2 ^ f →
      padicValNat p a ! = padicValNat p b ! + padicValNat p (a - b - c)! + kumExp p f a b c := by
  intro f
  induction f with
  | zero =>
    intro a b c _ hbc ha
    have : a = 0 := by simpa using ha
    subst this
    have : b = 0 := by omega
    subst this
    simp [kumExp]
  | succ f ih =>
    intro a b c hc hbc ha
    have hp2 := hp.out.two_le
    obtain ⟨d1, d2⟩ := sub_div_digit p a b c (by omega) hc hbc
    have ha' : a / p < 2 ^ f := by
      have : a / p ≤ a / 2 := Nat.div_le_div_left hp2 (by norm_num)
      rw [pow_succ] at ha; omega
    generalize hβ : (if a % p < c + b % p then 1 else 0) = β at d1 d2
    have hβ1 : β ≤ 1 := by rw [← hβ]; split <;> omega
    have hrec := ih (a / p) (b / p) β hβ1 d1 ha'
    have hk : kumExp p (f + 1) a b c = β + kumExp p f (a / p) (b / p) β := by
      simp only [kumExp, hβ]
      by_cases hge : a / p ≥ p
      · simp [hge]
      · simp only [hge, if_false]
        rw [kumExp_lt p f (a / p) (b / p) β (by omega) d1]
    rw [hk, legendre_step p a, legendre_step p b, legendre_step p (a - b - c), d2, hrec]
    omega

theorem pow_kumExp_le (p : ℕ) (hp : 2 ≤ p) : ∀ f a b c, c ≤ 1 → b + c ≤ a → 1 ≤ a → p ^ kumExp p f a b c ≤ a := by
  intro f
  induction f with
  | zero => intro a b c _ _ ha; simpa [kumExp] using ha
  | succ f ih =>
    intro a b c hc hbc ha
    by_cases hlt : a < p
    · rw [kumExp_lt p _ a b c hlt hbc]; simpa using ha
    · obtain ⟨d1, _⟩ := sub_div_digit p a b c (by omega) hc hbc
      simp only [kumExp]
      generalize hβ : (if a % p < c + b % p then 1 else 0) = β at d1
      have hβ1 : β ≤ 1 := by rw [← hβ]; split <;> omega
      have h1 : 1 ≤ a / p := (Nat.le_div_iff_mul_le (by omega)).2 (by omega)
      have h4 : p * (a / p) ≤ a := Nat.mul_div_le a p
      have h3 : p ^ β ≤ p := by
        calc p ^ β ≤ p ^ 1 := Nat.pow_le_pow_right (by omega) hβ1
          _ = p := pow_one p
      rw [pow_add]
      by_cases hge : a / p ≥ p
      · simp only [hge, if_true]
        calc p ^ β * p ^ kumExp p f (a / p) (b / p) β ≤ p * (a / p) := Nat.mul_le_mul h3 (ih _ _ _ hβ1 d1 h1)
          _ ≤ a := h4
      · simp only [hge, if_false, pow_zero, Nat.mul_one]
        calc p ^ β ≤ p * 1 := by simpa using h3
          _ ≤ p * (a / p) := Nat.mul_le_mul_left _ h1
          _ ≤ a := h4

/-- COUNT_A_PRIME's loop (bin_uiui.c:585-598) multiplies prod by p^(number of borrows) when that fits a limb -/
theorem countPowers_eq (p : ℕ) (hp : 1 ≤ p) :
    ∀ f a b c pr, pr * p ^ kumExp p f a b c < B → countPowers p f a b c pr = pr * p ^ kumExp p f a b c := by
  intro f
  induction f with
  | zero => intro a b c pr _; simp [countPowers, kumExp]
  | succ f ih =>
    intro a b c pr hlt
    simp only [kumExp] at hlt ⊢
    simp only [countPowers]
    by_cases hβ : a % p < c + b % p
    · simp only [hβ, if_true] at hlt ⊢
      rw [pow_add, pow_one] at hlt ⊢
      by_cases hge : a / p ≥ p
      · simp only [hge, if_true] at hlt ⊢
        have hpos : 1 ≤ p ^ kumExp p f (a / p) (b / p) 1 := Nat.one_le_pow _ _ (by omega)
        have hfit : pr * p < B :=
          Nat.lt_of_le_of_lt (Nat.mul_le_mul_left _ (Nat.le_mul_of_pos_right _ hpos)) hlt
        rw [Nat.mod_eq_of_lt hfit, ih _ _ _ _ (by rw [Nat.mul_assoc]; exact hlt)]; ring
      · simp only [hge, if_false, pow_zero, Nat.mul_one] at hlt ⊢
        rw [Nat.mod_eq_of_lt hlt]
    · simp only [hβ, if_false, Nat.zero_add] at hlt ⊢
      by_cases hge : a / p ≥ p
      · simp only [hge, if_true] at hlt ⊢
        exact ih _ _ _ _ hlt
      · simp only [hge, if_false, pow_zero, Nat.mul_one]


/-! ## The macro bodies -/

/-- COUNT_A_PRIME (p, n, k, prod, max_prod, factors, j) -/
theorem countAPrime_val (n k M p : ℕ) (hp : 1 ≤ p) (hM : 1 ≤ M) (hfit : M * p ^ kumExp p 64 n k 0 < B) (st : FL) :
    flVal (countAPrime n k M p st) = flVal st * p ^ kumExp p 64 n k 0 := by
  unfold countAPrime
  obtain ⟨h1, h2⟩ := flAppend_val M st
  have hle := h2 hM
  generalize flAppend M st = st' at h1 hle
  obtain ⟨l, pr⟩ := st'
  simp only at hle ⊢
  rw [countPowers_eq p hp 64 n k 0 pr (Nat.lt_of_le_of_lt (Nat.mul_le_mul_right _ hle) hfit), ← h1]
  simp only [flVal_mk]; ring

/-- SH_COUNT_A_PRIME -/
theorem shCountAPrime_val (n k M p : ℕ) (hfit : M * p < B) (st : FL) :
    flVal (shCountAPrime n k M p st) = flVal st * (if n % p < k % p then p else 1) := by
  unfold shCountAPrime
  by_cases h : n % p < k % p
  · simp only [h, if_true]; exact flStore_val' M p hfit st
  · simp only [h, if_false]; ring

/-! ## 2-adic part and the value of the binomial -/

theorem padicValNat_two_factorial (m : ℕ) (hm : m < B) : padicValNat 2 m ! = m - popcount m := by
  have h := factorial_two_adic m hm
  have ho := (oddPart_spec (m !) (Nat.factorial_ne_zero m)).1
  have : Fact (Nat.Prime 2) := ⟨Nat.prime_two⟩
  conv_lhs => rw [h]
  rw [padicValNat.mul (by positivity) (by omega), padicValNat.prime_pow,
    padicValNat.eq_zero_of_not_dvd (by omega)]
  omega

theorem popcount_le (m : ℕ) : popcount m ≤ m := popc_le 64 m

/-- `popc(n-k) + popc(k) - popc(n)` (bin_uiui.c:640-644) is the exponent of 2 in binomial(n,k) -/
theorem two_adic_choose (n k : ℕ) (hn : n < B) (hk : k ≤ n) :
    padicValNat 2 (n.choose k) = popcount (n - k) + popcount k - popcount n := by
  have : Fact (Nat.Prime 2) := ⟨Nat.prime_two⟩
  have h := Nat.choose_mul_factorial_mul_factorial hk
  have hc : n.choose k ≠ 0 := Nat.pos_iff_ne_zero.1 (Nat.choose_pos hk)
  have hv : padicValNat 2 (n.choose k) + padicValNat 2 k ! + padicValNat 2 (n - k)! = padicValNat 2 n ! := by
    rw [← h, padicValNat.mul (Nat.mul_ne_zero hc (Nat.factorial_ne_zero _)) (Nat.factorial_ne_zero _),
      padicValNat.mul hc (Nat.factorial_ne_zero _)]
  rw [padicValNat_two_factorial n hn, padicValNat_two_factorial k (by omega), padicValNat_two_factorial (n - k) (by omega)] at hv
  have := popcount_le n; have := popcount_le k; have := popcount_le (n - k)
  omega

/-- the prime-power factor COUNT_A_PRIME accumulates for x -/
def kumG (n k : ℕ) (x : ℕ) : ℕ := x ^ kumExp x 64 n k 0

/-- **Kummer / Goetgheluck**: binomial(n,k) = 2^(popcount bookkeeping) · ∏_{odd primes p ≤ n} p^(borrows of n − k in base p) -/
theorem choose_eq_kummer_prod (n k c : ℕ) (hn : n < 2 ^ 64) (hk : k ≤ n) (hc : n < 3 + c) :
    n.choose k = 2 ^ (popcount (n - k) + popcount k - popcount n) * nprod (kumG n k) c 3 := by
  have hB64 : B = 2 ^ 64 := rfl
  have hc0 : n.choose k ≠ 0 := Nat.pos_iff_ne_zero.1 (Nat.choose_pos hk)
  have h3 : nprod (kumG n k) c 3 ≠ 0 := Nat.pos_iff_ne_zero.1 (nprod_pos _ (ppow_pos _) c 3)
  apply Nat.eq_of_factorization_eq hc0 (Nat.mul_ne_zero (by positivity) h3)
  intro p
  by_cases hp : p.Prime
  · have : Fact p.Prime := ⟨hp⟩
    rw [Nat.factorization_def _ hp, Nat.factorization_def _ hp, padicValNat.mul (by positivity) h3, padicValNat.pow]
    change _ = _ + padicValNat p (nprod (fun x => x ^ kumExp x 64 n k 0) c 3)
    rw [padicValNat_nprod]
    by_cases h2 : p = 2
    · subst h2
      rw [two_adic_choose n k (by omega) hk, padicValNat.self (by norm_num)]
      simp
    · have hp3 : 3 ≤ p := by have := hp.two_le; omega
      have : Fact (Nat.Prime 2) := ⟨Nat.prime_two⟩
      rw [padicValNat_primes h2]
      have h := Nat.choose_mul_factorial_mul_factorial hk
      have hv : padicValNat p (n.choose k) + padicValNat p k ! + padicValNat p (n - k)! = padicValNat p n ! := by
        rw [← h, padicValNat.mul (Nat.mul_ne_zero hc0 (Nat.factorial_ne_zero _)) (Nat.factorial_ne_zero _),
          padicValNat.mul hc0 (Nat.factorial_ne_zero _)]
      have hkl := kummer_legendre p 64 n k 0 (by omega) (by omega) hn
      simp only [Nat.sub_zero] at hkl
      by_cases hin : 3 ≤ p ∧ p < 3 + c
      · simp only [hin, and_self, if_true]; omega
      · simp only [hin, if_false]
        rw [kumExp_lt p 64 n k 0 (by omega) (by omega)] at hkl; omega
  · rw [Nat.factorization_eq_zero_of_not_prime _ hp, Nat.factorization_eq_zero_of_not_prime _ hp]

/-- the power of two of bin_uiui.c:645 `prod = CNST_LIMB(1) << count` fits a limb: 2^count ≤ n -/
theorem two_pow_count_le (n k : ℕ) (hn : n < B) (hk : k ≤ n) (h1 : 1 ≤ n) :
    2 ^ (popcount (n - k) + popcount k - popcount n) ≤ n := by
  rw [← two_adic_choose n k hn hk, ← Nat.factorization_def _ Nat.prime_two]
  calc 2 ^ (n.choose k).factorization 2 ≤ 2 ^ Nat.log 2 n :=
        Nat.pow_le_pow_right (by norm_num) Nat.factorization_choose_le_log
    _ ≤ n := Nat.pow_log_le_self 2 (by omega)


/-! ## mpz_goetgheluck_bin_uiui assembled -/

theorem mod_eq_sub_of_lt_two_mul {n x : ℕ} (h1 : x ≤ n) (h2 : n < 2 * x) : n % x = n - x := by
  rw [Nat.mod_eq_sub_mod h1, Nat.mod_eq_of_lt (by omega)]

/-- mpz_goetgheluck_bin_uiui (n, k) = binomial(n, k): 25 ≤ n (the C's ASSERT), k = MIN(k, n−k) as mpz_bin_uiui
    passes it, and the C's `ASSERT (n_to_bit (n - k) < n_to_bit (n))` -/
theorem goetgheluck_eq_choose (n k : ℕ) (h25 : 25 ≤ n) (hnB : n < B) (hk : 2 * k ≤ n) (hlast : nb (n - k) < nb n) :
    goetgheluck_bin_uiui n k = n.choose k := by
  have hB64 : B = 2 ^ 64 := rfl
  rw [choose_eq_kummer_prod n k (bit_to_n (nb n + 1) - 3) (by omega) (by omega)
    (by have := (nb_le_succ n (by omega)).2; omega)]
  unfold goetgheluck_bin_uiui
  simp only []
  have hBv := B_eq
  have hcnt := two_pow_count_le n k hnB (by omega) (by omega)
  generalize popcount (n - k) + popcount k - popcount n = count at *
  rw [Nat.mod_eq_of_lt (by omega : 2 ^ count < B)]
  -- max_prod
  have hM1 : 1 ≤ (B - 1) / n := by rw [Nat.le_div_iff_mul_le (by omega)]; omega
  have hMn : (B - 1) / n * n < B := by have := Nat.div_mul_le_self (B - 1) n; omega
  have hM25 : (B - 1) / n * 25 ≤ (B - 1) / n * n := Nat.mul_le_mul_left _ (by omega)
  generalize hM : (B - 1) / n = M at *
  have hM2 : M * 2 % B = M * 2 := Nat.mod_eq_of_lt (by omega)
  obtain ⟨hr1, hr2⟩ := apprsqrt_bounds n h25
  have hrange := swing_ranges n h25
  generalize hr : limb_apprsqrt n = r at *
  have hr5 : 5 ≤ r := by
    by_contra hlt
    have : r * r ≤ 4 * 4 := Nat.mul_le_mul (by omega) (by omega)
    omega
  have hrB : r < B := by
    by_contra hge
    have : B * 5 ≤ r * r := Nat.mul_le_mul (by omega) hr5
    omega
  rw [n_to_bit_five, n_to_bit_eq_nb r hr5 hrB, n_to_bit_eq_nb (n / 2) (by omega) (by omega),
    n_to_bit_eq_nb (n - k) (by omega) (by omega), n_to_bit_eq_nb n (by omega) hnB, hM2]
  obtain ⟨hs1, hs2⟩ := nb_le_succ r hr5
  obtain ⟨ht1, ht2⟩ := nb_le_succ (n / 2) (by omega)
  obtain ⟨hu1, hu2⟩ := nb_le_succ (n - k) (by omega)
  obtain ⟨hw1, hw2⟩ := nb_le_succ n (by omega)
  have hst : nb r + 1 ≤ nb (n / 2) := Nat.le_trans hrange (nb_mono (by omega))
  have htu : nb (n / 2) ≤ nb (n - k) := nb_mono (by omega)
  generalize hs : nb r = s at *
  generalize ht : nb (n / 2) = t at *
  generalize hu : nb (n - k) = u at *
  generalize hw : nb n = w at *
  have hfitG : ∀ x, x.Prime → M * x ^ kumExp x 64 n k 0 < B := by
    intro x hx
    have := pow_kumExp_le x hx.two_le 64 n k 0 (by omega) (by omega) (by omega)
    exact Nat.lt_of_le_of_lt (Nat.mul_le_mul_left _ this) hMn
  have L1 : ∀ st, flVal (loopOnSieve 0 s (countAPrime n k M) st) = flVal st * wprod (kumG n k) (s + 1) 0 := by
    intro st
    unfold loopOnSieve
    simp only [Nat.not_lt_zero, if_false, Nat.sub_zero]
    apply sieveWalk_val
    intro j st' _ _ hp
    exact countAPrime_val n k M _ (by have := bit_to_n_ge j; omega) hM1 (hfitG _ hp) st'
  have L2 : ∀ st, flVal (loopOnSieve (s + 1) t (shCountAPrime n k (M * 2)) st) =
      flVal st * wprod (fun x => if n % x < k % x then x else 1) (t - s) (s + 1) := by
    intro st
    unfold loopOnSieve
    have : ¬ t < s + 1 := by omega
    simp only [this, if_false, show t - (s + 1) + 1 = t - s by omega]
    apply sieveWalk_val
    intro j st' _ h2 hp
    apply shCountAPrime_val
    have hx : bit_to_n j ≤ n / 2 := Nat.le_trans (bit_to_n_le (by omega)) ht1
    have : M * 2 * bit_to_n j = M * (2 * bit_to_n j) := by ring
    rw [this]
    exact Nat.lt_of_le_of_lt (Nat.mul_le_mul_left _ (by omega)) hMn
  have L3 : ∀ st, flVal (loopOnSieve (u + 1) w (fun p => flStore p M) st) =
      flVal st * wprod (fun x => x) (w - u) (u + 1) := by
    intro st
    unfold loopOnSieve
    have : ¬ w < u + 1 := by omega
    simp only [this, if_false, show w - (u + 1) + 1 = w - u by omega]
    apply sieveWalk_val
    intro j st' _ h2 hp
    apply flStore_val'
    have hx : bit_to_n j ≤ n := Nat.le_trans (bit_to_n_le (by omega)) hw1
    exact Nat.lt_of_le_of_lt (Nat.mul_le_mul_left _ hx) hMn
  have L0 : flVal (countAPrime n k M 3 ([], 2 ^ count)) = 2 ^ count * 3 ^ kumExp 3 64 n k 0 := by
    rw [countAPrime_val n k M 3 (by norm_num) hM1 (hfitG 3 Nat.prime_three)]
    simp [flVal_mk, prodList]
  change flVal _ = _
  rw [L3, L2, L1, L0]
  have m1 : bit_to_n 0 = 5 := by decide
  have m2 : 5 < bit_to_n (s + 1) := by rw [← m1]; exact bit_to_n_lt (by omega)
  have m3 : bit_to_n (s + 1) ≤ bit_to_n (t + 1) := bit_to_n_le (by omega)
  have m4 : bit_to_n (t + 1) ≤ bit_to_n (u + 1) := bit_to_n_le (by omega)
  have m5 : bit_to_n (u + 1) ≤ bit_to_n (w + 1) := bit_to_n_le (by omega)
  have hdec : bit_to_n (w + 1) - 3 = 2 + ((bit_to_n (s + 1) - 5) + ((bit_to_n (t + 1) - bit_to_n (s + 1)) +
      ((bit_to_n (u + 1) - bit_to_n (t + 1)) + (bit_to_n (w + 1) - bit_to_n (u + 1))))) := by omega
  rw [hdec, nprod_add, nprod_add, nprod_add, nprod_add]
  rw [show 3 + 2 = 5 by rfl, show 5 + (bit_to_n (s + 1) - 5) = bit_to_n (s + 1) by omega,
    show bit_to_n (s + 1) + (bit_to_n (t + 1) - bit_to_n (s + 1)) = bit_to_n (t + 1) by omega,
    show bit_to_n (t + 1) + (bit_to_n (u + 1) - bit_to_n (t + 1)) = bit_to_n (u + 1) by omega]
  have f0 : nprod (kumG n k) 2 3 = 3 ^ kumExp 3 64 n k 0 := by
    simp [nprod, kumG, Nat.prime_three, show ¬ Nat.Prime 4 by decide]
  have f1 : nprod (kumG n k) (bit_to_n (s + 1) - 5) 5 = wprod (kumG n k) (s + 1) 0 := by
    rw [wprod_eq_nprod, Nat.zero_add, m1]
  have f2 : nprod (kumG n k) (bit_to_n (t + 1) - bit_to_n (s + 1)) (bit_to_n (s + 1)) =
      wprod (fun x => if n % x < k % x then x else 1) (t - s) (s + 1) := by
    rw [wprod_eq_nprod, show s + 1 + (t - s) = t + 1 by omega]
    apply nprod_congr
    intro x h1 h2 hp
    have hlt : n / x < x := by
      rw [Nat.div_lt_iff_lt_mul (by omega)]
      have : r * r < x * x := Nat.mul_lt_mul'' (by omega) (by omega)
      omega
    have : ¬ (n / x ≥ x) := by omega
    simp only [kumG, kumExp, this, if_false, Nat.add_zero, Nat.zero_add]
    by_cases hb : n % x < k % x <;> simp [hb]
  have f3 : nprod (kumG n k) (bit_to_n (u + 1) - bit_to_n (t + 1)) (bit_to_n (t + 1)) = 1 := by
    rw [nprod_congr (kumG n k) (fun _ => 1)]
    · exact nprod_one_of_noprime' _ _
    · intro x h1 h2 hp
      have h5 : 5 ≤ x := by have := bit_to_n_ge (t + 1); omega
      have hxu : x ≤ bit_to_n u := by
        rcases prime_lt_next hp h5 (show x < bit_to_n (u + 1) by omega) with h | h <;> omega
      have hd := div_eq_one (n := n) (x := x) (by omega) (by omega)
      have hm := mod_eq_sub_of_lt_two_mul (n := n) (x := x) (by omega) (by omega)
      have hkm : k % x = k := Nat.mod_eq_of_lt (by omega)
      have h1x : ¬ (1 ≥ x) := by omega
      have hb : ¬ (n - x < k) := by omega
      simp [kumG, kumExp, hd, hm, hkm, h1x, hb]
  have f4 : nprod (kumG n k) (bit_to_n (w + 1) - bit_to_n (u + 1)) (bit_to_n (u + 1)) =
      wprod (fun x => x) (w - u) (u + 1) := by
    rw [wprod_eq_nprod, show u + 1 + (w - u) = w + 1 by omega]
    apply nprod_congr
    intro x h1 h2 hp
    have h5 : 5 ≤ x := by have := bit_to_n_ge (u + 1); omega
    have hxw : x ≤ bit_to_n w := by
      rcases prime_lt_next hp h5 (show x < bit_to_n (w + 1) by omega) with h | h <;> omega
    have hd := div_eq_one (n := n) (x := x) (by omega) (by omega)
    have hm := mod_eq_sub_of_lt_two_mul (n := n) (x := x) (by omega) (by omega)
    have hkm : k % x = k := Nat.mod_eq_of_lt (by omega)
    have h1x : ¬ (1 ≥ x) := by omega
    have hb : n - x < k := by omega
    simp [kumG, kumExp, hd, hm, hkm, h1x, hb]
  rw [f0, f1, f2, f3, f4]
  ring

end Mpir.Numth
