/-
  Lemmas for C02 part c02_sbq (mpn_sb_div_q): the steps of Mpir/Model/SbDivQ.lean (`dq…`).
  * the borrow chain of sb_div_q.c:94-97 is the three-limb subtraction sub_333 of sb_div_qr.c, so the ordinary step and the
    first loop are those of mpn_sb_div_qr (MpirProofs/Lemmas/SbDiv.lean);
  * one step of the truncating loop: exact division step, possibly with an unreduced remainder when q = B-1, or the
    `flag = 0` event (the window exceeds (B-1)·d by B^(len) or more).
-/
import MpirProofs.Lemmas.SbDivQTop
namespace Mpir.SbDivQ
open Mpir Mpir.DivWord Mpir.SbDiv

theorem dqBorrow_spec (n1 n0 cy : Nat) (hn1 : n1 < B) (hn0 : n0 < B) (hcy : cy < B) :
    (dqBorrow n1 n0 cy).2.1 < B ∧ (dqBorrow n1 n0 cy).2.2 < B ∧
    (cy ≤ n1 * B + n0 → (dqBorrow n1 n0 cy).1 = 0 ∧
      (dqBorrow n1 n0 cy).2.1 * B + (dqBorrow n1 n0 cy).2.2 + cy = n1 * B + n0) ∧
    (n1 * B + n0 < cy → (dqBorrow n1 n0 cy).1 ≠ 0 ∧
      (dqBorrow n1 n0 cy).2.1 * B + (dqBorrow n1 n0 cy).2.2 + cy = n1 * B + n0 + B * B) := by
  unfold dqBorrow
  simp only [boolToNat_decide]
  simp only [B_eq] at *
  split <;> split <;> omega

theorem dqBorrow_eq (rem cy : Nat) (hrem : rem < B * B) (hcy : cy < B) :
    (dqBorrow (rem / B) (rem % B) cy).2 = (sub_333_0 (rem / B) (rem % B) cy).2 ∧
    ((dqBorrow (rem / B) (rem % B) cy).1 ≠ 0 ↔ (sub_333_0 (rem / B) (rem % B) cy).1 ≠ 0) := by
  have hB := B_pos
  have h1 : rem / B < B := by rw [Nat.div_lt_iff_lt_mul hB]; exact hrem
  have h0 : rem % B < B := Nat.mod_lt _ hB
  have hr : rem / B * B + rem % B = rem := by have := Nat.div_add_mod rem B; linarith
  obtain ⟨a1, a0, anb, abo⟩ := dqBorrow_spec (rem / B) (rem % B) cy h1 h0 hcy
  obtain ⟨s1, s0, snb, sbo⟩ := sub_333_0_spec rem cy hrem hcy
  rw [hr] at anb abo
  generalize dqBorrow (rem / B) (rem % B) cy = b at *
  generalize sub_333_0 (rem / B) (rem % B) cy = s at *
  obtain ⟨b1, b2, b3⟩ := b
  obtain ⟨t1, t2, t3⟩ := s
  simp only at *
  by_cases h : cy ≤ rem
  · obtain ⟨e1, e2⟩ := anb h
    obtain ⟨f1, f2⟩ := snb h
    refine ⟨?_, by simp [e1, f1]⟩
    have : b2 = t2 ∧ b3 = t3 := by simp only [B_eq] at *; omega
    rw [this.1, this.2]
  · obtain ⟨e1, e2⟩ := abo (by omega)
    obtain ⟨f1, f2⟩ := sbo (by omega)
    refine ⟨?_, by simp [e1, f1]⟩
    have : b2 = t2 ∧ b3 = t3 := by simp only [B_eq] at *; omega
    rw [this.1, this.2]

/-- under the preconditions of the step the ordinary branch of mpn_sb_div_q is the ordinary branch of mpn_sb_div_qr -/
theorem dqRegular_eq_sb (dlo alo : List Nat) (d0 d1 m0 m1 n1 dinv : Nat) (hlen : alo.length = dlo.length)
    (hdlo : Limbs dlo) (halo : Limbs alo) (hd0 : d0 < B) (hd1 : d1 < B) (hm0 : m0 < B) (hm1 : m1 < B)
    (hn1 : n1 < B) (hnorm : B / 2 ≤ d1) (hdinv : dinv = invert_pi1 d1 d0)
    (hN : n1 * B + m1 < d1 * B + d0) :
    dqRegular (dlo ++ [d0, d1]) d1 d0 dinv (alo ++ [m0, m1]) n1
      = sbRegular (dlo ++ [d0, d1]) d1 d0 dinv (alo ++ [m0, m1]) n1 := by
  have hB := B_pos
  unfold dqRegular sbRegular
  simp only [len_top, take_top]
  rw [← hlen]
  simp only [getD_top0, getD_top1, take_top]
  rw [udiv_qr_3by2_eq n1 m1 m0 d1 d0 dinv hn1 hm1 hm0 hd1 hd0 hnorm hN
      (by rw [hdinv]; exact invert_pi1_eq d1 d0 hnorm hd1 hd0)]
  simp only []
  have hddpos : 0 < d1 * B + d0 := by omega
  have hrem := Nat.mod_lt (n1 * B * B + m1 * B + m0) hddpos
  have hddlt : d1 * B + d0 < B * B := by nlinarith
  have hqB : (n1 * B * B + m1 * B + m0) / (d1 * B + d0) < B := by
    rw [Nat.div_lt_iff_lt_mul hddpos]
    nlinarith
  generalize (n1 * B * B + m1 * B + m0) / (d1 * B + d0) = q at *
  generalize (n1 * B * B + m1 * B + m0) % (d1 * B + d0) = rem at *
  obtain ⟨_, hc, _, _⟩ := submul1C_val q hqB alo dlo 0 halo hdlo hlen hB
  change (submul_1 _ _ _).2 < B at hc
  generalize submul_1 alo dlo q = rc at *
  obtain ⟨e1, e2⟩ := dqBorrow_eq rem rc.2 (by omega) hc
  generalize dqBorrow (rem / B) (rem % B) rc.2 = b at *
  generalize sub_333_0 (rem / B) (rem % B) rc.2 = s at *
  obtain ⟨b1, b2⟩ := b
  obtain ⟨s1, s2⟩ := s
  simp only at e1 e2 ⊢
  subst e1
  by_cases h : b1 ≠ 0
  · rw [if_pos h, if_pos (e2.mp h)]
  · rw [if_neg h, if_neg (fun h' => h (e2.mpr h'))]

theorem dqStepA_eq (dlo alo : List Nat) (d0 d1 m0 m1 n1 dinv : Nat) (hlen : alo.length = dlo.length) :
    dqStepA (dlo ++ [d0, d1]) d1 d0 dinv (alo ++ [m0, m1]) n1 =
      if n1 = d1 ∧ m1 = d0 then sbSpecial (dlo ++ [d0, d1]) (alo ++ [m0, m1])
      else dqRegular (dlo ++ [d0, d1]) d1 d0 dinv (alo ++ [m0, m1]) n1 := by
  unfold dqStepA
  simp only [len_top]
  rw [← hlen]
  simp only [getD_top1]

/-- one iteration of the first loop of mpn_sb_div_q = one iteration of mpn_sb_div_qr -/
theorem dqStepA_spec (dlo alo : List Nat) (d0 d1 m0 m1 n1 dinv : Nat) (hlen : alo.length = dlo.length)
    (hdlo : Limbs dlo) (halo : Limbs alo) (hd0 : d0 < B) (hd1 : d1 < B) (hm0 : m0 < B) (hm1 : m1 < B)
    (hn1 : n1 < B) (hnorm : B / 2 ≤ d1) (hdinv : dinv = invert_pi1 d1 d0)
    (hW : val (alo ++ [m0, m1]) + B ^ (dlo.length + 2) * n1 < B * val (dlo ++ [d0, d1])) :
    ∃ q w n1', dqStepA (dlo ++ [d0, d1]) d1 d0 dinv (alo ++ [m0, m1]) n1 = (q, w, n1') ∧
      val (alo ++ [m0, m1]) + B ^ (dlo.length + 2) * n1
        = q * val (dlo ++ [d0, d1]) + (val w + B ^ (dlo.length + 1) * n1') ∧
      val w + B ^ (dlo.length + 1) * n1' < val (dlo ++ [d0, d1]) ∧
      q < B ∧ Limbs w ∧ w.length = dlo.length + 1 ∧ n1' < B := by
  rw [dqStepA_eq _ _ _ _ _ _ _ _ hlen]
  by_cases h : n1 = d1 ∧ m1 = d0
  · obtain ⟨rfl, rfl⟩ := h
    rw [if_pos ⟨rfl, rfl⟩]
    obtain ⟨w, n1', e, h1, h2, h3, h4, h5⟩ := sbSpecial_spec dlo alo m1 n1 m0 hlen hdlo halo hd0 hd1 hm0 hnorm hW
    exact ⟨_, w, n1', e, h1, h2, by have := B_pos; omega, h3, h4, h5⟩
  · rw [if_neg h]
    have hN : n1 * B + m1 < d1 * B + d0 := by
      have hW' := hW
      rw [val_top2, val_top2, hlen, pow_k2] at hW'
      have := top2_le (B ^ dlo.length) (val alo) (val dlo) (d0 + B * d1) m0 m1 n1 (by have := B_pos; positivity)
        (val_lt dlo hdlo) hW'
      simp only [B_eq] at *; omega
    rw [dqRegular_eq_sb dlo alo d0 d1 m0 m1 n1 dinv hlen hdlo halo hd0 hd1 hm0 hm1 hn1 hnorm hdinv hN]
    exact sbRegular_spec dlo alo d0 d1 m0 m1 n1 dinv hlen hdlo halo hd0 hd1 hm0 hm1 hn1 hnorm hdinv hN

theorem dqLoopA_cons (dp : List Nat) (d1 d0 dinv x : Nat) (xs w : List Nat) (n1 : Nat) (qs : List Nat) :
    dqLoopA dp d1 d0 dinv (x :: xs) w n1 qs =
      dqLoopA dp d1 d0 dinv xs (dqStepA dp d1 d0 dinv (x :: w) n1).2.1 (dqStepA dp d1 d0 dinv (x :: w) n1).2.2
        ((dqStepA dp d1 d0 dinv (x :: w) n1).1 :: qs) := rfl

/-- invariant of the first loop sb_div_q.c:80-109 (that of sb_div_qr.c:75-102) -/
theorem dqLoopA_spec (dlo : List Nat) (d0 d1 dinv : Nat) (hdlo : Limbs dlo) (hd0 : d0 < B) (hd1 : d1 < B)
    (hnorm : B / 2 ≤ d1) (hdinv : dinv = invert_pi1 d1 d0) :
    ∀ (xs w : List Nat) (n1 : Nat) (qs : List Nat), Limbs xs → Limbs w → w.length = dlo.length + 1 → n1 < B →
      val w + B ^ (dlo.length + 1) * n1 < val (dlo ++ [d0, d1]) →
      ∃ ql w' n1', dqLoopA (dlo ++ [d0, d1]) d1 d0 dinv xs w n1 qs = (ql ++ qs, w', n1') ∧
        ql.length = xs.length ∧ Limbs ql ∧
        val xs.reverse + B ^ xs.length * (val w + B ^ (dlo.length + 1) * n1)
          = val ql * val (dlo ++ [d0, d1]) + (val w' + B ^ (dlo.length + 1) * n1') ∧
        val w' + B ^ (dlo.length + 1) * n1' < val (dlo ++ [d0, d1]) ∧
        Limbs w' ∧ w'.length = dlo.length + 1 ∧ n1' < B
  | [], w, n1, qs, _, hw, hwl, hn1, hR => by
    refine ⟨[], w, n1, rfl, rfl, Limbs_nil, by simp, hR, hw, hwl, hn1⟩
  | x :: xs, w, n1, qs, hxs, hw, hwl, hn1, hR => by
    have ⟨hx, hxs'⟩ := Limbs_cons.mp hxs
    have ha : Limbs (x :: w) := Limbs_cons.mpr ⟨hx, hw⟩
    have hal : (x :: w).length = dlo.length + 2 := by simp [hwl]
    have hsplit := split_top2 (x :: w) dlo.length hal
    have halo : Limbs ((x :: w).take dlo.length) := Limbs_take ha _
    have hm0 := limb_getD ha dlo.length
    have hm1 := limb_getD ha (dlo.length + 1)
    have hlen : ((x :: w).take dlo.length).length = dlo.length := by
      rw [List.length_take, hal]; omega
    generalize (x :: w).take dlo.length = alo at *
    generalize (x :: w).getD dlo.length 0 = m0 at *
    generalize (x :: w).getD (dlo.length + 1) 0 = m1 at *
    have hW : val (alo ++ [m0, m1]) + B ^ (dlo.length + 2) * n1 < B * val (dlo ++ [d0, d1]) := by
      rw [← hsplit, val_cons, pow_succ]
      have : B * (val w + B ^ (dlo.length + 1) * n1 + 1) ≤ B * val (dlo ++ [d0, d1]) := Nat.mul_le_mul_left _ hR
      have e : x + B * val w + B ^ (dlo.length + 1) * B * n1 + B
          = B * (val w + B ^ (dlo.length + 1) * n1 + 1) + x := by ring
      omega
    obtain ⟨q, w1, n1a, es, h1, h2, hq, hw1, hw1l, hn1a⟩ :=
      dqStepA_spec dlo alo d0 d1 m0 m1 n1 dinv hlen hdlo halo hd0 hd1 hm0 hm1 hn1 hnorm hdinv hW
    obtain ⟨ql, w', n1', el, hqll, hql, h3, h4, hw', hw'l, hn1'⟩ :=
      dqLoopA_spec dlo d0 d1 dinv hdlo hd0 hd1 hnorm hdinv xs w1 n1a (q :: qs) hxs' hw1 hw1l hn1a h2
    rw [dqLoopA_cons, hsplit, es]
    simp only []
    rw [el]
    refine ⟨ql ++ [q], w', n1', by simp, by simp [hqll], Limbs_snoc hql hq, ?_, h4, hw', hw'l, hn1'⟩
    rw [List.reverse_cons, val_top1, val_top1, List.length_reverse, hqll, List.length_cons, pow_succ]
    rw [← hsplit, val_cons, pow_succ] at h1
    have e : val xs.reverse + B ^ xs.length * x + B ^ xs.length * B * (val w + B ^ (dlo.length + 1) * n1)
        = val xs.reverse + B ^ xs.length * (x + B * val w + B ^ (dlo.length + 1) * B * n1) := by ring
    rw [e, h1]
    have e2 : (val ql + B ^ xs.length * q) * val (dlo ++ [d0, d1]) + (val w' + B ^ (dlo.length + 1) * n1')
        = B ^ xs.length * (q * val (dlo ++ [d0, d1]))
          + (val ql * val (dlo ++ [d0, d1]) + (val w' + B ^ (dlo.length + 1) * n1')) := by ring
    rw [e2, ← h3]; ring

theorem B_eq_succ2 : ∃ b2, B = b2 + 2 := ⟨2 ^ 64 - 2, by unfold B; norm_num⟩

/-- arithmetic of the q = B-1 branch of the truncating loop (sb_div_q.c:118-134): `va` the memory limbs of the window,
    `n1` its top limb, `vr`, `cy` the result and borrow of mpn_submul_1 by B-1 = b2+1; P = B^(len), Pl = P/B -/
theorem bm1_arith (P Pl V va n1 cy vr d1 b2 : Nat) (hP : P = Pl * B) (hb : B = b2 + 2)
    (hV2 : V < (d1 + 1) * Pl) (hva : va < P)
    (hvr : vr < P) (hd1 : d1 < B) (hnorm : B ≤ 2 * d1) (hn1 : d1 ≤ n1)
    (hsub : vr + V * (b2 + 1) = va + P * cy) :
    (n1 = cy → va + P * n1 = (b2 + 1) * V + vr) ∧
    (n1 < cy → P ≤ vr + V ∧ va + P * n1 + P = b2 * V + (vr + V) ∧ vr + V < V + P) ∧
    (cy < n1 → (b2 + 1) * V + P ≤ va + P * n1) := by
  have hVlt : V < P := by
    have : (d1 + 1) * Pl ≤ B * Pl := Nat.mul_le_mul_right _ hd1
    rw [hP]; nlinarith
  refine ⟨?_, ?_, ?_⟩
  · rintro rfl; linarith
  · intro hlt
    -- W > (B-2)·V
    have hW : b2 * V < va + P * n1 := by
      have h1 : P * d1 ≤ P * n1 := Nat.mul_le_mul_left _ hn1
      have h2 : b2 * V ≤ b2 * ((d1 + 1) * Pl) := Nat.mul_le_mul_left _ hV2.le
      have hPl : 0 < Pl := by
        rcases Nat.eq_zero_or_pos Pl with h | h
        · subst h; rw [hP] at hva; simp at hva
        · exact h
      have h3 : b2 * ((d1 + 1) * Pl) + 2 * Pl ≤ P * d1 := by
        have h4 : b2 * (d1 + 1) + 2 ≤ B * d1 := by rw [hb]; nlinarith
        have : Pl * (b2 * (d1 + 1) + 2) ≤ Pl * (B * d1) := Nat.mul_le_mul_left _ h4
        rw [hP]; nlinarith
      omega
    obtain ⟨e, he⟩ : ∃ e, cy = n1 + 1 + e := ⟨cy - n1 - 1, by omega⟩
    have hle : P * (n1 + 1 + e) = P * n1 + P + P * e := by ring
    rw [he, hle] at hsub
    have he0 : e = 0 := by
      rcases Nat.eq_zero_or_pos e with h | h
      · exact h
      · exfalso
        have : P * 1 ≤ P * e := Nat.mul_le_mul_left _ h
        nlinarith
    subst he0
    simp only [Nat.mul_zero, Nat.add_zero] at hsub
    refine ⟨by nlinarith, by linarith, by omega⟩
  · intro hlt
    obtain ⟨e, he⟩ : ∃ e, n1 = cy + 1 + e := ⟨n1 - cy - 1, by omega⟩
    subst he
    have hle : P * (cy + 1 + e) = P * cy + P + P * e := by ring
    rw [hle]
    nlinarith [Nat.zero_le (P * e)]

theorem val_dp_bounds (dlo : List Nat) (d0 d1 : Nat) (hdlo : Limbs dlo) (hd0 : d0 < B) :
    val (dlo ++ [d0, d1]) < (d1 + 1) * (B ^ dlo.length * B) := by
  rw [val_top2]
  have h1 := val_lt dlo hdlo
  have : B ^ dlo.length * (d0 + 1) ≤ B ^ dlo.length * B := Nat.mul_le_mul_left _ hd0
  nlinarith

/-- one iteration of the truncating loop of mpn_sb_div_q with flag = ~0 (sb_div_q.c:115-163): an exact division step
    of the window by the current divisor whose remainder is reduced unless q = B-1, or the `flag = 0` event -/
theorem dqStepB_true (dlo a : List Nat) (d0 d1 dinv n1 : Nat) (ha : a.length = dlo.length + 2)
    (hdlo : Limbs dlo) (hal : Limbs a) (hd0 : d0 < B) (hd1 : d1 < B) (hn1 : n1 < B)
    (hnorm : B / 2 ≤ d1) (hdinv : dinv = invert_pi1 d1 d0) :
    ∃ q w n1' fl, dqStepB (dlo ++ [d0, d1]) d1 d0 dinv a n1 true = (q, w, n1', fl) ∧
      q < B ∧ Limbs w ∧ w.length = dlo.length + 1 ∧ n1' < B ∧
      (fl = true → val a + B ^ (dlo.length + 2) * n1
          = q * val (dlo ++ [d0, d1]) + (val w + B ^ (dlo.length + 1) * n1') ∧
        (val w + B ^ (dlo.length + 1) * n1' < val (dlo ++ [d0, d1]) ∨ q = B - 1)) ∧
      (fl = false → q = B - 1 ∧
        (B - 1) * val (dlo ++ [d0, d1]) + B ^ (dlo.length + 2) ≤ val a + B ^ (dlo.length + 2) * n1) := by
  have hB := B_pos
  obtain ⟨b2, hb2⟩ := B_eq_succ2
  have hbm1 : B - 1 = b2 + 1 := by omega
  have hbm2 : B - 2 = b2 := by omega
  have hd : Limbs (dlo ++ [d0, d1]) := Limbs_append.mpr ⟨hdlo, Limbs_pair hd0 hd1⟩
  have hdl : (dlo ++ [d0, d1]).length = dlo.length + 2 := by simp
  unfold dqStepB
  simp only [len_top, andFlag, if_true]
  by_cases hge : n1 ≥ d1
  · rw [if_pos hge]
    obtain ⟨hv, hc, hrl, hrn⟩ := submul1C_val (B - 1) (by omega) a (dlo ++ [d0, d1]) 0 hal hd (by rw [ha, hdl]) hB
    change val (submul_1 _ _ _).1 + _ + 0 = _ + _ * (submul_1 _ _ _).2 at hv
    change (submul_1 _ _ _).2 < B at hc
    change Limbs (submul_1 _ _ _).1 at hrl
    change (submul_1 _ _ _).1.length = _ at hrn
    generalize submul_1 a (dlo ++ [d0, d1]) (B - 1) = rc at *
    obtain ⟨r, cy⟩ := rc
    simp only at hv hc hrl hrn ⊢
    rw [hdl] at hv hrn
    have hvr := val_lt r hrl
    have hva := val_lt a hal
    rw [hrn] at hvr
    rw [ha] at hva
    have hV2 := val_dp_bounds dlo d0 d1 hdlo hd0
    have hP : B ^ (dlo.length + 2) = B ^ dlo.length * B * B := pow_k2 _
    obtain ⟨k1, k2, k3⟩ := bm1_arith (B ^ (dlo.length + 2)) (B ^ dlo.length * B) (val (dlo ++ [d0, d1])) (val a) n1 cy
      (val r) d1 b2 hP hb2 hV2 hva hvr hd1 (by simp only [B_eq] at *; omega) hge (by rw [← hbm1]; linarith)
    have hsp := split_top2_val r dlo.length hrn
    have hsp' : val (r.take (dlo.length + 1)) + B ^ (dlo.length + 1) * r.getD (dlo.length + 1) 0 = val r :=
      val_take_top r (dlo.length + 1) hrn
    by_cases hne : n1 ≠ cy
    · rw [if_pos hne]
      by_cases hlt : n1 < cy
      · rw [if_pos hlt]
        simp only []
        obtain ⟨m1, m2, m3⟩ := k2 hlt
        obtain ⟨av, ac, al, an⟩ := addNC_val r (dlo ++ [d0, d1]) 0 hrl hd (by rw [hrn, hdl]) (by omega)
        change val (add_n _ _).1 + _ * (add_n _ _).2 = _ at av
        change (add_n _ _).2 ≤ 1 at ac
        change Limbs (add_n _ _).1 at al
        change (add_n _ _).1.length = _ at an
        generalize add_n r (dlo ++ [d0, d1]) = sc at *
        obtain ⟨vs, c⟩ := sc
        simp only at av ac al an ⊢
        rw [hrn] at av an
        have hvs := val_lt vs al
        rw [an] at hvs
        have hc1 : c = 1 := by
          rcases Nat.eq_zero_or_pos c with h | h
          · subst h; omega
          · omega
        subst hc1
        have hsv : val (vs.take (dlo.length + 1)) + B ^ (dlo.length + 1) * vs.getD (dlo.length + 1) 0 = val vs :=
          val_take_top vs (dlo.length + 1) an
        refine ⟨B - 2, _, _, true, rfl, by omega, Limbs_take al _, by rw [List.length_take, an]; omega,
          limb_getD al _, fun _ => ⟨?_, Or.inl ?_⟩, fun h => by cases h⟩
        · rw [hsv, hbm2]; omega
        · rw [hsv]; omega
      · rw [if_neg hlt]
        simp only []
        refine ⟨B - 1, _, _, false, rfl, by omega, Limbs_take hrl _, by rw [List.length_take, hrn]; omega,
          limb_getD hrl _, (fun h => by cases h), fun _ => ⟨rfl, ?_⟩⟩
        rw [hbm1]; exact k3 (by omega)
    · rw [if_neg hne]
      have hq : n1 = cy := by omega
      refine ⟨B - 1, _, _, true, rfl, by omega, Limbs_take hrl _, by rw [List.length_take, hrn]; omega,
        limb_getD hrl _, fun _ => ⟨?_, Or.inr rfl⟩, fun h => by cases h⟩
      rw [hsp', hbm1]; exact k1 hq
  · rw [if_neg hge]
    have hsplit := split_top2 a dlo.length ha
    have halo : Limbs (a.take dlo.length) := Limbs_take hal _
    have hm0 := limb_getD hal dlo.length
    have hm1 := limb_getD hal (dlo.length + 1)
    have hlen : (a.take dlo.length).length = dlo.length := by rw [List.length_take, ha]; omega
    generalize a.take dlo.length = alo at *
    generalize a.getD dlo.length 0 = m0 at *
    generalize a.getD (dlo.length + 1) 0 = m1 at *
    subst hsplit
    have hN : n1 * B + m1 < d1 * B + d0 := by
      have : (n1 + 1) * B ≤ d1 * B := Nat.mul_le_mul_right _ (by omega)
      nlinarith
    rw [dqRegular_eq_sb dlo alo d0 d1 m0 m1 n1 dinv hlen hdlo halo hd0 hd1 hm0 hm1 hn1 hnorm hdinv hN]
    obtain ⟨q, w, n1', e, h1, h2, hq, hw, hwl, hn1'⟩ :=
      sbRegular_spec dlo alo d0 d1 m0 m1 n1 dinv hlen hdlo halo hd0 hd1 hm0 hm1 hn1 hnorm hdinv hN
    rw [e]
    exact ⟨q, w, n1', true, rfl, hq, hw, hwl, hn1', fun _ => ⟨h1, Or.inl h2⟩, fun h => by cases h⟩

/-- with flag = 0 every further quotient limb is B-1 and the flag stays 0 -/
theorem dqStepB_false (dp a : List Nat) (d1 d0 dinv n1 : Nat) :
    (dqStepB dp d1 d0 dinv a n1 false).1 = B - 1 ∧ (dqStepB dp d1 d0 dinv a n1 false).2.2.2 = false := by
  unfold dqStepB
  simp only [andFlag, Bool.false_eq_true, if_false, ge_iff_le, Nat.zero_le, if_true, Nat.not_lt_zero]
  split <;> simp


theorem norm_two (d1 : Nat) (h : B / 2 ≤ d1) : B ≤ 2 * d1 := by
  simp only [B_eq] at *; omega

theorem add_ssaaaa_val (r1 r0 d1 d0 : Nat) (hr1 : r1 < B) (hr0 : r0 < B) (hd1 : d1 < B) (hd0 : d0 < B)
    (hc : B * B ≤ r0 + B * r1 + (d0 + B * d1)) :
    (add_ssaaaa r1 r0 d1 d0).2 + B * (add_ssaaaa r1 r0 d1 d0).1 + B * B = r0 + B * r1 + (d0 + B * d1) ∧
      (add_ssaaaa r1 r0 d1 d0).2 < B ∧ (add_ssaaaa r1 r0 d1 d0).1 < B := by
  unfold add_ssaaaa
  simp only [B_eq] at *
  omega

theorem list_len2 (l : List Nat) (h : l.length = 2) : ∃ x y, l = [x, y] := by
  match l, h with
  | [x, y], _ => exact ⟨x, y, rfl⟩

theorem submul_two (a u : List Nat) (v : Nat) (ha : a.length = 2) (hu : u.length = 2) (hal : Limbs a) (hul : Limbs u)
    (hv : v < B) :
    ∃ r0 r1 cy, submul_1 a u v = ([r0, r1], cy) ∧ r0 < B ∧ r1 < B ∧ cy < B ∧
      r0 + B * r1 + val u * v = val a + B * B * cy := by
  obtain ⟨h1, hc, hrl, hrn⟩ := submul1C_val v hv a u 0 hal hul (by rw [ha, hu]) B_pos
  change val (submul_1 _ _ _).1 + _ + 0 = _ + _ * (submul_1 _ _ _).2 at h1
  change (submul_1 _ _ _).2 < B at hc
  change Limbs (submul_1 _ _ _).1 at hrl
  change (submul_1 _ _ _).1.length = _ at hrn
  generalize submul_1 a u v = rc at *
  obtain ⟨r, cy⟩ := rc
  simp only at h1 hc hrl hrn ⊢
  rw [hu] at hrn h1
  obtain ⟨r0, r1, rfl⟩ := list_len2 r hrn
  have hr0 : r0 < B := hrl r0 (by simp)
  have hr1 : r1 < B := hrl r1 (by simp)
  refine ⟨r0, r1, cy, rfl, hr0, hr1, hc, ?_⟩
  simp only [val_cons, val_nil, Nat.mul_zero, Nat.add_zero] at h1
  rw [show B ^ 2 = B * B from pow_two B] at h1
  linarith

theorem two_limb_lt (x y : Nat) (hx : x < B) (hy : y < B) : x + B * y < B * B ∧ x + B * y < (y + 1) * B := by
  constructor <;> nlinarith

/-- the last quotient limb of mpn_sb_div_q with flag = ~0 (sb_div_q.c:165-196) -/
theorem dqLast_true (a0 a1 d0 d1 dinv n1 : Nat) (ha0 : a0 < B) (ha1 : a1 < B) (hd0 : d0 < B) (hd1 : d1 < B)
    (hn1 : n1 < B) (hnorm : B / 2 ≤ d1) (hdinv : dinv = invert_pi1 d1 d0) :
    ∃ q r0 r1 fl, dqLast d1 d0 dinv [a0, a1] n1 true = (q, [r0, r1], r1, fl) ∧
      q < B ∧ r0 < B ∧ r1 < B ∧
      (fl = true → a0 + B * a1 + B * B * n1 = q * (d0 + B * d1) + (r0 + B * r1) ∧
        (r0 + B * r1 < d0 + B * d1 ∨ q = B - 1)) ∧
      (fl = false → q = B - 1 ∧ (B - 1) * (d0 + B * d1) + B * B ≤ a0 + B * a1 + B * B * n1) := by
  have hB := B_pos
  obtain ⟨b2, hb2⟩ := B_eq_succ2
  have hbm1 : B - 1 = b2 + 1 := by omega
  have hbm2 : B - 2 = b2 := by omega
  have hd : Limbs [d0, d1] := Limbs_pair hd0 hd1
  have hal : Limbs [a0, a1] := Limbs_pair ha0 ha1
  unfold dqLast
  simp only [andFlag, if_true]
  by_cases hge : n1 ≥ d1
  · rw [if_pos hge]
    obtain ⟨r0, r1, cy, erc, hr0, hr1, hc, hv⟩ := submul_two [a0, a1] [d0, d1] (B - 1) rfl rfl hal hd (by omega)
    rw [erc]
    simp only [val_cons, val_nil, Nat.mul_zero, Nat.add_zero] at hv
    simp only []
    have hsub : r0 + B * r1 + (d0 + B * d1) * (b2 + 1) = a0 + B * a1 + B * B * cy := by
      rw [← hbm1]; exact hv
    have hk := fun (P : Nat) (hP : P = B * B) => bm1_arith P B (d0 + B * d1) (a0 + B * a1) n1 cy (r0 + B * r1) d1 b2 hP hb2
      (two_limb_lt d0 d1 hd0 hd1).2 (hP ▸ (two_limb_lt a0 a1 ha0 ha1).1) (hP ▸ (two_limb_lt r0 r1 hr0 hr1).1) hd1
      (norm_two d1 hnorm) hge (hP ▸ hsub)
    obtain ⟨k1, k2, k3⟩ := hk (B * B) (Eq.refl _)
    by_cases hne : n1 ≠ cy
    · rw [if_pos hne]
      by_cases hlt : n1 < cy
      · rw [if_pos hlt]
        simp only [List.getD_cons_zero, List.getD_cons_succ]
        obtain ⟨m1, m2, m3⟩ := k2 hlt
        obtain ⟨s1, s2, s3⟩ := add_ssaaaa_val r1 r0 d1 d0 hr1 hr0 hd1 hd0 m1
        refine ⟨B - 2, _, _, true, rfl, by omega, s2, s3, fun _ => ⟨?_, Or.inl ?_⟩, fun h => by cases h⟩
        · rw [hbm2]; omega
        · omega
      · rw [if_neg hlt]
        simp only [List.getD_cons_zero, List.getD_cons_succ]
        refine ⟨B - 1, _, _, false, rfl, by omega, hr0, hr1, (fun h => by cases h), fun _ => ⟨rfl, ?_⟩⟩
        rw [hbm1]; exact k3 (by omega)
    · rw [if_neg hne]
      simp only [List.getD_cons_zero, List.getD_cons_succ]
      refine ⟨B - 1, _, _, true, rfl, by omega, hr0, hr1, fun _ => ⟨?_, Or.inr rfl⟩, fun h => by cases h⟩
      rw [hbm1]; exact k1 (by omega)
  · rw [if_neg hge]
    simp only [List.getD_cons_zero, List.getD_cons_succ]
    have hN : n1 * B + a1 < d1 * B + d0 := by
      have : (n1 + 1) * B ≤ d1 * B := Nat.mul_le_mul_right _ (by omega)
      nlinarith
    rw [udiv_qr_3by2_eq n1 a1 a0 d1 d0 dinv hn1 ha1 ha0 hd1 hd0 hnorm hN
      (by rw [hdinv]; exact invert_pi1_eq d1 d0 hnorm hd1 hd0)]
    simp only []
    have hddpos : 0 < d1 * B + d0 := by omega
    have hdm := Nat.div_add_mod (n1 * B * B + a1 * B + a0) (d1 * B + d0)
    have hrem := Nat.mod_lt (n1 * B * B + a1 * B + a0) hddpos
    have hqB : (n1 * B * B + a1 * B + a0) / (d1 * B + d0) < B := by
      rw [Nat.div_lt_iff_lt_mul hddpos]
      nlinarith
    have hddlt : d1 * B + d0 < B * B := by nlinarith
    generalize (n1 * B * B + a1 * B + a0) / (d1 * B + d0) = q at *
    generalize (n1 * B * B + a1 * B + a0) % (d1 * B + d0) = rem at *
    have h1 : rem / B < B := by rw [Nat.div_lt_iff_lt_mul hB]; omega
    have h0 : rem % B < B := Nat.mod_lt _ hB
    have hr := Nat.div_add_mod rem B
    generalize rem / B = rh at *
    generalize rem % B = rl at *
    have e1 : a0 + B * a1 + B * B * n1 = q * (d0 + B * d1) + (rl + B * rh) := by
      have : n1 * B * B + a1 * B + a0 = a0 + B * a1 + B * B * n1 := by ring
      rw [← this, ← hdm, ← hr]; ring
    have e2 : rl + B * rh < d0 + B * d1 := by
      have : rl + B * rh = rem := by rw [← hr]; ring
      rw [this]; linarith
    exact ⟨q, rl, rh, true, rfl, hqB, h0, h1, fun _ => ⟨e1, Or.inl e2⟩, fun h => by cases h⟩

theorem dqLast_false (d1 d0 dinv : Nat) (a : List Nat) (n1 : Nat) :
    (dqLast d1 d0 dinv a n1 false).1 = B - 1 ∧ (dqLast d1 d0 dinv a n1 false).2.2.2 = false := by
  unfold dqLast
  simp only [andFlag, Bool.false_eq_true, if_false, ge_iff_le, Nat.zero_le, if_true, Nat.not_lt_zero]
  split <;> simp

end Mpir.SbDivQ
