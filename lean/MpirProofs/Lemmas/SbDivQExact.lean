/-
  Lemmas for C02 part c02_sbq (mpn_sb_div_q): the steps of Mpir/Model/SbDivQ.lean (`dq…`).
  * the borrow chain of sb_div_q.c:94-97 is the three-limb subtraction sub_333 of sb_div_qr.c, so the ordinary step and the
    first loop are those of mpn_sb_div_qr (MpirProofs/Lemmas/SbDiv.lean);
  * one step of the truncating loop: exact division step, possibly with an unreduced remainder when q = B-1, or the
    `flag = 0` event (the window exceeds (B-1)·d by B^(len) or more).
-/
import MpirProofs.Lemmas.SbDivQTop
namespace Mpir.SbDivQ
open Mpir Mpir.DivWord Mpir.SbDiv

theorem dqBorrow_spec (n1 n0 cy : Nat) (hn1 : n1 < B) (hn0 : n0 < B) (hcy : cy < B) :
    (dqBorrow n1 n0 cy).2.1 < B ∧ (dqBorrow n1 n0 cy).2.2 < B ∧
    (cy ≤ n1 * B + n0 → (dqBorrow n1 n0 cy).1 = 0 ∧
      (dqBorrow n1 n0 cy).2.1 * B + (dqBorrow n1 n0 cy).2.2 + cy = n1 * B + n0) ∧
    (n1 * B + n0 < cy → (dqBorrow n1 n0 cy).1 ≠ 0 ∧
      (dqBorrow n1 n0 cy).2.1 * B + (dqBorrow n1 n0 cy).2.2 + cy = n1 * B + n0 + B * B) := by
  unfold dqBorrow
  simp only [boolToNat_decide]
  simp only [B_eq] at *
  split <;> split <;> omega

theorem dqBorrow_eq (rem cy : Nat) (hrem : rem < B * B) (hcy : cy < B) :
    (dqBorrow (rem / B) (rem % B) cy).2 = (sub_333_0 (rem / B) (rem % B) cy).2 ∧
    ((dqBorrow (rem / B) (rem % B) cy).1 ≠ 0 ↔ (sub_333_0 (rem / B) (rem % B) cy).1 ≠ 0) := by
  have hB := B_pos
  have h1 : rem / B < B := by rw [Nat.div_lt_iff_lt_mul hB]; exact hrem
  have h0 : rem % B < B := Nat.mod_lt _ hB
  have hr : rem / B * B + rem % B = rem := by have := Nat.div_add_mod rem B; linarith
  obtain ⟨a1, a0, anb, abo⟩ := dqBorrow_spec (rem / B) (rem % B) cy h1 h0 hcy
  obtain ⟨s1, s0, snb, sbo⟩ := sub_333_0_spec rem cy hrem hcy
  rw [hr] at anb abo
  generalize dqBorrow (rem / B) (rem % B) cy = b at *
  generalize sub_333_0 (rem / B) (rem % B) cy = s at *
  obtain ⟨b1, b2, b3⟩ := b
  obtain ⟨t1, t2, t3⟩ := s
  simp only at *
  by_cases h : cy ≤ rem
  · obtain ⟨e1, e2⟩ := anb h
    obtain ⟨f1, f2⟩ := snb h
    refine ⟨?_, by simp [e1, f1]⟩
    have : b2 = t2 ∧ b3 = t3 := by simp only [B_eq] at *; omega
    rw [this.1, this.2]
  · obtain ⟨e1, e2⟩ := abo (by omega)
    obtain ⟨f1, f2⟩ := sbo (by omega)
    refine ⟨?_, by simp [e1, f1]⟩
    have : b2 = t2 ∧ b3 = t3 := by simp only [B_eq] at *; omega
    rw [this.1, this.2]

/-- under the preconditions of the step the ordinary branch of mpn_sb_div_q is the ordinary branch of mpn_sb_div_qr -/
theorem dqRegular_eq_sb (dlo alo : List Nat) (d0 d1 m0 m1 n1 dinv : Nat) (hlen : alo.length = dlo.length)
    (hdlo : Limbs dlo) (halo : Limbs alo) (hd0 : d0 < B) (hd1 : d1 < B) (hm0 : m0 < B) (hm1 : m1 < B)
    (hn1 : n1 < B) (hnorm : B / 2 ≤ d1) (hdinv : dinv = invert_pi1 d1 d0)
    (hN : n1 * B + m1 < d1 * B + d0) :
    dqRegular (dlo ++ [d0, d1]) d1 d0 dinv (alo ++ [m0, m1]) n1
      = sbRegular (dlo ++ [d0, d1]) d1 d0 dinv (alo ++ [m0, m1]) n1 := by
  have hB := B_pos
  unfold dqRegular sbRegular
  simp only [len_top, take_top]
  rw [← hlen]
  simp only [getD_top0, getD_top1, take_top]
  rw [udiv_qr_3by2_eq n1 m1 m0 d1 d0 dinv hn1 hm1 hm0 hd1 hd0 hnorm hN
      (by rw [hdinv]; exact invert_pi1_eq d1 d0 hnorm hd1 hd0)]
  simp only []
  have hddpos : 0 < d1 * B + d0 := by omega
  have hrem := Nat.mod_lt (n1 * B * B + m1 * B + m0) hddpos
  have hddlt : d1 * B + d0 < B * B := by nlinarith
  have hqB : (n1 * B * B + m1 * B + m0) / (d1 * B + d0) < B := by
    rw [Nat.div_lt_iff_lt_mul hddpos]
    nlinarith
  generalize (n1 * B * B + m1 * B + m0) / (d1 * B + d0) = q at *
  generalize (n1 * B * B + m1 * B + m0) % (d1 * B + d0) = rem at *
  obtain ⟨_, hc, _, _⟩ := submul1C_val q hqB alo dlo 0 halo hdlo hlen hB
  change (submul_1 _ _ _).2 < B at hc
  generalize submul_1 alo dlo q = rc at *
  obtain ⟨e1, e2⟩ := dqBorrow_eq rem rc.2 (by omega) hc
  generalize dqBorrow (rem / B) (rem % B) rc.2 = b at *
  generalize sub_333_0 (rem / B) (rem % B) rc.2 = s at *
  obtain ⟨b1, b2⟩ := b
  obtain ⟨s1, s2⟩ := s
  simp only at e1 e2 ⊢
  subst e1
  by_cases h : b1 ≠ 0
  · rw [if_pos h, if_pos (e2.mp h)]
  · rw [if_neg h, if_neg (fun h' => h (e2.mpr h'))]

theorem dqStepA_eq (dlo alo : List Nat) (d0 d1 m0 m1 n1 dinv : Nat) (hlen : alo.length = dlo.length) :
    dqStepA (dlo ++ [d0, d1]) d1 d0 dinv (alo ++ [m0, m1]) n1 =
      if n1 = d1 ∧ m1 = d0 then sbSpecial (dlo ++ [d0, d1]) (alo ++ [m0, m1])
      else dqRegular (dlo ++ [d0, d1]) d1 d0 dinv (alo ++ [m0, m1]) n1 := by
  unfold dqStepA
  simp only [len_top]
  rw [← hlen]
  simp only [getD_top1]

/-- one iteration of the first loop of mpn_sb_div_q = one iteration of mpn_sb_div_qr -/
theorem dqStepA_spec (dlo alo : List Nat) (d0 d1 m0 m1 n1 dinv : Nat) (hlen : alo.length = dlo.length)
    (hdlo : Limbs dlo) (halo : Limbs alo) (hd0 : d0 < B) (hd1 : d1 < B) (hm0 : m0 < B) (hm1 : m1 < B)
    (hn1 : n1 < B) (hnorm : B / 2 ≤ d1) (hdinv : dinv = invert_pi1 d1 d0)
    (hW : val (alo ++ [m0, m1]) + B ^ (dlo.length + 2) * n1 < B * val (dlo ++ [d0, d1])) :
    ∃ q w n1', dqStepA (dlo ++ [d0, d1]) d1 d0 dinv (alo ++ [m0, m1]) n1 = (q, w, n1') ∧
      val (alo ++ [m0, m1]) + B ^ (dlo.length + 2) * n1
        = q * val (dlo ++ [d0, d1]) + (val w + B ^ (dlo.length + 1) * n1') ∧
      val w + B ^ (dlo.length + 1) * n1' < val (dlo ++ [d0, d1]) ∧
      q < B ∧ Limbs w ∧ w.length = dlo.length + 1 ∧ n1' < B := by
  rw [dqStepA_eq _ _ _ _ _ _ _ _ hlen]
  by_cases h : n1 = d1 ∧ m1 = d0
  · obtain ⟨rfl, rfl⟩ := h
    rw [if_pos ⟨rfl, rfl⟩]
    obtain ⟨w, n1', e, h1, h2, h3, h4, h5⟩ := sbSpecial_spec dlo alo m1 n1 m0 hlen hdlo halo hd0 hd1 hm0 hnorm hW
    exact ⟨_, w, n1', e, h1, h2, by have := B_pos; omega, h3, h4, h5⟩
  · rw [if_neg h]
    have hN : n1 * B + m1 < d1 * B + d0 := by
      have hW' := hW
      rw [val_top2, val_top2, hlen, pow_k2] at hW'
      have := top2_le (B ^ dlo.length) (val alo) (val dlo) (d0 + B * d1) m0 m1 n1 (by have := B_pos; positivity)
        (val_lt dlo hdlo) hW'
      simp only [B_eq] at *; omega
    rw [dqRegular_eq_sb dlo alo d0 d1 m0 m1 n1 dinv hlen hdlo halo hd0 hd1 hm0 hm1 hn1 hnorm hdinv hN]
    exact sbRegular_spec dlo alo d0 d1 m0 m1 n1 dinv hlen hdlo halo hd0 hd1 hm0 hm1 hn1 hnorm hdinv hN

theorem dqLoopA_cons (dp : List Nat) (d1 d0 dinv x : Nat) (xs w : List Nat) (n1 : Nat) (qs : List Nat) :
    dqLoopA dp d1 d0 dinv (x :: xs) w n1 qs =
      dqLoopA dp d1 d0 dinv xs (dqStepA dp d1 d0 dinv (x :: w) n1).2.1 (dqStepA dp d1 d0 dinv (x :: w) n1).2.2
        ((dqStepA dp d1 d0 dinv (x :: w) n1).1 :: qs) := rfl

/-- invariant of the first loop sb_div_q.c:80-109 (that of sb_div_qr.c:75-102) -/
theorem dqLoopA_spec (dlo : List Nat) (d0 d1 dinv : Nat) (hdlo : Limbs dlo) (hd0 : d0 < B) (hd1 : d1 < B)
    (hnorm : B / 2 ≤ d1) (hdinv : dinv = invert_pi1 d1 d0) :
    ∀ (xs w : List Nat) (n1 : Nat) (qs : List Nat), Limbs xs → Limbs w → w.length = dlo.length + 1 → n1 < B →
      val w + B ^ (dlo.length + 1) * n1 < val (dlo ++ [d0, d1]) →
      ∃ ql w' n1', dqLoopA (dlo ++ [d0, d1]) d1 d0 dinv xs w n1 qs = (ql ++ qs, w', n1') ∧
        ql.length = xs.length ∧ Limbs ql ∧
        val xs.reverse + B ^ xs.length * (val w + B ^ (dlo.length + 1) * n1)
          = val ql * val (dlo ++ [d0, d1]) + (val w' + B ^ (dlo.length + 1) * n1') ∧
        val w' + B ^ (dlo.length + 1) * n1' < val (dlo ++ [d0, d1]) ∧
        Limbs w' ∧ w'.length = dlo.length + 1 ∧ n1' < B
  | [], w, n1, qs, _, hw, hwl, hn1, hR => by
    refine ⟨[], w, n1, rfl, rfl, Limbs_nil, by simp, hR, hw, hwl, hn1⟩
  | x :: xs, w, n1, qs, hxs, hw, hwl, hn1, hR => by
    have ⟨hx, hxs'⟩ := Limbs_cons.mp hxs
    have ha : Limbs (x :: w) := Limbs_cons.mpr ⟨hx, hw⟩
    have hal : (x :: w).length = dlo.length + 2 := by simp [hwl]
    have hsplit := split_top2 (x :: w) dlo.length hal
    have halo : Limbs ((x :: w).take dlo.length) := Limbs_take ha _
    have hm0 := limb_getD ha dlo.length
    have hm1 := limb_getD ha (dlo.length + 1)
    have hlen : ((x :: w).take dlo.length).length = dlo.length := by
      rw [List.length_take, hal]; omega
    generalize (x :: w).take dlo.length = alo at *
    generalize (x :: w).getD dlo.length 0 = m0 at *
    generalize (x :: w).getD (dlo.length + 1) 0 = m1 at *
    have hW : val (alo ++ [m0, m1]) + B ^ (dlo.length + 2) * n1 < B * val (dlo ++ [d0, d1]) := by
      rw [← hsplit, val_cons, pow_succ]
      have : B * (val w + B ^ (dlo.length + 1) * n1 + 1) ≤ B * val (dlo ++ [d0, d1]) := Nat.mul_le_mul_left _ hR
      have e : x + B * val w + B ^ (dlo.length + 1) * B * n1 + B
          = B * (val w + B ^ (dlo.length + 1) * n1 + 1) + x := by ring
      omega
    obtain ⟨q, w1, n1a, es, h1, h2, hq, hw1, hw1l, hn1a⟩ :=
      dqStepA_spec dlo alo d0 d1 m0 m1 n1 dinv hlen hdlo halo hd0 hd1 hm0 hm1 hn1 hnorm hdinv hW
    obtain ⟨ql, w', n1', el, hqll, hql, h3, h4, hw', hw'l, hn1'⟩ :=
      dqLoopA_spec dlo d0 d1 dinv hdlo hd0 hd1 hnorm hdinv xs w1 n1a (q :: qs) hxs' hw1 hw1l hn1a h2
    rw [dqLoopA_cons, hsplit, es]
    simp only []
    rw [el]
    refine ⟨ql ++ [q], w', n1', by simp, by simp [hqll], Limbs_snoc hql hq, ?_, h4, hw', hw'l, hn1'⟩
    rw [List.reverse_cons, val_top1, val_top1, List.length_reverse, hqll, List.length_cons, pow_succ]
    rw [← hsplit, val_cons, pow_succ] at h1
    have e : val xs.reverse + B ^ xs.length * x + B ^ xs.length * B * (val w + B ^ (dlo.length + 1) * n1)
        = val xs.reverse + B ^ xs.length * (x + B * val w + B ^ (dlo.length + 1) * B * n1) := by ring
    rw [e, h1]
    have e2 : (val ql + B ^ xs.length * q) * val (dlo ++ [d0, d1]) + (val w' + B ^ (dlo.length + 1) * n1')
        = B ^ xs.length * (q * val (dlo ++ [d0, d1]))
          + (val ql * val (dlo ++ [d0, d1]) + (val w' + B ^ (dlo.length + 1) * n1')) := by ring
    rw [e2, ← h3]; ring

theorem B_eq_succ2 : ∃ b2, B = b2 + 2 := ⟨2 ^ 64 - 2, by unfold B; norm_num⟩

/-- arithmetic of the q = B-1 branch of the truncating loop (sb_div_q.c:118-134): `va` the memory limbs of the window,
    `n1` its top limb, `vr`, `cy` the result and borrow of mpn_submul_1 by B-1 = b2+1; P = B^(len), Pl = P/B -/
theorem bm1_arith (P Pl V va n1 cy vr d1 b2 : Nat) (hP : P = Pl * B) (hb : B = b2 + 2)
    (hV2 : V < (d1 + 1) * Pl) (hva : va < P)
    (hvr : vr < P) (hd1 : d1 < B) (hnorm : B ≤ 2 * d1) (hn1 : d1 ≤ n1)
    (hsub : vr + V * (b2 + 1) = va + P * cy) :
    (n1 = cy → va + P * n1 = (b2 + 1) * V + vr) ∧
    (n1 < cy → P ≤ vr + V ∧ va + P * n1 + P = b2 * V + (vr + V) ∧ vr + V < V + P) ∧
    (cy < n1 → (b2 + 1) * V + P ≤ va + P * n1) := by
  have hVlt : V < P := by
    have : (d1 + 1) * Pl ≤ B * Pl := Nat.mul_le_mul_right _ hd1
    rw [hP]; nlinarith
  refine ⟨?_, ?_, ?_⟩
  · rintro rfl; linarith
  · intro hlt
    -- W > (B-2)·V
    have hW : b2 * V < va + P * n1 := by
      have h1 : P * d1 ≤ P * n1 := Nat.mul_le_mul_left _ hn1
      have h2 : b2 * V ≤ b2 * ((d1 + 1) * Pl) := Nat.mul_le_mul_left _ hV2.le
      have hPl : 0 < Pl := by
        rcases Nat.eq_zero_or_pos Pl with h | h
        · subst h; rw [hP] at hva; simp at hva
        · exact h
      have h3 : b2 * ((d1 + 1) * Pl) + 2 * Pl ≤ P * d1 := by
        have h4 : b2 * (d1 + 1) + 2 ≤ B * d1 := by rw [hb]; nlinarith
        have : Pl * (b2 * (d1 + 1) + 2) ≤ Pl * (B * d1) := Nat.mul_le_mul_left _ h4
        rw [hP]; nlinarith
      omega
    obtain ⟨e, he⟩ : ∃ e, cy = n1 + 1 + e := ⟨cy - n1 - 1, by omega⟩
    have hle : P * (n1 + 1 + e) = P * n1 + P + P * e := by ring
    rw [he, hle] at hsub
    have he0 : e = 0 := by
      rcases Nat.eq_zero_or_pos e with h | h
      · exact h
      · exfalso
        have : P * 1 ≤ P * e := Nat.mul_le_mul_left _ h
        nlinarith
    subst he0
    simp only [Nat.mul_zero, Nat.add_zero] at hsub
    refine ⟨by nlinarith, by linarith, by omega⟩
  · intro hlt
    obtain ⟨e, he⟩ : ∃ e, n1 = cy + 1 + e := ⟨n1 - cy - 1, by omega⟩
    subst he
    have hle : P * (cy + 1 + e) = P * cy + P + P * e := by ring
    rw [hle]
    nlinarith [Nat.zero_le (P * e)]

end Mpir.SbDivQ
