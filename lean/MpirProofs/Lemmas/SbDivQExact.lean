/-
  Lemmas for C02 part c02_sbq (mpn_sb_div_q): the steps of Mpir/Model/SbDivQ.lean (`dq…`).
  * the borrow chain of sb_div_q.c:94-97 is the three-limb subtraction sub_333 of sb_div_qr.c, so the ordinary step and the
    first loop are those of mpn_sb_div_qr (MpirProofs/Lemmas/SbDiv.lean);
  * one step of the truncating loop: exact division step, possibly with an unreduced remainder when q = B-1, or the
    `flag = 0` event (the window exceeds (B-1)·d by B^(len) or more).
-/
import MpirProofs.Lemmas.SbDivQTop
namespace Mpir.SbDivQ
open Mpir Mpir.DivWord Mpir.SbDiv

theorem dqBorrow_spec (n1 n0 cy : Nat) (hn1 : n1 < B) (hn0 : n0 < B) (hcy : cy < B) :
    (dqBorrow n1 n0 cy).2.1 < B ∧ (dqBorrow n1 n0 cy).2.2 < B ∧
    (cy ≤ n1 * B + n0 → (dqBorrow n1 n0 cy).1 = 0 ∧
      (dqBorrow n1 n0 cy).2.1 * B + (dqBorrow n1 n0 cy).2.2 + cy = n1 * B + n0) ∧
    (n1 * B + n0 < cy → (dqBorrow n1 n0 cy).1 ≠ 0 ∧
      (dqBorrow n1 n0 cy).2.1 * B + (dqBorrow n1 n0 cy).2.2 + cy = n1 * B + n0 + B * B) := by
  unfold dqBorrow
  simp only [boolToNat_decide]
  simp only [B_eq] at *
  split <;> split <;> omega

theorem dqBorrow_eq (rem cy : Nat) (hrem : rem < B * B) (hcy : cy < B) :
    (dqBorrow (rem / B) (rem % B) cy).2 = (sub_333_0 (rem / B) (rem % B) cy).2 ∧
    ((dqBorrow (rem / B) (rem % B) cy).1 ≠ 0 ↔ (sub_333_0 (rem / B) (rem % B) cy).1 ≠ 0) := by
  have hB := B_pos
  have h1 : rem / B < B := by rw [Nat.div_lt_iff_lt_mul hB]; exact hrem
  have h0 : rem % B < B := Nat.mod_lt _ hB
  have hr : rem / B * B + rem % B = rem := by have := Nat.div_add_mod rem B; linarith
  obtain ⟨a1, a0, anb, abo⟩ := dqBorrow_spec (rem / B) (rem % B) cy h1 h0 hcy
  obtain ⟨s1, s0, snb, sbo⟩ := sub_333_0_spec rem cy hrem hcy
  rw [hr] at anb abo
  generalize dqBorrow (rem / B) (rem % B) cy = b at *
  generalize sub_333_0 (rem / B) (rem % B) cy = s at *
  obtain ⟨b1, b2, b3⟩ := b
  obtain ⟨t1, t2, t3⟩ := s
  simp only at *
  by_cases h : cy ≤ rem
  · obtain ⟨e1, e2⟩ := anb h
    obtain ⟨f1, f2⟩ := snb h
    refine ⟨?_, by simp [e1, f1]⟩
    have : b2 = t2 ∧ b3 = t3 := by simp only [B_eq] at *; omega
    rw [this.1, this.2]
  · obtain ⟨e1, e2⟩ := abo (by omega)
    obtain ⟨f1, f2⟩ := sbo (by omega)
    refine ⟨?_, by simp [e1, f1]⟩
    have : b2 = t2 ∧ b3 = t3 := by simp only [B_eq] at *; omega
    rw [this.1, this.2]

/-- under the preconditions of the step the ordinary branch of mpn_sb_div_q is the ordinary branch of mpn_sb_div_qr -/
theorem dqRegular_eq_sb (dlo alo : List Nat) (d0 d1 m0 m1 n1 dinv : Nat) (hlen : alo.length = dlo.length)
    (hdlo : Limbs dlo) (halo : Limbs alo) (hd0 : d0 < B) (hd1 : d1 < B) (hm0 : m0 < B) (hm1 : m1 < B)
    (hn1 : n1 < B) (hnorm : B / 2 ≤ d1) (hdinv : dinv = invert_pi1 d1 d0)
    (hN : n1 * B + m1 < d1 * B + d0) :
    dqRegular (dlo ++ [d0, d1]) d1 d0 dinv (alo ++ [m0, m1]) n1
      = sbRegular (dlo ++ [d0, d1]) d1 d0 dinv (alo ++ [m0, m1]) n1 := by
  have hB := B_pos
  unfold dqRegular sbRegular
  simp only [len_top, take_top]
  rw [← hlen]
  simp only [getD_top0, getD_top1, take_top]
  rw [udiv_qr_3by2_eq n1 m1 m0 d1 d0 dinv hn1 hm1 hm0 hd1 hd0 hnorm hN
      (by rw [hdinv]; exact invert_pi1_eq d1 d0 hnorm hd1 hd0)]
  simp only []
  have hddpos : 0 < d1 * B + d0 := by omega
  have hrem := Nat.mod_lt (n1 * B * B + m1 * B + m0) hddpos
  have hddlt : d1 * B + d0 < B * B := by nlinarith
  have hqB : (n1 * B * B + m1 * B + m0) / (d1 * B + d0) < B := by
    rw [Nat.div_lt_iff_lt_mul hddpos]
    nlinarith
  generalize (n1 * B * B + m1 * B + m0) / (d1 * B + d0) = q at *
  generalize (n1 * B * B + m1 * B + m0) % (d1 * B + d0) = rem at *
  obtain ⟨_, hc, _, _⟩ := submul1C_val q hqB alo dlo 0 halo hdlo hlen hB
  change (submul_1 _ _ _).2 < B at hc
  generalize submul_1 alo dlo q = rc at *
  obtain ⟨e1, e2⟩ := dqBorrow_eq rem rc.2 (by omega) hc
  generalize dqBorrow (rem / B) (rem % B) rc.2 = b at *
  generalize sub_333_0 (rem / B) (rem % B) rc.2 = s at *
  obtain ⟨b1, b2⟩ := b
  obtain ⟨s1, s2⟩ := s
  simp only at e1 e2 ⊢
  subst e1
  by_cases h : b1 ≠ 0
  · rw [if_pos h, if_pos (e2.mp h)]
  · rw [if_neg h, if_neg (fun h' => h (e2.mpr h'))]

end Mpir.SbDivQ
