/- Helper lemmas for C10 part `swar` (Mpir/Model/Swar.lean): a 64-bit word is the sum of its 8 bytes·256^i; every SWAR
   step acts byte-wise without carries between the fields; the per-byte facts are complete finite tables (`decide`). -/
import Mpir.Model.Swar
import Mpir.Model.Bits
namespace Mpir.Swar
open Mpir

/-- Σ_{i<k} f(byte_i x)·256^i -/
def mapB (f : Nat → Nat) : Nat → Nat → Nat
  | 0, _ => 0
  | k + 1, x => f (x % 256) + 256 * mapB f k (x / 256)
/-- Σ_{i<k} F(byte_i x, byte_i y)·256^i -/
def map2 (F : Nat → Nat → Nat) : Nat → Nat → Nat → Nat
  | 0, _, _ => 0
  | k + 1, x, y => F (x % 256) (y % 256) + 256 * map2 F k (x / 256) (y / 256)
/-- Σ_{i<k} f(byte_i x) -/
def sumB (f : Nat → Nat) : Nat → Nat → Nat
  | 0, _ => 0
  | k + 1, x => f (x % 256) + sumB f k (x / 256)
/-- the byte c repeated k times -/
def rep (c : Nat) : Nat → Nat
  | 0 => 0
  | k + 1 => c + 256 * rep c k

/-- bit count of a byte -/
def pc8 (b : Nat) : Nat := Bits.popcAux 8 b

theorem and_split (x m : Nat) : x &&& m = ((x % 256) &&& (m % 256)) + 256 * ((x / 256) &&& (m / 256)) := by
  have h1 := @Nat.and_mod_two_pow x m 8
  have h2 := @Nat.and_div_two_pow x m 8
  have e : (2:Nat) ^ 8 = 256 := by decide
  rw [e] at h1 h2
  omega

theorem and_rep (c : Nat) (hc : c < 256) : ∀ k x, x &&& rep c k = mapB (fun b => b &&& c) k x
  | 0, x => by simp [rep, mapB]
  | k + 1, x => by
    rw [and_split]
    simp only [rep, mapB]
    have a : (c + 256 * rep c k) % 256 = c := by omega
    have b : (c + 256 * rep c k) / 256 = rep c k := by omega
    rw [a, b, and_rep c hc k]

theorem mapB_congr (f g : Nat → Nat) (H : ∀ b, b < 256 → f b = g b) : ∀ k x, mapB f k x = mapB g k x
  | 0, _ => rfl
  | k + 1, x => by simp only [mapB]; rw [H _ (Nat.mod_lt _ (by decide)), mapB_congr f g H k]

theorem map2_congr (F G : Nat → Nat → Nat) (H : ∀ a, a < 256 → ∀ b, b < 256 → F a b = G a b) :
    ∀ k x y, map2 F k x y = map2 G k x y
  | 0, _, _ => rfl
  | k + 1, x, y => by
    simp only [map2]; rw [H _ (Nat.mod_lt _ (by decide)) _ (Nat.mod_lt _ (by decide)), map2_congr F G H k]

/-- shifting right by s ∈ {1,2,4} bits, seen byte-wise: the bits arriving from the next byte are passed to g -/
theorem mapB_div (g h : Nat → Nat) (d e : Nat) (hde : (d = 2 ∧ e = 128) ∨ (d = 4 ∧ e = 64) ∨ (d = 16 ∧ e = 16))
    (H : ∀ b, b < 256 → ∀ t, t < d → g (b / d + e * t) = h b) : ∀ k x, mapB g k (x / d) = mapB h k x
  | 0, _ => rfl
  | k + 1, x => by
    simp only [mapB]
    have e1 : (x / d) % 256 = (x % 256) / d + e * ((x / 256) % d) := by
      rcases hde with ⟨rfl, rfl⟩ | ⟨rfl, rfl⟩ | ⟨rfl, rfl⟩ <;> omega
    have e2 : x / d / 256 = x / 256 / d := by
      rcases hde with ⟨rfl, rfl⟩ | ⟨rfl, rfl⟩ | ⟨rfl, rfl⟩ <;> omega
    have dpos : 0 < d := by rcases hde with ⟨rfl, _⟩ | ⟨rfl, _⟩ | ⟨rfl, _⟩ <;> decide
    rw [e1, e2, H _ (Nat.mod_lt _ (by decide)) _ (Nat.mod_lt _ dpos), mapB_div g h d e hde H k]

theorem mapB_add (f g : Nat → Nat) : ∀ k x, mapB f k x + mapB g k x = mapB (fun b => f b + g b) k x
  | 0, _ => rfl
  | k + 1, x => by simp only [mapB]; rw [← mapB_add f g k]; omega

theorem mapB_add2 (f : Nat → Nat) : ∀ k x y, mapB f k x + mapB f k y = map2 (fun a b => f a + f b) k x y
  | 0, _, _ => rfl
  | k + 1, x, y => by simp only [mapB, map2]; rw [← mapB_add2 f k]; omega

theorem mapB_lt (f : Nat → Nat) (hf : ∀ b, b < 256 → f b < 256) : ∀ k x, mapB f k x < 256 ^ k
  | 0, _ => by simp [mapB]
  | k + 1, x => by
    simp only [mapB]
    have := mapB_lt f hf k (x / 256)
    have := hf (x % 256) (Nat.mod_lt _ (by decide))
    rw [Nat.pow_succ]; omega

theorem map2_lt (F : Nat → Nat → Nat) (hF : ∀ a, a < 256 → ∀ b, b < 256 → F a b < 256) : ∀ k x y, map2 F k x y < 256 ^ k
  | 0, _, _ => by simp [map2]
  | k + 1, x, y => by
    simp only [map2]
    have := map2_lt F hF k (x / 256) (y / 256)
    have := hF (x % 256) (Nat.mod_lt _ (by decide)) (y % 256) (Nat.mod_lt _ (by decide))
    rw [Nat.pow_succ]; omega

theorem mapB_id : ∀ k x, x < 256 ^ k → mapB (fun b => b) k x = x
  | 0, x, h => by simp at h; simp [mapB, h]
  | k + 1, x, h => by
    simp only [mapB]
    rw [Nat.pow_succ] at h
    rw [mapB_id k (x / 256) (by omega)]; omega

/-- bytes of a byte-wise image (no carries when every f b fits a byte) -/
theorem mapB_comp (f g : Nat → Nat) (hf : ∀ b, b < 256 → f b < 256) :
    ∀ k x, mapB g k (mapB f k x) = mapB (fun b => g (f b)) k x
  | 0, _ => rfl
  | k + 1, x => by
    simp only [mapB]
    have := hf (x % 256) (Nat.mod_lt _ (by decide))
    have a : (f (x % 256) + 256 * mapB f k (x / 256)) % 256 = f (x % 256) := by omega
    have b : (f (x % 256) + 256 * mapB f k (x / 256)) / 256 = mapB f k (x / 256) := by omega
    rw [a, b, mapB_comp f g hf k]

theorem mapB_comp2 (F : Nat → Nat → Nat) (g : Nat → Nat) (hF : ∀ a, a < 256 → ∀ b, b < 256 → F a b < 256) :
    ∀ k x y, mapB g k (map2 F k x y) = map2 (fun a b => g (F a b)) k x y
  | 0, _, _ => rfl
  | k + 1, x, y => by
    simp only [mapB, map2]
    have := hF (x % 256) (Nat.mod_lt _ (by decide)) (y % 256) (Nat.mod_lt _ (by decide))
    have a : (F (x % 256) (y % 256) + 256 * map2 F k (x / 256) (y / 256)) % 256 = F (x % 256) (y % 256) := by omega
    have b : (F (x % 256) (y % 256) + 256 * map2 F k (x / 256) (y / 256)) / 256 = map2 F k (x / 256) (y / 256) := by omega
    rw [a, b, mapB_comp2 F g hF k]

theorem sumB_comp (f g : Nat → Nat) (hf : ∀ b, b < 256 → f b < 256) :
    ∀ k x, sumB g k (mapB f k x) = sumB (fun b => g (f b)) k x
  | 0, _ => rfl
  | k + 1, x => by
    simp only [mapB, sumB]
    have := hf (x % 256) (Nat.mod_lt _ (by decide))
    have a : (f (x % 256) + 256 * mapB f k (x / 256)) % 256 = f (x % 256) := by omega
    have b : (f (x % 256) + 256 * mapB f k (x / 256)) / 256 = mapB f k (x / 256) := by omega
    rw [a, b, sumB_comp f g hf k]

/-! ## the masks -/
theorem M3_rep : M3 = rep 0x55 8 := by decide
theorem M5_rep : M5 = rep 0x33 8 := by decide
theorem M17_rep : M17 = rep 0x0f 8 := by decide
theorem B_256 : B = 256 ^ 8 := by decide

/-- (x >> s) & mask, byte-wise -/
theorem shr_and (c d e s : Nat) (hc : c < 256) (hd : 2 ^ s = d)
    (hde : (d = 2 ∧ e = 128) ∨ (d = 4 ∧ e = 64) ∨ (d = 16 ∧ e = 16))
    (H : ∀ b, b < 256 → ∀ t, t < d → (b / d + e * t) &&& c = (b / d) &&& c) (x : Nat) :
    (x >>> s) &&& rep c 8 = mapB (fun b => (b / d) &&& c) 8 x := by
  rw [Nat.shiftRight_eq_div_pow, hd, and_rep c hc]
  exact mapB_div _ _ d e hde H 8 x

/-- popcount.c:54  /* 2 0-2 */ on bytes -/
def h1 (b : Nat) : Nat := b - ((b / 2) &&& 0x55)
/-- popcount.c:55  /* 4 0-4 */ on bytes -/
def h2 (b : Nat) : Nat := ((b / 4) &&& 0x33) + (b &&& 0x33)
/-- two nibble fields holding the bit counts of the two nibbles of b -/
def n4 (b : Nat) : Nat := Bits.popcAux 4 (b % 16) + 16 * Bits.popcAux 4 (b / 16)

theorem red2_bytes (x : Nat) (hx : x < B) : red2 x = mapB h1 8 x := by
  unfold red2
  have t : (x >>> 1) &&& M3 = mapB (fun b => (b / 2) &&& 0x55) 8 x := by
    rw [M3_rep]; exact shr_and 0x55 2 128 1 (by decide) (by decide) (Or.inl ⟨rfl, rfl⟩) (by decide +kernel) x
  have s := mapB_add (fun b => (b / 2) &&& 0x55) h1 8 x
  rw [mapB_congr (fun b => ((b / 2) &&& 0x55) + h1 b) (fun b => b) (by decide +kernel) 8 x,
    mapB_id 8 x (by rw [← B_256]; exact hx)] at s
  rw [t]; simp only [B] at *; omega

theorem h1_lt : ∀ b, b < 256 → h1 b < 256 := by decide +kernel
theorem h2h1_lt : ∀ b, b < 256 → h2 (h1 b) < 256 := by decide +kernel
theorem h2h1_n4 : ∀ b, b < 256 → h2 (h1 b) = n4 b := by decide +kernel
theorem n4_lt : ∀ b, b < 256 → n4 b < 256 := by decide +kernel

theorem red4_bytes (p : Nat) : red4 p = mapB h2 8 p := by
  unfold red4
  have t : (p >>> 2) &&& M5 = mapB (fun b => (b / 4) &&& 0x33) 8 p := by
    rw [M5_rep]; exact shr_and 0x33 4 64 2 (by decide) (by decide) (Or.inr (Or.inl ⟨rfl, rfl⟩)) (by decide +kernel) p
  rw [t, M5_rep, and_rep 0x33 (by decide), mapB_add]
  have : mapB h2 8 p < B := by
    rw [B_256]; exact mapB_lt h2 (by decide +kernel) 8 p
  exact Nat.mod_eq_of_lt this

/-- popcount.c:53-55: sixteen 4-bit fields, field j = bit count of nibble j of the limb ("4 0-4"). -/
theorem limb4_bytes (u : Nat) (hu : u < B) : limb4 u = mapB n4 8 u := by
  show red4 (red2 u) = _
  rw [red4_bytes, red2_bytes u hu, mapB_comp h1 h2 h1_lt]
  exact mapB_congr _ _ h2h1_n4 8 u

theorem sumB_congr (f g : Nat → Nat) (H : ∀ b, b < 256 → f b = g b) : ∀ k x, sumB f k x = sumB g k x
  | 0, _ => rfl
  | k + 1, x => by simp only [sumB]; rw [H _ (Nat.mod_lt _ (by decide)), sumB_congr f g H k]

theorem popcAux_byte (n x : Nat) : Bits.popcAux (n + 8) x = pc8 (x % 256) + Bits.popcAux n (x / 256) := by
  have e : x / 2 / 2 / 2 / 2 / 2 / 2 / 2 / 2 = x / 256 := by omega
  simp only [pc8, Bits.popcAux]
  rw [e]; omega

theorem popc_bytes (x : Nat) : Bits.popc x = sumB pc8 8 x := by
  unfold Bits.popc
  rw [show (64 : Nat) = 56 + 8 from rfl, popcAux_byte, show (56 : Nat) = 48 + 8 from rfl, popcAux_byte,
    show (48 : Nat) = 40 + 8 from rfl, popcAux_byte, show (40 : Nat) = 32 + 8 from rfl, popcAux_byte,
    show (32 : Nat) = 24 + 8 from rfl, popcAux_byte, show (24 : Nat) = 16 + 8 from rfl, popcAux_byte,
    show (16 : Nat) = 8 + 8 from rfl, popcAux_byte, show (8 : Nat) = 0 + 8 from rfl, popcAux_byte]
  simp only [sumB, Bits.popcAux]

theorem n4_sum : ∀ b, b < 256 → n4 b % 16 + n4 b / 16 = pc8 b := by decide +kernel

/-- the sixteen 4-bit fields of `limb4 u` add up to the bit count of u -/
theorem limb4_sum (u : Nat) (hu : u < B) : sumB (fun b => b % 16 + b / 16) 8 (limb4 u) = Bits.popc u := by
  rw [limb4_bytes u hu, sumB_comp n4 _ n4_lt, popc_bytes]
  exact sumB_congr _ _ n4_sum 8 u

end Mpir.Swar
