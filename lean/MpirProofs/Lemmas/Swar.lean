/- Helper lemmas for C10 part `swar` (Mpir/Model/Swar.lean): a 64-bit word is the sum of its 8 bytes·256^i; every SWAR
   step acts byte-wise without carries between the fields; the per-byte facts are complete finite tables (`decide`). -/
import Mpir.Model.Swar
import Mpir.Model.Bits
namespace Mpir.Swar
open Mpir

/-- Σ_{i<k} f(byte_i x)·256^i -/
def mapB (f : Nat → Nat) : Nat → Nat → Nat
  | 0, _ => 0
  | k + 1, x => f (x % 256) + 256 * mapB f k (x / 256)
/-- Σ_{i<k} F(byte_i x, byte_i y)·256^i -/
def map2 (F : Nat → Nat → Nat) : Nat → Nat → Nat → Nat
  | 0, _, _ => 0
  | k + 1, x, y => F (x % 256) (y % 256) + 256 * map2 F k (x / 256) (y / 256)
/-- Σ_{i<k} f(byte_i x) -/
def sumB (f : Nat → Nat) : Nat → Nat → Nat
  | 0, _ => 0
  | k + 1, x => f (x % 256) + sumB f k (x / 256)
/-- the byte c repeated k times -/
def rep (c : Nat) : Nat → Nat
  | 0 => 0
  | k + 1 => c + 256 * rep c k

/-- bit count of a byte -/
def pc8 (b : Nat) : Nat := Bits.popcAux 8 b

theorem and_split (x m : Nat) : x &&& m = ((x % 256) &&& (m % 256)) + 256 * ((x / 256) &&& (m / 256)) := by
  have h1 := @Nat.and_mod_two_pow x m 8
  have h2 := @Nat.and_div_two_pow x m 8
  have e : (2:Nat) ^ 8 = 256 := by decide
  rw [e] at h1 h2
  omega

theorem and_rep (c : Nat) (hc : c < 256) : ∀ k x, x &&& rep c k = mapB (fun b => b &&& c) k x
  | 0, x => by simp [rep, mapB]
  | k + 1, x => by
    rw [and_split]
    simp only [rep, mapB]
    have a : (c + 256 * rep c k) % 256 = c := by omega
    have b : (c + 256 * rep c k) / 256 = rep c k := by omega
    rw [a, b, and_rep c hc k]

theorem mapB_congr (f g : Nat → Nat) (H : ∀ b, b < 256 → f b = g b) : ∀ k x, mapB f k x = mapB g k x
  | 0, _ => rfl
  | k + 1, x => by simp only [mapB]; rw [H _ (Nat.mod_lt _ (by decide)), mapB_congr f g H k]

theorem map2_congr (F G : Nat → Nat → Nat) (H : ∀ a, a < 256 → ∀ b, b < 256 → F a b = G a b) :
    ∀ k x y, map2 F k x y = map2 G k x y
  | 0, _, _ => rfl
  | k + 1, x, y => by
    simp only [map2]; rw [H _ (Nat.mod_lt _ (by decide)) _ (Nat.mod_lt _ (by decide)), map2_congr F G H k]

/-- shifting right by s ∈ {1,2,4} bits, seen byte-wise: the bits arriving from the next byte are passed to g -/
theorem mapB_div (g h : Nat → Nat) (d e : Nat) (hde : (d = 2 ∧ e = 128) ∨ (d = 4 ∧ e = 64) ∨ (d = 16 ∧ e = 16))
    (H : ∀ b, b < 256 → ∀ t, t < d → g (b / d + e * t) = h b) : ∀ k x, mapB g k (x / d) = mapB h k x
  | 0, _ => rfl
  | k + 1, x => by
    simp only [mapB]
    have e1 : (x / d) % 256 = (x % 256) / d + e * ((x / 256) % d) := by
      rcases hde with ⟨rfl, rfl⟩ | ⟨rfl, rfl⟩ | ⟨rfl, rfl⟩ <;> omega
    have e2 : x / d / 256 = x / 256 / d := by
      rcases hde with ⟨rfl, rfl⟩ | ⟨rfl, rfl⟩ | ⟨rfl, rfl⟩ <;> omega
    have dpos : 0 < d := by rcases hde with ⟨rfl, _⟩ | ⟨rfl, _⟩ | ⟨rfl, _⟩ <;> decide
    rw [e1, e2, H _ (Nat.mod_lt _ (by decide)) _ (Nat.mod_lt _ dpos), mapB_div g h d e hde H k]

theorem mapB_add (f g : Nat → Nat) : ∀ k x, mapB f k x + mapB g k x = mapB (fun b => f b + g b) k x
  | 0, _ => rfl
  | k + 1, x => by simp only [mapB]; rw [← mapB_add f g k]; omega

theorem mapB_add2 (f : Nat → Nat) : ∀ k x y, mapB f k x + mapB f k y = map2 (fun a b => f a + f b) k x y
  | 0, _, _ => rfl
  | k + 1, x, y => by simp only [mapB, map2]; rw [← mapB_add2 f k]; omega

theorem mapB_lt (f : Nat → Nat) (hf : ∀ b, b < 256 → f b < 256) : ∀ k x, mapB f k x < 256 ^ k
  | 0, _ => by simp [mapB]
  | k + 1, x => by
    simp only [mapB]
    have := mapB_lt f hf k (x / 256)
    have := hf (x % 256) (Nat.mod_lt _ (by decide))
    rw [Nat.pow_succ]; omega

theorem map2_lt (F : Nat → Nat → Nat) (hF : ∀ a, a < 256 → ∀ b, b < 256 → F a b < 256) : ∀ k x y, map2 F k x y < 256 ^ k
  | 0, _, _ => by simp [map2]
  | k + 1, x, y => by
    simp only [map2]
    have := map2_lt F hF k (x / 256) (y / 256)
    have := hF (x % 256) (Nat.mod_lt _ (by decide)) (y % 256) (Nat.mod_lt _ (by decide))
    rw [Nat.pow_succ]; omega

theorem mapB_id : ∀ k x, x < 256 ^ k → mapB (fun b => b) k x = x
  | 0, x, h => by simp at h; simp [mapB, h]
  | k + 1, x, h => by
    simp only [mapB]
    rw [Nat.pow_succ] at h
    rw [mapB_id k (x / 256) (by omega)]; omega

/-- bytes of a byte-wise image (no carries when every f b fits a byte) -/
theorem mapB_comp (f g : Nat → Nat) (hf : ∀ b, b < 256 → f b < 256) :
    ∀ k x, mapB g k (mapB f k x) = mapB (fun b => g (f b)) k x
  | 0, _ => rfl
  | k + 1, x => by
    simp only [mapB]
    have := hf (x % 256) (Nat.mod_lt _ (by decide))
    have a : (f (x % 256) + 256 * mapB f k (x / 256)) % 256 = f (x % 256) := by omega
    have b : (f (x % 256) + 256 * mapB f k (x / 256)) / 256 = mapB f k (x / 256) := by omega
    rw [a, b, mapB_comp f g hf k]

theorem mapB_comp2 (F : Nat → Nat → Nat) (g : Nat → Nat) (hF : ∀ a, a < 256 → ∀ b, b < 256 → F a b < 256) :
    ∀ k x y, mapB g k (map2 F k x y) = map2 (fun a b => g (F a b)) k x y
  | 0, _, _ => rfl
  | k + 1, x, y => by
    simp only [mapB, map2]
    have := hF (x % 256) (Nat.mod_lt _ (by decide)) (y % 256) (Nat.mod_lt _ (by decide))
    have a : (F (x % 256) (y % 256) + 256 * map2 F k (x / 256) (y / 256)) % 256 = F (x % 256) (y % 256) := by omega
    have b : (F (x % 256) (y % 256) + 256 * map2 F k (x / 256) (y / 256)) / 256 = map2 F k (x / 256) (y / 256) := by omega
    rw [a, b, mapB_comp2 F g hF k]

theorem sumB_comp (f g : Nat → Nat) (hf : ∀ b, b < 256 → f b < 256) :
    ∀ k x, sumB g k (mapB f k x) = sumB (fun b => g (f b)) k x
  | 0, _ => rfl
  | k + 1, x => by
    simp only [mapB, sumB]
    have := hf (x % 256) (Nat.mod_lt _ (by decide))
    have a : (f (x % 256) + 256 * mapB f k (x / 256)) % 256 = f (x % 256) := by omega
    have b : (f (x % 256) + 256 * mapB f k (x / 256)) / 256 = mapB f k (x / 256) := by omega
    rw [a, b, sumB_comp f g hf k]

/-! ## the masks -/
theorem M3_rep : M3 = rep 0x55 8 := by decide
theorem M5_rep : M5 = rep 0x33 8 := by decide
theorem M17_rep : M17 = rep 0x0f 8 := by decide
theorem B_256 : B = 256 ^ 8 := by decide

/-- (x >> s) & mask, byte-wise -/
theorem shr_and (c d e s : Nat) (hc : c < 256) (hd : 2 ^ s = d)
    (hde : (d = 2 ∧ e = 128) ∨ (d = 4 ∧ e = 64) ∨ (d = 16 ∧ e = 16))
    (H : ∀ b, b < 256 → ∀ t, t < d → (b / d + e * t) &&& c = (b / d) &&& c) (x : Nat) :
    (x >>> s) &&& rep c 8 = mapB (fun b => (b / d) &&& c) 8 x := by
  rw [Nat.shiftRight_eq_div_pow, hd, and_rep c hc]
  exact mapB_div _ _ d e hde H 8 x

/-- popcount.c:54  /* 2 0-2 */ on bytes -/
def h1 (b : Nat) : Nat := b - ((b / 2) &&& 0x55)
/-- popcount.c:55  /* 4 0-4 */ on bytes -/
def h2 (b : Nat) : Nat := ((b / 4) &&& 0x33) + (b &&& 0x33)
/-- two nibble fields holding the bit counts of the two nibbles of b -/
def n4 (b : Nat) : Nat := Bits.popcAux 4 (b % 16) + 16 * Bits.popcAux 4 (b / 16)

theorem red2_bytes (x : Nat) (hx : x < B) : red2 x = mapB h1 8 x := by
  unfold red2
  have t : (x >>> 1) &&& M3 = mapB (fun b => (b / 2) &&& 0x55) 8 x := by
    rw [M3_rep]; exact shr_and 0x55 2 128 1 (by decide) (by decide) (Or.inl ⟨rfl, rfl⟩) (by decide +kernel) x
  have s := mapB_add (fun b => (b / 2) &&& 0x55) h1 8 x
  rw [mapB_congr (fun b => ((b / 2) &&& 0x55) + h1 b) (fun b => b) (by decide +kernel) 8 x,
    mapB_id 8 x (by rw [← B_256]; exact hx)] at s
  rw [t]; simp only [B] at *; omega

theorem h1_lt : ∀ b, b < 256 → h1 b < 256 := by decide +kernel
theorem h2h1_lt : ∀ b, b < 256 → h2 (h1 b) < 256 := by decide +kernel
theorem h2h1_n4 : ∀ b, b < 256 → h2 (h1 b) = n4 b := by decide +kernel
theorem n4_lt : ∀ b, b < 256 → n4 b < 256 := by decide +kernel

theorem red4_bytes (p : Nat) : red4 p = mapB h2 8 p := by
  unfold red4
  have t : (p >>> 2) &&& M5 = mapB (fun b => (b / 4) &&& 0x33) 8 p := by
    rw [M5_rep]; exact shr_and 0x33 4 64 2 (by decide) (by decide) (Or.inr (Or.inl ⟨rfl, rfl⟩)) (by decide +kernel) p
  rw [t, M5_rep, and_rep 0x33 (by decide), mapB_add]
  have : mapB h2 8 p < B := by
    rw [B_256]; exact mapB_lt h2 (by decide +kernel) 8 p
  exact Nat.mod_eq_of_lt this

/-- popcount.c:53-55: sixteen 4-bit fields, field j = bit count of nibble j of the limb ("4 0-4"). -/
theorem limb4_bytes (u : Nat) (hu : u < B) : limb4 u = mapB n4 8 u := by
  show red4 (red2 u) = _
  rw [red4_bytes, red2_bytes u hu, mapB_comp h1 h2 h1_lt]
  exact mapB_congr _ _ h2h1_n4 8 u

theorem sumB_congr (f g : Nat → Nat) (H : ∀ b, b < 256 → f b = g b) : ∀ k x, sumB f k x = sumB g k x
  | 0, _ => rfl
  | k + 1, x => by simp only [sumB]; rw [H _ (Nat.mod_lt _ (by decide)), sumB_congr f g H k]

theorem popcAux_byte (n x : Nat) : Bits.popcAux (n + 8) x = pc8 (x % 256) + Bits.popcAux n (x / 256) := by
  have e : x / 2 / 2 / 2 / 2 / 2 / 2 / 2 / 2 = x / 256 := by omega
  simp only [pc8, Bits.popcAux]
  rw [e]; omega

theorem popc_bytes (x : Nat) : Bits.popc x = sumB pc8 8 x := by
  unfold Bits.popc
  rw [show (64 : Nat) = 56 + 8 from rfl, popcAux_byte, show (56 : Nat) = 48 + 8 from rfl, popcAux_byte,
    show (48 : Nat) = 40 + 8 from rfl, popcAux_byte, show (40 : Nat) = 32 + 8 from rfl, popcAux_byte,
    show (32 : Nat) = 24 + 8 from rfl, popcAux_byte, show (24 : Nat) = 16 + 8 from rfl, popcAux_byte,
    show (16 : Nat) = 8 + 8 from rfl, popcAux_byte, show (8 : Nat) = 0 + 8 from rfl, popcAux_byte]
  simp only [sumB, Bits.popcAux]

theorem n4_sum : ∀ b, b < 256 → n4 b % 16 + n4 b / 16 = pc8 b := by decide +kernel

/-- the sixteen 4-bit fields of `limb4 u` add up to the bit count of u -/
theorem limb4_sum (u : Nat) (hu : u < B) : sumB (fun b => b % 16 + b / 16) 8 (limb4 u) = Bits.popc u := by
  rw [limb4_bytes u hu, sumB_comp n4 _ n4_lt, popc_bytes]
  exact sumB_congr _ _ n4_sum 8 u


/-! ## the 4-limb block -/

def allB (p : Nat → Prop) : Nat → Nat → Prop
  | 0, _ => True
  | k + 1, x => p (x % 256) ∧ allB p k (x / 256)

theorem and15 (x : Nat) : x &&& 15 = x % 16 := Nat.and_two_pow_sub_one_eq_mod x 4
theorem and255 (x : Nat) : x &&& 255 = x % 256 := Nat.and_two_pow_sub_one_eq_mod x 8

/-- the word with bytes e0..e7 -/
def w8 (e0 e1 e2 e3 e4 e5 e6 e7 : Nat) : Nat :=
  e0 + 256 * e1 + 65536 * e2 + 16777216 * e3 + 4294967296 * e4 + 1099511627776 * e5 + 281474976710656 * e6 +
    72057594037927936 * e7

theorem fold_a (e0 e1 e2 e3 e4 e5 e6 e7 : Nat) (h0 : e0 ≤ 32) (h1 : e1 ≤ 32) (h2 : e2 ≤ 32) (h3 : e3 ≤ 32)
    (h4 : e4 ≤ 32) (h5 : e5 ≤ 32) (h6 : e6 ≤ 32) (h7 : e7 ≤ 32) :
    (w8 e0 e1 e2 e3 e4 e5 e6 e7 / 256 + w8 e0 e1 e2 e3 e4 e5 e6 e7) % 18446744073709551616 =
      w8 (e0 + e1) (e1 + e2) (e2 + e3) (e3 + e4) (e4 + e5) (e5 + e6) (e6 + e7) e7 := by
  simp only [w8]; omega

theorem fold_b (e0 e1 e2 e3 e4 e5 e6 e7 : Nat) (h0 : e0 ≤ 64) (h1 : e1 ≤ 64) (h2 : e2 ≤ 64) (h3 : e3 ≤ 64)
    (h4 : e4 ≤ 64) (h5 : e5 ≤ 64) (h6 : e6 ≤ 64) (h7 : e7 ≤ 64) :
    (w8 e0 e1 e2 e3 e4 e5 e6 e7 / 65536 + w8 e0 e1 e2 e3 e4 e5 e6 e7) % 18446744073709551616 =
      w8 (e0 + e2) (e1 + e3) (e2 + e4) (e3 + e5) (e4 + e6) (e5 + e7) e6 e7 := by
  have hd : w8 e0 e1 e2 e3 e4 e5 e6 e7 / 65536 = w8 e2 e3 e4 e5 e6 e7 0 0 := by simp only [w8]; omega
  rw [hd]; simp only [w8]; omega

theorem fold_c (e0 e1 e2 e3 e4 e5 e6 e7 : Nat) (h0 : e0 ≤ 128) (h1 : e1 ≤ 128) (h2 : e2 ≤ 128) (h3 : e3 ≤ 128)
    (h4 : e4 ≤ 128) (_h5 : e5 ≤ 128) (_h6 : e6 ≤ 128) (_h7 : e7 ≤ 128) :
    (w8 e0 e1 e2 e3 e4 e5 e6 e7 / 4294967296 % 256 + w8 e0 e1 e2 e3 e4 e5 e6 e7 % 256) % 18446744073709551616 =
      e0 + e4 := by
  have hd : w8 e0 e1 e2 e3 e4 e5 e6 e7 / 4294967296 = w8 e4 e5 e6 e7 0 0 0 0 := by simp only [w8]; omega
  rw [hd]; simp only [w8]; omega

theorem w8_bytes (x : Nat) : x % 18446744073709551616 =
    w8 (x % 256) (x / 256 % 256) (x / 256 / 256 % 256) (x / 256 / 256 / 256 % 256) (x / 256 / 256 / 256 / 256 % 256)
      (x / 256 / 256 / 256 / 256 / 256 % 256) (x / 256 / 256 / 256 / 256 / 256 / 256 % 256)
      (x / 256 / 256 / 256 / 256 / 256 / 256 / 256 % 256) := by
  simp only [w8]; omega
/-- popcount.c:75-79 as a function of p01 + p23 -/
def blockFolds (s : Nat) : Nat :=
  let x := s % B
  let x := ((x >>> 8) + x) % B
  let x := ((x >>> 16) + x) % B
  (((x >>> 32) &&& 0xff) + (x &&& 0xff)) % B

theorem block_unfold (u0 u1 u2 u3 : Nat) :
    block u0 u1 u2 u3 = blockFolds (fold8 ((limb4 u0 + limb4 u1) % B) + fold8 ((limb4 u2 + limb4 u3) % B)) := rfl

/-- popcount.c:76-79 on a word whose 8 byte fields are all ≤ 32 ("8 0-32"): no carry crosses a byte in :76 ("8 0-64")
    and :77 ("8 0-128"); :79 adds the two fields that hold the half sums ("8 0-256"). -/
theorem folds_block (x : Nat) (h : allB (· ≤ 32) 8 x) : blockFolds x = sumB (fun b => b) 8 x := by
  simp only [allB] at h
  obtain ⟨h0, h1, h2, h3, h4, h5, h6, h7, _⟩ := h
  simp only [blockFolds, sumB, Nat.shiftRight_eq_div_pow, and255, B, Nat.reducePow]
  rw [w8_bytes x, fold_a _ _ _ _ _ _ _ _ h0 h1 h2 h3 h4 h5 h6 h7,
    fold_b _ _ _ _ _ _ _ _ (by omega) (by omega) (by omega) (by omega) (by omega) (by omega) (by omega) (by omega),
    fold_c _ _ _ _ _ _ _ _ (by omega) (by omega) (by omega) (by omega) (by omega) (by omega) (by omega) (by omega)]
  omega

theorem n4_parts : ∀ b, b < 256 → n4 b % 16 ≤ 4 ∧ n4 b / 16 ≤ 4 ∧ n4 b % 16 + n4 b / 16 = pc8 b := by decide +kernel
theorem n4_le : ∀ b, b < 256 → n4 b ≤ 68 := by decide +kernel
theorem pc8_le : ∀ b, b < 256 → pc8 b ≤ 8 := by decide +kernel

/-- popcount.c:62 on bytes -/
def g8 (b : Nat) : Nat := ((b / 16) &&& 0x0f) + (b &&& 0x0f)

theorem fold8_bytes (p : Nat) : fold8 p = mapB g8 8 p := by
  unfold fold8
  have t : (p >>> 4) &&& M17 = mapB (fun b => (b / 16) &&& 0x0f) 8 p := by
    rw [M17_rep]; exact shr_and 0x0f 16 16 4 (by decide) (by decide) (Or.inr (Or.inr ⟨rfl, rfl⟩)) (by decide +kernel) p
  rw [t, M17_rep, and_rep 0x0f (by decide), mapB_add]
  have : mapB g8 8 p < B := by
    rw [B_256]; exact mapB_lt g8 (by decide +kernel) 8 p
  exact Nat.mod_eq_of_lt this

/-- popcount.c:53-62 (= :64-73): p01 has eight byte fields, field i = popc(byte i of u0) + popc(byte i of u1) ("8 0-16") -/
theorem fold8_pair (u0 u1 : Nat) (h0 : u0 < B) (h1 : u1 < B) :
    fold8 ((limb4 u0 + limb4 u1) % B) = map2 (fun a b => pc8 a + pc8 b) 8 u0 u1 := by
  have hF : ∀ a, a < 256 → ∀ b, b < 256 → n4 a + n4 b < 256 := fun a ha b hb => by
    have := n4_le a ha; have := n4_le b hb; omega
  rw [limb4_bytes u0 h0, limb4_bytes u1 h1, mapB_add2,
    Nat.mod_eq_of_lt (by rw [B_256]; exact map2_lt _ hF 8 u0 u1), fold8_bytes, mapB_comp2 _ g8 hF]
  apply map2_congr
  intro a ha b hb
  have ra := n4_parts a ha; have rb := n4_parts b hb
  simp only [g8, and15]
  omega

theorem allB_map2 (F : Nat → Nat → Nat) (p : Nat → Prop) (hF : ∀ a, a < 256 → ∀ b, b < 256 → F a b < 256 ∧ p (F a b)) :
    ∀ k x y, allB p k (map2 F k x y)
  | 0, _, _ => trivial
  | k + 1, x, y => by
    simp only [allB, map2]
    have := hF (x % 256) (Nat.mod_lt _ (by decide)) (y % 256) (Nat.mod_lt _ (by decide))
    have a : (F (x % 256) (y % 256) + 256 * map2 F k (x / 256) (y / 256)) % 256 = F (x % 256) (y % 256) := by omega
    have b : (F (x % 256) (y % 256) + 256 * map2 F k (x / 256) (y / 256)) / 256 = map2 F k (x / 256) (y / 256) := by omega
    rw [a, b]; exact ⟨this.2, allB_map2 F p hF k _ _⟩

theorem sumB_map2 (f : Nat → Nat) (hf : ∀ a, a < 256 → ∀ b, b < 256 → f a + f b < 256) :
    ∀ k x y, sumB (fun b => b) k (map2 (fun a b => f a + f b) k x y) = sumB f k x + sumB f k y
  | 0, _, _ => rfl
  | k + 1, x, y => by
    simp only [sumB, map2]
    have := hf (x % 256) (Nat.mod_lt _ (by decide)) (y % 256) (Nat.mod_lt _ (by decide))
    have a : (f (x % 256) + f (y % 256) + 256 * map2 (fun a b => f a + f b) k (x / 256) (y / 256)) % 256 =
        f (x % 256) + f (y % 256) := by omega
    have b : (f (x % 256) + f (y % 256) + 256 * map2 (fun a b => f a + f b) k (x / 256) (y / 256)) / 256 =
        map2 (fun a b => f a + f b) k (x / 256) (y / 256) := by omega
    rw [a, b, sumB_map2 f hf k]; omega

/-- adding two words whose byte fields are ≤ a and ≤ b with a + b < 256: field-wise, no carries -/
theorem allB_add (a b : Nat) (hab : a + b < 256) : ∀ k p q, allB (· ≤ a) k p → allB (· ≤ b) k q →
    allB (· ≤ a + b) k (p + q) ∧ sumB (fun b => b) k (p + q) = sumB (fun b => b) k p + sumB (fun b => b) k q
  | 0, _, _, _, _ => ⟨trivial, rfl⟩
  | k + 1, p, q, hp, hq => by
    simp only [allB, sumB] at *
    have e1 : (p + q) % 256 = p % 256 + q % 256 := by omega
    have e2 : (p + q) / 256 = p / 256 + q / 256 := by omega
    have ih := allB_add a b hab k (p / 256) (q / 256) hp.2 hq.2
    rw [e1, e2]
    exact ⟨⟨by omega, ih.1⟩, by rw [ih.2]; omega⟩

/-- popcount.c:53-80: the 4-limb block adds the bit counts of its four limbs to `result`. -/
theorem block_popc (u0 u1 u2 u3 : Nat) (h0 : u0 < B) (h1 : u1 < B) (h2 : u2 < B) (h3 : u3 < B) :
    block u0 u1 u2 u3 = Bits.popc u0 + Bits.popc u1 + Bits.popc u2 + Bits.popc u3 := by
  have hP : ∀ a, a < 256 → ∀ b, b < 256 → pc8 a + pc8 b < 256 ∧ pc8 a + pc8 b ≤ 16 := fun a ha b hb => by
    have := pc8_le a ha; have := pc8_le b hb; omega
  rw [block_unfold, fold8_pair u0 u1 h0 h1, fold8_pair u2 u3 h2 h3]
  have A := allB_add 16 16 (by decide) 8 _ _ (allB_map2 _ (· ≤ 16) hP 8 u0 u1) (allB_map2 _ (· ≤ 16) hP 8 u2 u3)
  rw [folds_block _ A.1, A.2, sumB_map2 pc8 (fun a ha b hb => (hP a ha b hb).1),
    sumB_map2 pc8 (fun a ha b hb => (hP a ha b hb).1), popc_bytes, popc_bytes, popc_bytes, popc_bytes]
  omega

theorem popcAux_le : ∀ k x, Bits.popcAux k x ≤ k
  | 0, _ => by simp [Bits.popcAux]
  | k + 1, x => by simp only [Bits.popcAux]; have := popcAux_le k (x / 2); omega
theorem popc_le_64 (x : Nat) : Bits.popc x ≤ 64 := popcAux_le 64 x

/-! ## the tail loop -/

theorem mapB_mod (g : Nat → Nat) : ∀ k y, mapB g k (y % 256 ^ k) = mapB g k y
  | 0, _ => rfl
  | k + 1, y => by
    simp only [mapB]
    rw [Nat.pow_succ, Nat.mod_mul_left_mod, Nat.mod_mul_left_div_self, mapB_mod g k]

theorem sumB_mod (g : Nat → Nat) : ∀ k y, sumB g k (y % 256 ^ k) = sumB g k y
  | 0, _ => rfl
  | k + 1, y => by
    simp only [sumB]
    rw [Nat.pow_succ, Nat.mod_mul_left_mod, Nat.mod_mul_left_div_self, sumB_mod g k]

theorem allB_mod (p : Nat → Prop) : ∀ k y, allB p k y → allB p k (y % 256 ^ k)
  | 0, _, _ => trivial
  | k + 1, y, h => by
    simp only [allB] at *
    rw [Nat.pow_succ, Nat.mod_mul_left_mod, Nat.mod_mul_left_div_self]
    exact ⟨h.1, allB_mod p k _ h.2⟩

theorem allB_mapB (f : Nat → Nat) (p : Nat → Prop) (hf : ∀ b, b < 256 → f b < 256 ∧ p (f b)) :
    ∀ k x, allB p k (mapB f k x)
  | 0, _ => trivial
  | k + 1, x => by
    simp only [allB, mapB]
    have := hf (x % 256) (Nat.mod_lt _ (by decide))
    have a : (f (x % 256) + 256 * mapB f k (x / 256)) % 256 = f (x % 256) := by omega
    have b : (f (x % 256) + 256 * mapB f k (x / 256)) / 256 = mapB f k (x / 256) := by omega
    rw [a, b]; exact ⟨this.2, allB_mapB f p hf k _⟩

/-- both nibbles of the byte are at most 4 (comment "4 0-4") -/
def good (b : Nat) : Prop := b % 16 ≤ 4 ∧ b / 16 ≤ 4

/-- popcount.c:99 `((p0 >> 4) + p0) & MAX/17` on nibble fields ≤ 4: the low nibble of every byte of (p0 >> 4) + p0 is
    the sum of the two nibbles of that byte of p0, and no carry reaches the next byte. -/
theorem tail_shift : ∀ k p, allB good k p →
    mapB (fun b => b % 16) k (p / 16 + p) = mapB (fun b => (b / 16 + b) % 16) k p
  | 0, _, _ => rfl
  | 1, p, _ => by
    simp only [mapB]
    have e1 : (p / 16 + p) % 256 % 16 = (p % 256 / 16 + p % 256) % 16 := by omega
    rw [e1]
  | k + 2, p, h => by
    have ih := tail_shift (k + 1) (p / 256) h.2
    simp only [allB, good] at h
    have e1 : (p / 16 + p) % 256 % 16 = (p % 256 / 16 + p % 256) % 16 := by omega
    have h16 : p / 16 = p % 256 / 16 + 16 * (p / 256) := by omega
    have hr : p / 256 = (p / 256) % 16 + 16 * (p / 256 / 16) := by omega
    have hrr : (p / 256) % 16 = p / 256 % 256 % 16 := by omega
    have e2 : (p / 16 + p) / 256 = p / 256 / 16 + p / 256 := by omega
    simp only [mapB] at ih ⊢
    rw [e2, ih, e1]

theorem n4_good : ∀ b, b < 256 → n4 b < 256 ∧ good (n4 b) := by
  intro b hb; have := n4_parts b hb; have := n4_lt b hb; exact ⟨by omega, by unfold good; omega⟩
theorem n4_fold : ∀ b, b < 256 → (n4 b / 16 + n4 b) % 16 = pc8 b := by decide +kernel

/-- popcount.c:96-99: the tail loop's per-limb value has eight byte fields, field i = popc(byte i of u) ("8 0-8") -/
theorem tailLimb_bytes (u : Nat) (hu : u < B) : tailLimb u = mapB pc8 8 u := by
  show (((limb4 u >>> 4) + limb4 u) % B) &&& M17 = _
  rw [M17_rep, and_rep 0x0f (by decide), mapB_congr (fun b => b &&& 15) (fun b => b % 16) (fun b _ => and15 b), B_256,
    mapB_mod, Nat.shiftRight_eq_div_pow, show (2:Nat) ^ 4 = 16 from rfl, limb4_bytes u hu,
    tail_shift 8 _ (allB_mapB n4 good n4_good 8 u), mapB_comp n4 _ n4_lt]
  exact mapB_congr _ _ n4_fold 8 u

theorem fold_d (e0 e1 e2 e3 e4 e5 e6 e7 : Nat) (h0 : e0 ≤ 127) (h1 : e1 ≤ 127) (h2 : e2 ≤ 127) (h3 : e3 ≤ 127)
    (h4 : e4 ≤ 127) (_h5 : e5 ≤ 127) (_h6 : e6 ≤ 127) (_h7 : e7 ≤ 127) :
    (w8 e0 e1 e2 e3 e4 e5 e6 e7 / 4294967296 + w8 e0 e1 e2 e3 e4 e5 e6 e7) % 18446744073709551616 % 256 =
      e0 + e4 := by
  have hd : w8 e0 e1 e2 e3 e4 e5 e6 e7 / 4294967296 = w8 e4 e5 e6 e7 0 0 0 0 := by simp only [w8]; omega
  rw [hd]; simp only [w8]; omega

/-- popcount.c:109-114 on a word whose 8 byte fields are all ≤ 24 (at most 3 tail limbs, "8 0-8" each): the folds add
    the fields without carries and the total (≤ 192) fits the byte that :114 masks out. -/
theorem tailFin_bytes (x : Nat) (hx : x < B) (h : allB (· ≤ 24) 8 x) : tailFin x = sumB (fun b => b) 8 x := by
  simp only [allB] at h
  obtain ⟨h0, h1, h2, h3, h4, h5, h6, h7, _⟩ := h
  have hx' : x % 18446744073709551616 = x := Nat.mod_eq_of_lt hx
  have w := w8_bytes x
  rw [hx'] at w
  simp only [tailFin, sumB, Nat.shiftRight_eq_div_pow, and255, B, Nat.reducePow]
  rw [w, fold_a _ _ _ _ _ _ _ _ (by omega) (by omega) (by omega) (by omega) (by omega) (by omega) (by omega) (by omega),
    fold_b _ _ _ _ _ _ _ _ (by omega) (by omega) (by omega) (by omega) (by omega) (by omega) (by omega) (by omega),
    fold_d _ _ _ _ _ _ _ _ (by omega) (by omega) (by omega) (by omega) (by omega) (by omega) (by omega) (by omega)]
  omega

/-! ## the tail loop as a whole -/

theorem allB_mono (p q : Nat → Prop) (H : ∀ b, p b → q b) : ∀ k x, allB p k x → allB q k x
  | 0, _, _ => trivial
  | k + 1, _, h => ⟨H _ h.1, allB_mono p q H k _ h.2⟩

theorem B_pos : 0 < B := Nat.two_pow_pos 64

theorem psum_nil : Bits.mpn_popcount [] = 0 := rfl
theorem psum_cons (u : Nat) (us : List Nat) : Bits.mpn_popcount (u :: us) = Bits.popc u + Bits.mpn_popcount us := by
  simp only [Bits.mpn_popcount, List.map_cons, List.sum_cons]

theorem tailLoop_nil (x : Nat) : tailLoop [] x = x := by rw [tailLoop.eq_def]
theorem tailLoop_cons (u : Nat) (us : List Nat) (x : Nat) : tailLoop (u :: us) x = tailLoop us ((x + tailLimb u) % B) := by rw [tailLoop.eq_def]

/-- one pass of popcount.c:96-102: x += p0 keeps the byte fields separate -/
theorem tail_step (u x c : Nat) (hu : u < B) (h : allB (· ≤ c) 8 x) (hc : c + 8 < 256) :
    allB (· ≤ c + 8) 8 ((x + tailLimb u) % B) ∧
      sumB (fun b => b) 8 ((x + tailLimb u) % B) = sumB (fun b => b) 8 x + Bits.popc u := by
  have ht : allB (· ≤ 8) 8 (tailLimb u) := by
    rw [tailLimb_bytes u hu]
    exact allB_mapB pc8 (· ≤ 8) (fun b hb => ⟨by have := pc8_le b hb; omega, pc8_le b hb⟩) 8 u
  have hs : sumB (fun b => b) 8 (tailLimb u) = Bits.popc u := by
    rw [tailLimb_bytes u hu, sumB_comp pc8 _ (fun b hb => by have := pc8_le b hb; omega), popc_bytes]
  have A := allB_add c 8 hc 8 x (tailLimb u) h ht
  refine ⟨by rw [B_256]; exact allB_mod _ 8 _ A.1, ?_⟩
  rw [B_256, sumB_mod, A.2, hs]

theorem tailLoop_inv : ∀ (us : List Nat) (x c : Nat), (∀ u ∈ us, u < B) → x < B → allB (· ≤ c) 8 x →
    c + 8 * us.length < 256 →
    tailLoop us x < B ∧ allB (· ≤ c + 8 * us.length) 8 (tailLoop us x) ∧
      sumB (fun b => b) 8 (tailLoop us x) = sumB (fun b => b) 8 x + Bits.mpn_popcount us
  | [], x, c, _, hx, h, _ => by
    rw [tailLoop_nil, psum_nil, List.length_nil, Nat.mul_zero, Nat.add_zero, Nat.add_zero]
    exact ⟨hx, h, rfl⟩
  | u :: us, x, c, hl, hx, h, hc => by
    have hu : u < B := hl u (List.mem_cons_self ..)
    have hl' : ∀ v ∈ us, v < B := fun v hv => hl v (List.mem_cons_of_mem _ hv)
    rw [List.length_cons] at hc
    have S := tail_step u x c hu h (by omega)
    have ih := tailLoop_inv us ((x + tailLimb u) % B) (c + 8) hl' (Nat.mod_lt _ B_pos) S.1 (by omega)
    have e : c + 8 + 8 * us.length = c + 8 * (us.length + 1) := by omega
    rw [tailLoop_cons, psum_cons, List.length_cons, ← e]
    refine ⟨ih.1, ih.2.1, ?_⟩
    rw [ih.2.2, S.2]; omega

theorem allB_zero : ∀ k, allB (· ≤ 0) k 0
  | 0 => trivial
  | k + 1 => ⟨Nat.le_refl _, allB_zero k⟩
theorem sumB_zero : ∀ k, sumB (fun b => b) k 0 = 0
  | 0 => rfl
  | k + 1 => by rw [sumB, sumB_zero k]

/-- popcount.c:93-114 for at most 3 remaining limbs: the tail adds exactly their bit count. -/
theorem tail_popc (us : List Nat) (hl : ∀ u ∈ us, u < B) (hn : us.length ≤ 3) :
    tailFin (tailLoop us 0) = Bits.mpn_popcount us := by
  have I := tailLoop_inv us 0 0 hl B_pos (allB_zero 8) (by omega)
  have h24 : allB (· ≤ 24) 8 (tailLoop us 0) :=
    allB_mono _ _ (fun b (hb : b ≤ 0 + 8 * us.length) => (by omega : b ≤ 24)) 8 _ I.2.1
  rw [tailFin_bytes _ I.1 h24, I.2.2, sumB_zero, Nat.zero_add]

/-! ## the outer loop and the function -/

theorem blocks_zero (up : List Nat) (r : Nat) : blocks 0 up r = (r, up) := by rw [blocks.eq_def]
theorem blocks_succ (i u0 u1 u2 u3 : Nat) (up : List Nat) (r : Nat) :
    blocks (i + 1) (u0 :: u1 :: u2 :: u3 :: up) r = blocks i up ((r + block u0 u1 u2 u3) % B) := by rw [blocks.eq_def]

theorem take4 (i u0 u1 u2 u3 : Nat) (up : List Nat) :
    (u0 :: u1 :: u2 :: u3 :: up).take (4 * (i + 1)) = u0 :: u1 :: u2 :: u3 :: up.take (4 * i) := by
  rw [show 4 * (i + 1) = 4 * i + 1 + 1 + 1 + 1 by omega]
  simp only [List.take_succ_cons]
theorem drop4 (i u0 u1 u2 u3 : Nat) (up : List Nat) :
    (u0 :: u1 :: u2 :: u3 :: up).drop (4 * (i + 1)) = up.drop (4 * i) := by
  rw [show 4 * (i + 1) = 4 * i + 1 + 1 + 1 + 1 by omega]
  simp only [List.drop_succ_cons]

theorem mod_acc (r b s m : Nat) : ((r + b) % m + s) % m = (r + (b + s)) % m := by
  rw [Nat.add_mod, Nat.mod_mod, ← Nat.add_mod, Nat.add_assoc]

theorem blocks_popc : ∀ (i : Nat) (up : List Nat) (r : Nat), 4 * i ≤ up.length → (∀ u ∈ up, u < B) →
    blocks i up r = ((r + Bits.mpn_popcount (up.take (4 * i))) % B, up.drop (4 * i)) ∨ ¬ r < B
  | 0, up, r, _, _ => by
    by_cases hr : r < B
    · left; rw [blocks_zero, Nat.mul_zero, List.take_zero, List.drop_zero, psum_nil, Nat.add_zero, Nat.mod_eq_of_lt hr]
    · right; exact hr
  | i + 1, u0 :: u1 :: u2 :: u3 :: up', r, hlen, hl => by
    left
    have h0 : u0 < B := hl u0 (by simp only [List.mem_cons, true_or])
    have h1 : u1 < B := hl u1 (by simp only [List.mem_cons, true_or, or_true])
    have h2 : u2 < B := hl u2 (by simp only [List.mem_cons, true_or, or_true])
    have h3 : u3 < B := hl u3 (by simp only [List.mem_cons, true_or, or_true])
    have hl' : ∀ v ∈ up', v < B := fun v hv => hl v (by simp only [List.mem_cons, hv, or_true])
    have hlen' : 4 * i ≤ up'.length := by simp only [List.length_cons] at hlen; omega
    have ih := blocks_popc i up' ((r + block u0 u1 u2 u3) % B) hlen' hl'
    rcases ih with ih | ih
    · refine (blocks_succ i u0 u1 u2 u3 up' r).trans (ih.trans ?_)
      rw [take4, drop4, psum_cons, psum_cons, psum_cons, psum_cons, mod_acc, block_popc u0 u1 u2 u3 h0 h1 h2 h3]
      simp only [Nat.add_assoc]
    · exact absurd (Nat.mod_lt _ B_pos) ih
  | i + 1, [], _, hlen, _ => by simp only [List.length_nil] at hlen; omega
  | i + 1, [_], _, hlen, _ => by simp only [List.length_cons, List.length_nil] at hlen; omega
  | i + 1, [_, _], _, hlen, _ => by simp only [List.length_cons, List.length_nil] at hlen; omega
  | i + 1, [_, _, _], _, hlen, _ => by simp only [List.length_cons, List.length_nil] at hlen; omega

theorem psum_split (u : List Nat) (m : Nat) :
    Bits.mpn_popcount u = Bits.mpn_popcount (u.take m) + Bits.mpn_popcount (u.drop m) := by
  unfold Bits.mpn_popcount
  rw [← List.sum_append, ← List.map_append, List.take_append_drop]

/-- popcount.c:37-118 written with the loops' results named -/
theorem popcount_unfold (u : List Nat) : mpn_popcount u =
    (if u.length &&& 3 ≠ 0 then
      ((blocks (u.length >>> 2) u 0).1 + tailFin (tailLoop ((blocks (u.length >>> 2) u 0).2.take (u.length &&& 3)) 0)) % B
     else (blocks (u.length >>> 2) u 0).1) := by
  rw [mpn_popcount.eq_def]

/-- popcount.c:37-118 = the sum of the per-limb bit counts, modulo 2^64 (mp_bitcnt_t), for every limb list. -/
theorem popcount_mod (u : List Nat) (hu : ∀ x ∈ u, x < B) : mpn_popcount u = Bits.mpn_popcount u % B := by
  have hdiv : u.length >>> 2 = u.length / 4 := by rw [Nat.shiftRight_eq_div_pow]
  have hand : u.length &&& 3 = u.length % 4 := Nat.and_two_pow_sub_one_eq_mod u.length 2
  have hb := (blocks_popc (u.length / 4) u 0 (by omega) hu).resolve_right (fun h => h B_pos)
  have sp := psum_split u (4 * (u.length / 4))
  rw [popcount_unfold, hdiv, hand, hb, Nat.zero_add]
  by_cases h : u.length % 4 = 0
  · rw [if_neg (by rw [h]; exact fun h => h rfl)]
    have e : 4 * (u.length / 4) = u.length := by omega
    rw [e, List.take_length]
  · rw [if_pos h]
    have hlen : (u.drop (4 * (u.length / 4))).length = u.length % 4 := by rw [List.length_drop]; omega
    have ht : (u.drop (4 * (u.length / 4))).take (u.length % 4) = u.drop (4 * (u.length / 4)) :=
      List.take_of_length_le (Nat.le_of_eq hlen)
    have hl : ∀ x ∈ u.drop (4 * (u.length / 4)), x < B := fun x hx => hu x (List.mem_of_mem_drop hx)
    show ((Bits.mpn_popcount (u.take (4 * (u.length / 4)))) % B +
      tailFin (tailLoop ((u.drop (4 * (u.length / 4))).take (u.length % 4)) 0)) % B = _
    rw [ht, tail_popc _ hl (by omega), sp, Nat.mod_add_mod]

theorem psum_le : ∀ u : List Nat, Bits.mpn_popcount u ≤ 64 * u.length
  | [] => by rw [psum_nil]; exact Nat.zero_le _
  | x :: xs => by
    rw [psum_cons, List.length_cons]; have := popc_le_64 x; have := psum_le xs; omega
end Mpir.Swar
