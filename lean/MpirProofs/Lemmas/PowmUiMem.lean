/- mpz_powm_ui at the memory level: every flag of Mpir/Model/PowmUiMem.lean is true. -/
import MpirProofs.Lemmas.Powm
import Mpir.Model.PowmUiMem
namespace Mpir.PowmUi
open Mpir Mpir.Powm

theorem dropTop_ge (v k : Nat) : k - 1 ≤ dropTop v k := by
  unfold dropTop; split <;> omega

theorem stepOk_of (mn tn : Nat) (hmn : 1 ≤ mn) (h : tn ≤ 2 * mn) : stepOk mn tn = true := by
  unfold stepOk modOk
  by_cases h1 : tn < mn
  · rw [if_pos h1]
  · rw [if_neg h1]
    by_cases h2 : mn = 1
    · subst h2; simp; omega
    · simp [h2]; omega

theorem puiReduce_size (m mn t tn : Nat) :
    (puiReduce m mn t tn).2 = if tn < mn then tn else mn := by
  unfold puiReduce; split <;> rfl

theorem puiLoopOk_true (ms mn b bn : Nat) (hms1 : B ^ (mn - 1) ≤ ms) (hms2 : ms < B ^ mn) (hmn : 1 ≤ mn)
    (hb : b < B ^ bn) (hbn1 : 1 ≤ bn) (hbn : bn ≤ mn) :
    ∀ (bits : List Bool) (x xn : Nat), x < B ^ xn → bn ≤ xn → xn ≤ mn →
      puiLoopOk ms mn b bn bits x xn = true ∧ bn ≤ (puiLoop ms mn b bn bits x xn).2 ∧
      (puiLoop ms mn b bn bits x xn).2 ≤ mn
  | [], x, xn, _, h2, h3 => by simp [puiLoopOk, puiLoop, h2, h3]
  | bit :: rest, x, xn, h1, h2, h3 => by
    have ht : x * x < B ^ (2 * xn) := by rw [two_mul, pow_add]; exact Nat.mul_lt_mul'' h1 h1
    obtain ⟨d1, d2⟩ := dropTop_spec (x * x) (2 * xn) ht
    have d3 := dropTop_ge (x * x) (2 * xn)
    obtain ⟨r1, r2, _, _⟩ := puiReduce_spec ms mn (x * x) (dropTop (x * x) (2 * xn)) hms1 hms2 hmn d1
    have r3 : bn ≤ (puiReduce ms mn (x * x) (dropTop (x * x) (2 * xn))).2 := by
      rw [puiReduce_size]; split <;> omega
    have s1 := stepOk_of mn (dropTop (x * x) (2 * xn)) hmn (by omega)
    rw [puiLoopOk, puiLoop]
    simp only []
    generalize puiReduce ms mn (x * x) (dropTop (x * x) (2 * xn)) = p at *
    cases bit with
    | false =>
      obtain ⟨i1, i2, i3⟩ := puiLoopOk_true ms mn b bn hms1 hms2 hmn hb hbn1 hbn rest p.1 p.2 r1 r3 r2
      simp only [Bool.false_eq_true, if_false]
      refine ⟨?_, i2, i3⟩
      rw [s1, i1]; simp; omega
    | true =>
      have ht2 : p.1 * b < B ^ (p.2 + bn) := by rw [pow_add]; exact Nat.mul_lt_mul'' r1 hb
      obtain ⟨e1, e2⟩ := dropTop_spec (p.1 * b) (p.2 + bn) ht2
      have e3 := dropTop_ge (p.1 * b) (p.2 + bn)
      obtain ⟨q1, q2, _, _⟩ := puiReduce_spec ms mn (p.1 * b) (dropTop (p.1 * b) (p.2 + bn)) hms1 hms2 hmn e1
      have q3 : bn ≤ (puiReduce ms mn (p.1 * b) (dropTop (p.1 * b) (p.2 + bn))).2 := by
        rw [puiReduce_size]; split <;> omega
      have s2 := stepOk_of mn (dropTop (p.1 * b) (p.2 + bn)) hmn (by omega)
      generalize puiReduce ms mn (p.1 * b) (dropTop (p.1 * b) (p.2 + bn)) = q at *
      obtain ⟨i1, i2, i3⟩ := puiLoopOk_true ms mn b bn hms1 hms2 hmn hb hbn1 hbn rest q.1 q.2 q1 q3 q2
      simp only [if_true]
      refine ⟨?_, i2, i3⟩
      rw [s1, s2, i1]; simp; omega

theorem puiXOk_true (ms mn zc bv bn el : Nat) (hms1 : B ^ (mn - 1) ≤ ms) (hms2 : ms < B ^ mn) (hmn : 1 ≤ mn)
    (hbv : bv < B ^ bn) (hbn1 : 1 ≤ bn) (hbn : bn ≤ mn) :
    puiXOk ms mn zc bv bn el = true := by
  unfold puiXOk
  simp only []
  have hp : ∀ p : Nat × Nat,
      p = (if el = 1 then (if (decide (bn = mn) && decide (bv ≥ ms)) = true then (bv - ms, bn) else (bv, bn))
           else puiLoop ms mn bv bn (lowerBits el) bv bn) →
      (if el = 1 then true else puiLoopOk ms mn bv bn (lowerBits el) bv bn) = true ∧ 1 ≤ p.2 ∧ p.2 ≤ mn := by
    intro p hpd
    by_cases h1 : el = 1
    · rw [if_pos h1] at hpd
      rw [if_pos h1]
      refine ⟨rfl, ?_, ?_⟩ <;> (rw [hpd]; split <;> simp only <;> omega)
    · rw [if_neg h1] at hpd
      rw [if_neg h1]
      obtain ⟨i1, i2, i3⟩ := puiLoopOk_true ms mn bv bn hms1 hms2 hmn hbv hbn1 hbn (lowerBits el) bv bn hbv (le_refl _) hbn
      rw [hpd]; exact ⟨i1, by omega, i3⟩
  generalize hpe : (if el = 1 then (if (decide (bn = mn) && decide (bv ≥ ms)) = true then (bv - ms, bn) else (bv, bn))
           else puiLoop ms mn bv bn (lowerBits el) bv bn) = p
  obtain ⟨p1, p2, p3⟩ := hp p hpe.symm
  rw [p1]
  by_cases hz : (zc != 0) = true
  · rw [if_pos hz]
    have hci : (if (p.1 <<< zc / B ^ p.2 != 0) = true then 1 else 0) ≤ 1 := by split <;> omega
    generalize (if (p.1 <<< zc / B ^ p.2 != 0) = true then 1 else 0) = ci at *
    have s := stepOk_of mn (p.2 + ci) hmn (by omega)
    rw [s]
    have hq : 1 ≤ (puiReduce ms mn (p.1 <<< zc) (p.2 + ci)).2 := by
      rw [puiReduce_size]; split <;> omega
    simp; omega
  · rw [if_neg hz]

theorem mpzPowmUiOk_true (b : Int) (el : Nat) (m : Int) : mpzPowmUiOk b el m = true := by
  unfold mpzPowmUiOk
  simp only []
  by_cases hc : ((natLimbs m.natAbs).length = 0 || el = 0 || decide (20 ≤ el)) = true
  · rw [if_pos hc]
  · rw [if_neg hc]
    simp only [Bool.or_eq_true, decide_eq_true_eq, not_or, not_le] at hc
    obtain ⟨⟨hn0, he0⟩, h20⟩ := hc
    have hmn : m.natAbs ≠ 0 := fun h => hn0 ((natLimbs_length_eq_zero _).mpr h)
    obtain ⟨s1, s2, s3, s4, s5, s6⟩ := shifted_modulus m.natAbs hmn
    generalize hzc : clz ((natLimbs m.natAbs).getLastD 1) = zc at *
    generalize hms : m.natAbs <<< zc = ms at *
    have hmsM : ms = m.natAbs * 2 ^ zc := by rw [← hms, Nat.shiftLeft_eq]
    set mn := (natLimbs m.natAbs).length with hmnd
    have hmspos : 0 < ms := lt_of_lt_of_le (Nat.pow_pos B_pos) s1
    have hokB : (if (natLimbs b.natAbs).length > mn then modOk (natLimbs b.natAbs).length mn ((natLimbs b.natAbs).length - mn + 1)
        else true) = true := by
      by_cases hgt : (natLimbs b.natAbs).length > mn
      · rw [if_pos hgt]
        unfold modOk
        by_cases h1 : mn = 1
        · simp [h1]; omega
        · simp [h1]; omega
      · rw [if_neg hgt]
    rw [hokB]
    have hbb : ∀ bb : Nat × Nat,
        bb = (if (natLimbs b.natAbs).length > mn then (b.natAbs % ms, (natLimbs (b.natAbs % ms)).length)
              else (b.natAbs, (natLimbs b.natAbs).length)) → bb.1 < B ^ bb.2 ∧ bb.2 ≤ mn := by
      intro bb hbd
      by_cases hgt : (natLimbs b.natAbs).length > mn
      · rw [if_pos hgt] at hbd; subst hbd
        simp only
        have hlt := Nat.mod_lt b.natAbs hmspos
        refine ⟨?_, natLimbs_length_le _ _ (lt_trans hlt s2)⟩
        have := val_lt _ (Limbs_natLimbs (b.natAbs % ms))
        rwa [val_natLimbs] at this
      · rw [if_neg hgt] at hbd; subst hbd
        simp only
        refine ⟨?_, by omega⟩
        have := val_lt _ (Limbs_natLimbs b.natAbs)
        rwa [val_natLimbs] at this
    generalize hbe : (if (natLimbs b.natAbs).length > mn then (b.natAbs % ms, (natLimbs (b.natAbs % ms)).length)
              else (b.natAbs, (natLimbs b.natAbs).length)) = bb
    obtain ⟨b1, b2⟩ := hbb bb hbe.symm
    by_cases hbn0 : bb.2 = 0
    · rw [if_pos hbn0]
    · rw [if_neg hbn0]
      have hX := puiXOk_true ms mn zc bb.1 bb.2 el s1 s2 s3 b1 (by omega) b2
      obtain ⟨_, _, x3, _⟩ := puiX_spec m.natAbs ms mn zc bb.1 bb.2 el (Nat.pos_of_ne_zero hmn) hmsM s1 s2 s6 s3 s4
        b1 b2 (Nat.pos_of_ne_zero he0)
      have hN := mpnNormalize_le (toLimbs mn (puiX ms mn zc bb.1 bb.2 el).1) (puiX ms mn zc bb.1 bb.2 el).2
      rw [hX]
      simp only [Bool.true_and, Bool.and_true, Bool.and_eq_true, decide_eq_true_eq]
      exact ⟨⟨b2, x3⟩, by omega⟩
end Mpir.PowmUi
