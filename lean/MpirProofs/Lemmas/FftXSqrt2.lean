/- The √2 transforms of Mpir/Model/FftX.lean (4n coefficients, root τ^w with τ = 2^(wn/4)·(2^(wn/2) − 1), τ² = 2):
   the full transform they truncate, its DFT reading, forward/inverse truncated specs. -/
import MpirProofs.Lemmas.FftXTrunc
set_option linter.unusedSimpArgs false
namespace Mpir.FftX
open Mpir Finset

/-- √2 modulo 2^wn + 1 (4 ∣ wn) as an integer expression -/
def s2 (wn : Nat) : Int := 2 ^ (wn / 4) * (2 ^ (wn / 2) - 1)

/-- the requirement on `trunc` for the √2 transforms of 4n = 2^(d+2) coefficients -/
def TruncSOk (d trunc : Nat) : Prop := trunc % 2 = 0 ∧ 2 * 2 ^ d < trunc ∧ trunc ≤ 4 * 2 ^ d

/-- the untruncated transform of 4n coefficients of which mpir_fft_trunc_sqrt2 computes the first `trunc` outputs:
    one layer with the twiddles (√2)^(i·w), then two radix-2 transforms -/
def fft_full_sqrt2 (d w : Nat) (xs : List Int) : List Int :=
  let n := 2 ^ d
  let wn := wnOf n w
  if w % 2 = 0 then fft_radix2 (d + 1) (w / 2) xs
  else
    let f := fun i =>
      if i % 2 = 0 then bfly (el xs i) (el xs (2 * n + i)) (i / 2) w
      else bflySqrt2 wn (el xs i) (el xs (2 * n + i)) i w
    fft_radix2 d w (fsts (2 * n) f) ++ fft_radix2 d w (snds (2 * n) f)

theorem truncSOk_ok {d t : Nat} (h : TruncSOk d t) : TruncOk (d + 1) t := by
  obtain ⟨a, b, c⟩ := h
  have hp : 2 ^ (d + 1 + 1) = 4 * 2 ^ d := by rw [pow_succ, pow_succ]; ring
  exact ⟨a, by have := two_pow_pos' d; omega, by omega⟩

theorem truncSOk_high {d t : Nat} (h : TruncSOk d t) : TruncOk d (t - 2 * 2 ^ d) := by
  obtain ⟨a, b, c⟩ := h
  have hp : 2 ^ (d + 1) = 2 * 2 ^ d := by rw [pow_succ]; ring
  exact ⟨by omega, by omega, by omega⟩

/-! ### forward: the first `trunc` outputs are those of the full transform -/

theorem fft_trunc_sqrt2_eq (d w trunc : Nat) (xs : List Int) (ht : TruncSOk d trunc)
    (hz : ∀ j, trunc ≤ j → el xs j = 0) (k : Nat) (hk : k < trunc) :
    el (fft_trunc_sqrt2 d w trunc xs) k = el (fft_full_sqrt2 d w xs) k := by
  have hp : 2 ^ (d + 1) = 2 * 2 ^ d := by rw [pow_succ]; ring
  unfold fft_trunc_sqrt2 fft_full_sqrt2
  simp only []
  split_ifs with hw
  · exact fft_trunc_eq (d + 1) (w / 2) trunc xs (truncSOk_ok ht) hz k hk
  · have ef : (fsts (2 * 2 ^ d) fun i =>
        if i < trunc - 2 * 2 ^ d then
          if i % 2 = 0 then bfly (el xs i) (el xs (2 * 2 ^ d + i)) (i / 2) w
          else bflySqrt2 (wnOf (2 ^ d) w) (el xs i) (el xs (2 * 2 ^ d + i)) i w
        else (el xs i, if i % 2 = 0 then adj (el xs i) (i / 2) w else adjSqrt2 (wnOf (2 ^ d) w) (el xs i) i w)) =
        fsts (2 * 2 ^ d) fun i =>
          if i % 2 = 0 then bfly (el xs i) (el xs (2 * 2 ^ d + i)) (i / 2) w
          else bflySqrt2 (wnOf (2 ^ d) w) (el xs i) (el xs (2 * 2 ^ d + i)) i w := by
      apply fsts_congr; intro i hi
      by_cases hc : i < trunc - 2 * 2 ^ d
      · rw [if_pos hc]
      · rw [if_neg hc]; split_ifs <;> simp [bfly, bflySqrt2, hz (2 * 2 ^ d + i) (by omega)]
    have es : (snds (2 * 2 ^ d) fun i =>
        if i < trunc - 2 * 2 ^ d then
          if i % 2 = 0 then bfly (el xs i) (el xs (2 * 2 ^ d + i)) (i / 2) w
          else bflySqrt2 (wnOf (2 ^ d) w) (el xs i) (el xs (2 * 2 ^ d + i)) i w
        else (el xs i, if i % 2 = 0 then adj (el xs i) (i / 2) w else adjSqrt2 (wnOf (2 ^ d) w) (el xs i) i w)) =
        snds (2 * 2 ^ d) fun i =>
          if i % 2 = 0 then bfly (el xs i) (el xs (2 * 2 ^ d + i)) (i / 2) w
          else bflySqrt2 (wnOf (2 ^ d) w) (el xs i) (el xs (2 * 2 ^ d + i)) i w := by
      apply snds_congr; intro i hi
      by_cases hc : i < trunc - 2 * 2 ^ d
      · rw [if_pos hc]
      · rw [if_neg hc]; split_ifs <;> simp [bfly, bflySqrt2, adj, adjSqrt2, hz (2 * 2 ^ d + i) (by omega)]
    rw [ef, es]
    by_cases hkn : k < 2 * 2 ^ d
    · rw [el_append_left _ _ _ (by rw [length_fft_radix2]; omega),
        el_append_left _ _ _ (by rw [length_fft_radix2]; omega)]
    · have ek : k = 2 ^ (d + 1) + (k - 2 * 2 ^ d) := by omega
      rw [ek, el_append_right' _ _ _ _ (length_fft_radix2 _ _ _), el_append_right' _ _ _ _ (length_fft_radix2 _ _ _)]
      exact fft_trunc1_eq _ _ _ _ (truncSOk_high ht) _ (by omega)

section ring
variable {S : Type} [CommRing S] (f : ℤ →+* S)

/-! ### √2 in S -/

theorem f_two : f 2 = 2 := by simp

/-- τ² = 2 -/
theorem s2_sq (wn : Nat) (h4 : 4 ∣ wn) (hz : f 2 ^ wn = -1) : f (s2 wn) ^ 2 = f 2 := by
  obtain ⟨q, rfl⟩ := h4
  have e1 : 4 * q / 4 = q := by omega
  have e2 : 4 * q / 2 = 2 * q := by omega
  have hC : (f 2 ^ (2 * q)) ^ 2 = -1 := by rw [← pow_mul, ← hz]; congr 1; ring
  have hA : (f 2 ^ q) ^ 2 = f 2 ^ (2 * q) := by rw [← pow_mul, mul_comm]
  simp only [s2, e1, e2, map_mul, map_sub, map_pow, map_one]
  generalize f 2 ^ (2 * q) = C at *
  generalize f 2 ^ q = A at *
  rw [f_two]
  linear_combination (C - 1) ^ 2 * hA + (C - 2) * hC

/-- the twiddle of the odd positions: sq2 wn i w = 2^(i/2 + i·(w/2))·√2 -/
theorem sq2_eq (wn i w : Nat) : sq2 wn i w = 2 ^ (i / 2 + i * (w / 2)) * s2 wn := by
  unfold sq2 s2
  have : i / 2 + wn / 4 + i * (w / 2) = (i / 2 + i * (w / 2)) + wn / 4 := by omega
  rw [this, pow_add]; ring

/-- for odd i and w the twiddle is τ^(i·w) -/
theorem f_sq2 (wn i w : Nat) (hi : i % 2 = 1) (hw : w % 2 = 1) (hτ : f (s2 wn) ^ 2 = f 2) :
    f (sq2 wn i w) = f (s2 wn) ^ (i * w) := by
  have e : i * w = 2 * (i / 2 + i * (w / 2)) + 1 := by
    have h1 : i = 2 * (i / 2) + 1 := by omega
    have h2 : w = 2 * (w / 2) + 1 := by omega
    generalize i / 2 = a at *; generalize w / 2 = b at *
    rw [h1, h2]; ring
  rw [sq2_eq, map_mul, map_pow, e, pow_succ, pow_mul, hτ]

/-- for even i the twiddle 2^((i/2)·w) is τ^(i·w) -/
theorem f_two_pow_even (wn i w : Nat) (hi : i % 2 = 0) (hτ : f (s2 wn) ^ 2 = f 2) :
    f ((2 : ℤ) ^ (i / 2 * w)) = f (s2 wn) ^ (i * w) := by
  have e : i * w = 2 * (i / 2 * w) := by
    have h1 : i = 2 * (i / 2) := by omega
    generalize i / 2 = a at *; rw [h1]; ring
  rw [map_pow, e, pow_mul (f (s2 wn)) 2, hτ]

/-- forward and inverse √2 twiddles multiply to −1 -/
theorem sq2_mul_isq2 (wn i w : Nat) (h4 : 4 ∣ wn) (hz : f 2 ^ wn = -1) (he : i / 2 + i * (w / 2) + 1 ≤ wn) :
    f (sq2 wn i w) * f (isq2 wn i w) = -1 := by
  obtain ⟨q, rfl⟩ := h4
  have e1 : 4 * q / 4 = q := by omega
  have e2 : 4 * q / 2 = 2 * q := by omega
  have hC : (f 2 ^ (2 * q)) ^ 2 = -1 := by rw [← pow_mul, ← hz]; congr 1; ring
  have hA : (f 2 ^ q) ^ 2 = f 2 ^ (2 * q) := by rw [← pow_mul, mul_comm]
  generalize hee : i / 2 + i * (w / 2) = e at *
  have hx : 4 * q - i / 2 - i * (w / 2) - 1 = 4 * q - e - 1 := by omega
  have hab : f 2 ^ e * f 2 ^ (4 * q - e - 1) * f 2 = -1 := by
    rw [← pow_add, ← pow_succ, ← hz]; congr 1; omega
  have h3 : i / 2 + q + i * (w / 2) = e + q := by omega
  simp only [sq2, isq2, e1, e2, hx, h3, map_mul, map_sub, map_pow, map_one]
  simp only [pow_add]
  generalize f 2 ^ (2 * q) = C at *
  generalize f 2 ^ q = A at *
  generalize f 2 ^ e = U at *
  generalize f 2 ^ (4 * q - e - 1) = V at *
  have h2 : f 2 = 2 := f_two f
  rw [h2] at hab
  linear_combination (U * V * (C - 1) ^ 2) * hA + (U * V * C) * hC + (-(C ^ 2)) * hab + hC

/-! ### the full √2 transform is the DFT of length 4n with root τ^w, in bit-reversed order -/

theorem four_dvd_of_64 (m : Nat) (h : 64 ∣ m) : 4 ∣ m := Dvd.dvd.trans (by norm_num) h

theorem fft_full_sqrt2_dft (d w : Nat) (hd : 64 ∣ 2 ^ d * w) (hz : f 2 ^ (2 ^ d * w) = -1) (xs : List Int)
    (k : Nat) (hk : k < 2 ^ (d + 1 + 1)) :
    f (el (fft_full_sqrt2 d w xs) k) =
      ∑ j ∈ range (2 ^ (d + 1 + 1)), f (el xs j) * (f (s2 (2 ^ d * w)) ^ w) ^ (rev (d + 1 + 1) k * j) := by
  have hτ := s2_sq f (2 ^ d * w) (four_dvd_of_64 _ hd) hz
  have hp : 2 ^ (d + 1) = 2 * 2 ^ d := by rw [pow_succ]; ring
  have hpp : 2 ^ (d + 1 + 1) = 2 * 2 ^ (d + 1) := by rw [pow_succ]; ring
  unfold fft_full_sqrt2
  simp only [wnOf_eq _ _ hd]
  split_ifs with hw
  · have hz' : f 2 ^ (2 ^ (d + 1) * (w / 2)) = -1 := by
      rw [← hz]; congr 1
      have : w = 2 * (w / 2) := by omega
      generalize w / 2 = b at *; rw [this, hp]; ring
    rw [fft_radix2_dft f (d + 1) (w / 2) xs hz' k hk]
    have e : f 2 ^ (w / 2) = f (s2 (2 ^ d * w)) ^ w := by
      have hw3 : 2 * (w / 2) = w := by omega
      rw [← hτ, ← pow_mul, hw3]
    rw [e]
  · have hw1 : w % 2 = 1 := by omega
    have hσ : (f (s2 (2 ^ d * w)) ^ w) ^ 2 ^ (d + 1) = -1 := by
      rw [← hz, ← hτ, ← pow_mul, ← pow_mul]; congr 1; rw [hp]; ring
    have hσ2 : f 2 ^ w = (f (s2 (2 ^ d * w)) ^ w) ^ 2 := by
      rw [← hτ, ← pow_mul, ← pow_mul]; congr 1; ring
    have er : rev (d + 1 + 1) k = if k < 2 ^ (d + 1) then 2 * rev (d + 1) k else 2 * rev (d + 1) (k - 2 ^ (d + 1)) + 1 := by
      rw [rev]
    rw [← hp]
    by_cases h : k < 2 ^ (d + 1)
    · rw [el_append_left _ _ _ (by rw [length_fft_radix2]; exact h), fft_radix2_dft f d w _ hz k h, er, if_pos h,
        hσ2, hpp]
      rw [← dif_even (f (s2 (2 ^ d * w)) ^ w) (2 ^ (d + 1)) hσ (fun j => f (el xs j)) (rev (d + 1) k)]
      apply sum_congr rfl; intro j hj
      rw [el_fsts _ _ _ (mem_range.mp hj)]
      split_ifs <;> simp [bfly, bflySqrt2]
    · have hk' : k - 2 ^ (d + 1) < 2 ^ (d + 1) := by omega
      have ek : k = 2 ^ (d + 1) + (k - 2 ^ (d + 1)) := by omega
      rw [er, if_neg h]
      rw [ek, el_append_right' _ _ (2 ^ (d + 1)) _ (length_fft_radix2 _ _ _), fft_radix2_dft f d w _ hz _ hk', hσ2, hpp]
      have ek' : 2 ^ (d + 1) + (k - 2 ^ (d + 1)) - 2 ^ (d + 1) = k - 2 ^ (d + 1) := by omega
      rw [ek']
      rw [← dif_odd (f (s2 (2 ^ d * w)) ^ w) (2 ^ (d + 1)) hσ (fun j => f (el xs j)) (rev (d + 1) (k - 2 ^ (d + 1)))]
      apply sum_congr rfl; intro j hj
      rw [el_snds _ _ _ (mem_range.mp hj)]
      have epow : (f (s2 (2 ^ d * w)) ^ w) ^ j = f (s2 (2 ^ d * w)) ^ (j * w) := by
        rw [← pow_mul]; congr 1; ring
      split_ifs with hj2
      · simp only [bfly, map_mul, map_sub]
        rw [f_two_pow_even f _ j w hj2 hτ, epow]
      · simp only [bflySqrt2, map_mul, map_sub]
        rw [f_sq2 f _ j w (by omega) hw1 hτ, epow]

/-! ### inverse -/

theorem ibflySqrt2_val (wn : Nat) (a b : Int) (i w : Nat) (c X Y : S)
    (hm : f (sq2 wn i w) * f (isq2 wn i w) = -1)
    (ha : f a = c * (X + Y)) (hb : f b = c * ((X - Y) * f (sq2 wn i w))) :
    f (ibflySqrt2 wn a b i w).1 = 2 * c * X ∧ f (ibflySqrt2 wn a b i w).2 = 2 * c * Y := by
  simp only [ibflySqrt2, map_add, map_sub, map_mul, ha, hb]
  constructor
  · linear_combination (-(c * (X - Y))) * hm
  · linear_combination (c * (X - Y)) * hm

/-- mpir_ifft_trunc_sqrt2: from the first `trunc` values of the full √2 transform of a coefficient vector that is zero
    from `trunc` on, its first `trunc` coefficients, 4n-fold -/
theorem ifft_trunc_sqrt2_spec (d w trunc : Nat) (ht : TruncSOk d trunc) (hd : 64 ∣ 2 ^ d * w) (hw : 1 ≤ w)
    (hz : f 2 ^ (2 ^ d * w) = -1) (xs ys : List Int)
    (h1 : ∀ k < trunc, f (el ys k) = f (el (fft_full_sqrt2 d w xs) k))
    (h0 : ∀ j, trunc ≤ j → j < 2 ^ (d + 1 + 1) → f (el xs j) = 0)
    (j : Nat) (hj : j < trunc) :
    f (el (ifft_trunc_sqrt2 d w trunc ys) j) = 2 ^ (d + 1 + 1) * f (el xs j) := by
  have hp : 2 ^ (d + 1) = 2 * 2 ^ d := by rw [pow_succ]; ring
  have hpp : 2 ^ (d + 1 + 1) = 2 * 2 ^ (d + 1) := by rw [pow_succ]; ring
  have hu : f 2 ^ (2 * (2 ^ d * w)) = 1 := by rw [mul_comm, pow_mul, hz]; norm_num
  have ewn : wnOf (2 ^ d) w = 2 ^ d * w := wnOf_eq _ _ hd
  have h4 := four_dvd_of_64 _ hd
  obtain ⟨ht1, ht2, ht3⟩ := ht
  unfold ifft_trunc_sqrt2
  unfold fft_full_sqrt2 at h1
  simp only [] at h1 ⊢
  split_ifs with hw2
  · rw [if_pos hw2] at h1
    have hw3 : w = 2 * (w / 2) := by omega
    have hd' : 64 ∣ 2 ^ (d + 1) * (w / 2) := by
      have : 2 ^ (d + 1) * (w / 2) = 2 ^ d * w := by
        generalize w / 2 = b at *; rw [hw3, hp]; ring
      rw [this]; exact hd
    have hu' : f 2 ^ (2 * (2 ^ (d + 1) * (w / 2))) = 1 := by
      rw [← hu]; congr 1
      generalize w / 2 = b at *; rw [hw3, hp]; ring
    exact ifft_trunc_spec f (d + 1) (w / 2) trunc (truncSOk_ok ⟨ht1, ht2, ht3⟩) hd' (by omega) hu' xs ys h1 h0 j hj
  · rw [if_neg hw2] at h1
    have hw1 : w % 2 = 1 := by omega
    rw [← hp] at h1 ⊢
    rw [ewn] at h1 ⊢
    -- the forward first layer
    set g : Nat → Int × Int := fun i =>
      if i % 2 = 0 then bfly (el xs i) (el xs (2 ^ (d + 1) + i)) (i / 2) w
      else bflySqrt2 (2 ^ d * w) (el xs i) (el xs (2 ^ (d + 1) + i)) i w with hg
    have g1 : ∀ i, f (g i).1 = f (el xs i) + f (el xs (2 ^ (d + 1) + i)) := by
      intro i; simp only [hg]; split_ifs <;> simp [bfly, bflySqrt2]
    have F1 : ∀ i < 2 ^ (d + 1), f (el (ifft_radix2 d w (ys.take (2 ^ (d + 1)))) i) =
        2 ^ (d + 1) * (f (el xs i) + f (el xs (2 ^ (d + 1) + i))) := by
      intro i hi
      rw [ifft_radix2_spec f d w hd hu (fsts (2 ^ (d + 1)) g) (ys.take (2 ^ (d + 1)))
        (fun k hk => by
          rw [el_take _ _ _ hk, h1 k (by omega), el_append_left _ _ _ (by rw [length_fft_radix2]; exact hk)]) i hi,
        el_fsts _ _ _ hi, g1]
    -- the recomputed entries of the second half
    have I := ifft_trunc1_spec f d w (trunc - 2 ^ (d + 1)) ⟨by omega, by omega, by omega⟩ hd hw hu
      (snds (2 ^ (d + 1)) g)
      ((List.range (2 ^ (d + 1))).map fun i =>
        if trunc - 2 ^ (d + 1) ≤ i then
          if i % 2 = 0 then adj (el (ifft_radix2 d w (ys.take (2 ^ (d + 1)))) i) (i / 2) w
          else adjSqrt2 (2 ^ d * w) (el (ifft_radix2 d w (ys.take (2 ^ (d + 1)))) i) i w
        else el ys (i + 2 ^ (d + 1)))
      (fun k hk => by
        rw [el_range_map _ _ _ (by omega), if_neg (by omega), h1 (k + 2 ^ (d + 1)) (by omega), Nat.add_comm k,
          el_append_right' _ _ _ _ (length_fft_radix2 _ _ _)])
      (fun i hi1 hi2 => by
        rw [el_range_map _ _ _ hi2, if_pos hi1, el_snds _ _ _ hi2]
        have y0 := h0 (2 ^ (d + 1) + i) (by omega) (by omega)
        simp only [hg]
        split_ifs
        · simp only [adj, bfly, map_mul, map_sub]; rw [F1 i hi2, y0]; ring
        · simp only [adjSqrt2, bflySqrt2, map_mul, map_sub]; rw [F1 i hi2, y0]; ring)
    have key : ∀ i < trunc - 2 ^ (d + 1), ∀ a b : Int,
        f a = 2 ^ (d + 1) * (f (el xs i) + f (el xs (2 ^ (d + 1) + i))) →
        f b = 2 ^ (d + 1) * f (el (snds (2 ^ (d + 1)) g) i) →
        f (if i % 2 = 0 then ibfly (2 ^ d * w) a b (i / 2) w else ibflySqrt2 (2 ^ d * w) a b i w).1 =
          2 * 2 ^ (d + 1) * f (el xs i) ∧
        f (if i % 2 = 0 then ibfly (2 ^ d * w) a b (i / 2) w else ibflySqrt2 (2 ^ d * w) a b i w).2 =
          2 * 2 ^ (d + 1) * f (el xs (2 ^ (d + 1) + i)) := by
      intro i hi a b ha hb
      have hi2 : i < 2 ^ (d + 1) := by omega
      have hiw : i * w < 2 * (2 ^ d * w) := by
        have : i * w < 2 ^ (d + 1) * w := Nat.mul_lt_mul_of_pos_right hi2 (by omega)
        rw [hp] at this; rw [← Nat.mul_assoc]; exact this
      rw [el_snds _ _ _ hi2] at hb
      simp only [hg] at hb
      split_ifs with hi0
      · rw [if_pos hi0] at hb
        apply ibfly_val f _ _ _ (i / 2) w _ _ _ hu
        · have : i / 2 * w ≤ i * w := Nat.mul_le_mul_right w (Nat.div_le_self i 2)
          omega
        · exact ha
        · rw [hb]; simp [bfly]
      · rw [if_neg hi0] at hb
        apply ibflySqrt2_val f
        · apply sq2_mul_isq2 f _ _ _ h4 hz
          have e : i * w = 2 * (i / 2 + i * (w / 2)) + 1 := by
            have h1 : i = 2 * (i / 2) + 1 := by omega
            have h2 : w = 2 * (w / 2) + 1 := by omega
            generalize i / 2 = a at *; generalize w / 2 = b at *
            rw [h1, h2]; ring
          omega
        · exact ha
        · rw [hb]; simp [bflySqrt2]
    by_cases hjn : j < 2 ^ (d + 1)
    · rw [el_append_left _ _ _ (by rw [length_fsts]; exact hjn), el_fsts _ _ _ hjn]
      by_cases hjt : j < trunc - 2 ^ (d + 1)
      · rw [if_pos hjt, (key j hjt _ _ (F1 j hjn) (I j hjt)).1]; ring
      · rw [if_neg hjt, map_mul, F1 j hjn, h0 (2 ^ (d + 1) + j) (by omega) (by omega), f_two]; ring
    · have ej : j = 2 ^ (d + 1) + (j - 2 ^ (d + 1)) := by omega
      have hj' : j - 2 ^ (d + 1) < trunc - 2 ^ (d + 1) := by omega
      have hj'' : j - 2 ^ (d + 1) < 2 ^ (d + 1) := by omega
      rw [ej, el_append_right' _ _ _ _ (length_fsts _ _), el_snds _ _ _ hj'', if_pos hj',
        (key _ hj' _ _ (F1 _ hj'') (I _ hj')).2]; ring

end ring

end Mpir.FftX
