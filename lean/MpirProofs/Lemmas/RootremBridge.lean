/- The value-level model `Mpir.Root.rootrem` (Model/Root.lean, the one the mpz layer calls) satisfies the contract of
   mpn_rootrem (`RootremAt`): its mpn_rootrem_internal agrees with the `Option`-valued mirror wherever that one answers
   `some` (bridge), its basecase is proved by the same invariants as `rootremBasecase_ok`. -/
import MpirProofs.Lemmas.RootremTop
namespace Mpir.Rootrem
open Mpir Mpir.Root Mpir.Gen.SqrtTabs

/-! ### limb counts -/

theorem natLimbs_length_le_iff : ∀ (n v : Nat), (natLimbs v).length ≤ n ↔ v < B ^ n
  | 0, v => by
    have := (val_natLimbs v).2
    simp only [Nat.le_zero, pow_zero, Nat.lt_one_iff]; exact this
  | n + 1, v => by
    by_cases h : v = 0
    · subst h; simp [natLimbs_zero, pow_pos B_pos]
    · rw [natLimbs_pos v h]
      simp only [List.length_cons, Nat.add_le_add_iff_right]
      rw [natLimbs_length_le_iff n (v / B), Nat.div_lt_iff_lt_mul B_pos, pow_succ]

theorem limbCount_eq (a : Nat) : limbCount a = limbLen a := by
  unfold limbCount
  apply Nat.le_antisymm
  · exact (natLimbs_length_le_iff _ a).mpr (lt_pow_limbLen a)
  · exact (limbLen_le_iff a _).mpr ((natLimbs_length_le_iff _ a).mp (Nat.le_refl _))

/-! ### mpn_rootrem_internal: the two models agree -/

theorem rrSizes_bridge (logk : Nat) : ∀ (fuel b : Nat), (rrSizes logk fuel b).getLast? = some 0 →
    Root.rrSizes logk fuel b = rrSizes logk fuel b
  | 0, b, h => by simp [rrSizes] at h
  | fuel + 1, b, h => by
    unfold rrSizes at h
    unfold rrSizes Root.rrSizes
    by_cases hb : b = 0
    · rw [if_pos hb, if_pos hb]
    · rw [if_neg hb] at h
      rw [if_neg hb, if_neg hb]
      dsimp only at h ⊢
      congr 1
      apply rrSizes_bridge
      generalize rrSizes logk fuel (if (b + logk + 1) / 2 ≥ b then b - 1 else (b + logk + 1) / 2) = l at *
      cases l with
      | nil => simp at h; omega
      | cons y ys => rw [List.getLast?_cons_cons] at h; exact h

theorem rrCorrect_bridge (k Uk sn S W : Nat) (wantW : Bool) (hk : 1 ≤ k) (S' R' W' : Nat)
    (h : rrCorrect k Uk sn S W wantW = some (S', R', W')) :
    adjustDown k Uk 2 S = S' ∧ R' = Uk - S' ^ k ∧ W' = if wantW then S' ^ (k - 1) else W := by
  have hk1 : k - 1 + 1 = k := by omega
  have hpow : ∀ x : Nat, x ^ (k - 1) * x = x ^ k := fun x => by rw [← pow_succ, hk1]
  unfold rrCorrect pow1 at h
  by_cases g1 : B ^ (sn - 1) ≤ S
  · rw [if_pos g1] at h
    simp only [Option.bind_eq_bind, Option.bind_some] at h
    rw [hpow] at h
    by_cases c1 : S ^ k ≤ Uk
    · rw [if_pos c1] at h
      simp only [Option.some.injEq, Prod.mk.injEq] at h
      obtain ⟨rfl, rfl, rfl⟩ := h
      refine ⟨?_, rfl, rfl⟩
      unfold adjustDown
      rw [if_neg (by omega)]
    · rw [if_neg c1] at h
      by_cases g2 : B ^ (sn - 1) ≤ S - 1
      · rw [if_pos g2] at h
        simp only [Option.bind_some] at h
        rw [hpow] at h
        by_cases c2 : (S - 1) ^ k ≤ Uk
        · rw [if_pos c2] at h
          simp only [Option.some.injEq, Prod.mk.injEq] at h
          obtain ⟨rfl, rfl, rfl⟩ := h
          refine ⟨?_, rfl, rfl⟩
          unfold adjustDown
          rw [if_pos (by omega)]
          unfold adjustDown
          rw [if_neg (by omega)]
        · rw [if_neg c2] at h; simp at h
      · rw [if_neg g2] at h; simp at h
  · rw [if_neg g1] at h; simp at h

theorem rrStep_bridge (U k b : Nat) (last approx : Bool) (st r : Nat × Nat × Nat × Nat) (ap : Bool) (hk : 1 ≤ k)
    (h : rrStep U k b last approx st = some (r.1, r.2.1, r.2.2.1, r.2.2.2, ap)) :
    Root.rrStep U k b last approx st = (r.1, r.2.1, r.2.2.1, r.2.2.2, ap) := by
  obtain ⟨S, R, W, kk⟩ := st
  obtain ⟨S', R', W', kk'⟩ := r
  unfold rrStep at h
  unfold Root.rrStep
  dsimp only at h ⊢
  generalize hC : S * 2 ^ b + (if (R * 2 ^ b + U >>> (kk - b) % 2 ^ b) / (W * k) ≥ 2 ^ b then 2 ^ b - 1
      else (R * 2 ^ b + U >>> (kk - b) % 2 ^ b) / (W * k)) = C at *
  generalize hUk : U >>> (kk - b - (k - 1) * b) = Uk at *
  generalize hW0 : W * k = W0 at *
  cases last with
  | true =>
    simp only [if_true] at h ⊢
    by_cases ha : (approx && decide (C % B > 1)) = true
    · rw [if_pos ha] at h ⊢
      simp only [Option.some.injEq, Prod.mk.injEq] at h
      obtain ⟨rfl, rfl, rfl, rfl, rfl⟩ := h
      rw [ha]
    · rw [if_neg ha] at h ⊢
      have haf : (approx && decide (C % B > 1)) = false := by simpa using ha
      match hc : rrCorrect k Uk (limbLen C) C W0 false, h with
      | some (S1, R1, W1), h =>
        simp only [Option.map_some, Option.some.injEq, Prod.mk.injEq] at h
        obtain ⟨rfl, rfl, rfl, rfl, rfl⟩ := h
        obtain ⟨b1, b2, b3⟩ := rrCorrect_bridge k Uk _ C W0 false hk _ _ _ hc
        simp only [Bool.false_eq_true, if_false] at b3
        rw [b1, haf, b2, b3]
      | none, h => simp at h
  | false =>
    simp only [Bool.false_eq_true, if_false] at h ⊢
    match hc : rrCorrect k Uk (limbLen C) C W0 true, h with
    | some (S1, R1, W1), h =>
      simp only [Option.map_some, Option.some.injEq, Prod.mk.injEq] at h
      obtain ⟨rfl, rfl, rfl, rfl, rfl⟩ := h
      obtain ⟨b1, b2, b3⟩ := rrCorrect_bridge k Uk _ C W0 true hk _ _ _ hc
      simp only [if_true] at b3
      rw [b1, b2, b3]
    | none, h => simp at h

theorem rrLoop_bridge (U k : Nat) (hk : 1 ≤ k) : ∀ (l : List Nat) (approx : Bool) (st : Nat × Nat × Nat × Nat)
    (r : Nat × Nat × Bool), rrLoop U k approx l st = some r → Root.rrLoop U k approx l st = r
  | [], approx, (S, R, W, kk), r, h => by
    simp only [rrLoop, Option.some.injEq] at h; simp [Root.rrLoop, h]
  | [x], approx, (S, R, W, kk), r, h => by
    simp only [rrLoop, Option.some.injEq] at h; simp [Root.rrLoop, h]
  | hi :: lo :: rest, approx, st, r, h => by
    rw [rrLoop] at h
    rw [Root.rrLoop]
    match hs : rrStep U k (lo - hi) rest.isEmpty approx st, h with
    | none, h => simp at h
    | some (S1, R1, W1, kk1, ap1), h =>
      have hb := rrStep_bridge U k (lo - hi) rest.isEmpty approx st (S1, R1, W1, kk1) ap1 hk hs
      dsimp only at hb
      rw [hb]
      simp only [Option.bind_eq_bind, Option.bind_some] at h
      dsimp only
      by_cases he : rest.isEmpty = true
      · rw [if_pos he] at h ⊢
        simpa using h
      · rw [if_neg he] at h ⊢
        exact rrLoop_bridge U k hk (lo :: rest) ap1 (S1, R1, W1, kk1) r h

theorem rootremInternal_bridge (U k : Nat) (approx : Bool) (hk : 1 ≤ k) (r : Nat × Nat × Bool)
    (h : rootremInternal U k approx = some r) : Root.rootremInternal U k approx = r := by
  unfold rootremInternal at h
  unfold Root.rootremInternal
  dsimp only at h ⊢
  by_cases hx : (bitLen U - 1) / k + 1 = 1
  · rw [if_pos hx] at h ⊢
    simpa using h
  · rw [if_neg hx] at h ⊢
    have hlk : (if bitLen (k - 1) = 0 then 1 else bitLen (k - 1)) =
        (if bitLen (k - 1) = 0 then 1 else bitLen (k - 1)) := rfl
    generalize (if bitLen (k - 1) = 0 then 1 else bitLen (k - 1)) = logk at *
    by_cases hbad : (rrSizes logk 66 ((bitLen U - 1) / k + 1 - 1)).getLast? ≠ some 0 ∨
        (rrSizes logk 66 ((bitLen U - 1) / k + 1 - 1)).length > 65
    · rw [if_pos hbad] at h; simp at h
    · rw [if_neg hbad] at h
      have hl : (rrSizes logk 66 ((bitLen U - 1) / k + 1 - 1)).getLast? = some 0 := by
        by_contra hc; exact hbad (Or.inl hc)
      rw [rrSizes_bridge logk 66 _ hl]
      exact rrLoop_bridge U k hk _ approx _ r h

/-! ### mpn_rootrem_basecase, value-level model of Model/Root.lean -/

theorem bcBits_bridge (nth U xn : Nat) : ∀ (iters x bit nv : Nat) (r : Nat × Nat × Bool),
    bcBits nth U xn iters x bit nv = some r → Root.bcBits nth U iters x bit nv = r
  | 0, x, bit, nv, r, h => by
    simp only [bcBits, Option.some.injEq] at h; simp [Root.bcBits, h]
  | iters + 1, x, bit, nv, r, h => by
    unfold bcBits pow1 at h
    unfold Root.bcBits
    dsimp only at h ⊢
    by_cases g : B ^ (xn - 1) ≤ x ^^^ 1 <<< bit
    · rw [if_pos g] at h
      simp only [Option.bind_eq_bind, Option.bind_some] at h
      have e : (if (x ^^^ 1 <<< bit) ^ nth > U then x ^^^ 1 <<< bit else x) =
          (if U < (x ^^^ 1 <<< bit) ^ nth then x ^^^ 1 <<< bit else x) := rfl
      rw [e]
      by_cases hb : bit = 0
      · rw [if_pos hb] at h ⊢
        simpa using h
      · rw [if_neg hb] at h ⊢
        exact bcBits_bridge nth U xn iters _ _ _ r h
    · rw [if_neg g] at h; simp at h

/-- the Newton loop of the value-level model: same invariant as `bcNewton_spec`; the fuel 64 suffices because
    `n_valid_bits − adj` doubles. -/
theorem root_bcNewton_spec (U k s xnb xn m L : Nat) (hnB : k + 2 < B) (hnL : k + 2 < 2 ^ L)
    (hs1 : s ^ (k + 2) ≤ U) (hs2 : U < (s + 1) ^ (k + 2)) (hxnb : xnb = m + L + 1) (hm : 1 ≤ m)
    (hslo : 2 ^ (xnb - 1) ≤ s) (hshi : s < 2 ^ xnb) (hxn : xn = (xnb + 63) / 64) :
    ∀ (fuel x nv v : Nat), nv = v + (L - 1) → 1 ≤ v → xnb + 1 ≤ 2 ^ fuel * v + (L - 1) →
      s ≤ x → x ≤ s + 2 ^ m → x < B ^ xn → (x - s - 1) * 2 ^ v ≤ 2 ^ (m + 1) →
      s ≤ Root.bcNewton (k + 2) U xn xnb (L - 1) fuel x nv ∧ Root.bcNewton (k + 2) U xn xnb (L - 1) fuel x nv ≤ s + 1 := by
  have hxn1 : 1 ≤ xn := by omega
  have hlow : 2 ^ (m + L) ≤ s := by
    have : xnb - 1 = m + L := by omega
    rw [this] at hslo; exact hslo
  have hsW : s + 1 ≤ B ^ xn := by
    have : 2 ^ xnb ≤ B ^ xn := by
      unfold B; rw [← pow_mul]
      exact Nat.pow_le_pow_right (by norm_num) (by omega)
    omega
  have hBW : B ≤ B ^ xn := by
    calc B = B ^ 1 := (pow_one _).symm
      _ ≤ B ^ xn := Nat.pow_le_pow_right B_pos hxn1
  have hexit : ∀ x v nv, nv = v + (L - 1) → ¬ nv ≤ xnb → s ≤ x → (x - s - 1) * 2 ^ v ≤ 2 ^ (m + 1) → x ≤ s + 1 := by
    intro x v nv hnv hgt _ hd
    by_contra hc
    have h1 : 1 ≤ x - s - 1 := by omega
    have h2 : 2 ^ (m + 2) ≤ 2 ^ v := Nat.pow_le_pow_right (by norm_num) (by omega)
    have h3 : 2 ^ (m + 2) = 2 * 2 ^ (m + 1) := by ring
    have h4 : 1 * 2 ^ v ≤ (x - s - 1) * 2 ^ v := Nat.mul_le_mul_right _ h1
    have : 0 < 2 ^ (m + 1) := by positivity
    omega
  intro fuel
  induction fuel with
  | zero =>
    intro x nv v hnv hv hfuel h1 h2 h3 h4
    unfold Root.bcNewton
    simp only [pow_zero, Nat.one_mul] at hfuel
    exact ⟨h1, hexit x v nv hnv (by omega) h1 h4⟩
  | succ fuel ih =>
    intro x nv v hnv hv hfuel h1 h2 h3 h4
    unfold Root.bcNewton
    by_cases hle : nv ≤ xnb
    · rw [if_pos hle]
      dsimp only
      obtain ⟨t1, t2, t3⟩ := newton_step_true U k s x m L v hnL hs1 hs2 h1 hlow hm h4
      have hx' : newtonTrue U (k + 2) x ≤ B ^ xn := by rcases t3 with h | h <;> omega
      -- the step of this model is min (true Newton iterate, B^xn − 1)
      have hstep : (if (U / x ^ (k + 2 - 1) + (k + 2 - 1) * x) / B ^ xn = k + 2 then B ^ xn - 1
          else (U / x ^ (k + 2 - 1) + (k + 2 - 1) * x) / (k + 2)) = min (newtonTrue U (k + 2) x) (B ^ xn - 1) := by
        unfold newtonTrue at hx' ⊢
        generalize U / x ^ (k + 2 - 1) + (k + 2 - 1) * x = T at *
        generalize hW : B ^ xn = W at *
        have hWpos : 0 < W := by omega
        have hTlt : T < (k + 2) * W + (k + 2) := by
          have := Nat.lt_mul_div_succ T (show 0 < k + 2 by omega)
          have h2 : (k + 2) * (T / (k + 2) + 1) ≤ (k + 2) * (W + 1) := Nat.mul_le_mul_left _ (by omega)
          have : (k + 2) * (W + 1) = (k + 2) * W + (k + 2) := by ring
          omega
        have hT2 : T < (k + 2 + 1) * W := by
          have : (k + 2 + 1) * W = (k + 2) * W + W := by ring
          omega
        by_cases hsat : T / W = k + 2
        · rw [if_pos hsat]
          have hTge : (k + 2) * W ≤ T := by
            have := Nat.div_mul_le_self T W
            rw [hsat] at this; exact this
          have : W ≤ T / (k + 2) := (Nat.le_div_iff_mul_le (by omega)).mpr (by rw [Nat.mul_comm]; exact hTge)
          exact (Nat.min_eq_right (by omega)).symm
        · rw [if_neg hsat]
          have hle' : T / W < k + 2 + 1 := (Nat.div_lt_iff_lt_mul hWpos).mpr hT2
          have hcy : T / W < k + 2 := by omega
          have hTW : T < (k + 2) * W := (Nat.div_lt_iff_lt_mul hWpos).mp hcy
          have hTn : T / (k + 2) < W := (Nat.div_lt_iff_lt_mul (by omega)).mpr (by rw [Nat.mul_comm]; exact hTW)
          exact (Nat.min_eq_left (by omega)).symm
      rw [hstep]
      obtain ⟨y, hy⟩ : ∃ y, y = min (newtonTrue U (k + 2) x) (B ^ xn - 1) := ⟨_, rfl⟩
      rw [← hy]
      have y1 : s ≤ y := by rw [hy]; exact Nat.le_min.mpr ⟨t1, by omega⟩
      have y2 : y ≤ newtonTrue U (k + 2) x := by rw [hy]; exact Nat.min_le_left _ _
      have y3 : y < B ^ xn := by
        have : y ≤ B ^ xn - 1 := by rw [hy]; exact Nat.min_le_right _ _
        omega
      have y4 : y ≤ s + 2 ^ m := by
        have : 1 ≤ 2 ^ m := Nat.one_le_two_pow
        rcases t3 with h | h <;> omega
      have y5 : (y - s - 1) * 2 ^ (2 * v) ≤ 2 ^ (m + 1) :=
        Nat.le_trans (Nat.mul_le_mul_right _ (by omega)) t2
      have hf' : xnb + 1 ≤ 2 ^ fuel * (2 * v) + (L - 1) := by
        have : 2 ^ (fuel + 1) * v = 2 ^ fuel * (2 * v) := by rw [pow_succ]; ring
        omega
      exact ih y (nv * 2 - (L - 1)) (2 * v) (by omega) (by omega) hf' y1 y4 y3 y5
    · rw [if_neg hle]
      exact ⟨h1, hexit x v nv hnv hle h1 h4⟩

/-- the value-level basecase returns the floor root and the exact remainder (same hypotheses as `rootremBasecase_ok`). -/
theorem root_rootremBasecase_ok (U n : Nat) (hU : 0 < U) (hn : 2 ≤ n) (hnB : n < B) (hsz : bitLen U ≤ 2 ^ 32) :
    Root.rootremBasecase U n = (iroot n U, U - iroot n U ^ n) := by
  obtain ⟨hs1, hs2⟩ := iroot_spec n U (by omega)
  obtain ⟨hb1, hb2⟩ := iroot_bits U n hU (by omega)
  have hfin : ∀ x, iroot n U ≤ x → x ≤ iroot n U + 1 → finalAdjust1 n U x = (iroot n U, U - iroot n U ^ n) :=
    fun x h1 h2 => by unfold finalAdjust1; rw [adjustDown_spec n U (by omega) 1 x h1 h2]; rfl
  generalize hs : iroot n U = s at *
  unfold Root.rootremBasecase
  dsimp only
  generalize hq : (bitLen U - 1) / n = q at *
  by_cases hx1 : q + 1 = 1
  · rw [if_pos hx1]
    have hq0 : q = 0 := by omega
    subst hq0
    have : s = 1 := by simp at hb1 hb2; omega
    subst this; simp
  rw [if_neg hx1]
  have hq1 : 1 ≤ q := by omega
  obtain ⟨T, hT⟩ : ∃ T, T = 2 ^ q := ⟨_, rfl⟩
  have hTpos : 0 < T := by rw [hT]; positivity
  have hpw : 2 ^ (q + 1) = 2 * T := by rw [hT]; ring
  have hbit : q + 1 - 2 + 1 = q := by omega
  obtain ⟨xn, hxn⟩ : ∃ xn, xn = (q + 1 + 63) / 64 := ⟨_, rfl⟩
  rw [← hxn]
  have hTB : B ^ (xn - 1) ≤ T := by
    rw [hT]; unfold B; rw [← pow_mul]
    exact Nat.pow_le_pow_right (by norm_num) (by omega)
  rw [← hT] at hb1
  rw [hpw] at hb2 ⊢
  obtain ⟨x', nv', dn, e1, e2, e3, e4, e5⟩ := bcBits_spec U n s xn T hs1 hs2 hTB (bitLen n) (2 * T - 1) (q + 1 - 2) 0
    (by omega) (by rw [hbit, ← hT]; omega)
    (by
      rw [hbit, ← hT]
      have : 2 * T - 1 = T + (T - 1) := by omega
      rw [this, Nat.add_mod_left, Nat.mod_eq_of_lt (by omega)])
    (by rw [hbit, ← hT]; omega)
  rw [bcBits_bridge n U xn _ _ _ _ _ e1]
  dsimp only
  cases dn with
  | true =>
    simp only [if_true]
    exact hfin x' e2 (e4 rfl)
  | false =>
    obtain ⟨g1, g2, g3⟩ := e5 rfl
    simp only [Nat.zero_add] at g1
    obtain ⟨L, hL⟩ : ∃ L, L = bitLen n := ⟨_, rfl⟩
    rw [← hL] at g1 g2 g3
    obtain ⟨b1, b2, b3⟩ := bitLen_spec n (by omega)
    rw [← hL] at b1 b2 b3
    obtain ⟨m, hm⟩ : ∃ m, m = q - L := ⟨_, rfl⟩
    have hmq : q + 1 = m + L + 1 := by omega
    have hm1 : 1 ≤ m := by omega
    obtain ⟨k, hk⟩ : ∃ k, n = k + 2 := ⟨n - 2, by omega⟩
    have hexp : q + 1 - 2 + 1 - L = m := by omega
    rw [hexp] at g3
    have hx'W : x' < B ^ xn := by
      have : 2 * T ≤ B ^ xn := by
        rw [← hpw]; unfold B; rw [← pow_mul]
        exact Nat.pow_le_pow_right (by norm_num) (by omega)
      omega
    subst hk
    have hmL : 2 ^ (q + 1 - 1) ≤ s := by
      have : q + 1 - 1 = q := by omega
      rw [this, ← hT]; exact hb1
    have hqsmall : q + 1 + 1 ≤ 2 ^ 64 := by
      have : q ≤ bitLen U - 1 := by rw [← hq]; exact Nat.div_le_self _ _
      have : (2:Nat) ^ 32 + 2 ≤ 2 ^ 64 := by norm_num
      omega
    obtain ⟨y2, y3⟩ := root_bcNewton_spec U k s (q + 1) xn m L hnB b2 hs1 hs2 (by omega) hm1
      hmL (by rw [hpw]; exact hb2) hxn
      64 x' nv' 1 (by omega) (Nat.le_refl _) (by omega) e2 g3 hx'W
      (by
        have : x' - s - 1 ≤ 2 ^ m := by omega
        calc (x' - s - 1) * 2 ^ 1 ≤ 2 ^ m * 2 ^ 1 := Nat.mul_le_mul_right _ this
          _ = 2 ^ (m + 1) := by ring)
    have hadj : nv' - 1 = L - 1 := by omega
    simp only [Bool.false_eq_true, if_false]
    rw [hadj]
    exact hfin _ y2 y3

/-! ### the contract -/

/-- `Mpir.Root.rootrem` (the model the mpz layer calls) agrees with the `Option`-valued mirror wherever that answers. -/
theorem root_rootrem_eq (U k : Nat) (w : Bool) (hU : 0 < U) (hk : 2 ≤ k) (hkB : k < B) (hsz : bitLen U ≤ 2 ^ 61) :
    ∃ R, Root.rootrem U (limbCount U) k w = (iroot k U, R) ∧ (w = true → R = U - iroot k U ^ k) ∧
      (R = 0 ↔ iroot k U ^ k = U) := by
  obtain ⟨R, e, p1, p2⟩ := rootrem_ok U k w hU hk hkB hsz
  refine ⟨R, ?_, p1, p2⟩
  unfold rootrem at e
  unfold Root.rootrem
  rw [limbCount_eq]
  dsimp only at e ⊢
  by_cases h1 : limbLen U < rootremThreshold
  · rw [if_pos h1] at e ⊢
    have h : limbLen U < 2 ^ 26 := Nat.lt_trans h1 (by decide)
    have hb : bitLen U ≤ 2 ^ 32 := by unfold limbLen at h; omega
    rw [rootremBasecase_ok U k hU hk hkB hb] at e
    rw [root_rootremBasecase_ok U k hU hk hkB hb]
    simpa using e
  · rw [if_neg h1] at e ⊢
    by_cases h2 : (!w && decide (limbLen U / k > 2)) = true
    · rw [if_pos h2] at e ⊢
      match hi : rootremInternal (U * B ^ k) k true, e with
      | none, e => simp at e
      | some (S1, R1, a1), e =>
        rw [rootremInternal_bridge _ k true (by omega) _ hi]
        simpa using e
    · rw [if_neg h2] at e ⊢
      match hi : rootremInternal U k false, e with
      | none, e => simp at e
      | some (S1, R1, a1), e =>
        rw [rootremInternal_bridge _ k false (by omega) _ hi]
        simpa using e

/-- THE CONTRACT OF mpn_rootrem (`RootremAt`, the hypothesis of the mpz-level theorems) holds for every operand of at
    most 2^61 bits and every index `k ≥ 2` (indices `≥ 2^64` do not occur in the C; the model answers root 1 there). -/
theorem rootremAt_holds (a k : Nat) (ha : 0 < a) (hk : 2 ≤ k) (hsz : bitLen a ≤ 2 ^ 61) : RootremAt a k := by
  by_cases hkB : k < B
  · intro w
    obtain ⟨R, e, p1, p2⟩ := root_rootrem_eq a k w ha hk hkB hsz
    rw [e]
    exact ⟨rfl, p2, p1⟩
  · exact rootremAt_huge a k ha (by
      have : (2:Nat) ^ 61 ≤ B := by unfold B; norm_num
      omega)

end Mpir.Rootrem
