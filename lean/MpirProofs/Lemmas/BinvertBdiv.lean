/- mpn_dc_bdiv_qr_n at value level (Mpir/Model/BinvertBdiv.lean): the recursion keeps N + rh·B^2n = Q·D + R·B^n. -/
import MpirProofs.Lemmas.BinvertPinned
import Mpir.Model.BinvertBdiv
import Mathlib.Tactic.LinearCombination
namespace Mpir.Binvert
open Mpir Mpir.Powm

/-- the contract of the mpn_*_bdiv_qr family on `(Q, R, rh)` -/
def QrOk (N D n : Nat) (r : Nat × Nat × Nat) : Prop :=
  r.1 < B ^ n ∧ r.2.1 < B ^ n ∧ r.2.2 ≤ 1 ∧ N + r.2.2 * B ^ (2 * n) = r.1 * D + r.2.1 * B ^ n

/-- the contract assumed of mpn_sb_bdiv_qr (.., 2n, .., n, ..): every n ≥ 1, N < B^2n, odd D < B^n -/
def SbSpec (sb : Nat → Nat → Nat → Nat × Nat × Nat) : Prop :=
  ∀ N D n, 1 ≤ n → N < B ^ (2 * n) → D < B ^ n → D % 2 = 1 → QrOk N D n (sb N D n)

theorem belowThr_false (size thr : Nat) (h : belowThr size thr = false) (ht : 1 ≤ thr) : thr ≤ size := by
  unfold belowThr at h
  have : (thr == 0) = false := by simp; omega
  simp [this] at h; exact h

/-- a subtraction of `y ≤ M` from `x < M` in `M`-limb arithmetic: the stored value and the borrow -/
theorem sub_borrow (x y M : Nat) (hx : x < M) (hy : y ≤ M) :
    (((x + M - y) % M : Nat) : ℤ) = (x : ℤ) - y + ((if x < y then 1 else 0 : Nat) : ℤ) * M := by
  by_cases h : x < y
  · rw [if_pos h, Nat.mod_eq_of_lt (by omega)]
    push_cast [Nat.cast_sub (show y ≤ x + M by omega)]; ring
  · rw [if_neg h]
    have : x + M - y = (x - y) + M := by omega
    rw [this, Nat.add_mod_right, Nat.mod_eq_of_lt (by omega)]
    push_cast [Nat.cast_sub (show y ≤ x by omega)]; ring

theorem mod_two_of_mod_pow (D k : Nat) (hk : 1 ≤ k) (h : D % 2 = 1) : (D % B ^ k) % 2 = 1 := by
  have : 2 ∣ B ^ k := dvd_trans (by rw [B_eq]; norm_num) (dvd_pow_self B (by omega))
  rw [Nat.mod_mod_of_dvd _ this]; exact h

theorem lt_mul_of (x y P Q : Nat) (hx : x < P) (hy : y < Q) : x + P * y < P * Q := by
  have := Nat.mul_le_mul_left P (show y + 1 ≤ Q from hy)
  rw [Nat.mul_add, Nat.mul_one] at this
  omega

theorem mul_add_le (u v c P Q : Nat) (hu : u < P) (hv : v < Q) (hc : c ≤ 1) : u * v + c * P ≤ P * Q := by
  obtain ⟨p, rfl⟩ : ∃ p, P = p + 1 := ⟨P - 1, by omega⟩
  obtain ⟨q, rfl⟩ : ∃ q, Q = q + 1 := ⟨Q - 1, by omega⟩
  have h1 : u * v ≤ p * q := Nat.mul_le_mul (by omega) (by omega)
  have h2 : c * (p + 1) ≤ 1 * (p + 1) := Nat.mul_le_mul_right _ hc
  have h3 : (p + 1) * (q + 1) = p * q + p + q + 1 := by ring
  omega

theorem borrow_le_one (N c X QD RB : Nat) (h : N + c * X = QD + RB) (h1 : QD < X) (h2 : RB < X) : c ≤ 1 := by
  by_contra hc
  have : 2 * X ≤ c * X := Nat.mul_le_mul_right _ (by omega)
  omega

/-- one level of mpn_dc_bdiv_qr_n: from the contracts of the two half-size divisions to the contract at size n -/
theorem qr_step (N D n lo hi : Nat) (a b : Nat × Nat × Nat) (hlo : 1 ≤ lo) (hhi : 1 ≤ hi) (hnn : n = lo + hi)
    (hN : N < B ^ (2 * n)) (hD : D < B ^ n)
    (hA : QrOk (N % B ^ (2 * lo)) (D % B ^ lo) lo a)
    (hBq : QrOk (((a.2.1 + B ^ lo * (N / B ^ (2 * lo)) + B ^ (n + hi) - ((D / B ^ lo) * a.1 + a.2.2 * B ^ lo)) % B ^ (n + hi))
      % B ^ (2 * hi)) (D % B ^ hi) hi b) :
    QrOk N D n (a.1 + B ^ lo * b.1,
      (b.2.1 + B ^ hi * (((a.2.1 + B ^ lo * (N / B ^ (2 * lo)) + B ^ (n + hi) - ((D / B ^ lo) * a.1 + a.2.2 * B ^ lo)) % B ^ (n + hi))
        / B ^ (2 * hi)) + B ^ n - (b.1 * (D / B ^ hi) + b.2.2 * B ^ hi)) % B ^ n,
      (if a.2.1 + B ^ lo * (N / B ^ (2 * lo)) < (D / B ^ lo) * a.1 + a.2.2 * B ^ lo then 1 else 0) +
      (if b.2.1 + B ^ hi * (((a.2.1 + B ^ lo * (N / B ^ (2 * lo)) + B ^ (n + hi) - ((D / B ^ lo) * a.1 + a.2.2 * B ^ lo)) % B ^ (n + hi))
        / B ^ (2 * hi)) < b.1 * (D / B ^ hi) + b.2.2 * B ^ hi then 1 else 0)) := by
    have hn' : n = lo + hi := hnn
    have hBn : B ^ n = B ^ lo * B ^ hi := by rw [hn', pow_add]
    have hB2n : B ^ (2 * n) = B ^ (2 * lo) * B ^ (2 * hi) := by rw [← pow_add]; congr 1; omega
    have hBnh : B ^ (n + hi) = B ^ lo * B ^ (2 * hi) := by rw [← pow_add]; congr 1; omega
    have h2lo : B ^ (2 * lo) = B ^ lo * B ^ lo := by rw [← pow_add]; congr 1; omega
    have h2hi : B ^ (2 * hi) = B ^ hi * B ^ hi := by rw [← pow_add]; congr 1; omega
    have plo : 0 < B ^ lo := Nat.pow_pos B_pos
    have phi : 0 < B ^ hi := Nat.pow_pos B_pos
    obtain ⟨a1, a2, a3, a4⟩ := hA
    have hNd := Nat.mod_add_div N (B ^ (2 * lo))
    have hDd := Nat.mod_add_div D (B ^ lo)
    have hNb : N / B ^ (2 * lo) < B ^ (2 * hi) := by
      rw [Nat.div_lt_iff_lt_mul (Nat.pow_pos B_pos), Nat.mul_comm, ← hB2n]; exact hN
    have hDh : D / B ^ lo < B ^ hi := by
      rw [Nat.div_lt_iff_lt_mul plo, Nat.mul_comm, ← hBn]; exact hD
    generalize N % B ^ (2 * lo) = Na at *
    generalize N / B ^ (2 * lo) = Nb at *
    generalize D % B ^ lo = Dl at *
    generalize D / B ^ lo = Dh at *
    -- the first correction
    have hM : a.2.1 + B ^ lo * Nb < B ^ (n + hi) := by
      rw [hBnh]; exact lt_mul_of _ _ _ _ a2 hNb
    have htp : Dh * a.1 + a.2.2 * B ^ lo ≤ B ^ (n + hi) := by
      have t1 := mul_add_le a.1 Dh a.2.2 (B ^ lo) (B ^ hi) a1 hDh a3
      have t2 : B ^ lo * B ^ hi ≤ B ^ lo * B ^ (2 * hi) := by
        rw [h2hi]; exact Nat.mul_le_mul_left _ (Nat.le_mul_of_pos_left _ phi)
      rw [hBnh, Nat.mul_comm Dh]; omega
    have hM' := sub_borrow _ _ _ hM htp
    have hM'lt : (a.2.1 + B ^ lo * Nb + B ^ (n + hi) - (Dh * a.1 + a.2.2 * B ^ lo)) % B ^ (n + hi) < B ^ (n + hi) :=
      Nat.mod_lt _ (Nat.pow_pos B_pos)
    generalize (a.2.1 + B ^ lo * Nb + B ^ (n + hi) - (Dh * a.1 + a.2.2 * B ^ lo)) % B ^ (n + hi) = M' at *
    generalize (if a.2.1 + B ^ lo * Nb < Dh * a.1 + a.2.2 * B ^ lo then 1 else 0) = rh at *
    obtain ⟨b1, b2, b3, b4⟩ := hBq
    have hMd := Nat.mod_add_div M' (B ^ (2 * hi))
    have hDd2 := Nat.mod_add_div D (B ^ hi)
    have hMb : M' / B ^ (2 * hi) < B ^ lo := by
      rw [Nat.div_lt_iff_lt_mul (Nat.pow_pos B_pos), ← hBnh]; exact hM'lt
    have hDt : D / B ^ hi < B ^ lo := by
      rw [Nat.div_lt_iff_lt_mul phi, ← hBn]; exact hD
    generalize M' % B ^ (2 * hi) = Ma at *
    generalize M' / B ^ (2 * hi) = Mb at *
    generalize D % B ^ hi = D2 at *
    generalize D / B ^ hi = Dt at *
    have hRn : b.2.1 + B ^ hi * Mb < B ^ n := by rw [hBn, Nat.mul_comm (B ^ lo)]; exact lt_mul_of _ _ _ _ b2 hMb
    have htp2 : b.1 * Dt + b.2.2 * B ^ hi ≤ B ^ n := by
      rw [hBn, Nat.mul_comm (B ^ lo)]; exact mul_add_le b.1 Dt b.2.2 (B ^ hi) (B ^ lo) b1 hDt b3
    have hR := sub_borrow _ _ _ hRn htp2
    have hRlt : (b.2.1 + B ^ hi * Mb + B ^ n - (b.1 * Dt + b.2.2 * B ^ hi)) % B ^ n < B ^ n := Nat.mod_lt _ (Nat.pow_pos B_pos)
    generalize (b.2.1 + B ^ hi * Mb + B ^ n - (b.1 * Dt + b.2.2 * B ^ hi)) % B ^ n = R at *
    generalize (if b.2.1 + B ^ hi * Mb < b.1 * Dt + b.2.2 * B ^ hi then 1 else 0) = rh2 at *
    -- assemble
    have hQ : a.1 + B ^ lo * b.1 < B ^ n := by rw [hBn]; exact lt_mul_of _ _ _ _ a1 b1
    have key : ((N : ℤ) + ((rh + rh2 : Nat) : ℤ) * (B : ℤ) ^ (2 * n)) = ((a.1 + B ^ lo * b.1 : Nat) : ℤ) * D + (R : ℤ) * (B : ℤ) ^ n := by
      have e1 : (N : ℤ) = Na + (B : ℤ) ^ (2 * lo) * Nb := by exact_mod_cast hNd.symm
      have e2 : (D : ℤ) = Dl + (B : ℤ) ^ lo * Dh := by exact_mod_cast hDd.symm
      have e3 : (M' : ℤ) = Ma + (B : ℤ) ^ (2 * hi) * Mb := by exact_mod_cast hMd.symm
      have e4 : (D : ℤ) = D2 + (B : ℤ) ^ hi * Dt := by exact_mod_cast hDd2.symm
      have f1 : (Na : ℤ) + a.2.2 * (B : ℤ) ^ (2 * lo) = a.1 * Dl + a.2.1 * (B : ℤ) ^ lo := by exact_mod_cast a4
      have f2 : (Ma : ℤ) + b.2.2 * (B : ℤ) ^ (2 * hi) = b.1 * D2 + b.2.1 * (B : ℤ) ^ hi := by exact_mod_cast b4
      have g1 : ((B : ℤ)) ^ n = (B : ℤ) ^ lo * (B : ℤ) ^ hi := by exact_mod_cast hBn
      have g2 : ((B : ℤ)) ^ (2 * n) = (B : ℤ) ^ (2 * lo) * (B : ℤ) ^ (2 * hi) := by exact_mod_cast hB2n
      have g3 : ((B : ℤ)) ^ (n + hi) = (B : ℤ) ^ lo * (B : ℤ) ^ (2 * hi) := by exact_mod_cast hBnh
      have g4 : ((B : ℤ)) ^ (2 * lo) = (B : ℤ) ^ lo * (B : ℤ) ^ lo := by exact_mod_cast h2lo
      have g5 : ((B : ℤ)) ^ (2 * hi) = (B : ℤ) ^ hi * (B : ℤ) ^ hi := by exact_mod_cast h2hi
      push_cast at hM' hR ⊢
      rw [g3, g5] at hM'
      rw [g1] at hR
      rw [g1, g2, g4, g5]
      rw [g4] at e1 f1
      rw [g5] at e3 f2
      generalize (B : ℤ) ^ lo = L at *
      generalize (B : ℤ) ^ hi = H at *
      linear_combination e1 - (a.1 : ℤ) * e2 - (L * b.1) * e4 + f1 - L * hM' + L * e3 + L * f2 - (L * H) * hR
    refine ⟨hQ, hRlt, ?_, by exact_mod_cast key⟩
    -- the borrow is at most 1
    have keyN : N + (rh + rh2) * B ^ (2 * n) = (a.1 + B ^ lo * b.1) * D + R * B ^ n := by exact_mod_cast key
    have hsq : B ^ (2 * n) = B ^ n * B ^ n := by rw [← pow_add]; congr 1; omega
    have q1 : (a.1 + B ^ lo * b.1) * D < B ^ n * B ^ n := Nat.mul_lt_mul'' hQ hD
    have q2 : R * B ^ n < B ^ n * B ^ n := Nat.mul_lt_mul_of_pos_right hRlt (Nat.pow_pos B_pos)
    rw [← hsq] at q1 q2
    exact borrow_le_one _ _ _ _ _ keyN q1 q2

/-- mpn_dc_bdiv_qr_n meets the contract at every size n ≥ 2, for every DC_BDIV_QR_THRESHOLD ≥ 2 and every recursion depth -/
theorem dcBdivQrN_spec (thr : Nat) (hthr : 2 ≤ thr) (sb : Nat → Nat → Nat → Nat × Nat × Nat) (hsb : SbSpec sb) (f : Nat) :
    ∀ (N D n : Nat), 2 ≤ n → N < B ^ (2 * n) → D < B ^ n → D % 2 = 1 → QrOk N D n (dcBdivQrN thr sb f N D n) := by
  induction f with
  | zero =>
    intro N D n hn hN hD hodd
    exact hsb N D n (by omega) hN hD hodd
  | succ f ih =>
    intro N D n hn hN hD hodd
    have hlo : 1 ≤ n / 2 := by omega
    have hhi : 1 ≤ n - n / 2 := by omega
    have sub : ∀ (N' k : Nat), 1 ≤ k → N' < B ^ (2 * k) →
        QrOk N' (D % B ^ k) k (if belowThr k thr then sb N' (D % B ^ k) k else dcBdivQrN thr sb f N' (D % B ^ k) k) := by
      intro N' k hk hN'
      have i2 : D % B ^ k < B ^ k := Nat.mod_lt _ (Nat.pow_pos B_pos)
      have i3 := mod_two_of_mod_pow D k hk hodd
      by_cases hb : belowThr k thr = true
      · rw [if_pos hb]; exact hsb _ _ _ hk hN' i2 i3
      · rw [if_neg hb]
        have := belowThr_false k thr (by simpa using hb) (by omega)
        exact ih _ _ k (by omega) hN' i2 i3
    unfold dcBdivQrN
    simp only
    exact qr_step N D n (n / 2) (n - n / 2) _ _ hlo hhi (by omega) hN hD
      (sub _ _ hlo (Nat.mod_lt _ (Nat.pow_pos B_pos))) (sub _ _ hhi (Nat.mod_lt _ (Nat.pow_pos B_pos)))

/-- the value model of the base case meets the contract of mpn_sb_bdiv_qr -/
theorem sbSpec_val : SbSpec sbBdivQrVal := by
  intro N D n hn hN hD hodd
  have hM : 0 < B ^ n := Nat.pow_pos B_pos
  have hsq : B ^ (2 * n) = B ^ n * B ^ n := by rw [← pow_add]; congr 1; omega
  have hb := binvert_spec D n hn hodd
  have hN' : N < B ^ n * B ^ n := by rw [← hsq]; exact hN
  have hQ : (N * binvert D n) % B ^ n < B ^ n := Nat.mod_lt _ hM
  have hQD : ((N * binvert D n) % B ^ n * D) ≡ N [MOD B ^ n] := by
    have h1 : (N * binvert D n) % B ^ n ≡ N * binvert D n [MOD B ^ n] := Nat.mod_modEq _ _
    have h2 := h1.mul_right D
    have h3 : binvert D n * D ≡ 1 [MOD B ^ n] := by
      unfold Nat.ModEq; rw [hb]
      rcases Nat.lt_or_ge 1 (B ^ n) with h | h
      · rw [Nat.mod_eq_of_lt h]
      · have : B ^ n = 1 := by omega
        rw [this, Nat.mod_one] at hb; omega
    have h4 := h3.mul_left N
    rw [← Nat.mul_assoc, Nat.mul_one] at h4
    exact h2.trans h4
  unfold sbBdivQrVal
  simp only
  generalize (N * binvert D n) % B ^ n = Q at *
  have hQDlt : Q * D < B ^ n * B ^ n := Nat.mul_lt_mul'' hQ hD
  by_cases hle : Q * D ≤ N
  · rw [if_pos hle]
    have hdvd : B ^ n ∣ N - Q * D := (Nat.modEq_iff_dvd' hle).mp hQD
    obtain ⟨e, he⟩ := hdvd
    have hR : (N - Q * D) / B ^ n = e := by rw [he, Nat.mul_div_cancel_left _ hM]
    simp only [hR]
    unfold QrOk
    dsimp only
    refine ⟨hQ, ?_, by omega, ?_⟩
    · by_contra hc
      have : B ^ n * B ^ n ≤ B ^ n * e := Nat.mul_le_mul_left _ (by omega)
      omega
    · rw [Nat.mul_comm e]; omega
  · rw [if_neg hle]
    have hle' : N ≤ Q * D := by omega
    have hdvd : B ^ n ∣ Q * D - N := (Nat.modEq_iff_dvd' hle').mp hQD.symm
    obtain ⟨e, he⟩ := hdvd
    have hR : (Q * D - N) / B ^ n = e := by rw [he, Nat.mul_div_cancel_left _ hM]
    simp only [hR]
    unfold QrOk
    dsimp only
    have he1 : 1 ≤ e := by
      rcases Nat.eq_zero_or_pos e with h | h
      · subst h; omega
      · exact h
    have helt : e < B ^ n := by
      by_contra hc
      have : B ^ n * B ^ n ≤ B ^ n * e := Nat.mul_le_mul_left _ (by omega)
      omega
    refine ⟨hQ, by omega, le_refl _, ?_⟩
    have : (B ^ n - e) * B ^ n + B ^ n * e = B ^ n * B ^ n := by
      rw [Nat.mul_comm (B ^ n) e, ← Nat.add_mul]; congr 1; omega
    rw [hsq]; omega

end Mpir.Binvert
