/- C20 lemmas (accessors): an mpz-typed tree assigned to an mpq object is evaluated into the numerator from the OLD raw
   fields and only then is the denominator set to 1 (`evalQ_z_fields`); assignments through the accessors followed by
   `canonicalize()` (`execAcc_correct`); `mpq_class(z1, z2)` (`execInit2_correct`). -/
import MpirProofs.Lemmas.CxxQ2
import Mpir.Model.CxxAcc
namespace Mpir.Cxx

/-- numerator holds the value, denominator is 1, every other pre-existing object (all mpq fields included) is unchanged -/
def PostN (k p : Nat) (h : Heap) (r : Option Int) (res : Option Heap) : Prop :=
  match r with
  | none => res = none
  | some x => ∃ h', res = some h' ∧ h' (.num p) = x ∧ h' (.den p) = 1 ∧
      ∀ l : ZLoc, l.below k → l ≠ .num p → l ≠ .den p → h' l = h l

theorem convZ_fields (cst : Bool) (e : E) (hty : e.ty = .z) (hwt : e.wt = true) (k p : Nat) (h : Heap) (hb : e.zbelow k) :
    PostN k p h (evalTmpZ h.get e) (convZ cst k p e h) := by
  unfold convZ
  have H := evalZ_correct cst e hty hwt k (.num p) h trivial hb
  cases hr : evalTmpZ h.get e with
  | none => rw [hr] at H; simp only [Post] at H; simp [H, PostN]
  | some x =>
    rw [hr] at H
    obtain ⟨h', e1, hx, hfr⟩ := H
    simp only [e1, Option.map_some, PostN]
    refine ⟨_, rfl, ?_, ?_, fun l hl h1 h2 => ?_⟩
    · simp only [mpz_set_ui]; rw [Heap.set_get_ne _ _ _ _ (by simp)]; exact hx
    · simp [mpz_set_ui]
    · simp only [mpz_set_ui]; rw [Heap.set_get_ne _ _ _ _ h2]; exact hfr l hl h1

theorem ty_z_bin {o : Bin} {a b : E} (hty : (E.bin o a b).ty = .z) : a.ty = .z ∧ b.ty = .z := by
  simp only [E.ty] at hty
  by_cases hc : a.ty = .z ∧ b.ty = .z
  · exact hc
  · simp [hc] at hty

/-- `q_p = e` for an mpz-typed `e` on the RAW fields (no canonicity assumed, `p`'s own accessors may occur in `e`):
    the numerator ends with the temporaries value computed from the old fields, the denominator with 1. -/
theorem evalQ_z_fields (cst : Bool) (e : E) (hty : e.ty = .z) (hwt : e.wt = true) (k p : Nat) (h : Heap) (hb : e.zbelow k) :
    PostN k p h (evalTmpZ h.get e) (evalQ cst k p e h) := by
  have leaf : ∀ l : ZLoc, PostN k p h (some (h l)) (some (mpq_set_z p l h)) := fun l =>
    ⟨_, rfl, by simp only [mpq_set_z]; rw [Heap.set_get_ne _ _ _ _ (by simp), Heap.set_get], by simp [mpq_set_z], fun l' _ h1 h2 => by
      simp only [mpq_set_z]; rw [Heap.set_get_ne _ _ _ _ h2, Heap.set_get_ne _ _ _ _ h1]⟩
  cases e with
  | zv i => simpa only [evalQ, evalTmpZ] using leaf (.v i)
  | zn i => simpa only [evalQ, evalTmpZ] using leaf (.num i)
  | zd i => simpa only [evalQ, evalTmpZ] using leaf (.den i)
  | qv i => simp [E.ty] at hty
  | un o a =>
    have : a.ty = .z := by simpa [E.ty] using hty
    simp only [evalQ, this, if_true]; exact convZ_fields cst _ hty hwt k p h hb
  | sh o a n =>
    have : a.ty = .z := by simpa [E.ty] using hty
    simp only [evalQ, this, if_true]; exact convZ_fields cst _ hty hwt k p h hb
  | binL o c b =>
    have : b.ty = .z := by simpa [E.ty] using hty
    simp only [evalQ, this, if_true]; exact convZ_fields cst _ hty hwt k p h hb
  | binR o a c =>
    have : a.ty = .z := by simpa [E.ty] using hty
    simp only [evalQ, this, if_true]; exact convZ_fields cst _ hty hwt k p h hb
  | bin o a b =>
    have := ty_z_bin hty
    simp only [evalQ]; rw [if_pos this]; exact convZ_fields cst _ hty hwt k p h hb

/-! ### assignments through the accessors -/

def StepOk (K : Nat) (s : Bool × E) : Prop := s.2.ty = .z ∧ s.2.wt = true ∧ s.2.zbelow K

theorem fld_below (i : Nat) (d : Bool) (k : Nat) : (fld i d).below k := by
  unfold fld; split <;> trivial

/-- the sequence of field assignments: the heap of the implementation agrees with the specification's on everything that
    existed before (it differs in the temporaries only) -/
theorem execAccSteps_correct (cst : Bool) (K i : Nat) : ∀ (steps : List (Bool × E)) (hs h : Heap),
    (∀ l : ZLoc, l.below K → h l = hs l) → (∀ s ∈ steps, StepOk K s) →
    match accSteps i steps hs with
    | none => execAccSteps cst K i steps h = none
    | some s' => ∃ h', execAccSteps cst K i steps h = some h' ∧ ∀ l : ZLoc, l.below K → h' l = s' l := by
  intro steps
  induction steps with
  | nil => intro hs h hag _; exact ⟨h, rfl, hag⟩
  | cons st r ih =>
    intro hs h hag hok
    obtain ⟨d, e⟩ := st
    obtain ⟨hty, hwt, hzb⟩ := hok (d, e) (by simp)
    have H := evalZ_correct cst e hty hwt K (fld i d) h (fld_below i d K) hzb
    rw [evalTmpZ_frame hag e hzb] at H
    simp only [accSteps, execAccSteps]
    cases hr : evalTmpZ hs.get e with
    | none => rw [hr] at H; simp only [Post] at H; simp [H]
    | some x =>
      rw [hr] at H
      obtain ⟨h1, e1, hx, hfr⟩ := H
      simp only [e1, Option.bind_some]
      refine ih (hs.set (fld i d) x) h1 (fun l hl => ?_) (fun s hs' => hok s (by simp [hs']))
      by_cases hlp : l = fld i d
      · subst hlp; simp [hx]
      · rw [Heap.set_get_ne _ _ _ _ hlp, hfr l hl hlp]; exact hag l hl

/-- the field assignments of the specification touch the two fields of object `i` only -/
theorem accSteps_frame (i : Nat) : ∀ (steps : List (Bool × E)) (hs s' : Heap), accSteps i steps hs = some s' →
    ∀ l : ZLoc, l ≠ .num i → l ≠ .den i → s' l = hs l := by
  intro steps
  induction steps with
  | nil => intro hs s' h l _ _; simp only [accSteps, Option.some.injEq] at h; rw [h]
  | cons st r ih =>
    intro hs s' h l h1 h2
    obtain ⟨d, e⟩ := st
    simp only [accSteps] at h
    cases hr : evalTmpZ hs.get e with
    | none => simp [hr] at h
    | some x =>
      rw [hr] at h; simp only [Option.bind_some] at h
      rw [ih _ _ h l h1 h2, Heap.set_get_ne]
      unfold fld; split <;> assumption

theorem execAcc_correct (cst : Bool) (K i : Nat) (steps : List (Bool × E)) (h : Heap) (hok : ∀ s ∈ steps, StepOk K s) :
    match accSteps i steps h with
    | none => execAcc cst K i steps h = none
    | some s' =>
      if s' (.den i) = 0 then execAcc cst K i steps h = none
      else ∃ h', execAcc cst K i steps h = some h' ∧ Canon h' i ∧ qval h' i = Rat.divInt (s' (.num i)) (s' (.den i)) ∧
        ∀ l : ZLoc, l.below K → l ≠ .num i → l ≠ .den i → h' l = h l := by
  have H := execAccSteps_correct cst K i steps h h (fun _ _ => rfl) hok
  unfold execAcc
  cases hr : accSteps i steps h with
  | none => rw [hr] at H; simp [H]
  | some s' =>
    rw [hr] at H
    obtain ⟨h1, e1, hag⟩ := H
    have hn := hag (.num i) trivial
    have hd := hag (.den i) trivial
    simp only [e1, Option.bind_some, mpq_canonicalize, hn, hd]
    by_cases h0 : s' (.den i) = 0
    · simp [h0]
    · simp only [h0, if_false]
      refine ⟨_, rfl, Canon_setQ _ _ _, qval_setQ _ _ _, fun l hl a b => ?_⟩
      rw [setQ_get_ne _ _ _ _ a b, hag l hl]; exact accSteps_frame i steps h s' hr l a b

/-! ### `mpq_class t(n, d); t.canonicalize();` -/

theorem bindZ_loc {cst : Bool} {k : Nat} {e : E} {h h' : Heap} {l : ZLoc} (hb : bindZ cst k e h = some (l, h')) :
    e.zleaf? = some l ∨ l = .v k := by
  unfold bindZ at hb
  cases hl : e.zleaf? with
  | some l' => rw [hl] at hb; simp only [Option.some.injEq, Prod.mk.injEq] at hb; exact Or.inl (by rw [hb.1])
  | none =>
    rw [hl] at hb; simp only [Option.map_eq_some_iff, Prod.mk.injEq] at hb
    obtain ⟨_, _, h1, _⟩ := hb; exact Or.inr h1.symm

theorem execInit2_correct (cst : Bool) (K : Nat) (n d : E) (h : Heap)
    (hn : StepOk K (false, n)) (hd : StepOk K (true, d)) (hqd : d.qbelow K) :
    match evalTmpZ h.get n, evalTmpZ h.get d with
    | some x, some y =>
      if y = 0 then execInit2 cst K n d h = none
      else ∃ h', execInit2 cst K n d h = some h' ∧ Canon h' K ∧ qval h' K = Rat.divInt x y ∧
        ∀ l : ZLoc, l.belowQ K → h' l = h l
    | _, _ => execInit2 cst K n d h = none := by
  obtain ⟨htn, hwn, hzn⟩ := hn
  obtain ⟨htd, hwd, hzd⟩ := hd
  have B := bindZ_correct cst (evalZ_correct cst)
  have Bn := B n htn hwn K h hzn
  unfold execInit2
  cases hrn : evalTmpZ h.get n with
  | none => rw [hrn] at Bn; simp [Bn]
  | some x =>
    rw [hrn] at Bn
    obtain ⟨ln, h1, e1, hx, hln, hfr1⟩ := Bn
    have Bd := B d htd hwd (K + 1) h1 (E.zbelow_mono (by omega) _ hzd)
    rw [evalTmpZ_frame (k := K) hfr1 d hzd] at Bd
    simp only [e1, Option.bind_some]
    cases hrd : evalTmpZ h.get d with
    | none => rw [hrd] at Bd; simp [Bd]
    | some y =>
      rw [hrd] at Bd
      obtain ⟨ld, h2, e2, hy, hld, hfr2⟩ := Bd
      simp only [e2, Option.bind_some]
      -- the location bound to `d` is not the numerator field of the new object
      have hldn : ld ≠ .num K := by
        rcases bindZ_loc e2 with hl | hl
        · have := zleaf?_belowQ hl hzd hqd
          intro e; subst e; simp [ZLoc.belowQ] at this
        · rw [hl]; simp
      have hxn : h2 ln = x := by rw [hfr2 ln hln, hx]
      have e3 : (mpz_set (.den K) ld (mpz_set (.num K) ln h2)) (.den K) = y := by
        simp only [mpz_set, Heap.set_get]; rw [Heap.set_get_ne _ _ _ _ hldn]; exact hy
      have e4 : (mpz_set (.den K) ld (mpz_set (.num K) ln h2)) (.num K) = x := by
        simp only [mpz_set]; rw [Heap.set_get_ne _ _ _ _ (by simp), Heap.set_get]; exact hxn
      simp only [mpq_canonicalize, e3, e4]
      by_cases h0 : y = 0
      · simp [h0]
      · simp only [h0, if_false]
        refine ⟨_, rfl, Canon_setQ _ _ _, qval_setQ _ _ _, fun l hl => ?_⟩
        have a : l ≠ .num K := by intro e; subst e; simp [ZLoc.belowQ] at hl
        have b : l ≠ .den K := by intro e; subst e; simp [ZLoc.belowQ] at hl
        rw [setQ_get_ne _ _ _ _ a b]
        simp only [mpz_set]
        rw [Heap.set_get_ne _ _ _ _ b, Heap.set_get_ne _ _ _ _ a,
          hfr2 l (ZLoc.below_mono (by omega) (ZLoc.below_of_belowQ hl)), hfr1 l (ZLoc.below_of_belowQ hl)]

end Mpir.Cxx
