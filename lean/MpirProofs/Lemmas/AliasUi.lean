/- mpz_{t,f,c}div_q_ui on the pointer-level model: quotient formed in place by mpn_divrem_1 (qp == np allowed), the
   floor / ceiling increment, size from the top limb. -/
import MpirProofs.Lemmas.AliasShift2
namespace Mpir.AliasMem
open Mpir
open Mpir.DivZ (sizeNat siz sameSign)

/-- `k - (top limb of the k-limb number M is zero)` is the number of limbs of M, when M needs k or k-1 limbs -/
theorem top_size {M k : Nat} (hlt : M < B ^ k) (hge : 2 ≤ k → B ^ (k - 2) ≤ M) (hk : 1 ≤ k) :
    k - (if M / B ^ (k - 1) % B = 0 then 1 else 0) = sizeNat M := by
  have htop : M / B ^ (k - 1) < B := by
    rw [Nat.div_lt_iff_lt_mul (DivZ.Bpow_pos _), Nat.mul_comm, ← pow_succ]
    have : k - 1 + 1 = k := by omega
    rw [this]; exact hlt
  rw [Nat.mod_eq_of_lt htop]
  have hup : sizeNat M ≤ k := (DivZ.sizeNat_le_iff _ _).mpr hlt
  by_cases h0 : M / B ^ (k - 1) = 0
  · rw [if_pos h0]
    have hlt' : M < B ^ (k - 1) := by
      rcases Nat.div_eq_zero_iff.mp h0 with h | h
      · exact absurd h (Nat.ne_of_gt (DivZ.Bpow_pos _))
      · exact h
    have h1 : sizeNat M ≤ k - 1 := (DivZ.sizeNat_le_iff _ _).mpr hlt'
    by_cases hz : k = 1
    · omega
    · have h2 : ¬ sizeNat M ≤ k - 2 := fun hc => by
        have := (DivZ.sizeNat_le_iff _ _).mp hc
        have := hge (by omega); omega
      omega
  · rw [if_neg h0]
    have hge' : B ^ (k - 1) ≤ M := by
      by_contra hc
      exact h0 (Nat.div_eq_of_lt (by omega))
    have h2 : ¬ sizeNat M ≤ k - 1 := fun hc => by
      have := (DivZ.sizeNat_le_iff _ _).mp hc; omega
    omega

theorem div_q_ui_ok (dir : Int) (hdir : dir = 0 ∨ dir = -1 ∨ dir = 1) {s : St} (h : Inv s) {q n : Nat} (hq : q < s.nv)
    (hn : n < s.nv) (d : Nat) (hd0 : d ≠ 0) (hdB : d < B) :
    ∃ s', div_q_ui dir q n d s = .ok (DivZ.uiRet (DivZ.specR dir (s.value n) d), s') ∧
      Res s s' q (DivZ.specQ dir (s.value n) d) := by
  obtain ⟨hQ, hR⟩ := DivZ.spec_ui dir hdir (s.value n) d hd0
  rw [hQ, hR]
  have hmabs : (s.value n).natAbs = s.mag n := value_natAbs s n
  have hsiz : siz (s.value n) = s.size n := (h.norm n hn).symm
  have hnonneg : (0 ≤ s.value n) ↔ (s.size n ≥ 0) := by have := h.size_neg_iff hn; omega
  rw [hmabs, hsiz]
  unfold div_q_ui
  simp only [bind, Except.bind, pure, Except.pure]
  rw [if_neg hd0]
  by_cases hz : s.size n = 0
  · rw [if_pos hz]
    have hm0 : s.mag n = 0 := h.mag_zero hn hz
    obtain ⟨i2, u2, v2⟩ := setSize_zero_spec h hq
    have hadj : ¬ DivZ.uiAdjust dir (s.mag n % d) (s.size n) := by unfold DivZ.uiAdjust; rw [hm0]; simp
    refine ⟨_, ?_, i2, u2.nv, ?_, fun i hi hiq => u2.value_o h hq hi hiq⟩
    · rw [hm0]; simp [DivZ.uiRet]
    · rw [v2, if_neg hadj, hm0]; simp
  · rw [if_neg hz]
    set nn := (s.size n).natAbs with hnn
    have hnn1 : 1 ≤ nn := by omega
    obtain ⟨i1, nv1, size1, val1, a1, _⟩ := realloc_spec h hq nn
    set s1 := s.mpzRealloc q nn with hs1
    have hq1 : q < s1.nv := by rw [nv1]; exact hq
    have hn1 : n < s1.nv := by rw [nv1]; exact hn
    obtain ⟨b, hb, hbl, hbL⟩ := i1.live q hq1
    have hld := i1.load_var hn1; rw [size1, ← hnn] at hld
    have hmag : s1.mag n = s.mag n := by rw [← value_natAbs, ← value_natAbs, val1 n hn]
    have hN2 := i1.mag_lt hn1; rw [size1, ← hnn, hmag] at hN2
    have hN1 := i1.mag_ge hn1 (by rw [size1]; exact hz); rw [size1, ← hnn, hmag] at hN1
    have hvalN : val (s1.limbs n) = s.mag n := hmag
    have hdpos : 0 < d := Nat.pos_of_ne_zero hd0
    set N := s.mag n with hNdef
    set Q := N / d with hQdef
    set r := N % d with hrdef
    have hQlt : Q < B ^ nn := Nat.lt_of_le_of_lt (Nat.div_le_self _ _) hN2
    have hQge : 2 ≤ nn → B ^ (nn - 2) ≤ Q := fun h2 => by
      rw [hQdef, Nat.le_div_iff_mul_le hdpos]
      calc B ^ (nn - 2) * d ≤ B ^ (nn - 2) * B := Nat.mul_le_mul_left _ (Nat.le_of_lt hdB)
        _ = B ^ (nn - 1) := by rw [← pow_succ]; congr 1; omega
        _ ≤ N := hN1
    have hdiv : mpn_divrem_1 (s1.ptr q) (s1.ptr n) nn d s1 =
        .ok (r, s1.setBlk (s1.ptr q) (some (wrAt b 0 (toLimbs nn Q)))) := by
      unfold mpn_divrem_1
      have hc : ¬ ¬ (1 ≤ d ∧ d < B) := fun hx => hx ⟨hdpos, hdB⟩
      simp only [hc, if_false, bind, Except.bind, hld, pure, Except.pure, hvalN]
      unfold St.store; rw [hb]; simp only [toLimbs_length]
      rw [if_pos (by omega), wrAt_zero, toLimbs_length]
    rw [hdiv]; simp only []
    have hszform : ∀ k : Nat, (if s.size n ≥ 0 then (k : Int) else -(k : Int)) =
        (if decide (s.size n < 0) = true then -(k : Int) else (k : Int)) := fun k => by
      by_cases h0 : s.size n < 0
      · rw [if_neg (by omega), if_pos (by simpa using h0)]
      · rw [if_pos (by omega), if_neg (by simpa using h0)]
    -- the common end: block of q = nn limbs of M, size from the top limb
    have hend : ∀ (B1 : List Nat) (M : Nat), B1.length = s1.alloc q → Limbs B1 → M < B ^ nn → (2 ≤ nn → B ^ (nn - 2) ≤ M) →
        ∃ top, limbAt (s1.setBlk (s1.ptr q) (some (wrAt B1 0 (toLimbs nn M)))) (s1.ptr q) (nn - 1) = .ok top ∧
          Res s ((s1.setBlk (s1.ptr q) (some (wrAt B1 0 (toLimbs nn M)))).setSize q
              (if s.size n ≥ 0 then ((nn - (if top = 0 then 1 else 0) : Nat) : Int)
                else -((nn - (if top = 0 then 1 else 0) : Nat) : Int))) q
            (if decide (s.size n < 0) = true then -(M : Int) else (M : Int)) := by
      intro B1 M h1 h2 h3 h4
      refine ⟨_, limbAt_of_blk (setBlk_blk_self _ _ _) (by rw [wrAt_length (by rw [toLimbs_length]; omega)]; omega), ?_⟩
      rw [wrAt_zero, getD_append_left (by rw [toLimbs_length]; omega), toLimbs_getD _ _ _ (by omega), ← wrAt_zero,
        top_size h3 h4 hnn1, hszform]
      have p := put_wrAt0 i1 hq1 B1 h1 h2 nn M ((DivZ.sizeNat_le_iff _ _).mpr h3) (by omega) (decide (s.size n < 0))
      exact ⟨p.1, p.2.1.nv.trans nv1, p.2.2, fun i hi hiq =>
        (p.2.1.value_o i1 hq1 (by rw [nv1]; exact hi) hiq).trans (val1 i hi)⟩
    have hsignform : ∀ M : Nat, (if decide (s.size n < 0) = true then -(M : Int) else (M : Int)) =
        (if 0 ≤ s.value n then (M : Int) else -(M : Int)) := fun M => by
      by_cases h0 : s.size n < 0
      · rw [if_pos (by simpa using h0), if_neg (by omega)]
      · rw [if_neg (by simpa using h0), if_pos (by omega)]
    by_cases hadj : DivZ.uiAdjust dir r (s.size n)
    · have hadj' : (decide (r ≠ 0 ∧ (dir = -1 ∧ s.size n < 0 ∨ dir = 1 ∧ s.size n ≥ 0))) = true := by
        simpa [DivZ.uiAdjust] using hadj
      simp only [hadj', if_true]
      have hr0 : r ≠ 0 := hadj.1
      have hload : (s1.setBlk (s1.ptr q) (some (wrAt b 0 (toLimbs nn Q)))).load (s1.ptr q) nn = .ok (toLimbs nn Q) := by
        unfold St.load; rw [setBlk_blk_self]; simp only []
        rw [if_pos (by rw [wrAt_length (by rw [toLimbs_length]; omega)]; omega), wrAt_zero,
          List.take_append_of_le_length (by rw [toLimbs_length]), List.take_of_length_le (by rw [toLimbs_length])]
      rw [hload]; simp only []
      rw [val_toLimbs_lt hQlt]
      have hfits : ¬ (Q + 1 ≥ B ^ nn) := by
        have := DivZ.ui_incr_fits (a := N) (u := d) hd0 hr0
        rw [← h.size_natAbs hn, ← hnn] at this; exact this
      rw [if_neg hfits]
      have hst : (s1.setBlk (s1.ptr q) (some (wrAt b 0 (toLimbs nn Q)))).store (s1.ptr q) (toLimbs nn (Q + 1)) =
          .ok (s1.setBlk (s1.ptr q) (some (wrAt (wrAt b 0 (toLimbs nn Q)) 0 (toLimbs nn (Q + 1))))) := by
        unfold St.store; rw [setBlk_blk_self]; simp only [toLimbs_length]
        rw [if_pos (by rw [wrAt_length (by rw [toLimbs_length]; omega)]; omega), setBlk_setBlk]
        congr 3
        simp [wrAt, toLimbs_length]
      rw [hst]; simp only []
      obtain ⟨top, e', hres⟩ := hend (wrAt b 0 (toLimbs nn Q)) (Q + 1)
        (by rw [wrAt_length (by rw [toLimbs_length]; omega)]; exact hbl) (Limbs_wrAt hbL (Limbs_toLimbs _ _)) (by omega)
        (fun h2 => Nat.le_trans (hQge h2) (Nat.le_succ _))
      rw [e']; simp only []
      have hret : DivZ.uiRet (if r = 0 then 0 else DivZ.uiRem dir (s.size n) (if DivZ.uiAdjust dir r (s.size n) then d - r else r)) = d - r := by
        rw [if_neg hr0, if_pos hadj, DivZ.uiRet, DivZ.uiRem_natAbs]
      rw [hret, if_pos hadj, ← hsignform]
      exact ⟨_, rfl, hres⟩
    · have hadj' : (decide (r ≠ 0 ∧ (dir = -1 ∧ s.size n < 0 ∨ dir = 1 ∧ s.size n ≥ 0))) = false := by
        simpa [DivZ.uiAdjust] using hadj
      simp only [hadj', Bool.false_eq_true, if_false]
      obtain ⟨top, e', hres⟩ := hend b Q hbl hbL hQlt hQge
      rw [e']; simp only []
      have hret : DivZ.uiRet (if r = 0 then 0 else DivZ.uiRem dir (s.size n) (if DivZ.uiAdjust dir r (s.size n) then d - r else r)) = r := by
        by_cases hr0 : r = 0
        · rw [if_pos hr0, hr0]; rfl
        · rw [if_neg hr0, if_neg hadj, DivZ.uiRet, DivZ.uiRem_natAbs]
      rw [hret, if_neg hadj, ← hsignform]
      exact ⟨_, rfl, hres⟩

end Mpir.AliasMem
