/- Helper lemma for Mpir/Model/Toom8.lean: the 16-point interpolation sequence (toom_interpolate_16pts.c).
   The step-by-step closed forms below were produced by running the sequence symbolically
   (each `have` is re-checked by `omega`). -/
import MpirProofs.Lemmas.Base
import Mpir.Model.Toom8
import Mathlib.Tactic.Ring
import Mathlib.Tactic.Linarith
namespace Mpir.Toom8
open Mpir.MulAlgo (Interp)

/-- toom_interpolate_16pts.c:273-445.  Write f = Σ c_i x^i (i ≤ 15) and g_j = c_{2j+1} + W·c_{2j+2} (j ≤ 6): the
    "coupled" coefficient pairs.  Given the nine values as toom_couple_handling leaves them —
    r4 = Σ g_j + c15 + W·c0, r3/r2/r1 = Σ g_j u^j + c15·u^7 + W·⌊c0/u⌋ for u = 4, 16, 64,
    r6/r5/r7 = Σ g_j u^(6−j) + ⌊c15/u⌋ + W·c0·u^7, r8 = c0, r0 = c15 (c15 = 0 when half = 0) —
    the sequence returns c0, g0 … g6, c15; each of the nine exact divisions (by 255·188513325, 2835·64, 255·4,
    255·182712915, 42525·16, 9·16, 2, 2, 2) is applied to a multiple of its divisor; the three values shifted right
    LOGICALLY (`mpn_rshift` :436, :440, :444) are 2·g1, 2·g2, 2·g0. -/
theorem interp16_spec (c0 c15 g0 g1 g2 g3 g4 g5 g6 W : Int) (half : Bool) (hh : half = false → c15 = 0) :
    let r := interp16 c0
      (68719476736 * g0 + 1073741824 * g1 + 16777216 * g2 + 262144 * g3 + 4096 * g4 + 64 * g5 + g6 + c15 / 2 ^ 6 + W * (c0 * 2 ^ 42))
      (4096 * g0 + 1024 * g1 + 256 * g2 + 64 * g3 + 16 * g4 + 4 * g5 + g6 + c15 / 2 ^ 2 + W * (c0 * 2 ^ 14))
      (16777216 * g0 + 1048576 * g1 + 65536 * g2 + 4096 * g3 + 256 * g4 + 16 * g5 + g6 + c15 / 2 ^ 4 + W * (c0 * 2 ^ 28))
      (g0 + g1 + g2 + g3 + g4 + g5 + g6 + c15 + W * c0)
      (g0 + 4 * g1 + 16 * g2 + 64 * g3 + 256 * g4 + 1024 * g5 + 4096 * g6 + 16384 * c15 + W * (c0 / 2 ^ 2))
      (g0 + 16 * g1 + 256 * g2 + 4096 * g3 + 65536 * g4 + 1048576 * g5 + 16777216 * g6 + 268435456 * c15 + W * (c0 / 2 ^ 4))
      (g0 + 64 * g1 + 4096 * g2 + 262144 * g3 + 16777216 * g4 + 1073741824 * g5 + 68719476736 * g6 + 4398046511104 * c15 + W * (c0 / 2 ^ 6))
      c15 W half
    r.coeffs = [c0, g0, g1, g2, g3, g4, g5, g6, c15] ∧ (∀ p ∈ r.divs, p.2 ∣ p.1) ∧
    (0 ≤ g0 → 0 ≤ g1 → 0 ≤ g2 → ∀ p ∈ r.shifts, 0 ≤ p.1) := by
  cases half
  · have h15 : c15 = 0 := hh rfl
    subst h15
    unfold interp16
    simp (config := { zeta := false }) only [Bool.false_eq_true, if_false]
    extract_lets a4 a3 a6 a2 a5 a1 a7 b5 b2 w1 c2 c5 b6 b3 w2 c6 c3 b7 b1 w3 c1 c7 b4 d5 d7 e7 D1 f7 e5 D2 f5 d6 e6 D3 f6 d3 d2 e2 d1 e1 f1 D4 h1 f2 D5 h2 e3 f3 D6 h3 c4 d4 e4 D7 i6 i2 D8 i5 i3 D9 i7 i1 r
    have h_a4 : a4 = g0 + g1 + g2 + g3 + g4 + g5 + g6 + W * c0 := by simp only [a4]; omega
    clear_value a4; subst h_a4
    have h_a3 : a3 = g0 + 4 * g1 + 16 * g2 + 64 * g3 + 256 * g4 + 1024 * g5 + 4096 * g6 + W * (c0 / 2 ^ 2) := by simp only [a3]; omega
    clear_value a3; subst h_a3
    have h_a6 : a6 = 4096 * g0 + 1024 * g1 + 256 * g2 + 64 * g3 + 16 * g4 + 4 * g5 + g6 + W * (c0 * 2 ^ 14) := by simp only [a6]; omega
    clear_value a6; subst h_a6
    have h_a2 : a2 = g0 + 16 * g1 + 256 * g2 + 4096 * g3 + 65536 * g4 + 1048576 * g5 + 16777216 * g6 + W * (c0 / 2 ^ 4) := by simp only [a2]; omega
    clear_value a2; subst h_a2
    have h_a5 : a5 = 16777216 * g0 + 1048576 * g1 + 65536 * g2 + 4096 * g3 + 256 * g4 + 16 * g5 + g6 + W * (c0 * 2 ^ 28) := by simp only [a5]; omega
    clear_value a5; subst h_a5
    have h_a1 : a1 = g0 + 64 * g1 + 4096 * g2 + 262144 * g3 + 16777216 * g4 + 1073741824 * g5 + 68719476736 * g6 + W * (c0 / 2 ^ 6) := by simp only [a1]; omega
    clear_value a1; subst h_a1
    have h_a7 : a7 = 68719476736 * g0 + 1073741824 * g1 + 16777216 * g2 + 262144 * g3 + 4096 * g4 + 64 * g5 + g6 + W * (c0 * 2 ^ 42) := by simp only [a7]; omega
    clear_value a7; subst h_a7
    have h_b5 : b5 = 16777216 * g0 + 1048576 * g1 + 65536 * g2 + 4096 * g3 + 256 * g4 + 16 * g5 + g6 := by simp only [b5]; omega
    clear_value b5; subst h_b5
    have h_b2 : b2 = g0 + 16 * g1 + 256 * g2 + 4096 * g3 + 65536 * g4 + 1048576 * g5 + 16777216 * g6 := by simp only [b2]; omega
    clear_value b2; subst h_b2
    have h_w1 : w1 = 16777215 * g0 + 1048560 * g1 + 65280 * g2 - 65280 * g4 - 1048560 * g5 - 16777215 * g6 := by simp only [w1]; omega
    clear_value w1; subst h_w1
    have h_c2 : c2 = 16777217 * g0 + 1048592 * g1 + 65792 * g2 + 8192 * g3 + 65792 * g4 + 1048592 * g5 + 16777217 * g6 := by simp only [c2]; omega
    clear_value c2; subst h_c2
    have h_c5 : c5 = 16777215 * g0 + 1048560 * g1 + 65280 * g2 - 65280 * g4 - 1048560 * g5 - 16777215 * g6 := by simp only [c5]
    clear_value c5; subst h_c5
    have h_b6 : b6 = 4096 * g0 + 1024 * g1 + 256 * g2 + 64 * g3 + 16 * g4 + 4 * g5 + g6 := by simp only [b6]; omega
    clear_value b6; subst h_b6
    have h_b3 : b3 = g0 + 4 * g1 + 16 * g2 + 64 * g3 + 256 * g4 + 1024 * g5 + 4096 * g6 := by simp only [b3]; omega
    clear_value b3; subst h_b3
    have h_w2 : w2 = 4097 * g0 + 1028 * g1 + 272 * g2 + 128 * g3 + 272 * g4 + 1028 * g5 + 4097 * g6 := by simp only [w2]; omega
    clear_value w2; subst h_w2
    have h_c6 : c6 = 4095 * g0 + 1020 * g1 + 240 * g2 - 240 * g4 - 1020 * g5 - 4095 * g6 := by simp only [c6]; omega
    clear_value c6; subst h_c6
    have h_c3 : c3 = 4097 * g0 + 1028 * g1 + 272 * g2 + 128 * g3 + 272 * g4 + 1028 * g5 + 4097 * g6 := by simp only [c3]
    clear_value c3; subst h_c3
    have h_b7 : b7 = 68719476736 * g0 + 1073741824 * g1 + 16777216 * g2 + 262144 * g3 + 4096 * g4 + 64 * g5 + g6 := by simp only [b7]; omega
    clear_value b7; subst h_b7
    have h_b1 : b1 = g0 + 64 * g1 + 4096 * g2 + 262144 * g3 + 16777216 * g4 + 1073741824 * g5 + 68719476736 * g6 := by simp only [b1]; omega
    clear_value b1; subst h_b1
    have h_w3 : w3 = 68719476735 * g0 + 1073741760 * g1 + 16773120 * g2 - 16773120 * g4 - 1073741760 * g5 - 68719476735 * g6 := by simp only [w3]; omega
    clear_value w3; subst h_w3
    have h_c1 : c1 = 68719476737 * g0 + 1073741888 * g1 + 16781312 * g2 + 524288 * g3 + 16781312 * g4 + 1073741888 * g5 + 68719476737 * g6 := by simp only [c1]; omega
    clear_value c1; subst h_c1
    have h_c7 : c7 = 68719476735 * g0 + 1073741760 * g1 + 16773120 * g2 - 16773120 * g4 - 1073741760 * g5 - 68719476735 * g6 := by simp only [c7]
    clear_value c7; subst h_c7
    have h_b4 : b4 = g0 + g1 + g2 + g3 + g4 + g5 + g6 := by simp only [b4]; omega
    clear_value b4; subst h_b4
    have h_d5 : d5 = 12567555 * g0 - 181440 * g2 + 181440 * g4 - 12567555 * g6 := by simp only [d5]; omega
    clear_value d5; subst h_d5
    have h_d7 : d7 = 52381655235 * g0 + 1073741760 * g1 + 252645120 * g2 - 252645120 * g4 - 1073741760 * g5 - 52381655235 * g6 := by simp only [d7]; omega
    clear_value d7; subst h_d7
    have h_e7 : e7 = 48070897875 * g0 - 48070897875 * g6 := by simp only [e7]; omega
    clear_value e7; subst h_e7
    have h_D1 : D1 = 48070897875 * g0 - 48070897875 * g6 := by simp only [D1]
    clear_value D1; subst h_D1
    have h_f7 : f7 = g0 - g6 := by simp only [f7]; omega
    clear_value f7; subst h_f7
    have h_e5 : e5 = -181440 * g2 + 181440 * g4 := by simp only [e5]; omega
    clear_value e5; subst h_e5
    have h_D2 : D2 = -181440 * g2 + 181440 * g4 := by simp only [D2]
    clear_value D2; subst h_D2
    have h_f5 : f5 = -g2 + g4 := by simp only [f5]; omega
    clear_value f5; subst h_f5
    have h_d6 : d6 = 1020 * g1 + 240 * g2 - 240 * g4 - 1020 * g5 := by simp only [d6]; omega
    clear_value d6; subst h_d6
    have h_e6 : e6 = 1020 * g1 - 1020 * g5 := by simp only [e6]; omega
    clear_value e6; subst h_e6
    have h_D3 : D3 = 1020 * g1 - 1020 * g5 := by simp only [D3]
    clear_value D3; subst h_D3
    have h_f6 : f6 = g1 - g5 := by simp only [f6]; omega
    clear_value f6; subst h_f6
    have h_d3 : d3 = 3969 * g0 + 900 * g1 + 144 * g2 + 144 * g4 + 900 * g5 + 3969 * g6 := by simp only [d3]; omega
    clear_value d3; subst h_d3
    have h_d2 : d2 = 16769025 * g0 + 1040400 * g1 + 57600 * g2 + 57600 * g4 + 1040400 * g5 + 16769025 * g6 := by simp only [d2]; omega
    clear_value d2; subst h_d2
    have h_e2 : e2 = 15181425 * g0 + 680400 * g1 + 680400 * g5 + 15181425 * g6 := by simp only [e2]; omega
    clear_value e2; subst h_e2
    have h_d1 : d1 = 68718952449 * g0 + 1073217600 * g1 + 16257024 * g2 + 16257024 * g4 + 1073217600 * g5 + 68718952449 * g6 := by simp only [d1]; omega
    clear_value d1; subst h_d1
    have h_e1 : e1 = 47039877549 * g0 + 101606400 * g1 + 16257024 * g2 + 16257024 * g4 + 101606400 * g5 + 47039877549 * g6 := by simp only [e1]; omega
    clear_value e1; subst h_e1
    have h_f1 : f1 = 46591793325 * g0 + 46591793325 * g6 := by simp only [f1]; omega
    clear_value f1; subst h_f1
    have h_D4 : D4 = 46591793325 * g0 + 46591793325 * g6 := by simp only [D4]
    clear_value D4; subst h_D4
    have h_h1 : h1 = g0 + g6 := by simp only [h1]; omega
    clear_value h1; subst h_h1
    have h_f2 : f2 = 680400 * g1 + 680400 * g5 := by simp only [f2]; omega
    clear_value f2; subst h_f2
    have h_D5 : D5 = 680400 * g1 + 680400 * g5 := by simp only [D5]
    clear_value D5; subst h_D5
    have h_h2 : h2 = g1 + g5 := by simp only [h2]; omega
    clear_value h2; subst h_h2
    have h_e3 : e3 = 900 * g1 + 144 * g2 + 144 * g4 + 900 * g5 := by simp only [e3]; omega
    clear_value e3; subst h_e3
    have h_f3 : f3 = 144 * g2 + 144 * g4 := by simp only [f3]; omega
    clear_value f3; subst h_f3
    have h_D6 : D6 = 144 * g2 + 144 * g4 := by simp only [D6]
    clear_value D6; subst h_D6
    have h_h3 : h3 = g2 + g4 := by simp only [h3]; omega
    clear_value h3; subst h_h3
    have h_c4 : c4 = g1 + g2 + g3 + g4 + g5 := by simp only [c4]; omega
    clear_value c4; subst h_c4
    have h_d4 : d4 = g1 + g3 + g5 := by simp only [d4]; omega
    clear_value d4; subst h_d4
    have h_e4 : e4 = g3 := by simp only [e4]; omega
    clear_value e4; subst h_e4
    have h_D7 : D7 = 2 * g1 := by simp only [D7]; omega
    clear_value D7; subst h_D7
    have h_i6 : i6 = g1 := by simp only [i6]; omega
    clear_value i6; subst h_i6
    have h_i2 : i2 = g5 := by simp only [i2]; omega
    clear_value i2; subst h_i2
    have h_D8 : D8 = 2 * g2 := by simp only [D8]; omega
    clear_value D8; subst h_D8
    have h_i5 : i5 = g2 := by simp only [i5]; omega
    clear_value i5; subst h_i5
    have h_i3 : i3 = g4 := by simp only [i3]; omega
    clear_value i3; subst h_i3
    have h_D9 : D9 = 2 * g0 := by simp only [D9]; omega
    clear_value D9; subst h_D9
    have h_i7 : i7 = g0 := by simp only [i7]; omega
    clear_value i7; subst h_i7
    have h_i1 : i1 = g6 := by simp only [i1]; omega
    clear_value i1; subst h_i1
    refine ⟨?_, ?_, ?_⟩
    · simp only [r]
    · intro p hp
      simp only [r, List.mem_cons, List.mem_nil_iff, or_false] at hp
      rcases hp with rfl | rfl | rfl | rfl | rfl | rfl | rfl | rfl | rfl <;> simp only [] <;> omega
    · intro p0 p1 p2 p hp
      simp only [r, List.mem_cons, List.mem_nil_iff, or_false] at hp
      rcases hp with rfl | rfl | rfl <;> simp only [] <;> omega
  · clear hh
    unfold interp16
    simp (config := { zeta := false }) only [if_true]
    extract_lets a4 a3 a6 a2 a5 a1 a7 b5 b2 w1 c2 c5 b6 b3 w2 c6 c3 b7 b1 w3 c1 c7 b4 d5 d7 e7 D1 f7 e5 D2 f5 d6 e6 D3 f6 d3 d2 e2 d1 e1 f1 D4 h1 f2 D5 h2 e3 f3 D6 h3 c4 d4 e4 D7 i6 i2 D8 i5 i3 D9 i7 i1 r
    have h_a4 : a4 = g0 + g1 + g2 + g3 + g4 + g5 + g6 + W * c0 := by simp only [a4]; omega
    clear_value a4; subst h_a4
    have h_a3 : a3 = g0 + 4 * g1 + 16 * g2 + 64 * g3 + 256 * g4 + 1024 * g5 + 4096 * g6 + W * (c0 / 2 ^ 2) := by simp only [a3]; omega
    clear_value a3; subst h_a3
    have h_a6 : a6 = 4096 * g0 + 1024 * g1 + 256 * g2 + 64 * g3 + 16 * g4 + 4 * g5 + g6 + W * (c0 * 2 ^ 14) := by simp only [a6]; omega
    clear_value a6; subst h_a6
    have h_a2 : a2 = g0 + 16 * g1 + 256 * g2 + 4096 * g3 + 65536 * g4 + 1048576 * g5 + 16777216 * g6 + W * (c0 / 2 ^ 4) := by simp only [a2]; omega
    clear_value a2; subst h_a2
    have h_a5 : a5 = 16777216 * g0 + 1048576 * g1 + 65536 * g2 + 4096 * g3 + 256 * g4 + 16 * g5 + g6 + W * (c0 * 2 ^ 28) := by simp only [a5]; omega
    clear_value a5; subst h_a5
    have h_a1 : a1 = g0 + 64 * g1 + 4096 * g2 + 262144 * g3 + 16777216 * g4 + 1073741824 * g5 + 68719476736 * g6 + W * (c0 / 2 ^ 6) := by simp only [a1]; omega
    clear_value a1; subst h_a1
    have h_a7 : a7 = 68719476736 * g0 + 1073741824 * g1 + 16777216 * g2 + 262144 * g3 + 4096 * g4 + 64 * g5 + g6 + W * (c0 * 2 ^ 42) := by simp only [a7]; omega
    clear_value a7; subst h_a7
    have h_b5 : b5 = 16777216 * g0 + 1048576 * g1 + 65536 * g2 + 4096 * g3 + 256 * g4 + 16 * g5 + g6 := by simp only [b5]; omega
    clear_value b5; subst h_b5
    have h_b2 : b2 = g0 + 16 * g1 + 256 * g2 + 4096 * g3 + 65536 * g4 + 1048576 * g5 + 16777216 * g6 := by simp only [b2]; omega
    clear_value b2; subst h_b2
    have h_w1 : w1 = 16777215 * g0 + 1048560 * g1 + 65280 * g2 - 65280 * g4 - 1048560 * g5 - 16777215 * g6 := by simp only [w1]; omega
    clear_value w1; subst h_w1
    have h_c2 : c2 = 16777217 * g0 + 1048592 * g1 + 65792 * g2 + 8192 * g3 + 65792 * g4 + 1048592 * g5 + 16777217 * g6 := by simp only [c2]; omega
    clear_value c2; subst h_c2
    have h_c5 : c5 = 16777215 * g0 + 1048560 * g1 + 65280 * g2 - 65280 * g4 - 1048560 * g5 - 16777215 * g6 := by simp only [c5]
    clear_value c5; subst h_c5
    have h_b6 : b6 = 4096 * g0 + 1024 * g1 + 256 * g2 + 64 * g3 + 16 * g4 + 4 * g5 + g6 := by simp only [b6]; omega
    clear_value b6; subst h_b6
    have h_b3 : b3 = g0 + 4 * g1 + 16 * g2 + 64 * g3 + 256 * g4 + 1024 * g5 + 4096 * g6 := by simp only [b3]; omega
    clear_value b3; subst h_b3
    have h_w2 : w2 = 4097 * g0 + 1028 * g1 + 272 * g2 + 128 * g3 + 272 * g4 + 1028 * g5 + 4097 * g6 := by simp only [w2]; omega
    clear_value w2; subst h_w2
    have h_c6 : c6 = 4095 * g0 + 1020 * g1 + 240 * g2 - 240 * g4 - 1020 * g5 - 4095 * g6 := by simp only [c6]; omega
    clear_value c6; subst h_c6
    have h_c3 : c3 = 4097 * g0 + 1028 * g1 + 272 * g2 + 128 * g3 + 272 * g4 + 1028 * g5 + 4097 * g6 := by simp only [c3]
    clear_value c3; subst h_c3
    have h_b7 : b7 = 68719476736 * g0 + 1073741824 * g1 + 16777216 * g2 + 262144 * g3 + 4096 * g4 + 64 * g5 + g6 := by simp only [b7]; omega
    clear_value b7; subst h_b7
    have h_b1 : b1 = g0 + 64 * g1 + 4096 * g2 + 262144 * g3 + 16777216 * g4 + 1073741824 * g5 + 68719476736 * g6 := by simp only [b1]; omega
    clear_value b1; subst h_b1
    have h_w3 : w3 = 68719476735 * g0 + 1073741760 * g1 + 16773120 * g2 - 16773120 * g4 - 1073741760 * g5 - 68719476735 * g6 := by simp only [w3]; omega
    clear_value w3; subst h_w3
    have h_c1 : c1 = 68719476737 * g0 + 1073741888 * g1 + 16781312 * g2 + 524288 * g3 + 16781312 * g4 + 1073741888 * g5 + 68719476737 * g6 := by simp only [c1]; omega
    clear_value c1; subst h_c1
    have h_c7 : c7 = 68719476735 * g0 + 1073741760 * g1 + 16773120 * g2 - 16773120 * g4 - 1073741760 * g5 - 68719476735 * g6 := by simp only [c7]
    clear_value c7; subst h_c7
    have h_b4 : b4 = g0 + g1 + g2 + g3 + g4 + g5 + g6 := by simp only [b4]; omega
    clear_value b4; subst h_b4
    have h_d5 : d5 = 12567555 * g0 - 181440 * g2 + 181440 * g4 - 12567555 * g6 := by simp only [d5]; omega
    clear_value d5; subst h_d5
    have h_d7 : d7 = 52381655235 * g0 + 1073741760 * g1 + 252645120 * g2 - 252645120 * g4 - 1073741760 * g5 - 52381655235 * g6 := by simp only [d7]; omega
    clear_value d7; subst h_d7
    have h_e7 : e7 = 48070897875 * g0 - 48070897875 * g6 := by simp only [e7]; omega
    clear_value e7; subst h_e7
    have h_D1 : D1 = 48070897875 * g0 - 48070897875 * g6 := by simp only [D1]
    clear_value D1; subst h_D1
    have h_f7 : f7 = g0 - g6 := by simp only [f7]; omega
    clear_value f7; subst h_f7
    have h_e5 : e5 = -181440 * g2 + 181440 * g4 := by simp only [e5]; omega
    clear_value e5; subst h_e5
    have h_D2 : D2 = -181440 * g2 + 181440 * g4 := by simp only [D2]
    clear_value D2; subst h_D2
    have h_f5 : f5 = -g2 + g4 := by simp only [f5]; omega
    clear_value f5; subst h_f5
    have h_d6 : d6 = 1020 * g1 + 240 * g2 - 240 * g4 - 1020 * g5 := by simp only [d6]; omega
    clear_value d6; subst h_d6
    have h_e6 : e6 = 1020 * g1 - 1020 * g5 := by simp only [e6]; omega
    clear_value e6; subst h_e6
    have h_D3 : D3 = 1020 * g1 - 1020 * g5 := by simp only [D3]
    clear_value D3; subst h_D3
    have h_f6 : f6 = g1 - g5 := by simp only [f6]; omega
    clear_value f6; subst h_f6
    have h_d3 : d3 = 3969 * g0 + 900 * g1 + 144 * g2 + 144 * g4 + 900 * g5 + 3969 * g6 := by simp only [d3]; omega
    clear_value d3; subst h_d3
    have h_d2 : d2 = 16769025 * g0 + 1040400 * g1 + 57600 * g2 + 57600 * g4 + 1040400 * g5 + 16769025 * g6 := by simp only [d2]; omega
    clear_value d2; subst h_d2
    have h_e2 : e2 = 15181425 * g0 + 680400 * g1 + 680400 * g5 + 15181425 * g6 := by simp only [e2]; omega
    clear_value e2; subst h_e2
    have h_d1 : d1 = 68718952449 * g0 + 1073217600 * g1 + 16257024 * g2 + 16257024 * g4 + 1073217600 * g5 + 68718952449 * g6 := by simp only [d1]; omega
    clear_value d1; subst h_d1
    have h_e1 : e1 = 47039877549 * g0 + 101606400 * g1 + 16257024 * g2 + 16257024 * g4 + 101606400 * g5 + 47039877549 * g6 := by simp only [e1]; omega
    clear_value e1; subst h_e1
    have h_f1 : f1 = 46591793325 * g0 + 46591793325 * g6 := by simp only [f1]; omega
    clear_value f1; subst h_f1
    have h_D4 : D4 = 46591793325 * g0 + 46591793325 * g6 := by simp only [D4]
    clear_value D4; subst h_D4
    have h_h1 : h1 = g0 + g6 := by simp only [h1]; omega
    clear_value h1; subst h_h1
    have h_f2 : f2 = 680400 * g1 + 680400 * g5 := by simp only [f2]; omega
    clear_value f2; subst h_f2
    have h_D5 : D5 = 680400 * g1 + 680400 * g5 := by simp only [D5]
    clear_value D5; subst h_D5
    have h_h2 : h2 = g1 + g5 := by simp only [h2]; omega
    clear_value h2; subst h_h2
    have h_e3 : e3 = 900 * g1 + 144 * g2 + 144 * g4 + 900 * g5 := by simp only [e3]; omega
    clear_value e3; subst h_e3
    have h_f3 : f3 = 144 * g2 + 144 * g4 := by simp only [f3]; omega
    clear_value f3; subst h_f3
    have h_D6 : D6 = 144 * g2 + 144 * g4 := by simp only [D6]
    clear_value D6; subst h_D6
    have h_h3 : h3 = g2 + g4 := by simp only [h3]; omega
    clear_value h3; subst h_h3
    have h_c4 : c4 = g1 + g2 + g3 + g4 + g5 := by simp only [c4]; omega
    clear_value c4; subst h_c4
    have h_d4 : d4 = g1 + g3 + g5 := by simp only [d4]; omega
    clear_value d4; subst h_d4
    have h_e4 : e4 = g3 := by simp only [e4]; omega
    clear_value e4; subst h_e4
    have h_D7 : D7 = 2 * g1 := by simp only [D7]; omega
    clear_value D7; subst h_D7
    have h_i6 : i6 = g1 := by simp only [i6]; omega
    clear_value i6; subst h_i6
    have h_i2 : i2 = g5 := by simp only [i2]; omega
    clear_value i2; subst h_i2
    have h_D8 : D8 = 2 * g2 := by simp only [D8]; omega
    clear_value D8; subst h_D8
    have h_i5 : i5 = g2 := by simp only [i5]; omega
    clear_value i5; subst h_i5
    have h_i3 : i3 = g4 := by simp only [i3]; omega
    clear_value i3; subst h_i3
    have h_D9 : D9 = 2 * g0 := by simp only [D9]; omega
    clear_value D9; subst h_D9
    have h_i7 : i7 = g0 := by simp only [i7]; omega
    clear_value i7; subst h_i7
    have h_i1 : i1 = g6 := by simp only [i1]; omega
    clear_value i1; subst h_i1
    refine ⟨?_, ?_, ?_⟩
    · simp only [r]
    · intro p hp
      simp only [r, List.mem_cons, List.mem_nil_iff, or_false] at hp
      rcases hp with rfl | rfl | rfl | rfl | rfl | rfl | rfl | rfl | rfl <;> simp only [] <;> omega
    · intro p0 p1 p2 p hp
      simp only [r, List.mem_cons, List.mem_nil_iff, or_false] at hp
      rcases hp with rfl | rfl | rfl <;> simp only [] <;> omega

end Mpir.Toom8
