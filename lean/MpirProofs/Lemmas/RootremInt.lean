/- mpn_rootrem_internal: the Newton round `S ← S·2^b + min (2^b − 1, ⌊R / (k·S^(k−1))⌋)` and its correction. -/
import MpirProofs.Lemmas.RootremBc
namespace Mpir.Rootrem
open Mpir Mpir.Root

/-- Bernoulli: `(X + q)^k ≥ X^k + k·X^(k−1)·q`. -/
theorem pow_add_ge (X q : Nat) : ∀ k : Nat, X ^ (k + 1) + (k + 1) * X ^ k * q ≤ (X + q) ^ (k + 1)
  | 0 => by simp
  | k + 1 => by
    have ih := pow_add_ge X q k
    have h1 : (X + q) * (X ^ (k + 1) + (k + 1) * X ^ k * q) ≤ (X + q) * (X + q) ^ (k + 1) :=
      Nat.mul_le_mul_left _ ih
    have h2 : X ^ (k + 1 + 1) + (k + 1 + 1) * X ^ (k + 1) * q ≤
        (X + q) * (X ^ (k + 1) + (k + 1) * X ^ k * q) := by
      have e1 : X ^ (k + 1 + 1) = X ^ k * X * X := by ring
      have e2 : X ^ (k + 1) = X ^ k * X := by ring
      rw [e1, e2]
      generalize X ^ k = a
      nlinarith [Nat.zero_le ((k + 1) * a * q * q)]
    calc _ ≤ _ := h2
      _ ≤ (X + q) * (X + q) ^ (k + 1) := h1
      _ = (X + q) ^ (k + 1 + 1) := by ring

/-- upper side of the linearisation: `(X + t)^k ≤ X^k + k·X^(k−1)·(t + 1)` as soon as `k·t·(t+1) ≤ X`. -/
theorem pow_add_le_lin (X t k : Nat) (hk : 1 ≤ k) (hX : k * t * (t + 1) ≤ X) (hXpos : 0 < X) :
    (X + t) ^ k ≤ X ^ k + k * X ^ (k - 1) * (t + 1) := by
  obtain ⟨j, hj⟩ : ∃ j, k = j + 1 := ⟨k - 1, by omega⟩
  subst hj
  simp only [Nat.add_sub_cancel]
  have hkt : (j + 1) * t < X ∨ t = 0 := by
    rcases Nat.eq_zero_or_pos t with h | h
    · right; exact h
    · left
      have : (j + 1) * t * 2 ≤ (j + 1) * t * (t + 1) := Nat.mul_le_mul_left _ (by omega)
      have : 0 < (j + 1) * t := Nat.mul_pos (by omega) h
      omega
  rcases hkt with hkt | ht0
  · obtain ⟨r, hr⟩ : ∃ r, r + (j + 1) * t = X := ⟨X - (j + 1) * t, by omega⟩
    have hrpos : 0 < r := by omega
    have h1 := pow_add_mul_le X t (j + 1) r (by omega)
    have h2 : X ^ (j + 1 + 1) ≤ (X ^ (j + 1) + (j + 1) * X ^ j * (t + 1)) * r := by
      have e1 : X ^ (j + 1 + 1) = X ^ j * (X * X) := by ring
      have e2 : (X ^ (j + 1) + (j + 1) * X ^ j * (t + 1)) * r = X ^ j * ((X + (j + 1) * (t + 1)) * r) := by ring
      rw [e1, e2]
      apply Nat.mul_le_mul_left
      -- (X + k(t+1)) (X - kt) ≥ X²  ⇐  X ≥ k t (t+1)
      have hX' : (j + 1) * t * (t + 1) ≤ r + (j + 1) * t := by omega
      rw [← hr]
      nlinarith [Nat.zero_le r, Nat.zero_le ((j + 1) * t)]
    exact Nat.le_of_mul_le_mul_right (Nat.le_trans h1 h2) hrpos
  · subst ht0
    simp only [Nat.add_zero]
    exact Nat.le_add_right _ _

/-- THE NEWTON ROUND of mpn_rootrem_internal.  `S` is the floor k-th root of `⌊U'/β^k⌋`, `β = 2^b`, and either
    `k·β ≤ S` (the schedule's condition `c ≥ ⌈(b + log2 k)/2⌉`, Brent–Zimmermann) or `β = 2` (one bit at a time).
    With `Q = min (β − 1, ⌊(⌊U'/β^(k−1)⌋ − S^k·β) / (k·S^(k−1))⌋)` the candidate `S·β + Q` is the floor k-th root
    `s'` of `U'` or `s' + 1` — never below, at most one above (`ASSERT_ALWAYS (c <= 1)`), and below `(S+1)·β`. -/
theorem newton_round (k S β U' : Nat) (hk : 2 ≤ k) (hS : 0 < S) (hβ : 1 ≤ β)
    (h1 : S ^ k * β ^ k ≤ U') (h2 : U' < (S + 1) ^ k * β ^ k) (hc : k * β ≤ S ∨ β = 2) :
    let Q0 := (U' / β ^ (k - 1) - S ^ k * β) / (k * S ^ (k - 1))
    let Q := if Q0 ≥ β then β - 1 else Q0
    iroot k U' ≤ S * β + Q ∧ S * β + Q ≤ iroot k U' + 1 ∧ S * β ≤ iroot k U' ∧ iroot k U' < (S + 1) * β ∧ Q < β := by
  intro Q0 Q
  have hk0 : 0 < k := by omega
  obtain ⟨r1, r2⟩ := iroot_spec k U' hk0
  generalize hs' : iroot k U' = s' at *
  have hX : 0 < S * β := Nat.mul_pos hS (by omega)
  have hk1 : k - 1 + 1 = k := by omega
  -- X ≤ s' < X + β
  have hXs : S * β ≤ s' := by
    rw [← hs']; apply le_iroot hk0; rw [Nat.mul_pow]; exact h1
  have hsX : s' < (S + 1) * β := by
    apply lt_of_pow_lt (n := k); rw [Nat.mul_pow]; exact Nat.lt_of_le_of_lt r1 h2
  -- Q0 = (U' - X^k) / (k X^(k-1))
  have hQ0 : Q0 = (U' - (S * β) ^ k) / (k * (S * β) ^ (k - 1)) := by
    show (U' / β ^ (k - 1) - S ^ k * β) / (k * S ^ (k - 1)) = _
    have hβk : β ^ k = β ^ (k - 1) * β := by rw [← pow_succ, hk1]
    have e1 : (S * β) ^ k = β ^ (k - 1) * (S ^ k * β) := by rw [Nat.mul_pow, hβk]; ring
    have e2 : k * (S * β) ^ (k - 1) = β ^ (k - 1) * (k * S ^ (k - 1)) := by rw [Nat.mul_pow]; ring
    have hle : β ^ (k - 1) * (S ^ k * β) ≤ U' := by rw [← e1, Nat.mul_pow]; exact h1
    rw [e1, e2, ← Nat.div_div_eq_div_mul (U' - β ^ (k - 1) * (S ^ k * β)) (β ^ (k - 1)) (k * S ^ (k - 1)),
      Nat.sub_mul_div_of_le _ _ _ hle]
  have hQlt : Q < β := by
    show (if Q0 ≥ β then β - 1 else Q0) < β
    split <;> omega
  have hQle : Q ≤ Q0 := by
    show (if Q0 ≥ β then β - 1 else Q0) ≤ Q0
    split <;> omega
  have hden : 0 < k * (S * β) ^ (k - 1) := Nat.mul_pos hk0 (pow_pos hX _)
  have hQ0mul : k * (S * β) ^ (k - 1) * Q0 ≤ U' - (S * β) ^ k := by
    rw [hQ0, Nat.mul_comm]; exact Nat.div_mul_le_self _ _
  have hXk : (S * β) ^ k ≤ U' := by rw [Nat.mul_pow]; exact h1
  refine ⟨?_, ?_, hXs, hsX, hQlt⟩
  · -- never below the root
    obtain ⟨q, hq⟩ := Nat.exists_eq_add_of_le hXs
    have hqβ : q < β := by
      have : (S + 1) * β = S * β + β := by ring
      omega
    have hb := pow_add_ge (S * β) q (k - 1)
    rw [hk1] at hb
    have hq0 : q ≤ Q0 := by
      rw [hQ0, Nat.le_div_iff_mul_le hden]
      have : (S * β) ^ k + k * (S * β) ^ (k - 1) * q ≤ U' := by
        calc _ ≤ (S * β + q) ^ k := hb
          _ = s' ^ k := by rw [hq]
          _ ≤ U' := r1
      have e : q * (k * (S * β) ^ (k - 1)) = k * (S * β) ^ (k - 1) * q := Nat.mul_comm _ _
      omega
    have : q ≤ Q := by
      show q ≤ (if Q0 ≥ β then β - 1 else Q0)
      split <;> omega
    omega
  · -- at most one above
    rcases Nat.eq_zero_or_pos Q with hQ0' | hQpos
    · omega
    · obtain ⟨t, ht⟩ : ∃ t, Q = t + 1 := ⟨Q - 1, by omega⟩
      have hcond : k * t * (t + 1) ≤ S * β := by
        rcases hc with hc | hc
        · calc k * t * (t + 1) ≤ k * β * β := Nat.mul_le_mul (Nat.mul_le_mul_left _ (by omega)) (by omega)
            _ ≤ S * β := Nat.mul_le_mul_right _ hc
        · have : t = 0 := by omega
          subst this; simp
      have hlin := pow_add_le_lin (S * β) t k hk0 hcond hX
      have hle : (S * β + t) ^ k ≤ U' := by
        calc (S * β + t) ^ k ≤ (S * β) ^ k + k * (S * β) ^ (k - 1) * (t + 1) := hlin
          _ = (S * β) ^ k + k * (S * β) ^ (k - 1) * Q := by rw [ht]
          _ ≤ (S * β) ^ k + k * (S * β) ^ (k - 1) * Q0 := Nat.add_le_add_left (Nat.mul_le_mul_left _ hQle) _
          _ ≤ (S * β) ^ k + (U' - (S * β) ^ k) := Nat.add_le_add_left hQ0mul _
          _ = U' := by omega
      have := le_iroot hk0 hle
      rw [hs'] at this
      omega


/-- the correction loop of mpn_rootrem_internal (rootrem.c:377-415) from a candidate that is the root or one above:
    at most one decrement (`ASSERT_ALWAYS (c <= 1)` holds), the exact root, the exact remainder, `W = root^(k−1)`. -/
theorem rrCorrect_spec (k Uk sn S W : Nat) (wantW : Bool) (hk : 1 ≤ k)
    (hlo : B ^ (sn - 1) ≤ iroot k Uk) (h1 : iroot k Uk ≤ S) (h2 : S ≤ iroot k Uk + 1) :
    rrCorrect k Uk sn S W wantW =
      some (iroot k Uk, Uk - iroot k Uk ^ k, if wantW then iroot k Uk ^ (k - 1) else W) := by
  obtain ⟨r1, r2⟩ := iroot_spec k Uk (by omega)
  generalize iroot k Uk = s at *
  have hk1 : k - 1 + 1 = k := by omega
  have hpow : ∀ x : Nat, x ^ (k - 1) * x = x ^ k := fun x => by rw [← pow_succ, hk1]
  unfold rrCorrect
  rw [pow1_some sn S (k - 1) (by omega)]
  simp only [Option.bind_eq_bind, Option.bind_some]
  rw [hpow]
  by_cases hc : S ^ k ≤ Uk
  · rw [if_pos hc]
    have : S < s + 1 := lt_of_pow_lt (Nat.lt_of_le_of_lt hc r2)
    have hx : S = s := by omega
    rw [hx]
  · rw [if_neg hc]
    have : s < S := lt_of_pow_lt (Nat.lt_of_le_of_lt r1 (Nat.lt_of_not_le hc))
    have hx : S - 1 = s := by omega
    rw [hx, pow1_some sn s (k - 1) hlo]
    simp only [Option.bind_some]
    rw [hpow, if_pos r1]


/-- ONE ROUND of the loop of mpn_rootrem_internal on the model (`approx = 0`): from the loop invariant
    (`S = ⌊(U / 2^kk)^(1/k)⌋`, `R = ⌊U / 2^kk⌋ − S^k`, `W = S^(k−1)`, `kk = kk' + k·b`) and the schedule's condition
    (`k·2^b ≤ S` or `b = 1`) the round re-establishes it for `kk'` — no ASSERT_ALWAYS fires. -/
theorem rrStep_spec (U k b S kk' next : Nat) (last : Bool) (hk : 2 ≤ k) (hb : 1 ≤ b) (hSpos : 0 < S)
    (hS1 : S ^ k ≤ U / 2 ^ (kk' + k * b)) (hS2 : U / 2 ^ (kk' + k * b) < (S + 1) ^ k)
    (hSlt : (S + 1) * 2 ^ b ≤ 2 ^ (next + 1)) (hnext : 2 ^ next ≤ S * 2 ^ b)
    (hc : k * 2 ^ b ≤ S ∨ b = 1) :
    ∃ W', rrStep U k b last false (S, U / 2 ^ (kk' + k * b) - S ^ k, S ^ (k - 1), kk' + k * b) =
        some (iroot k (U / 2 ^ kk'), U / 2 ^ kk' - iroot k (U / 2 ^ kk') ^ k, W', kk', false) ∧
      (last = false → W' = iroot k (U / 2 ^ kk') ^ (k - 1)) := by
  have hk1 : k - 1 + 1 = k := by omega
  have hkb : k * b = (k - 1) * b + b := by
    conv_lhs => rw [← hk1]
    ring
  have e1 : kk' + k * b - b = kk' + (k - 1) * b := by omega
  have e2 : kk' + (k - 1) * b - (k - 1) * b = kk' := by omega
  obtain ⟨β, hβ⟩ : ∃ β, β = 2 ^ b := ⟨_, rfl⟩
  have hβ1 : 1 ≤ β := by rw [hβ]; exact Nat.one_le_two_pow
  obtain ⟨U', hU'⟩ : ∃ U', U' = U / 2 ^ kk' := ⟨_, rfl⟩
  have d1 : U / 2 ^ (kk' + (k - 1) * b) = U' / β ^ (k - 1) := by
    rw [hU', hβ, Nat.div_div_eq_div_mul, ← pow_mul, ← pow_add, Nat.mul_comm b]
  have d2 : U / 2 ^ (kk' + k * b) = U' / β ^ k := by
    rw [hU', hβ, Nat.div_div_eq_div_mul, ← pow_mul, ← pow_add, Nat.mul_comm b]
  have d3 : U' / β ^ k = U' / β ^ (k - 1) / β := by
    rw [Nat.div_div_eq_div_mul, ← pow_succ, hk1]
  rw [d2] at hS1 hS2
  have hβk : 0 < β ^ k := pow_pos (by omega) _
  have h1 : S ^ k * β ^ k ≤ U' := Nat.le_trans (Nat.mul_le_mul_right _ hS1) (Nat.div_mul_le_self _ _)
  have h2 : U' < (S + 1) ^ k * β ^ k := by
    have := Nat.lt_mul_div_succ U' hβk
    calc U' < β ^ k * (U' / β ^ k + 1) := this
      _ ≤ β ^ k * (S + 1) ^ k := Nat.mul_le_mul_left _ hS2
      _ = (S + 1) ^ k * β ^ k := Nat.mul_comm _ _
  have hc' : k * β ≤ S ∨ β = 2 := by
    rcases hc with h | h
    · left; rw [hβ]; exact h
    · right; rw [hβ, h]; rfl
  obtain ⟨n1, n2, n3, n4, n5⟩ := newton_round k S β U' hk hSpos hβ1 h1 h2 hc'
  unfold rrStep
  dsimp only
  simp only [Nat.shiftRight_eq_div_pow]
  rw [e1, e2, d1, d2, ← hβ, ← hU']
  -- the remainder with the next b bits shifted in
  have hR1 : (U' / β ^ k - S ^ k) * β + U' / β ^ (k - 1) % β = U' / β ^ (k - 1) - S ^ k * β := by
    rw [d3] at hS1 ⊢
    have := Nat.div_add_mod (U' / β ^ (k - 1)) β
    rw [Nat.sub_mul]
    have : S ^ k * β ≤ U' / β ^ (k - 1) / β * β := Nat.mul_le_mul_right _ hS1
    have e : β * (U' / β ^ (k - 1) / β) = U' / β ^ (k - 1) / β * β := Nat.mul_comm _ _
    omega
  rw [hR1, Nat.mul_comm (S ^ (k - 1)) k]
  generalize hQ : (if (U' / β ^ (k - 1) - S ^ k * β) / (k * S ^ (k - 1)) ≥ β then β - 1
      else (U' / β ^ (k - 1) - S ^ k * β) / (k * S ^ (k - 1))) = Q at n1 n2 n5
  -- the candidate keeps its limb count when decremented
  have hS1lt : S * β + Q < 2 ^ (next + 1) := by
    have : (S + 1) * β = S * β + β := by ring
    rw [← hβ] at hSlt; omega
  have hlo : B ^ (limbLen (S * β + Q) - 1) ≤ iroot k U' := by
    have hl : limbLen (S * β + Q) ≤ next / 64 + 1 := by
      rw [limbLen_le_iff]
      refine Nat.lt_of_lt_of_le hS1lt ?_
      unfold B; rw [← pow_mul]
      exact Nat.pow_le_pow_right (by norm_num) (by omega)
    calc B ^ (limbLen (S * β + Q) - 1) ≤ B ^ (next / 64) := Nat.pow_le_pow_right B_pos (by omega)
      _ = 2 ^ (64 * (next / 64)) := by unfold B; rw [← pow_mul]
      _ ≤ 2 ^ next := Nat.pow_le_pow_right (by norm_num) (by omega)
      _ ≤ S * β := by rw [hβ]; exact hnext
      _ ≤ iroot k U' := n3
  cases last with
  | true =>
    simp only [Bool.false_and, if_true, Bool.false_eq_true, if_false]
    rw [rrCorrect_spec k U' _ _ _ false (by omega) hlo n1 n2]
    exact ⟨_, rfl, by simp⟩
  | false =>
    simp only [Bool.false_eq_true, if_false]
    rw [rrCorrect_spec k U' _ _ _ true (by omega) hlo n1 n2]
    exact ⟨_, rfl, fun _ => rfl⟩

end Mpir.Rootrem
