/- mpz_powm, mpz_powm_ui (operands read through pointers fetched early, the result built in TMP space and copied to r at
   `ret:`), mpz_addmul / mpz_submul, mpz_sqrt, mpz_lcm, mpz_invert on the pointer-level model (Mpir/Model/AliasPowm.lean),
   for every assignment of ids. -/
import MpirProofs.Lemmas.AliasDiv
import MpirProofs.Lemmas.AliasGcd
import MpirProofs.Lemmas.AliasMul
import MpirProofs.Lemmas.GcdExtZ
import MpirProofs.Props.C08
import Mpir.Model.AliasPowm
namespace Mpir.AliasMem
open Mpir
open Mpir.DivZ (sizeNat siz sameSign)

/-! ### `ret:` — MPZ_REALLOC (r, rn); SIZ (r) = rn; MPN_COPY (PTR (r), rp, rn) from a TMP block -/

theorem powmRet_ok {s : St} (h : Inv s) {r : Nat} (hr : r < s.nv) {rp rn : Nat} {blk : List Nat}
    (hblk : s.blk rp = some blk) (hnv : ∀ i, i < s.nv → s.ptr i ≠ rp)
    (hrn : rn ≤ blk.length) (hL : Limbs (blk.take rn)) (htop : rn = 0 ∨ blk.getD (rn - 1) 0 ≠ 0) :
    ∃ s', powmRet r rp rn s = .ok s' ∧ Res s s' r ((val (blk.take rn) : Nat) : Int) ∧
      (∀ i, i < s.nv → s'.ptr i ≠ rp) := by
  have hrplt : rp < s.next := by
    by_contra hc
    have := h.fresh rp (by omega)
    rw [this] at hblk; cases hblk
  obtain ⟨i1, nv1, size1, val1, a1, _⟩ := realloc_spec h hr rn
  set s1 := s.mpzRealloc r rn with hs1
  have hr1 : r < s1.nv := by rw [nv1]; exact hr
  have hp1 : ∀ i, i < s.nv → s1.ptr i ≠ rp := fun i hi => by
    rw [hs1, realloc_ptr]; split
    · omega
    · exact hnv i hi
  have hb1 : s1.blk rp = some blk := by
    rw [hs1, realloc_blk_o h hr rn rp (Ne.symm (hnv r hr)) hrplt]; exact hblk
  have hl : (s1.setSize r rn).load rp rn = .ok (blk.take rn) := by
    unfold St.load
    have : (s1.setSize r rn).blk rp = some blk := hb1
    rw [this]; simp only []; rw [if_pos hrn]
  obtain ⟨b, hb, hlen, hbL, _⟩ := store_var i1 hr1 (blk.take rn) (by simp; omega)
  have hlt : (blk.take rn).length = rn := by simp; omega
  have hpg : (s1.setSize r rn).ptr r = s1.ptr r := by simp [St.setSize, St.setVar, St.ptr]
  have hst : (s1.setSize r rn).store ((s1.setSize r rn).ptr r) (blk.take rn) =
      .ok (s1.put r (blk.take rn ++ b.drop (blk.take rn).length) rn) := by
    rw [hpg]; unfold St.store
    have : (s1.setSize r rn).blk (s1.ptr r) = some b := hb
    rw [this]; simp only []
    rw [if_pos (by rw [hlt]; omega)]
    rfl
  have hsz : sizeNat (val (blk.take rn)) = rn := by
    by_cases h0 : rn = 0
    · subst h0; simp [DivZ.sizeNat_eq_zero.mpr rfl]
    · have ht : blk.getD (rn - 1) 0 ≠ 0 := by rcases htop with h1 | h1; exact absurd h1 h0; exact h1
      have hk : 1 ≤ rn := by omega
      have hge : B ^ (rn - 1) ≤ val (blk.take rn) := by
        have hg : (blk.take rn).getD (rn - 1) 0 ≠ 0 := by
          rw [List.getD_eq_getElem?_getD, List.getElem?_take_of_lt (by omega), ← List.getD_eq_getElem?_getD]; exact ht
        have := (val_top hL rn hk (by rw [hlt])).mp hg
        rwa [List.take_of_length_le (by rw [hlt])] at this
      have hlt' := val_lt _ hL
      rw [hlt] at hlt'
      exact sizeNat_eq hge hlt' hk
  have p := put_upd i1 hr1 (blk.take rn ++ b.drop (blk.take rn).length) (val (blk.take rn)) false
    (by rw [length_wr _ _ (by rw [hlt]; omega)]; exact hlen) (Limbs_wr hL hbL) (by rw [hsz]; exact a1)
    (by rw [hsz, List.take_append_of_le_length (by rw [hlt]), List.take_of_length_le (by rw [hlt])])
  simp only [Bool.false_eq_true, if_false, hsz] at p
  refine ⟨_, ?_, ⟨p.1, p.2.1.nv.trans nv1, p.2.2, fun i hi hir =>
    (p.2.1.value_o i1 hr1 (by rw [nv1]; exact hi) hir).trans (val1 i hi)⟩, fun i hi => ?_⟩
  · unfold powmRet
    simp only [bind, Except.bind]
    rw [← hs1, hl]; simp only []
    exact hst
  · rw [p.2.1.ptr]; exact hp1 i hi

/-- the result of the mpn work sits in a fresh TMP block: `ret:` and TMP_FREE -/
theorem powmTail_ok {s : St} (h : Inv s) {r : Nat} (hr : r < s.nv) (p : List Nat × Nat)
    (hrn : p.2 ≤ p.1.length) (hL : Limbs (p.1.take p.2)) (htop : p.2 = 0 ∨ p.1.getD (p.2 - 1) 0 ≠ 0) :
    ∃ s', powmTail r p s = .ok s' ∧ Res s s' r ((val (p.1.take p.2) : Nat) : Int) := by
  have hi := malloc_inv h p.1
  have he := malloc_ext h p.1
  have hne : ∀ i, i < (s.malloc p.1).2.nv → (s.malloc p.1).2.ptr i ≠ s.next := fun i hi' => by
    rw [he.ptr]; exact malloc_ne_ptr h (by rw [he.nv] at hi'; exact hi')
  obtain ⟨s1, e1, r1, p1⟩ := powmRet_ok hi (r := r) (by rw [he.nv]; exact hr) (malloc_blk_new s p.1) hne hrn hL htop
  obtain ⟨i2, n2, _, v2⟩ := free_inv r1.1 s.next (fun i hi' => p1 i (by rw [r1.2.1] at hi'; exact hi'))
  refine ⟨s1.free s.next, ?_, i2, by rw [n2, r1.2.1, he.nv], ?_, fun i hi' hir => ?_⟩
  · unfold powmTail
    simp only [bind, Except.bind, pure, Except.pure, malloc_fst]
    rw [e1]
  · rw [v2 r (by rw [r1.2.1, he.nv]; exact hr)]; exact r1.2.2.1
  · rw [v2 i (by rw [r1.2.1, he.nv]; exact hi'), r1.2.2.2 i (by rw [he.nv]; exact hi') hir, he.value h hi']

theorem wf_facts {rp : List Nat} {rn : Nat} (h : (Powm.Res.mk rp rn).wf = true) :
    rn ≤ rp.length ∧ (rn = 0 ∨ rp.getD (rn - 1) 0 ≠ 0) := by
  unfold Powm.Res.wf at h
  simp only [Bool.or_eq_true, beq_iff_eq, Bool.and_eq_true, decide_eq_true_eq, bne_iff_ne, ne_eq] at h
  rcases h with h | h
  · exact ⟨by omega, Or.inl h⟩
  · exact ⟨h.1, Or.inr h.2⟩

theorem powmMain2_eq (bneg : Bool) (bp ep mp : List Nat) :
    powmMain2 bneg bp ep mp mp = Powm.powmMain bneg bp ep mp := by
  unfold powmMain2 Powm.powmMain
  cases bneg <;> simp

/-- well-formedness of `powmGo` on every path (the statement proved inside `Powm.mpz_powm_wf`) -/
theorem powmGo_wf (ep mp : List Nat) (bneg : Bool) (bp : List Nat) (hbp : Powm.Norm bp) (hm : Powm.Norm mp) (hmne : mp ≠ []) :
    (Powm.powmGo ep mp bneg bp).wf = true := by
  unfold Powm.powmGo
  by_cases hb0 : bp.length = 0
  · simp [hb0, Powm.Res.wf]
  · simp only [hb0, if_false]
    split_ifs
    · have hbne : bp ≠ [] := fun h => hb0 (by rw [h]; rfl)
      exact (Powm.powmE1_correct bneg bp _ hbp hbne hm hmne).1
    · exact Powm.powmMain_wf _ _ _ _

theorem size_natAbs_eq_zero {s : St} (h : Inv s) {i : Nat} (hi : i < s.nv) : (s.size i).natAbs = 0 ↔ s.mag i = 0 := by
  rw [h.size_natAbs hi, DivZ.sizeNat_eq_zero]

theorem mag_of_value' {s s' : St} {i j : Nat} (h : s'.value i = s.value j) : s'.mag i = s.mag j := by
  rw [← value_natAbs, ← value_natAbs, h]

/-- powm.c:104-284 on the pointer model, the C as it is.  `hL`: every entry of the result vector of the value-level model is
    a limb (< 2^64) — true of any C array; the value-level model works on unbounded `Nat` lists and no theorem of C08 states
    it (C08 gives the value and the non-zero top limb), so it is a hypothesis here. -/
theorem powmCore_ok {s : St} (h : Inv s) {r b e m : Nat} (hr : r < s.nv) (hb : b < s.nv) (he : e < s.nv) (hm : m < s.nv)
    (hm0 : s.mag m ≠ 0)
    (hL : Limbs (Powm.powmGo (natLimbs (s.mag e)) (natLimbs (s.mag m)) (decide (s.size b < 0)) (natLimbs (s.mag b))).limbs) :
    ∃ s', powmCore .c r b e m (s.ptr m) (s.size m).natAbs s = .ok s' ∧
      Res s s' r ((val (Powm.powmGo (natLimbs (s.mag e)) (natLimbs (s.mag m)) (decide (s.size b < 0)) (natLimbs (s.mag b))).limbs : Nat) : Int) := by
  have hwf := powmGo_wf (natLimbs (s.mag e)) (natLimbs (s.mag m)) (decide (s.size b < 0)) (natLimbs (s.mag b))
    (Powm.Norm_natLimbs _) (Powm.Norm_natLimbs _) (fun hc => hm0 ((Powm.natLimbs_eq_nil _).mp hc))
  unfold powmCore
  simp only [bind, Except.bind, pure, Except.pure]
  by_cases hb0 : (s.size b).natAbs = 0
  · rw [if_pos hb0]
    have hmb : s.mag b = 0 := (size_natAbs_eq_zero h hb).mp hb0
    obtain ⟨i1, u1, v1⟩ := setSize_zero_spec h hr
    refine ⟨_, rfl, i1, u1.nv, ?_, fun i hi hir => u1.value_o h hr hi hir⟩
    rw [v1, hmb]
    simp [Powm.powmGo, Powm.natLimbs_zero, Powm.Res.limbs]
  · rw [if_neg hb0]
    have hmb : s.mag b ≠ 0 := fun hc => hb0 ((size_natAbs_eq_zero h hb).mpr hc)
    have hbl : (natLimbs (s.mag b)).length ≠ 0 := fun hc => hmb ((Powm.natLimbs_length_eq_zero _).mp hc)
    rw [h.load_var he]; simp only []
    rw [h.load_var hm]; simp only []
    rw [h.load_var hb]; simp only []
    have e1 : val (s.limbs e) = s.mag e := rfl
    have e2 : val (s.limbs m) = s.mag m := rfl
    have e3 : val (s.limbs b) = s.mag b := rfl
    rw [e1, e2, e3]
    by_cases hE : ((natLimbs (s.mag e)).length = 1 && (natLimbs (s.mag e)).headD 0 = 1) = true
    · rw [if_pos hE]
      have hgo : Powm.powmGo (natLimbs (s.mag e)) (natLimbs (s.mag m)) (decide (s.size b < 0)) (natLimbs (s.mag b)) =
          .mk (Powm.powmE1 (decide (s.size b < 0)) (natLimbs (s.mag b)) (natLimbs (s.mag m))).1
              (Powm.powmE1 (decide (s.size b < 0)) (natLimbs (s.mag b)) (natLimbs (s.mag m))).2 := by
        unfold Powm.powmGo; simp only [hbl, if_false, hE, if_true]
      rw [hgo] at hL hwf ⊢
      obtain ⟨w1, w2⟩ := wf_facts hwf
      exact powmTail_ok h hr _ w1 hL w2
    · rw [if_neg hE]
      simp only [PowmVariant.c, if_true]
      rw [powmMain2_eq]
      have hgo : Powm.powmGo (natLimbs (s.mag e)) (natLimbs (s.mag m)) (decide (s.size b < 0)) (natLimbs (s.mag b)) =
          .mk (Powm.powmMain (decide (s.size b < 0)) (natLimbs (s.mag b)) (natLimbs (s.mag e)) (natLimbs (s.mag m))).1
              (Powm.powmMain (decide (s.size b < 0)) (natLimbs (s.mag b)) (natLimbs (s.mag e)) (natLimbs (s.mag m))).2 := by
        unfold Powm.powmGo; simp only [hbl, if_false, hE]; simp
      rw [hgo] at hL hwf ⊢
      obtain ⟨w1, w2⟩ := wf_facts hwf
      exact powmTail_ok h hr _ w1 hL w2

/-- powm.c:88-89 / powm_ui.c:139-140: `mp[0]` is read before `PTR (r)[0] = 1` is stored — r = m allowed -/
theorem powmE0_ok {s : St} (h : Inv s) {r m : Nat} (hr : r < s.nv) (hm : m < s.nv) (ha : 1 ≤ s.alloc r)
    (hm0 : s.mag m ≠ 0) :
    ∃ s', powmE0 .c r (s.ptr m) (s.size m).natAbs s = .ok s' ∧ Res s s' r (if s.mag m ≠ 1 then 1 else 0) := by
  obtain ⟨bm, hbm, hbml, hbmL⟩ := h.live m hm
  obtain ⟨br, hbr, hbrl, hbrL⟩ := h.live r hr
  have hn0 : (s.size m).natAbs ≠ 0 := fun hc => hm0 ((size_natAbs_eq_zero h hm).mp hc)
  have hfit := h.fits m hm
  have hcond : ((s.size m).natAbs ≠ 1 ∨ bm.getD 0 0 ≠ 1) ↔ s.mag m ≠ 1 := by
    by_cases h1 : (s.size m).natAbs = 1
    · have : s.mag m = bm.getD 0 0 := by
        unfold St.mag St.limbs; rw [hbm, h1]; simp only [Option.getD_some]
        cases bm with
        | nil => simp at hbml; omega
        | cons a as => simp
      rw [this]; simp [h1]
    · have hge := h.mag_ge hm (by omega : s.size m ≠ 0)
      have : B ^ 1 ≤ B ^ ((s.size m).natAbs - 1) := Nat.pow_le_pow_right B_pos (by omega)
      have hB : 2 ≤ B := by rw [B_eq]; decide
      constructor
      · intro _ hc
        rw [pow_one] at this
        omega
      · intro _; exact Or.inl h1
  unfold powmE0
  simp only [PowmVariant.c, if_true, bind, Except.bind]
  rw [limbAt_of_blk hbm (by omega)]; simp only []
  set c : Int := if (s.size m).natAbs ≠ 1 ∨ bm.getD 0 0 ≠ 1 then 1 else 0 with hc
  have hpg : (s.setSize r c).ptr r = s.ptr r := by simp [St.setSize, St.setVar, St.ptr]
  rw [hpg, storeAt_ok (show (s.setSize r c).blk (s.ptr r) = some br from hbr) (by simp; omega)]
  have hput : (s.setSize r c).setBlk (s.ptr r) (some (wrAt br 0 [1])) = s.put r (wrAt br 0 [1]) c := rfl
  rw [hput]
  have hlen : (wrAt br 0 [1]).length = s.alloc r := by rw [wrAt_length (by simp; omega)]; exact hbrl
  have hLw : Limbs (wrAt br 0 [1]) := Limbs_wrAt hbrL (by intro x hx; simp at hx; rw [hx, B_eq]; decide)
  by_cases h1 : s.mag m ≠ 1
  · have hc1 : c = 1 := by rw [hc, if_pos (hcond.mpr h1)]
    have hs1 : sizeNat 1 = 1 := by decide
    have p := put_upd h hr (wrAt br 0 [1]) 1 false hlen hLw (by rw [hs1]; exact ha)
      (by rw [hs1]; cases br with
          | nil => simp at hbrl; omega
          | cons a as => simp [wrAt])
    simp only [Bool.false_eq_true, if_false, hs1] at p
    rw [hc1, if_pos h1]
    exact ⟨_, rfl, p.1, p.2.1.nv, by simpa using p.2.2, fun i hi hir => p.2.1.value_o h hr hi hir⟩
  · have hc0 : c = 0 := by rw [hc, if_neg (fun hx => h1 (hcond.mp hx))]
    have hs0 : sizeNat 0 = 0 := by decide
    have p := put_upd h hr (wrAt br 0 [1]) 0 false hlen hLw (by rw [hs0]; omega) (by rw [hs0]; simp)
    simp only [Bool.false_eq_true, if_false, hs0] at p
    rw [hc0, if_neg h1]
    exact ⟨_, rfl, p.1, p.2.1.nv, by simpa using p.2.2, fun i hi hir => p.2.1.value_o h hr hi hir⟩

/-! ### every entry of the value-level result vectors is a limb -/

theorem powmE1_Limbs (bneg : Bool) (bp mp : List Nat) (hb : Limbs bp) (hm : Limbs mp) :
    Limbs (Powm.powmE1 bneg bp mp).1 := by
  unfold Powm.powmE1
  simp only
  split_ifs with h1 h2 h3
  · exact (Powm.sub_val mp _ hm (Limbs_take (Limbs_toLimbs _ _) _)
      (by rw [List.length_take, toLimbs_length]; exact Nat.min_le_right _ _)).2.2.1
  · exact Limbs_toLimbs _ _
  · exact (Powm.sub_val mp bp hm hb (by omega)).2.2.1
  · exact Limbs_append.mpr ⟨hb, Powm.Limbs_zeros _⟩

theorem powmMain_Limbs (bneg : Bool) (bp ep mp : List Nat) (hb : Limbs bp) (hbne : bp ≠ []) (hep : Powm.Norm ep)
    (hepne : ep ≠ []) (h2 : 2 ≤ val ep) (hm : Powm.Norm mp) (hmne : mp ≠ []) (hsz : mp.length * 64 < B) :
    Limbs (Powm.powmMain bneg bp ep mp).1 := by
  obtain ⟨rv, rL, rl⟩ := Powm.powmMain_rp bp ep mp hb hbne hep hepne h2 hm hmne hsz
  have hdef : Powm.powmMain bneg bp ep mp =
      (let modd := (Powm.stripM mp).1.take (Powm.stripM mp).2.1
       let rodd := Powm.mpn_powm bp ep modd
       let rp := if ((Powm.stripM mp).2.2.1 != 0) = true
         then Powm.powmEven mp.length bp ep modd (Powm.stripM mp).2.1 (Powm.stripM mp).2.2.1 (Powm.stripM mp).2.2.2 rodd else rodd
       let rn := Powm.mpnNormalize rp mp.length
       if ((decide (ep.headD 0 % 2 = 1) && bneg) && rn != 0) = true
       then ((sub mp (rp.take rn)).1, Powm.mpnNormalize (sub mp (rp.take rn)).1 mp.length) else (rp, rn)) := rfl
  rw [hdef]
  simp only
  generalize (if ((Powm.stripM mp).2.2.1 != 0) = true then _ else _ : List Nat) = rp at *
  split_ifs
  · exact (Powm.sub_val mp _ hm.1 (Limbs_take rL _)
      (by rw [List.length_take, rl]; exact Nat.min_le_right _ _)).2.2.1
  · exact rL

theorem powmGo_Limbs (ep mp : List Nat) (bneg : Bool) (bp : List Nat) (hb : Limbs bp) (hep : Powm.Norm ep) (hepne : ep ≠ [])
    (hm : Powm.Norm mp) (hmne : mp ≠ []) (hsz : mp.length * 64 < B) :
    Limbs (Powm.powmGo ep mp bneg bp).limbs := by
  unfold Powm.powmGo
  by_cases hb0 : bp.length = 0
  · simp only [hb0, if_true, Powm.Res.limbs]; intro x hx; simp at hx
  · simp only [hb0, if_false, Powm.Res.limbs]
    have hbne : bp ≠ [] := fun h => hb0 (by rw [h]; rfl)
    split_ifs with hE
    · exact Limbs_take (powmE1_Limbs bneg bp mp hb hm.1) _
    · have hnot : ¬ (ep.length = 1 ∧ ep.headD 0 = 1) := by simpa using hE
      exact Limbs_take (powmMain_Limbs bneg bp ep mp hb hbne hep hepne (Powm.norm_val_ge_two ep hep hepne hnot) hm hmne hsz) _

theorem mpz_powm_Limbs (b e m : Int) (hsz : (natLimbs m.natAbs).length * 64 < B) : Limbs (Powm.mpz_powm b e m).limbs := by
  have hnil : Limbs ([] : List Nat) := by intro x hx; simp at hx
  unfold Powm.mpz_powm
  simp only
  by_cases hn : (natLimbs m.natAbs).length = 0
  · simp [hn, Powm.Res.limbs, hnil]
  · have hmne : natLimbs m.natAbs ≠ [] := fun h => hn (by rw [h]; rfl)
    simp only [hn, if_false]
    by_cases he : e = 0
    · simp only [he, if_true, Powm.Res.limbs]
      exact Limbs_take (by intro x hx; simp at hx; rw [hx, B_eq]; decide) _
    · simp only [he, if_false]
      have hepne : natLimbs e.natAbs ≠ [] := fun h => he (Int.natAbs_eq_zero.mp ((Powm.natLimbs_eq_nil _).mp h))
      by_cases hneg : e < 0
      · simp only [hneg, if_true]
        cases Powm.mpz_invert b m with
        | none => exact hnil
        | some nb => exact powmGo_Limbs _ _ _ _ (Powm.Limbs_natLimbs _) (Powm.Norm_natLimbs _) hepne (Powm.Norm_natLimbs _) hmne hsz
      · simp only [hneg, if_false]
        exact powmGo_Limbs _ _ _ _ (Powm.Limbs_natLimbs _) (Powm.Norm_natLimbs _) hepne (Powm.Norm_natLimbs _) hmne hsz

theorem natLimbs_length (v : Nat) : (natLimbs v).length = sizeNat v := by
  by_cases hv : v = 0
  · rw [hv, Powm.natLimbs_zero, DivZ.sizeNat_eq_zero.mpr rfl]; rfl
  · have hne : natLimbs v ≠ [] := fun h => hv ((Powm.natLimbs_eq_nil _).mp h)
    have hge := Powm.Norm_ge _ (Powm.Norm_natLimbs v) hne
    have hlt := val_lt _ (Powm.Limbs_natLimbs v)
    rw [Powm.val_natLimbs] at hge hlt
    have hl : 1 ≤ (natLimbs v).length := by
      cases hn : natLimbs v with
      | nil => exact absurd hn hne
      | cons a as => simp
    exact (sizeNat_eq hge hlt hl).symm

theorem mpz_powm_ui_Limbs (b : Int) (el : Nat) (m : Int) (hsz : (natLimbs m.natAbs).length * 64 < B) :
    Limbs (Powm.mpz_powm_ui b el m).limbs := by
  have hone : ∀ k, Limbs (([1] : List Nat).take k) := fun k =>
    Limbs_take (by intro x hx; simp at hx; rw [hx, B_eq]; decide) _
  have htl : ∀ n v k, Limbs ((toLimbs n v).take k) := fun n v k => Limbs_take (Limbs_toLimbs _ _) _
  have hsub : ∀ v k k2, Limbs ((sub (natLimbs m.natAbs) ((toLimbs (natLimbs m.natAbs).length v).take k)).1.take k2) :=
    fun v k k2 => Limbs_take ((Powm.sub_val _ _ (Powm.Limbs_natLimbs _) (Limbs_take (Limbs_toLimbs _ _) _)
        (by rw [List.length_take, toLimbs_length]; exact Nat.min_le_right _ _)).2.2.1) _
  unfold Powm.mpz_powm_ui
  by_cases h20 : el < 20
  · simp only [h20, if_true]
    split_ifs
    all_goals (simp only [Powm.Res.limbs]; first | exact Limbs_nil | exact Limbs_take Limbs_nil _ | exact hone _ | exact htl _ _ _ | exact hsub _ _ _)
  · simp only [h20, if_false]
    exact mpz_powm_Limbs b el m hsz

/-- mpz_powm (r, b, e, m), exponent ≥ 0, for EVERY assignment of ids (r = b, r = e, r = m, b = e = m, …): the variable r
    ends up with exactly the result object of the value-level model `Powm.mpz_powm` (which C08 `mpz_powm_spec` proves to be
    b^e mod |m|), the other variables keep their values, the invariant holds (all TMP space released).
    `ha`: the `es == 0` exit stores `PTR (r)[0] = 1` without a realloc.  `hL`: see `powmCore_ok`. -/
theorem powm_ok_nonneg {s : St} (h : Inv s) {r b e m : Nat} (hr : r < s.nv) (hb : b < s.nv) (he : e < s.nv) (hm : m < s.nv)
    (ha : 1 ≤ s.alloc r) (hm0 : s.value m ≠ 0) (he0 : 0 ≤ s.value e)
    (hL : Limbs (Powm.mpz_powm (s.value b) (s.value e) (s.value m)).limbs) :
    ∃ s', powm r b e m s = .ok s' ∧
      Res s s' r ((val (Powm.mpz_powm (s.value b) (s.value e) (s.value m)).limbs : Nat) : Int) := by
  have hmag : s.mag m ≠ 0 := by rw [← value_natAbs]; exact Int.natAbs_ne_zero.mpr hm0
  have hn0 : (s.size m).natAbs ≠ 0 := fun hc => hmag ((size_natAbs_eq_zero h hm).mp hc)
  have hlen : (natLimbs (s.mag m)).length ≠ 0 := fun hc => hmag ((Powm.natLimbs_length_eq_zero _).mp hc)
  have hval : Powm.mpz_powm (s.value b) (s.value e) (s.value m) =
      if s.value e = 0 then .mk [1] (if ((natLimbs (s.mag m)).length != 1 || (natLimbs (s.mag m)).headD 0 != 1) then 1 else 0)
      else Powm.powmGo (natLimbs (s.mag e)) (natLimbs (s.mag m)) (decide (s.value b < 0)) (natLimbs (s.mag b)) := by
    unfold Powm.mpz_powm
    simp only [value_natAbs, hlen, if_false]
    have : ¬ s.value e < 0 := by omega
    simp only [this, if_false]
  rw [hval] at hL ⊢
  unfold powm powmV
  simp only [bind, Except.bind, pure, Except.pure]
  rw [if_neg hn0]
  by_cases hez : s.value e = 0
  · rw [if_pos ((h.size_eq_zero_iff he).mpr hez), if_pos hez]
    obtain ⟨s', e', r'⟩ := powmE0_ok h hr hm ha hmag
    refine ⟨s', e', ?_⟩
    have : ((val (Powm.Res.mk [1] (if ((natLimbs (s.mag m)).length != 1 || (natLimbs (s.mag m)).headD 0 != 1) = true then 1 else 0)).limbs : Nat) : Int)
        = (if s.mag m ≠ 1 then 1 else 0) := by
      by_cases h1 : s.mag m ≠ 1
      · rw [if_pos ((Powm.natLimbs_is_one _).mpr h1), if_pos h1]; simp [Powm.Res.limbs, val]
      · rw [if_neg (fun hx => h1 ((Powm.natLimbs_is_one _).mp hx)), if_neg h1]; simp [Powm.Res.limbs]
    rw [this]; exact r'
  · rw [if_neg (fun hc => hez ((h.size_eq_zero_iff he).mp hc)), if_neg (fun hc => by have := (h.size_neg_iff he).mp hc; omega)]
    rw [if_neg hez] at hL ⊢
    have hd : decide (s.value b < 0) = decide (s.size b < 0) := by
      rw [decide_eq_decide]; exact (h.size_neg_iff hb).symm
    rw [hd] at hL ⊢
    exact powmCore_ok h hr hb he hm hmag hL

/-- mpz_powm_ui (r, b, el, m) for 1 ≤ el < 20 (the old binary algorithm of powm_ui.c itself), every assignment of ids.
    `hL` as in `powmCore_ok`. -/
theorem powm_ui_ok_small {s : St} (h : Inv s) {r b m : Nat} (hr : r < s.nv) (hb : b < s.nv) (hm : m < s.nv)
    (el : Nat) (h1 : 1 ≤ el) (h20 : el < 20) (hm0 : s.value m ≠ 0)
    (hL : Limbs (Powm.mpz_powm_ui (s.value b) el (s.value m)).limbs) :
    (Powm.mpz_powm_ui (s.value b) el (s.value m) = .div0 ∧ powm_ui r b el m s = .error "div0") ∨
    ∃ s', powm_ui r b el m s = .ok s' ∧
      Res s s' r ((val (Powm.mpz_powm_ui (s.value b) el (s.value m)).limbs : Nat) : Int) := by
  have hmag : s.mag m ≠ 0 := by rw [← value_natAbs]; exact Int.natAbs_ne_zero.mpr hm0
  have hn0 : (s.size m).natAbs ≠ 0 := fun hc => hmag ((size_natAbs_eq_zero h hm).mp hc)
  have hwf := (Powm.mpz_powm_ui_small (s.value b) el (s.value m) h20).2
  unfold powm_ui powm_uiV
  simp only [bind, Except.bind, pure, Except.pure]
  rw [if_pos h20, if_neg hn0, if_neg (by omega : ¬ el = 0)]
  rw [h.load_var hm]; simp only []
  rw [h.load_var hb]; simp only []
  have e1 : sgnv (s.size b) (val (s.limbs b)) = s.value b := rfl
  have e2 : sgnv (s.size m) (val (s.limbs m)) = s.value m := rfl
  rw [e1, e2]
  cases hres : Powm.mpz_powm_ui (s.value b) el (s.value m) with
  | div0 => exact Or.inl ⟨rfl, rfl⟩
  | mk rp rn =>
    rw [hres] at hL hwf
    obtain ⟨w1, w2⟩ := wf_facts hwf
    exact Or.inr (powmTail_ok h hr (rp, rn) w1 hL w2)

/-! ### negative exponent: the local `new_b` -/

theorem modInv_lt (a : Int) (m nb : Nat) (hm : 0 < m) (h : Powm.modInv? a m = some nb) : nb < m := by
  unfold Powm.modInv? at h
  simp only at h
  generalize Powm.xgcdAux _ _ _ _ = p at h
  obtain ⟨g, t⟩ := p
  simp only at h
  split at h
  · injection h with h
    subst h
    have h1 := Int.emod_lt_of_pos t (by exact_mod_cast hm : (0 : Int) < (m : Int))
    have h2 := Int.emod_nonneg t (by exact_mod_cast (Nat.ne_of_gt hm) : (m : Int) ≠ 0)
    omega
  · cases h

theorem mpz_invert_lt (b m : Int) (nb : Nat) (hm : m ≠ 0) (h : Powm.mpz_invert b m = some nb) : nb < m.natAbs := by
  unfold Powm.mpz_invert at h
  split at h
  · cases h
  · exact modInv_lt b _ nb (Int.natAbs_pos.mpr hm) h

theorem tmpInit_ptr (s : St) (k : Nat) {i : Nat} (hi : i < s.nv) : (s.tmpInit k).2.ptr i = s.ptr i := by
  simp [St.tmpInit, St.tmpAlloc, St.malloc, St.setVar, St.setBlk, St.ptr, Nat.ne_of_lt hi]

theorem hsz_conv {s : St} (h : Inv s) {m : Nat} (hm : m < s.nv) (hsz : (s.size m).natAbs * 64 < B) :
    (natLimbs (s.value m).natAbs).length * 64 < B := by
  rw [natLimbs_length, value_natAbs, ← h.size_natAbs hm]; exact hsz

/-- mpz_powm with a negative exponent: `new_b` (MPZ_TMP_INIT, n + 1 limbs) receives b^-1 mod m, or DIVIDE_BY_ZERO -/
theorem powm_ok_neg {s : St} (h : Inv s) {r b e m : Nat} (hr : r < s.nv) (hb : b < s.nv) (he : e < s.nv) (hm : m < s.nv)
    (hm0 : s.value m ≠ 0) (he0 : s.value e < 0) (hsz : (s.size m).natAbs * 64 < B) :
    (Powm.mpz_powm (s.value b) (s.value e) (s.value m) = .div0 ∧ powm r b e m s = .error "div0") ∨
    ∃ s', powm r b e m s = .ok s' ∧
      Res s s' r ((val (Powm.mpz_powm (s.value b) (s.value e) (s.value m)).limbs : Nat) : Int) := by
  have hmag : s.mag m ≠ 0 := by rw [← value_natAbs]; exact Int.natAbs_ne_zero.mpr hm0
  have hn0 : (s.size m).natAbs ≠ 0 := fun hc => hmag ((size_natAbs_eq_zero h hm).mp hc)
  have hlen : (natLimbs (s.mag m)).length ≠ 0 := fun hc => hmag ((Powm.natLimbs_length_eq_zero _).mp hc)
  have hene : s.value e ≠ 0 := by omega
  have hval : Powm.mpz_powm (s.value b) (s.value e) (s.value m) =
      match Powm.mpz_invert (s.value b) (s.value m) with
      | none => .div0
      | some nb => Powm.powmGo (natLimbs (s.mag e)) (natLimbs (s.mag m)) false (natLimbs nb) := by
    unfold Powm.mpz_powm
    simp only [value_natAbs, hlen, if_false, hene, he0, if_true]
    cases Powm.mpz_invert (s.value b) (s.value m) <;> rfl
  rw [hval]
  unfold powm powmV
  simp only [bind, Except.bind, pure, Except.pure]
  rw [if_neg hn0, if_neg (fun hc => hene ((h.size_eq_zero_iff he).mp hc)), if_pos ((h.size_neg_iff he).mpr he0)]
  obtain ⟨t1, i2, n2, vs2, a2, _⟩ := tmpInit_spec h ((s.size m).natAbs + 1)
  set S2 := (s.tmpInit ((s.size m).natAbs + 1)).2 with hS2
  rw [t1]
  have hb2 : b < S2.nv := by rw [n2]; omega
  have hm2 : m < S2.nv := by rw [n2]; omega
  have hlb := i2.load_var hb2
  have hlm := i2.load_var hm2
  rw [(vs2 b hb).2] at hlb
  rw [(vs2 m hm).2] at hlm
  rw [hlb]; simp only []
  rw [hlm]; simp only []
  have evb : sgnv (s.size b) (val (S2.limbs b)) = s.value b := by
    rw [← (vs2 b hb).1, value_eq_sgnv, (vs2 b hb).2]; rfl
  have evm : sgnv (s.size m) (val (S2.limbs m)) = s.value m := by
    rw [← (vs2 m hm).1, value_eq_sgnv, (vs2 m hm).2]; rfl
  rw [evb, evm]
  cases hinv : Powm.mpz_invert (s.value b) (s.value m) with
  | none => exact Or.inl ⟨rfl, rfl⟩
  | some nb =>
    right
    simp only []
    have hnb := mpz_invert_lt _ _ _ hm0 hinv
    rw [value_natAbs] at hnb
    have hmlt := h.mag_lt hm
    have hnv2 : s.nv < S2.nv := by rw [n2]; omega
    have hfit : sizeNat ((nb : Int)).natAbs ≤ S2.alloc s.nv := by
      rw [a2, Int.natAbs_natCast]
      have : sizeNat nb ≤ (s.size m).natAbs := (DivZ.sizeNat_le_iff _ _).mpr (by omega)
      omega
    obtain ⟨S3, e3, r3, u3⟩ := setInt_spec i2 hnv2 (nb : Int) hfit
    rw [e3]; simp only []
    have n3 : S3.nv = s.nv + 1 := r3.2.1.trans n2
    have hne : ∀ i, i < s.nv → i ≠ s.nv := fun i hi => Nat.ne_of_lt hi
    have v3 : ∀ i, i < s.nv → S3.value i = s.value i := fun i hi =>
      (r3.2.2.2 i (by rw [n2]; omega) (hne i hi)).trans (vs2 i hi).1
    have hpm : S3.ptr m = s.ptr m := by rw [u3.ptr, hS2, tmpInit_ptr s _ hm]
    have hsm : S3.size m = s.size m := (u3.size_o (hne m hm)).trans (vs2 m hm).2
    have hme : S3.mag e = s.mag e := mag_of_value' (v3 e he)
    have hmm : S3.mag m = s.mag m := mag_of_value' (v3 m hm)
    have hmn : S3.mag s.nv = nb := by rw [← value_natAbs, r3.2.2.1]; simp
    have hsn : decide (S3.size s.nv < 0) = false := by
      rw [decide_eq_false_iff_not, r3.1.size_neg_iff (by rw [n3]; omega), r3.2.2.1]; omega
    have hepne : natLimbs (s.mag e) ≠ [] := fun hc => by
      have := (Powm.natLimbs_eq_nil _).mp hc
      rw [← value_natAbs] at this; omega
    have hmne : natLimbs (s.mag m) ≠ [] := fun hc => hmag ((Powm.natLimbs_eq_nil _).mp hc)
    have hszl : (natLimbs (s.mag m)).length * 64 < B := by
      rw [natLimbs_length, ← h.size_natAbs hm]; exact hsz
    have hL := powmGo_Limbs (natLimbs (s.mag e)) (natLimbs (s.mag m)) false (natLimbs nb) (Powm.Limbs_natLimbs _)
      (Powm.Norm_natLimbs _) hepne (Powm.Norm_natLimbs _) hmne hszl
    have hcore := powmCore_ok r3.1 (r := r) (b := s.nv) (e := e) (m := m) (by rw [n3]; omega) (by rw [n3]; omega)
      (by rw [n3]; omega) (by rw [n3]; omega) (by rw [hmm]; exact hmag) (by rw [hme, hmm, hmn, hsn]; exact hL)
    rw [hpm, hsm, hme, hmm, hmn, hsn] at hcore
    obtain ⟨S4, e4, r4⟩ := hcore
    rw [e4]; simp only []
    have n4 : S4.nv = s.nv + 1 := r4.2.1.trans n3
    obtain ⟨i5, n5, v5⟩ := tmpDone_spec r4.1 s.nv n4
    refine ⟨_, rfl, i5, n5, ?_, fun i hi hir => ?_⟩
    · rw [v5 r hr]; exact r4.2.2.1
    · rw [v5 i hi, r4.2.2.2 i (by rw [n3]; omega) hir, v3 i hi]

/-- **mpz_powm (r, b, e, m)** on the pointer model, the C as it is, for EVERY assignment of ids (r = b, r = e, r = m,
    b = e = m, …) and every sign of the exponent: either the value-level model `Powm.mpz_powm` raises DIVIDE_BY_ZERO (negative
    exponent, base not invertible) and so does the pointer model, or r ends up with exactly the value-level result (C08
    `mpz_powm_spec`: b^e mod |m|), the other variables keep their values and all TMP space is released.
    `ha`: the `es == 0` exit stores `PTR (r)[0] = 1` without a realloc.  `hsz`: the modulus has fewer than 2^58 limbs (as in C08). -/
theorem powm_ok {s : St} (h : Inv s) {r b e m : Nat} (hr : r < s.nv) (hb : b < s.nv) (he : e < s.nv) (hm : m < s.nv)
    (ha : 1 ≤ s.alloc r) (hm0 : s.value m ≠ 0) (hsz : (s.size m).natAbs * 64 < B) :
    (Powm.mpz_powm (s.value b) (s.value e) (s.value m) = .div0 ∧ powm r b e m s = .error "div0") ∨
    ∃ s', powm r b e m s = .ok s' ∧
      Res s s' r ((val (Powm.mpz_powm (s.value b) (s.value e) (s.value m)).limbs : Nat) : Int) := by
  by_cases he0 : s.value e < 0
  · exact powm_ok_neg h hr hb he hm hm0 he0 hsz
  · exact Or.inr (powm_ok_nonneg h hr hb he hm ha hm0 (by omega) (mpz_powm_Limbs _ _ _ (hsz_conv h hm hsz)))

theorem tmpInit_alloc (s : St) (k : Nat) {i : Nat} (hi : i < s.nv) : (s.tmpInit k).2.alloc i = s.alloc i := by
  simp [St.tmpInit, St.tmpAlloc, St.malloc, St.setVar, St.setBlk, St.alloc, Nat.ne_of_lt hi]

theorem mpz_powm_ui_ne_div0 (b : Int) (el : Nat) (m : Int) (h20 : el < 20) (hm : m ≠ 0) :
    Powm.mpz_powm_ui b el m ≠ .div0 := by
  have hn : (natLimbs m.natAbs).length ≠ 0 := fun hc =>
    hm (Int.natAbs_eq_zero.mp ((Powm.natLimbs_length_eq_zero _).mp hc))
  unfold Powm.mpz_powm_ui
  simp only [h20, if_true, hn, if_false]
  split_ifs <;> simp

/-- **mpz_powm_ui (r, b, el, m)** on the pointer model for EVERY assignment of ids and every el (el = 0: the early exit;
    1 ≤ el < 20: the binary algorithm of powm_ui.c; el ≥ 20: the local mpz_t and mpz_powm).  `hel`: el is an mpir_ui. -/
theorem powm_ui_ok {s : St} (h : Inv s) {r b m : Nat} (hr : r < s.nv) (hb : b < s.nv) (hm : m < s.nv)
    (el : Nat) (hel : el < B) (ha : 1 ≤ s.alloc r) (hm0 : s.value m ≠ 0) (hsz : (s.size m).natAbs * 64 < B) :
    ∃ s', powm_ui r b el m s = .ok s' ∧
      Res s s' r ((val (Powm.mpz_powm_ui (s.value b) el (s.value m)).limbs : Nat) : Int) := by
  have hmag : s.mag m ≠ 0 := by rw [← value_natAbs]; exact Int.natAbs_ne_zero.mpr hm0
  have hn0 : (s.size m).natAbs ≠ 0 := fun hc => hmag ((size_natAbs_eq_zero h hm).mp hc)
  by_cases h20 : el < 20
  · by_cases h0 : el = 0
    · subst h0
      unfold powm_ui powm_uiV
      simp only [bind, Except.bind, pure, Except.pure]
      rw [if_pos h20, if_neg hn0, if_pos trivial]
      obtain ⟨s', e', r'⟩ := powmE0_ok h hr hm ha hmag
      refine ⟨s', e', ?_⟩
      have hlen : (natLimbs (s.mag m)).length ≠ 0 := fun hc => hmag ((Powm.natLimbs_length_eq_zero _).mp hc)
      have : ((val (Powm.mpz_powm_ui (s.value b) 0 (s.value m)).limbs : Nat) : Int) = (if s.mag m ≠ 1 then 1 else 0) := by
        unfold Powm.mpz_powm_ui
        simp only [value_natAbs, hlen, if_false, if_true, Nat.ofNat_pos]
        by_cases h1 : s.mag m ≠ 1
        · have hh := (Powm.natLimbs_is_one _).mpr h1
          have hc : ((natLimbs (s.mag m)).length = 1 && (natLimbs (s.mag m)).headD 0 = 1) = false := by
            simp only [Bool.or_eq_true, bne_iff_ne, ne_eq] at hh
            simp only [Bool.and_eq_false_imp, decide_eq_true_eq, decide_eq_false_iff_not]
            tauto
          rw [if_pos h1]; simp only [hc, Bool.false_eq_true, if_false, Powm.Res.limbs]; rfl
        · have hh : ¬ _ := fun hx => h1 ((Powm.natLimbs_is_one _).mp hx)
          have hc : ((natLimbs (s.mag m)).length = 1 && (natLimbs (s.mag m)).headD 0 = 1) = true := by
            simp only [Bool.or_eq_true, bne_iff_ne, ne_eq, not_or, Decidable.not_not] at hh
            rw [decide_eq_true hh.1, decide_eq_true hh.2]; rfl
          rw [if_neg h1]; simp only [hc, if_true, Powm.Res.limbs]; rfl
      rw [this]; exact r'
    · rcases powm_ui_ok_small h hr hb hm el (by omega) h20 hm0 (mpz_powm_ui_Limbs _ _ _ (hsz_conv h hm hsz)) with hd | hok
      · exact absurd hd.1 (mpz_powm_ui_ne_div0 _ _ _ h20 hm0)
      · exact hok
  · have hval : Powm.mpz_powm_ui (s.value b) el (s.value m) = Powm.mpz_powm (s.value b) (el : Int) (s.value m) := by
      unfold Powm.mpz_powm_ui; simp only [h20, if_false]
    rw [hval]
    unfold powm_ui powm_uiV
    simp only [bind, Except.bind, pure, Except.pure]
    rw [if_neg h20]
    obtain ⟨t1, i2, n2, vs2, a2, _⟩ := tmpInit_spec h 1
    set S2 := (s.tmpInit 1).2 with hS2
    rw [t1]
    have hnv2 : s.nv < S2.nv := by rw [n2]; omega
    have hfit : sizeNat ((el : Int)).natAbs ≤ S2.alloc s.nv := by
      rw [a2, Int.natAbs_natCast, DivZ.sizeNat_le_iff, pow_one]; exact hel
    obtain ⟨S3, e3, r3, u3⟩ := setInt_spec i2 hnv2 (el : Int) hfit
    rw [e3]; simp only []
    have n3 : S3.nv = s.nv + 1 := r3.2.1.trans n2
    have hne : ∀ i, i < s.nv → i ≠ s.nv := fun i hi => Nat.ne_of_lt hi
    have v3 : ∀ i, i < s.nv → S3.value i = s.value i := fun i hi =>
      (r3.2.2.2 i (by rw [n2]; omega) (hne i hi)).trans (vs2 i hi).1
    have ha3 : 1 ≤ S3.alloc r := by rw [u3.alloc, hS2, tmpInit_alloc s _ hr]; exact ha
    have hsm : S3.size m = s.size m := (u3.size_o (hne m hm)).trans (vs2 m hm).2
    have hm3 : m < S3.nv := by rw [n3]; omega
    have hcore := powm_ok_nonneg r3.1 (r := r) (b := b) (e := s.nv) (m := m) (by rw [n3]; omega) (by rw [n3]; omega)
      (by rw [n3]; omega) hm3 ha3 (by rw [v3 m hm]; exact hm0) (by rw [r3.2.2.1]; omega)
      (mpz_powm_Limbs _ _ _ (hsz_conv r3.1 hm3 (by rw [hsm]; exact hsz)))
    rw [v3 b hb, v3 m hm, r3.2.2.1] at hcore
    obtain ⟨S4, e4, r4⟩ := hcore
    have e4' : powmV PowmVariant.c r b s.nv m S3 = .ok S4 := e4
    rw [e4']; simp only []
    have n4 : S4.nv = s.nv + 1 := r4.2.1.trans n3
    obtain ⟨i5, n5, v5⟩ := tmpDone_spec r4.1 s.nv n4
    refine ⟨_, rfl, i5, n5, ?_, fun i hi hir => ?_⟩
    · rw [v5 r hr]; exact r4.2.2.1
    · rw [v5 i hi, r4.2.2.2 i (by rw [n3]; omega) hir, v3 i hi]

/-! ### mpz_addmul / mpz_submul -/

theorem mpn_mul_spec {s : St} {wp up un vp vn : Nat} {bw U V : List Nat} (hbw : s.blk wp = some bw)
    (h1 : wp ≠ up) (h2 : wp ≠ vp) (hU : s.load up un = .ok U) (hV : s.load vp vn = .ok V)
    (hv1 : 1 ≤ vn) (hvu : vn ≤ un) (hlen : un + vn ≤ bw.length) :
    mpn_mul wp up un vp vn s =
      .ok (val U * val V / B ^ (un + vn - 1), s.setBlk wp (some (toLimbs (un + vn) (val U * val V) ++ bw.drop (un + vn)))) := by
  unfold mpn_mul
  have hc : ¬ (wp = up ∨ wp = vp) := by tauto
  have hsz : ¬ ¬ (1 ≤ vn ∧ vn ≤ un) := by tauto
  simp only [bind, Except.bind, pure, Except.pure, hU, hV, if_neg hc, if_neg hsz]
  unfold St.store
  rw [hbw]; simp only [toLimbs_length]
  rw [if_pos hlen]

theorem addmul_bound {W X y0 a b : Nat} (hW : W < B ^ a) (hX : X < B ^ b) (hy : y0 < B) :
    W + X * y0 < B ^ (max b a + 1) := by
  have ha := pow_le_max_r b a
  have hb := pow_le_max_l b a
  obtain ⟨p, hp⟩ : ∃ p, B ^ max b a = p + 1 := ⟨B ^ max b a - 1, by have := Nat.pow_pos (n := max b a) B_pos; omega⟩
  obtain ⟨q, hq⟩ : ∃ q, B = q + 1 := ⟨B - 1, by have := B_pos; omega⟩
  rw [pow_succ, hp]
  have hX' : X ≤ p := by omega
  have hy' : y0 ≤ q := by omega
  have := Nat.mul_le_mul hX' hy'
  have hW' : W ≤ p := by omega
  rw [hq]
  nlinarith

theorem sizeNat_mono {a b : Nat} (hab : a ≤ b) : sizeNat a ≤ sizeNat b :=
  (DivZ.sizeNat_le_iff _ _).mpr (Nat.lt_of_le_of_lt hab (DivZ.lt_B_pow_sizeNat b))

/-- mpz_aorsmul_1 (w, x, y, sub): w = x allowed (MPZ_REALLOC first, then the pointers) -/
theorem aorsmul_1_ok {s : St} (h : Inv s) {w x : Nat} (hw : w < s.nv) (hx : x < s.nv) (y0 : Nat) (hy : y0 < B) (subm : Bool) :
    ∃ s', aorsmul_1 w x y0 subm s = .ok s' ∧
      Res s s' w (if subm then s.value w - s.value x * y0 else s.value w + s.value x * y0) := by
  unfold aorsmul_1
  simp only [bind, Except.bind, pure, Except.pure]
  by_cases h0 : s.size x = 0 ∨ y0 = 0
  · rw [if_pos h0]
    have hz : s.value x * (y0 : Int) = 0 := by
      rcases h0 with h0 | h0
      · rw [(h.size_eq_zero_iff hx).mp h0]; simp
      · rw [h0]; simp
    refine ⟨s, rfl, h, rfl, ?_, fun _ _ _ => rfl⟩
    rw [hz]; cases subm <;> simp
  · rw [if_neg h0]
    obtain ⟨i1, n1, sz1, v1, a1, _⟩ := realloc_spec h hw (max (s.size x).natAbs (s.size w).natAbs + 1)
    have hlx := i1.load_var (i := x) (by rw [n1]; exact hx)
    have hlw := i1.load_var (i := w) (by rw [n1]; exact hw)
    rw [sz1] at hlx hlw
    set s1 := s.mpzRealloc w (max (s.size x).natAbs (s.size w).natAbs + 1) with hs1
    have hzx : sgnv (s.size x) (val (s1.limbs x)) = s.value x := by
      rw [← v1 x hx, value_eq_sgnv, sz1]; rfl
    have hzw : sgnv (s.size w) (val (s1.limbs w)) = s.value w := by
      rw [← v1 w hw, value_eq_sgnv, sz1]; rfl
    have hmx := i1.mag_lt (i := x) (by rw [n1]; exact hx)
    have hmw := i1.mag_lt (i := w) (by rw [n1]; exact hw)
    rw [sz1] at hmx hmw
    have hfit : sizeNat (if subm then sgnv (s.size w) (val (s1.limbs w)) - sgnv (s.size x) (val (s1.limbs x)) * (y0 : Int)
        else sgnv (s.size w) (val (s1.limbs w)) + sgnv (s.size x) (val (s1.limbs x)) * (y0 : Int)).natAbs ≤ s1.alloc w := by
      refine Nat.le_trans ?_ a1
      rw [DivZ.sizeNat_le_iff]
      refine Nat.lt_of_le_of_lt ?_ (addmul_bound hmw hmx hy)
      have e1 := sgnv_natAbs (s.size w) (val (s1.limbs w))
      have e2 := sgnv_natAbs (s.size x) (val (s1.limbs x))
      have e3 : (sgnv (s.size x) (val (s1.limbs x)) * (y0 : Int)).natAbs = s1.mag x * y0 := by
        rw [Int.natAbs_mul, e2]; rfl
      have e4 := Int.natAbs_add_le (sgnv (s.size w) (val (s1.limbs w))) (sgnv (s.size x) (val (s1.limbs x)) * (y0 : Int))
      have e5 := Int.natAbs_sub_le (sgnv (s.size w) (val (s1.limbs w))) (sgnv (s.size x) (val (s1.limbs x)) * (y0 : Int))
      rw [e1, e3] at e4 e5
      cases subm
      · simp only [Bool.false_eq_true, if_false]; exact e4
      · simp only [if_true]; exact e5
    obtain ⟨s', hs', hres, _⟩ := setInt_spec i1 (v := w) (by rw [n1]; exact hw) _ hfit
    refine ⟨s', ?_, hres.1, by rw [hres.2.1, n1], ?_, fun i hi hiw => by rw [hres.2.2.2 i (by rw [n1]; exact hi) hiw, v1 i hi]⟩
    · simp only [hlx, hlw]
      exact hs'
    · rw [hres.2.2.1, hzx, hzw]

theorem aorsmul_sign (subm : Bool) (sw sx sy : Int) (W X Y : Nat) :
    (if decide (sw < 0) = true then
        -(if (((subm != decide (sy < 0)) != decide (sx < 0)) != decide (sw < 0)) = true then (W : Int) - ((X * Y : Nat) : Int)
          else (W : Int) + ((X * Y : Nat) : Int))
      else (if (((subm != decide (sy < 0)) != decide (sx < 0)) != decide (sw < 0)) = true then (W : Int) - ((X * Y : Nat) : Int)
          else (W : Int) + ((X * Y : Nat) : Int))) =
    (if subm = true then sgnv sw W - sgnv sx X * sgnv sy Y else sgnv sw W + sgnv sx X * sgnv sy Y) := by
  unfold sgnv
  by_cases h1 : sw < 0 <;> by_cases h2 : sx < 0 <;> by_cases h3 : sy < 0 <;> cases subm <;> simp [h1, h2, h3] <;> ring

theorem aorsmul_sign0 (subm : Bool) (sw sx sy : Int) (hsw : ¬ sw < 0) (X Y : Nat) :
    (if (((subm != decide (sy < 0)) != decide (sx < 0)) != decide (sw < 0)) = true then -((X * Y : Nat) : Int) else ((X * Y : Nat) : Int)) =
    (if subm = true then 0 - sgnv sx X * sgnv sy Y else 0 + sgnv sx X * sgnv sy Y) := by
  unfold sgnv
  by_cases h2 : sx < 0 <;> by_cases h3 : sy < 0 <;> cases subm <;> simp [h2, h3, hsw]

theorem aorsmul_size {X Y a b : Nat} (ha : 1 ≤ a) (hb : 1 ≤ b) (hX1 : B ^ (a - 1) ≤ X) (hX2 : X < B ^ a)
    (hY1 : B ^ (b - 1) ≤ Y) (hY2 : Y < B ^ b) :
    X * Y < B ^ (a + b) ∧ sizeNat (X * Y) = a + b - (if X * Y / B ^ (a + b - 1) = 0 then 1 else 0) := by
  have hhi : X * Y < B ^ (a + b) := by rw [pow_add]; exact Nat.mul_lt_mul'' hX2 hY2
  have hlo : B ^ (a + b - 2) ≤ X * Y := by
    have : a + b - 2 = (a - 1) + (b - 1) := by omega
    rw [this, pow_add]; exact Nat.mul_le_mul hX1 hY1
  refine ⟨hhi, ?_⟩
  have hpos : 0 < B ^ (a + b - 1) := Nat.pow_pos B_pos
  by_cases hd : X * Y / B ^ (a + b - 1) = 0
  · rw [if_pos hd]
    have hlt : X * Y < B ^ (a + b - 1) := by
      rcases Nat.div_eq_zero_iff.mp hd with h | h
      · omega
      · exact h
    exact sizeNat_eq (by rw [show a + b - 1 - 1 = a + b - 2 by omega]; exact hlo) hlt (by omega)
  · rw [if_neg hd]
    have hge : B ^ (a + b - 1) ≤ X * Y := by
      by_contra hc
      exact hd (Nat.div_eq_of_lt (by omega))
    exact sizeNat_eq hge hhi (by omega)

/-- aorsmul.c:73-142 on the pointer model, every assignment of ids -/
theorem aorsmulGen_ok {s : St} (h : Inv s) {w x y : Nat} (hw : w < s.nv) (hx : x < s.nv) (hy : y < s.nv) (subm : Bool)
    (hx0 : s.size x ≠ 0) (hy0 : s.size y ≠ 0) (hyx : (s.size y).natAbs ≤ (s.size x).natAbs) :
    ∃ s', aorsmulGen .c (subm != decide (s.size y < 0)) w x y s = .ok s' ∧
      Res s s' w (if subm then s.value w - s.value x * s.value y else s.value w + s.value x * s.value y) := by
  unfold aorsmulGen
  simp only [bind, Except.bind, pure, Except.pure, AorsmulVariant.c, if_true]
  obtain ⟨i1, n1, sz1, v1, a1, _⟩ :=
    realloc_spec h hw (max (s.size w).natAbs ((s.size x).natAbs + (s.size y).natAbs) + 1)
  set s1 := s.mpzRealloc w (max (s.size w).natAbs ((s.size x).natAbs + (s.size y).natAbs) + 1) with hs1
  have hw1 : w < s1.nv := by rw [n1]; exact hw
  have hx1 : x < s1.nv := by rw [n1]; exact hx
  have hy1 : y < s1.nv := by rw [n1]; exact hy
  have hlx := i1.load_var hx1
  have hly := i1.load_var hy1
  rw [sz1] at hlx hly
  have eX : val (s1.limbs x) = s.mag x := mag_of_value' (v1 x hx)
  have eY : val (s1.limbs y) = s.mag y := mag_of_value' (v1 y hy)
  have hX2 := h.mag_lt hx
  have hY2 := h.mag_lt hy
  have hX1 := h.mag_ge hx hx0
  have hY1 := h.mag_ge hy hy0
  obtain ⟨hPlt, hPsz⟩ := aorsmul_size (by omega) (by omega) hX1 hX2 hY1 hY2
  obtain ⟨bw, hbw, hbwl, hbwL⟩ := i1.live w hw1
  have hvx : s.value x = sgnv (s.size x) (s.mag x) := rfl
  have hvy : s.value y = sgnv (s.size y) (s.mag y) := rfl
  have hvw : s.value w = sgnv (s.size w) (s.mag w) := rfl
  by_cases hw0 : s.size w = 0
  · rw [if_pos hw0]
    have hwx : w ≠ x := fun e => hx0 (e ▸ hw0)
    have hwy : w ≠ y := fun e => hy0 (e ▸ hw0)
    have hmul := mpn_mul_spec (s := s1) hbw (fun e => hwx (i1.inj w x hw1 hx1 e)) (fun e => hwy (i1.inj w y hw1 hy1 e))
      hlx hly (by omega) hyx (by rw [hbwl]; omega)
    rw [eX, eY] at hmul
    rw [hmul]; simp only []
    rw [← hPsz]
    set nb := toLimbs ((s.size x).natAbs + (s.size y).natAbs) (s.mag x * s.mag y) ++ bw.drop ((s.size x).natAbs + (s.size y).natAbs) with hnb
    have hszle : sizeNat (s.mag x * s.mag y) ≤ (s.size x).natAbs + (s.size y).natAbs := (DivZ.sizeNat_le_iff _ _).mpr hPlt
    have p := put_upd i1 hw1 nb (s.mag x * s.mag y)
      (((subm != decide (s.size y < 0)) != decide (s.size x < 0)) != decide (s.size w < 0))
      (by rw [hnb, length_wr' (by rw [hbwl]; omega)]; exact hbwl) (Limbs_wr' (Limbs_toLimbs _ _) hbwL) (by omega)
      (val_take_wr _ hszle)
    refine ⟨_, rfl, p.1, p.2.1.nv.trans n1, ?_, fun i hi hiw => (p.2.1.value_o i1 hw1 (by rw [n1]; exact hi) hiw).trans (v1 i hi)⟩
    have hval := p.2.2
    have hmw : s.mag w = 0 := h.mag_zero hw hw0
    rw [hvw, hvx, hvy, hmw]
    have : sgnv (s.size w) 0 = 0 := by unfold sgnv; split <;> simp
    rw [this, ← aorsmul_sign0 subm (s.size w) _ _ (by omega)]
    exact hval
  · rw [if_neg hw0]
    -- the product goes to TMP space
    have i2 := malloc_inv i1 (List.replicate ((s.size x).natAbs + (s.size y).natAbs) junk)
    have e2 := malloc_ext i1 (List.replicate ((s.size x).natAbs + (s.size y).natAbs) junk)
    have hmul := mpn_mul_spec (s := (s1.tmpAlloc ((s.size x).natAbs + (s.size y).natAbs)).2)
      (wp := s1.next) (malloc_blk_new s1 _)
      (Ne.symm (malloc_ne_ptr i1 hx1)) (Ne.symm (malloc_ne_ptr i1 hy1)) (e2.load hlx) (e2.load hly) (by omega) hyx (by simp)
    rw [eX, eY] at hmul
    have hfst : (s1.tmpAlloc ((s.size x).natAbs + (s.size y).natAbs)).1 = s1.next := rfl
    rw [hfst, hmul]; simp only []
    set ts := (s.size x).natAbs + (s.size y).natAbs with hts
    set P := s.mag x * s.mag y with hP
    set nb := toLimbs ts P ++ (List.replicate ts junk).drop ts with hnb
    set X1 := (s1.tmpAlloc ts).2.setBlk s1.next (some nb) with hX1
    obtain ⟨iX, vX⟩ := setBlk_nonvar i2 (p := s1.next) (fun i hi => by rw [e2.ptr]; exact malloc_ne_ptr i1 (by rw [e2.nv] at hi; exact hi))
      (by show s1.next < s1.next + 1; omega) nb
    have iX' : Inv X1 := iX
    have hXblk : X1.blk s1.next = some nb := by simp [hX1, St.setBlk]
    rw [← hPsz]
    have hszle : sizeNat P ≤ ts := (DivZ.sizeNat_le_iff _ _).mpr hPlt
    have hlt : X1.load s1.next (sizeNat P) = .ok (nb.take (sizeNat P)) := by
      unfold St.load; rw [hXblk]; simp only []
      rw [if_pos (by rw [hnb]; simp [toLimbs_length]; omega)]
    rw [hlt]; simp only []
    have hvt : val (nb.take (sizeNat P)) = P := val_take_wr _ hszle
    rw [hvt]
    have hwX : w < X1.nv := hw1
    have hlw : X1.load (s1.ptr w) (s.size w).natAbs = .ok (X1.limbs w) := by
      have := iX'.load_var hwX
      have e : X1.size w = s.size w := sz1 w
      rw [e] at this; exact this
    rw [hlw]; simp only []
    have eW : val (X1.limbs w) = s.mag w := by
      have : X1.value w = s.value w := (vX w hw1).trans ((e2.value i1 hw1).trans (v1 w hw))
      exact mag_of_value' this
    rw [eW]
    have hWlt := h.mag_lt hw
    have hfit : sizeNat (if decide (s.size w < 0) = true then
        -(if (((subm != decide (s.size y < 0)) != decide (s.size x < 0)) != decide (s.size w < 0)) = true then (s.mag w : Int) - (P : Int)
          else (s.mag w : Int) + (P : Int))
      else (if (((subm != decide (s.size y < 0)) != decide (s.size x < 0)) != decide (s.size w < 0)) = true then (s.mag w : Int) - (P : Int)
          else (s.mag w : Int) + (P : Int))).natAbs ≤ X1.alloc w := by
      have ea : X1.alloc w = s1.alloc w := rfl
      rw [ea]
      refine Nat.le_trans ?_ a1
      refine Nat.le_trans ?_ (sizeNat_add_le (Nat.lt_of_lt_of_le hWlt (pow_le_max_l _ _)) (Nat.lt_of_lt_of_le hPlt (pow_le_max_r _ _)))
      apply sizeNat_mono
      split <;> split <;> omega
    obtain ⟨s', hs', hres, hupd⟩ := setInt_spec iX' hwX _ hfit
    rw [hs']; simp only []
    obtain ⟨i3, n3, _, v3⟩ := free_inv hres.1 s1.next (fun i hi => by
      rw [hupd.ptr]
      show s1.ptr i ≠ s1.next
      exact malloc_ne_ptr i1 (by rw [hres.2.1] at hi; exact hi))
    have hnvX : X1.nv = s.nv := n1
    refine ⟨_, rfl, i3, by rw [n3, hres.2.1, hnvX], ?_, fun i hi hiw => ?_⟩
    · rw [v3 w (by rw [hres.2.1]; exact hwX), hres.2.2.1, hvw, hvx, hvy, ← aorsmul_sign]
    · exact (v3 i (by rw [hres.2.1, hnvX]; exact hi)).trans ((hres.2.2.2 i (by rw [hnvX]; exact hi) hiw).trans
        ((vX i (by rw [e2.nv, n1]; exact hi)).trans ((e2.value i1 (by rw [n1]; exact hi)).trans (v1 i hi))))

theorem aorsmulCore_ok {s : St} (h : Inv s) {w x y : Nat} (hw : w < s.nv) (hx : x < s.nv) (hy : y < s.nv) (subm : Bool)
    (hx0 : s.size x ≠ 0) (hy0 : s.size y ≠ 0) (hyx : (s.size y).natAbs ≤ (s.size x).natAbs) :
    ∃ s', aorsmulCore .c subm w x y s = .ok s' ∧
      Res s s' w (if subm then s.value w - s.value x * s.value y else s.value w + s.value x * s.value y) := by
  unfold aorsmulCore
  simp only [bind, Except.bind]
  by_cases hy1 : (s.size y).natAbs = 1
  · rw [if_pos hy1]
    obtain ⟨b, hb, hbl, hbL⟩ := h.live y hy
    have hfy := h.fits y hy
    rw [limbAt_of_blk hb (by omega)]; simp only []
    have hmy : s.mag y = b.getD 0 0 := by
      unfold St.mag St.limbs; rw [hb, hy1]; simp only [Option.getD_some]
      cases b with
      | nil => simp at hbl; omega
      | cons a as => simp
    have hyB : b.getD 0 0 < B := by
      cases b with
      | nil => simp at hbl; omega
      | cons a as => simp; exact hbL a (by simp)
    obtain ⟨s', e', r'⟩ := aorsmul_1_ok h hw hx (b.getD 0 0) hyB (subm != decide (s.size y < 0))
    refine ⟨s', e', ?_⟩
    have hvy : s.value y = sgnv (s.size y) (s.mag y) := rfl
    have : (if (subm != decide (s.size y < 0)) = true then s.value w - s.value x * ((b.getD 0 0 : Nat) : Int)
        else s.value w + s.value x * ((b.getD 0 0 : Nat) : Int)) =
        (if subm = true then s.value w - s.value x * s.value y else s.value w + s.value x * s.value y) := by
      rw [hvy, hmy]; unfold sgnv
      by_cases h3 : s.size y < 0 <;> cases subm <;> (simp [h3]; try ring)
    rw [← this]; exact r'
  · rw [if_neg hy1]
    exact aorsmulGen_ok h hw hx hy subm hx0 hy0 hyx

/-- mpz_addmul (`subm = false`) / mpz_submul (`subm = true`) (w, x, y) for EVERY assignment of ids (w = x, w = y, x = y,
    all equal): w ends up with w ± x·y, the other variables keep their values, all TMP space is released. -/
theorem aorsmul_ok {s : St} (h : Inv s) {w x y : Nat} (hw : w < s.nv) (hx : x < s.nv) (hy : y < s.nv) (subm : Bool) :
    ∃ s', aorsmulV .c subm w x y s = .ok s' ∧
      Res s s' w (if subm then s.value w - s.value x * s.value y else s.value w + s.value x * s.value y) := by
  unfold aorsmulV
  simp only []
  by_cases h0 : s.size x = 0 ∨ s.size y = 0
  · rw [if_pos h0]
    have hz : s.value x * s.value y = 0 := by
      rcases h0 with h0 | h0
      · rw [(h.size_eq_zero_iff hx).mp h0]; simp
      · rw [(h.size_eq_zero_iff hy).mp h0]; simp
    refine ⟨s, rfl, h, rfl, ?_, fun _ _ _ => rfl⟩
    rw [hz]; cases subm <;> simp
  · rw [if_neg h0]
    have hx0 : s.size x ≠ 0 := fun e => h0 (Or.inl e)
    have hy0 : s.size y ≠ 0 := fun e => h0 (Or.inr e)
    by_cases hsw : (s.size y).natAbs > (s.size x).natAbs
    · rw [if_pos hsw, mul_comm (s.value x)]
      exact aorsmulCore_ok h hw hy hx subm hy0 hx0 (by omega)
    · rw [if_neg hsw]
      exact aorsmulCore_ok h hw hx hy subm hx0 hy0 (by omega)

theorem addmul_ok {s : St} (h : Inv s) {w x y : Nat} (hw : w < s.nv) (hx : x < s.nv) (hy : y < s.nv) :
    ∃ s', addmul w x y s = .ok s' ∧ Res s s' w (s.value w + s.value x * s.value y) :=
  aorsmul_ok h hw hx hy false

theorem submul_ok {s : St} (h : Inv s) {w x y : Nat} (hw : w < s.nv) (hx : x < s.nv) (hy : y < s.nv) :
    ∃ s', submul w x y s = .ok s' ∧ Res s s' w (s.value w - s.value x * s.value y) :=
  aorsmul_ok h hw hx hy true

/-! ### mpz_sqrt -/

theorem mpn_sqrt_ok {s : St} {sp np nn : Nat} {Nl bs : List Nat}
    (hN : s.load np nn = .ok Nl) (hbs : s.blk sp = some bs) (h1 : sp ≠ np) (hnn : 1 ≤ nn)
    (htop : Nl.getD (nn - 1) 0 ≠ 0) (has : (nn + 1) / 2 ≤ bs.length) :
    mpn_sqrt sp np nn s =
      .ok (s.setBlk sp (some (toLimbs ((nn + 1) / 2) (Nat.sqrt (val Nl)) ++ bs.drop ((nn + 1) / 2)))) := by
  unfold mpn_sqrt
  have hs : ¬ ¬ 1 ≤ nn := by omega
  simp only [bind, Except.bind, h1, if_false, hN, hs, htop]
  unfold St.store; rw [hbs]; simp only [toLimbs_length]; rw [if_pos has]

/-- **mpz_sqrt (root, op)** on the pointer model, root = op included: root ends up with ⌊√op⌋, everything else keeps its value. -/
theorem mpz_sqrt_ok {s : St} (h : Inv s) {root op : Nat} (hr : root < s.nv) (ho : op < s.nv) (hop : 0 ≤ s.value op) :
    ∃ s', mpz_sqrt root op s = .ok s' ∧ Res s s' root (Nat.sqrt (s.value op).toNat : Int) := by
  unfold mpz_sqrt mpz_sqrtV
  simp only [SqrtVariant.c, bind, Except.bind, pure, Except.pure, true_and]
  have hsz0 : ¬ s.size op < 0 := fun e => by have := (h.size_neg_iff ho).mp e; omega
  rw [if_neg hsz0]
  by_cases hz : s.size op = 0
  · rw [if_pos hz]
    have hv0 : s.value op = 0 := (h.size_eq_zero_iff ho).mp hz
    obtain ⟨i1, u1, v1⟩ := setSize_zero_spec h hr
    refine ⟨_, rfl, i1, u1.nv, ?_, fun i hi hir => u1.value_o h hr hi hir⟩
    rw [v1, hv0]; simp
  · rw [if_neg hz]
    set n := (s.size op).natAbs with hn
    have hn1 : 1 ≤ n := by omega
    have hvN : s.value op = (s.mag op : Int) := by rw [value_eq_sgnv]; unfold sgnv; rw [if_neg hsz0]
    have htoNat : (s.value op).toNat = s.mag op := by rw [hvN]; simp
    rw [htoNat]
    have hN1 := h.mag_ge ho hz; rw [← hn] at hN1
    have hN2 := h.mag_lt ho; rw [← hn] at hN2
    have hRtsz : sizeNat (Nat.sqrt (s.mag op)) = (n + 1) / 2 := sqrt_size hN1 hN2 hn1
    by_cases hgrow : s.alloc root < (n + 1) / 2
    · rw [if_pos hgrow]
      have hne : op ≠ root := fun e => by
        have hf := h.fits op ho
        rw [← hn, e] at hf
        omega
      have hpne : s.ptr root ≠ s.ptr op := fun e => hne (h.inj root op hr ho e).symm
      have hk : decide (s.ptr root = s.ptr op) = false := by simpa using hpne
      simp only [hk, Bool.false_eq_true, if_false]
      rw [free_newBlock]
      obtain ⟨i2, nv2, size2, val2, aV, aO, pV, pO, nx, _⟩ := freshBlock_spec h hr ((n + 1) / 2) hgrow
      set s2 := s.freshBlock root ((n + 1) / 2) with hs2
      have hr2 : root < s2.nv := by rw [nv2]; exact hr
      have ho2 : op < s2.nv := by rw [nv2]; exact ho
      have hl := i2.load_var ho2
      rw [size2, ← hn, pO op hne] at hl
      have htop := i2.top_ne_zero ho2 (by rw [size2]; exact hz)
      rw [size2, ← hn] at htop
      have hmo : val (s2.limbs op) = s.mag op := mag_of_value' (val2 op ho hne)
      obtain ⟨bs, hbs, hbsl, hbsL⟩ := i2.live root hr2
      have hsp : s2.ptr root ≠ s.ptr op := by rw [pV]; exact Nat.ne_of_gt (h.lt op ho)
      rw [mpn_sqrt_ok hl hbs hsp hn1 htop (by rw [hbsl, aV])]
      simp only []
      rw [hmo]
      have p := put_upd i2 hr2 (toLimbs ((n + 1) / 2) (Nat.sqrt (s.mag op)) ++ bs.drop ((n + 1) / 2)) (Nat.sqrt (s.mag op)) false
        (by rw [length_wr' (by rw [hbsl, aV])]; exact hbsl) (Limbs_wr' (Limbs_toLimbs _ _) hbsL)
        (by rw [hRtsz, aV]) (val_take_wr _ (by rw [hRtsz]))
      simp only [Bool.false_eq_true, if_false, hRtsz] at p
      exact ⟨_, rfl, p.1, p.2.1.nv.trans nv2, p.2.2, fun i hi hir =>
        (p.2.1.value_o i2 hr2 (by rw [nv2]; exact hi) hir).trans (val2 i hi hir)⟩
    · rw [if_neg hgrow]
      generalize hcc : decide (s.ptr root = s.ptr op) = c
      have hl := h.load_var ho; rw [← hn] at hl
      obtain ⟨q, s3, e3, i3, x3, l3, t3, f3⟩ := copyIf_spec h c hl
      rw [e3]; simp only []
      have hr3 : root < s3.nv := by rw [x3.nv]; exact hr
      obtain ⟨bs, hbs, hbsl, hbsL⟩ := i3.live root hr3
      rw [x3.ptr root] at hbs
      have hspq : s.ptr root ≠ q := by
        cases c
        · rw [(f3 rfl).1]; simpa using hcc
        · rw [(t3 rfl).1]; exact Nat.ne_of_lt (h.lt root hr)
      have htop := h.top_ne_zero ho hz; rw [← hn] at htop
      have har : (n + 1) / 2 ≤ bs.length := by rw [hbsl, x3.alloc]; omega
      rw [mpn_sqrt_ok l3 hbs hspq hn1 htop har]
      simp only []
      have hmo : val (s.limbs op) = s.mag op := rfl
      rw [hmo]
      have hput : (s3.setBlk (s.ptr root) (some (toLimbs ((n + 1) / 2) (Nat.sqrt (s.mag op)) ++ bs.drop ((n + 1) / 2)))).setSize root
          (((n + 1) / 2 : Nat) : Int) = s3.put root (toLimbs ((n + 1) / 2) (Nat.sqrt (s.mag op)) ++ bs.drop ((n + 1) / 2)) (((n + 1) / 2 : Nat) : Int) := by
        unfold St.put; rw [x3.ptr root]
      rw [hput]
      have p := put_upd i3 hr3 (toLimbs ((n + 1) / 2) (Nat.sqrt (s.mag op)) ++ bs.drop ((n + 1) / 2)) (Nat.sqrt (s.mag op)) false
        (by rw [length_wr' har]; exact hbsl) (Limbs_wr' (Limbs_toLimbs _ _) hbsL)
        (by rw [hRtsz, ← hbsl]; exact har) (val_take_wr _ (by rw [hRtsz]))
      simp only [Bool.false_eq_true, if_false, hRtsz] at p
      have hvo : ∀ i, i < s.nv → i ≠ root → (s3.put root (toLimbs ((n + 1) / 2) (Nat.sqrt (s.mag op)) ++ bs.drop ((n + 1) / 2))
          (((n + 1) / 2 : Nat) : Int)).value i = s.value i := fun i hi hir =>
        (p.2.1.value_o i3 hr3 (by rw [x3.nv]; exact hi) hir).trans (x3.value h hi)
      cases c
      · simp only [Bool.false_eq_true, if_false]
        exact ⟨_, rfl, p.1, p.2.1.nv.trans x3.nv, p.2.2, hvo⟩
      · simp only [if_true]
        obtain ⟨i6, n6, _, v6⟩ := free_inv p.1 q (fun i hi => by
          rw [p.2.1.nv, x3.nv] at hi
          rw [p.2.1.ptr, x3.ptr, (t3 rfl).1]
          exact Nat.ne_of_lt (h.lt i hi))
        have nv5 := p.2.1.nv.trans x3.nv
        exact ⟨_, rfl, i6, by rw [n6, nv5], by rw [v6 root (by rw [nv5]; exact hr), p.2.2],
          fun i hi hir => by rw [v6 i (by rw [nv5]; exact hi), hvo i hi hir]⟩

/-! ### mpz_lcm -/

/-- lcm.c:50-63 (`one:`): r = u, r = v allowed — MPZ_REALLOC first, then the pointers; mpn_mul_1 in place -/
theorem lcmOne_ok {s : St} (h : Inv s) {r u v : Nat} (hr : r < s.nv) (hu : u < s.nv) (hv : v < s.nv)
    (hzu : s.size u ≠ 0) (hv1 : (s.size v).natAbs = 1) :
    ∃ s', lcmOne r u v (s.size u).natAbs s = .ok s' ∧ Res s s' r ((Nat.lcm (s.mag u) (s.mag v) : Nat) : Int) := by
  obtain ⟨i1, nv1, size1, val1, a1, _⟩ := realloc_spec h hr ((s.size u).natAbs + 1)
  unfold lcmOne
  simp only [bind, Except.bind, pure, Except.pure]
  generalize s.mpzRealloc r ((s.size u).natAbs + 1) = s1 at *
  have hr1 : r < s1.nv := by rw [nv1]; exact hr
  have hu1 : u < s1.nv := by rw [nv1]; exact hu
  have hv1' : v < s1.nv := by rw [nv1]; exact hv
  obtain ⟨bw, hbw, hbwl, hbwL⟩ := i1.live r hr1
  obtain ⟨bv, hbv, hbvl, hbvL⟩ := i1.live v hv1'
  have hfv := i1.fits v hv1'; rw [size1, hv1] at hfv
  obtain ⟨lu, u1, u2⟩ := opnd i1 hu1 (by rw [size1]; exact hzu)
  rw [size1] at lu u1 u2
  have hmu : val (s1.limbs u) = s.mag u := mag_of_value (val1 u hu)
  obtain ⟨x, xs, hbvx⟩ : ∃ x xs, bv = x :: xs := by
    cases bv with
    | nil => simp at hbvl; omega
    | cons x xs => exact ⟨x, xs, rfl⟩
  have hxB : x < B := hbvL x (by rw [hbvx]; simp)
  have hmv : s.mag v = x := by
    rw [← mag_of_value (val1 v hv)]
    unfold St.mag St.limbs
    rw [hbv, size1, hv1, hbvx]; simp
  have hx0 : 1 ≤ x := by
    have := h.mag_ge hv (by omega); rw [hv1, hmv] at this; simpa using this
  rw [limbAt_of_blk hbv (by omega), hbvx]
  simp only [List.getD_cons_zero]
  rw [lu]; simp only []
  set g := Nat.gcd (val (s1.limbs u)) x with hg
  have hgpos : 0 < g := Nat.gcd_pos_of_pos_right _ hx0
  have hgle : g ≤ x := Nat.gcd_le_right _ hx0
  set y := x / g with hy
  have hy0 : 1 ≤ y := Nat.div_pos hgle hgpos
  have hyB : y < B := Nat.lt_of_le_of_lt (Nat.div_le_self _ _) hxB
  have hlcm : val (s1.limbs u) * y = Nat.lcm (s.mag u) (s.mag v) := by
    rw [hy, hg, ← Nat.mul_div_assoc _ (Nat.gcd_dvd_right _ _), hmu, hmv]; rfl
  unfold mpn_mul_1
  have hs : ¬ ¬ (1 ≤ (s.size u).natAbs ∧ y < B) := by omega
  simp only [bind, Except.bind, hs, if_false, lu, pure, Except.pure]
  rw [store_blk hbw (by rw [toLimbs_length]; omega)]
  simp only [toLimbs_length]
  have hP2 : val (s1.limbs u) * y < B ^ ((s.size u).natAbs + 1) := by
    rw [pow_succ]; exact Nat.mul_lt_mul'' u2 hyB
  have hP1 : B ^ ((s.size u).natAbs + 1 - 2) ≤ val (s1.limbs u) * y := by
    rw [show (s.size u).natAbs + 1 - 2 = (s.size u).natAbs - 1 by omega]
    calc B ^ ((s.size u).natAbs - 1) ≤ val (s1.limbs u) := u1
      _ = val (s1.limbs u) * 1 := (Nat.mul_one _).symm
      _ ≤ val (s1.limbs u) * y := Nat.mul_le_mul_left _ hy0
  rw [storeAt_ok (setBlk_blk_self _ _ _) (by simp [toLimbs_length]; omega), setBlk_setBlk,
    wrAt_carry _ _ bw (by omega) hP2]
  have hsz := mul_size hP1 hP2 (by omega)
  simp only [Nat.add_sub_cancel] at hsz
  have hn : (s.size u).natAbs + (if val (s1.limbs u) * y / B ^ (s.size u).natAbs ≠ 0 then 1 else 0) = sizeNat (val (s1.limbs u) * y) := by
    rw [hsz]; by_cases e : val (s1.limbs u) * y / B ^ (s.size u).natAbs = 0 <;> simp [e]
  rw [hn]
  have p := put_upd i1 hr1 (toLimbs ((s.size u).natAbs + 1) (val (s1.limbs u) * y) ++ bw.drop ((s.size u).natAbs + 1))
    (val (s1.limbs u) * y) false (by rw [length_wr' (by omega)]; exact hbwl) (Limbs_wr' (Limbs_toLimbs _ _) hbwL)
    (by rw [hsz]; omega) (val_take_wr _ (by rw [hsz]; omega))
  simp only [Bool.false_eq_true, if_false] at p
  refine ⟨_, rfl, p.1, by show (s1.put r _ _).nv = _; rw [p.2.1.nv, nv1], ?_, fun i hi hiw => ?_⟩
  · show (s1.put r _ _).value r = _
    rw [p.2.2, hlcm]
  · show (s1.put r _ _).value i = _
    rw [p.2.1.value_o i1 hr1 (by rw [nv1]; exact hi) hiw, val1 i hi]

theorem lcm_via (u v : Int) : ((Int.tdiv u ((Int.gcd u v : Nat) : Int)) * v).natAbs = Int.lcm u v := by
  rw [Int.natAbs_mul, Int.natAbs_tdiv, Int.natAbs_natCast]
  show u.natAbs / Nat.gcd u.natAbs v.natAbs * v.natAbs = Nat.lcm u.natAbs v.natAbs
  obtain ⟨k, hk⟩ := Nat.gcd_dvd_left u.natAbs v.natAbs
  unfold Nat.lcm
  by_cases hg : Nat.gcd u.natAbs v.natAbs = 0
  · rw [hg]; simp
  · have hgp : 0 < Nat.gcd u.natAbs v.natAbs := Nat.pos_of_ne_zero hg
    generalize Nat.gcd u.natAbs v.natAbs = g at *
    rw [hk, Nat.mul_div_cancel_left _ hgp, Nat.mul_assoc, Nat.mul_div_cancel_left _ hgp]

/-- **mpz_lcm (r, u, v)** on the pointer model for EVERY assignment of ids (r = u, r = v, u = v, all equal). -/
theorem mpz_lcm_ok {s : St} (h : Inv s) {r u v : Nat} (hr : r < s.nv) (hu : u < s.nv) (hv : v < s.nv) :
    ∃ s', mpz_lcm r u v s = .ok s' ∧ Res s s' r ((Int.lcm (s.value u) (s.value v) : Nat) : Int) := by
  have hlcm : Int.lcm (s.value u) (s.value v) = Nat.lcm (s.mag u) (s.mag v) := by
    rw [← value_natAbs, ← value_natAbs]; rfl
  unfold mpz_lcm
  simp only [bind, Except.bind, pure, Except.pure]
  by_cases h0 : s.size u = 0 ∨ s.size v = 0
  · rw [if_pos h0]
    obtain ⟨i1, u1, v1⟩ := setSize_zero_spec h hr
    refine ⟨_, rfl, i1, u1.nv, ?_, fun i hi hir => u1.value_o h hr hi hir⟩
    rw [v1, hlcm]
    rcases h0 with h0 | h0
    · rw [h.mag_zero hu h0]; simp
    · rw [h.mag_zero hv h0]; simp
  · rw [if_neg h0]
    have hu0 : s.size u ≠ 0 := fun e => h0 (Or.inl e)
    have hv0 : s.size v ≠ 0 := fun e => h0 (Or.inr e)
    by_cases hv1 : (s.size v).natAbs = 1
    · rw [if_pos hv1, hlcm]
      exact lcmOne_ok h hr hu hv hu0 hv1
    · rw [if_neg hv1]
      by_cases hu1 : (s.size u).natAbs = 1
      · rw [if_pos hu1, hlcm, Nat.lcm_comm]
        exact lcmOne_ok h hr hv hu hv0 hu1
      · rw [if_neg hu1]
        obtain ⟨t1, i2, n2, vs2, a2, _⟩ := tmpInit_spec h (max (s.size u).natAbs (s.size v).natAbs)
        set S2 := (s.tmpInit (max (s.size u).natAbs (s.size v).natAbs)).2 with hS2
        rw [t1]
        have hne : ∀ i, i < s.nv → i ≠ s.nv := fun i hi => Nat.ne_of_lt hi
        have hg2 : s.nv < S2.nv := by rw [n2]; omega
        have lt2 : ∀ i, i < s.nv → i < S2.nv := fun i hi => by rw [n2]; omega
        obtain ⟨S3, e3, r3⟩ := mpz_gcd_ok i2 hg2 (lt2 u hu) (lt2 v hv) (by rw [a2]; omega)
        rw [e3]; simp only []
        have n3 : S3.nv = s.nv + 1 := r3.2.1.trans n2
        have v3 : ∀ i, i < s.nv → S3.value i = s.value i := fun i hi =>
          (r3.2.2.2 i (lt2 i hi) (hne i hi)).trans (vs2 i hi).1
        have hG : S3.value s.nv = ((Int.gcd (s.value u) (s.value v) : Nat) : Int) := by
          rw [r3.2.2.1, (vs2 u hu).1, (vs2 v hv).1]
        have hG0 : S3.value s.nv ≠ 0 := by
          rw [hG]
          have : s.value u ≠ 0 := fun e => hu0 ((h.size_eq_zero_iff hu).mpr e)
          have := Int.gcd_pos_of_ne_zero_left (s.value v) this
          omega
        have lt3 : ∀ i, i < s.nv + 1 → i < S3.nv := fun i hi => by rw [n3]; exact hi
        obtain ⟨S4, e4, r4⟩ := divexact_ok r3.1 (q := s.nv) (n := u) (d := s.nv) (lt3 s.nv (by omega)) (lt3 u (by omega)) (lt3 s.nv (by omega)) hG0
        rw [e4]; simp only []
        have n4 : S4.nv = s.nv + 1 := r4.2.1.trans n3
        have v4 : ∀ i, i < s.nv → S4.value i = s.value i := fun i hi =>
          (r4.2.2.2 i (lt3 i (by omega)) (hne i hi)).trans (v3 i hi)
        have lt4 : ∀ i, i < s.nv + 1 → i < S4.nv := fun i hi => by rw [n4]; exact hi
        obtain ⟨S5, e5, r5, _⟩ := mpz_mul_ok r4.1 (lt4 r (by omega)) (lt4 s.nv (by omega)) (lt4 v (by omega))
        rw [e5]; simp only []
        have n5 : S5.nv = s.nv + 1 := r5.2.1.trans n4
        have hr5 : r < S5.nv := by rw [n5]; omega
        obtain ⟨i6, u6, v6⟩ := flip_spec r5.1 hr5 (((S5.size r).natAbs : Nat) : Int) (Int.natAbs_natCast _)
        set S6 := S5.setSize r (((S5.size r).natAbs : Nat) : Int) with hS6
        have n6 : S6.nv = s.nv + 1 := u6.nv.trans n5
        obtain ⟨i7, n7, v7⟩ := tmpDone_spec i6 s.nv n6
        refine ⟨_, rfl, i7, n7, ?_, fun i hi hir => ?_⟩
        · rw [v7 r hr, v6]
          have : sgnv (((S5.size r).natAbs : Nat) : Int) (S5.mag r) = (S5.mag r : Int) := by
            unfold sgnv; rw [if_neg (by omega)]
          rw [this, ← value_natAbs, r5.2.2.1, r4.2.2.1, v4 v hv, v3 u hu, hG]
          show ((DivZ.tdivQ (s.value u) _ * s.value v).natAbs : Int) = _
          unfold DivZ.tdivQ
          rw [lcm_via]
        · rw [v7 i hi, u6.value_o r5.1 hr5 (by rw [n5]; omega) hir, r5.2.2.2 i (lt4 i (by omega)) hir, v4 i hi]

/-! ### mpz_invert -/

theorem gcdext_bounds {a b g c t : Int} (hok : Gcd.gcdextOk a b g c t) (ha : a ≠ 0) :
    0 ≤ g ∧ g.natAbs ≤ a.natAbs ∧ (c.natAbs ≤ 1 ∨ c.natAbs < b.natAbs) := by
  obtain ⟨hg, _, hcond, _⟩ := hok
  have hgpos : 0 < Int.gcd a b := Int.gcd_pos_of_ne_zero_left b ha
  have hgle : Int.gcd a b ≤ a.natAbs := Nat.gcd_le_left _ (Int.natAbs_pos.mpr ha)
  refine ⟨by rw [hg]; omega, by rw [hg]; simpa using hgle, ?_⟩
  by_cases heq : a.natAbs = b.natAbs
  · rw [if_pos heq] at hcond; left; rw [hcond.1]; simp
  · rw [if_neg heq] at hcond
    have h1 := hcond.1
    by_cases hb : b = 0 ∨ (b.natAbs : Int) = 2 * g
    · rw [if_pos hb] at h1; left; rw [h1]; unfold Gcd.sgn; split_ifs <;> simp
    · rw [if_neg hb] at h1; right
      have hg1 : 1 ≤ g := by rw [hg]; omega
      have : (c.natAbs : Int) < (b.natAbs : Int) := by nlinarith [Int.natCast_nonneg c.natAbs]
      exact_mod_cast this

theorem var_is_one {s : St} (h : Inv s) {i : Nat} (hi : i < s.nv) {b : List Nat} (hb : s.blk (s.ptr i) = some b)
    (hl : 1 ≤ b.length) : (s.size i ≠ 1 ∨ b.getD 0 0 ≠ 1) ↔ s.value i ≠ 1 := by
  by_cases h1 : s.size i = 1
  · have hm : s.mag i = b.getD 0 0 := by
      unfold St.mag St.limbs; rw [hb, h1]; simp only [Option.getD_some]
      cases b with
      | nil => simp at hl
      | cons a as => simp
    have hv : s.value i = (s.mag i : Int) := by rw [value_eq_sgnv, h1]; unfold sgnv; simp
    rw [hv, hm]; simp [h1]
  · constructor
    · intro _ hc
      have := h.norm i hi
      rw [hc] at this
      exact h1 (by rw [this]; decide)
    · intro _; exact Or.inl h1

theorem tmpDone2_spec {S : St} (hS : Inv S) (k : Nat) (hk : S.nv = k + 2) :
    Inv S.tmpDone.tmpDone ∧ S.tmpDone.tmpDone.nv = k ∧ ∀ i, i < k → S.tmpDone.tmpDone.value i = S.value i := by
  obtain ⟨i1, n1, v1⟩ := tmpDone_spec hS (k + 1) hk
  obtain ⟨i2, n2, v2⟩ := tmpDone_spec i1 k n1
  exact ⟨i2, n2, fun i hi => (v2 i hi).trans (v1 i (by omega))⟩

/-- the positive representative chosen at invert.c:60-68 -/
def invertPick (c vn : Int) : Int := if c < 0 then (if vn < 0 then c - vn else c + vn) else c

/-- invert.c:46-71 on the pointer model.  `hc`: the documented contract of mpn_gcdext (as in C07 `mpz_gcdext_spec`) — used
    only for the SIZE of the gcd and of the cofactor, which must fit the `MAX (xsize, nsize) + 1` limbs of the two locals. -/
theorem invertMain_ok (hc : Gcd.MpnGcdextContract) {s : St} (h : Inv s) {inv x n : Nat} (hi : inv < s.nv) (hx : x < s.nv)
    (hn : n < s.nv) (hx0 : s.value x ≠ 0) :
    ∃ s', invertMain inv x n (s.size x).natAbs (s.size n).natAbs s =
        .ok (decide ((Gcd.mpz_gcdext (s.value x) (s.value n)).1 = 1), s') ∧ Inv s' ∧ s'.nv = s.nv ∧
      ((Gcd.mpz_gcdext (s.value x) (s.value n)).1 ≠ 1 → ∀ i, i < s.nv → s'.value i = s.value i) ∧
      ((Gcd.mpz_gcdext (s.value x) (s.value n)).1 = 1 →
        s'.value inv = invertPick (Gcd.mpz_gcdext (s.value x) (s.value n)).2.1 (s.value n) ∧
        ∀ i, i < s.nv → i ≠ inv → s'.value i = s.value i) := by
  unfold invertMain
  simp only [bind, Except.bind, pure, Except.pure]
  set sz := max (s.size x).natAbs (s.size n).natAbs + 1 with hsz
  obtain ⟨f1, i1, n1, vs1, a1, _⟩ := tmpInit_spec h sz
  set T1 := (s.tmpInit sz).2 with hT1
  obtain ⟨f2, i2, n2, vs2, a2, _⟩ := tmpInit_spec i1 sz
  set T2 := (T1.tmpInit sz).2 with hT2
  rw [f2, f1, n1]
  rw [n1] at n2 a2
  have lt1 : ∀ i, i < s.nv → i < T1.nv := fun i hi => by rw [n1]; omega
  have lt2 : ∀ i, i < s.nv + 2 → i < T2.nv := fun i hi => by rw [n2]; omega
  have vT2 : ∀ i, i < s.nv → T2.value i = s.value i ∧ T2.size i = s.size i := fun i hi =>
    ⟨(vs2 i (lt1 i hi)).1.trans (vs1 i hi).1, (vs2 i (lt1 i hi)).2.trans (vs1 i hi).2⟩
  have hlx := i2.load_var (lt2 x (by omega)); rw [(vT2 x hx).2] at hlx
  have hln := i2.load_var (lt2 n (by omega)); rw [(vT2 n hn).2] at hln
  rw [hlx]; simp only []
  rw [hln]; simp only []
  have evx : sgnv (s.size x) (val (T2.limbs x)) = s.value x := by
    rw [← (vT2 x hx).1, value_eq_sgnv, (vT2 x hx).2]; rfl
  have evn : sgnv (s.size n) (val (T2.limbs n)) = s.value n := by
    rw [← (vT2 n hn).1, value_eq_sgnv, (vT2 n hn).2]; rfl
  rw [evx, evn]
  have hok := Gcd.mpz_gcdext_spec hc (s.value x) (s.value n)
  obtain ⟨hg0, hgle, hcb⟩ := gcdext_bounds hok hx0
  generalize (Gcd.mpz_gcdext (s.value x) (s.value n)).1 = G at *
  generalize (Gcd.mpz_gcdext (s.value x) (s.value n)).2.1 = C at *
  have hmx := h.mag_lt hx
  have hmn := h.mag_lt hn
  have hagT2 : T2.alloc s.nv = sz := by rw [hT2, tmpInit_alloc T1 sz (by rw [n1]; omega)]; exact a1
  have hfitG : sizeNat G.natAbs ≤ T2.alloc s.nv := by
    rw [hagT2]
    have : sizeNat G.natAbs ≤ (s.size x).natAbs := (DivZ.sizeNat_le_iff _ _).mpr (by rw [value_natAbs] at hgle; omega)
    omega
  obtain ⟨S3, e3, r3, u3⟩ := setInt_spec i2 (lt2 s.nv (by omega)) G hfitG
  rw [e3]; simp only []
  have n3 : S3.nv = s.nv + 2 := r3.2.1.trans n2
  have hfitC : sizeNat C.natAbs ≤ S3.alloc (s.nv + 1) := by
    rw [u3.alloc, a2]
    rcases hcb with hc1 | hc1
    · have : sizeNat C.natAbs ≤ 1 := (DivZ.sizeNat_le_iff _ _).mpr (by rw [pow_one]; have := B_pos; rw [B_eq] at *; omega)
      omega
    · have : sizeNat C.natAbs ≤ (s.size n).natAbs := (DivZ.sizeNat_le_iff _ _).mpr (by rw [value_natAbs] at hc1; omega)
      omega
  obtain ⟨S4, e4, r4, u4⟩ := setInt_spec r3.1 (v := s.nv + 1) (by rw [n3]; omega) C hfitC
  rw [e4]; simp only []
  have n4 : S4.nv = s.nv + 2 := r4.2.1.trans n3
  have vG : S4.value s.nv = G := (r4.2.2.2 s.nv (by rw [n3]; omega) (by omega)).trans r3.2.2.1
  have vC : S4.value (s.nv + 1) = C := r4.2.2.1
  have v4 : ∀ i, i < s.nv → S4.value i = s.value i := fun i hi =>
    (r4.2.2.2 i (by rw [n3]; omega) (by omega)).trans ((r3.2.2.2 i (lt2 i (by omega)) (by omega)).trans (vT2 i hi).1)
  obtain ⟨bg, hbg, hbgl, hbgL⟩ := r4.1.live s.nv (by rw [n4]; omega)
  have hbg1 : 1 ≤ bg.length := by rw [hbgl, u4.alloc, u3.alloc, hagT2]; omega
  rw [limbAt_of_blk hbg (by omega)]; simp only []
  have hone := var_is_one r4.1 (i := s.nv) (by rw [n4]; omega) hbg hbg1
  rw [vG] at hone
  by_cases hg1 : G = 1
  · rw [if_neg (fun hcnd => (hone.mp hcnd) hg1)]
    have hdec : decide (G = 1) = true := by simpa using hg1
    rw [hdec]
    have hst : (S4.size (s.nv + 1) < 0) ↔ C < 0 := by rw [r4.1.size_neg_iff (by rw [n4]; omega), vC]
    have hsn : (S4.size n < 0) ↔ s.value n < 0 := by rw [r4.1.size_neg_iff (by rw [n4]; omega), v4 n hn]
    have hfin : ∀ S5 Z, Res S4 S5 inv Z → Z = invertPick C (s.value n) →
        ∃ s', (Except.ok (true, S5.tmpDone.tmpDone) : R (Bool × St)) = .ok (true, s') ∧ Inv s' ∧ s'.nv = s.nv ∧
          (G ≠ 1 → ∀ i, i < s.nv → s'.value i = s.value i) ∧
          (G = 1 → s'.value inv = invertPick C (s.value n) ∧ ∀ i, i < s.nv → i ≠ inv → s'.value i = s.value i) := by
      intro S5 Z r5 hZ
      obtain ⟨i6, n6, v6⟩ := tmpDone2_spec r5.1 s.nv (r5.2.1.trans n4)
      refine ⟨_, rfl, i6, n6, fun hne => absurd hg1 hne, fun _ => ⟨?_, fun i hi' hir => ?_⟩⟩
      · rw [v6 inv hi, r5.2.2.1, hZ]
      · rw [v6 i hi', r5.2.2.2 i (by rw [n4]; omega) hir, v4 i hi']
    by_cases hC : C < 0
    · rw [if_pos (hst.mpr hC)]
      by_cases hN : s.value n < 0
      · rw [if_pos (hsn.mpr hN)]
        obtain ⟨S5, e5, r5⟩ := mpz_aors_ok r4.1 (w := inv) (u := s.nv + 1) (v := n) (by rw [n4]; omega) (by rw [n4]; omega)
          (by rw [n4]; omega) true
        have e5' : mpz_sub inv (s.nv + 1) n S4 = .ok S5 := e5
        rw [e5']; simp only []
        exact hfin S5 _ r5 (by simp only [if_true, vC, v4 n hn, invertPick, hC, hN])
      · rw [if_neg (fun hh => hN (hsn.mp hh))]
        obtain ⟨S5, e5, r5⟩ := mpz_aors_ok r4.1 (w := inv) (u := s.nv + 1) (v := n) (by rw [n4]; omega) (by rw [n4]; omega)
          (by rw [n4]; omega) false
        have e5' : mpz_add inv (s.nv + 1) n S4 = .ok S5 := e5
        rw [e5']; simp only []
        exact hfin S5 _ r5 (by simp only [Bool.false_eq_true, if_false, vC, v4 n hn, invertPick, hC, hN, if_true])
    · rw [if_neg (fun hh => hC (hst.mp hh))]
      obtain ⟨S5, e5, r5⟩ := mpz_set_ok r4.1 (w := inv) (u := s.nv + 1) (by rw [n4]; omega) (by rw [n4]; omega)
      rw [e5]; simp only []
      exact hfin S5 _ r5 (by simp only [vC, invertPick, hC, if_false])
  · rw [if_pos (hone.mpr hg1)]
    have hdec : decide (G = 1) = false := by simpa using hg1
    rw [hdec]
    obtain ⟨i6, n6, v6⟩ := tmpDone2_spec r4.1 s.nv n4
    exact ⟨_, rfl, i6, n6, fun _ i hi' => (v6 i hi').trans (v4 i hi'), fun he => absurd he hg1⟩

/-- **mpz_invert (inverse, x, n)** on the pointer model for EVERY assignment of ids (inverse = x, inverse = n, x = n, all
    equal): the return value and the stored inverse are those of the value-level model `Gcd.mpz_invert` (C07 `invert_spec`:
    non-zero iff gcd (x, n) = 1, and then 0 ≤ r < |n|, x r ≡ 1 mod n); when 0 is returned no variable changes its value. -/
theorem mpz_invert_ok (hc : Gcd.MpnGcdextContract) {s : St} (h : Inv s) {inv x n : Nat} (hi : inv < s.nv) (hx : x < s.nv)
    (hn : n < s.nv) :
    match Gcd.mpz_invert (s.value x) (s.value n) with
    | none => ∃ s', mpz_invert inv x n s = .ok (false, s') ∧ Inv s' ∧ s'.nv = s.nv ∧ ∀ i, i < s.nv → s'.value i = s.value i
    | some z => ∃ s', mpz_invert inv x n s = .ok (true, s') ∧ Res s s' inv z := by
  rw [Gcd.mpz_invert_eq]
  unfold mpz_invert
  simp only [bind, Except.bind, pure, Except.pure]
  by_cases hx0 : (s.size x).natAbs = 0
  · have hvx : s.value x = 0 := (h.size_eq_zero_iff hx).mp (by omega)
    rw [if_pos hx0, if_pos (Or.inl hvx)]
    exact ⟨s, rfl, h, rfl, fun _ _ => rfl⟩
  · rw [if_neg hx0]
    have hvx : s.value x ≠ 0 := fun e => hx0 (by rw [(h.size_eq_zero_iff hx).mpr e]; rfl)
    obtain ⟨bn, hbn, hbnl, hbnL⟩ := h.live n hn
    have hfn := h.fits n hn
    have key : (s.value n).natAbs = 1 ↔ ((s.size n).natAbs = 1 ∧ bn.getD 0 0 = 1) := by
      rw [value_natAbs]
      have hlimb : (s.size n).natAbs = 1 → s.mag n = bn.getD 0 0 := fun h1 => by
        unfold St.mag St.limbs; rw [hbn, h1]; simp only [Option.getD_some]
        cases bn with
        | nil => simp at hbnl; omega
        | cons a as => simp
      constructor
      · intro h1
        have hs : (s.size n).natAbs = 1 := by rw [h.size_natAbs hn, h1]; decide
        exact ⟨hs, by rw [← hlimb hs]; exact h1⟩
      · intro ⟨hs, hl⟩; rw [hlimb hs]; exact hl
    have main : (match (if (Gcd.mpz_gcdext (s.value x) (s.value n)).1 ≠ 1 then none
          else if (Gcd.mpz_gcdext (s.value x) (s.value n)).2.1 < 0 then
            (if s.value n < 0 then some ((Gcd.mpz_gcdext (s.value x) (s.value n)).2.1 - s.value n)
             else some ((Gcd.mpz_gcdext (s.value x) (s.value n)).2.1 + s.value n))
          else some (Gcd.mpz_gcdext (s.value x) (s.value n)).2.1 : Option Int) with
        | none => ∃ s', invertMain inv x n (s.size x).natAbs (s.size n).natAbs s = .ok (false, s') ∧ Inv s' ∧ s'.nv = s.nv ∧
            ∀ i, i < s.nv → s'.value i = s.value i
        | some z => ∃ s', invertMain inv x n (s.size x).natAbs (s.size n).natAbs s = .ok (true, s') ∧ Res s s' inv z) := by
      obtain ⟨s', e', i', n', hne, heq⟩ := invertMain_ok hc h hi hx hn hvx
      by_cases hg : (Gcd.mpz_gcdext (s.value x) (s.value n)).1 = 1
      · rw [if_neg (not_not.mpr hg)]
        have hpick : (if (Gcd.mpz_gcdext (s.value x) (s.value n)).2.1 < 0 then
            (if s.value n < 0 then some ((Gcd.mpz_gcdext (s.value x) (s.value n)).2.1 - s.value n)
             else some ((Gcd.mpz_gcdext (s.value x) (s.value n)).2.1 + s.value n))
          else some (Gcd.mpz_gcdext (s.value x) (s.value n)).2.1 : Option Int) =
            some (invertPick (Gcd.mpz_gcdext (s.value x) (s.value n)).2.1 (s.value n)) := by
          unfold invertPick; split_ifs <;> rfl
        rw [hpick]
        simp only []
        rw [decide_eq_true hg] at e'
        exact ⟨s', e', i', n', (heq hg).1, (heq hg).2⟩
      · rw [if_pos hg]
        simp only []
        rw [decide_eq_false hg] at e'
        exact ⟨s', e', i', n', hne hg⟩
    by_cases hn1 : (s.size n).natAbs = 1
    · rw [if_pos hn1, limbAt_of_blk hbn (by omega)]
      simp only []
      by_cases hl : bn.getD 0 0 = 1
      · rw [if_pos (show s.value x = 0 ∨ (s.value n).natAbs = 1 from Or.inr (key.mpr ⟨hn1, hl⟩)),
          if_pos (show (s.size n).natAbs = 1 ∧ bn.getD 0 0 = 1 from ⟨hn1, hl⟩)]
        exact ⟨s, rfl, h, rfl, fun _ _ => rfl⟩
      · rw [if_neg (show ¬ (s.value x = 0 ∨ (s.value n).natAbs = 1) from not_or.mpr ⟨hvx, fun hh => hl (key.mp hh).2⟩),
          if_neg (show ¬ ((s.size n).natAbs = 1 ∧ bn.getD 0 0 = 1) from fun hh => hl hh.2)]
        exact main
    · rw [if_neg hn1]
      simp only []
      rw [if_neg (show ¬ (s.value x = 0 ∨ (s.value n).natAbs = 1) from not_or.mpr ⟨hvx, fun hh => hn1 (key.mp hh).1⟩),
        if_neg (show ¬ ((s.size n).natAbs = 1 ∧ (0 : Nat) = 1) from fun hh => hn1 hh.1)]
      exact main

/- STATUS: every model of Mpir/Model/AliasPowm.lean has its theorem for every assignment of ids: `powm_ok` (all signs of the
   exponent, DIVIDE_BY_ZERO included), `powm_ui_ok` (every el), `aorsmul_ok` / `addmul_ok` / `submul_ok`, `mpz_sqrt_ok`,
   `mpz_lcm_ok`, `mpz_invert_ok`.  Hypotheses beyond `Inv` and the ids being variables:
     * powm / powm_ui: `1 ≤ ALLOC (r)` (the exponent-0 exit stores PTR (r)[0] without a realloc), `m ≠ 0`, and
       `|SIZ (m)| * 64 < 2^64` (as C08 `mpz_powm_spec`: needed by `Powm.powmMain_rp`, through which every limb of the result
       vector is shown to be < 2^64); powm_ui: `el < 2^64`;
     * mpz_invert: `Gcd.MpnGcdextContract` (the documented contract of mpn_gcdext, as C07 `mpz_gcdext_spec`) — used only to
       bound the sizes of the gcd and the cofactor, which must fit the MAX (xsize, nsize) + 1 limbs of the locals;
     * mpz_sqrt: `0 ≤ op`.
   Not modelled: that the callees of mpz_lcm never reallocate its TMP-space local `g` (they do not: lcm.c:74 sizes it for
   that; `mpz_gcd_ok` / `divexact_ok` do not export the pointer of their destination). -/

/-! ### examples: b = -(2^70+5), m = 2^130+12345 (3 limbs), ids 0..3 = (spare, b, e, m) -/

-- r = m in place: (-b)^13 mod m, the correction :272-277 reads m before r is written
example : lookP (powm 3 1 2 3 (ofInts [0, -(2^70+5), 13, 2^130+12345])) 4 =
    .ok [(0, 1, 0), (-(2^70+5), 2, 1), (13, 1, 2), ((-(2^70+5)) ^ 13 % (2^130+12345), 3, 3)] := by decide +kernel
-- r = b (the block of b is too small: reallocated at `ret:` after the last read through bp)
example : lookP (powm 1 1 2 3 (ofInts [0, -(2^70+5), 13, 2^130+12345])) 4 =
    .ok [(0, 1, 0), ((-(2^70+5)) ^ 13 % (2^130+12345), 3, 5), (13, 1, 2), (2^130+12345, 3, 3)] := by decide +kernel
-- r = e
example : lookP (powm 2 1 2 3 (ofInts [0, -(2^70+5), 13, 2^130+12345])) 4 =
    .ok [(0, 1, 0), (-(2^70+5), 2, 1), ((-(2^70+5)) ^ 13 % (2^130+12345), 3, 5), (2^130+12345, 3, 3)] := by decide +kernel
-- r = b = e = m
example : lookP (powm 1 1 1 1 (ofInts [0, 2^70+1])) 2 = .ok [(0, 1, 0), (0, 2, 1)] := by decide +kernel
-- negative exponent (new_b = 3^-1 mod m in TMP space), r = m
example : lookP (powm 3 1 2 3 (ofInts [0, 3, -5, 2^130+12345])) 4 =
    .ok [(0, 1, 0), (3, 1, 1), (-5, 1, 2), (817797951777070216718562842552068466225, 3, 3)] := by decide +kernel
example : (817797951777070216718562842552068466225 * 3 ^ 5 : Int) % (2^130+12345) = 1 := by decide +kernel
-- negative exponent, base not invertible: DIVIDE_BY_ZERO
example : lookP (powm 0 1 2 3 (ofInts [0, 6, -5, 2^70*3])) 4 = .error "div0" := by decide +kernel
-- es = 0 with r = m: mp[0] is read before PTR (r)[0] = 1
example : lookP (powm 3 1 2 3 (ofInts [0, 6, 0, 7])) 4 = .ok [(0, 1, 0), (6, 1, 1), (0, 1, 2), (1, 1, 3)] := by decide +kernel
example : lookP (powm 3 1 2 3 (ofInts [0, 6, 0, -1])) 4 = .ok [(0, 1, 0), (6, 1, 1), (0, 1, 2), (0, 1, 3)] := by decide +kernel
-- NEGATIVE, `readBeforeWrite := false`: the test reads the 1 just stored, SIZ (r) = 0 — result 0 instead of 1
example : lookP (powmV { readBeforeWrite := false } 3 1 2 3 (ofInts [0, 6, 0, 7])) 4 =
    .ok [(0, 1, 0), (6, 1, 1), (0, 1, 2), (0, 1, 3)] := by decide +kernel
-- NEGATIVE, `resultInTmp := false` with r = m: the correction subtracts from the clobbered modulus — result 0
example : lookP (powmV { resultInTmp := false } 3 1 2 3 (ofInts [0, -(2^70+5), 13, 2^130+12345])) 4 =
    .ok [(0, 1, 0), (-(2^70+5), 2, 1), (13, 1, 2), (0, 3, 3)] := by decide +kernel
-- mpz_powm_ui: el < 20 (r = m), el ≥ 20 (deflection to mpz_powm through a local mpz_t, r = m), el = 0 with r = m = 1
example : lookP (powm_ui 3 1 13 3 (ofInts [0, -(2^70+5), 13, 2^130+12345])) 4 =
    .ok [(0, 1, 0), (-(2^70+5), 2, 1), (13, 1, 2), ((-(2^70+5)) ^ 13 % (2^130+12345), 3, 3)] := by decide +kernel
example : lookP (powm_ui 3 1 25 3 (ofInts [0, -(2^70+5), 13, 2^130+12345])) 4 =
    .ok [(0, 1, 0), (-(2^70+5), 2, 1), (13, 1, 2), ((-(2^70+5)) ^ 25 % (2^130+12345), 3, 3)] := by decide +kernel
example : lookP (powm_ui 3 1 0 3 (ofInts [0, 5, 13, 1])) 4 = .ok [(0, 1, 0), (5, 1, 1), (13, 1, 2), (0, 1, 3)] := by decide +kernel
example : lookP (powm_uiV { readBeforeWrite := false } 3 1 0 3 (ofInts [0, 5, 13, 7])) 4 =
    .ok [(0, 1, 0), (5, 1, 1), (13, 1, 2), (0, 1, 3)] := by decide +kernel
-- mpz_addmul / mpz_submul: w = x (block too small: reallocated first, PTR (x) fetched afterwards), w = x = y, one-limb y
example : lookP (addmul 1 1 2 (ofInts [2^100, 2^70+1, -(2^65+7)])) 3 =
    .ok [(2^100, 2, 0), ((2^70+1) + (2^70+1) * -(2^65+7), 5, 3), (-(2^65+7), 2, 2)] := by decide +kernel
example : lookP (submul 1 1 1 (ofInts [2^100, 2^70+1, -(2^65+7)])) 3 =
    .ok [(2^100, 2, 0), ((2^70+1) - (2^70+1) * (2^70+1), 5, 3), (-(2^65+7), 2, 2)] := by decide +kernel
example : lookP (submul 1 1 2 (ofInts [2^100, 2^70+1, -7])) 3 =
    .ok [(2^100, 2, 0), ((2^70+1) - (2^70+1) * -7, 3, 3), (-7, 1, 2)] := by decide +kernel
example : lookP (addmul 0 1 2 (ofInts [2^100, 2^70+1, -(2^65+7)])) 3 =
    .ok [(2^100 + (2^70+1) * -(2^65+7), 5, 3), (2^70+1, 2, 1), (-(2^65+7), 2, 2)] := by decide +kernel
-- NEGATIVE, `reallocThenPtr := false`, w = x: PTR (x) fetched before MPZ_REALLOC (w) is stale
example : lookP (aorsmulV { reallocThenPtr := false } false 1 1 2 (ofInts [2^100, 2^70+1, -(2^65+7)])) 3 =
    .error "ub:read of a freed block" := by decide +kernel
-- NEGATIVE, `productInTmp := false`: mpn_mul (wp, PTR (x), …) with w = x
example : lookP (aorsmulV { productInTmp := false } false 1 1 2 (ofInts [2^100, 2^70+1, -(2^65+7)])) 3 =
    .error "ub:mpn_mul product overlaps a factor" := by decide +kernel

-- mpz_sqrt: root = op in place (copy of op to TMP space), root too small (new block), op = 0
example : lookP (mpz_sqrt 1 1 (ofInts [0, 2^200+12345])) 2 = .ok [(0, 1, 0), (2^100, 4, 1)] := by decide +kernel
example : lookP (mpz_sqrt 0 1 (ofInts [0, 2^200+12345])) 2 = .ok [(2^100, 2, 2), (2^200+12345, 4, 1)] := by decide +kernel
example : lookP (mpz_sqrt 1 1 (ofInts [0, -5])) 2 = .error "sqrtneg" := by decide +kernel
-- NEGATIVE, `copyOp := false`: mpn_sqrtrem (root_ptr, NULL, op_ptr, n) with root_ptr == op_ptr
example : lookP (mpz_sqrtV { copyOp := false } 1 1 (ofInts [0, 2^200+12345])) 2 =
    .error "ub:mpn_sqrtrem operands overlap" := by decide +kernel
-- mpz_lcm: general case (local g) with r = u, r = v, r = u = v; one-limb arm with r = v (the limb of v read after the
-- realloc of r) and the swapped arm
example : lookP (mpz_lcm 1 1 2 (ofInts [0, 2^70*6, -(2^65*15)])) 3 =
    .ok [(0, 1, 0), (2^70*30, 3, 5), (-(2^65*15), 2, 2)] := by decide +kernel
example : lookP (mpz_lcm 2 1 2 (ofInts [0, 2^70*6, -(2^65*15)])) 3 =
    .ok [(0, 1, 0), (2^70*6, 2, 1), (2^70*30, 3, 5)] := by decide +kernel
example : lookP (mpz_lcm 1 1 1 (ofInts [0, -(2^70*6), 7])) 3 = .ok [(0, 1, 0), (2^70*6, 3, 5), (7, 1, 2)] := by decide +kernel
example : lookP (mpz_lcm 2 1 2 (ofInts [0, 2^70*6, -15])) 3 =
    .ok [(0, 1, 0), (2^70*6, 2, 1), (2^70*30, 3, 3)] := by decide +kernel
example : lookP (mpz_lcm 1 2 1 (ofInts [0, 2^70*6, -15])) 3 =
    .ok [(0, 1, 0), (2^70*30, 3, 3), (-15, 1, 2)] := by decide +kernel
-- mpz_invert: inverse = x, inverse = n (negative modulus), not invertible (nothing changes), modulus 1
example : (mpz_invert 1 1 2 (ofInts [0, 2^70+3, -(2^130+12345)])).map (fun r => (r.1, r.2.view 3)) =
    .ok (true, [(0, 1, 0), (757916649724184222326937905833495657530, 4, 5), (-(2^130+12345), 3, 2)]) := by decide +kernel
example : (mpz_invert 2 1 2 (ofInts [0, 2^70+3, -(2^130+12345)])).map (fun r => (r.1, r.2.view 3)) =
    .ok (true, [(0, 1, 0), (2^70+3, 2, 1), (757916649724184222326937905833495657530, 4, 5)]) := by decide +kernel
example : (757916649724184222326937905833495657530 * (2^70+3) : Int) % (2^130+12345) = 1 := by decide +kernel
example : (mpz_invert 2 1 2 (ofInts [0, 6, 2^70*3])).map (fun r => (r.1, r.2.view 3)) =
    .ok (false, [(0, 1, 0), (6, 1, 1), (2^70*3, 2, 2)]) := by decide +kernel
example : (mpz_invert 1 1 2 (ofInts [0, 6, 1])).map (fun r => (r.1, r.2.view 3)) =
    .ok (false, [(0, 1, 0), (6, 1, 1), (1, 1, 2)]) := by decide +kernel

end Mpir.AliasMem
