/- Helper lemmas for C19: `gmp_rrandomb` (mpz/rrandomb.c, mpn/generic/rrandom.c) produces exactly `nbits` bits:
   the xor clears a bit that is set, the increment never carries out of the top. -/
import MpirProofs.Lemmas.Rand
set_option linter.unusedSimpArgs false
namespace Mpir.Rand
open Mpir

/-- clearing a set bit with xor is a subtraction. -/
theorem xor_two_pow_of_testBit {x k : Nat} (h : x.testBit k = true) : x ^^^ (1 <<< k) = x - 2 ^ k := by
  rw [Nat.one_shiftLeft]
  have hge := Nat.ge_two_pow_of_testBit h
  -- x = 2^(k+1) * hi + (2^k + lo)
  have hdm := Nat.div_add_mod x (2 ^ (k + 1))
  have hdm2 := Nat.div_add_mod (x % 2 ^ (k + 1)) (2 ^ k)
  have hbit : x % 2 ^ (k + 1) / 2 ^ k = 1 := by
    have : (x % 2 ^ (k + 1)).testBit k = true := by rw [Nat.testBit_mod_two_pow]; simp [h]
    rw [Nat.testBit_eq_decide_div_mod_eq] at this
    have h2 : x % 2 ^ (k + 1) / 2 ^ k < 2 := by
      apply Nat.div_lt_of_lt_mul; rw [← pow_succ]; exact Nat.mod_lt _ (by positivity)
    have h3 : x % 2 ^ (k + 1) / 2 ^ k % 2 = 1 := of_decide_eq_true this
    generalize x % 2 ^ (k + 1) / 2 ^ k = q at h2 h3
    omega
  rw [hbit, Nat.mul_one] at hdm2
  have hlo : x % 2 ^ (k + 1) % 2 ^ k < 2 ^ k := Nat.mod_lt _ (by positivity)
  generalize x / 2 ^ (k + 1) = hi at hdm
  generalize x % 2 ^ (k + 1) % 2 ^ k = lo at hdm2 hlo
  have hx : x = 2 ^ (k + 1) * hi + (2 ^ k + lo) := by omega
  have hsub : x - 2 ^ k = 2 ^ (k + 1) * hi + lo := by omega
  have hlo1 : lo < 2 ^ (k + 1) := by rw [pow_succ]; omega
  have hlo2 : 2 ^ k + lo < 2 ^ (k + 1) := by rw [pow_succ]; omega
  apply Nat.eq_of_testBit_eq
  intro j
  rw [Nat.testBit_xor, Nat.testBit_two_pow, hsub, Nat.testBit_two_pow_mul_add _ hlo1]
  conv_lhs => rw [hx, Nat.testBit_two_pow_mul_add _ hlo2]
  by_cases h1 : j < k + 1
  · simp only [h1, if_true]
    by_cases h2 : j = k
    · subst h2
      rw [Nat.testBit_two_pow_add_eq, Nat.testBit_lt_two_pow hlo]; simp
    · have : j < k := by omega
      rw [Nat.testBit_two_pow_add_gt this]
      have : ¬ k = j := by omega
      simp [this]
  · have : ¬ k = j := by omega
    simp [h1, this]

theorem pow_sub_one_mod {a b : Nat} (h : b ≤ a) : (2 ^ a - 1) % 2 ^ b = 2 ^ b - 1 := by
  obtain ⟨d, rfl⟩ := Nat.exists_eq_add_of_le h
  have hp : 0 < 2 ^ d := by positivity
  have hb : 0 < 2 ^ b := by positivity
  have e : 2 ^ (b + d) - 1 = (2 ^ b - 1) + 2 ^ b * (2 ^ d - 1) := by
    rw [pow_add]
    have : 2 ^ b * (2 ^ d - 1) = 2 ^ b * 2 ^ d - 2 ^ b := by rw [Nat.mul_sub, Nat.mul_one]
    have : 2 ^ b ≤ 2 ^ b * 2 ^ d := Nat.le_mul_of_pos_right _ hp
    omega
  rw [e, Nat.add_mul_mod_self_left]
  exact Nat.mod_eq_of_lt (by omega)

/-- the loop of `gmp_rrandomb`: invariant `bi ≤ N`, `x < 2^N`, the low `bi` bits are ones, and the zeros
    introduced so far stay below the top bit. -/
theorem rrLoop_spec (N cap : Nat) (hN : 1 ≤ N) : ∀ (bi x : Nat) (g : Gen), bi ≤ N → x < 2 ^ N →
    x % 2 ^ bi = 2 ^ bi - 1 → 2 ^ (N - 1) + 2 ^ (min bi (N - 1)) ≤ x + 1 →
    2 ^ (N - 1) ≤ (rrLoop cap x bi g).1 ∧ (rrLoop cap x bi g).1 < 2 ^ N := by
  intro bi
  induction bi using Nat.strong_induction_on with
  | _ bi ih =>
    intro x g hbi hx hmod hL
    have hpos : ∀ k : Nat, 0 < 2 ^ k := fun k => by positivity
    have hret : 2 ^ (N - 1) ≤ x := by have := hpos (min bi (N - 1)); omega
    rw [rrLoop]
    simp only
    split
    · exact ⟨hret, hx⟩
    · next h1 =>
      have c1 : 0 < 1 + (g.get 32).1 % 2 ^ 64 % cap := by omega
      have hb1 := stepDown_lt c1 h1
      generalize stepDown bi (1 + (g.get 32).1 % 2 ^ 64 % cap) = bi1 at h1 hb1 ⊢
      -- bit bi1 of x is set
      have hbit : x.testBit bi1 = true := by
        have : (x % 2 ^ bi).testBit bi1 = true := by
          rw [hmod, Nat.testBit_two_pow_sub_one]; simp [hb1]
        rw [Nat.testBit_mod_two_pow] at this
        simpa [hb1] using this
      rw [xor_two_pow_of_testBit hbit]
      have hge1 := Nat.ge_two_pow_of_testBit hbit
      have c2 : 0 < 1 + ((g.get 32).2.get 32).1 % 2 ^ 64 % cap := by omega
      rw [Nat.one_shiftLeft]
      generalize hbi2 : stepDown bi1 (1 + ((g.get 32).2.get 32).1 % 2 ^ 64 % cap) = bi2
      have hb2 : bi2 < bi1 := by
        by_cases hz : bi2 = 0
        · omega
        · rw [← hbi2] at hz ⊢; exact stepDown_lt c2 hz
      -- facts about the powers involved
      have p21 : 2 ^ bi2 < 2 ^ bi1 := Nat.pow_lt_pow_right (by decide) hb2
      have p1m : 2 ^ bi1 ≤ 2 ^ (min bi (N - 1)) := Nat.pow_le_pow_right (by decide) (by omega)
      have hmin2 : min bi2 (N - 1) = bi2 := by omega
      have x2lt : x - 2 ^ bi1 + 2 ^ bi2 < 2 ^ N := by omega
      have x2L : 2 ^ (N - 1) + 2 ^ (min bi2 (N - 1)) ≤ x - 2 ^ bi1 + 2 ^ bi2 + 1 := by rw [hmin2]; omega
      have x2mod : (x - 2 ^ bi1 + 2 ^ bi2) % 2 ^ bi2 = 2 ^ bi2 - 1 := by
        have hxm : x % 2 ^ bi2 = 2 ^ bi2 - 1 := by
          have := Nat.mod_mod_of_dvd x (Nat.pow_dvd_pow 2 (show bi2 ≤ bi by omega))
          rw [hmod, pow_sub_one_mod (by omega)] at this
          exact this.symm
        obtain ⟨d, hd⟩ := Nat.exists_eq_add_of_lt hb2
        have e1 : 2 ^ bi1 = 2 ^ bi2 * 2 ^ (d + 1) := by rw [← pow_add]; congr 1
        have e2 : x - 2 ^ bi1 + 2 ^ bi2 + 2 ^ bi2 * 2 ^ (d + 1) = x + 2 ^ bi2 := by omega
        have e3 : (x - 2 ^ bi1 + 2 ^ bi2 + 2 ^ bi2 * 2 ^ (d + 1)) % 2 ^ bi2 = (x - 2 ^ bi1 + 2 ^ bi2) % 2 ^ bi2 :=
          Nat.add_mul_mod_self_left _ _ _
        rw [← e3, e2, Nat.add_mod_right]; exact hxm
      split
      · next h2 =>
        have : 0 < 2 ^ (min bi2 (N - 1)) := hpos _
        exact ⟨by omega, x2lt⟩
      · next h2 =>
        exact ih bi2 (by omega) _ _ (by omega) x2lt x2mod x2L

/-- `gmp_rrandomb (rp, rstate, nbits)`, `nbits ≥ 1`: exactly `nbits` bits (top bit set). -/
theorem gmpRrandomb_spec (g : Gen) (N : Nat) (hN : 1 ≤ N) :
    2 ^ (N - 1) ≤ (gmpRrandomb g N).1 ∧ (gmpRrandomb g N).1 < 2 ^ N := by
  unfold gmpRrandomb
  have hp : 0 < 2 ^ N := by positivity
  apply rrLoop_spec N _ hN N (2 ^ N - 1) _ (le_refl N) (by omega) (Nat.mod_eq_of_lt (by omega))
  have : min N (N - 1) = N - 1 := by omega
  rw [this]
  have : 2 ^ N = 2 ^ (N - 1) * 2 := by rw [← pow_succ]; congr 1; omega
  omega

end Mpir.Rand
