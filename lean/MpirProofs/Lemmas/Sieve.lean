/- Helper lemmas for the prime sieve model (Mpir/Model/Sieve.lean), property C16 part sieve:
   the bit ↔ number maps, the bit-array primitives, the stride loops. -/
import MpirProofs.Lemmas.Numth
import Mpir.Model.Sieve
namespace Mpir.Sieve
open Mpir Mpir.Numth

/-! ## bit ↔ number maps -/

theorem or_one_eq (x : ℕ) : x ||| 1 = x + 1 - x % 2 := by
  have h1 := Nat.or_div_two (a := x) (b := 1)
  have h2 : (x ||| 1) % 2 = 1 := by rw [Nat.or_mod_two_eq_one]; simp
  simp at h1
  omega

theorem id_to_n_eq (i : ℕ) : id_to_n i = 3 * i + 1 + i % 2 := by
  unfold id_to_n; rw [Nat.and_one_is_mod]; omega

theorem bit_to_n_eq (b : ℕ) : bit_to_n b = 3 * b + 5 - b % 2 := by
  unfold bit_to_n; rw [or_one_eq]; omega

theorem bit_to_n_eq_id (b : ℕ) : bit_to_n b = id_to_n (b + 1) := by
  rw [bit_to_n_eq, id_to_n_eq]; omega

/-- `n_to_bit` without the limb wrap-around -/
def nb (n : ℕ) : ℕ := ((n - 5) ||| 1) / 3

theorem nb_eq (n : ℕ) : nb n = (n - 5 + 1 - (n - 5) % 2) / 3 := by
  unfold nb; rw [or_one_eq]

theorem n_to_bit_eq_nb (n : ℕ) (h5 : 5 ≤ n) (hn : n < B) : n_to_bit n = nb n := by
  unfold n_to_bit nb
  have : (n + B - 5) % B = n - 5 := by
    rw [show n + B - 5 = (n - 5) + B by omega, Nat.add_mod_right, Nat.mod_eq_of_lt (by omega)]
  rw [this]

theorem bit_to_n_mod6 (b : ℕ) : bit_to_n b % 6 = 1 ∨ bit_to_n b % 6 = 5 := by
  rw [bit_to_n_eq]; omega

theorem bit_to_n_ge (b : ℕ) : 5 ≤ bit_to_n b := by rw [bit_to_n_eq]; omega

theorem bit_to_n_lt {a b : ℕ} (h : a < b) : bit_to_n a < bit_to_n b := by
  rw [bit_to_n_eq, bit_to_n_eq]; omega

theorem bit_to_n_le {a b : ℕ} (h : a ≤ b) : bit_to_n a ≤ bit_to_n b := by
  rw [bit_to_n_eq, bit_to_n_eq]; omega

theorem bit_to_n_inj {a b : ℕ} (h : bit_to_n a = bit_to_n b) : a = b := by
  rw [bit_to_n_eq, bit_to_n_eq] at h; omega

theorem nb_bit_to_n (b : ℕ) : nb (bit_to_n b) = b := by
  rw [nb_eq, bit_to_n_eq]; omega

theorem bit_to_n_nb (m : ℕ) (h5 : 5 ≤ m) (h6 : m % 6 = 1 ∨ m % 6 = 5) : bit_to_n (nb m) = m := by
  rw [bit_to_n_eq, nb_eq]; omega

/-- bit b belongs to the sieve of n exactly when its number is ≤ n -/
theorem le_nb_iff (b n : ℕ) (h5 : 5 ≤ n) : b ≤ nb n ↔ bit_to_n b ≤ n := by
  rw [bit_to_n_eq, nb_eq]; omega

theorem nb_mono {m n : ℕ} (h : m ≤ n) : nb m ≤ nb n := by
  rw [nb_eq, nb_eq]; omega

/-- primes ≥ 5 are ±1 mod 6 -/
theorem prime_mod6 {q : ℕ} (hq : q.Prime) (h5 : 5 ≤ q) : q % 6 = 1 ∨ q % 6 = 5 := by
  have h2 : ¬ 2 ∣ q := fun h => by
    have := (Nat.prime_dvd_prime_iff_eq Nat.prime_two hq).1 h; omega
  have h3 : ¬ 3 ∣ q := fun h => by
    have := (Nat.prime_dvd_prime_iff_eq Nat.prime_three hq).1 h; omega
  omega

/-- primesieve.c:142-143: `i*(step+1)-1+(-(i&1)&(i+1))` is the bit of id_to_n(i)² -/
theorem bit_to_n_sqIndex (i : ℕ) (hi : 1 ≤ i) :
    bit_to_n (sqIndex i (id_to_n i)) = id_to_n i * id_to_n i := by
  unfold sqIndex
  rw [Nat.and_one_is_mod, bit_to_n_eq, id_to_n_eq]
  rcases Nat.even_or_odd' i with ⟨j, rfl | rfl⟩
  · have e1 : (2 * j) % 2 = 0 := by omega
    simp only [e1]
    have e2 : 2 * j * (3 * (2 * j) + 1 + 0 + 1) = 12 * (j * j) + 4 * j := by ring
    have e3 : (3 * (2 * j) + 1 + 0) * (3 * (2 * j) + 1 + 0) = 36 * (j * j) + 12 * j + 1 := by ring
    rw [e2, e3]
    generalize j * j = t
    rw [if_neg (by omega)]
    omega
  · have e1 : (2 * j + 1) % 2 = 1 := by omega
    simp only [e1]
    have e2 : (2 * j + 1) * (3 * (2 * j + 1) + 1 + 1 + 1) = 12 * (j * j) + 18 * j + 6 := by ring
    have e3 : (3 * (2 * j + 1) + 1 + 1) * (3 * (2 * j + 1) + 1 + 1) = 36 * (j * j) + 60 * j + 25 := by ring
    rw [e2, e3]
    generalize j * j = t
    rw [if_pos trivial]
    omega

/-- primesieve.c:158-159: `i*(i*3+6)+(i&1)` is the bit of id_to_n(i)·id_to_n(i+1) -/
theorem bit_to_n_nextIndex (i : ℕ) :
    bit_to_n (nextIndex i) = id_to_n i * id_to_n (i + 1) := by
  unfold nextIndex
  rw [Nat.and_one_is_mod, bit_to_n_eq, id_to_n_eq, id_to_n_eq]
  rcases Nat.even_or_odd' i with ⟨j, rfl | rfl⟩
  · have e1 : (2 * j) % 2 = 0 := by omega
    have e1' : (2 * j + 1) % 2 = 1 := by omega
    simp only [e1, e1']
    have e2 : 2 * j * (2 * j * 3 + 6) = 12 * (j * j) + 12 * j := by ring
    have e3 : (3 * (2 * j) + 1 + 0) * (3 * (2 * j + 1) + 1 + 1) = 36 * (j * j) + 36 * j + 5 := by ring
    rw [e2, e3]
    generalize j * j = t
    omega
  · have e1 : (2 * j + 1) % 2 = 1 := by omega
    have e1' : (2 * j + 1 + 1) % 2 = 0 := by omega
    simp only [e1, e1']
    have e2 : (2 * j + 1) * ((2 * j + 1) * 3 + 6) = 12 * (j * j) + 24 * j + 9 := by ring
    have e3 : (3 * (2 * j + 1) + 1 + 1) * (3 * (2 * j + 1 + 1) + 1 + 0) = 36 * (j * j) + 72 * j + 35 := by ring
    rw [e2, e3]
    generalize j * j = t
    omega

/-- a stride of 2p bits is a stride of 6p in numbers -/
theorem bit_to_n_stride (b k p : ℕ) : bit_to_n (b + k * (2 * p)) = bit_to_n b + 6 * p * k := by
  rw [bit_to_n_eq, bit_to_n_eq]
  have e : k * (2 * p) = 2 * (p * k) := by ring
  have e' : 6 * p * k = 6 * (p * k) := by ring
  rw [e, e']
  generalize p * k = t
  omega

/-- the two strides of a prime p cover exactly the multiples p·c, c ≥ p, coprime to 6 -/
theorem stride_union (i : ℕ) (hi : 1 ≤ i) (m : ℕ) (hm : m % 6 = 1 ∨ m % 6 = 5) :
    (id_to_n i ∣ m ∧ id_to_n i * id_to_n i ≤ m) ↔
      (∃ k, m = id_to_n i * id_to_n i + 6 * id_to_n i * k) ∨
      (∃ k, m = id_to_n i * id_to_n (i + 1) + 6 * id_to_n i * k) := by
  have hp6 : id_to_n i % 6 = 1 ∨ id_to_n i % 6 = 5 := by rw [id_to_n_eq]; omega
  have hp5 : 5 ≤ id_to_n i := by rw [id_to_n_eq]; omega
  have hnext : id_to_n i < id_to_n (i + 1) ∧ id_to_n (i + 1) ≤ id_to_n i + 4 ∧
      (id_to_n (i + 1) + id_to_n i) % 6 = 0 := by
    rw [id_to_n_eq, id_to_n_eq]
    rcases Nat.even_or_odd' i with ⟨j, rfl | rfl⟩ <;> omega
  generalize id_to_n i = p at *
  generalize id_to_n (i + 1) = p' at *
  constructor
  · rintro ⟨⟨c, rfl⟩, hle⟩
    have hcp : p ≤ c := Nat.le_of_mul_le_mul_left hle (by omega)
    have hc6 : c % 6 = 1 ∨ c % 6 = 5 := by
      have h := Nat.mul_mod p c 6
      rcases hp6 with h1 | h1 <;> rw [h1] at h <;> omega
    by_cases hcong : c % 6 = p % 6
    · left
      refine ⟨(c - p) / 6, ?_⟩
      have : c = p + 6 * ((c - p) / 6) := by omega
      calc p * c = p * (p + 6 * ((c - p) / 6)) := by rw [← this]
        _ = _ := by ring
    · right
      have hge : p' ≤ c := by omega
      refine ⟨(c - p') / 6, ?_⟩
      have : c = p' + 6 * ((c - p') / 6) := by omega
      calc p * c = p * (p' + 6 * ((c - p') / 6)) := by rw [← this]
        _ = _ := by ring
  · rintro (⟨k, rfl⟩ | ⟨k, rfl⟩)
    · exact ⟨⟨p + 6 * k, by ring⟩, by nlinarith⟩
    · refine ⟨⟨p' + 6 * k, by ring⟩, ?_⟩
      have : p * p ≤ p * p' := Nat.mul_le_mul_left p (by omega)
      nlinarith

/-! ## bit-array primitives -/

theorem rotl_two_pow : ∀ k < 64, ∀ r < 64, rotl (2 ^ k) r = 2 ^ ((k + r) % 64) := by
  decide +kernel

theorem two_pow_and_one (k : ℕ) : 2 ^ k &&& 1 = if k = 0 then 1 else 0 := by
  rw [Nat.and_one_is_mod]
  rcases k with _ | k
  · simp
  · simp [Nat.pow_succ]

theorem size_orAt (a : Array ℕ) (i m : ℕ) : (orAt a i m).size = a.size := by
  unfold orAt; exact Array.size_modify

theorem getD_orAt (a : Array ℕ) (i m j : ℕ) :
    (orAt a i m).getD j 0 = if i = j ∧ j < a.size then a.getD j 0 ||| m else a.getD j 0 := by
  unfold orAt
  simp only [Array.getD_eq_getD_getElem?, Array.getElem?_modify]
  by_cases h : i = j
  · subst h
    by_cases h2 : i < a.size
    · simp [h2]
    · simp [h2]
  · simp [h]

/-- `bit_array[l/64] |= 1 << (l%64)` sets bit l and nothing else -/
theorem sieveBit_orAt (a : Array ℕ) (l b : ℕ) (hl : l / 64 < a.size) :
    sieveBit (orAt a (l / 64) (2 ^ (l % 64))) b = (sieveBit a b || decide (b = l)) := by
  unfold sieveBit
  rw [getD_orAt]
  by_cases h : l / 64 = b / 64
  · have hb : b / 64 < a.size := by omega
    simp only [h, hb, and_self, if_true, Nat.testBit_or, Nat.testBit_two_pow]
    congr 1
    have : (l % 64 = b % 64) ↔ (b = l) := by omega
    simp only [this]
  · have : ¬ (b = l) := fun e => h (by rw [e])
    simp [h, this]

theorem clearAt_eq (a : Array ℕ) (j : ℕ) : clearAt a (j / 64) (2 ^ (j % 64)) = !sieveBit a j := by
  unfold clearAt sieveBit
  rw [Nat.and_two_pow]
  cases h : (a.getD (j / 64) 0).testBit (j % 64)
  · simp
  · simp

/-- the limbs stay limbs when a one-bit mask is or-ed in -/
theorem limbs_orAt (a : Array ℕ) (i m : ℕ) (hm : m < B) (h : ∀ j, a.getD j 0 < B) :
    ∀ j, (orAt a i m).getD j 0 < B := by
  intro j
  rw [getD_orAt]
  split
  · exact Nat.or_lt_two_pow (h j) hm
  · exact h j

/-! ## the stride loop -/

/-- `for ( ; lindex <= bits; lindex += step)` marks exactly lindex + k·step ≤ bits -/
theorem markFor_spec (bits step : ℕ) :
    ∀ fuel (a : Array ℕ) lindex, bits < lindex + fuel * step → bits / 64 < a.size →
      (∀ j, a.getD j 0 < B) →
      (markFor bits step (step % 64) fuel a lindex (2 ^ (lindex % 64))).size = a.size ∧
      (∀ j, (markFor bits step (step % 64) fuel a lindex (2 ^ (lindex % 64))).getD j 0 < B) ∧
      ∀ b, sieveBit (markFor bits step (step % 64) fuel a lindex (2 ^ (lindex % 64))) b = true ↔
        (sieveBit a b = true ∨ (b ≤ bits ∧ ∃ k, b = lindex + k * step)) := by
  intro fuel
  induction fuel with
  | zero =>
    intro a lindex hf _ hl
    simp only [markFor]
    refine ⟨trivial, hl, fun b => ?_⟩
    constructor
    · exact Or.inl
    · rintro (h | ⟨hb, k, rfl⟩)
      · exact h
      · exfalso; have : 0 ≤ k * step := Nat.zero_le _; omega
  | succ f ih =>
    intro a lindex hf hsz hl
    simp only [markFor]
    by_cases hle : lindex ≤ bits
    · simp only [hle, if_true]
      have hrot : rotl (2 ^ (lindex % 64)) (step % 64) = 2 ^ ((lindex + step) % 64) := by
        rw [rotl_two_pow _ (Nat.mod_lt _ (by norm_num)) _ (Nat.mod_lt _ (by norm_num))]
        congr 1; omega
      rw [hrot]
      have hidx : lindex / 64 < a.size := by
        have := Nat.div_le_div_right (c := 64) hle; omega
      have hf' : bits < lindex + step + f * step := by
        have : (f + 1) * step = f * step + step := by ring
        omega
      have hmask : 2 ^ (lindex % 64) < B := by
        rw [B_eq]; exact Nat.pow_lt_pow_right (by norm_num) (Nat.mod_lt _ (by norm_num))
      obtain ⟨h1, h2, h3⟩ := ih (orAt a (lindex / 64) (2 ^ (lindex % 64))) (lindex + step) hf'
        (by rw [size_orAt]; exact hsz) (limbs_orAt a _ _ hmask hl)
      refine ⟨by rw [h1, size_orAt], h2, fun b => ?_⟩
      rw [h3, sieveBit_orAt a lindex b hidx]
      simp only [Bool.or_eq_true, decide_eq_true_eq]
      constructor
      · rintro ((h | rfl) | ⟨hb, k, rfl⟩)
        · exact Or.inl h
        · exact Or.inr ⟨hle, 0, by simp⟩
        · exact Or.inr ⟨hb, k + 1, by ring⟩
      · rintro (h | ⟨hb, k, rfl⟩)
        · exact Or.inl (Or.inl h)
        · rcases k with _ | k
          · exact Or.inl (Or.inr (by simp))
          · exact Or.inr ⟨hb, k, by ring⟩
    · rw [if_neg hle]
      refine ⟨rfl, hl, fun b => ?_⟩
      constructor
      · exact Or.inl
      · rintro (h | ⟨hb, k, rfl⟩)
        · exact h
        · exfalso; have : 0 ≤ k * step := Nat.zero_le _; omega

end Mpir.Sieve
