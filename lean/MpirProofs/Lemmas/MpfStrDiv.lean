/- The division branch of mpf_set_str's conversion (convDiv): the quotient has exactly prec+1 limbs (plus
   possibly a leading 1), and its value is within the stated factors of mantissa / base^e. -/
import MpirProofs.Lemmas.MpfStrConv
import Mathlib.Data.Nat.Cast.Field
namespace Mpir.MpfStr
open Mpir Mpir.Mpf

/-- sizes and bounds in `convDiv` after padding the dividend and normalising the divisor -/
theorem divCore (P m r mn rn pad cnt r2 m2 mn2 qxn Q : ℕ)
    (hmn : mn = limbLen m) (hrn : rn = limbLen r) (hpad : pad = rn - mn)
    (hcnt : cnt = 64 * rn - 1 - r.log2) (hr2 : r2 = r * 2 ^ cnt) (hm2 : m2 = m * B ^ pad * 2 ^ cnt)
    (hmn2 : mn2 = limbLen m2) (hqxn : qxn = P - (mn2 - rn)) (hQ : Q = m2 * B ^ qxn / r2)
    (hm : m ≠ 0) (hr : r ≠ 0) (h1 : mn ≤ P) (h2 : rn ≤ P) :
    rn ≤ mn2 ∧ (mn2 - rn) + qxn = P ∧ B ^ (P - 1) ≤ Q ∧ Q < 2 * B ^ P ∧ 0 < r2 ∧
    Q * r2 ≤ m2 * B ^ qxn ∧ m2 * B ^ qxn < (Q + 1) * r2 := by
  obtain ⟨ma, mb⟩ := limbLen_spec hm
  obtain ⟨ra, rb⟩ := limbLen_spec hr
  have hmn1 := limbLen_pos hm
  have hrn1 := limbLen_pos hr
  rw [← hmn] at ma mb hmn1
  rw [← hrn] at ra rb hrn1
  -- the shift count
  have hl1 : r.log2 < 64 * rn := by
    rw [Nat.log2_lt hr, ← B_pow']; exact rb
  have hl2 : 64 * (rn - 1) ≤ r.log2 := by
    rw [Nat.le_log2 hr, ← B_pow']; exact ra
  have hc63 : cnt ≤ 63 := by omega
  have hlo : 2 ^ r.log2 ≤ r := Nat.log2_self_le hr
  have hhi : r < 2 ^ (r.log2 + 1) := Nat.lt_log2_self
  have hr2lo : 2 ^ (64 * rn - 1) ≤ r2 := by
    rw [hr2]
    calc 2 ^ (64 * rn - 1) = 2 ^ r.log2 * 2 ^ cnt := by rw [← pow_add]; congr 1; omega
      _ ≤ r * 2 ^ cnt := Nat.mul_le_mul_right _ hlo
  have hr2hi : r2 < B ^ rn := by
    rw [hr2, B_pow']
    calc r * 2 ^ cnt < 2 ^ (r.log2 + 1) * 2 ^ cnt := Nat.mul_lt_mul_of_pos_right hhi (Nat.two_pow_pos _)
      _ = 2 ^ (64 * rn) := by rw [← pow_add]; congr 1; omega
  have hr2pos : 0 < r2 := lt_of_lt_of_le (Nat.two_pow_pos _) hr2lo
  have hr2half : B ^ rn ≤ 2 * r2 := by
    rw [B_pow']
    calc 2 ^ (64 * rn) = 2 * 2 ^ (64 * rn - 1) := by rw [← pow_succ']; congr 1; omega
      _ ≤ 2 * r2 := Nat.mul_le_mul_left _ hr2lo
  -- the padded, shifted dividend
  have hm1 : m * B ^ pad ≠ 0 := Nat.mul_ne_zero hm (Bpow_pos pad).ne'
  have hl1' : limbLen (m * B ^ pad) = mn + pad := by rw [limbLen_mul_Bpow hm, ← hmn]
  obtain ⟨m1a, m1b⟩ := limbLen_spec hm1
  rw [hl1'] at m1a m1b
  have hm2ne : m2 ≠ 0 := by rw [hm2]; exact Nat.mul_ne_zero hm1 (Nat.two_pow_pos _).ne'
  have hm2lo : m * B ^ pad ≤ m2 := by rw [hm2]; exact Nat.le_mul_of_pos_right _ (Nat.two_pow_pos _)
  have hm2hi : m2 < B ^ (mn + pad + 1) := by
    rw [hm2, pow_succ]
    have : 2 ^ cnt < B := by
      rw [show B = 2 ^ 64 from rfl]; exact Nat.pow_lt_pow_right (by norm_num) (by omega)
    exact Nat.mul_lt_mul'' m1b this
  obtain ⟨m2a, m2b⟩ := limbLen_spec hm2ne
  rw [← hmn2] at m2a m2b
  have hmn2hi : mn2 ≤ mn + pad + 1 := by rw [hmn2]; exact limbLen_le_of_lt hm2hi
  have hmn2lo : mn + pad ≤ mn2 := by
    by_contra hc
    have : B ^ mn2 ≤ B ^ (mn + pad - 1) := Nat.pow_le_pow_right B_pos (by omega)
    omega
  have hge : rn ≤ mn2 := by omega
  have hsum : (mn2 - rn) + qxn = P := by omega
  have hBq := Bpow_pos qxn
  -- quotient bounds
  have hdiv1 : Q * r2 ≤ m2 * B ^ qxn := by rw [hQ]; exact Nat.div_mul_le_self _ _
  have hdiv2 : m2 * B ^ qxn < (Q + 1) * r2 := by
    rw [hQ]
    have h3 := Nat.div_add_mod (m2 * B ^ qxn) r2
    have h4 := Nat.mod_lt (m2 * B ^ qxn) hr2pos
    nlinarith
  refine ⟨hge, hsum, ?_, ?_, hr2pos, hdiv1, hdiv2⟩
  · -- B^(P-1) r2 ≤ B^(P-1+rn) = B^(mn2-1+qxn) ≤ m2 B^qxn
    rw [hQ, Nat.le_div_iff_mul_le hr2pos]
    calc B ^ (P - 1) * r2 ≤ B ^ (P - 1) * B ^ rn := Nat.mul_le_mul_left _ hr2hi.le
      _ = B ^ (mn2 - 1) * B ^ qxn := by rw [← pow_add, ← pow_add]; congr 1; omega
      _ ≤ m2 * B ^ qxn := Nat.mul_le_mul_right _ m2a
  · -- m2 B^qxn < B^(mn2+qxn) = B^P B^rn ≤ 2 B^P r2
    rw [hQ, Nat.div_lt_iff_lt_mul hr2pos]
    calc m2 * B ^ qxn < B ^ mn2 * B ^ qxn := Nat.mul_lt_mul_of_pos_right m2b hBq
      _ = B ^ P * B ^ rn := by rw [← pow_add, ← pow_add]; congr 1; omega
      _ ≤ B ^ P * (2 * r2) := Nat.mul_le_mul_left _ hr2half
      _ = 2 * B ^ P * r2 := by ring

/-- flooring to a multiple of `d` with at least `P` limbs in the quotient costs one factor -/
theorem appr_floor (P : ℕ) (q : ℕ) (d X : ℚ) (hd : 0 < d) (hq : B ^ (P - 1) ≤ q)
    (h1 : (q : ℚ) * d ≤ X) (h2 : X < ((q : ℚ) + 1) * d) : Appr (epsP P) ((q : ℚ) * d) X 1 := by
  have hBq : (0 : ℚ) < (B : ℚ) ^ (P - 1) := pow_pos Bq_pos _
  have hq' : (B : ℚ) ^ (P - 1) ≤ (q : ℚ) := by exact_mod_cast hq
  refine ⟨?_, h1⟩
  have key : d ≤ X * epsP P := by
    unfold epsP
    rw [mul_one_div, le_div_iff₀ hBq]
    calc d * (B : ℚ) ^ (P - 1) ≤ d * (q : ℚ) := mul_le_mul_of_nonneg_left hq' hd.le
      _ = (q : ℚ) * d := by ring
      _ ≤ X := h1
  rw [pow_one]
  nlinarith

theorem convDiv_spec (prec : ℕ) (neg : Bool) (M b e : ℕ) (hM : M ≠ 0) (hb : 1 ≤ b) (he : 1 ≤ e) :
    WF (convDiv prec neg M b e) ∧
    ∃ R : ℚ, toQ (convDiv prec neg M b e) = sgn neg * R ∧
      (M : ℚ) / (b : ℚ) ^ e * (1 - epsP (prec + 1)) ^ 3 ≤ R ∧
      R * (1 - epsP (prec + 1)) ^ e ≤ (M : ℚ) / (b : ℚ) ^ e ∧
      (1 ≤ prec → FitsN M (64 * (prec - 1)) → FitsN (b ^ e) (64 * (prec - 1)) →
        Fits ((M : ℚ) / (b : ℚ) ^ e) (64 * (prec - 1)) → R = (M : ℚ) / (b : ℚ) ^ e) := by
  have hP : 1 ≤ prec + 1 := by omega
  have h0 := epsP_nonneg (prec + 1)
  have h1 := epsP_le_one (prec + 1)
  obtain ⟨_, _, m3, m4, _, _⟩ := keepTop_spec (prec + 1) hP hM
  have am : Appr (epsP (prec + 1)) (((keepTop (prec + 1) M).1 : ℚ) * (B : ℚ) ^ (keepTop (prec + 1) M).2) (M : ℚ) 1 :=
    appr_keepTop (prec + 1) hP hM
  obtain ⟨r1, r2', ar⟩ := powHigh_appr b (prec + 1) e hb hP he
  obtain ⟨c1, c2, c3, c4, c5, c6, c7⟩ := divCore (prec + 1) (keepTop (prec + 1) M).1 (powHigh b e (prec + 1)).1
    _ _ _ _ _ _ _ _ _ rfl rfl rfl rfl rfl rfl rfl rfl rfl m4 r1 (by rw [m3]; omega) r2'
  unfold convDiv
  simp only []
  set km := keepTop (prec + 1) M
  set pw := powHigh b e (prec + 1)
  set mn := limbLen km.1
  set rn := limbLen pw.1
  set pad := rn - mn
  set cnt := 64 * rn - 1 - pw.1.log2
  set r2 := pw.1 * 2 ^ cnt
  set m2 := km.1 * B ^ pad * 2 ^ cnt
  set mn2 := limbLen m2
  set qxn := prec + 1 - (mn2 - rn)
  set Q := m2 * B ^ qxn / r2
  set qlimb := Q / B ^ (prec + 1)
  have hBP := Bpow_pos (prec + 1)
  -- the kept quotient limbs
  set Q2 := if qlimb ≠ 0 then Q / B else Q with hQ2
  have hBsplit : B ^ (prec + 1) = B ^ prec * B := by rw [pow_succ]
  have hpm : prec + 1 - 1 = prec := by omega
  rw [hpm] at c3
  have hql : qlimb ≤ 1 := by
    have : Q / B ^ (prec + 1) < 2 := by rw [Nat.div_lt_iff_lt_mul hBP]; exact c4
    exact Nat.le_of_lt_succ this
  have hQ2b : B ^ prec ≤ Q2 ∧ Q2 < B ^ (prec + 1) ∧ Q2 * B ^ qlimb ≤ Q ∧ Q < (Q2 + 1) * B ^ qlimb := by
    by_cases hq : qlimb = 0
    · have hlt : Q < B ^ (prec + 1) := by
        by_contra hc
        have h' : 1 ≤ Q / B ^ (prec + 1) := (Nat.one_le_div_iff hBP).mpr (Nat.le_of_not_lt hc)
        have hq' : Q / B ^ (prec + 1) = 0 := hq
        rw [hq'] at h'; exact absurd h' (by norm_num)
      have hQ2' : Q2 = Q := by rw [hQ2, if_neg (not_not.mpr hq)]
      rw [hQ2', hq, pow_zero, mul_one, mul_one]
      exact ⟨c3, hlt, le_refl _, Nat.lt_succ_self _⟩
    · have hq1 : qlimb = 1 := Nat.le_antisymm hql (Nat.one_le_iff_ne_zero.mpr hq)
      have hge : B ^ (prec + 1) ≤ Q := by
        by_contra hc
        have h' : Q / B ^ (prec + 1) = 0 := Nat.div_eq_of_lt (Nat.lt_of_not_le hc)
        exact hq h'
      have hQ2' : Q2 = Q / B := by rw [hQ2, if_pos hq]
      rw [hQ2', hq1, pow_one]
      have hB := B_pos
      refine ⟨?_, ?_, Nat.div_mul_le_self Q B, ?_⟩
      · rw [Nat.le_div_iff_mul_le hB, ← hBsplit]; exact hge
      · rw [Nat.div_lt_iff_lt_mul hB]
        calc Q < 2 * B ^ (prec + 1) := c4
          _ ≤ B ^ (prec + 1) * B := by
            have : 2 ≤ B := B_ge_two
            nlinarith
      · have h3 := Nat.div_add_mod Q B
        have h4 := Nat.mod_lt Q hB
        nlinarith
  obtain ⟨q1, q2, q3, q4⟩ := hQ2b
  have hr2q : (0 : ℚ) < (r2 : ℚ) := by exact_mod_cast c5
  -- X = m2 B^qxn / r2
  set X : ℚ := (m2 : ℚ) * (B : ℚ) ^ qxn / (r2 : ℚ) with hX
  have hX1 : (Q : ℚ) ≤ X := by
    rw [hX, le_div_iff₀ hr2q]; exact_mod_cast c6
  have hX2 : X < (Q : ℚ) + 1 := by
    rw [hX, div_lt_iff₀ hr2q]; exact_mod_cast c7
  have aQ : Appr (epsP (prec + 1)) (Q : ℚ) X 1 := by
    have := appr_floor (prec + 1) Q 1 X one_pos (by rw [hpm]; exact c3) (by simpa using hX1) (by simpa using hX2)
    simpa using this
  have aQ2 : Appr (epsP (prec + 1)) ((Q2 : ℚ) * (B : ℚ) ^ qlimb) X 2 := by
    have hd : (0 : ℚ) < (B : ℚ) ^ qlimb := pow_pos Bq_pos _
    have := appr_floor (prec + 1) Q2 ((B : ℚ) ^ qlimb) (Q : ℚ) hd (by rw [hpm]; exact q1)
      (by exact_mod_cast q3) (by exact_mod_cast q4)
    exact Appr.trans h0 h1 this aQ
  -- the result
  have hmin1 : 1 ≤ prec + 1 := hP
  refine ⟨WF_mkNat prec neg _ _ _ hP (le_refl _) (by rw [hpm]; exact q1) q2, ?_⟩
  set z : ℚ := (B : ℚ) ^ ((km.2 : ℤ) - (pw.2 : ℤ) - (qxn : ℤ) - (pad : ℤ)) with hz
  have hzpos : 0 < z := zpow_pos Bq_pos _
  refine ⟨(Q2 : ℚ) * (B : ℚ) ^ qlimb * z, ?_, ?_⟩
  · rw [toQ_mkNat _ _ _ _ _ q2]
    have hexp : ((qlimb : ℤ) + ((mn2 - rn : ℕ) : ℤ) + ((km.2 : ℤ) - (pad : ℤ) - (pw.2 : ℤ))) - ((prec + 1 : ℕ) : ℤ) =
        (qlimb : ℤ) + ((km.2 : ℤ) - (pw.2 : ℤ) - (qxn : ℤ) - (pad : ℤ)) := by
      have : ((mn2 - rn : ℕ) : ℤ) + (qxn : ℤ) = ((prec + 1 : ℕ) : ℤ) := by exact_mod_cast c2
      linarith
    rw [hexp, zpow_add₀ Bq_ne, zpow_natCast]; ring
  · have a3 := Appr.mul_const h0 h1 aQ2 hzpos.le
    -- X z = (m B^dm) / (r B^ir)
    have hkm : (0 : ℚ) < (km.1 : ℚ) := by exact_mod_cast Nat.pos_of_ne_zero m4
    have hpw : (0 : ℚ) < (pw.1 : ℚ) := by exact_mod_cast Nat.pos_of_ne_zero r1
    have hXz : X * z = ((km.1 : ℚ) * (B : ℚ) ^ km.2) / ((pw.1 : ℚ) * (B : ℚ) ^ pw.2) := by
      rw [hX, hz]
      have e1 : ((m2 : ℕ) : ℚ) = (km.1 : ℚ) * (B : ℚ) ^ pad * 2 ^ cnt := by
        show ((km.1 * B ^ pad * 2 ^ cnt : ℕ) : ℚ) = _
        push_cast; ring
      have e2 : ((r2 : ℕ) : ℚ) = (pw.1 : ℚ) * 2 ^ cnt := by
        show ((pw.1 * 2 ^ cnt : ℕ) : ℚ) = _
        push_cast; ring
      rw [e1, e2]
      have hz' : (B : ℚ) ^ ((km.2 : ℤ) - (pw.2 : ℤ) - (qxn : ℤ) - (pad : ℤ)) =
          (B : ℚ) ^ km.2 / ((B : ℚ) ^ pw.2 * (B : ℚ) ^ qxn * (B : ℚ) ^ pad) := by
        rw [sub_eq_add_neg, sub_eq_add_neg, sub_eq_add_neg, zpow_add₀ Bq_ne, zpow_add₀ Bq_ne, zpow_add₀ Bq_ne,
          zpow_neg, zpow_neg, zpow_neg, zpow_natCast, zpow_natCast, zpow_natCast, zpow_natCast]
        field_simp
      rw [hz']
      have h2c : (2 : ℚ) ^ cnt ≠ 0 := by positivity
      have hB1 : (B : ℚ) ^ pw.2 ≠ 0 := pow_ne_zero _ Bq_ne
      have hB2 : (B : ℚ) ^ qxn ≠ 0 := pow_ne_zero _ Bq_ne
      have hB3 : (B : ℚ) ^ pad ≠ 0 := pow_ne_zero _ Bq_ne
      field_simp
    rw [hXz] at a3
    set N' : ℚ := (km.1 : ℚ) * (B : ℚ) ^ km.2 with hN
    set D' : ℚ := (pw.1 : ℚ) * (B : ℚ) ^ pw.2 with hD
    have hDpos : 0 < D' := by rw [hD]; exact mul_pos hpw (pow_pos Bq_pos _)
    have hNnn : 0 ≤ N' := by rw [hN]; exact mul_nonneg hkm.le (pow_pos Bq_pos _).le
    have hbe : (0 : ℚ) < (b : ℚ) ^ e := pow_pos (by exact_mod_cast hb) _
    have hMq : (0 : ℚ) ≤ (M : ℚ) := Nat.cast_nonneg _
    have hε : 0 ≤ 1 - epsP (prec + 1) := by linarith
    refine ⟨?_, ?_, ?_⟩
    · -- M/b^e (1-ε)^3 ≤ N'/D' (1-ε)^2 ≤ R
      refine le_trans ?_ a3.1
      have s1 : (M : ℚ) * (1 - epsP (prec + 1)) ^ 1 ≤ N' := am.1
      have s2 : N' / (b : ℚ) ^ e ≤ N' / D' := div_le_div_of_nonneg_left hNnn hDpos ar.2
      have s3 : (M : ℚ) * (1 - epsP (prec + 1)) ^ 1 / (b : ℚ) ^ e ≤ N' / (b : ℚ) ^ e :=
        div_le_div_of_nonneg_right s1 hbe.le
      have s4 : (0 : ℚ) ≤ (1 - epsP (prec + 1)) ^ 2 := pow_nonneg hε 2
      calc (M : ℚ) / (b : ℚ) ^ e * (1 - epsP (prec + 1)) ^ 3
          = (M : ℚ) * (1 - epsP (prec + 1)) ^ 1 / (b : ℚ) ^ e * (1 - epsP (prec + 1)) ^ 2 := by ring
        _ ≤ N' / D' * (1 - epsP (prec + 1)) ^ 2 := mul_le_mul_of_nonneg_right (le_trans s3 s2) s4
    · -- R (1-ε)^e ≤ N'/D' (1-ε)^e ≤ M (1-ε)^e / D' ≤ M / b^e
      have s0 : (0 : ℚ) ≤ (1 - epsP (prec + 1)) ^ e := pow_nonneg hε e
      have s1 : (Q2 : ℚ) * (B : ℚ) ^ qlimb * z * (1 - epsP (prec + 1)) ^ e ≤ N' / D' * (1 - epsP (prec + 1)) ^ e :=
        mul_le_mul_of_nonneg_right a3.2 s0
      refine le_trans s1 ?_
      have s2 : N' ≤ (M : ℚ) := am.2
      have s3 : (b : ℚ) ^ e * (1 - epsP (prec + 1)) ^ e ≤ D' := ar.1
      rw [div_mul_eq_mul_div, div_le_div_iff₀ hDpos hbe]
      calc N' * (1 - epsP (prec + 1)) ^ e * (b : ℚ) ^ e = N' * ((b : ℚ) ^ e * (1 - epsP (prec + 1)) ^ e) := by ring
        _ ≤ (M : ℚ) * D' := mul_le_mul s2 s3 (mul_nonneg hbe.le s0) hMq
    · -- exactness: nothing but zero limbs is dropped and the division leaves no remainder
      intro hp fM fb fv
      have xm : km.1 * B ^ km.2 = M := keepTop_exact prec hp hM fM
      have xp : pw.1 * B ^ pw.2 = b ^ e := powHigh_exact_of_fits b prec e hp hb he fb
      have hN' : N' = (M : ℚ) := by rw [hN]; exact_mod_cast xm
      have hD' : D' = (b : ℚ) ^ e := by rw [hD]; exact_mod_cast xp
      have hXz' : X * z = (M : ℚ) / (b : ℚ) ^ e := by rw [hXz, hN', hD']
      -- r2 divides m2 B^qxn
      have hfit1 : Fits (1 * (((m2 * B ^ qxn : ℕ) : ℚ) / (r2 : ℚ)) *
          (B : ℚ) ^ ((km.2 : ℤ) - (pw.2 : ℤ) - (qxn : ℤ) - (pad : ℤ))) (64 * (prec - 1)) := by
        have : (1 : ℚ) * (((m2 * B ^ qxn : ℕ) : ℚ) / (r2 : ℚ)) *
            (B : ℚ) ^ ((km.2 : ℤ) - (pw.2 : ℤ) - (qxn : ℤ) - (pad : ℤ)) = (M : ℚ) / (b : ℚ) ^ e := by
          rw [← hXz', hX, hz]; push_cast; ring
        rw [this]; exact fv
      have h2p : 2 ^ (64 * (prec - 1)) ≤ m2 * B ^ qxn / r2 := by
        calc 2 ^ (64 * (prec - 1)) = B ^ (prec - 1) := (B_pow' _).symm
          _ ≤ B ^ prec := Nat.pow_le_pow_right B_pos (by omega)
          _ ≤ Q := c3
      have hdvd : r2 ∣ m2 * B ^ qxn := dvd_of_fits_quot (Or.inl rfl) _ _ c5 _ _ h2p hfit1
      have hQX : (Q : ℚ) = X := by
        rw [hX]
        have : ((m2 * B ^ qxn / r2 : ℕ) : ℚ) = ((m2 * B ^ qxn : ℕ) : ℚ) / (r2 : ℚ) :=
          Nat.cast_div hdvd (by exact_mod_cast c5.ne')
        rw [show (Q : ℚ) = ((m2 * B ^ qxn / r2 : ℕ) : ℚ) from rfl, this]; push_cast; ring
      -- B^qlimb divides Q
      have hfQ : FitsN Q (64 * (prec - 1)) := by
        apply fitsN_of_fits (Or.inl rfl) Q ((km.2 : ℤ) - (pw.2 : ℤ) - (qxn : ℤ) - (pad : ℤ))
        have : (1 : ℚ) * (Q : ℚ) * (B : ℚ) ^ ((km.2 : ℤ) - (pw.2 : ℤ) - (qxn : ℤ) - (pad : ℤ)) = (M : ℚ) / (b : ℚ) ^ e := by
          rw [hQX, ← hXz', hz]; ring
        rw [this]; exact fv
      have hBq : B ^ qlimb ∣ Q := by
        by_cases hq : qlimb = 0
        · rw [hq]; simp
        · have hq1 : qlimb = 1 := Nat.le_antisymm hql (Nat.one_le_iff_ne_zero.mpr hq)
          have hge : B ^ (prec + 1) ≤ Q := by
            by_contra hc
            have h' : Q / B ^ (prec + 1) = 0 := Nat.div_eq_of_lt (Nat.lt_of_not_le hc)
            exact hq h'
          have := fitsN_dvd (n := prec + 2) hfQ (by simpa using hge) hp
          rw [hq1, pow_one]
          exact Dvd.dvd.trans (dvd_pow_self B (by omega)) this
      have hQ2Q : Q2 * B ^ qlimb = Q := floor_exact (Bpow_pos _) q3 q4 hBq
      have : (Q2 : ℚ) * (B : ℚ) ^ qlimb = (Q : ℚ) := by exact_mod_cast hQ2Q
      rw [this, hQX, hXz']

end Mpir.MpfStr
