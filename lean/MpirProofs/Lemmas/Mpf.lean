/- Helper lemmas for the mpf model (Mpir/Model/Mpf.lean): limb-vector facts (`toLimbs`, `top`,
   top-limb bounds), the abstraction `toQ : F → ℚ`, and the integer inequalities behind the
   accuracy theorems of Props/C13.lean. -/
import MpirProofs.Lemmas.Base
import Mpir.Model.Mpf
import Mathlib.Tactic.Ring
import Mathlib.Tactic.Linarith
import Mathlib.Tactic.Positivity
import Mathlib.Tactic.FieldSimp
import Mathlib.Tactic.NormNum
import Mathlib.Tactic.Push
import Mathlib.Algebra.Order.Field.Power
import Mathlib.Data.Rat.Floor
namespace Mpir.Mpf
open Mpir

/-! ### limb vectors -/

theorem B_ge_two : 2 ≤ B := by rw [B_eq]; norm_num
theorem one_lt_B : 1 < B := by rw [B_eq]; norm_num
theorem Bpow_pos (n : Nat) : 0 < B ^ n := Nat.pos_of_ne_zero (pow_ne_zero _ (by rw [B_eq]; norm_num))

theorem toLimbs_length : ∀ (n v : Nat), (toLimbs n v).length = n
  | 0, _ => rfl
  | n + 1, v => by simp [toLimbs, toLimbs_length n]

theorem Limbs_toLimbs : ∀ (n v : Nat), Limbs (toLimbs n v)
  | 0, _ => Limbs_nil
  | n + 1, v => by
      simp only [toLimbs]
      exact Limbs_cons.mpr ⟨Nat.mod_lt _ B_pos, Limbs_toLimbs n _⟩

theorem val_toLimbs : ∀ (n v : Nat), val (toLimbs n v) = v % B ^ n
  | 0, v => by simp [toLimbs, Nat.mod_one]
  | n + 1, v => by
      simp only [toLimbs, val_cons, val_toLimbs n, pow_succ]
      rw [mul_comm (B ^ n) B, Nat.mod_mul]

theorem val_toLimbs_of_lt {n v : Nat} (h : v < B ^ n) : val (toLimbs n v) = v := by
  rw [val_toLimbs, Nat.mod_eq_of_lt h]

theorem top_length (n : Nat) (l : List Nat) : (top n l).length = min n l.length := by
  unfold top; simp; omega

theorem Limbs_top {l : List Nat} (h : Limbs l) (n : Nat) : Limbs (top n l) := Limbs_drop h _

/-- `l` = dropped low part + B^k · kept top part -/
theorem val_top (n : Nat) (l : List Nat) :
    val l = val (l.take (l.length - n)) + B ^ (l.length - n) * val (top n l) := by
  unfold top
  exact val_take_drop l _ (Nat.sub_le _ _)

theorem val_take_lt {l : List Nat} (h : Limbs l) (k : Nat) : val (l.take k) < B ^ k := by
  have := val_lt _ (Limbs_take h k)
  rw [List.length_take] at this
  exact lt_of_lt_of_le this (Nat.pow_le_pow_right B_pos (Nat.min_le_left _ _))

theorem top_of_le {n : Nat} {l : List Nat} (h : l.length ≤ n) : top n l = l := by
  unfold top; rw [Nat.sub_eq_zero_of_le h]; rfl

theorem getLast?_top {n : Nat} {l : List Nat} (hn : 0 < n) : (top n l).getLast? = l.getLast? := by
  unfold top
  by_cases hl : l = []
  · subst hl; simp
  · have : l.length - n < l.length := by
      have := List.length_pos_of_ne_nil hl; omega
    rw [List.getLast?_drop]; simp; omega

/-- a vector whose top limb is non-zero is at least B^(len-1) -/
theorem val_ge_of_top : ∀ (l : List Nat), l ≠ [] → l.getLast? ≠ some 0 → B ^ (l.length - 1) ≤ val l
  | [], h, _ => absurd rfl h
  | [x], _, h => by
      simp at h; simp; omega
  | x :: y :: ys, _, h => by
      have ih := val_ge_of_top (y :: ys) (by simp) (by simpa [List.getLast?_cons_cons] using h)
      simp only [List.length_cons, Nat.add_sub_cancel] at ih ⊢
      rw [val_cons, pow_succ]
      nlinarith [B_pos]

theorem val_pos_of_top {l : List Nat} (hne : l ≠ []) (h : l.getLast? ≠ some 0) : 0 < val l :=
  lt_of_lt_of_le (Bpow_pos _) (val_ge_of_top l hne h)

/-- conversely: value ≥ B^(len-1) forces a non-zero top limb -/
theorem top_ne_zero_of_val_ge : ∀ (l : List Nat), Limbs l → l ≠ [] → B ^ (l.length - 1) ≤ val l →
    l.getLast? ≠ some 0
  | [], _, h, _ => absurd rfl h
  | [x], _, _, h => by simp at h ⊢; omega
  | x :: y :: ys, hl, _, h => by
      have ⟨hx, hys⟩ := Limbs_cons.mp hl
      rw [List.getLast?_cons_cons]
      apply top_ne_zero_of_val_ge (y :: ys) hys (by simp)
      simp only [List.length_cons, Nat.add_sub_cancel] at h ⊢
      rw [val_cons, pow_succ] at h
      by_contra hc
      push Not at hc
      nlinarith [B_pos]

theorem getLast?_eq_topLimb (l : List Nat) (hne : l ≠ []) : l.getLast? = some (topLimb l) := by
  unfold topLimb
  cases h : l.getLast? with
  | none => exact absurd (List.getLast?_eq_none_iff.mp h) hne
  | some x => rfl


theorem drop_eq_topLimb (l : List Nat) (n : Nat) (h : l.length = n + 1) : l.drop n = [topLimb l] := by
  have hne : l ≠ [] := by intro h0; rw [h0] at h; simp at h
  have h1 := List.drop_length_sub_one hne
  rw [h, Nat.add_sub_cancel] at h1
  rw [h1]; unfold topLimb; rw [List.getLast?_eq_some_getLast hne]; rfl

theorem val_take_top (l : List Nat) (n : Nat) (h : l.length = n + 1) :
    val l = val (l.take n) + B ^ n * topLimb l := by
  rw [val_take_drop l n (by omega), drop_eq_topLimb l n h]; simp

theorem two_pow_lt_B {k : Nat} (hk : k < 64) : 2 ^ k < B := by
  unfold B; exact Nat.pow_lt_pow_right (by norm_num) hk

theorem shiftUp_spec (up : List Nat) (k : Nat) (hl : Limbs up) (hne : up ≠ []) (ht : up.getLast? ≠ some 0)
    (hk64 : k < 64) :
    Limbs (shiftUp up k).1 ∧ (shiftUp up k).1.getLast? ≠ some 0 ∧
    (shiftUp up k).1.length = up.length + (shiftUp up k).2 ∧ (shiftUp up k).2 ≤ 1 ∧
    val (shiftUp up k).1 = val up * 2 ^ k := by
  have hn : 0 < up.length := List.length_pos_of_ne_nil hne
  have hlt : val up * 2 ^ k < B ^ (up.length + 1) := by
    have h1 := val_lt up hl
    have h2 := two_pow_lt_B hk64
    rw [pow_succ]; exact Nat.mul_lt_mul'' h1 h2
  have hge : B ^ (up.length - 1) ≤ val up * 2 ^ k := by
    have h1 := val_ge_of_top up hne ht
    have h2 : 1 ≤ 2 ^ k := Nat.one_le_two_pow
    nlinarith
  have hv := val_toLimbs_of_lt hlt
  have hlen := toLimbs_length (up.length + 1) (val up * 2 ^ k)
  have hlim := Limbs_toLimbs (up.length + 1) (val up * 2 ^ k)
  have hsplit := val_take_top _ _ hlen
  unfold shiftUp
  simp only
  generalize toLimbs (up.length + 1) (val up * 2 ^ k) = full at *
  by_cases h0 : topLimb full = 0
  · simp only [h0, ne_eq, not_true_eq_false, if_false, Nat.add_zero]
    have hval : val (full.take up.length) = val up * 2 ^ k := by rw [← hv, hsplit, h0]; simp
    have hl2 : (full.take up.length).length = up.length := by rw [List.length_take, hlen]; omega
    refine ⟨Limbs_take hlim _, ?_, hl2, by omega, hval⟩
    apply top_ne_zero_of_val_ge _ (Limbs_take hlim _)
    · intro hnil; rw [hnil] at hl2; simp at hl2; omega
    · rw [hl2, hval]; exact hge
  · simp only [h0, ne_eq, not_false_eq_true, if_true]
    have htk : full.take (up.length + 1) = full := List.take_of_length_le (by omega)
    rw [htk]
    refine ⟨hlim, ?_, hlen, by omega, hv⟩
    have hfne : full ≠ [] := by intro hnil; rw [hnil] at hlen; simp at hlen
    rw [getLast?_eq_topLimb full hfne]; simpa using h0

/-! ### abstraction -/

/-- the rational value of an mpf: ± val d · B^(exp - |size|) -/
def toQ (f : F) : ℚ :=
  (if f.size < 0 then -1 else 1) * (val f.d : ℚ) * (B : ℚ) ^ (f.exp - (f.d.length : ℤ))

/-- the property's relative error bound 2^(2-p), p = mpf_get_prec = 64·prec - 64 -/
def eps (prec : Nat) : ℚ := (2 : ℚ) ^ ((2 : ℤ) - (PREC_TO_BITS prec : ℤ))

theorem Bq_pos : (0 : ℚ) < (B : ℚ) := by exact_mod_cast B_pos
theorem Bq_ne : (B : ℚ) ≠ 0 := ne_of_gt Bq_pos
theorem Bq_eq : (B : ℚ) = 2 ^ 64 := by rw [B_eq]; norm_num

theorem toQ_mk (p : Nat) (c : Prop) [Decidable c] (e : Int) (l : List Nat) :
    toQ ⟨p, if c then (l.length : Int) else -(l.length : Int), e, l⟩ =
      (if c then 1 else -1) * (val l : ℚ) * (B : ℚ) ^ (e - (l.length : ℤ)) := by
  unfold toQ
  by_cases hc : c
  · simp [hc]
  · simp only [hc, if_false]
    by_cases hl : l = []
    · subst hl; simp
    · have : 0 < l.length := List.length_pos_of_ne_nil hl
      have h2 : -(l.length : Int) < 0 := by omega
      rw [if_pos h2]

theorem toQ_zero (p : Nat) : toQ (zero p) = 0 := by simp [toQ, zero]

theorem toQ_of_size_zero {f : F} (h : f.d = []) : toQ f = 0 := by simp [toQ, h]

/-- numerators over a common positive scale: an integer inequality gives the rational error bound -/
theorem rel_err_scale (R E : ℤ) (s : ℚ) (hs : 0 < s) (p : ℕ) (h : |R - E| * 2 ^ p < 4 * |E|) :
    |(R : ℚ) * s - (E : ℚ) * s| < (2 : ℚ) ^ ((2 : ℤ) - (p : ℤ)) * |(E : ℚ) * s| := by
  have h' : ((|R - E| * 2 ^ p : ℤ) : ℚ) < ((4 * |E| : ℤ) : ℚ) := by exact_mod_cast h
  push_cast at h'
  have e1 : (R : ℚ) * s - E * s = ((R : ℚ) - E) * s := by ring
  rw [e1, abs_mul, abs_mul, abs_of_pos hs]
  have e2 : (2 : ℚ) ^ ((2 : ℤ) - (p : ℤ)) = 4 / 2 ^ p := by
    rw [zpow_sub₀ (by norm_num : (2 : ℚ) ≠ 0)]; norm_num
  rw [e2]
  have hp : (0 : ℚ) < 2 ^ p := by positivity
  rw [div_mul_eq_mul_div, lt_div_iff₀ hp]
  nlinarith


theorem toQ_def' (u : F) :
    toQ u = (if u.size ≥ 0 then 1 else -1) * (val u.d : ℚ) * (B : ℚ) ^ (u.exp - (u.d.length : ℤ)) := by
  unfold toQ
  by_cases h : u.size < 0
  · rw [if_pos h, if_neg (by omega)]
  · rw [if_neg h, if_pos (by omega)]

theorem Bzpow_add_nat (a : ℤ) (m : ℕ) : (B : ℚ) ^ (a + (m : ℤ)) = (B : ℚ) ^ a * 2 ^ (64 * m) := by
  rw [zpow_add₀ Bq_ne, zpow_natCast, Bq_eq, ← pow_mul]

theorem Bzpow_sub_nat (a : ℤ) (m : ℕ) : (B : ℚ) ^ (a - (m : ℤ)) = (B : ℚ) ^ a / 2 ^ (64 * m) := by
  rw [zpow_sub₀ Bq_ne, zpow_natCast, Bq_eq, ← pow_mul]

theorem two_pow_split (e : ℕ) : (2 : ℚ) ^ e = 2 ^ (e % 64) * 2 ^ (64 * (e / 64)) := by
  rw [← pow_add]; congr 1; omega

/-! ### integer and fraction part of the magnitude -/

/-- exponent ≤ 0: the magnitude lies strictly between 0 and 1 -/
theorem mag_lt_one (d : List Nat) (hl : Limbs d) (hne : d ≠ []) (ht : d.getLast? ≠ some 0) (e : ℤ) (he : e ≤ 0) :
    0 < (val d : ℚ) * (B : ℚ) ^ (e - (d.length : ℤ)) ∧ (val d : ℚ) * (B : ℚ) ^ (e - (d.length : ℤ)) < 1 := by
  have hpos : (0 : ℚ) < val d := by exact_mod_cast val_pos_of_top hne ht
  refine ⟨mul_pos hpos (zpow_pos Bq_pos _), ?_⟩
  obtain ⟨k, hk⟩ : ∃ k : ℕ, e - (d.length : ℤ) = -((d.length + k : ℕ) : ℤ) := ⟨(-e).toNat, by push_cast; omega⟩
  rw [hk, zpow_neg, zpow_natCast, ← div_eq_mul_inv, div_lt_one (pow_pos Bq_pos _)]
  have h1 : val d < B ^ d.length := val_lt d hl
  have h2 : B ^ d.length ≤ B ^ (d.length + k) := Nat.pow_le_pow_right B_pos (by omega)
  exact_mod_cast lt_of_lt_of_le h1 h2

/-- 0 < e < len: integer part = the top e limbs, fraction = the low limbs / B^k -/
theorem mag_split (d : List Nat) (e : ℕ) (he : e ≤ d.length) :
    (val d : ℚ) * (B : ℚ) ^ ((e : ℤ) - (d.length : ℤ)) =
      (val (top e d) : ℚ) + (val (d.take (d.length - e)) : ℚ) / (B : ℚ) ^ (d.length - e) := by
  have hk : (e : ℤ) - (d.length : ℤ) = -((d.length - e : ℕ) : ℤ) := by push_cast; omega
  rw [hk, zpow_neg, zpow_natCast]
  have hv : (val d : ℚ) = (val (d.take (d.length - e)) : ℚ) + (B : ℚ) ^ (d.length - e) * (val (top e d) : ℚ) := by
    exact_mod_cast val_top e d
  have hB : (B : ℚ) ^ (d.length - e) ≠ 0 := pow_ne_zero _ Bq_ne
  rw [hv]; field_simp; ring

/-- len ≤ e: the value is the natural number val d · B^(e - len) -/
theorem mag_int (d : List Nat) (e : ℤ) (he : (d.length : ℤ) ≤ e) :
    (val d : ℚ) * (B : ℚ) ^ (e - (d.length : ℤ)) = ((val d * B ^ (e - (d.length : ℤ)).toNat : ℕ) : ℚ) := by
  have : e - (d.length : ℤ) = (((e - (d.length : ℤ)).toNat : ℕ) : ℤ) := by omega
  rw [this, zpow_natCast]; push_cast; simp

theorem any_ne_zero_iff (l : List Nat) : l.any (· != 0) = true ↔ val l ≠ 0 := by
  induction l with
  | nil => simp
  | cons x xs ih =>
    simp only [List.any_cons, Bool.or_eq_true, ih, val_cons]
    have := B_pos
    constructor
    · rintro (h | h)
      · have : x ≠ 0 := by simpa using h
        omega
      · have : 0 < val xs := Nat.pos_of_ne_zero h
        nlinarith
    · intro h
      by_cases hx : x = 0
      · right; intro h0; rw [hx, h0] at h; simp at h
      · left; simpa using hx

theorem all_eq_zero_iff (l : List Nat) : l.all (· == 0) = true ↔ val l = 0 := by
  induction l with
  | nil => simp
  | cons x xs ih =>
    simp only [List.all_cons, Bool.and_eq_true, ih, val_cons]
    have := B_pos
    constructor
    · rintro ⟨h1, h2⟩
      have : x = 0 := by simpa using h1
      rw [this, h2]; simp
    · intro h
      have hx : x = 0 := by omega
      have hxs : B * val xs = 0 := by omega
      refine ⟨by simpa using hx, ?_⟩
      rcases Nat.mul_eq_zero.mp hxs with h' | h'
      · omega
      · exact h'

/-! ### format rules of constructed results -/

theorem WF_mk {p : Nat} {c : Prop} [Decidable c] {e : Int} {l : List Nat}
    (hl : Limbs l) (ht : l.getLast? ≠ some 0) (hn : l.length ≤ p + 1) (hz : l = [] → e = 0) :
    WF ⟨p, if c then (l.length : Int) else -(l.length : Int), e, l⟩ := by
  refine ⟨hl, ?_, ?_, ht, ?_⟩
  · by_cases hc : c <;> simp [hc]
  · by_cases hc : c <;> simp [hc] <;> omega
  · intro h
    apply hz
    have h : (if c then (l.length : Int) else -(l.length : Int)) = 0 := h
    have h0 : l.length = 0 := by
      by_cases hc : c
      · rw [if_pos hc] at h; omega
      · rw [if_neg hc] at h; omega
    exact List.eq_nil_of_length_eq_zero h0

theorem WF_zero (p : Nat) : WF (zero p) := by
  refine ⟨Limbs_nil, rfl, by simp [zero], by simp [zero], fun _ => rfl⟩

theorem OpWF.d_nil {u : F} (hu : OpWF u) (h : u.size = 0) : u.d = [] :=
  List.eq_nil_of_length_eq_zero (by rw [hu.2.1, h]; rfl)

theorem OpWF.size_ne {u : F} (hu : OpWF u) (h : u.d ≠ []) : u.size ≠ 0 := by
  intro hs; exact h (hu.d_nil hs)

theorem OpWF.len_pos {u : F} (hu : OpWF u) (h : u.size ≠ 0) : 0 < u.d.length := by
  rw [hu.2.1]; omega

/-! ### natLimbs -/

theorem natLimbs_zero : natLimbs 0 = [] := by rw [natLimbs]; simp

theorem natLimbs_pos {v : Nat} (h : v ≠ 0) : natLimbs v = v % B :: natLimbs (v / B) := by
  rw [natLimbs]; simp [h]

theorem natLimbs_spec (v : Nat) :
    val (natLimbs v) = v ∧ Limbs (natLimbs v) ∧ (natLimbs v).getLast? ≠ some 0 ∧ (v = 0 → natLimbs v = []) := by
  induction v using Nat.strong_induction_on with
  | _ v ih =>
    by_cases h : v = 0
    · subst h; rw [natLimbs_zero]; simp [Limbs_nil]
    · rw [natLimbs_pos h]
      have hlt : v / B < v := Nat.div_lt_self (Nat.pos_of_ne_zero h) one_lt_B
      obtain ⟨i1, i2, i3, i4⟩ := ih _ hlt
      refine ⟨?_, Limbs_cons.mpr ⟨Nat.mod_lt _ B_pos, i2⟩, ?_, fun h0 => absurd h0 h⟩
      · rw [val_cons, i1]; exact Nat.mod_add_div v B
      · by_cases hq : v / B = 0
        · rw [i4 hq]
          have : v % B = v := Nat.mod_eq_of_lt ((Nat.div_eq_zero_iff.mp hq).resolve_left (by have := B_pos; omega))
          simp; omega
        · have hne : natLimbs (v / B) ≠ [] := by
            intro hnil; rw [hnil] at i1; simp at i1; exact hq i1.symm
          rw [List.getLast?_cons_of_ne_nil hne]; exact i3

/-! ### floor / ceil / trunc / integer_p: decomposition into integer and fraction part -/

def sg (u : F) : ℚ := if u.size < 0 then -1 else 1

theorem toQ_sg (u : F) : toQ u = sg u * ((val u.d : ℚ) * (B : ℚ) ^ (u.exp - (u.d.length : ℤ))) := by
  unfold toQ sg; ring

theorem toQ_mk' (p : Nat) (c : Prop) [Decidable c] (e : Int) (l : List Nat) (k : Nat) (hk : l.length = k) :
    toQ ⟨p, if c then (k : Int) else -(k : Int), e, l⟩ =
      (if c then 1 else -1) * (val l : ℚ) * (B : ℚ) ^ (e - (k : ℤ)) := by
  subst hk; exact toQ_mk p c e l

theorem round_decomp (prec : Nat) (u : F) (hu : OpWF u) (h0 : u.size ≠ 0)
    (hfit : min u.d.length u.exp.toNat ≤ prec + 1) (dir : ℤ) (hdir : dir = 1 ∨ dir = -1) :
    ∃ (I : ℕ) (f : ℚ), 0 ≤ f ∧ f < 1 ∧ toQ u = sg u * (I + f) ∧
      toQ (trunc prec u) = sg u * I ∧
      toQ (ceilOrFloor prec u dir) = sg u * (I + if ((u.size < 0) ↔ (dir < 0)) ∧ f ≠ 0 then 1 else 0) ∧
      (integer_p u = true ↔ f = 0) := by
  obtain ⟨hl, hlen, ht, _⟩ := hu
  have hne : u.d ≠ [] := by intro h; rw [h] at hlen; simp at hlen; omega
  have hsz : (if u.size ≥ 0 then (1 : ℚ) else -1) = sg u := by
    unfold sg; by_cases h : u.size < 0
    · rw [if_pos h, if_neg (by omega)]
    · rw [if_neg h, if_pos (by omega)]
  rcases le_or_gt u.exp 0 with he | he
  · -- only a fraction
    obtain ⟨m1, m2⟩ := mag_lt_one u.d hl hne ht u.exp he
    have hf : (val u.d : ℚ) * (B : ℚ) ^ (u.exp - (u.d.length : ℤ)) ≠ 0 := ne_of_gt m1
    refine ⟨0, _, le_of_lt m1, m2, by rw [toQ_sg]; simp, ?_, ?_, ?_⟩
    · unfold trunc; rw [if_pos (Or.inr he), toQ_zero]; simp
    · unfold ceilOrFloor; rw [if_neg h0, if_pos he]
      by_cases hs : u.size < 0 <;> rcases hdir with hd | hd <;> subst hd <;> simp [hs, sg, toQ, zero, hf, val]
    · unfold integer_p; rw [if_neg h0, if_pos he]; simp [hf]
  · -- exp > 0
    obtain ⟨e, hee⟩ : ∃ e : ℕ, u.exp = (e : ℤ) := ⟨u.exp.toNat, by omega⟩
    have hepos : 0 < e := by omega
    have hnt : ¬ (u.size = 0 ∨ u.exp ≤ 0) := by omega
    have hne0 : ¬ u.exp ≤ 0 := by omega
    have htn : u.exp.toNat = e := by omega
    rw [htn] at hfit
    rcases lt_or_ge e u.d.length with hlt | hge
    · -- integer part = top e limbs
      have hmin : min (min u.d.length e) (prec + 1) = e := by omega
      have hsplit := mag_split u.d e (le_of_lt hlt)
      have hlo := val_take_lt hl (u.d.length - e)
      have hBk : (0 : ℚ) < (B : ℚ) ^ (u.d.length - e) := pow_pos Bq_pos _
      have htl : (top e u.d).length = e := by rw [top_length]; omega
      refine ⟨val (top e u.d), (val (u.d.take (u.d.length - e)) : ℚ) / (B : ℚ) ^ (u.d.length - e),
        by positivity, ?_, ?_, ?_, ?_, ?_⟩
      · rw [div_lt_one hBk]; exact_mod_cast hlo
      · rw [toQ_sg, hee, hsplit]
      · unfold trunc; rw [if_neg hnt]; simp only [htn, hmin]
        rw [toQ_mk' _ _ _ _ _ htl, hsz, hee]; simp
      · unfold ceilOrFloor; rw [if_neg h0, if_neg hne0]; simp only [htn, hmin]
        have hcond : ((decide (u.size < 0) == decide (dir < 0)) = true ∧
              ((List.take (u.d.length - e) u.d).any fun x => x != 0) = true) ↔
            ((u.size < 0 ↔ dir < 0) ∧
              (val (List.take (u.d.length - e) u.d) : ℚ) / (B : ℚ) ^ (u.d.length - e) ≠ 0) := by
          rw [any_ne_zero_iff]
          have h1 : ((decide (u.size < 0) == decide (dir < 0)) = true) ↔ (u.size < 0 ↔ dir < 0) := by
            by_cases a : u.size < 0 <;> by_cases b : dir < 0 <;> simp [a, b]
          have h2 : val (List.take (u.d.length - e) u.d) ≠ 0 ↔
              (val (List.take (u.d.length - e) u.d) : ℚ) / (B : ℚ) ^ (u.d.length - e) ≠ 0 := by
            rw [Ne, Ne, div_eq_zero_iff]; simp [ne_of_gt hBk]
          rw [h1, h2]
        by_cases hc : ((u.size < 0 ↔ dir < 0) ∧
              (val (List.take (u.d.length - e) u.d) : ℚ) / (B : ℚ) ^ (u.d.length - e) ≠ 0)
        · rw [if_pos (hcond.mpr hc), if_pos hc]
          have hhi : val (top e u.d) < B ^ e := by
            have := val_lt _ (Limbs_top hl e); rwa [htl] at this
          by_cases hcy : (val (top e u.d) + 1) / B ^ e ≠ 0
          · rw [if_pos hcy]
            have hs : val (top e u.d) + 1 = B ^ e := by
              have : B ^ e ≤ val (top e u.d) + 1 := by
                by_contra hlt'; exact hcy (Nat.div_eq_of_lt (by omega))
              omega
            have h1l : ([1] : List Nat).length = 1 := rfl
            rw [toQ_mk' _ _ _ _ _ h1l, hsz, hee]
            have : ((val (top e u.d) : ℚ) + 1) = (B : ℚ) ^ e := by exact_mod_cast hs
            rw [this, show ((e : ℤ) + 1 - ((1 : ℕ) : ℤ)) = (e : ℤ) by push_cast; ring, zpow_natCast]
            simp [val]
          · rw [if_neg hcy]
            have hs : val (top e u.d) + 1 < B ^ e := by
              have := (Nat.div_eq_zero_iff.mp (not_not.mp hcy)); have := Bpow_pos e; omega
            rw [toQ_mk' _ _ _ _ _ (toLimbs_length e _), hsz, hee, val_toLimbs_of_lt hs]
            simp
        · rw [if_neg (fun h => hc (hcond.mp h)), if_neg hc]
          rw [toQ_mk' _ _ _ _ _ htl, hsz, hee]; simp
      · unfold integer_p; rw [if_neg h0, if_neg hne0]; simp only [htn]
        rw [all_eq_zero_iff, div_eq_zero_iff]; simp [ne_of_gt hBk]
    · -- the whole operand is integer part
      have hmin : min (min u.d.length e) (prec + 1) = u.d.length := by omega
      have hint := mag_int u.d u.exp (by omega)
      refine ⟨val u.d * B ^ (u.exp - (u.d.length : ℤ)).toNat, 0, le_refl _, by norm_num, ?_, ?_, ?_, ?_⟩
      · rw [toQ_sg, hint]; simp
      · unfold trunc; rw [if_neg hnt]; simp only [htn, hmin, top_of_le (le_refl _)]
        rw [toQ_mk, hsz, mul_assoc, hint]
      · unfold ceilOrFloor; rw [if_neg h0, if_neg hne0]; simp only [htn, hmin, top_of_le (le_refl _)]
        simp only [Nat.sub_self, List.take_zero, List.any_nil, Bool.false_eq_true, and_false, if_false]
        rw [toQ_mk, hsz, mul_assoc, hint]; simp
      · unfold integer_p; rw [if_neg h0, if_neg hne0]; simp only [htn]
        rw [Nat.sub_eq_zero_of_le hge]; simp

theorem floor_nat_add (I : ℕ) (f : ℚ) (h0 : 0 ≤ f) (h1 : f < 1) : ⌊(I : ℚ) + f⌋ = (I : ℤ) := by
  rw [Int.floor_eq_iff]; push_cast; constructor <;> linarith

theorem ceil_nat_add (I : ℕ) (f : ℚ) (h0 : 0 ≤ f) (h1 : f < 1) :
    ⌈(I : ℚ) + f⌉ = (I : ℤ) + if f ≠ 0 then 1 else 0 := by
  by_cases hf : f = 0
  · subst hf; simp
  · rw [if_pos hf, Int.ceil_eq_iff]; push_cast
    have : 0 < f := lt_of_le_of_ne h0 (Ne.symm hf)
    constructor <;> linarith

end Mpir.Mpf
