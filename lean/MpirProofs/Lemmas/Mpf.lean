/- Helper lemmas for the mpf model (Mpir/Model/Mpf.lean): limb-vector facts (`toLimbs`, `top`,
   top-limb bounds), the abstraction `toQ : F → ℚ`, and the integer inequalities behind the
   accuracy theorems of Props/C13.lean. -/
import MpirProofs.Lemmas.Base
import Mpir.Model.Mpf
import Mathlib.Tactic.Ring
import Mathlib.Tactic.Linarith
import Mathlib.Tactic.Positivity
import Mathlib.Tactic.FieldSimp
import Mathlib.Tactic.NormNum
import Mathlib.Tactic.Push
import Mathlib.Algebra.Order.Field.Power
import Mathlib.Data.Rat.Floor
import Mathlib.Data.Nat.Sqrt
namespace Mpir.Mpf
open Mpir

/-! ### limb vectors -/

theorem B_ge_two : 2 ≤ B := by rw [B_eq]; norm_num
theorem one_lt_B : 1 < B := by rw [B_eq]; norm_num
theorem Bpow_pos (n : Nat) : 0 < B ^ n := Nat.pos_of_ne_zero (pow_ne_zero _ (by rw [B_eq]; norm_num))

theorem toLimbs_length : ∀ (n v : Nat), (toLimbs n v).length = n
  | 0, _ => rfl
  | n + 1, v => by simp [toLimbs, toLimbs_length n]

theorem Limbs_toLimbs : ∀ (n v : Nat), Limbs (toLimbs n v)
  | 0, _ => Limbs_nil
  | n + 1, v => by
      simp only [toLimbs]
      exact Limbs_cons.mpr ⟨Nat.mod_lt _ B_pos, Limbs_toLimbs n _⟩

theorem val_toLimbs : ∀ (n v : Nat), val (toLimbs n v) = v % B ^ n
  | 0, v => by simp [toLimbs, Nat.mod_one]
  | n + 1, v => by
      simp only [toLimbs, val_cons, val_toLimbs n, pow_succ]
      rw [mul_comm (B ^ n) B, Nat.mod_mul]

theorem val_toLimbs_of_lt {n v : Nat} (h : v < B ^ n) : val (toLimbs n v) = v := by
  rw [val_toLimbs, Nat.mod_eq_of_lt h]

theorem top_length (n : Nat) (l : List Nat) : (top n l).length = min n l.length := by
  unfold top; simp; omega

theorem Limbs_top {l : List Nat} (h : Limbs l) (n : Nat) : Limbs (top n l) := Limbs_drop h _

/-- `l` = dropped low part + B^k · kept top part -/
theorem val_top (n : Nat) (l : List Nat) :
    val l = val (l.take (l.length - n)) + B ^ (l.length - n) * val (top n l) := by
  unfold top
  exact val_take_drop l _ (Nat.sub_le _ _)

theorem val_take_lt {l : List Nat} (h : Limbs l) (k : Nat) : val (l.take k) < B ^ k := by
  have := val_lt _ (Limbs_take h k)
  rw [List.length_take] at this
  exact lt_of_lt_of_le this (Nat.pow_le_pow_right B_pos (Nat.min_le_left _ _))

theorem top_of_le {n : Nat} {l : List Nat} (h : l.length ≤ n) : top n l = l := by
  unfold top; rw [Nat.sub_eq_zero_of_le h]; rfl

theorem getLast?_top {n : Nat} {l : List Nat} (hn : 0 < n) : (top n l).getLast? = l.getLast? := by
  unfold top
  by_cases hl : l = []
  · subst hl; simp
  · have : l.length - n < l.length := by
      have := List.length_pos_of_ne_nil hl; omega
    rw [List.getLast?_drop]; simp; omega

/-- a vector whose top limb is non-zero is at least B^(len-1) -/
theorem val_ge_of_top : ∀ (l : List Nat), l ≠ [] → l.getLast? ≠ some 0 → B ^ (l.length - 1) ≤ val l
  | [], h, _ => absurd rfl h
  | [x], _, h => by
      simp at h; simp; omega
  | x :: y :: ys, _, h => by
      have ih := val_ge_of_top (y :: ys) (by simp) (by simpa [List.getLast?_cons_cons] using h)
      simp only [List.length_cons, Nat.add_sub_cancel] at ih ⊢
      rw [val_cons, pow_succ]
      nlinarith [B_pos]

theorem val_pos_of_top {l : List Nat} (hne : l ≠ []) (h : l.getLast? ≠ some 0) : 0 < val l :=
  lt_of_lt_of_le (Bpow_pos _) (val_ge_of_top l hne h)

/-- conversely: value ≥ B^(len-1) forces a non-zero top limb -/
theorem top_ne_zero_of_val_ge : ∀ (l : List Nat), Limbs l → l ≠ [] → B ^ (l.length - 1) ≤ val l →
    l.getLast? ≠ some 0
  | [], _, h, _ => absurd rfl h
  | [x], _, _, h => by simp at h ⊢; omega
  | x :: y :: ys, hl, _, h => by
      have ⟨hx, hys⟩ := Limbs_cons.mp hl
      rw [List.getLast?_cons_cons]
      apply top_ne_zero_of_val_ge (y :: ys) hys (by simp)
      simp only [List.length_cons, Nat.add_sub_cancel] at h ⊢
      rw [val_cons, pow_succ] at h
      by_contra hc
      push Not at hc
      nlinarith [B_pos]

theorem getLast?_eq_topLimb (l : List Nat) (hne : l ≠ []) : l.getLast? = some (topLimb l) := by
  unfold topLimb
  cases h : l.getLast? with
  | none => exact absurd (List.getLast?_eq_none_iff.mp h) hne
  | some x => rfl


theorem drop_eq_topLimb (l : List Nat) (n : Nat) (h : l.length = n + 1) : l.drop n = [topLimb l] := by
  have hne : l ≠ [] := by intro h0; rw [h0] at h; simp at h
  have h1 := List.drop_length_sub_one hne
  rw [h, Nat.add_sub_cancel] at h1
  rw [h1]; unfold topLimb; rw [List.getLast?_eq_some_getLast hne]; rfl

theorem val_take_top (l : List Nat) (n : Nat) (h : l.length = n + 1) :
    val l = val (l.take n) + B ^ n * topLimb l := by
  rw [val_take_drop l n (by omega), drop_eq_topLimb l n h]; simp

theorem two_pow_lt_B {k : Nat} (hk : k < 64) : 2 ^ k < B := by
  unfold B; exact Nat.pow_lt_pow_right (by norm_num) hk

theorem shiftUp_spec (up : List Nat) (k : Nat) (hl : Limbs up) (hne : up ≠ []) (ht : up.getLast? ≠ some 0)
    (hk64 : k < 64) :
    Limbs (shiftUp up k).1 ∧ (shiftUp up k).1.getLast? ≠ some 0 ∧
    (shiftUp up k).1.length = up.length + (shiftUp up k).2 ∧ (shiftUp up k).2 ≤ 1 ∧
    val (shiftUp up k).1 = val up * 2 ^ k := by
  have hn : 0 < up.length := List.length_pos_of_ne_nil hne
  have hlt : val up * 2 ^ k < B ^ (up.length + 1) := by
    have h1 := val_lt up hl
    have h2 := two_pow_lt_B hk64
    rw [pow_succ]; exact Nat.mul_lt_mul'' h1 h2
  have hge : B ^ (up.length - 1) ≤ val up * 2 ^ k := by
    have h1 := val_ge_of_top up hne ht
    have h2 : 1 ≤ 2 ^ k := Nat.one_le_two_pow
    nlinarith
  have hv := val_toLimbs_of_lt hlt
  have hlen := toLimbs_length (up.length + 1) (val up * 2 ^ k)
  have hlim := Limbs_toLimbs (up.length + 1) (val up * 2 ^ k)
  have hsplit := val_take_top _ _ hlen
  unfold shiftUp
  simp only
  generalize toLimbs (up.length + 1) (val up * 2 ^ k) = full at *
  by_cases h0 : topLimb full = 0
  · simp only [h0, ne_eq, not_true_eq_false, if_false, Nat.add_zero]
    have hval : val (full.take up.length) = val up * 2 ^ k := by rw [← hv, hsplit, h0]; simp
    have hl2 : (full.take up.length).length = up.length := by rw [List.length_take, hlen]; omega
    refine ⟨Limbs_take hlim _, ?_, hl2, by omega, hval⟩
    apply top_ne_zero_of_val_ge _ (Limbs_take hlim _)
    · intro hnil; rw [hnil] at hl2; simp at hl2; omega
    · rw [hl2, hval]; exact hge
  · simp only [h0, ne_eq, not_false_eq_true, if_true]
    have htk : full.take (up.length + 1) = full := List.take_of_length_le (by omega)
    rw [htk]
    refine ⟨hlim, ?_, hlen, by omega, hv⟩
    have hfne : full ≠ [] := by intro hnil; rw [hnil] at hlen; simp at hlen
    rw [getLast?_eq_topLimb full hfne]; simpa using h0

/-! ### abstraction -/

/-- the rational value of an mpf: ± val d · B^(exp - |size|) -/
def toQ (f : F) : ℚ :=
  (if f.size < 0 then -1 else 1) * (val f.d : ℚ) * (B : ℚ) ^ (f.exp - (f.d.length : ℤ))

/-- the property's relative error bound 2^(2-p), p = mpf_get_prec = 64·prec - 64 -/
def eps (prec : Nat) : ℚ := (2 : ℚ) ^ ((2 : ℤ) - (PREC_TO_BITS prec : ℤ))

theorem Bq_pos : (0 : ℚ) < (B : ℚ) := by exact_mod_cast B_pos
theorem Bq_ne : (B : ℚ) ≠ 0 := ne_of_gt Bq_pos
theorem Bq_eq : (B : ℚ) = 2 ^ 64 := by rw [B_eq]; norm_num

theorem toQ_mk (p : Nat) (c : Prop) [Decidable c] (e : Int) (l : List Nat) :
    toQ ⟨p, if c then (l.length : Int) else -(l.length : Int), e, l⟩ =
      (if c then 1 else -1) * (val l : ℚ) * (B : ℚ) ^ (e - (l.length : ℤ)) := by
  unfold toQ
  by_cases hc : c
  · simp [hc]
  · simp only [hc, if_false]
    by_cases hl : l = []
    · subst hl; simp
    · have : 0 < l.length := List.length_pos_of_ne_nil hl
      have h2 : -(l.length : Int) < 0 := by omega
      rw [if_pos h2]

theorem toQ_mk_neg (p : Nat) (c : Prop) [Decidable c] (e : Int) (l : List Nat) :
    toQ ⟨p, if c then -(l.length : Int) else (l.length : Int), e, l⟩ =
      (if c then -1 else 1) * (val l : ℚ) * (B : ℚ) ^ (e - (l.length : ℤ)) := by
  have := toQ_mk p (¬ c) e l
  by_cases hc : c
  · simp only [hc, not_true_eq_false, if_false, if_true] at this ⊢; exact this
  · simp only [hc, not_false_eq_true, if_false, if_true] at this ⊢; exact this

theorem toQ_zero (p : Nat) : toQ (zero p) = 0 := by simp [toQ, zero]

theorem toQ_of_size_zero {f : F} (h : f.d = []) : toQ f = 0 := by simp [toQ, h]

/-- numerators over a common positive scale: an integer inequality gives the rational error bound -/
theorem rel_err_scale (R E : ℤ) (s : ℚ) (hs : 0 < s) (p : ℕ) (h : |R - E| * 2 ^ p < 4 * |E|) :
    |(R : ℚ) * s - (E : ℚ) * s| < (2 : ℚ) ^ ((2 : ℤ) - (p : ℤ)) * |(E : ℚ) * s| := by
  have h' : ((|R - E| * 2 ^ p : ℤ) : ℚ) < ((4 * |E| : ℤ) : ℚ) := by exact_mod_cast h
  push_cast at h'
  have e1 : (R : ℚ) * s - E * s = ((R : ℚ) - E) * s := by ring
  rw [e1, abs_mul, abs_mul, abs_of_pos hs]
  have e2 : (2 : ℚ) ^ ((2 : ℤ) - (p : ℤ)) = 4 / 2 ^ p := by
    rw [zpow_sub₀ (by norm_num : (2 : ℚ) ≠ 0)]; norm_num
  rw [e2]
  have hp : (0 : ℚ) < 2 ^ p := by positivity
  rw [div_mul_eq_mul_div, lt_div_iff₀ hp]
  nlinarith


theorem toQ_def' (u : F) :
    toQ u = (if u.size ≥ 0 then 1 else -1) * (val u.d : ℚ) * (B : ℚ) ^ (u.exp - (u.d.length : ℤ)) := by
  unfold toQ
  by_cases h : u.size < 0
  · rw [if_pos h, if_neg (by omega)]
  · rw [if_neg h, if_pos (by omega)]

theorem Bzpow_add_nat (a : ℤ) (m : ℕ) : (B : ℚ) ^ (a + (m : ℤ)) = (B : ℚ) ^ a * 2 ^ (64 * m) := by
  rw [zpow_add₀ Bq_ne, zpow_natCast, Bq_eq, ← pow_mul]

theorem Bzpow_sub_nat (a : ℤ) (m : ℕ) : (B : ℚ) ^ (a - (m : ℤ)) = (B : ℚ) ^ a / 2 ^ (64 * m) := by
  rw [zpow_sub₀ Bq_ne, zpow_natCast, Bq_eq, ← pow_mul]

theorem two_pow_split (e : ℕ) : (2 : ℚ) ^ e = 2 ^ (e % 64) * 2 ^ (64 * (e / 64)) := by
  rw [← pow_add]; congr 1; omega

/-! ### integer and fraction part of the magnitude -/

/-- exponent ≤ 0: the magnitude lies strictly between 0 and 1 -/
theorem mag_lt_one (d : List Nat) (hl : Limbs d) (hne : d ≠ []) (ht : d.getLast? ≠ some 0) (e : ℤ) (he : e ≤ 0) :
    0 < (val d : ℚ) * (B : ℚ) ^ (e - (d.length : ℤ)) ∧ (val d : ℚ) * (B : ℚ) ^ (e - (d.length : ℤ)) < 1 := by
  have hpos : (0 : ℚ) < val d := by exact_mod_cast val_pos_of_top hne ht
  refine ⟨mul_pos hpos (zpow_pos Bq_pos _), ?_⟩
  obtain ⟨k, hk⟩ : ∃ k : ℕ, e - (d.length : ℤ) = -((d.length + k : ℕ) : ℤ) := ⟨(-e).toNat, by push_cast; omega⟩
  rw [hk, zpow_neg, zpow_natCast, ← div_eq_mul_inv, div_lt_one (pow_pos Bq_pos _)]
  have h1 : val d < B ^ d.length := val_lt d hl
  have h2 : B ^ d.length ≤ B ^ (d.length + k) := Nat.pow_le_pow_right B_pos (by omega)
  exact_mod_cast lt_of_lt_of_le h1 h2

/-- 0 < e < len: integer part = the top e limbs, fraction = the low limbs / B^k -/
theorem mag_split (d : List Nat) (e : ℕ) (he : e ≤ d.length) :
    (val d : ℚ) * (B : ℚ) ^ ((e : ℤ) - (d.length : ℤ)) =
      (val (top e d) : ℚ) + (val (d.take (d.length - e)) : ℚ) / (B : ℚ) ^ (d.length - e) := by
  have hk : (e : ℤ) - (d.length : ℤ) = -((d.length - e : ℕ) : ℤ) := by push_cast; omega
  rw [hk, zpow_neg, zpow_natCast]
  have hv : (val d : ℚ) = (val (d.take (d.length - e)) : ℚ) + (B : ℚ) ^ (d.length - e) * (val (top e d) : ℚ) := by
    exact_mod_cast val_top e d
  have hB : (B : ℚ) ^ (d.length - e) ≠ 0 := pow_ne_zero _ Bq_ne
  rw [hv]; field_simp; ring

/-- len ≤ e: the value is the natural number val d · B^(e - len) -/
theorem mag_int (d : List Nat) (e : ℤ) (he : (d.length : ℤ) ≤ e) :
    (val d : ℚ) * (B : ℚ) ^ (e - (d.length : ℤ)) = ((val d * B ^ (e - (d.length : ℤ)).toNat : ℕ) : ℚ) := by
  have : e - (d.length : ℤ) = (((e - (d.length : ℤ)).toNat : ℕ) : ℤ) := by omega
  rw [this, zpow_natCast]; push_cast; simp

theorem any_ne_zero_iff (l : List Nat) : l.any (· != 0) = true ↔ val l ≠ 0 := by
  induction l with
  | nil => simp
  | cons x xs ih =>
    simp only [List.any_cons, Bool.or_eq_true, ih, val_cons]
    have := B_pos
    constructor
    · rintro (h | h)
      · have : x ≠ 0 := by simpa using h
        omega
      · have : 0 < val xs := Nat.pos_of_ne_zero h
        nlinarith
    · intro h
      by_cases hx : x = 0
      · right; intro h0; rw [hx, h0] at h; simp at h
      · left; simpa using hx

theorem all_eq_zero_iff (l : List Nat) : l.all (· == 0) = true ↔ val l = 0 := by
  induction l with
  | nil => simp
  | cons x xs ih =>
    simp only [List.all_cons, Bool.and_eq_true, ih, val_cons]
    have := B_pos
    constructor
    · rintro ⟨h1, h2⟩
      have : x = 0 := by simpa using h1
      rw [this, h2]; simp
    · intro h
      have hx : x = 0 := by omega
      have hxs : B * val xs = 0 := by omega
      refine ⟨by simpa using hx, ?_⟩
      rcases Nat.mul_eq_zero.mp hxs with h' | h'
      · omega
      · exact h'

/-! ### format rules of constructed results -/

theorem WF_mk {p : Nat} {c : Prop} [Decidable c] {e : Int} {l : List Nat}
    (hl : Limbs l) (ht : l.getLast? ≠ some 0) (hn : l.length ≤ p + 1) (hz : l = [] → e = 0) :
    WF ⟨p, if c then (l.length : Int) else -(l.length : Int), e, l⟩ := by
  refine ⟨hl, ?_, ?_, ht, ?_⟩
  · by_cases hc : c <;> simp [hc]
  · by_cases hc : c <;> simp [hc] <;> omega
  · intro h
    apply hz
    have h : (if c then (l.length : Int) else -(l.length : Int)) = 0 := h
    have h0 : l.length = 0 := by
      by_cases hc : c
      · rw [if_pos hc] at h; omega
      · rw [if_neg hc] at h; omega
    exact List.eq_nil_of_length_eq_zero h0

theorem WF_mk_neg {p : Nat} {c : Prop} [Decidable c] {e : Int} {l : List Nat}
    (hl : Limbs l) (ht : l.getLast? ≠ some 0) (hn : l.length ≤ p + 1) (hz : l = [] → e = 0) :
    WF ⟨p, if c then -(l.length : Int) else (l.length : Int), e, l⟩ := by
  have := @WF_mk p (¬ c) _ e l hl ht hn hz
  by_cases hc : c
  · simp only [hc, not_true_eq_false, if_false, if_true] at this ⊢; exact this
  · simp only [hc, not_false_eq_true, if_false, if_true] at this ⊢; exact this

theorem WF_zero (p : Nat) : WF (zero p) := by
  refine ⟨Limbs_nil, rfl, by simp [zero], by simp [zero], fun _ => rfl⟩

theorem OpWF.d_nil {u : F} (hu : OpWF u) (h : u.size = 0) : u.d = [] :=
  List.eq_nil_of_length_eq_zero (by rw [hu.2.1, h]; rfl)

theorem OpWF.size_ne {u : F} (hu : OpWF u) (h : u.d ≠ []) : u.size ≠ 0 := by
  intro hs; exact h (hu.d_nil hs)

theorem OpWF.len_pos {u : F} (hu : OpWF u) (h : u.size ≠ 0) : 0 < u.d.length := by
  rw [hu.2.1]; omega

/-! ### natLimbs -/

theorem natLimbs_zero : natLimbs 0 = [] := by rw [natLimbs]; simp

theorem natLimbs_pos {v : Nat} (h : v ≠ 0) : natLimbs v = v % B :: natLimbs (v / B) := by
  rw [natLimbs]; simp [h]

theorem natLimbs_spec (v : Nat) :
    val (natLimbs v) = v ∧ Limbs (natLimbs v) ∧ (natLimbs v).getLast? ≠ some 0 ∧ (v = 0 → natLimbs v = []) := by
  induction v using Nat.strong_induction_on with
  | _ v ih =>
    by_cases h : v = 0
    · subst h; rw [natLimbs_zero]; simp [Limbs_nil]
    · rw [natLimbs_pos h]
      have hlt : v / B < v := Nat.div_lt_self (Nat.pos_of_ne_zero h) one_lt_B
      obtain ⟨i1, i2, i3, i4⟩ := ih _ hlt
      refine ⟨?_, Limbs_cons.mpr ⟨Nat.mod_lt _ B_pos, i2⟩, ?_, fun h0 => absurd h0 h⟩
      · rw [val_cons, i1]; exact Nat.mod_add_div v B
      · by_cases hq : v / B = 0
        · rw [i4 hq]
          have : v % B = v := Nat.mod_eq_of_lt ((Nat.div_eq_zero_iff.mp hq).resolve_left (by have := B_pos; omega))
          simp; omega
        · have hne : natLimbs (v / B) ≠ [] := by
            intro hnil; rw [hnil] at i1; simp at i1; exact hq i1.symm
          rw [List.getLast?_cons_of_ne_nil hne]; exact i3

/-! ### floor / ceil / trunc / integer_p: decomposition into integer and fraction part -/

def sg (u : F) : ℚ := if u.size < 0 then -1 else 1

theorem toQ_sg (u : F) : toQ u = sg u * ((val u.d : ℚ) * (B : ℚ) ^ (u.exp - (u.d.length : ℤ))) := by
  unfold toQ sg; ring

theorem toQ_mk' (p : Nat) (c : Prop) [Decidable c] (e : Int) (l : List Nat) (k : Nat) (hk : l.length = k) :
    toQ ⟨p, if c then (k : Int) else -(k : Int), e, l⟩ =
      (if c then 1 else -1) * (val l : ℚ) * (B : ℚ) ^ (e - (k : ℤ)) := by
  subst hk; exact toQ_mk p c e l

theorem round_decomp (prec : Nat) (u : F) (hu : OpWF u) (h0 : u.size ≠ 0)
    (hfit : min u.d.length u.exp.toNat ≤ prec + 1) (dir : ℤ) (hdir : dir = 1 ∨ dir = -1) :
    ∃ (I : ℕ) (f : ℚ), 0 ≤ f ∧ f < 1 ∧ toQ u = sg u * (I + f) ∧
      toQ (trunc prec u) = sg u * I ∧
      toQ (ceilOrFloor prec u dir) = sg u * (I + if ((u.size < 0) ↔ (dir < 0)) ∧ f ≠ 0 then 1 else 0) ∧
      (integer_p u = true ↔ f = 0) := by
  obtain ⟨hl, hlen, ht, _⟩ := hu
  have hne : u.d ≠ [] := by intro h; rw [h] at hlen; simp at hlen; omega
  have hsz : (if u.size ≥ 0 then (1 : ℚ) else -1) = sg u := by
    unfold sg; by_cases h : u.size < 0
    · rw [if_pos h, if_neg (by omega)]
    · rw [if_neg h, if_pos (by omega)]
  rcases le_or_gt u.exp 0 with he | he
  · -- only a fraction
    obtain ⟨m1, m2⟩ := mag_lt_one u.d hl hne ht u.exp he
    have hf : (val u.d : ℚ) * (B : ℚ) ^ (u.exp - (u.d.length : ℤ)) ≠ 0 := ne_of_gt m1
    refine ⟨0, _, le_of_lt m1, m2, by rw [toQ_sg]; simp, ?_, ?_, ?_⟩
    · unfold trunc; rw [if_pos (Or.inr he), toQ_zero]; simp
    · unfold ceilOrFloor; rw [if_neg h0, if_pos he]
      by_cases hs : u.size < 0 <;> rcases hdir with hd | hd <;> subst hd <;> simp [hs, sg, toQ, zero, hf, val]
    · unfold integer_p; rw [if_neg h0, if_pos he]; simp [hf]
  · -- exp > 0
    obtain ⟨e, hee⟩ : ∃ e : ℕ, u.exp = (e : ℤ) := ⟨u.exp.toNat, by omega⟩
    have hepos : 0 < e := by omega
    have hnt : ¬ (u.size = 0 ∨ u.exp ≤ 0) := by omega
    have hne0 : ¬ u.exp ≤ 0 := by omega
    have htn : u.exp.toNat = e := by omega
    rw [htn] at hfit
    rcases lt_or_ge e u.d.length with hlt | hge
    · -- integer part = top e limbs
      have hmin : min (min u.d.length e) (prec + 1) = e := by omega
      have hsplit := mag_split u.d e (le_of_lt hlt)
      have hlo := val_take_lt hl (u.d.length - e)
      have hBk : (0 : ℚ) < (B : ℚ) ^ (u.d.length - e) := pow_pos Bq_pos _
      have htl : (top e u.d).length = e := by rw [top_length]; omega
      refine ⟨val (top e u.d), (val (u.d.take (u.d.length - e)) : ℚ) / (B : ℚ) ^ (u.d.length - e),
        by positivity, ?_, ?_, ?_, ?_, ?_⟩
      · rw [div_lt_one hBk]; exact_mod_cast hlo
      · rw [toQ_sg, hee, hsplit]
      · unfold trunc; rw [if_neg hnt]; simp only [htn, hmin]
        rw [toQ_mk' _ _ _ _ _ htl, hsz, hee]; simp
      · unfold ceilOrFloor; rw [if_neg h0, if_neg hne0]; simp only [htn, hmin]
        have hcond : ((decide (u.size < 0) == decide (dir < 0)) = true ∧
              ((List.take (u.d.length - e) u.d).any fun x => x != 0) = true) ↔
            ((u.size < 0 ↔ dir < 0) ∧
              (val (List.take (u.d.length - e) u.d) : ℚ) / (B : ℚ) ^ (u.d.length - e) ≠ 0) := by
          rw [any_ne_zero_iff]
          have h1 : ((decide (u.size < 0) == decide (dir < 0)) = true) ↔ (u.size < 0 ↔ dir < 0) := by
            by_cases a : u.size < 0 <;> by_cases b : dir < 0 <;> simp [a, b]
          have h2 : val (List.take (u.d.length - e) u.d) ≠ 0 ↔
              (val (List.take (u.d.length - e) u.d) : ℚ) / (B : ℚ) ^ (u.d.length - e) ≠ 0 := by
            rw [Ne, Ne, div_eq_zero_iff]; simp [ne_of_gt hBk]
          rw [h1, h2]
        by_cases hc : ((u.size < 0 ↔ dir < 0) ∧
              (val (List.take (u.d.length - e) u.d) : ℚ) / (B : ℚ) ^ (u.d.length - e) ≠ 0)
        · rw [if_pos (hcond.mpr hc), if_pos hc]
          have hhi : val (top e u.d) < B ^ e := by
            have := val_lt _ (Limbs_top hl e); rwa [htl] at this
          by_cases hcy : (val (top e u.d) + 1) / B ^ e ≠ 0
          · rw [if_pos hcy]
            have hs : val (top e u.d) + 1 = B ^ e := by
              have : B ^ e ≤ val (top e u.d) + 1 := by
                by_contra hlt'; exact hcy (Nat.div_eq_of_lt (by omega))
              omega
            have h1l : ([1] : List Nat).length = 1 := rfl
            rw [toQ_mk' _ _ _ _ _ h1l, hsz, hee]
            have : ((val (top e u.d) : ℚ) + 1) = (B : ℚ) ^ e := by exact_mod_cast hs
            rw [this, show ((e : ℤ) + 1 - ((1 : ℕ) : ℤ)) = (e : ℤ) by push_cast; ring, zpow_natCast]
            simp [val]
          · rw [if_neg hcy]
            have hs : val (top e u.d) + 1 < B ^ e := by
              have := (Nat.div_eq_zero_iff.mp (not_not.mp hcy)); have := Bpow_pos e; omega
            rw [toQ_mk' _ _ _ _ _ (toLimbs_length e _), hsz, hee, val_toLimbs_of_lt hs]
            simp
        · rw [if_neg (fun h => hc (hcond.mp h)), if_neg hc]
          rw [toQ_mk' _ _ _ _ _ htl, hsz, hee]; simp
      · unfold integer_p; rw [if_neg h0, if_neg hne0]; simp only [htn]
        rw [all_eq_zero_iff, div_eq_zero_iff]; simp [ne_of_gt hBk]
    · -- the whole operand is integer part
      have hmin : min (min u.d.length e) (prec + 1) = u.d.length := by omega
      have hint := mag_int u.d u.exp (by omega)
      refine ⟨val u.d * B ^ (u.exp - (u.d.length : ℤ)).toNat, 0, le_refl _, by norm_num, ?_, ?_, ?_, ?_⟩
      · rw [toQ_sg, hint]; simp
      · unfold trunc; rw [if_neg hnt]; simp only [htn, hmin, top_of_le (le_refl _)]
        rw [toQ_mk, hsz, mul_assoc, hint]
      · unfold ceilOrFloor; rw [if_neg h0, if_neg hne0]; simp only [htn, hmin, top_of_le (le_refl _)]
        simp only [Nat.sub_self, List.take_zero, List.any_nil, Bool.false_eq_true, and_false, if_false]
        rw [toQ_mk, hsz, mul_assoc, hint]; simp
      · unfold integer_p; rw [if_neg h0, if_neg hne0]; simp only [htn]
        rw [Nat.sub_eq_zero_of_le hge]; simp

theorem floor_nat_add (I : ℕ) (f : ℚ) (h0 : 0 ≤ f) (h1 : f < 1) : ⌊(I : ℚ) + f⌋ = (I : ℤ) := by
  rw [Int.floor_eq_iff]; push_cast; constructor <;> linarith

theorem ceil_nat_add (I : ℕ) (f : ℚ) (h0 : 0 ≤ f) (h1 : f < 1) :
    ⌈(I : ℚ) + f⌉ = (I : ℤ) + if f ≠ 0 then 1 else 0 := by
  by_cases hf : f = 0
  · subst hf; simp
  · rw [if_pos hf, Int.ceil_eq_iff]; push_cast
    have : 0 < f := lt_of_le_of_ne h0 (Ne.symm hf)
    constructor <;> linarith

/-! ### multiplication -/

theorem val_take_of_top_zero (l : List Nat) (n : Nat) (h : l.length = n + 1) (h0 : topLimb l = 0) :
    val (l.take n) = val l := by
  rw [val_take_top l n h, h0]; simp

theorem mulLimbs_spec (prec : Nat) (up vp : List Nat)
    (hlu : Limbs up) (hnu : up ≠ []) (htu : up.getLast? ≠ some 0)
    (hlv : Limbs vp) (hnv : vp ≠ []) (htv : vp.getLast? ≠ some 0) :
    Limbs (mulLimbs prec up vp).1 ∧ (mulLimbs prec up vp).1.getLast? ≠ some 0 ∧
    (mulLimbs prec up vp).1 ≠ [] ∧ (mulLimbs prec up vp).2 ≤ 1 ∧
    (mulLimbs prec up vp).1.length = min (prec + 1) (up.length + vp.length - (mulLimbs prec up vp).2) ∧
    B ^ (up.length + vp.length - (mulLimbs prec up vp).2 - 1) ≤ val up * val vp ∧
    val up * val vp < B ^ (up.length + vp.length - (mulLimbs prec up vp).2) ∧
    ∃ lo, val up * val vp = lo + B ^ (up.length + vp.length - (mulLimbs prec up vp).2 - (mulLimbs prec up vp).1.length)
            * val (mulLimbs prec up vp).1 ∧
          lo < B ^ (up.length + vp.length - (mulLimbs prec up vp).2 - (mulLimbs prec up vp).1.length) := by
  have ha : 0 < up.length := List.length_pos_of_ne_nil hnu
  have hb : 0 < vp.length := List.length_pos_of_ne_nil hnv
  have hU1 := val_ge_of_top up hnu htu
  have hV1 := val_ge_of_top vp hnv htv
  have hU2 := val_lt up hlu
  have hV2 := val_lt vp hlv
  have hPlt : val up * val vp < B ^ (up.length + vp.length) := by
    rw [pow_add]; exact Nat.mul_lt_mul'' hU2 hV2
  have hPge : B ^ (up.length + vp.length - 2) ≤ val up * val vp := by
    have : up.length + vp.length - 2 = (up.length - 1) + (vp.length - 1) := by omega
    rw [this, pow_add]; exact Nat.mul_le_mul hU1 hV1
  have hv := val_toLimbs_of_lt hPlt
  have hlen := toLimbs_length (up.length + vp.length) (val up * val vp)
  have hlim := Limbs_toLimbs (up.length + vp.length) (val up * val vp)
  unfold mulLimbs
  simp only
  generalize toLimbs (up.length + vp.length) (val up * val vp) = tp at *
  generalize hP : val up * val vp = P at *
  -- the normalised product tp1
  have key : ∀ (adj : Nat) (tp1 : List Nat), adj ≤ 1 → Limbs tp1 → tp1.length = up.length + vp.length - adj →
      val tp1 = P → B ^ (up.length + vp.length - adj - 1) ≤ P →
      Limbs (top (prec + 1) tp1) ∧ (top (prec + 1) tp1).getLast? ≠ some 0 ∧ top (prec + 1) tp1 ≠ [] ∧ adj ≤ 1 ∧
      (top (prec + 1) tp1).length = min (prec + 1) (up.length + vp.length - adj) ∧
      B ^ (up.length + vp.length - adj - 1) ≤ P ∧ P < B ^ (up.length + vp.length - adj) ∧
      ∃ lo, P = lo + B ^ (up.length + vp.length - adj - (top (prec + 1) tp1).length) * val (top (prec + 1) tp1) ∧
        lo < B ^ (up.length + vp.length - adj - (top (prec + 1) tp1).length) := by
    intro adj tp1 hadj hl1 hlen1 hval1 hge1
    have hne1 : tp1 ≠ [] := by intro h; rw [h] at hlen1; simp at hlen1; omega
    have htop1 : tp1.getLast? ≠ some 0 := top_ne_zero_of_val_ge tp1 hl1 hne1 (by rw [hlen1, hval1]; exact hge1)
    have htl : (top (prec + 1) tp1).length = min (prec + 1) (up.length + vp.length - adj) := by
      rw [top_length, hlen1]
    have hup1 : P < B ^ (up.length + vp.length - adj) := by rw [← hval1, ← hlen1]; exact val_lt tp1 hl1
    refine ⟨Limbs_top hl1 _, by rw [getLast?_top (by omega)]; exact htop1, ?_, hadj, htl, hge1, hup1, ?_⟩
    · intro h; rw [h] at htl; simp at htl; omega
    · have hk : up.length + vp.length - adj - (top (prec + 1) tp1).length = tp1.length - (prec + 1) := by
        rw [htl, hlen1]; omega
      rw [hk]
      refine ⟨val (tp1.take (tp1.length - (prec + 1))), ?_, val_take_lt hl1 _⟩
      rw [← hval1]; exact val_top (prec + 1) tp1
  by_cases h0 : topLimb tp = 0
  · simp only [h0, if_true]
    have hl' : tp.length = (up.length + vp.length - 1) + 1 := by omega
    have hvt := val_take_of_top_zero tp _ hl' h0
    have hsplit := val_take_top tp _ hl'
    apply key 1 _ (le_refl _) (Limbs_take hlim _)
    · rw [List.length_take, hlen]; omega
    · rw [hvt, hv]
    · rw [show up.length + vp.length - 1 - 1 = up.length + vp.length - 2 by omega]; exact hPge
  · simp only [h0, if_false, Nat.sub_zero]
    have htk : tp.take (up.length + vp.length) = tp := List.take_of_length_le (by omega)
    rw [htk]
    have hl' : tp.length = (up.length + vp.length - 1) + 1 := by omega
    have hsplit := val_take_top tp _ hl'
    apply key 0 _ (by omega) hlim (by omega) hv
    rw [Nat.sub_zero, ← hv, hsplit]
    have : 1 ≤ topLimb tp := Nat.one_le_iff_ne_zero.mpr h0
    nlinarith [Bpow_pos (up.length + vp.length - 1)]


/-- the integer inequality behind `mpf_mul_err`:  E = exact product of the full operands,
    R = kept limbs, all over a common scale. Q = B^(prec-1) = 2^p. -/
theorem mul_core (U' V' lou lov lo Bku Bkv Bk rpv Q : ℕ)
    (hQ : B ≤ Q)
    (hP : U' * V' = lo + Bk * rpv)
    (hlou : lou < Bku) (hlov : lov < Bkv) (hlo : lo < Bk)
    (hu : Bku = 1 ∨ Q ≤ U') (hv : Bkv = 1 ∨ Q ≤ V') (hk : Bk = 1 ∨ Bk * Q * B ≤ U' * V')
    (hU : 1 ≤ U') (hV : 1 ≤ V') :
    rpv * Bk * Bku * Bkv ≤ (lou + Bku * U') * (lov + Bkv * V') ∧
    ((lou + Bku * U') * (lov + Bkv * V') - rpv * Bk * Bku * Bkv) * Q
      < 4 * ((lou + Bku * U') * (lov + Bkv * V')) := by
  have hB := B_ge_two
  have hE : (lou + Bku * U') * (lov + Bkv * V') =
      rpv * Bk * Bku * Bkv + (lou * lov + lou * Bkv * V' + lov * Bku * U' + lo * Bku * Bkv) := by
    have : Bku * U' * (Bkv * V') = Bku * Bkv * (U' * V') := by ring
    calc (lou + Bku * U') * (lov + Bkv * V')
        = lou * lov + lou * Bkv * V' + lov * Bku * U' + Bku * Bkv * (U' * V') := by ring
      _ = _ := by rw [hP]; ring
  refine ⟨by rw [hE]; exact Nat.le_add_right _ _, ?_⟩
  rw [hE, Nat.add_sub_cancel_left]
  set W := Bku * Bkv * U' * V' with hW
  have hWpos : 0 < W := by
    have : 0 < Bku := by omega
    have : 0 < Bkv := by omega
    positivity
  have hWE : W ≤ rpv * Bk * Bku * Bkv + (lou * lov + lou * Bkv * V' + lov * Bku * U' + lo * Bku * Bkv) := by
    rw [← hE, hW]; nlinarith [Nat.zero_le (lou * lov), Nat.zero_le (lou * Bkv * V'), Nat.zero_le (lov * Bku * U')]
  have t1 : lou * Bkv * V' * Q ≤ W := by
    rcases hu with h | h
    · have : lou = 0 := by omega
      rw [this]; simp
    · have : lou * Q ≤ Bku * U' := Nat.mul_le_mul (le_of_lt hlou) h
      calc lou * Bkv * V' * Q = (lou * Q) * (Bkv * V') := by ring
        _ ≤ (Bku * U') * (Bkv * V') := Nat.mul_le_mul_right _ this
        _ = W := by rw [hW]; ring
  have t2 : lov * Bku * U' * Q ≤ W := by
    rcases hv with h | h
    · have : lov = 0 := by omega
      rw [this]; simp
    · have : lov * Q ≤ Bkv * V' := Nat.mul_le_mul (le_of_lt hlov) h
      calc lov * Bku * U' * Q = (lov * Q) * (Bku * U') := by ring
        _ ≤ (Bkv * V') * (Bku * U') := Nat.mul_le_mul_right _ this
        _ = W := by rw [hW]; ring
  have t3 : lo * Bku * Bkv * Q * B ≤ W := by
    rcases hk with h | h
    · have : lo = 0 := by omega
      rw [this]; simp
    · have : lo * Q * B ≤ U' * V' := le_trans (Nat.mul_le_mul_right _ (Nat.mul_le_mul_right _ (le_of_lt hlo))) h
      calc lo * Bku * Bkv * Q * B = (lo * Q * B) * (Bku * Bkv) := by ring
        _ ≤ (U' * V') * (Bku * Bkv) := Nat.mul_le_mul_right _ this
        _ = W := by rw [hW]; ring
  have t4 : lou * lov * Q * B ≤ W := by
    rcases hu with h | h
    · have : lou = 0 := by omega
      rw [this]; simp
    · rcases hv with h' | h'
      · have : lov = 0 := by omega
        rw [this]; simp
      · have h1 : lou * lov ≤ Bku * Bkv := Nat.mul_le_mul (le_of_lt hlou) (le_of_lt hlov)
        have h2 : Q * B ≤ U' * V' := Nat.mul_le_mul h (le_trans hQ h')
        calc lou * lov * Q * B = (lou * lov) * (Q * B) := by ring
          _ ≤ (Bku * Bkv) * (U' * V') := Nat.mul_le_mul h1 h2
          _ = W := by rw [hW]; ring
  have hsum : (lou * lov + lou * Bkv * V' + lov * Bku * U' + lo * Bku * Bkv) * Q * B ≤ W * (2 * B + 2) := by
    have e : (lou * lov + lou * Bkv * V' + lov * Bku * U' + lo * Bku * Bkv) * Q * B
        = lou * lov * Q * B + (lou * Bkv * V' * Q) * B + (lov * Bku * U' * Q) * B + lo * Bku * Bkv * Q * B := by ring
    rw [e]
    have := Nat.mul_le_mul_right B t1
    have := Nat.mul_le_mul_right B t2
    nlinarith
  have hlt : W * (2 * B + 2) < 4 * W * B := by nlinarith
  have : (lou * lov + lou * Bkv * V' + lov * Bku * U' + lo * Bku * Bkv) * Q * B
      < 4 * (rpv * Bk * Bku * Bkv + (lou * lov + lou * Bkv * V' + lov * Bku * U' + lo * Bku * Bkv)) * B := by
    calc _ ≤ W * (2 * B + 2) := hsum
      _ < 4 * W * B := hlt
      _ ≤ _ := by
        apply Nat.mul_le_mul_right
        exact Nat.mul_le_mul_left 4 hWE
  exact Nat.lt_of_mul_lt_mul_right this



theorem top_facts (prec : Nat) (hp : 0 < prec) (d : List Nat) (hl : Limbs d) (hne : d ≠ []) (ht : d.getLast? ≠ some 0) :
    Limbs (top prec d) ∧ top prec d ≠ [] ∧ (top prec d).getLast? ≠ some 0 ∧
    (top prec d).length = min prec d.length ∧
    val d = val (d.take (d.length - prec)) + B ^ (d.length - prec) * val (top prec d) ∧
    val (d.take (d.length - prec)) < B ^ (d.length - prec) ∧
    (B ^ (d.length - prec) = 1 ∨ B ^ (prec - 1) ≤ val (top prec d)) := by
  have hn : 0 < d.length := List.length_pos_of_ne_nil hne
  have hlen := top_length prec d
  have hne' : top prec d ≠ [] := by intro h; rw [h] at hlen; simp at hlen; omega
  have ht' : (top prec d).getLast? ≠ some 0 := by rw [getLast?_top hp]; exact ht
  refine ⟨Limbs_top hl _, hne', ht', hlen, val_top prec d, val_take_lt hl _, ?_⟩
  rcases le_or_gt d.length prec with h | h
  · left; rw [Nat.sub_eq_zero_of_le h]; rfl
  · right
    have := val_ge_of_top _ hne' ht'
    rw [hlen, Nat.min_eq_left (le_of_lt h)] at this; exact this

theorem sg_mul (u v : F) :
    (if ((decide (u.size < 0)) != (decide (v.size < 0))) = true then (-1 : ℚ) else 1) = sg u * sg v := by
  unfold sg
  by_cases a : u.size < 0 <;> by_cases b : v.size < 0 <;> simp [a, b]

/-- everything the accuracy / exactness theorems need about `mul`, over a common scale `s`. -/
theorem mul_decomp (prec : Nat) (u v : F) (hu : OpWF u) (hv : OpWF v) (hp : 2 ≤ prec)
    (hu0 : u.size ≠ 0) (hv0 : v.size ≠ 0) :
    WF (mul prec u v) ∧
    ∃ (U' V' lou lov lo ku kv k rpv : ℕ) (z : ℤ),
      toQ (mul prec u v) = sg u * sg v * ((rpv * B ^ k * B ^ ku * B ^ kv : ℕ) : ℚ) * (B : ℚ) ^ z ∧
      toQ u * toQ v = sg u * sg v * (((lou + B ^ ku * U') * (lov + B ^ kv * V') : ℕ) : ℚ) * (B : ℚ) ^ z ∧
      val u.d = lou + B ^ ku * U' ∧ val v.d = lov + B ^ kv * V' ∧
      U' * V' = lo + B ^ k * rpv ∧ lou < B ^ ku ∧ lov < B ^ kv ∧ lo < B ^ k ∧
      (B ^ ku = 1 ∨ B ^ (prec - 1) ≤ U') ∧ (B ^ kv = 1 ∨ B ^ (prec - 1) ≤ V') ∧
      (B ^ k = 1 ∨ B ^ k * B ^ (prec - 1) * B ≤ U' * V') ∧ 1 ≤ U' ∧ 1 ≤ V' ∧
      ku = u.d.length - prec ∧ kv = v.d.length - prec ∧
      (∃ L, B ^ (L - 1) ≤ U' * V' ∧ k = L - (prec + 1)) := by
  have hnu : u.d ≠ [] := by intro h; have := hu.2.1; rw [h] at this; simp at this; omega
  have hnv : v.d ≠ [] := by intro h; have := hv.2.1; rw [h] at this; simp at this; omega
  obtain ⟨a1, a2, a3, a4, a5, a6, a7⟩ := top_facts prec (by omega) u.d hu.1 hnu hu.2.2.1
  obtain ⟨b1, b2, b3, b4, b5, b6, b7⟩ := top_facts prec (by omega) v.d hv.1 hnv hv.2.2.1
  obtain ⟨m1, m2, m3, m4, m5, m6, m9, lo, m7, m8⟩ := mulLimbs_spec prec _ _ a1 a2 a3 b1 b2 b3
  have hua : ¬ ((top prec u.d).length = 0 ∨ (top prec v.d).length = 0) := by
    have := List.length_pos_of_ne_nil a2; have := List.length_pos_of_ne_nil b2; omega
  have hPlt : val (top prec u.d) * val (top prec v.d) < B ^ ((top prec u.d).length + (top prec v.d).length) := by
    rw [pow_add]; exact Nat.mul_lt_mul'' (val_lt _ a1) (val_lt _ b1)
  unfold mul
  simp only [hua, if_false]
  generalize mulLimbs prec (top prec u.d) (top prec v.d) = r at *
  obtain ⟨rp, adj⟩ := r
  simp only at m1 m2 m3 m4 m5 m6 m7 m8 m9 ⊢
  refine ⟨?_, ?_⟩
  · exact WF_mk_neg m1 m2 (by rw [m5]; omega) (fun h => absurd h m3)
  · set a := (top prec u.d).length with ha
    set b := (top prec v.d).length with hb
    refine ⟨val (top prec u.d), val (top prec v.d), val (u.d.take (u.d.length - prec)),
      val (v.d.take (v.d.length - prec)), lo, u.d.length - prec, v.d.length - prec, a + b - adj - rp.length, val rp,
      u.exp - (u.d.length : ℤ) + (v.exp - (v.d.length : ℤ)), ?_, ?_,
      a5, b5, m7, a6, b6, m8, a7, b7, ?_, val_pos_of_top a2 a3, val_pos_of_top b2 b3, rfl, rfl, ?_⟩
    · -- value of the result
      rw [toQ_mk_neg, sg_mul]
      have hle : rp.length ≤ a + b - adj := by rw [m5]; omega
      have hle2 : adj ≤ a + b := by omega
      have hau : a + (u.d.length - prec) = u.d.length := by omega
      have hbv : b + (v.d.length - prec) = v.d.length := by omega
      have e3 : u.exp + v.exp - (adj : ℤ) - (rp.length : ℤ) =
          (((a + b - adj - rp.length) + (u.d.length - prec) + (v.d.length - prec) : ℕ) : ℤ)
            + (u.exp - (u.d.length : ℤ) + (v.exp - (v.d.length : ℤ))) := by
        omega
      rw [e3, zpow_add₀ Bq_ne, zpow_natCast]
      push_cast
      rw [pow_add, pow_add]; ring
    · rw [toQ_sg u, toQ_sg v, ← a5, ← b5, zpow_add₀ Bq_ne]; push_cast; ring
    · -- the dropped part of the product is at most P / B^prec
      rcases Nat.eq_zero_or_pos (a + b - adj - rp.length) with h | h
      · left; rw [h]; rfl
      · right
        have hrl : rp.length = prec + 1 := by rw [m5]; omega
        have : a + b - adj - 1 = (a + b - adj - rp.length) + (prec - 1) + 1 := by omega
        rw [this, pow_add, pow_add, pow_one] at m6
        exact m6
    · exact ⟨a + b - adj, m6, by rw [m5]; omega⟩


/-! ### representability in p bits -/

/-- x is a dyadic rational whose significand needs at most p bits -/
def Fits (x : ℚ) (p : ℕ) : Prop := ∃ (m : ℤ) (k : ℤ), x = m * (2 : ℚ) ^ k ∧ |m| < 2 ^ p

/-- natural-number form -/
def FitsN (N : ℕ) (p : ℕ) : Prop := ∃ m j : ℕ, N = m * 2 ^ j ∧ m < 2 ^ p

theorem fitsN_of_mul_pow {N t p : ℕ} (h : FitsN (N * 2 ^ t) p) : FitsN N p := by
  obtain ⟨m, j, hm, hp⟩ := h
  rcases le_or_gt t j with hle | hgt
  · refine ⟨m, j - t, ?_, hp⟩
    have : m * 2 ^ j = m * 2 ^ (j - t) * 2 ^ t := by rw [mul_assoc, ← pow_add]; congr 2; omega
    rw [this] at hm
    exact Nat.eq_of_mul_eq_mul_right (Nat.two_pow_pos _) hm
  · refine ⟨N, 0, by simp, ?_⟩
    have : N * 2 ^ (t - j) * 2 ^ j = m * 2 ^ j := by rw [mul_assoc, ← pow_add, ← hm]; congr 2; omega
    have h2 : N * 2 ^ (t - j) = m := Nat.eq_of_mul_eq_mul_right (Nat.two_pow_pos _) this
    have : N ≤ N * 2 ^ (t - j) := Nat.le_mul_of_pos_right _ (Nat.two_pow_pos _)
    omega

theorem fitsN_of_fits {σ : ℚ} (hσ : σ = 1 ∨ σ = -1) (N : ℕ) (z : ℤ) (p : ℕ)
    (h : Fits (σ * (N : ℚ) * (B : ℚ) ^ z) p) : FitsN N p := by
  obtain ⟨m, k, hm, hp⟩ := h
  -- |m| · 2^k = N · 2^(64 z)
  have habs : (N : ℚ) * (2 : ℚ) ^ (64 * z) = (m.natAbs : ℚ) * (2 : ℚ) ^ k := by
    have h1 : |σ * (N : ℚ) * (B : ℚ) ^ z| = (N : ℚ) * (2 : ℚ) ^ (64 * z) := by
      have : (B : ℚ) ^ z = (2 : ℚ) ^ (64 * z) := by rw [Bq_eq, zpow_mul]; norm_num
      rw [abs_mul, abs_mul, this]
      rcases hσ with h | h <;> rw [h] <;> simp [abs_of_pos (zpow_pos (by norm_num : (0:ℚ) < 2) _)]
    have h2 : |(m : ℚ) * (2 : ℚ) ^ k| = (m.natAbs : ℚ) * (2 : ℚ) ^ k := by
      rw [abs_mul, abs_of_pos (zpow_pos (by norm_num : (0:ℚ) < 2) k)]
      congr 1; rw [Nat.cast_natAbs]; push_cast; rfl
    rw [← h1, hm, h2]
  have hp' : m.natAbs < 2 ^ p := by
    have : (m.natAbs : ℤ) < 2 ^ p := by rw [Int.natCast_natAbs]; exact hp
    exact_mod_cast this
  -- bring to naturals: N · 2^a = |m| · 2^b with a, b naturals
  have two_ne : (2 : ℚ) ≠ 0 := by norm_num
  rcases le_or_gt (64 * z) k with hle | hgt
  · obtain ⟨j, hj⟩ : ∃ j : ℕ, k = 64 * z + j := ⟨(k - 64 * z).toNat, by omega⟩
    rw [hj, zpow_add₀ two_ne, zpow_natCast] at habs
    have hz : (2 : ℚ) ^ (64 * z) ≠ 0 := zpow_ne_zero _ two_ne
    have : (N : ℚ) = (m.natAbs : ℚ) * 2 ^ j := by
      have := habs; field_simp at this; linarith
    exact ⟨m.natAbs, j, by exact_mod_cast this, hp'⟩
  · obtain ⟨j, hj⟩ : ∃ j : ℕ, 64 * z = k + j := ⟨(64 * z - k).toNat, by omega⟩
    rw [hj, zpow_add₀ two_ne, zpow_natCast] at habs
    have hz : (2 : ℚ) ^ k ≠ 0 := zpow_ne_zero _ two_ne
    have : (N : ℚ) * 2 ^ j = (m.natAbs : ℚ) := by
      have := habs; field_simp at this; linarith
    have hn : N * 2 ^ j = m.natAbs := by exact_mod_cast this
    refine ⟨N, 0, by simp, ?_⟩
    have : N ≤ N * 2 ^ j := Nat.le_mul_of_pos_right _ (Nat.two_pow_pos _)
    omega

/-- a number with n limbs (top limb non-zero) that fits in 64(prec-1) bits has its low n-prec limbs zero -/
theorem fitsN_dvd {N n prec : ℕ} (h : FitsN N (64 * (prec - 1))) (hn : B ^ (n - 1) ≤ N) (hp : 1 ≤ prec) :
    B ^ (n - prec) ∣ N := by
  obtain ⟨m, j, hm, hmp⟩ := h
  rcases Nat.eq_zero_or_pos (n - prec) with h0 | h0
  · rw [h0]; simp
  · have hlt : 2 ^ (64 * (n - 1)) < 2 ^ (64 * (prec - 1) + j) := by
      have h1 : 2 ^ (64 * (n - 1)) ≤ N := by
        have : B ^ (n - 1) = 2 ^ (64 * (n - 1)) := by unfold B; rw [← pow_mul]
        rw [← this]; exact hn
      have h2 : N < 2 ^ (64 * (prec - 1)) * 2 ^ j := by
        rw [hm]; exact Nat.mul_lt_mul_of_pos_right hmp (Nat.two_pow_pos _)
      rw [pow_add]; omega
    have hj : 64 * (n - prec) ≤ j := by
      have := (Nat.pow_lt_pow_iff_right (by norm_num : 1 < 2)).mp hlt
      omega
    have : B ^ (n - prec) = 2 ^ (64 * (n - prec)) := by unfold B; rw [← pow_mul]
    rw [this, hm]
    exact Dvd.dvd.mul_left (Nat.pow_dvd_pow 2 hj) m

theorem low_zero_of_dvd {N lo hi K : ℕ} (h : N = lo + K * hi) (hlo : lo < K) (hd : K ∣ N) : lo = 0 := by
  have : K ∣ lo := by
    have h2 : K ∣ K * hi := Dvd.intro _ rfl
    rw [h] at hd
    exact (Nat.dvd_add_left h2).mp hd
  exact Nat.eq_zero_of_dvd_of_lt this hlo


theorem Bpow_eq_two_pow (prec : ℕ) : B ^ (prec - 1) = 2 ^ (PREC_TO_BITS prec) := by
  unfold B PREC_TO_BITS; rw [← pow_mul]; congr 1; omega

theorem sg_cases (u : F) : sg u = 1 ∨ sg u = -1 := by
  unfold sg; by_cases h : u.size < 0 <;> simp [h]

/-- from the integer inequality to the property's bound -/
theorem err_of_nat (σ : ℚ) (hσ : σ = 1 ∨ σ = -1) (R E : ℕ) (s : ℚ) (hs : 0 < s) (prec : ℕ)
    (hle : R ≤ E) (h : (E - R) * B ^ (prec - 1) < 4 * E) :
    |σ * (R : ℚ) * s - σ * (E : ℚ) * s| < eps prec * |σ * (E : ℚ) * s| := by
  have key := rel_err_scale (R : ℤ) (E : ℤ) s hs (PREC_TO_BITS prec) (by
    have h1 : |(R : ℤ) - (E : ℤ)| = ((E - R : ℕ) : ℤ) := by
      rw [abs_sub_comm, abs_of_nonneg (by omega)]; omega
    rw [h1, abs_of_nonneg (by omega : (0 : ℤ) ≤ (E : ℤ))]
    rw [Bpow_eq_two_pow] at h
    exact_mod_cast h)
  unfold eps
  rcases hσ with h1 | h1 <;> rw [h1]
  · simpa using key
  · have e1 : (-1 : ℚ) * (R : ℚ) * s - -1 * (E : ℚ) * s = -((R : ℚ) * s - (E : ℚ) * s) := by ring
    have e2 : (-1 : ℚ) * (E : ℚ) * s = -((E : ℚ) * s) := by ring
    rw [e1, e2, abs_neg, abs_neg]; simpa using key


/-- keeping the top prec+1 limbs of a normalised vector: decomposition and error bound -/
theorem top_trunc (prec : Nat) (hp : 1 ≤ prec) (d : List Nat) (hl : Limbs d) (hne : d ≠ []) (ht : d.getLast? ≠ some 0) :
    Limbs (top (prec + 1) d) ∧ top (prec + 1) d ≠ [] ∧ (top (prec + 1) d).getLast? ≠ some 0 ∧
    (top (prec + 1) d).length = min (prec + 1) d.length ∧
    val (top (prec + 1) d) * B ^ (d.length - (prec + 1)) ≤ val d ∧
    (val d - val (top (prec + 1) d) * B ^ (d.length - (prec + 1))) * B ^ (prec - 1) < 4 * val d ∧
    (B ^ (d.length - prec) ∣ val d → val (top (prec + 1) d) * B ^ (d.length - (prec + 1)) = val d) := by
  obtain ⟨t1, t2, t3, t4, t5, t6, _⟩ := top_facts (prec + 1) (by omega) d hl hne ht
  have hpos := val_pos_of_top hne ht
  have hge := val_ge_of_top d hne ht
  refine ⟨t1, t2, t3, t4, by rw [t5]; nlinarith, ?_, ?_⟩
  · have e : val d - val (top (prec + 1) d) * B ^ (d.length - (prec + 1)) = val (d.take (d.length - (prec + 1))) := by
      rw [t5]; rw [mul_comm]; omega
    rw [e]
    rcases Nat.eq_zero_or_pos (d.length - (prec + 1)) with h | h
    · rw [h] at t6 ⊢; simp at t6 ⊢; omega
    · have h1 : d.length - 1 = (d.length - (prec + 1)) + (prec - 1) + 1 := by omega
      rw [h1, pow_add, pow_add, pow_one] at hge
      have h2 : val (d.take (d.length - (prec + 1))) * B ^ (prec - 1) < B ^ (d.length - (prec + 1)) * B ^ (prec - 1) :=
        Nat.mul_lt_mul_of_pos_right t6 (Bpow_pos _)
      have := B_ge_two
      nlinarith
  · intro hd
    have hd' : B ^ (d.length - (prec + 1)) ∣ val d := Dvd.dvd.trans (Nat.pow_dvd_pow B (by omega)) hd
    have := low_zero_of_dvd t5 t6 hd'
    rw [t5, this]; ring


/-! ### addition -/

theorem addv_spec (x y : List Nat) (hx : Limbs x) (hy : Limbs y) (hlen : y.length ≤ x.length) :
    val (addv x y).1 + B ^ x.length * (addv x y).2 = val x + val y ∧ (addv x y).1.length = x.length ∧
    Limbs (addv x y).1 ∧ (addv x y).2 ≤ 1 := by
  unfold addv
  simp only
  have h1 := val_lt x hx
  have h2 : val y < B ^ x.length := lt_of_lt_of_le (val_lt y hy) (Nat.pow_le_pow_right B_pos hlen)
  refine ⟨?_, toLimbs_length _ _, Limbs_toLimbs _ _, ?_⟩
  · rw [val_toLimbs]; exact Nat.mod_add_div _ _
  · have : val x + val y < 2 * B ^ x.length := by omega
    have := (Nat.div_lt_iff_lt_mul (Bpow_pos x.length)).mpr this
    omega

theorem val_replicate_zero (k : Nat) : val (List.replicate k 0) = 0 := by
  induction k with
  | zero => rfl
  | succ k ih => simp [List.replicate_succ, ih]

theorem Limbs_replicate_zero (k : Nat) : Limbs (List.replicate k 0) := by
  intro x hx; rw [List.mem_replicate] at hx; rw [hx.2]; exact B_pos

theorem addLimbs_spec (up vp : List Nat) (ed : Nat) (hlu : Limbs up) (hlv : Limbs vp) :
    (addLimbs up vp ed).1.length = max up.length (vp.length + ed) ∧ Limbs (addLimbs up vp ed).1 ∧
    (addLimbs up vp ed).2 ≤ 1 ∧
    val (addLimbs up vp ed).1 + B ^ (max up.length (vp.length + ed)) * (addLimbs up vp ed).2 =
      val up * B ^ (max up.length (vp.length + ed) - up.length) +
      val vp * B ^ (max up.length (vp.length + ed) - ed - vp.length) := by
  unfold addLimbs
  simp only
  by_cases h1 : up.length > ed
  · rw [if_pos h1]
    by_cases h2 : vp.length + ed ≤ up.length
    · rw [if_pos h2]
      have hm : max up.length (vp.length + ed) = up.length := by omega
      rw [hm]
      obtain ⟨s1, s2, s3, s4⟩ := addv_spec (up.drop (up.length - ed - vp.length)) vp (Limbs_drop hlu _) hlv
        (by rw [List.length_drop]; omega)
      generalize addv (up.drop (up.length - ed - vp.length)) vp = r at *
      obtain ⟨hi, cy⟩ := r
      simp only at s1 s2 s3 s4 ⊢
      have hdl : (up.drop (up.length - ed - vp.length)).length = ed + vp.length := by rw [List.length_drop]; omega
      have htl : (up.take (up.length - ed - vp.length)).length = up.length - ed - vp.length := by
        rw [List.length_take]; omega
      refine ⟨by rw [List.length_append, htl, s2, hdl]; omega, Limbs_append.mpr ⟨Limbs_take hlu _, s3⟩, s4, ?_⟩
      rw [val_append, htl]
      have hsplit := val_take_drop up (up.length - ed - vp.length) (by omega)
      rw [hdl] at s1
      have e1 : up.length = (up.length - ed - vp.length) + (ed + vp.length) := by omega
      have e2 : B ^ up.length = B ^ (up.length - ed - vp.length) * B ^ (ed + vp.length) := by rw [← pow_add, ← e1]
      rw [Nat.sub_self, pow_zero, mul_one, e2, hsplit]
      have h := congrArg (fun t => B ^ (up.length - ed - vp.length) * t) s1
      simp only [mul_add] at h
      linarith
    · rw [if_neg h2]
      have hm : max up.length (vp.length + ed) = vp.length + ed := by omega
      rw [hm]
      obtain ⟨s1, s2, s3, s4⟩ := addv_spec up (vp.drop (vp.length + ed - up.length)) hlu (Limbs_drop hlv _)
        (by rw [List.length_drop]; omega)
      generalize addv up (vp.drop (vp.length + ed - up.length)) = r at *
      obtain ⟨hi, cy⟩ := r
      simp only at s1 s2 s3 s4 ⊢
      have htl : (vp.take (vp.length + ed - up.length)).length = vp.length + ed - up.length := by
        rw [List.length_take]; omega
      refine ⟨by rw [List.length_append, htl, s2]; omega, Limbs_append.mpr ⟨Limbs_take hlv _, s3⟩, s4, ?_⟩
      rw [val_append, htl]
      have hsplit := val_take_drop vp (vp.length + ed - up.length) (by omega)
      have e2 : B ^ (vp.length + ed) = B ^ (vp.length + ed - up.length) * B ^ up.length := by
        rw [← pow_add]; congr 1; omega
      rw [show vp.length + ed - ed - vp.length = 0 by omega, pow_zero, mul_one, e2, hsplit]
      have h := congrArg (fun t => B ^ (vp.length + ed - up.length) * t) s1
      simp only [mul_add] at h
      linarith
  · rw [if_neg h1]
    have hm : max up.length (vp.length + ed) = vp.length + ed := by omega
    rw [hm]
    refine ⟨by simp; omega, Limbs_append.mpr ⟨Limbs_append.mpr ⟨hlv, Limbs_replicate_zero _⟩, hlu⟩, by omega, ?_⟩
    rw [val_append, val_append, val_replicate_zero]
    simp only [List.length_append, List.length_replicate, mul_zero, add_zero]
    rw [show vp.length + ed - ed - vp.length = 0 by omega, pow_zero, mul_one,
      show vp.length + (ed - up.length) = vp.length + ed - up.length by omega]
    ring



/-- value of the limbs `d` placed with exponent `e` -/
def qv (d : List Nat) (e : ℤ) : ℚ := (val d : ℚ) * (B : ℚ) ^ (e - (d.length : ℤ))

theorem qv_nonneg (d : List Nat) (e : ℤ) : 0 ≤ qv d e :=
  mul_nonneg (by positivity) (le_of_lt (zpow_pos Bq_pos _))

theorem qv_lt (d : List Nat) (e : ℤ) (hl : Limbs d) : qv d e < (B : ℚ) ^ e := by
  unfold qv
  have h1 : (val d : ℚ) < (B : ℚ) ^ d.length := by exact_mod_cast val_lt d hl
  have h2 : (B : ℚ) ^ e = (B : ℚ) ^ d.length * (B : ℚ) ^ (e - (d.length : ℤ)) := by
    rw [← zpow_natCast, ← zpow_add₀ Bq_ne]; congr 1; ring
  rw [h2]; exact mul_lt_mul_of_pos_right h1 (zpow_pos Bq_pos _)

theorem qv_ge (d : List Nat) (e : ℤ) (hne : d ≠ []) (ht : d.getLast? ≠ some 0) : (B : ℚ) ^ (e - 1) ≤ qv d e := by
  unfold qv
  have h1 : ((B ^ (d.length - 1) : ℕ) : ℚ) ≤ (val d : ℚ) := by exact_mod_cast val_ge_of_top d hne ht
  have hn : 0 < d.length := List.length_pos_of_ne_nil hne
  have h2 : (B : ℚ) ^ (e - 1) = ((B ^ (d.length - 1) : ℕ) : ℚ) * (B : ℚ) ^ (e - (d.length : ℤ)) := by
    push_cast; rw [← zpow_natCast, ← zpow_add₀ Bq_ne]; congr 1
    have : ((d.length - 1 : ℕ) : ℤ) = (d.length : ℤ) - 1 := by omega
    rw [this]; ring
  rw [h2]; exact mul_le_mul_of_nonneg_right h1 (le_of_lt (zpow_pos Bq_pos _))

/-- dropping the k low limbs -/
theorem qv_split (d : List Nat) (e : ℤ) (k : ℕ) (hk : k ≤ d.length) :
    qv d e = (val (d.take k) : ℚ) * (B : ℚ) ^ (e - (d.length : ℤ)) + qv (d.drop k) e := by
  unfold qv
  have h := val_take_drop d k hk
  rw [h, List.length_drop]; push_cast
  have : (B : ℚ) ^ k * (B : ℚ) ^ (e - (d.length : ℤ)) = (B : ℚ) ^ (e - ((d.length - k : ℕ) : ℤ)) := by
    rw [← zpow_natCast, ← zpow_add₀ Bq_ne]; congr 1; omega
  rw [← this]; ring

theorem qv_top (n : ℕ) (d : List Nat) (e : ℤ) :
    qv d e = (val (d.take (d.length - n)) : ℚ) * (B : ℚ) ^ (e - (d.length : ℤ)) + qv (top n d) e := by
  unfold top; exact qv_split d e _ (Nat.sub_le _ _)

/-- the result limbs with an optional carry limb on top -/
theorem qv_carry (tp : List Nat) (cy : ℕ) (e : ℤ) (hcy : cy ≤ 1) :
    qv (if cy ≠ 0 then tp ++ [cy] else tp) (e + cy) =
      ((val tp + B ^ tp.length * cy : ℕ) : ℚ) * (B : ℚ) ^ (e - (tp.length : ℤ)) := by
  unfold qv
  rcases Nat.eq_zero_or_pos cy with h | h
  · subst h; simp
  · have : cy = 1 := by omega
    subst this
    simp only [ne_eq, one_ne_zero, not_false_eq_true, if_true, val_append, List.length_append, List.length_cons,
      List.length_nil]
    congr 1
    · simp


theorem val_take_drop_any (l : List Nat) (k : Nat) : val l = val (l.take k) + B ^ k * val (l.drop k) := by
  rcases le_or_gt k l.length with h | h
  · exact val_take_drop l k h
  · rw [List.take_of_length_le (le_of_lt h), List.drop_eq_nil_of_le (le_of_lt h)]; simp

theorem selV_eq (prec : Nat) (vd : List Nat) (ediff : ℤ) :
    selV prec vd ediff = vd.drop ((vd.length : ℤ) + ediff - prec).toNat := by
  unfold selV
  by_cases h : (vd.length : ℤ) + ediff > prec
  · rw [if_pos h]
  · rw [if_neg h]
    have : ((vd.length : ℤ) + ediff - prec).toNat = 0 := by omega
    rw [this]; rfl

theorem zpow_le_zpow_B {a b : ℤ} (h : a ≤ b) : (B : ℚ) ^ a ≤ (B : ℚ) ^ b :=
  zpow_le_zpow_right₀ (by exact_mod_cast (le_of_lt one_lt_B)) h

/-- low-part bound: lo < B^k limbs dropped below a number with n limbs and exponent e -/
theorem low_lt (lo k n : ℕ) (e : ℤ) (h : lo < B ^ k) :
    (lo : ℚ) * (B : ℚ) ^ (e - (n : ℤ)) < (B : ℚ) ^ (e - (n : ℤ) + (k : ℤ)) := by
  rw [zpow_add₀ Bq_ne, zpow_natCast, mul_comm ((B : ℚ) ^ (e - (n : ℤ)))]
  exact mul_lt_mul_of_pos_right (by exact_mod_cast h) (zpow_pos Bq_pos _)

theorem addMag_spec (prec : ℕ) (hp : 1 ≤ prec) (ud vd : List Nat) (uexp vexp : ℤ)
    (hlu : Limbs ud) (hnu : ud ≠ []) (htu : ud.getLast? ≠ some 0)
    (hlv : Limbs vd) (hnv : vd ≠ []) (hexp : vexp ≤ uexp) :
    Limbs (addMag prec ud uexp vd vexp).1 ∧ (addMag prec ud uexp vd vexp).1 ≠ [] ∧
    (addMag prec ud uexp vd vexp).1.getLast? ≠ some 0 ∧ (addMag prec ud uexp vd vexp).1.length ≤ prec + 1 ∧
    ∃ (lou lov kv : ℕ) (V' : ℕ),
      qv (addMag prec ud uexp vd vexp).1 (addMag prec ud uexp vd vexp).2 =
        qv ud uexp + qv vd vexp - (lou : ℚ) * (B : ℚ) ^ (uexp - (ud.length : ℤ))
          - (lov : ℚ) * (B : ℚ) ^ (vexp - (vd.length : ℤ)) ∧
      (lou : ℚ) * (B : ℚ) ^ (uexp - (ud.length : ℤ)) < (B : ℚ) ^ (uexp - (prec : ℤ)) ∧
      (lov : ℚ) * (B : ℚ) ^ (vexp - (vd.length : ℤ)) < (B : ℚ) ^ (uexp - (prec : ℤ)) ∧
      val ud = lou + B ^ (ud.length - prec) * val (top prec ud) ∧ lou < B ^ (ud.length - prec) ∧
      val vd = lov + B ^ kv * V' ∧ lov < B ^ kv ∧ kv = ((vd.length : ℤ) + (uexp - vexp) - prec).toNat := by
  obtain ⟨t1, t2, t3, t4, t5, t6, _⟩ := top_facts prec (by omega) ud hlu hnu htu
  have hnul : 0 < ud.length := List.length_pos_of_ne_nil hnu
  have hnvl : 0 < vd.length := List.length_pos_of_ne_nil hnv
  set kv := ((vd.length : ℤ) + (uexp - vexp) - prec).toNat with hkv
  have hV := val_take_drop_any vd kv
  have hlov := val_take_lt hlv kv
  have hlouq : ((val (ud.take (ud.length - prec)) : ℕ) : ℚ) * (B : ℚ) ^ (uexp - (ud.length : ℤ)) < (B : ℚ) ^ (uexp - (prec : ℤ)) := by
    rcases Nat.eq_zero_or_pos (ud.length - prec) with h | h
    · rw [h]; simp; exact zpow_pos Bq_pos _
    · have := low_lt _ _ ud.length uexp t6
      have e : uexp - (ud.length : ℤ) + ((ud.length - prec : ℕ) : ℤ) = uexp - (prec : ℤ) := by omega
      rwa [e] at this
  unfold addMag
  simp only [selV_eq, ← hkv]
  by_cases hbig : uexp - vexp ≥ (prec : ℤ)
  · -- V entirely below the precision window
    rw [if_pos hbig]
    refine ⟨t1, t2, t3, by rw [t4]; omega, val (ud.take (ud.length - prec)), val vd, kv, 0, ?_, hlouq, ?_, t5, t6, ?_, ?_, rfl⟩
    · have := qv_top prec ud uexp
      rw [this]; unfold qv; ring
    · have h1 : (val vd : ℚ) * (B : ℚ) ^ (vexp - (vd.length : ℤ)) < (B : ℚ) ^ vexp := qv_lt vd vexp hlv
      exact lt_of_lt_of_le h1 (zpow_le_zpow_B (by omega))
    · simp
    · exact lt_of_lt_of_le (val_lt vd hlv) (Nat.pow_le_pow_right B_pos (by omega))
  · rw [if_neg hbig]
    have hkvlt : kv < vd.length := by omega
    obtain ⟨ed, hed⟩ : ∃ ed : ℕ, uexp - vexp = (ed : ℤ) := ⟨(uexp - vexp).toNat, by omega⟩
    have hedt : (uexp - vexp).toNat = ed := by omega
    rw [hedt]
    have hvl : (vd.drop kv).length = vd.length - kv := List.length_drop
    have hvsed : (vd.drop kv).length + ed ≤ prec := by rw [hvl]; omega
    obtain ⟨s1, s2, s3, s4⟩ := addLimbs_spec (top prec ud) (vd.drop kv) ed t1 (Limbs_drop hlv _)
    generalize addLimbs (top prec ud) (vd.drop kv) ed = r at *
    obtain ⟨tp, cy⟩ := r
    simp only at s1 s2 s3 s4 ⊢
    set rs := max (top prec ud).length ((vd.drop kv).length + ed) with hrs
    have hapos : 0 < (top prec ud).length := List.length_pos_of_ne_nil t2
    have hrsle : rs ≤ prec := by rw [hrs, t4]; omega
    have htot : B ^ (rs - 1) ≤ val tp + B ^ rs * cy := by
      rw [s4]
      have h1 := val_ge_of_top _ t2 t3
      have h2 : B ^ (rs - 1) = B ^ ((top prec ud).length - 1) * B ^ (rs - (top prec ud).length) := by
        rw [← pow_add]; congr 1; omega
      rw [h2]
      have := Nat.mul_le_mul_right (B ^ (rs - (top prec ud).length)) h1
      omega
    refine ⟨?_, ?_, ?_, ?_, val (ud.take (ud.length - prec)), val (vd.take kv), kv, val (vd.drop kv), ?_, hlouq, ?_, t5, t6, hV, hlov, rfl⟩
    · by_cases hc : cy ≠ 0
      · rw [if_pos hc]; exact Limbs_append.mpr ⟨s2, Limbs_cons.mpr ⟨by have := B_ge_two; omega, Limbs_nil⟩⟩
      · rw [if_neg hc]; exact s2
    · by_cases hc : cy ≠ 0
      · rw [if_pos hc]; simp
      · rw [if_neg hc]; intro h; rw [h] at s1; simp at s1; omega
    · by_cases hc : cy ≠ 0
      · rw [if_pos hc]; simp; exact hc
      · rw [if_neg hc]
        have hc0 : cy = 0 := by omega
        rw [hc0] at htot
        apply top_ne_zero_of_val_ge tp s2
        · intro h; rw [h] at s1; simp at s1; omega
        · rw [s1]; simpa using htot
    · by_cases hc : cy ≠ 0
      · rw [if_pos hc]; simp; omega
      · rw [if_neg hc]; omega
    · rw [qv_carry tp cy uexp s3, s1, s4]
      rw [qv_top prec ud uexp, qv_split vd vexp kv (le_of_lt hkvlt)]
      unfold qv
      push_cast
      have e1 : (B : ℚ) ^ (rs - (top prec ud).length) * (B : ℚ) ^ (uexp - (rs : ℤ)) = (B : ℚ) ^ (uexp - ((top prec ud).length : ℤ)) := by
        rw [← zpow_natCast, ← zpow_add₀ Bq_ne]; congr 1; omega
      have e2 : (B : ℚ) ^ (rs - ed - (vd.drop kv).length) * (B : ℚ) ^ (uexp - (rs : ℤ)) = (B : ℚ) ^ (vexp - ((vd.drop kv).length : ℤ)) := by
        rw [← zpow_natCast, ← zpow_add₀ Bq_ne]; congr 1; omega
      rw [← e1, ← e2]; ring
    · rcases Nat.eq_zero_or_pos kv with h | h
      · rw [h]; simp; exact zpow_pos Bq_pos _
      · have := low_lt _ _ vd.length vexp hlov
        have e : vexp - (vd.length : ℤ) + (kv : ℤ) = uexp - (prec : ℤ) := by omega
        rwa [e] at this



theorem toQ_qv (u : F) : toQ u = sg u * qv u.d u.exp := by rw [toQ_sg]; rfl

theorem eps_eq (prec : ℕ) : eps prec = 4 / (B : ℚ) ^ (prec - 1) := by
  unfold eps
  rw [zpow_sub₀ (by norm_num : (2 : ℚ) ≠ 0), zpow_natCast]
  have : ((B ^ (prec - 1) : ℕ) : ℚ) = (2 : ℚ) ^ (PREC_TO_BITS prec) := by exact_mod_cast Bpow_eq_two_pow prec
  push_cast at this; rw [this]; norm_num

/-- the final inequality of the addition error analysis -/
theorem add_err_q (prec : ℕ) (hp : 1 ≤ prec) (E r eu ev : ℚ) (e : ℤ)
    (hr : r = E - eu - ev) (h0u : 0 ≤ eu) (h0v : 0 ≤ ev)
    (hu : eu < (B : ℚ) ^ (e - (prec : ℤ))) (hv : ev < (B : ℚ) ^ (e - (prec : ℤ)))
    (hE : (B : ℚ) ^ (e - 1) ≤ E) :
    |r - E| < eps prec * |E| := by
  have hEpos : 0 < E := lt_of_lt_of_le (zpow_pos Bq_pos _) hE
  have hQ : (0 : ℚ) < (B : ℚ) ^ (prec - 1) := pow_pos Bq_pos _
  rw [eps_eq, abs_of_pos hEpos, hr, show E - eu - ev - E = -(eu + ev) by ring, abs_neg, abs_of_nonneg (by linarith),
    div_mul_eq_mul_div, lt_div_iff₀ hQ]
  have h1 : (B : ℚ) ^ (e - (prec : ℤ)) * (B : ℚ) ^ (prec - 1) = (B : ℚ) ^ (e - 1) := by
    rw [← zpow_natCast, ← zpow_add₀ Bq_ne]; congr 1; omega
  nlinarith

theorem addSame_spec (prec : ℕ) (hp : 1 ≤ prec) (u v : F) (hu : OpWF u) (hv : OpWF v)
    (hu0 : u.size ≠ 0) (hv0 : v.size ≠ 0) (hs : (u.size < 0) ↔ (v.size < 0)) :
    WF (addSame prec u v) ∧
    |toQ (addSame prec u v) - (toQ u + toQ v)| < eps prec * |toQ u + toQ v| := by
  have hnu : u.d ≠ [] := fun h => hu0 (by have := hu.2.1; rw [h] at this; simp at this; omega)
  have hnv : v.d ≠ [] := fun h => hv0 (by have := hv.2.1; rw [h] at this; simp at this; omega)
  have hsg : sg v = sg u := by
    unfold sg
    by_cases h : u.size < 0
    · rw [if_pos h, if_pos (hs.mp h)]
    · rw [if_neg h, if_neg (fun h' => h (hs.mpr h'))]
  unfold addSame
  simp only
  by_cases hswap : u.exp < v.exp
  · rw [if_pos hswap]
    obtain ⟨w1, w2, w3, w4, lou, lov, kv, V', q1, q2, q3, _⟩ :=
      addMag_spec prec hp v.d u.d v.exp u.exp hv.1 hnv hv.2.2.1 hu.1 hnu (le_of_lt hswap)
    generalize addMag prec v.d v.exp u.d u.exp = r at *
    obtain ⟨rd, e⟩ := r
    simp only at w1 w2 w3 w4 q1 ⊢
    refine ⟨WF_mk_neg w1 w3 w4 (fun h => absurd h w2), ?_⟩
    rw [toQ_mk_neg, toQ_qv u, toQ_qv v, hsg]
    rw [show (if u.size < 0 then (-1 : ℚ) else 1) = sg u from rfl, mul_assoc, ← mul_add, ← mul_sub, abs_mul, abs_mul]
    have hsa : |sg u| = 1 := by rcases sg_cases u with h | h <;> rw [h] <;> simp
    rw [hsa, one_mul, one_mul]
    have := add_err_q prec hp (qv u.d u.exp + qv v.d v.exp) (qv rd e) _ _ v.exp
      (by rw [q1]; ring)
      (mul_nonneg (by positivity) (le_of_lt (zpow_pos Bq_pos _)))
      (mul_nonneg (by positivity) (le_of_lt (zpow_pos Bq_pos _))) q2 q3
      (le_trans (qv_ge v.d v.exp hnv hv.2.2.1) (by linarith [qv_nonneg u.d u.exp]))
    exact this
  · rw [if_neg hswap]
    obtain ⟨w1, w2, w3, w4, lou, lov, kv, V', q1, q2, q3, _⟩ :=
      addMag_spec prec hp u.d v.d u.exp v.exp hu.1 hnu hu.2.2.1 hv.1 hnv (by omega)
    generalize addMag prec u.d u.exp v.d v.exp = r at *
    obtain ⟨rd, e⟩ := r
    simp only at w1 w2 w3 w4 q1 ⊢
    refine ⟨WF_mk_neg w1 w3 w4 (fun h => absurd h w2), ?_⟩
    rw [toQ_mk_neg, toQ_qv u, toQ_qv v, hsg]
    rw [show (if u.size < 0 then (-1 : ℚ) else 1) = sg u from rfl, mul_assoc, ← mul_add, ← mul_sub, abs_mul, abs_mul]
    have hsa : |sg u| = 1 := by rcases sg_cases u with h | h <;> rw [h] <;> simp
    rw [hsa, one_mul, one_mul]
    have := add_err_q prec hp (qv u.d u.exp + qv v.d v.exp) (qv rd e) _ _ u.exp
      (by rw [q1])
      (mul_nonneg (by positivity) (le_of_lt (zpow_pos Bq_pos _)))
      (mul_nonneg (by positivity) (le_of_lt (zpow_pos Bq_pos _))) q2 q3
      (le_trans (qv_ge u.d u.exp hnu hu.2.2.1) (by linarith [qv_nonneg v.d v.exp]))
    exact this



theorem fitsN_mul_Bpow {N p : ℕ} (c : ℕ) (h : FitsN N p) : FitsN (N * B ^ c) p := by
  obtain ⟨m, j, hm, hp⟩ := h
  refine ⟨m, j + 64 * c, ?_, hp⟩
  rw [hm, pow_add, mul_assoc]; congr 2; unfold B; rw [← pow_mul]

/-- if u (the operand with the larger exponent), and u + v both fit in p bits, then the limbs of v below the
    precision window of u are zero -/
theorem add_fits_dvd (U V nu nv prec : ℕ) (uexp vexp : ℤ) (hU : B ^ (nu - 1) ≤ U) (hnu : 1 ≤ nu) (hp : 1 ≤ prec)
    (fU : FitsN U (64 * (prec - 1)))
    (fE : Fits ((U : ℚ) * (B : ℚ) ^ (uexp - (nu : ℤ)) + (V : ℚ) * (B : ℚ) ^ (vexp - (nv : ℤ))) (64 * (prec - 1))) :
    B ^ ((nv : ℤ) + (uexp - vexp) - (prec : ℤ)).toNat ∣ V := by
  rcases Nat.eq_zero_or_pos ((nv : ℤ) + (uexp - vexp) - (prec : ℤ)).toNat with h0 | h0
  · rw [h0]; simp
  set m : ℤ := min (uexp - (nu : ℤ)) (vexp - (nv : ℤ)) with hm
  obtain ⟨cu, hcu⟩ : ∃ cu : ℕ, uexp - (nu : ℤ) = m + cu := ⟨(uexp - (nu : ℤ) - m).toNat, by omega⟩
  obtain ⟨cv, hcv⟩ : ∃ cv : ℕ, vexp - (nv : ℤ) = m + cv := ⟨(vexp - (nv : ℤ) - m).toNat, by omega⟩
  have hE : (U : ℚ) * (B : ℚ) ^ (uexp - (nu : ℤ)) + (V : ℚ) * (B : ℚ) ^ (vexp - (nv : ℤ))
      = 1 * ((U * B ^ cu + V * B ^ cv : ℕ) : ℚ) * (B : ℚ) ^ m := by
    rw [hcu, hcv, zpow_add₀ Bq_ne, zpow_add₀ Bq_ne, zpow_natCast, zpow_natCast]; push_cast; ring
  rw [hE] at fE
  have fEn := fitsN_of_fits (Or.inl rfl) _ _ _ fE
  have hUn : B ^ (nu + cu - 1) ≤ U * B ^ cu := by
    have : nu + cu - 1 = (nu - 1) + cu := by omega
    rw [this, pow_add]; exact Nat.mul_le_mul_right _ hU
  have d1 : B ^ (nu + cu - prec) ∣ U * B ^ cu + V * B ^ cv :=
    fitsN_dvd fEn (le_trans hUn (Nat.le_add_right _ _)) hp
  have d2 : B ^ (nu + cu - prec) ∣ U * B ^ cu := fitsN_dvd (fitsN_mul_Bpow cu fU) hUn hp
  have d3 : B ^ (nu + cu - prec) ∣ V * B ^ cv := (Nat.dvd_add_right d2).mp d1
  have e : nu + cu - prec = ((nv : ℤ) + (uexp - vexp) - (prec : ℤ)).toNat + cv := by omega
  rw [e, pow_add] at d3
  exact Nat.dvd_of_mul_dvd_mul_right (Bpow_pos cv) d3


theorem fits_sg {σ x : ℚ} {p : ℕ} (hσ : σ = 1 ∨ σ = -1) (h : Fits (σ * x) p) : Fits x p := by
  obtain ⟨m, k, hm, hp⟩ := h
  rcases hσ with h1 | h1 <;> rw [h1] at hm
  · exact ⟨m, k, by linarith, hp⟩
  · exact ⟨-m, k, by push_cast; linarith, by rwa [abs_neg]⟩

theorem fitsN_of_toQ {u : F} {p : ℕ} (h : Fits (toQ u) p) : FitsN (val u.d) p := by
  rw [toQ_sg, ← mul_assoc] at h; exact fitsN_of_fits (sg_cases u) _ _ _ h

theorem addSame_exact (prec : ℕ) (hp : 1 ≤ prec) (u v : F) (hu : OpWF u) (hv : OpWF v)
    (hu0 : u.size ≠ 0) (hv0 : v.size ≠ 0) (hs : (u.size < 0) ↔ (v.size < 0))
    (fu : Fits (toQ u) (PREC_TO_BITS prec)) (fv : Fits (toQ v) (PREC_TO_BITS prec))
    (fe : Fits (toQ u + toQ v) (PREC_TO_BITS prec)) :
    toQ (addSame prec u v) = toQ u + toQ v := by
  have hnu : u.d ≠ [] := fun h => hu0 (by have := hu.2.1; rw [h] at this; simp at this; omega)
  have hnv : v.d ≠ [] := fun h => hv0 (by have := hv.2.1; rw [h] at this; simp at this; omega)
  have hsg : sg v = sg u := by
    unfold sg
    by_cases h : u.size < 0
    · rw [if_pos h, if_pos (hs.mp h)]
    · rw [if_neg h, if_neg (fun h' => h (hs.mpr h'))]
  have hpb : PREC_TO_BITS prec = 64 * (prec - 1) := by unfold PREC_TO_BITS; omega
  rw [hpb] at fu fv fe
  have fu' := fitsN_of_toQ fu
  have fv' := fitsN_of_toQ fv
  rw [toQ_qv u, toQ_qv v, hsg, ← mul_add] at fe
  have fe' := fits_sg (sg_cases u) fe
  unfold qv at fe'
  have hnul : 1 ≤ u.d.length := List.length_pos_of_ne_nil hnu
  have hnvl : 1 ≤ v.d.length := List.length_pos_of_ne_nil hnv
  unfold addSame
  simp only
  by_cases hswap : u.exp < v.exp
  · rw [if_pos hswap]
    obtain ⟨_, _, _, _, lou, lov, kv, V', q1, _, _, q4, q5, q6, q7, q8⟩ :=
      addMag_spec prec hp v.d u.d v.exp u.exp hv.1 hnv hv.2.2.1 hu.1 hnu (le_of_lt hswap)
    generalize addMag prec v.d v.exp u.d u.exp = r at *
    obtain ⟨rd, e⟩ := r
    simp only at q1 ⊢
    have l1 : lou = 0 := low_zero_of_dvd q4 q5 (fitsN_dvd fv' (val_ge_of_top v.d hnv hv.2.2.1) hp)
    have l2 : lov = 0 := by
      apply low_zero_of_dvd q6 q7
      rw [q8]
      exact add_fits_dvd _ _ _ _ prec v.exp u.exp (val_ge_of_top v.d hnv hv.2.2.1) hnvl hp fv' (by rw [add_comm]; exact fe')
    rw [toQ_mk_neg, toQ_qv u, toQ_qv v, hsg, show (if u.size < 0 then (-1 : ℚ) else 1) = sg u from rfl, mul_assoc,
      show (val rd : ℚ) * (B : ℚ) ^ (e - (rd.length : ℤ)) = qv rd e from rfl, q1, l1, l2]
    push_cast; ring
  · rw [if_neg hswap]
    obtain ⟨_, _, _, _, lou, lov, kv, V', q1, _, _, q4, q5, q6, q7, q8⟩ :=
      addMag_spec prec hp u.d v.d u.exp v.exp hu.1 hnu hu.2.2.1 hv.1 hnv (by omega)
    generalize addMag prec u.d u.exp v.d v.exp = r at *
    obtain ⟨rd, e⟩ := r
    simp only at q1 ⊢
    have l1 : lou = 0 := low_zero_of_dvd q4 q5 (fitsN_dvd fu' (val_ge_of_top u.d hnu hu.2.2.1) hp)
    have l2 : lov = 0 := by
      apply low_zero_of_dvd q6 q7
      rw [q8]
      exact add_fits_dvd _ _ _ _ prec u.exp v.exp (val_ge_of_top u.d hnu hu.2.2.1) hnul hp fu' fe'
    rw [toQ_mk_neg, toQ_qv u, toQ_qv v, hsg, show (if u.size < 0 then (-1 : ℚ) else 1) = sg u from rfl, mul_assoc,
      show (val rd : ℚ) * (B : ℚ) ^ (e - (rd.length : ℤ)) = qv rd e from rfl, q1, l1, l2]
    push_cast; ring



/-- mpf_set (any operand length): format rules, error bound, exactness -/
theorem set_spec (prec : ℕ) (hp : 1 ≤ prec) (u : F) (hu : OpWF u) :
    WF (set prec u) ∧
    (u.size ≠ 0 → |toQ (set prec u) - toQ u| < eps prec * |toQ u|) ∧
    (Fits (toQ u) (PREC_TO_BITS prec) → toQ (set prec u) = toQ u) := by
  unfold set
  by_cases h0 : u.size = 0
  · have hd := hu.d_nil h0
    simp only [hd, top, List.length_nil, List.drop_nil]
    refine ⟨?_, fun h => absurd h0 h, fun _ => by simp [toQ, hd]⟩
    have he := hu.2.2.2 h0
    rw [he]
    exact WF_mk Limbs_nil (by simp) (by simp) (fun _ => rfl)
  · have hne : u.d ≠ [] := fun h => h0 (by have := hu.2.1; rw [h] at this; simp at this; omega)
    obtain ⟨t1, t2, t3, t4, t5, t6, t7⟩ := top_trunc prec hp _ hu.1 hne hu.2.2.1
    have hσ : (if u.size ≥ 0 then (1 : ℚ) else -1) = 1 ∨ (if u.size ≥ 0 then (1 : ℚ) else -1) = -1 := by
      by_cases h : u.size ≥ 0 <;> simp [h]
    have hval : toQ ⟨prec, if u.size ≥ 0 then ((top (prec + 1) u.d).length : Int) else -((top (prec + 1) u.d).length : Int),
        u.exp, top (prec + 1) u.d⟩ =
        (if u.size ≥ 0 then (1 : ℚ) else -1) * ((val (top (prec + 1) u.d) * B ^ (u.d.length - (prec + 1)) : ℕ) : ℚ)
          * (B : ℚ) ^ (u.exp - (u.d.length : ℤ)) := by
      rw [toQ_mk, t4]
      have : u.exp - ((min (prec + 1) u.d.length : ℕ) : ℤ) = ((u.d.length - (prec + 1) : ℕ) : ℤ) + (u.exp - (u.d.length : ℤ)) := by omega
      rw [this, zpow_add₀ Bq_ne, zpow_natCast]; push_cast; ring
    refine ⟨WF_mk t1 t3 (by rw [t4]; omega) (fun h => absurd h t2), ?_, ?_⟩
    · intro _
      rw [hval, toQ_def']
      exact err_of_nat _ hσ _ _ _ (zpow_pos Bq_pos _) prec t5 t6
    · intro hf
      have hpb : PREC_TO_BITS prec = 64 * (prec - 1) := by unfold PREC_TO_BITS; omega
      rw [hpb] at hf
      have := t7 (fitsN_dvd (fitsN_of_toQ hf) (val_ge_of_top u.d hne hu.2.2.1) hp)
      rw [hval, this, toQ_def']

theorem neg_eq_set (prec : ℕ) (u : F) : neg prec false u = set prec {u with size := -u.size} := rfl

theorem toQ_neg_size (u : F) (hu : OpWF u) : toQ {u with size := -u.size} = - toQ u := by
  unfold toQ; dsimp only
  rcases lt_trichotomy u.size 0 with h | h | h
  · rw [if_neg (by omega), if_pos h]; ring
  · simp [hu.d_nil h]
  · rw [if_pos (by omega), if_neg (by omega)]; ring

theorem OpWF_neg_size (u : F) (hu : OpWF u) : OpWF {u with size := -u.size} := by
  obtain ⟨h1, h2, h3, h4⟩ := hu
  exact ⟨h1, by simpa using h2, h3, fun h => h4 (by simpa using h)⟩

theorem fits_neg {x : ℚ} {p : ℕ} (h : Fits x p) : Fits (-x) p := by
  obtain ⟨m, k, hm, hp⟩ := h
  exact ⟨-m, k, by push_cast; rw [hm]; ring, by rwa [abs_neg]⟩


/-! ### division -/

/-- a quotient N/D ≥ 2^p that fits in p bits (times a power of two) is an integer -/
theorem dvd_of_fits_quot {σ : ℚ} (hσ : σ = 1 ∨ σ = -1) (N D : ℕ) (hD : 0 < D) (z : ℤ) (p : ℕ)
    (hq : 2 ^ p ≤ N / D) (hf : Fits (σ * ((N : ℚ) / D) * (B : ℚ) ^ z) p) : D ∣ N := by
  obtain ⟨m, k, hm, hp⟩ := hf
  have two_ne : (2 : ℚ) ≠ 0 := by norm_num
  have hDq : (0 : ℚ) < D := by exact_mod_cast hD
  -- |m| · 2^k = (N/D) · 2^(64 z)
  have habs : (N : ℚ) / D * (2 : ℚ) ^ (64 * z) = (m.natAbs : ℚ) * (2 : ℚ) ^ k := by
    have h1 : |σ * ((N : ℚ) / D) * (B : ℚ) ^ z| = (N : ℚ) / D * (2 : ℚ) ^ (64 * z) := by
      have : (B : ℚ) ^ z = (2 : ℚ) ^ (64 * z) := by rw [Bq_eq, zpow_mul]; norm_num
      have hnn : (0 : ℚ) ≤ (N : ℚ) / D := by positivity
      rw [abs_mul, abs_mul, this, abs_of_nonneg hnn, abs_of_pos (zpow_pos (by norm_num : (0:ℚ) < 2) _)]
      rcases hσ with h | h <;> rw [h] <;> simp
    have h2 : |(m : ℚ) * (2 : ℚ) ^ k| = (m.natAbs : ℚ) * (2 : ℚ) ^ k := by
      rw [abs_mul, abs_of_pos (zpow_pos (by norm_num : (0:ℚ) < 2) k)]
      congr 1; rw [Nat.cast_natAbs]; push_cast; rfl
    rw [← h1, hm, h2]
  have hp' : m.natAbs < 2 ^ p := by
    have : (m.natAbs : ℤ) < 2 ^ p := by rw [Int.natCast_natAbs]; exact hp
    exact_mod_cast this
  have hqq : ((2 ^ p : ℕ) : ℚ) ≤ (N : ℚ) / D := by
    rw [le_div_iff₀ hDq]
    have : 2 ^ p * D ≤ N := by
      calc 2 ^ p * D ≤ N / D * D := Nat.mul_le_mul_right _ hq
        _ ≤ N := Nat.div_mul_le_self N D
    exact_mod_cast this
  have hmq : (m.natAbs : ℚ) < (N : ℚ) / D := lt_of_lt_of_le (by exact_mod_cast hp') hqq
  -- hence k > 64 z
  have hk : 64 * z < k := by
    by_contra hc
    push Not at hc
    have : (2 : ℚ) ^ k ≤ (2 : ℚ) ^ (64 * z) := zpow_le_zpow_right₀ (by norm_num) hc
    have hpos : (0 : ℚ) < (2 : ℚ) ^ k := zpow_pos (by norm_num) _
    have hmn : (0 : ℚ) ≤ (m.natAbs : ℚ) := by positivity
    nlinarith
  obtain ⟨j, hj⟩ : ∃ j : ℕ, k = 64 * z + j := ⟨(k - 64 * z).toNat, by omega⟩
  rw [hj, zpow_add₀ two_ne, zpow_natCast] at habs
  have hz : (2 : ℚ) ^ (64 * z) ≠ 0 := zpow_ne_zero _ two_ne
  have : (N : ℚ) = (m.natAbs : ℚ) * 2 ^ j * D := by
    have := habs; field_simp at this; linarith
  have hn : N = m.natAbs * 2 ^ j * D := by exact_mod_cast this
  exact ⟨m.natAbs * 2 ^ j, by rw [hn]; ring⟩

theorem quot_spec (prec : ℕ) (hp : 1 ≤ prec) (neg : Bool) (N D : ℕ) (hD : 0 < D) (rexp : ℤ)
    (hlo : B ^ (prec - 1) ≤ N / D) (hhi : N / D < B ^ (prec + 1)) :
    WF (quotFinish prec neg (N / D) rexp) ∧
    |toQ (quotFinish prec neg (N / D) rexp)
        - (if neg then -1 else 1) * ((N : ℚ) / D) * (B : ℚ) ^ (rexp - ((prec : ℤ) + 1))|
      < eps prec * |(if neg then -1 else 1) * ((N : ℚ) / D) * (B : ℚ) ^ (rexp - ((prec : ℤ) + 1))| ∧
    (Fits ((if neg then -1 else 1) * ((N : ℚ) / D) * (B : ℚ) ^ (rexp - ((prec : ℤ) + 1))) (PREC_TO_BITS prec) →
      toQ (quotFinish prec neg (N / D) rexp)
        = (if neg then -1 else 1) * ((N : ℚ) / D) * (B : ℚ) ^ (rexp - ((prec : ℤ) + 1))) := by
  set q := N / D with hq
  have hσ : (if neg = true then (-1 : ℚ) else 1) = 1 ∨ (if neg = true then (-1 : ℚ) else 1) = -1 := by
    cases neg <;> simp
  have hv := val_toLimbs_of_lt hhi
  have hlen := toLimbs_length (prec + 1) q
  have hlim := Limbs_toLimbs (prec + 1) q
  have hsplit := val_take_top _ prec hlen
  -- value and format of the result
  have key : WF (quotFinish prec neg q rexp) ∧
      toQ (quotFinish prec neg q rexp) = (if neg then -1 else 1) * (q : ℚ) * (B : ℚ) ^ (rexp - ((prec : ℤ) + 1)) := by
    unfold quotFinish
    simp only
    generalize toLimbs (prec + 1) q = rp at *
    by_cases h0 : topLimb rp = 0
    · simp only [h0, if_true]
      have hval : val (rp.take (prec + 1 - 1)) = q := by rw [Nat.add_sub_cancel, ← hv, hsplit, h0]; simp
      have hl2 : (rp.take (prec + 1 - 1)).length = prec := by rw [List.length_take, hlen]; omega
      have hne : rp.take (prec + 1 - 1) ≠ [] := by intro h; rw [h] at hl2; simp at hl2; omega
      refine ⟨WF_mk_neg (Limbs_take hlim _) ?_ (by omega) (fun h => absurd h hne), ?_⟩
      · apply top_ne_zero_of_val_ge _ (Limbs_take hlim _) hne
        rw [hl2, hval]; exact hlo
      · rw [toQ_mk_neg, hval, hl2]; congr 2; push_cast; ring
    · simp only [h0, if_false, Nat.sub_zero]
      have htk : rp.take (prec + 1) = rp := List.take_of_length_le (by omega)
      rw [htk]
      have hne : rp ≠ [] := by intro h; rw [h] at hlen; simp at hlen
      refine ⟨WF_mk_neg hlim ?_ (by omega) (fun h => absurd h hne), ?_⟩
      · rw [getLast?_eq_topLimb rp hne]; simpa using h0
      · rw [toQ_mk_neg, hv, hlen]; congr 2; push_cast; ring
  obtain ⟨k1, k2⟩ := key
  have hDq : (0 : ℚ) < D := by exact_mod_cast hD
  -- q ≤ N/D < q + 1
  have hqle : (q : ℚ) ≤ (N : ℚ) / D := by
    rw [le_div_iff₀ hDq]; exact_mod_cast Nat.div_mul_le_self N D
  have hqlt : (N : ℚ) / D < (q : ℚ) + 1 := by
    rw [div_lt_iff₀ hDq]
    have : N < (q + 1) * D := by
      have := Nat.lt_succ_iff.mpr (le_refl (N / D))
      rw [hq]; exact (Nat.div_lt_iff_lt_mul hD).mp (Nat.lt_succ_self _)
    exact_mod_cast this
  have hQ : (0 : ℚ) < (B : ℚ) ^ (prec - 1) := pow_pos Bq_pos _
  have hqQ : (B : ℚ) ^ (prec - 1) ≤ (q : ℚ) := by exact_mod_cast hlo
  have hs : (0 : ℚ) < (B : ℚ) ^ (rexp - ((prec : ℤ) + 1)) := zpow_pos Bq_pos _
  refine ⟨k1, ?_, ?_⟩
  · rw [k2]
    have e : ∀ σ : ℚ, (σ = 1 ∨ σ = -1) →
        |σ * (q : ℚ) * (B : ℚ) ^ (rexp - ((prec : ℤ) + 1)) - σ * ((N : ℚ) / D) * (B : ℚ) ^ (rexp - ((prec : ℤ) + 1))|
          = ((N : ℚ) / D - q) * (B : ℚ) ^ (rexp - ((prec : ℤ) + 1)) ∧
        |σ * ((N : ℚ) / D) * (B : ℚ) ^ (rexp - ((prec : ℤ) + 1))| = (N : ℚ) / D * (B : ℚ) ^ (rexp - ((prec : ℤ) + 1)) := by
      intro σ hs'
      have hnn : (0 : ℚ) ≤ (N : ℚ) / D := by positivity
      constructor
      · rw [show σ * (q : ℚ) * (B : ℚ) ^ (rexp - ((prec : ℤ) + 1)) - σ * ((N : ℚ) / D) * (B : ℚ) ^ (rexp - ((prec : ℤ) + 1))
            = -(σ * (((N : ℚ) / D - q) * (B : ℚ) ^ (rexp - ((prec : ℤ) + 1)))) by ring, abs_neg, abs_mul,
          abs_of_nonneg (mul_nonneg (by linarith) (le_of_lt hs))]
        rcases hs' with h | h <;> rw [h] <;> simp
      · rw [abs_mul, abs_mul, abs_of_nonneg hnn, abs_of_pos hs]
        rcases hs' with h | h <;> rw [h] <;> simp
    obtain ⟨e1, e2⟩ := e _ hσ
    rw [e1, e2, eps_eq, div_mul_eq_mul_div, lt_div_iff₀ hQ]
    have : ((N : ℚ) / D - q) * (B : ℚ) ^ (prec - 1) < 4 * ((N : ℚ) / D) := by nlinarith
    nlinarith
  · intro hf
    have hpb : B ^ (prec - 1) = 2 ^ PREC_TO_BITS prec := Bpow_eq_two_pow prec
    have hdvd := dvd_of_fits_quot hσ N D hD _ _ (by rw [← hpb]; exact hlo) hf
    obtain ⟨c, hc⟩ := hdvd
    have : (N : ℚ) / D = (q : ℚ) := by
      rw [hq, hc, Nat.mul_div_cancel_left c hD]; push_cast; field_simp
    rw [k2, this]



/-- the dividend selection of div.c:92-103 in natural numbers -/
theorem div_core (prec : ℕ) (hp : 1 ≤ prec) (ud vd : List Nat) (hlu : Limbs ud) (hnu : ud ≠ []) (htu : ud.getLast? ≠ some 0)
    (hlv : Limbs vd) (hnv : vd ≠ []) (htv : vd.getLast? ≠ some 0)
    (chop zeros : ℕ) (hchop : chop = ud.length - (vd.length + prec)) (hzeros : zeros = (vd.length + prec) - ud.length) :
    (val (ud.drop chop) * B ^ zeros) / val vd = (val ud * B ^ zeros) / (B ^ chop * val vd) ∧
    0 < B ^ chop * val vd ∧
    B ^ (prec - 1) ≤ (val ud * B ^ zeros) / (B ^ chop * val vd) ∧
    (val ud * B ^ zeros) / (B ^ chop * val vd) < B ^ (prec + 1) := by
  have hV0 := val_pos_of_top hnv htv
  have hV1 := val_lt vd hlv
  have hV2 := val_ge_of_top vd hnv htv
  have hnvl : 0 < vd.length := List.length_pos_of_ne_nil hnv
  have hsplit := val_take_drop_any ud chop
  have hlo := val_take_lt hlu chop
  have hdl : (ud.drop chop).length = ud.length - chop := List.length_drop
  have hdne : ud.drop chop ≠ [] := by
    intro h; rw [h] at hdl; simp at hdl
    have := List.length_pos_of_ne_nil hnu; omega
  have hdt : (ud.drop chop).getLast? ≠ some 0 := by
    have := @getLast?_top (ud.length - chop) ud (by have := List.length_pos_of_ne_nil hnu; omega)
    unfold top at this
    rw [show ud.length - (ud.length - chop) = chop by omega] at this
    rw [this]; exact htu
  have hT1 := val_ge_of_top _ hdne hdt
  have hT2 := val_lt _ (Limbs_drop hlu chop)
  have e1 : (val (ud.drop chop) * B ^ zeros) / val vd = (val ud * B ^ zeros) / (B ^ chop * val vd) := by
    rcases Nat.eq_zero_or_pos chop with h | h
    · rw [h]; simp
    · have hz : zeros = 0 := by omega
      rw [hz, pow_zero, mul_one, mul_one, ← Nat.div_div_eq_div_mul]
      congr 1
      rw [hsplit, Nat.add_mul_div_left _ _ (Bpow_pos chop), Nat.div_eq_of_lt hlo, zero_add]
  refine ⟨e1, Nat.mul_pos (Bpow_pos _) hV0, ?_, ?_⟩
  · rw [← e1, Nat.le_div_iff_mul_le hV0]
    calc B ^ (prec - 1) * val vd ≤ B ^ (prec - 1) * B ^ vd.length := Nat.mul_le_mul_left _ (le_of_lt hV1)
      _ = B ^ (prec - 1 + vd.length) := (pow_add _ _ _).symm
      _ ≤ B ^ ((ud.drop chop).length - 1 + zeros) := Nat.pow_le_pow_right B_pos (by rw [hdl]; omega)
      _ = B ^ ((ud.drop chop).length - 1) * B ^ zeros := pow_add _ _ _
      _ ≤ val (ud.drop chop) * B ^ zeros := Nat.mul_le_mul_right _ hT1
  · rw [← e1, Nat.div_lt_iff_lt_mul hV0]
    calc val (ud.drop chop) * B ^ zeros < B ^ (ud.drop chop).length * B ^ zeros :=
          Nat.mul_lt_mul_of_pos_right hT2 (Bpow_pos _)
      _ = B ^ ((ud.drop chop).length + zeros) := (pow_add _ _ _).symm
      _ = B ^ (prec + 1 + (vd.length - 1)) := by congr 1; rw [hdl]; omega
      _ = B ^ (prec + 1) * B ^ (vd.length - 1) := pow_add _ _ _
      _ ≤ B ^ (prec + 1) * val vd := Nat.mul_le_mul_left _ hV2


theorem div_spec (prec : ℕ) (hp : 1 ≤ prec) (u v : F) (hu : OpWF u) (hv : OpWF v)
    (hu0 : u.size ≠ 0) (hv0 : v.size ≠ 0) :
    ∃ r, div prec u v = .ok r ∧ WF r ∧
      |toQ r - toQ u / toQ v| < eps prec * |toQ u / toQ v| ∧
      (Fits (toQ u / toQ v) (PREC_TO_BITS prec) → toQ r = toQ u / toQ v) := by
  have hnu : u.d ≠ [] := fun h => hu0 (by have := hu.2.1; rw [h] at this; simp at this; omega)
  have hnv : v.d ≠ [] := fun h => hv0 (by have := hv.2.1; rw [h] at this; simp at this; omega)
  set chop := u.d.length - (v.d.length + prec) with hchop
  set zeros := (v.d.length + prec) - u.d.length with hzeros
  obtain ⟨c1, c2, c3, c4⟩ := div_core prec hp u.d v.d hu.1 hnu hu.2.2.1 hv.1 hnv hv.2.2.1 chop zeros hchop hzeros
  have hV0 := val_pos_of_top hnv hv.2.2.1
  have hU0 := val_pos_of_top hnu hu.2.2.1
  obtain ⟨q1, q2, q3⟩ := quot_spec prec hp ((decide (u.size < 0)) != (decide (v.size < 0))) _ _ c2 (u.exp - v.exp + 1) c3 c4
  -- the exact quotient in the form used by quot_spec
  have hex : toQ u / toQ v =
      (if ((decide (u.size < 0)) != (decide (v.size < 0))) = true then (-1 : ℚ) else 1) *
        (((val u.d * B ^ zeros : ℕ) : ℚ) / ((B ^ chop * val v.d : ℕ) : ℚ)) * (B : ℚ) ^ (u.exp - v.exp + 1 - ((prec : ℤ) + 1)) := by
    rw [sg_mul, toQ_sg u, toQ_sg v]
    have hVq : (val v.d : ℚ) ≠ 0 := by exact_mod_cast (ne_of_gt hV0)
    have hsv : sg v ≠ 0 := by rcases sg_cases v with h | h <;> rw [h] <;> norm_num
    have hsd : sg u / sg v = sg u * sg v := by rcases sg_cases v with h | h <;> rw [h] <;> ring
    have e1 : (B : ℚ) ^ (u.exp - (u.d.length : ℤ)) / (B : ℚ) ^ (v.exp - (v.d.length : ℤ)) * (B : ℚ) ^ chop
        = (B : ℚ) ^ zeros * (B : ℚ) ^ (u.exp - v.exp + 1 - ((prec : ℤ) + 1)) := by
      rw [← zpow_sub₀ Bq_ne, ← zpow_natCast, ← zpow_natCast, ← zpow_add₀ Bq_ne, ← zpow_add₀ Bq_ne]
      congr 1; omega
    push_cast
    have hBc : (B : ℚ) ^ chop ≠ 0 := pow_ne_zero _ Bq_ne
    have hBv : (B : ℚ) ^ (v.exp - (v.d.length : ℤ)) ≠ 0 := zpow_ne_zero _ Bq_ne
    calc sg u * ((val u.d : ℚ) * (B : ℚ) ^ (u.exp - (u.d.length : ℤ))) / (sg v * ((val v.d : ℚ) * (B : ℚ) ^ (v.exp - (v.d.length : ℤ))))
        = (sg u / sg v) * ((val u.d : ℚ) / (val v.d : ℚ)) * ((B : ℚ) ^ (u.exp - (u.d.length : ℤ)) / (B : ℚ) ^ (v.exp - (v.d.length : ℤ)) * (B : ℚ) ^ chop) / (B : ℚ) ^ chop := by
          field_simp
      _ = _ := by rw [hsd, e1]; field_simp
  refine ⟨_, ?_, q1, ?_, ?_⟩
  · unfold div
    rw [if_neg hv0, if_neg hu0]
    simp only
    have h1 : (max (-(((prec + 1 : ℕ) : ℤ) - ((u.d.length : ℤ) - (v.d.length : ℤ) + 1))) 0).toNat = chop := by omega
    have h2 : (((prec + 1 : ℕ) : ℤ) - ((u.d.length : ℤ) - (v.d.length : ℤ) + 1) + (chop : ℤ)).toNat = zeros := by omega
    rw [h1, h2, c1]
  · rw [hex]; exact q2
  · rw [hex]; exact q3



/-- a one-limb positive operand (how div_ui.c / ui_div.c / sub_ui.c view their `ui` argument) -/
def ofLimb (w : ℕ) : F := ⟨2, 1, 1, [w]⟩

theorem toQ_ofLimb (w : ℕ) : toQ (ofLimb w) = w := by simp [toQ, ofLimb, val]

theorem OpWF_ofLimb (w : ℕ) (h0 : w ≠ 0) (hB : w < B) : OpWF (ofLimb w) :=
  ⟨Limbs_cons.mpr ⟨hB, Limbs_nil⟩, rfl, by simpa [ofLimb] using h0, by simp [ofLimb]⟩

theorem div_ui_eq_div (prec : ℕ) (u : F) (w : ℕ) (h0 : w ≠ 0) : div_ui prec u w = div prec u (ofLimb w) := by
  unfold div_ui div ofLimb
  rw [if_neg h0, if_neg (by norm_num : (1 : ℤ) ≠ 0)]
  by_cases hu : u.size = 0
  · rw [if_pos hu, if_pos hu]
  · rw [if_neg hu, if_neg hu]
    simp only [List.length_cons, List.length_nil]
    have hneg : (decide (u.size < 0) != decide ((1 : ℤ) < 0)) = decide (u.size < 0) := by simp
    have hv : val [w] = w := by simp [val]
    have hchop : (max (-(((prec + 1 : ℕ) : ℤ) - ((u.d.length : ℤ) - ((0 + 1 : ℕ) : ℤ) + 1))) 0).toNat = u.d.length - (prec + 1) := by omega
    have hlen : (top (prec + 1) u.d).length = min (prec + 1) u.d.length := top_length _ _
    rw [hneg, hv, hchop]
    have hz : (((prec + 1 : ℕ) : ℤ) - ((u.d.length : ℤ) - ((0 + 1 : ℕ) : ℤ) + 1) + ((u.d.length - (prec + 1) : ℕ) : ℤ)).toNat
        = prec + 1 - (top (prec + 1) u.d).length := by rw [hlen]; omega
    rw [hz, show u.exp - 1 + 1 = u.exp by ring]
    rfl

theorem ui_div_eq_div (prec : ℕ) (w : ℕ) (v : F) (h0 : w ≠ 0) (hv : OpWF v) :
    ui_div prec w v = div prec (ofLimb w) v := by
  unfold ui_div div ofLimb
  by_cases hv0 : v.size = 0
  · rw [if_pos hv0, if_pos hv0]
  · rw [if_neg hv0, if_neg hv0, if_neg h0, if_neg (by norm_num : (1 : ℤ) ≠ 0)]
    simp only [List.length_cons, List.length_nil]
    have hnv : 0 < v.d.length := by rw [hv.2.1]; omega
    have hneg : (decide ((1 : ℤ) < 0) != decide (v.size < 0)) = decide (v.size < 0) := by simp
    have hchop : (max (-(((prec + 1 : ℕ) : ℤ) - (((0 + 1 : ℕ) : ℤ) - (v.d.length : ℤ) + 1))) 0).toNat = 0 := by omega
    rw [hneg, hchop]
    have hz : (((prec + 1 : ℕ) : ℤ) - (((0 + 1 : ℕ) : ℤ) - (v.d.length : ℤ) + 1) + ((0 : ℕ) : ℤ)).toNat = prec + v.d.length - 1 := by omega
    rw [hz]
    simp [val]


/-- the numerator / denominator of an mpq as mpf operands with exponent = limb count (integers) -/
def ofInt (z : ℤ) : F :=
  ⟨2, if z ≥ 0 then ((natLimbs z.natAbs).length : ℤ) else -((natLimbs z.natAbs).length : ℤ), (natLimbs z.natAbs).length, natLimbs z.natAbs⟩

theorem natLimbs_ne_nil {n : ℕ} (h : n ≠ 0) : natLimbs n ≠ [] := by
  intro hnil; have := (natLimbs_spec n).1; rw [hnil] at this; simp at this; exact h this.symm

theorem ofInt_size_ne {z : ℤ} (h : z ≠ 0) : (ofInt z).size ≠ 0 := by
  have := List.length_pos_of_ne_nil (natLimbs_ne_nil (by omega : z.natAbs ≠ 0))
  unfold ofInt; dsimp only
  by_cases hz : z ≥ 0
  · rw [if_pos hz]; omega
  · rw [if_neg hz]; omega

theorem OpWF_ofInt (z : ℤ) : OpWF (ofInt z) := by
  obtain ⟨n1, n2, n3, n4⟩ := natLimbs_spec z.natAbs
  refine ⟨n2, ?_, n3, ?_⟩
  · unfold ofInt; dsimp only; by_cases hz : z ≥ 0 <;> simp [hz]
  · intro h
    unfold ofInt at h ⊢; dsimp only at h ⊢
    have : (natLimbs z.natAbs).length = 0 := by
      by_cases hz : z ≥ 0
      · rw [if_pos hz] at h; omega
      · rw [if_neg hz] at h; omega
    rw [this]; rfl

theorem toQ_ofInt (z : ℤ) : toQ (ofInt z) = z := by
  obtain ⟨n1, _, _, _⟩ := natLimbs_spec z.natAbs
  unfold ofInt
  rw [toQ_mk, n1, sub_self, zpow_zero, mul_one, Nat.cast_natAbs]
  by_cases hz : z ≥ 0
  · rw [if_pos hz, abs_of_nonneg hz]; simp
  · rw [if_neg hz, abs_of_neg (by omega)]; simp

theorem set_q_eq_div (prec : ℕ) (num : ℤ) (den : ℕ) (hn : num ≠ 0) (hd : den ≠ 0) :
    div prec (ofInt num) (ofInt den) = .ok (set_q prec num den) := by
  have hdn : (ofInt (den : ℤ)).size ≠ 0 := ofInt_size_ne (by omega)
  have hnn : (ofInt num).size ≠ 0 := ofInt_size_ne hn
  unfold div
  rw [if_neg hdn, if_neg hnn]
  unfold set_q
  rw [if_neg hn]
  have hden : val (natLimbs den) = den := (natLimbs_spec den).1
  have hneg : (decide ((ofInt num).size < 0) != decide ((ofInt (den : ℤ)).size < 0)) = decide (num < 0) := by
    have h1 : ¬ (ofInt (den : ℤ)).size < 0 := by
      unfold ofInt; dsimp only; rw [if_pos (by omega)]; omega
    have h2 : (ofInt num).size < 0 ↔ num < 0 := by
      have := List.length_pos_of_ne_nil (natLimbs_ne_nil (by omega : num.natAbs ≠ 0))
      unfold ofInt; dsimp only
      by_cases hz : num ≥ 0
      · rw [if_pos hz]; omega
      · rw [if_neg hz]; omega
    simp [h1, h2]
  rw [hneg]
  simp only [ofInt, Int.natAbs_natCast, hden]
  congr 1
  by_cases hz : (((prec + 1 : ℕ) : ℤ) - (((natLimbs num.natAbs).length : ℤ) - ((natLimbs den).length : ℤ) + 1)) > 0
  · rw [if_pos hz]
    have h1 : (max (-(((prec + 1 : ℕ) : ℤ) - (((natLimbs num.natAbs).length : ℤ) - ((natLimbs den).length : ℤ) + 1))) 0).toNat = 0 := by omega
    rw [h1]; simp
  · rw [if_neg hz]
    have h1 : (max (-(((prec + 1 : ℕ) : ℤ) - (((natLimbs num.natAbs).length : ℤ) - ((natLimbs den).length : ℤ) + 1))) 0).toNat
        = (-(((prec + 1 : ℕ) : ℤ) - (((natLimbs num.natAbs).length : ℤ) - ((natLimbs den).length : ℤ) + 1))).toNat := by omega
    rw [h1]
    have h2 : (((prec + 1 : ℕ) : ℤ) - (((natLimbs num.natAbs).length : ℤ) - ((natLimbs den).length : ℤ) + 1) +
        (((-(((prec + 1 : ℕ) : ℤ) - (((natLimbs num.natAbs).length : ℤ) - ((natLimbs den).length : ℤ) + 1))).toNat : ℕ) : ℤ)).toNat = 0 := by omega
    rw [h2]; simp


/-! ### square root -/

/-- the radicand selection of sqrt.c:79-99 in natural numbers -/
theorem sqrt_core (prec : ℕ) (hp : 1 ≤ prec) (ud : List Nat) (hlu : Limbs ud) (hnu : ud ≠ []) (htu : ud.getLast? ≠ some 0)
    (tsize : ℕ) (ht : tsize = 2 * prec ∨ tsize = 2 * prec - 1) :
    let t := val (top tsize ud) * B ^ (tsize - (top tsize ud).length)
    t = (val ud * B ^ (tsize - ud.length)) / B ^ (ud.length - tsize) ∧
    B ^ (prec - 1) ≤ Nat.sqrt t ∧ Nat.sqrt t < B ^ prec := by
  intro t
  have hts : 1 ≤ tsize := by omega
  obtain ⟨t1, t2, t3, t4, t5, t6, _⟩ := top_facts tsize hts ud hlu hnu htu
  have hT1 := val_ge_of_top _ t2 t3
  have hT2 := val_lt _ t1
  have e1 : t = (val ud * B ^ (tsize - ud.length)) / B ^ (ud.length - tsize) := by
    show val (top tsize ud) * B ^ (tsize - (top tsize ud).length) = _
    rcases Nat.eq_zero_or_pos (ud.length - tsize) with h | h
    · have hle : ud.length ≤ tsize := by omega
      rw [h, pow_zero, Nat.div_one, top_of_le hle]
    · have hz : tsize - ud.length = 0 := by omega
      have hz2 : tsize - (top tsize ud).length = 0 := by rw [t4]; omega
      rw [hz, hz2, pow_zero, mul_one, mul_one, t5, Nat.add_mul_div_left _ _ (Bpow_pos _), Nat.div_eq_of_lt t6, zero_add]
  have hlo : B ^ (tsize - 1) ≤ t := by
    show B ^ (tsize - 1) ≤ val (top tsize ud) * B ^ (tsize - (top tsize ud).length)
    have hnl : 1 ≤ ud.length := List.length_pos_of_ne_nil hnu
    have : tsize - 1 = ((top tsize ud).length - 1) + (tsize - (top tsize ud).length) := by omega
    rw [this, pow_add]; exact Nat.mul_le_mul_right _ hT1
  have hhi : t < B ^ tsize := by
    show val (top tsize ud) * B ^ (tsize - (top tsize ud).length) < _
    have : tsize = (top tsize ud).length + (tsize - (top tsize ud).length) := by omega
    conv_rhs => rw [this, pow_add]
    exact Nat.mul_lt_mul_of_pos_right hT2 (Bpow_pos _)
  refine ⟨e1, ?_, ?_⟩
  · rw [Nat.le_sqrt, ← pow_add]
    exact le_trans (Nat.pow_le_pow_right B_pos (by omega)) hlo
  · rw [Nat.sqrt_lt, ← pow_add]
    exact lt_of_lt_of_le hhi (Nat.pow_le_pow_right B_pos (by omega))


theorem sqrt_spec (prec : ℕ) (hp : 1 ≤ prec) (u : F) (hu : OpWF u) (hpos : 0 < u.size) :
    ∃ r, sqrt prec u = .ok r ∧ WF r ∧ 0 < toQ r ∧ (toQ r) ^ 2 ≤ toQ u ∧
      toQ u < (toQ r * (1 + 1 / (B : ℚ) ^ (prec - 1))) ^ 2 ∧
      (∀ x : ℚ, 0 ≤ x → x ^ 2 = toQ u → Fits x (PREC_TO_BITS prec) → toQ r = x) := by
  have hnu : u.d ≠ [] := fun h => by have := hu.2.1; rw [h] at this; simp at this; omega
  obtain ⟨od, hod, hod2⟩ : ∃ od : ℕ, u.exp % 2 = (od : ℤ) ∧ (od = 0 ∨ od = 1) := by
    rcases Int.emod_two_eq_zero_or_one u.exp with h | h
    · exact ⟨0, by simpa using h, Or.inl rfl⟩
    · exact ⟨1, by simpa using h, Or.inr rfl⟩
  obtain ⟨e, he⟩ : ∃ e : ℤ, u.exp + (od : ℤ) = 2 * e := ⟨(u.exp + od) / 2, by omega⟩
  have hts : 2 * prec - od = 2 * prec ∨ 2 * prec - od = 2 * prec - 1 := by rcases hod2 with h | h <;> rw [h] <;> simp
  obtain ⟨c1, c2, c3⟩ := sqrt_core prec hp u.d hu.1 hnu hu.2.2.1 (2 * prec - od) hts
  set t := val (top (2 * prec - od) u.d) * B ^ (2 * prec - od - (top (2 * prec - od) u.d).length) with ht
  set s := Nat.sqrt t with hs
  have hs1 : s * s ≤ t := Nat.sqrt_le t
  have hs2 : t < (s + 1) * (s + 1) := Nat.lt_succ_sqrt t
  have hval : val (toLimbs prec s) = s := val_toLimbs_of_lt c3
  have hlen := toLimbs_length prec s
  -- the model's result
  have hres : sqrt prec u = .ok ⟨prec, prec, e, toLimbs prec s⟩ := by
    unfold sqrt
    rw [if_neg (by omega), if_neg (by omega)]
    simp only [hod, Int.toNat_natCast]
    have : (u.exp + (od : ℤ)) / 2 = e := by omega
    rw [this]
  have hQ : (0 : ℚ) < (B : ℚ) ^ (prec - 1) := pow_pos Bq_pos _
  set ulp : ℚ := (B : ℚ) ^ (e - (prec : ℤ)) with hulp
  have hulp0 : 0 < ulp := zpow_pos Bq_pos _
  have hrq : toQ ⟨prec, prec, e, toLimbs prec s⟩ = (s : ℚ) * ulp := by
    unfold toQ; dsimp only
    rw [if_neg (by omega), hval, hlen]; ring
  have hspos : (0 : ℚ) < (s : ℚ) := by
    have : 0 < s := lt_of_lt_of_le (Bpow_pos _) c2
    exact_mod_cast this
  -- the operand in units of ulp^2
  set N := val u.d * B ^ (2 * prec - od - u.d.length) with hN
  set K := B ^ (u.d.length - (2 * prec - od)) with hK
  have hKpos : (0 : ℚ) < (K : ℚ) := by exact_mod_cast Bpow_pos _
  have huq : toQ u = ((N : ℚ) / (K : ℚ)) * ulp ^ 2 := by
    rw [toQ_def', if_pos (by omega), one_mul, hN, hK, hulp]
    push_cast
    rw [mul_div_assoc, mul_assoc]
    congr 1
    have := List.length_pos_of_ne_nil hnu
    rw [← zpow_natCast (B : ℚ) (2 * prec - od - u.d.length), ← zpow_natCast (B : ℚ) (u.d.length - (2 * prec - od)),
      ← zpow_natCast ((B : ℚ) ^ (e - (prec : ℤ))) 2, ← zpow_mul, ← zpow_sub₀ Bq_ne, ← zpow_add₀ Bq_ne]
    congr 1
    push_cast
    omega
  have htN : (t : ℚ) ≤ (N : ℚ) / K := by
    rw [le_div_iff₀ hKpos, c1]; exact_mod_cast Nat.div_mul_le_self N K
  have hNt : (N : ℚ) / K < (t : ℚ) + 1 := by
    rw [div_lt_iff₀ hKpos, c1]
    have : N < (N / K + 1) * K := (Nat.div_lt_iff_lt_mul (Bpow_pos _)).mp (Nat.lt_succ_self _)
    exact_mod_cast this
  have h1 : ((s : ℚ)) ^ 2 ≤ (N : ℚ) / K := by
    have : ((s * s : ℕ) : ℚ) ≤ (t : ℚ) := by exact_mod_cast hs1
    push_cast at this; nlinarith
  have h2 : (N : ℚ) / K < ((s : ℚ) + 1) ^ 2 := by
    have : ((t + 1 : ℕ) : ℚ) ≤ (((s + 1) * (s + 1) : ℕ) : ℚ) := by exact_mod_cast hs2
    push_cast at this; nlinarith
  have hsQ : (B : ℚ) ^ (prec - 1) ≤ (s : ℚ) := by exact_mod_cast c2
  clear_value ulp N K s t
  refine ⟨_, hres, ?_, ?_, ?_, ?_, ?_⟩
  · refine ⟨Limbs_toLimbs _ _, by rw [hlen]; simp, by simp, ?_, fun h => by simp at h; omega⟩
    apply top_ne_zero_of_val_ge _ (Limbs_toLimbs _ _)
    · intro h; rw [h] at hlen; simp at hlen; omega
    · rw [hlen, hval]; exact c2
  · rw [hrq]; positivity
  · rw [hrq, huq, mul_pow]; exact mul_le_mul_of_nonneg_right h1 (by positivity)
  · rw [hrq, huq]
    have : (s : ℚ) + 1 ≤ (s : ℚ) * (1 + 1 / (B : ℚ) ^ (prec - 1)) := by
      rw [mul_add, mul_one, mul_one_div, add_le_add_iff_left, le_div_iff₀ hQ]; linarith
    have h3 : ((s : ℚ) + 1) ^ 2 ≤ ((s : ℚ) * (1 + 1 / (B : ℚ) ^ (prec - 1))) ^ 2 :=
      pow_le_pow_left₀ (by positivity) this 2
    calc (N : ℚ) / K * ulp ^ 2 < ((s : ℚ) + 1) ^ 2 * ulp ^ 2 := mul_lt_mul_of_pos_right h2 (by positivity)
      _ ≤ ((s : ℚ) * (1 + 1 / (B : ℚ) ^ (prec - 1))) ^ 2 * ulp ^ 2 := mul_le_mul_of_nonneg_right h3 (by positivity)
      _ = _ := by ring
  · intro x hx0 hxu hfit
    rw [hrq]
    obtain ⟨m, k, hm, hmp⟩ := hfit
    -- y = x / ulp lies in [s, s+1)
    have hy1 : ((s : ℚ) * ulp) ^ 2 ≤ x ^ 2 := by rw [hxu, huq, mul_pow]; exact mul_le_mul_of_nonneg_right h1 (by positivity)
    have hy2 : x ^ 2 < (((s : ℚ) + 1) * ulp) ^ 2 := by
      rw [hxu, huq, mul_pow]; exact mul_lt_mul_of_pos_right h2 (by positivity)
    have hx1 : (s : ℚ) * ulp ≤ x := (pow_le_pow_iff_left₀ (by positivity) hx0 two_ne_zero).mp hy1
    have hx2 : x < ((s : ℚ) + 1) * ulp := (pow_lt_pow_iff_left₀ hx0 (by positivity) two_ne_zero).mp hy2
    have hxpos : 0 < x := lt_of_lt_of_le (by positivity) hx1
    -- x = m·2^k with 0 < m < 2^p ≤ s, so x/ulp = m·2^j with j ≥ 1: an integer in [s, s+1)
    have two_ne : (2 : ℚ) ≠ 0 := by norm_num
    have h2k : (0 : ℚ) < (2 : ℚ) ^ k := zpow_pos (by norm_num) _
    have hmpos : 0 < m := by
      by_contra hc
      have : (m : ℚ) ≤ 0 := by exact_mod_cast (not_lt.mp hc)
      nlinarith
    have hulp2 : ulp = (2 : ℚ) ^ (64 * (e - (prec : ℤ))) := by rw [hulp, Bq_eq, ← zpow_natCast, ← zpow_mul]; norm_num
    have hsp : (2 : ℚ) ^ (PREC_TO_BITS prec) ≤ (s : ℚ) := by
      have : ((B ^ (prec - 1) : ℕ) : ℚ) = (2 : ℚ) ^ (PREC_TO_BITS prec) := by exact_mod_cast Bpow_eq_two_pow prec
      rw [← this]; exact_mod_cast c2
    have hmq : (m : ℚ) < (2 : ℚ) ^ (PREC_TO_BITS prec) := by
      have : m < 2 ^ (PREC_TO_BITS prec) := by rwa [abs_of_pos hmpos] at hmp
      exact_mod_cast this
    have hk : 64 * (e - (prec : ℤ)) < k := by
      by_contra hc
      push Not at hc
      have : (2 : ℚ) ^ k ≤ ulp := by rw [hulp2]; exact zpow_le_zpow_right₀ (by norm_num) hc
      have hm0 : (0 : ℚ) < (m : ℚ) := by exact_mod_cast hmpos
      nlinarith
    obtain ⟨j, hj⟩ : ∃ j : ℕ, k = 64 * (e - (prec : ℤ)) + j := ⟨(k - 64 * (e - (prec : ℤ))).toNat, by omega⟩
    have hxy : x = ((m.toNat * 2 ^ j : ℕ) : ℚ) * ulp := by
      rw [hm, hj, zpow_add₀ two_ne, ← hulp2, zpow_natCast]
      have : ((m.toNat : ℕ) : ℚ) = (m : ℚ) := by
        have : ((m.toNat : ℕ) : ℤ) = m := Int.toNat_of_nonneg (le_of_lt hmpos)
        exact_mod_cast this
      push_cast; rw [this]; ring
    rw [hxy] at hx1 hx2 ⊢
    have g1 : (s : ℚ) ≤ ((m.toNat * 2 ^ j : ℕ) : ℚ) := le_of_mul_le_mul_right hx1 hulp0
    have g2 : ((m.toNat * 2 ^ j : ℕ) : ℚ) < (s : ℚ) + 1 := lt_of_mul_lt_mul_right hx2 (le_of_lt hulp0)
    have g1' : s ≤ m.toNat * 2 ^ j := by exact_mod_cast g1
    have g2' : m.toNat * 2 ^ j < s + 1 := by exact_mod_cast g2
    have : m.toNat * 2 ^ j = s := by omega
    rw [this]


theorem sqrt_ui_eq_sqrt (prec : ℕ) (hp : 1 ≤ prec) (w : ℕ) (h0 : w ≠ 0) :
    sqrt prec (ofLimb w) = .ok (sqrt_ui prec w) := by
  unfold sqrt sqrt_ui ofLimb
  rw [if_neg (by norm_num), if_neg (by norm_num), if_neg h0]
  have h1 : ((1 : ℤ) % 2).toNat = 1 := by decide
  have h2 : ((1 : ℤ) + 1 % 2) / 2 = 1 := by decide
  simp only [h1, h2]
  have h3 : top (2 * prec - 1) [w] = [w] := top_of_le (by simp; omega)
  rw [h3]
  simp only [val, List.length_cons, List.length_nil]
  congr 4


/-! ### subtraction -/

/-! stripLow -/
theorem stripLow_spec : ∀ (l : List Nat), ∃ k, l = List.replicate k 0 ++ stripLow l ∧
    (stripLow l = [] ∨ (stripLow l).head? ≠ some 0)
  | [] => ⟨0, rfl, Or.inl rfl⟩
  | x :: xs => by
      by_cases hx : x = 0
      · obtain ⟨k, h1, h2⟩ := stripLow_spec xs
        refine ⟨k + 1, ?_, ?_⟩
        · simp only [stripLow, hx, if_true, List.replicate_succ, List.cons_append]; rw [← h1]
        · simp only [stripLow, hx, if_true]; exact h2
      · exact ⟨0, by simp [stripLow, hx], Or.inr (by simp [stripLow, hx])⟩

theorem qv_zeros_append (k : ℕ) (l : List Nat) (e : ℤ) : qv (List.replicate k 0 ++ l) e = qv l e := by
  unfold qv
  rw [val_append, val_replicate_zero, List.length_append, List.length_replicate, zero_add]
  push_cast
  have : (B : ℚ) ^ k * (B : ℚ) ^ (e - ((k : ℤ) + (l.length : ℤ))) = (B : ℚ) ^ (e - (l.length : ℤ)) := by
    rw [← zpow_natCast, ← zpow_add₀ Bq_ne]; congr 1; ring
  rw [← this]; ring

theorem qv_stripLow (l : List Nat) (e : ℤ) : qv (stripLow l) e = qv l e := by
  obtain ⟨k, h1, _⟩ := stripLow_spec l
  conv_rhs => rw [h1]
  rw [qv_zeros_append]

theorem Limbs_stripLow {l : List Nat} (h : Limbs l) : Limbs (stripLow l) := by
  obtain ⟨k, h1, _⟩ := stripLow_spec l
  rw [h1] at h; exact (Limbs_append.mp h).2

theorem stripLow_length_le (l : List Nat) : (stripLow l).length ≤ l.length := by
  obtain ⟨k, h1, _⟩ := stripLow_spec l
  conv_rhs => rw [h1]
  simp

theorem stripLow_getLast {l : List Nat} (hne : l ≠ []) (ht : l.getLast? ≠ some 0) :
    stripLow l ≠ [] ∧ (stripLow l).getLast? = l.getLast? := by
  obtain ⟨k, h1, _⟩ := stripLow_spec l
  have hne' : stripLow l ≠ [] := by
    intro h; rw [h, List.append_nil] at h1
    apply ht; rw [h1]
    cases k with
    | zero => rw [h1] at hne; simp at hne
    | succ k => simp [List.getLast?_replicate]
  refine ⟨hne', ?_⟩
  conv_rhs => rw [h1]
  rw [List.getLast?_append_of_ne_nil _ hne']

/-! stripHigh (normalize) -/
theorem dropWhile_eq_stripLow : ∀ r : List Nat, r.dropWhile (· == 0) = stripLow r
  | [] => rfl
  | x :: xs => by
      by_cases hx : x = 0
      · rw [List.dropWhile_cons_of_pos (by simp [hx]), dropWhile_eq_stripLow xs]; simp [stripLow, hx]
      · rw [List.dropWhile_cons_of_neg (by simp [hx])]; simp [stripLow, hx]

theorem normalize_spec (l : List Nat) :
    ∃ k, l = normalize l ++ List.replicate k 0 ∧ (normalize l).getLast? ≠ some 0 := by
  unfold normalize
  rw [dropWhile_eq_stripLow]
  obtain ⟨k, h1, h2⟩ := stripLow_spec l.reverse
  refine ⟨k, ?_, ?_⟩
  · have := congrArg List.reverse h1
    rw [List.reverse_reverse, List.reverse_append, List.reverse_replicate] at this
    exact this
  · rw [List.getLast?_reverse]
    rcases h2 with h | h
    · rw [h]; simp
    · exact h

theorem qv_append_zeros (l : List Nat) (k : ℕ) (e : ℤ) : qv (l ++ List.replicate k 0) e = qv l (e - (k : ℤ)) := by
  unfold qv
  rw [val_append, val_replicate_zero, List.length_append, List.length_replicate, mul_zero, add_zero]
  congr 2; push_cast; ring

theorem stripHigh_spec (l : List Nat) (e : ℤ) (hl : Limbs l) :
    Limbs (stripHigh l e).1 ∧ (stripHigh l e).1.getLast? ≠ some 0 ∧ (stripHigh l e).1.length ≤ l.length ∧
    qv (stripHigh l e).1 (stripHigh l e).2 = qv l e ∧ val (stripHigh l e).1 = val l := by
  unfold stripHigh
  simp only
  obtain ⟨k, h1, h2⟩ := normalize_spec l
  have hlen : l.length = (normalize l).length + k := by
    conv_lhs => rw [h1]
    simp
  refine ⟨?_, h2, by omega, ?_, ?_⟩
  · rw [h1] at hl; exact (Limbs_append.mp hl).1
  · conv_rhs => rw [h1]
    rw [qv_append_zeros]; congr 1
    have : l.length - (normalize l).length = k := by omega
    rw [this]
  · conv_rhs => rw [h1]
    rw [val_append, val_replicate_zero]; simp

/-! wrapSub -/
theorem wrapSub_spec (n a b : ℕ) (hba : b ≤ a) (han : a - b < B ^ n) :
    val (wrapSub n a b) = a - b ∧ (wrapSub n a b).length = n ∧ Limbs (wrapSub n a b) := by
  unfold wrapSub
  have h1 : (((a : ℤ) - (b : ℤ)) % ((B ^ n : ℕ) : ℤ)).toNat = a - b := by
    have h2 : (a : ℤ) - (b : ℤ) = ((a - b : ℕ) : ℤ) := by omega
    rw [h2, ← Int.natCast_mod, Int.toNat_natCast, Nat.mod_eq_of_lt han]
  rw [h1]
  exact ⟨val_toLimbs_of_lt han, toLimbs_length _ _, Limbs_toLimbs _ _⟩


/-! subLimbs -/
theorem subHi_spec (up vp : List Nat) (size : ℕ) (hlu : Limbs up) (hsz : size ≤ up.length)
    (hge : val vp * B ^ size ≤ val up) :
    val (up.take size ++ wrapSub (up.length - size) (val (up.drop size)) (val vp)) = val up - val vp * B ^ size ∧
    (up.take size ++ wrapSub (up.length - size) (val (up.drop size)) (val vp)).length = up.length ∧
    Limbs (up.take size ++ wrapSub (up.length - size) (val (up.drop size)) (val vp)) := by
  have hsplit := val_take_drop up size hsz
  have hlo := val_take_lt hlu size
  have hhi : val (up.drop size) < B ^ (up.length - size) := by
    have := val_lt _ (Limbs_drop hlu size); rwa [List.length_drop] at this
  have hV : val vp ≤ val (up.drop size) := by
    by_contra hc
    push Not at hc
    have : (val (up.drop size) + 1) * B ^ size ≤ val vp * B ^ size := Nat.mul_le_mul_right _ hc
    nlinarith
  obtain ⟨w1, w2, w3⟩ := wrapSub_spec (up.length - size) _ _ hV (lt_of_le_of_lt (Nat.sub_le _ _) hhi)
  have htl : (up.take size).length = size := by rw [List.length_take]; omega
  refine ⟨?_, by rw [List.length_append, htl, w2]; omega, Limbs_append.mpr ⟨Limbs_take hlu _, w3⟩⟩
  rw [val_append, htl, w1, hsplit]
  have : B ^ size * (val (up.drop size) - val vp) = B ^ size * val (up.drop size) - B ^ size * val vp := Nat.mul_sub _ _ _
  rw [this, mul_comm (val vp)]
  have : B ^ size * val vp ≤ B ^ size * val (up.drop size) := Nat.mul_le_mul_left _ hV
  omega

theorem subLo_spec (up vp : List Nat) (k n : ℕ) (hlu : Limbs up) (hn : n = up.length + k)
    (hge : val vp ≤ val up * B ^ k) :
    val (wrapSub n (val up * B ^ k) (val vp)) = val up * B ^ k - val vp ∧
    (wrapSub n (val up * B ^ k) (val vp)).length = n ∧ Limbs (wrapSub n (val up * B ^ k) (val vp)) := by
  have h1 : val up * B ^ k < B ^ n := by
    rw [hn, pow_add]; exact Nat.mul_lt_mul_of_pos_right (val_lt up hlu) (Bpow_pos k)
  exact wrapSub_spec n _ _ hge (lt_of_le_of_lt (Nat.sub_le _ _) h1)

theorem subLimbs_spec (up vp : List Nat) (ed : ℕ) (hlu : Limbs up)
    (hge : val vp * B ^ (max up.length (vp.length + ed) - ed - vp.length)
            ≤ val up * B ^ (max up.length (vp.length + ed) - up.length)) :
    val (subLimbs up vp ed) = val up * B ^ (max up.length (vp.length + ed) - up.length)
        - val vp * B ^ (max up.length (vp.length + ed) - ed - vp.length) ∧
    (subLimbs up vp ed).length = max up.length (vp.length + ed) ∧ Limbs (subLimbs up vp ed) := by
  unfold subLimbs
  simp only
  by_cases h1 : up.length > ed
  · rw [if_pos h1]
    by_cases h0 : ed = 0
    · rw [if_pos h0]
      subst h0
      by_cases h2 : up.length ≥ vp.length
      · rw [if_pos h2]
        have hm : max up.length (vp.length + 0) = up.length := by omega
        rw [hm] at hge ⊢
        rw [Nat.sub_self, pow_zero, mul_one, Nat.sub_zero] at hge ⊢
        have := subHi_spec up vp (up.length - vp.length) hlu (by omega) hge
        rwa [show up.length - (up.length - vp.length) = vp.length by omega] at this
      · rw [if_neg h2]
        have hm : max up.length (vp.length + 0) = vp.length := by omega
        rw [hm] at hge ⊢
        rw [Nat.sub_zero, Nat.sub_self, pow_zero, mul_one] at hge ⊢
        exact subLo_spec up vp (vp.length - up.length) vp.length hlu (by omega) hge
    · rw [if_neg h0]
      by_cases h2 : vp.length + ed ≤ up.length
      · rw [if_pos h2]
        have hm : max up.length (vp.length + ed) = up.length := by omega
        rw [hm] at hge ⊢
        rw [Nat.sub_self, pow_zero, mul_one] at hge ⊢
        exact subHi_spec up vp (up.length - ed - vp.length) hlu (by omega) hge
      · rw [if_neg h2]
        have hm : max up.length (vp.length + ed) = vp.length + ed := by omega
        rw [hm] at hge ⊢
        rw [show vp.length + ed - ed - vp.length = 0 by omega, pow_zero, mul_one] at hge ⊢
        exact subLo_spec up vp (vp.length + ed - up.length) (vp.length + ed) hlu (by omega) hge
  · rw [if_neg h1]
    have hm : max up.length (vp.length + ed) = vp.length + ed := by omega
    rw [hm] at hge ⊢
    rw [show vp.length + ed - ed - vp.length = 0 by omega, pow_zero, mul_one] at hge ⊢
    rw [show vp.length + ed - up.length + up.length = vp.length + ed by omega]
    exact subLo_spec up vp (vp.length + ed - up.length) (vp.length + ed) hlu (by omega) hge



/-- scaled limbs: (val l · B^k) · B^(e − (len l + k)) = qv l e -/
theorem qv_scaled (l : List Nat) (k : ℕ) (e : ℤ) :
    ((val l * B ^ k : ℕ) : ℚ) * (B : ℚ) ^ (e - ((l.length + k : ℕ) : ℤ)) = qv l e := by
  unfold qv; push_cast
  have : (B : ℚ) ^ k * (B : ℚ) ^ (e - ((l.length : ℤ) + (k : ℤ))) = (B : ℚ) ^ (e - (l.length : ℤ)) := by
    rw [← zpow_natCast, ← zpow_add₀ Bq_ne]; congr 1; ring
  rw [← this]; ring

theorem qv_nil (e : ℤ) : qv [] e = 0 := by simp [qv]

theorem qv_eq_zero_of_val {l : List Nat} {e : ℤ} (h : val l = 0) : qv l e = 0 := by simp [qv, h]

theorem qv_pos_iff {l : List Nat} {e : ℤ} : 0 < qv l e ↔ 0 < val l := by
  unfold qv
  constructor
  · intro h
    by_contra hc
    have : val l = 0 := by omega
    rw [this] at h; simp at h
  · intro h; exact mul_pos (by exact_mod_cast h) (zpow_pos Bq_pos _)

theorem subGeneral_spec (prec1 : ℕ) (hp : 3 ≤ prec1) (ud vd : List Nat) (exp ediff : ℤ) (h0 : 0 ≤ ediff)
    (hlu : Limbs ud) (hnu : ud ≠ []) (htu : ud.getLast? ≠ some 0) (hlv : Limbs vd)
    (hgap : (B : ℚ) ^ (exp - 2) ≤ qv ud exp - qv vd (exp - ediff)) :
    (subGeneral prec1 ud vd exp ediff).2.2 = false ∧
    Limbs (subGeneral prec1 ud vd exp ediff).1 ∧ (subGeneral prec1 ud vd exp ediff).1 ≠ [] ∧
    (subGeneral prec1 ud vd exp ediff).1.getLast? ≠ some 0 ∧ (subGeneral prec1 ud vd exp ediff).1.length ≤ prec1 ∧
    ∃ (lou lov kv V' : ℕ),
      qv (subGeneral prec1 ud vd exp ediff).1 (subGeneral prec1 ud vd exp ediff).2.1 =
        qv ud exp - qv vd (exp - ediff) - (lou : ℚ) * (B : ℚ) ^ (exp - (ud.length : ℤ))
          + (lov : ℚ) * (B : ℚ) ^ (exp - ediff - (vd.length : ℤ)) ∧
      (lou : ℚ) * (B : ℚ) ^ (exp - (ud.length : ℤ)) < (B : ℚ) ^ (exp - (prec1 : ℤ)) ∧
      (lov : ℚ) * (B : ℚ) ^ (exp - ediff - (vd.length : ℤ)) < (B : ℚ) ^ (exp - (prec1 : ℤ)) ∧
      val ud = lou + B ^ (ud.length - prec1) * val (top prec1 ud) ∧ lou < B ^ (ud.length - prec1) ∧
      val vd = lov + B ^ kv * V' ∧ lov < B ^ kv ∧ kv = ((vd.length : ℤ) + ediff - prec1).toNat := by
  obtain ⟨t1, t2, t3, t4, t5, t6, _⟩ := top_facts prec1 (by omega) ud hlu hnu htu
  have hnul : 0 < ud.length := List.length_pos_of_ne_nil hnu
  set kv := ((vd.length : ℤ) + ediff - prec1).toNat with hkv
  have hV := val_take_drop_any vd kv
  have hlov := val_take_lt hlv kv
  set vexp := exp - ediff with hvexp
  have hlouq : ((val (ud.take (ud.length - prec1)) : ℕ) : ℚ) * (B : ℚ) ^ (exp - (ud.length : ℤ)) < (B : ℚ) ^ (exp - (prec1 : ℤ)) := by
    rcases Nat.eq_zero_or_pos (ud.length - prec1) with h | h
    · rw [h]; simp; exact zpow_pos Bq_pos _
    · have := low_lt _ _ ud.length exp t6
      have e : exp - (ud.length : ℤ) + ((ud.length - prec1 : ℕ) : ℤ) = exp - (prec1 : ℤ) := by omega
      rwa [e] at this
  have hXsplit := qv_top prec1 ud exp
  have hpow : (B : ℚ) ^ (exp - (prec1 : ℤ)) ≤ (B : ℚ) ^ (exp - 2) / B := by
    rw [le_div_iff₀ Bq_pos]
    have : (B : ℚ) ^ (exp - (prec1 : ℤ)) * (B : ℚ) = (B : ℚ) ^ (exp - (prec1 : ℤ) + 1) := by rw [zpow_add₀ Bq_ne, zpow_one]
    rw [this]; exact zpow_le_zpow_B (by omega)
  have hB2 : (2 : ℚ) ≤ (B : ℚ) := by exact_mod_cast B_ge_two
  have hpos2 : (0 : ℚ) < (B : ℚ) ^ (exp - 2) := zpow_pos Bq_pos _
  unfold subGeneral
  simp only [selV_eq, ← hkv]
  by_cases hbig : ediff ≥ (prec1 : ℤ)
  · rw [if_pos hbig]
    refine ⟨rfl, t1, t2, t3, by rw [t4]; omega, val (ud.take (ud.length - prec1)), val vd, kv, 0, ?_, hlouq, ?_, t5, t6, ?_, ?_, rfl⟩
    · simp only; rw [hXsplit]; unfold qv; ring
    · have h1 : (val vd : ℚ) * (B : ℚ) ^ (vexp - (vd.length : ℤ)) < (B : ℚ) ^ vexp := qv_lt vd vexp hlv
      exact lt_of_lt_of_le h1 (zpow_le_zpow_B (by omega))
    · simp
    · exact lt_of_lt_of_le (val_lt vd hlv) (Nat.pow_le_pow_right B_pos (by omega))
  · rw [if_neg hbig]
    obtain ⟨ed, hed⟩ : ∃ ed : ℕ, ediff = (ed : ℤ) := ⟨ediff.toNat, by omega⟩
    have hedt : ediff.toNat = ed := by omega
    have hYsplit := qv_split vd vexp (min kv vd.length) (Nat.min_le_right _ _)
    have hlovq : ((val (vd.take kv) : ℕ) : ℚ) * (B : ℚ) ^ (vexp - (vd.length : ℤ)) < (B : ℚ) ^ (exp - (prec1 : ℤ)) := by
      rcases Nat.eq_zero_or_pos kv with h | h
      · rw [h]; simp; exact zpow_pos Bq_pos _
      · have := low_lt _ _ vd.length vexp hlov
        have e : vexp - (vd.length : ℤ) + (kv : ℤ) = exp - (prec1 : ℤ) := by omega
        rwa [e] at this
    have hkvlt : kv ≤ vd.length := by omega
    have hYs : qv vd vexp = (val (vd.take kv) : ℚ) * (B : ℚ) ^ (vexp - (vd.length : ℤ)) + qv (vd.drop kv) vexp :=
      qv_split vd vexp kv hkvlt
    by_cases hvz : (stripLow (vd.drop kv)).length = 0
    · -- nothing of V inside the window
      rw [if_pos hvz]
      have hvz' : qv (vd.drop kv) vexp = 0 := by
        rw [← qv_stripLow, List.eq_nil_of_length_eq_zero hvz, qv_nil]
      refine ⟨rfl, t1, t2, t3, by rw [t4]; omega, val (ud.take (ud.length - prec1)), val (vd.take kv), kv, val (vd.drop kv),
        ?_, hlouq, hlovq, t5, t6, hV, hlov, rfl⟩
      simp only; rw [hXsplit, hYs, hvz']; unfold qv; ring
    · rw [if_neg hvz]
      obtain ⟨sn, sl⟩ := stripLow_getLast t2 t3
      have hunz : ¬ (stripLow (top prec1 ud)).length = 0 := fun h => sn (List.eq_nil_of_length_eq_zero h)
      rw [if_neg hunz]
      set up := stripLow (top prec1 ud) with hup
      set vp := stripLow (vd.drop kv) with hvp
      have hqu : qv up exp = qv (top prec1 ud) exp := qv_stripLow _ _
      have hqv : qv vp vexp = qv (vd.drop kv) vexp := qv_stripLow _ _
      have hlup : Limbs up := Limbs_stripLow t1
      have hlvp : Limbs vp := Limbs_stripLow (Limbs_drop hlv _)
      have hual : up.length ≤ prec1 := le_trans (stripLow_length_le _) (by rw [t4]; omega)
      have hvl : vp.length + ed ≤ prec1 := by
        have h1 : vp.length ≤ (vd.drop kv).length := stripLow_length_le (vd.drop kv)
        rw [List.length_drop] at h1; omega
      set rs := max up.length (vp.length + ed) with hrs
      -- the kept parts still differ by a positive amount
      have hdiff : (B : ℚ) ^ (exp - 2) - (B : ℚ) ^ (exp - (prec1 : ℤ)) < qv up exp - qv vp vexp := by
        rw [hqu, hqv]
        have e1 : qv (top prec1 ud) exp = qv ud exp - (val (ud.take (ud.length - prec1)) : ℚ) * (B : ℚ) ^ (exp - (ud.length : ℤ)) := by
          rw [hXsplit]; ring
        have e2 : qv (vd.drop kv) vexp = qv vd vexp - (val (vd.take kv) : ℚ) * (B : ℚ) ^ (vexp - (vd.length : ℤ)) := by
          rw [hYs]; ring
        rw [e1, e2]
        have : (0 : ℚ) ≤ (val (vd.take kv) : ℚ) * (B : ℚ) ^ (vexp - (vd.length : ℤ)) :=
          mul_nonneg (by positivity) (le_of_lt (zpow_pos Bq_pos _))
        linarith
      have hdpos : 0 < qv up exp - qv vp vexp := by
        have : (B : ℚ) ^ (exp - (prec1 : ℤ)) ≤ (B : ℚ) ^ (exp - 2) / 2 := le_trans hpow (div_le_div_of_nonneg_left (le_of_lt hpos2) (by norm_num) hB2)
        linarith
      have hs1 := qv_scaled up (rs - up.length) exp
      have hs2 := qv_scaled vp (rs - ed - vp.length) vexp
      have hexp1 : exp - ((up.length + (rs - up.length) : ℕ) : ℤ) = exp - (rs : ℤ) := by omega
      have hexp2 : vexp - ((vp.length + (rs - ed - vp.length) : ℕ) : ℤ) = exp - (rs : ℤ) := by omega
      rw [hexp1] at hs1; rw [hexp2] at hs2
      have hsc : (0 : ℚ) < (B : ℚ) ^ (exp - (rs : ℤ)) := zpow_pos Bq_pos _
      have hge : val vp * B ^ (rs - ed - vp.length) ≤ val up * B ^ (rs - up.length) := by
        have : ((val vp * B ^ (rs - ed - vp.length) : ℕ) : ℚ) * (B : ℚ) ^ (exp - (rs : ℤ))
            ≤ ((val up * B ^ (rs - up.length) : ℕ) : ℚ) * (B : ℚ) ^ (exp - (rs : ℤ)) := by rw [hs1, hs2]; linarith
        exact_mod_cast le_of_mul_le_mul_right this hsc
      obtain ⟨g1, g2, g3⟩ := subLimbs_spec up vp ed hlup hge
      rw [hedt]
      obtain ⟨n1, n2, n3, n4, n5⟩ := stripHigh_spec (subLimbs up vp ed) exp g3
      generalize stripHigh (subLimbs up vp ed) exp = r at *
      obtain ⟨rd, e⟩ := r
      simp only at n1 n2 n3 n4 n5 ⊢
      have hqtp : qv (subLimbs up vp ed) exp = qv up exp - qv vp vexp := by
        unfold qv at hs1 hs2 ⊢
        rw [g2, g1, Nat.cast_sub hge, sub_mul, hs1, hs2]
      refine ⟨trivial, n1, ?_, n2, by omega, val (ud.take (ud.length - prec1)), val (vd.take kv), kv, val (vd.drop kv),
        ?_, hlouq, hlovq, t5, t6, hV, hlov, rfl⟩
      · intro h
        rw [h] at n5
        have : 0 < qv (subLimbs up vp ed) exp := by rw [hqtp]; exact hdpos
        rw [qv_pos_iff] at this
        simp at n5; omega
      · rw [n4, hqtp, hqu, hqv, hXsplit, hYs]; unfold qv; ring



/-- value of a most-significant-first limb list placed with exponent e -/
def qr (r : List Nat) (e : ℤ) : ℚ := qv r.reverse e

theorem qr_nil (e : ℤ) : qr [] e = 0 := by simp [qr, qv]

theorem qr_cons (h : ℕ) (t : List Nat) (e : ℤ) : qr (h :: t) e = (h : ℚ) * (B : ℚ) ^ (e - 1) + qr t (e - 1) := by
  unfold qr qv
  rw [List.reverse_cons, val_append, List.length_append, List.length_reverse]
  simp only [val_cons, val_nil, List.length_cons, List.length_nil]
  push_cast
  have : (B : ℚ) ^ t.length * (B : ℚ) ^ (e - ((t.length : ℤ) + (0 + 1))) = (B : ℚ) ^ (e - 1) := by
    rw [← zpow_natCast, ← zpow_add₀ Bq_ne]; congr 1; ring
  rw [show e - 1 - (t.length : ℤ) = e - ((t.length : ℤ) + (0 + 1)) by ring]
  rw [← this]; ring_nf

theorem qr_nonneg (r : List Nat) (e : ℤ) : 0 ≤ qr r e := qv_nonneg _ _

theorem Limbs_reverse {l : List Nat} (h : Limbs l) : Limbs l.reverse := fun x hx => h x (List.mem_reverse.mp hx)

theorem qr_lt (r : List Nat) (e : ℤ) (hl : Limbs r) : qr r e < (B : ℚ) ^ e := qv_lt _ _ (Limbs_reverse hl)

theorem Bz_succ (e : ℤ) : (B : ℚ) ^ e = (B : ℚ) * (B : ℚ) ^ (e - 1) := by
  rw [← zpow_one_add₀ Bq_ne]; congr 1; ring

/-- final inequality of the subtraction error analysis (general case and close case) -/
theorem sub_err_q (prec : ℕ) (hp : 2 ≤ prec) (E r eu ev : ℚ) (e : ℤ)
    (hr : r = E - eu + ev) (h0u : 0 ≤ eu) (h0v : 0 ≤ ev)
    (hu : eu < (B : ℚ) ^ (e - ((prec : ℤ) + 1))) (hv : ev < (B : ℚ) ^ (e - ((prec : ℤ) + 1)))
    (hE : (B : ℚ) ^ (e - 2) ≤ E) :
    |r - E| < eps prec * |E| := by
  have hEpos : 0 < E := lt_of_lt_of_le (zpow_pos Bq_pos _) hE
  have hQ : (0 : ℚ) < (B : ℚ) ^ (prec - 1) := pow_pos Bq_pos _
  have hW : (0 : ℚ) < (B : ℚ) ^ (e - ((prec : ℤ) + 1)) := zpow_pos Bq_pos _
  rw [eps_eq, abs_of_pos hEpos, hr, show E - eu + ev - E = ev - eu by ring, div_mul_eq_mul_div, lt_div_iff₀ hQ]
  have h1 : (B : ℚ) ^ (e - ((prec : ℤ) + 1)) * (B : ℚ) ^ (prec - 1) = (B : ℚ) ^ (e - 2) := by
    rw [← zpow_natCast, ← zpow_add₀ Bq_ne]; congr 1; omega
  have habs : |ev - eu| < (B : ℚ) ^ (e - ((prec : ℤ) + 1)) := by
    rw [abs_lt]; constructor <;> linarith
  calc |ev - eu| * (B : ℚ) ^ (prec - 1) < (B : ℚ) ^ (e - ((prec : ℤ) + 1)) * (B : ℚ) ^ (prec - 1) :=
        mul_lt_mul_of_pos_right habs hQ
    _ = (B : ℚ) ^ (e - 2) := h1
    _ ≤ E := hE
    _ ≤ 4 * E := by linarith


/-- x is an integer multiple of B^W -/
def IsMul (x : ℚ) (W : ℤ) : Prop := ∃ k : ℤ, x = (k : ℚ) * (B : ℚ) ^ W

theorem IsMul.sub {x y : ℚ} {W : ℤ} (hx : IsMul x W) (hy : IsMul y W) : IsMul (x - y) W := by
  obtain ⟨a, ha⟩ := hx; obtain ⟨b, hb⟩ := hy
  exact ⟨a - b, by rw [ha, hb]; push_cast; ring⟩

theorem IsMul.add {x y : ℚ} {W : ℤ} (hx : IsMul x W) (hy : IsMul y W) : IsMul (x + y) W := by
  obtain ⟨a, ha⟩ := hx; obtain ⟨b, hb⟩ := hy
  exact ⟨a + b, by rw [ha, hb]; push_cast; ring⟩

theorem IsMul.neg {x : ℚ} {W : ℤ} (hx : IsMul x W) : IsMul (-x) W := by
  obtain ⟨a, ha⟩ := hx; exact ⟨-a, by rw [ha]; push_cast; ring⟩

theorem IsMul.mono {x : ℚ} {W W' : ℤ} (hx : IsMul x W) (h : W' ≤ W) : IsMul x W' := by
  obtain ⟨a, ha⟩ := hx
  obtain ⟨j, hj⟩ : ∃ j : ℕ, W = W' + j := ⟨(W - W').toNat, by omega⟩
  exact ⟨a * (B : ℤ) ^ j, by rw [ha, hj, zpow_add₀ Bq_ne, zpow_natCast]; push_cast; ring⟩

theorem IsMul_nat_mul (n : ℕ) (z W : ℤ) (h : W ≤ z) : IsMul ((n : ℚ) * (B : ℚ) ^ z) W :=
  IsMul.mono ⟨n, by push_cast; ring⟩ h

/-- limbs of length ≤ n placed with exponent e are a multiple of B^(e−n) -/
theorem qv_isMul (l : List Nat) (e : ℤ) (n : ℕ) (h : l.length ≤ n) : IsMul (qv l e) (e - (n : ℤ)) := by
  unfold qv; exact IsMul_nat_mul _ _ _ (by omega)

theorem Bz_isMul (e W : ℤ) (h : W ≤ e) : IsMul ((B : ℚ) ^ e) W := by
  have := IsMul_nat_mul 1 e W h; simpa using this

/-- window information of a result: a multiple of B^W within B^W of D, and D not much below B^(W+prec−1) -/
def Win (prec : ℕ) (D : ℚ) (r : List Nat × ℤ × Bool) : Prop :=
  D = 0 ∨ ∃ W : ℤ, IsMul (qv r.1 r.2.1) W ∧ |(if r.2.2 then -1 else 1) * qv r.1 r.2.1 - D| < (B : ℚ) ^ W ∧
    (B : ℚ) ^ (W + (prec : ℤ) - 1) ≤ 2 * |D|

theorem exact_of_win (prec : ℕ) (hp : 1 ≤ prec) (D : ℚ) (r : List Nat × ℤ × Bool) (h : Win prec D r)
    (hf : Fits D (PREC_TO_BITS prec)) : (if r.2.2 then -1 else 1) * qv r.1 r.2.1 = D ∨ D = 0 := by
  rcases h with h | ⟨W, ⟨k, hk⟩, herr, hbig⟩
  · exact Or.inr h
  by_cases hD : D = 0
  · exact Or.inr hD
  left
  obtain ⟨m, k', hm, hmp⟩ := hf
  have two_ne : (2 : ℚ) ≠ 0 := by norm_num
  have hBW : (B : ℚ) ^ W = (2 : ℚ) ^ (64 * W) := by rw [Bq_eq, ← zpow_natCast, ← zpow_mul]; norm_num
  have hmne : m ≠ 0 := by intro h0; apply hD; rw [hm, h0]; simp
  have habsD : |D| = (|m| : ℤ) * (2 : ℚ) ^ k' := by
    rw [hm, abs_mul, abs_of_pos (zpow_pos (by norm_num : (0 : ℚ) < 2) k')]; push_cast; rfl
  -- k' ≥ 64 W
  have hk' : 64 * W ≤ k' := by
    by_contra hc
    push Not at hc
    have h1 : (2 : ℚ) ^ k' * 2 ≤ (2 : ℚ) ^ (64 * W) := by
      have : (2 : ℚ) ^ k' * 2 = (2 : ℚ) ^ (k' + 1) := by rw [zpow_add₀ two_ne, zpow_one]
      rw [this]; exact zpow_le_zpow_right₀ (by norm_num) (by omega)
    have h2 : ((|m| : ℤ) : ℚ) < (B : ℚ) ^ (prec - 1) := by
      have : (|m| : ℤ) < 2 ^ (PREC_TO_BITS prec) := hmp
      have h3 : ((|m| : ℤ) : ℚ) < (2 : ℚ) ^ (PREC_TO_BITS prec) := by exact_mod_cast this
      have h4 : ((B ^ (prec - 1) : ℕ) : ℚ) = (2 : ℚ) ^ (PREC_TO_BITS prec) := by exact_mod_cast Bpow_eq_two_pow prec
      push_cast at h4; rw [h4]; exact h3
    have h5 : (B : ℚ) ^ (W + (prec : ℤ) - 1) = (B : ℚ) ^ W * (B : ℚ) ^ (prec - 1) := by
      rw [← zpow_natCast, ← zpow_add₀ Bq_ne]; congr 1; omega
    rw [h5, habsD, hBW] at hbig
    have hp2 : (0 : ℚ) < (2 : ℚ) ^ k' := zpow_pos (by norm_num) _
    have hQ : (0 : ℚ) < (B : ℚ) ^ (prec - 1) := pow_pos Bq_pos _
    have hm0 : (0 : ℚ) ≤ ((|m| : ℤ) : ℚ) := by exact_mod_cast abs_nonneg m
    nlinarith
  obtain ⟨j, hj⟩ : ∃ j : ℕ, k' = 64 * W + j := ⟨(k' - 64 * W).toNat, by omega⟩
  have hDmul : D = ((m * 2 ^ j : ℤ) : ℚ) * (B : ℚ) ^ W := by
    rw [hm, hj, zpow_add₀ two_ne, hBW, zpow_natCast]; push_cast; ring
  -- both sides are integer multiples of B^W less than B^W apart
  have hpos : (0 : ℚ) < (B : ℚ) ^ W := zpow_pos Bq_pos _
  have hR : ∃ k2 : ℤ, (if r.2.2 then (-1 : ℚ) else 1) * qv r.1 r.2.1 = (k2 : ℚ) * (B : ℚ) ^ W := by
    by_cases hf : r.2.2 = true
    · exact ⟨-k, by rw [if_pos hf, hk]; push_cast; ring⟩
    · exact ⟨k, by rw [if_neg hf, hk]; ring⟩
  obtain ⟨k2, hk2⟩ := hR
  rw [hk2, hDmul] at herr ⊢
  rw [← sub_mul, abs_mul, abs_of_pos hpos] at herr
  have h1 : |(k2 : ℚ) - ((m * 2 ^ j : ℤ) : ℚ)| < 1 := by
    by_contra hc
    push Not at hc
    nlinarith
  have h2 : |k2 - m * 2 ^ j| < 1 := by
    have : ((|k2 - m * 2 ^ j| : ℤ) : ℚ) < 1 := by push_cast; push_cast at h1; exact h1
    exact_mod_cast this
  have h3 : k2 = m * 2 ^ j := by
    have := abs_lt.mp h2; omega
  rw [h3]


/-- what every branch of `subCore` must deliver: X − Y ≈ ± limbs -/
def SubOK (prec : ℕ) (D : ℚ) (r : List Nat × ℤ × Bool) : Prop :=
  Limbs r.1 ∧ r.1.getLast? ≠ some 0 ∧ r.1.length ≤ prec + 1 ∧
  (D = 0 → r.1 = []) ∧
  (D ≠ 0 → |(if r.2.2 then -1 else 1) * qv r.1 r.2.1 - D| < eps prec * |D|) ∧
  Win prec D r

/-- sub.c general_case with the operands at least B^(e−2) apart -/
theorem subGeneral_ok (prec : ℕ) (hp : 2 ≤ prec) (ud vd : List Nat) (exp ediff : ℤ) (h0 : 0 ≤ ediff)
    (hlu : Limbs ud) (hnu : ud ≠ []) (htu : ud.getLast? ≠ some 0) (hlv : Limbs vd)
    (hgap : (B : ℚ) ^ (exp - 2) ≤ qv ud exp - qv vd (exp - ediff)) :
    SubOK prec (qv ud exp - qv vd (exp - ediff)) (subGeneral (prec + 1) ud vd exp ediff) := by
  obtain ⟨s0, s1, s2, s3, s4, lou, lov, kv, V', q1, q2, q3, q4, q5, q6, q7, q8⟩ :=
    subGeneral_spec (prec + 1) (by omega) ud vd exp ediff h0 hlu hnu htu hlv hgap
  have hpos : 0 < qv ud exp - qv vd (exp - ediff) := lt_of_lt_of_le (zpow_pos Bq_pos _) hgap
  push_cast at q2 q3
  have n1 : (0 : ℚ) ≤ (lou : ℚ) * (B : ℚ) ^ (exp - (ud.length : ℤ)) := mul_nonneg (by positivity) (le_of_lt (zpow_pos Bq_pos _))
  have n2 : (0 : ℚ) ≤ (lov : ℚ) * (B : ℚ) ^ (exp - ediff - (vd.length : ℤ)) := mul_nonneg (by positivity) (le_of_lt (zpow_pos Bq_pos _))
  refine ⟨s1, s3, s4, fun h => absurd h (ne_of_gt hpos), fun _ => ?_, Or.inr ⟨exp - ((prec : ℤ) + 1), ?_, ?_, ?_⟩⟩
  · rw [s0]
    simp only [Bool.false_eq_true, if_false, one_mul]
    exact sub_err_q prec hp _ _ _ _ exp q1 n1 n2 q2 q3 hgap
  · -- the result is a multiple of the window unit
    rw [q1]
    have e1 : qv ud exp - (lou : ℚ) * (B : ℚ) ^ (exp - (ud.length : ℤ))
        = ((B ^ (ud.length - (prec + 1)) * val (top (prec + 1) ud) : ℕ) : ℚ) * (B : ℚ) ^ (exp - (ud.length : ℤ)) := by
      unfold qv; rw [q4]; push_cast; ring
    have e2 : qv vd (exp - ediff) - (lov : ℚ) * (B : ℚ) ^ (exp - ediff - (vd.length : ℤ))
        = ((B ^ kv * V' : ℕ) : ℚ) * (B : ℚ) ^ (exp - ediff - (vd.length : ℤ)) := by
      unfold qv; rw [q6]; push_cast; ring
    have m1 : IsMul (qv ud exp - (lou : ℚ) * (B : ℚ) ^ (exp - (ud.length : ℤ))) (exp - ((prec : ℤ) + 1)) := by
      rw [e1]
      have : ((B ^ (ud.length - (prec + 1)) * val (top (prec + 1) ud) : ℕ) : ℚ) * (B : ℚ) ^ (exp - (ud.length : ℤ))
          = ((val (top (prec + 1) ud) : ℕ) : ℚ) * (B : ℚ) ^ (exp - (ud.length : ℤ) + ((ud.length - (prec + 1) : ℕ) : ℤ)) := by
        rw [zpow_add₀ Bq_ne, zpow_natCast]; push_cast; ring
      rw [this]; exact IsMul_nat_mul _ _ _ (by omega)
    have m2 : IsMul (qv vd (exp - ediff) - (lov : ℚ) * (B : ℚ) ^ (exp - ediff - (vd.length : ℤ))) (exp - ((prec : ℤ) + 1)) := by
      rw [e2]
      have : ((B ^ kv * V' : ℕ) : ℚ) * (B : ℚ) ^ (exp - ediff - (vd.length : ℤ))
          = ((V' : ℕ) : ℚ) * (B : ℚ) ^ (exp - ediff - (vd.length : ℤ) + (kv : ℤ)) := by
        rw [zpow_add₀ Bq_ne, zpow_natCast]; push_cast; ring
      rw [this]; exact IsMul_nat_mul _ _ _ (by push_cast at q8; omega)
    have := m1.sub m2
    have e3 : qv ud exp - qv vd (exp - ediff) - (lou : ℚ) * (B : ℚ) ^ (exp - (ud.length : ℤ))
          + (lov : ℚ) * (B : ℚ) ^ (exp - ediff - (vd.length : ℤ))
        = (qv ud exp - (lou : ℚ) * (B : ℚ) ^ (exp - (ud.length : ℤ)))
          - (qv vd (exp - ediff) - (lov : ℚ) * (B : ℚ) ^ (exp - ediff - (vd.length : ℤ))) := by ring
    rw [e3]; exact this
  · rw [s0]
    simp only [Bool.false_eq_true, if_false, one_mul]
    rw [q1, abs_lt]
    constructor <;> linarith
  · rw [abs_of_pos hpos, show exp - ((prec : ℤ) + 1) + (prec : ℤ) - 1 = exp - 2 by ring]; linarith


theorem scan_spec : ∀ (ur vr : List Nat) (e : ℤ), Limbs ur → Limbs vr → ur ≠ [] → vr ≠ [] →
    match scan ur vr e with
    | .uGone vr' e' => qr ur e - qr vr e = - qr vr' e' ∧ Limbs vr'
    | .vGone ur' e' => qr ur e - qr vr e = qr ur' e' ∧ Limbs ur' ∧ ur' ≠ []
    | .differ ur' vr' e' => qr ur e - qr vr e = qr ur' e' - qr vr' e' ∧ Limbs ur' ∧ Limbs vr' ∧
        ur' ≠ [] ∧ vr' ≠ [] ∧ ur'.headD 0 ≠ vr'.headD 0
  | [], _, _, _, _, h, _ => absurd rfl h
  | _ :: _, [], _, _, _, _, h => absurd rfl h
  | a :: us, b :: vs, e, hlu, hlv, _, _ => by
      have ⟨_, hus⟩ := Limbs_cons.mp hlu
      have ⟨_, hvs⟩ := Limbs_cons.mp hlv
      unfold scan
      by_cases hab : (a != b) = true
      · rw [if_pos hab]
        exact ⟨rfl, hlu, hlv, by simp, by simp, by simpa using hab⟩
      · rw [if_neg hab]
        have hab' : a = b := by simpa using hab
        subst hab'
        have hstep : qr (a :: us) e - qr (a :: vs) e = qr us (e - 1) - qr vs (e - 1) := by
          rw [qr_cons, qr_cons]; ring
        by_cases h1 : us.isEmpty = true
        · rw [if_pos h1]
          have : us = [] := List.isEmpty_iff.mp h1
          subst this
          exact ⟨by rw [hstep, qr_nil]; ring, hvs⟩
        · rw [if_neg h1]
          have hune : us ≠ [] := fun h => h1 (by rw [h]; rfl)
          by_cases h2 : vs.isEmpty = true
          · rw [if_pos h2]
            have : vs = [] := List.isEmpty_iff.mp h2
            subst this
            exact ⟨by rw [hstep, qr_nil]; ring, hus, hune⟩
          · rw [if_neg h2]
            have hvne : vs ≠ [] := fun h => h2 (by rw [h]; rfl)
            have ih := scan_spec us vs (e - 1) hus hvs hune hvne
            rw [hstep]
            exact ih


/-- value-preserving truncation of a normalised little-endian vector to prec+1 limbs -/
theorem trunc_ok (prec : ℕ) (hp : 1 ≤ prec) (d : List Nat) (e : ℤ) (hl : Limbs d) (hne : d ≠ [])
    (ht : d.getLast? ≠ some 0) :
    Limbs (top (prec + 1) d) ∧ top (prec + 1) d ≠ [] ∧ (top (prec + 1) d).getLast? ≠ some 0 ∧
    (top (prec + 1) d).length ≤ prec + 1 ∧
    |qv (top (prec + 1) d) e - qv d e| < eps prec * |qv d e| ∧
    (B ^ (d.length - prec) ∣ val d → qv (top (prec + 1) d) e = qv d e) := by
  obtain ⟨t1, t2, t3, t4, t5, t6, t7⟩ := top_trunc prec hp d hl hne ht
  have hq : qv (top (prec + 1) d) e
      = 1 * ((val (top (prec + 1) d) * B ^ (d.length - (prec + 1)) : ℕ) : ℚ) * (B : ℚ) ^ (e - (d.length : ℤ)) := by
    rw [one_mul]
    have := qv_scaled (top (prec + 1) d) (d.length - (prec + 1)) e
    rw [← this, t4]; congr 2; omega
  have hq2 : qv d e = 1 * ((val d : ℕ) : ℚ) * (B : ℚ) ^ (e - (d.length : ℤ)) := by unfold qv; ring
  refine ⟨t1, t2, t3, by rw [t4]; omega, ?_, ?_⟩
  · rw [hq, hq2]; exact err_of_nat 1 (Or.inl rfl) _ _ _ (zpow_pos Bq_pos _) prec t5 t6
  · intro hd; rw [hq, hq2, t7 hd]

theorem qv_top_lt (n : ℕ) (d : List Nat) (e : ℤ) (hl : Limbs d) :
    qv (top n d) e ≤ qv d e ∧ qv d e - qv (top n d) e < (B : ℚ) ^ (e - (n : ℤ)) := by
  have h := qv_top n d e
  have hlo := val_take_lt hl (d.length - n)
  have hnn : (0 : ℚ) ≤ (val (d.take (d.length - n)) : ℚ) * (B : ℚ) ^ (e - (d.length : ℤ)) :=
    mul_nonneg (by positivity) (le_of_lt (zpow_pos Bq_pos _))
  refine ⟨by linarith, ?_⟩
  rw [h, add_sub_cancel_right]
  rcases Nat.eq_zero_or_pos (d.length - n) with h0 | h0
  · rw [h0]; simp; exact zpow_pos Bq_pos _
  · have := low_lt _ _ d.length e hlo
    have e1 : e - (d.length : ℤ) + ((d.length - n : ℕ) : ℤ) = e - (n : ℤ) := by omega
    rwa [e1] at this

theorem cancellation_ok (prec : ℕ) (hp : 1 ≤ prec) (wr : List Nat) (e : ℤ) (hl : Limbs wr) (flip : Bool) (σ : ℚ)
    (hσ : σ = if flip then -1 else 1) :
    SubOK prec (σ * qr wr e) ((cancellation (prec + 1) wr e).1, (cancellation (prec + 1) wr e).2, flip) := by
  unfold cancellation
  simp only
  rw [dropWhile_eq_stripLow]
  obtain ⟨k, h1, h2⟩ := stripLow_spec wr
  set w := stripLow wr with hw
  have hlw : Limbs w := Limbs_stripLow hl
  have hk : wr.length - w.length = k := by
    have : wr.length = k + w.length := by conv_lhs => rw [h1]; simp
    omega
  have hqr : qr wr e = qr w (e - (k : ℤ)) := by
    unfold qr
    conv_lhs => rw [h1, List.reverse_append, List.reverse_replicate]
    exact qv_append_zeros _ _ _
  have hrev : (w.take (prec + 1)).reverse = top (prec + 1) w.reverse := by
    unfold top; rw [List.reverse_take, List.length_reverse]
  rw [hk, hrev, hqr]
  have hσ1 : σ = 1 ∨ σ = -1 := by cases flip <;> simp [hσ]
  by_cases hw0 : w = []
  · rw [hw0]
    refine ⟨by simp [top, Limbs_nil], by simp [top], by simp [top], fun _ => by simp [top], fun h => ?_,
      Or.inl (by simp [qr_nil])⟩
    exfalso; apply h; simp [qr_nil]
  · have hrne : w.reverse ≠ [] := by simpa using hw0
    have hrt : w.reverse.getLast? ≠ some 0 := by
      rw [List.getLast?_reverse]; exact h2.resolve_left hw0
    obtain ⟨c1, c2, c3, c4, c5, _⟩ := trunc_ok prec hp w.reverse (e - (k : ℤ)) (Limbs_reverse hlw) hrne hrt
    have hpos : 0 < qv w.reverse (e - (k : ℤ)) := qv_pos_iff.mpr (val_pos_of_top hrne hrt)
    have hσa : |σ| = 1 := by rcases hσ1 with h' | h' <;> rw [h'] <;> simp
    obtain ⟨b1, b2⟩ := qv_top_lt (prec + 1) w.reverse (e - (k : ℤ)) (Limbs_reverse hlw)
    have hge := qv_ge w.reverse (e - (k : ℤ)) hrne hrt
    refine ⟨c1, c3, c4, fun h => ?_, fun _ => ?_, Or.inr ⟨e - (k : ℤ) - ((prec + 1 : ℕ) : ℤ), qv_isMul _ _ _ c4, ?_, ?_⟩⟩
    · exfalso
      unfold qr at h
      rcases hσ1 with h' | h' <;> rw [h'] at h <;> linarith
    · simp only
      rw [← hσ]
      unfold qr
      rw [← mul_sub, abs_mul, abs_mul, hσa, one_mul, one_mul]; exact c5
    · simp only
      rw [← hσ]
      unfold qr
      rw [← mul_sub, abs_mul, hσa, one_mul, abs_sub_comm, abs_of_nonneg (by linarith)]; exact b2
    · unfold qr
      rw [abs_mul, hσa, one_mul, abs_of_pos hpos]
      have : (B : ℚ) ^ (e - (k : ℤ) - ((prec + 1 : ℕ) : ℤ) + (prec : ℤ) - 1) ≤ (B : ℚ) ^ (e - (k : ℤ) - 1) :=
        zpow_le_zpow_B (by push_cast; omega)
      linarith



theorem wrapSub_wrap (n a b : ℕ) (hab : a < b) (hb : b ≤ a + B ^ n) :
    val (wrapSub n a b) = a + B ^ n - b ∧ (wrapSub n a b).length = n ∧ Limbs (wrapSub n a b) := by
  unfold wrapSub
  have h1 : (((a : ℤ) - (b : ℤ)) % ((B ^ n : ℕ) : ℤ)).toNat = a + B ^ n - b := by
    have h2 : (a : ℤ) - (b : ℤ) = ((a + B ^ n - b : ℕ) : ℤ) + ((B ^ n : ℕ) : ℤ) * (-1) := by
      rw [Nat.cast_sub hb]; push_cast; ring
    rw [h2, Int.add_mul_emod_self_left, ← Int.natCast_mod, Int.toNat_natCast, Nat.mod_eq_of_lt (by omega)]
  rw [h1]
  exact ⟨val_toLimbs_of_lt (by omega), toLimbs_length _ _, Limbs_toLimbs _ _⟩

/-- final inequality, variant with the weaker lower bound 2E ≥ B^(e−2) -/
theorem sub_err_q' (prec : ℕ) (hp : 1 ≤ prec) (E r eu ev : ℚ) (e : ℤ)
    (hr : r = E - eu + ev) (h0u : 0 ≤ eu) (h0v : 0 ≤ ev)
    (hu : eu < (B : ℚ) ^ (e - ((prec : ℤ) + 1))) (hv : ev < (B : ℚ) ^ (e - ((prec : ℤ) + 1)))
    (hE : (B : ℚ) ^ (e - 2) ≤ 2 * E) :
    |r - E| < eps prec * |E| := by
  have hEpos : 0 < E := by have := zpow_pos Bq_pos (e - 2); linarith
  have hQ : (0 : ℚ) < (B : ℚ) ^ (prec - 1) := pow_pos Bq_pos _
  rw [eps_eq, abs_of_pos hEpos, hr, show E - eu + ev - E = ev - eu by ring, div_mul_eq_mul_div, lt_div_iff₀ hQ]
  have h1 : (B : ℚ) ^ (e - ((prec : ℤ) + 1)) * (B : ℚ) ^ (prec - 1) = (B : ℚ) ^ (e - 2) := by
    rw [← zpow_natCast, ← zpow_add₀ Bq_ne]; congr 1; omega
  have habs : |ev - eu| < (B : ℚ) ^ (e - ((prec : ℤ) + 1)) := by
    rw [abs_lt]; constructor <;> linarith
  calc |ev - eu| * (B : ℚ) ^ (prec - 1) < (B : ℚ) ^ (e - ((prec : ℤ) + 1)) * (B : ℚ) ^ (prec - 1) :=
        mul_lt_mul_of_pos_right habs hQ
    _ = (B : ℚ) ^ (e - 2) := h1
    _ ≤ 2 * E := hE
    _ ≤ 4 * E := by linarith

/-- natural-number content of `closeLimbs`: c extra limb, value B^n + u·B^(n−a) − v·B^(n−b) -/
theorem closeLimbs_nat (up vp : List Nat) (e1 : ℤ) (hlu : Limbs up) (hlv : Limbs vp) :
    ∃ c : ℕ, c ≤ 1 ∧ (closeLimbs up vp e1).1.length = max up.length vp.length + c ∧
      (closeLimbs up vp e1).2 = e1 + (c : ℤ) ∧ Limbs (closeLimbs up vp e1).1 ∧
      val (closeLimbs up vp e1).1 + val vp * B ^ (max up.length vp.length - vp.length)
        = B ^ (max up.length vp.length) + val up * B ^ (max up.length vp.length - up.length) := by
  have hU := val_lt up hlu
  have hV := val_lt vp hlv
  have one_lt : (1 : ℕ) < B := one_lt_B
  have L1 : Limbs [1] := Limbs_cons.mpr ⟨one_lt, Limbs_nil⟩
  unfold closeLimbs
  simp only
  by_cases hb : vp.length = 0
  · rw [if_pos hb]
    have hvp : vp = [] := List.eq_nil_of_length_eq_zero hb
    subst hvp
    refine ⟨1, le_refl _, by simp, by simp, Limbs_append.mpr ⟨hlu, L1⟩, ?_⟩
    simp [val_append]; ring
  · rw [if_neg hb]
    by_cases ha : up.length = 0
    · rw [if_pos ha]
      have hup : up = [] := List.eq_nil_of_length_eq_zero ha
      subst hup
      have hm : max ([] : List Nat).length vp.length = vp.length := by simp
      by_cases hv0 : val vp = 0
      · rw [if_pos hv0, hv0]
        obtain ⟨w1, w2, w3⟩ := wrapSub_spec vp.length 0 0 (le_refl _) (by simpa using Bpow_pos vp.length)
        refine ⟨1, le_refl _, by simp [w2], by simp, Limbs_append.mpr ⟨w3, L1⟩, ?_⟩
        rw [val_append, w1, w2]; simp
      · rw [if_neg hv0]
        obtain ⟨w1, w2, w3⟩ := wrapSub_wrap vp.length 0 (val vp) (by omega) (by omega)
        refine ⟨0, by omega, by simp [w2], by simp, w3, ?_⟩
        rw [w1, hm]; simp; omega
    · rw [if_neg ha]
      by_cases hab : up.length ≥ vp.length
      · rw [if_pos hab]
        have hm : max up.length vp.length = up.length := by omega
        rw [hm, Nat.sub_self, pow_zero, mul_one]
        have hsplit := val_take_drop up (up.length - vp.length) (by omega)
        have hhi : val (up.drop (up.length - vp.length)) < B ^ vp.length := by
          have := val_lt _ (Limbs_drop hlu (up.length - vp.length))
          rwa [List.length_drop, show up.length - (up.length - vp.length) = vp.length by omega] at this
        have htl : (up.take (up.length - vp.length)).length = up.length - vp.length := by rw [List.length_take]; omega
        have hpw : B ^ up.length = B ^ (up.length - vp.length) * B ^ vp.length := by rw [← pow_add]; congr 1; omega
        by_cases hge : val (up.drop (up.length - vp.length)) ≥ val vp
        · rw [if_pos hge]
          obtain ⟨w1, w2, w3⟩ := wrapSub_spec vp.length _ _ hge (lt_of_le_of_lt (Nat.sub_le _ _) hhi)
          refine ⟨1, le_refl _, ?_, by simp, Limbs_append.mpr ⟨Limbs_append.mpr ⟨Limbs_take hlu _, w3⟩, L1⟩, ?_⟩
          · simp [htl, w2]; omega
          · rw [val_append, val_append, w1, htl, List.length_append, htl, w2,
              show up.length - vp.length + vp.length = up.length by omega, hsplit]
            simp only [val_cons, val_nil, mul_zero, add_zero, mul_one]
            have : B ^ (up.length - vp.length) * (val (up.drop (up.length - vp.length)) - val vp)
                = B ^ (up.length - vp.length) * val (up.drop (up.length - vp.length)) - B ^ (up.length - vp.length) * val vp :=
              Nat.mul_sub _ _ _
            have h2 : B ^ (up.length - vp.length) * val vp ≤ B ^ (up.length - vp.length) * val (up.drop (up.length - vp.length)) :=
              Nat.mul_le_mul_left _ hge
            rw [this, mul_comm (val vp)]; omega
        · rw [if_neg hge]
          obtain ⟨w1, w2, w3⟩ := wrapSub_wrap vp.length (val (up.drop (up.length - vp.length))) (val vp) (by omega) (by omega)
          refine ⟨0, by omega, ?_, by simp, Limbs_append.mpr ⟨Limbs_take hlu _, w3⟩, ?_⟩
          · simp [htl, w2]; omega
          · rw [val_append, w1, htl, hsplit, hpw, Nat.mul_sub, mul_add, mul_comm (val vp)]
            have h2 : B ^ (up.length - vp.length) * val vp
                ≤ B ^ (up.length - vp.length) * val (up.drop (up.length - vp.length)) + B ^ (up.length - vp.length) * B ^ vp.length := by
              have : val vp ≤ val (up.drop (up.length - vp.length)) + B ^ vp.length := by omega
              calc _ ≤ B ^ (up.length - vp.length) * (val (up.drop (up.length - vp.length)) + B ^ vp.length) := Nat.mul_le_mul_left _ this
                _ = _ := by ring
            omega
      · rw [if_neg hab]
        have hm : max up.length vp.length = vp.length := by omega
        rw [hm, Nat.sub_self, pow_zero, mul_one]
        have hlt : val up * B ^ (vp.length - up.length) < B ^ vp.length := by
          have : vp.length = up.length + (vp.length - up.length) := by omega
          conv_rhs => rw [this, pow_add]
          exact Nat.mul_lt_mul_of_pos_right hU (Bpow_pos _)
        by_cases hge : val up * B ^ (vp.length - up.length) ≥ val vp
        · rw [if_pos hge]
          obtain ⟨w1, w2, w3⟩ := wrapSub_spec vp.length _ _ hge (lt_of_le_of_lt (Nat.sub_le _ _) hlt)
          refine ⟨1, le_refl _, by simp [w2], by simp, Limbs_append.mpr ⟨w3, L1⟩, ?_⟩
          rw [val_append, w1, w2]; simp only [val_cons, val_nil, mul_zero, add_zero, mul_one]; omega
        · rw [if_neg hge]
          obtain ⟨w1, w2, w3⟩ := wrapSub_wrap vp.length (val up * B ^ (vp.length - up.length)) (val vp) (by omega) (by omega)
          refine ⟨0, by omega, by simp [w2], by simp, w3, ?_⟩
          rw [w1]; omega



theorem closeLimbs_q (up vp : List Nat) (e1 : ℤ) (hlu : Limbs up) (hlv : Limbs vp) :
    Limbs (closeLimbs up vp e1).1 ∧ (closeLimbs up vp e1).1.length ≤ max up.length vp.length + 1 ∧
    qv (closeLimbs up vp e1).1 (closeLimbs up vp e1).2 = (B : ℚ) ^ e1 + qv up e1 - qv vp e1 := by
  obtain ⟨c, hc, h1, h2, h3, h4⟩ := closeLimbs_nat up vp e1 hlu hlv
  refine ⟨h3, by omega, ?_⟩
  set n := max up.length vp.length with hn
  have hs1 := qv_scaled up (n - up.length) e1
  have hs2 := qv_scaled vp (n - vp.length) e1
  have e1' : e1 - ((up.length + (n - up.length) : ℕ) : ℤ) = e1 - (n : ℤ) := by omega
  have e2' : e1 - ((vp.length + (n - vp.length) : ℕ) : ℤ) = e1 - (n : ℤ) := by omega
  rw [e1'] at hs1; rw [e2'] at hs2
  have hq : qv (closeLimbs up vp e1).1 (closeLimbs up vp e1).2 = ((val (closeLimbs up vp e1).1 : ℕ) : ℚ) * (B : ℚ) ^ (e1 - (n : ℤ)) := by
    unfold qv; rw [h1, h2]; congr 2; push_cast; ring
  have hB : ((B ^ n : ℕ) : ℚ) * (B : ℚ) ^ (e1 - (n : ℤ)) = (B : ℚ) ^ e1 := by
    push_cast; rw [← zpow_natCast, ← zpow_add₀ Bq_ne]; congr 1; ring
  have h4q : ((val (closeLimbs up vp e1).1 + val vp * B ^ (n - vp.length) : ℕ) : ℚ) * (B : ℚ) ^ (e1 - (n : ℤ))
      = ((B ^ n + val up * B ^ (n - up.length) : ℕ) : ℚ) * (B : ℚ) ^ (e1 - (n : ℤ)) := by rw [h4]
  rw [Nat.cast_add, Nat.cast_add, add_mul, add_mul, hs1, hs2, hB, ← hq] at h4q
  linarith

/-- most-significant-first split -/
theorem qr_append (a b : List Nat) (e : ℤ) : qr (a ++ b) e = qr a e + qr b (e - (a.length : ℤ)) := by
  induction a generalizing e with
  | nil => simp [qr_nil]
  | cons x xs ih =>
    rw [List.cons_append, qr_cons, qr_cons, ih]
    simp only [List.length_cons]; push_cast
    rw [show e - 1 - (xs.length : ℤ) = e - ((xs.length : ℤ) + 1) by ring]; ring

theorem qr_take_drop (r : List Nat) (n : ℕ) (e : ℤ) (hl : Limbs r) :
    qr r e = qr (r.take n) e + (qr r e - qr (r.take n) e) ∧ 0 ≤ qr r e - qr (r.take n) e ∧
    qr r e - qr (r.take n) e < (B : ℚ) ^ (e - (n : ℤ)) := by
  have h := qr_append (r.take n) (r.drop n) e
  rw [List.take_append_drop] at h
  refine ⟨by ring, by rw [h]; linarith [qr_nonneg (r.drop n) (e - ((r.take n).length : ℤ))], ?_⟩
  rw [h, add_sub_cancel_left]
  rcases le_or_gt n r.length with hn | hn
  · have : (r.take n).length = n := by rw [List.length_take]; omega
    rw [this]; exact qr_lt _ _ (Limbs_drop hl n)
  · rw [List.drop_eq_nil_of_le (le_of_lt hn), qr_nil]; exact zpow_pos Bq_pos _

theorem qr_replicate_max (k : ℕ) (t : List Nat) (e : ℤ) :
    qr (List.replicate k (B - 1) ++ t) e = (B : ℚ) ^ e - (B : ℚ) ^ (e - (k : ℤ)) + qr t (e - (k : ℤ)) := by
  induction k generalizing e with
  | zero => simp
  | succ k ih =>
    rw [List.replicate_succ, List.cons_append, qr_cons, ih]
    have hB1 : ((B - 1 : ℕ) : ℚ) = (B : ℚ) - 1 := by rw [Nat.cast_sub (le_of_lt one_lt_B)]; simp
    rw [hB1, Bz_succ e]; push_cast
    rw [show e - 1 - (k : ℤ) = e - ((k : ℤ) + 1) by ring]; ring

theorem dropWhile_spec (p : Nat → Bool) : ∀ (l : List Nat), ∃ k, l = l.take k ++ l.dropWhile p ∧ k = l.length - (l.dropWhile p).length ∧
    (∀ x ∈ l.take k, p x = true) ∧ (l.dropWhile p = [] ∨ ∃ h t, l.dropWhile p = h :: t ∧ p h = false)
  | [] => ⟨0, by simp, by simp, by simp, Or.inl rfl⟩
  | x :: xs => by
      by_cases hx : p x = true
      · obtain ⟨k, h1, h2, h3, h4⟩ := dropWhile_spec p xs
        rw [List.dropWhile_cons_of_pos hx]
        refine ⟨k + 1, by simp only [List.take_succ_cons, List.cons_append]; rw [← h1], ?_, ?_, h4⟩
        · have := congrArg List.length h1; simp at this ⊢; omega
        · intro y hy; simp only [List.take_succ_cons, List.mem_cons] at hy
          rcases hy with h | h
          · rw [h]; exact hx
          · exact h3 y h
      · rw [List.dropWhile_cons_of_neg hx]
        exact ⟨0, by simp, by simp, by simp, Or.inr ⟨x, xs, rfl, by simpa using hx⟩⟩


theorem take_eq_replicate {l : List Nat} {k : ℕ} {c : ℕ} (hk : k ≤ l.length) (h : ∀ x ∈ l.take k, x = c) :
    l.take k = List.replicate k c := by
  apply List.eq_replicate_iff.mpr
  exact ⟨by rw [List.length_take]; omega, h⟩

/-- sub.c:179-259 -/
theorem subCloseFin_spec (rprec : ℕ) (hp : 2 ≤ rprec) (ur vr : List Nat) (e : ℤ) (hlu : Limbs ur) (hlv : Limbs vr)
    (hcond : ¬ (ur.head? = some 0 ∧ vr.head? = some (B - 1))) :
    Limbs (subCloseFin rprec ur vr e).1 ∧ (subCloseFin rprec ur vr e).1 ≠ [] ∧
    (subCloseFin rprec ur vr e).1.getLast? ≠ some 0 ∧ (subCloseFin rprec ur vr e).1.length ≤ rprec + 1 ∧
    0 < (B : ℚ) ^ e + qr ur e - qr vr e ∧
    |qv (subCloseFin rprec ur vr e).1 (subCloseFin rprec ur vr e).2 - ((B : ℚ) ^ e + qr ur e - qr vr e)|
      < eps rprec * |(B : ℚ) ^ e + qr ur e - qr vr e| ∧
    ∃ W : ℤ, IsMul (qv (subCloseFin rprec ur vr e).1 (subCloseFin rprec ur vr e).2) W ∧
      |qv (subCloseFin rprec ur vr e).1 (subCloseFin rprec ur vr e).2 - ((B : ℚ) ^ e + qr ur e - qr vr e)| < (B : ℚ) ^ W ∧
      (B : ℚ) ^ (W + (rprec : ℤ) - 1) ≤ 2 * ((B : ℚ) ^ e + qr ur e - qr vr e) := by
  unfold subCloseFin
  simp only
  -- the fff run when u is exhausted
  set vr1 := if ur.isEmpty = true then vr.dropWhile (· == B - 1) else vr with hvr1
  set e1 := e - ((vr.length - vr1.length : ℕ) : ℤ) with he1
  have hE : (B : ℚ) ^ e + qr ur e - qr vr e = (B : ℚ) ^ e1 + qr ur e1 - qr vr1 e1 ∧ Limbs vr1 ∧
      (ur = [] → vr1.head? ≠ some (B - 1)) := by
    by_cases hu : ur.isEmpty = true
    · have hue : ur = [] := List.isEmpty_iff.mp hu
      obtain ⟨k, h1, h2, h3, h4⟩ := dropWhile_spec (· == B - 1) vr
      have hv1 : vr1 = vr.dropWhile (· == B - 1) := by rw [hvr1, if_pos hu]
      have hkl : k ≤ vr.length := by omega
      have htk : vr.take k = List.replicate k (B - 1) := take_eq_replicate hkl (fun x hx => by simpa using h3 x hx)
      rw [htk, ← hv1] at h1
      have he1' : e1 = e - (k : ℤ) := by rw [he1, h2, hv1]
      refine ⟨?_, ?_, fun _ => ?_⟩
      · rw [hue, qr_nil, qr_nil, he1']
        conv_lhs => rw [h1]
        rw [qr_replicate_max]; ring
      · rw [h1] at hlv; exact (Limbs_append.mp hlv).2
      · rw [hv1]
        rcases h4 with h | ⟨h, t, ht, hh⟩
        · rw [h]; simp
        · rw [ht]; simp; simpa using hh
    · have hv1 : vr1 = vr := by rw [hvr1, if_neg hu]
      have : e1 = e := by rw [he1, hv1]; simp
      rw [this, hv1]
      exact ⟨rfl, hlv, fun h => absurd (by rw [h]; rfl) hu⟩
  obtain ⟨hE1, hlv1, hc1⟩ := hE
  have hcond1 : ¬ (ur.head? = some 0 ∧ vr1.head? = some (B - 1)) := by
    by_cases hu : ur.isEmpty = true
    · have hue : ur = [] := List.isEmpty_iff.mp hu
      rw [hue]; simp
    · have hv1 : vr1 = vr := by rw [hvr1, if_neg hu]
      rw [hv1]; exact hcond
  rw [hE1]
  clear_value vr1 e1
  -- truncation to rprec limbs
  obtain ⟨_, u0, u1⟩ := qr_take_drop ur rprec e1 hlu
  obtain ⟨_, v0, v1⟩ := qr_take_drop vr1 rprec e1 hlv1
  set ut := ur.take rprec with hut
  set vt := vr1.take rprec with hvt
  have hlut : Limbs ut := Limbs_take hlu _
  have hlvt : Limbs vt := Limbs_take hlv1 _
  obtain ⟨c1, c2, c3⟩ := closeLimbs_q ut.reverse vt.reverse e1 (Limbs_reverse hlut) (Limbs_reverse hlvt)
  have hR : qv (closeLimbs ut.reverse vt.reverse e1).1 (closeLimbs ut.reverse vt.reverse e1).2
      = (B : ℚ) ^ e1 + qr ut e1 - qr vt e1 := c3
  -- lower bound of the computed value
  have hB1 : (B : ℚ) ^ e1 = (B : ℚ) * (B : ℚ) ^ (e1 - 1) := Bz_succ e1
  have hpow1 : (0 : ℚ) < (B : ℚ) ^ (e1 - 1) := zpow_pos Bq_pos _
  have hB2 : (2 : ℚ) ≤ (B : ℚ) := by exact_mod_cast B_ge_two
  obtain ⟨kk, hkk⟩ : ∃ kk, rprec = kk + 1 := ⟨rprec - 1, by omega⟩
  have hhead_u : ut.head? = ur.head? := by rw [hut, hkk]; cases ur <;> rfl
  have hhead_v : vt.head? = vr1.head? := by rw [hvt, hkk]; cases vr1 <;> rfl
  have hRlow : (B : ℚ) ^ (e1 - 1) < (B : ℚ) ^ e1 + qr ut e1 - qr vt e1 := by
    have hun := qr_nonneg ut e1
    cases hvt' : vt with
    | nil => rw [qr_nil]; nlinarith
    | cons hv tv =>
      rw [hvt'] at hlvt hhead_v
      have ⟨hvB, hltv⟩ := Limbs_cons.mp hlvt
      have htv := qr_lt tv (e1 - 1) hltv
      rw [qr_cons]
      by_cases hmax : hv = B - 1
      · -- then u continues with a non-zero limb
        have hv1h : vr1.head? = some (B - 1) := by rw [← hhead_v, hmax]; rfl
        cases hut' : ut with
        | nil =>
          exfalso
          have : ur = [] := by
            rw [hut, hkk] at hut'
            cases ur with
            | nil => rfl
            | cons a as => simp at hut'
          exact hc1 this hv1h
        | cons hu tu =>
          rw [hut'] at hhead_u
          have hu0 : hu ≠ 0 := by
            intro h0; apply hcond1
            exact ⟨by rw [← hhead_u, h0]; rfl, hv1h⟩
          rw [qr_cons]
          have h1 : (1 : ℚ) ≤ (hu : ℚ) := by exact_mod_cast Nat.one_le_iff_ne_zero.mpr hu0
          have hvq : (hv : ℚ) = (B : ℚ) - 1 := by rw [hmax, Nat.cast_sub (le_of_lt one_lt_B)]; simp
          have := qr_nonneg tu (e1 - 1)
          rw [hvq]; nlinarith
      · have hvq : (hv : ℚ) ≤ (B : ℚ) - 2 := by
          have : hv ≤ B - 2 := by omega
          have h2 : ((B - 2 : ℕ) : ℚ) = (B : ℚ) - 2 := by rw [Nat.cast_sub B_ge_two]; simp
          rw [← h2]; exact_mod_cast this
        nlinarith
  -- the normalisation
  obtain ⟨n1, n2, n3, n4, n5⟩ := stripHigh_spec (closeLimbs ut.reverse vt.reverse e1).1 (closeLimbs ut.reverse vt.reverse e1).2 c1
  have hlen : max ut.reverse.length vt.reverse.length ≤ rprec := by
    simp only [List.length_reverse, hut, hvt, List.length_take]; omega
  generalize closeLimbs ut.reverse vt.reverse e1 = cl at *
  obtain ⟨tp, e2⟩ := cl
  simp only at c1 c2 hR n1 n2 n3 n4 n5 ⊢
  generalize stripHigh tp e2 = sh at *
  obtain ⟨rd, e3⟩ := sh
  simp only at n1 n2 n3 n4 n5 ⊢
  have hpw : (B : ℚ) ^ (e1 - (rprec : ℤ)) * 2 ≤ (B : ℚ) ^ (e1 - 1) := by
    have h1 : (B : ℚ) ^ (e1 - (rprec : ℤ)) * (B : ℚ) = (B : ℚ) ^ (e1 - (rprec : ℤ) + 1) := by rw [zpow_add₀ Bq_ne, zpow_one]
    have h2 : (B : ℚ) ^ (e1 - (rprec : ℤ) + 1) ≤ (B : ℚ) ^ (e1 - 1) := zpow_le_zpow_B (by omega)
    have h3 : (0 : ℚ) < (B : ℚ) ^ (e1 - (rprec : ℤ)) := zpow_pos Bq_pos _
    nlinarith
  have hEpos : 0 < (B : ℚ) ^ e1 + qr ur e1 - qr vr1 e1 := by nlinarith
  have h2E : (B : ℚ) ^ (e1 - 1) ≤ 2 * ((B : ℚ) ^ e1 + qr ur e1 - qr vr1 e1) := by nlinarith
  refine ⟨n1, ?_, n2, by omega, hEpos, ?_, e1 - (rprec : ℤ), ?_, ?_, ?_⟩
  · intro h
    have hpos : 0 < qv tp e2 := by rw [hR]; linarith
    rw [← n4, h, qv_nil] at hpos; exact lt_irrefl _ hpos
  · rw [n4, hR]
    refine sub_err_q' rprec (by omega) _ _ (qr ur e1 - qr ut e1) (qr vr1 e1 - qr vt e1) (e1 + 1) (by ring) u0 v0 ?_ ?_ ?_
    · rw [show e1 + 1 - ((rprec : ℤ) + 1) = e1 - (rprec : ℤ) by ring]; exact u1
    · rw [show e1 + 1 - ((rprec : ℤ) + 1) = e1 - (rprec : ℤ) by ring]; exact v1
    · rw [show e1 + 1 - 2 = e1 - 1 by ring]; exact h2E
  · rw [n4, hR]
    have m1 : IsMul (qr ut e1) (e1 - (rprec : ℤ)) :=
      qv_isMul _ _ _ (by rw [List.length_reverse, hut, List.length_take]; omega)
    have m2 : IsMul (qr vt e1) (e1 - (rprec : ℤ)) :=
      qv_isMul _ _ _ (by rw [List.length_reverse, hvt, List.length_take]; omega)
    exact ((Bz_isMul e1 _ (by omega)).add m1).sub m2
  · rw [n4, hR, abs_lt]; constructor <;> linarith
  · rw [show e1 - (rprec : ℤ) + (rprec : ℤ) - 1 = e1 - 1 by ring]; exact h2E


/-- sub.c:170-259, the whole `x+1 000… / x fff…` path: E = B^e + u − v (the implicit 1 is the difference of
    the limbs above) -/
theorem subClose_spec (rprec : ℕ) (hp : 2 ≤ rprec) : ∀ (ur vr : List Nat) (e : ℤ), Limbs ur → Limbs vr →
    Limbs (subClose rprec ur vr e).1 ∧ (subClose rprec ur vr e).1 ≠ [] ∧
    (subClose rprec ur vr e).1.getLast? ≠ some 0 ∧ (subClose rprec ur vr e).1.length ≤ rprec + 1 ∧
    0 < (B : ℚ) ^ e + qr ur e - qr vr e ∧
    |qv (subClose rprec ur vr e).1 (subClose rprec ur vr e).2 - ((B : ℚ) ^ e + qr ur e - qr vr e)|
      < eps rprec * |(B : ℚ) ^ e + qr ur e - qr vr e| ∧
    ∃ W : ℤ, IsMul (qv (subClose rprec ur vr e).1 (subClose rprec ur vr e).2) W ∧
      |qv (subClose rprec ur vr e).1 (subClose rprec ur vr e).2 - ((B : ℚ) ^ e + qr ur e - qr vr e)| < (B : ℚ) ^ W ∧
      (B : ℚ) ^ (W + (rprec : ℤ) - 1) ≤ 2 * ((B : ℚ) ^ e + qr ur e - qr vr e)
  | [], vr, e, hlu, hlv => by
      rw [subClose]; exact subCloseFin_spec rprec hp [] vr e hlu hlv (by simp)
      all_goals simp
  | (x + 1) :: us, vr, e, hlu, hlv => by
      rw [subClose]; exact subCloseFin_spec rprec hp _ vr e hlu hlv (by simp)
      all_goals simp
  | 0 :: us, [], e, hlu, hlv => by
      rw [subClose]; exact subCloseFin_spec rprec hp _ [] e hlu hlv (by simp)
      all_goals simp
  | 0 :: us, v :: vs, e, hlu, hlv => by
      rw [subClose]
      by_cases hv : v = B - 1
      · rw [if_pos hv]
        have ih := subClose_spec rprec hp us vs (e - 1) (Limbs_cons.mp hlu).2 (Limbs_cons.mp hlv).2
        have hE : (B : ℚ) ^ e + qr (0 :: us) e - qr (v :: vs) e = (B : ℚ) ^ (e - 1) + qr us (e - 1) - qr vs (e - 1) := by
          rw [qr_cons, qr_cons, hv, Nat.cast_sub (le_of_lt one_lt_B), Bz_succ e]; push_cast; ring
        rw [hE]; exact ih
      · rw [if_neg hv]
        exact subCloseFin_spec rprec hp _ _ e hlu hlv (by simp [hv])



theorem SubOK_neg {prec : ℕ} {D : ℚ} {rd : List Nat} {e : ℤ} {f : Bool} (h : SubOK prec D (rd, e, f)) :
    SubOK prec (-D) (rd, e, !f) := by
  obtain ⟨h1, h2, h3, h4, h5, h6⟩ := h
  have e : (if (!f) = true then (-1 : ℚ) else 1) * qv rd e - -D = -((if f = true then (-1 : ℚ) else 1) * qv rd e - D) := by
    cases f <;> simp <;> ring
  refine ⟨h1, h2, h3, fun h => h4 (by linarith), fun h => ?_, ?_⟩
  · have := h5 (by intro h'; apply h; rw [h']; ring)
    simp only at this ⊢
    rw [abs_neg, e, abs_neg]; exact this
  · rcases h6 with h0 | ⟨W, w1, w2, w3⟩
    · left; rw [h0]; ring
    · right
      refine ⟨W, w1, ?_, by rw [abs_neg]; exact w3⟩
      simp only at w2 ⊢
      rw [e, abs_neg]; exact w2

theorem SubOK_congr {prec : ℕ} {D D' : ℚ} {r : List Nat × ℤ × Bool} (h : SubOK prec D r) (hd : D = D') :
    SubOK prec D' r := hd ▸ h

theorem SubOK_of_close {prec : ℕ} {E : ℚ} {rd : List Nat} {e : ℤ}
    (h : Limbs rd ∧ rd ≠ [] ∧ rd.getLast? ≠ some 0 ∧ rd.length ≤ prec + 1 ∧ 0 < E ∧ |qv rd e - E| < eps prec * |E| ∧
      ∃ W : ℤ, IsMul (qv rd e) W ∧ |qv rd e - E| < (B : ℚ) ^ W ∧ (B : ℚ) ^ (W + (prec : ℤ) - 1) ≤ 2 * E) :
    SubOK prec E (rd, e, false) := by
  obtain ⟨h1, h2, h3, h4, h5, h6, W, w1, w2, w3⟩ := h
  refine ⟨h1, h3, h4, fun h => absurd h (ne_of_gt h5), fun _ => ?_, Or.inr ⟨W, w1, ?_, ?_⟩⟩
  · simpa using h6
  · simpa using w2
  · rw [abs_of_pos h5]; exact w3

theorem qr_reverse (d : List Nat) (e : ℤ) : qr d.reverse e = qv d e := by unfold qr; rw [List.reverse_reverse]

theorem qr_ge_head (h : ℕ) (t : List Nat) (e : ℤ) : (h : ℚ) * (B : ℚ) ^ (e - 1) ≤ qr (h :: t) e := by
  rw [qr_cons]; linarith [qr_nonneg t (e - 1)]

theorem qr_lt_head (h : ℕ) (t : List Nat) (e : ℤ) (hl : Limbs t) : qr (h :: t) e < ((h : ℚ) + 1) * (B : ℚ) ^ (e - 1) := by
  rw [qr_cons]; linarith [qr_lt t (e - 1) hl]

/-- U has the larger top limb: `general_case` or the x+1/x path -/
theorem subDiffer_main (prec : ℕ) (hp : 2 ≤ prec) (a b : List Nat) (e : ℤ) (hla : Limbs a) (hlb : Limbs b)
    (hna : a ≠ []) (hnb : b ≠ []) (hlt : b.headD 0 < a.headD 0) :
    (a.headD 0 ≠ (b.headD 0 + 1) % B → SubOK prec (qr a e - qr b e) (subGeneral (prec + 1) a.reverse b.reverse e 0)) ∧
    (¬ a.headD 0 ≠ (b.headD 0 + 1) % B →
      SubOK prec (qr a e - qr b e) ((subClose prec a.tail b.tail (e - 1)).1, (subClose prec a.tail b.tail (e - 1)).2, false)) := by
  obtain ⟨ha, ta, rfl⟩ : ∃ ha ta, a = ha :: ta := by cases a with | nil => exact absurd rfl hna | cons x xs => exact ⟨x, xs, rfl⟩
  obtain ⟨hb, tb, rfl⟩ : ∃ hb tb, b = hb :: tb := by cases b with | nil => exact absurd rfl hnb | cons x xs => exact ⟨x, xs, rfl⟩
  have hlt' : hb < ha := by simpa using hlt
  have ⟨haB, hlta⟩ := Limbs_cons.mp hla
  have ⟨hbB, hltb⟩ := Limbs_cons.mp hlb
  have hmod : (hb + 1) % B = hb + 1 := Nat.mod_eq_of_lt (by omega)
  have hpow : (0 : ℚ) < (B : ℚ) ^ (e - 1) := zpow_pos Bq_pos _
  constructor
  · intro hadj
    have hadj' : ha ≠ hb + 1 := by simpa [hmod] using hadj
    have hge2 : hb + 2 ≤ ha := by omega
    have hgap : (B : ℚ) ^ (e - 2) ≤ qv (ha :: ta).reverse e - qv (hb :: tb).reverse (e - 0) := by
      rw [sub_zero, ← qr, ← qr]
      have h1 := qr_ge_head ha ta e
      have h2 := qr_lt_head hb tb e hltb
      have h3 : ((hb : ℚ) + 2) ≤ (ha : ℚ) := by exact_mod_cast hge2
      have h4 : (B : ℚ) ^ (e - 2) ≤ (B : ℚ) ^ (e - 1) := zpow_le_zpow_B (by omega)
      nlinarith
    have hr : (ha :: ta).reverse ≠ [] := by simp
    have ht : (ha :: ta).reverse.getLast? ≠ some 0 := by rw [List.getLast?_reverse]; simp; omega
    have := subGeneral_ok prec hp (ha :: ta).reverse (hb :: tb).reverse e 0 (le_refl _) (Limbs_reverse hla) hr ht
      (Limbs_reverse hlb) hgap
    rw [sub_zero] at this
    exact this
  · intro hadj
    have hadj' : ha = hb + 1 := by
      have : ¬ ha ≠ hb + 1 := by simpa [hmod] using hadj
      omega
    have hE : qr (ha :: ta) e - qr (hb :: tb) e = (B : ℚ) ^ (e - 1) + qr ta (e - 1) - qr tb (e - 1) := by
      rw [qr_cons, qr_cons, hadj']; push_cast; ring
    rw [hE]
    exact SubOK_of_close (subClose_spec prec hp ta tb (e - 1) hlta hltb)

theorem subDiffer_ok (prec : ℕ) (hp : 2 ≤ prec) (ur vr : List Nat) (e : ℤ) (hlu : Limbs ur) (hlv : Limbs vr)
    (hnu : ur ≠ []) (hnv : vr ≠ []) (hd : ur.headD 0 ≠ vr.headD 0) :
    SubOK prec (qr ur e - qr vr e) (subDiffer prec ur vr e) := by
  unfold subDiffer
  by_cases hlt : ur.headD 0 < vr.headD 0
  · rw [if_pos hlt]
    obtain ⟨m1, m2⟩ := subDiffer_main prec hp vr ur e hlv hlu hnv hnu hlt
    have h2 : qr ur e - qr vr e = -(qr vr e - qr ur e) := by ring
    rw [h2]
    by_cases hc : vr.headD 0 ≠ (ur.headD 0 + 1) % B
    · rw [if_pos hc]
      have := m1 hc
      generalize subGeneral (prec + 1) vr.reverse ur.reverse e 0 = r at *
      obtain ⟨rd, e', sw⟩ := r
      have h3 : SubOK prec (-(qr vr e - qr ur e)) (rd, e', !sw) := SubOK_neg this
      exact h3
    · rw [if_neg hc]
      have := m2 hc
      generalize subClose prec vr.tail ur.tail (e - 1) = r at *
      obtain ⟨rd, e'⟩ := r
      have h3 : SubOK prec (-(qr vr e - qr ur e)) (rd, e', !false) := SubOK_neg this
      exact h3
  · rw [if_neg hlt]
    obtain ⟨m1, m2⟩ := subDiffer_main prec hp ur vr e hlu hlv hnu hnv (by omega)
    by_cases hc : ur.headD 0 ≠ (vr.headD 0 + 1) % B
    · rw [if_pos hc]; exact m1 hc
    · rw [if_neg hc]
      have := m2 hc
      generalize subClose prec ur.tail vr.tail (e - 1) = r at *
      obtain ⟨rd, e'⟩ := r
      exact this


theorem topLimb_eq_head_reverse (d : List Nat) : topLimb d = d.reverse.headD 0 := by
  unfold topLimb; rw [← List.head?_reverse]; cases d.reverse <;> rfl

theorem subOne_ok (prec : ℕ) (hp : 2 ≤ prec) (ud vd : List Nat) (uexp : ℤ)
    (hlu : Limbs ud) (hnu : ud ≠ []) (htu : ud.getLast? ≠ some 0) (hlv : Limbs vd) (hnv : vd ≠ []) :
    SubOK prec (qv ud uexp - qv vd (uexp - 1)) (subOne prec ud uexp vd) := by
  unfold subOne
  simp only
  obtain ⟨h, t, hr⟩ : ∃ h t, ud.reverse = h :: t := by
    cases hrev : ud.reverse with
    | nil => exact absurd (List.reverse_eq_nil_iff.mp hrev) hnu
    | cons x xs => exact ⟨x, xs, rfl⟩
  obtain ⟨hv, tv, hrv⟩ : ∃ h t, vd.reverse = h :: t := by
    cases hrev : vd.reverse with
    | nil => exact absurd (List.reverse_eq_nil_iff.mp hrev) hnv
    | cons x xs => exact ⟨x, xs, rfl⟩
  have hh0 : h ≠ 0 := by
    intro h0; apply htu; rw [← List.head?_reverse, hr, h0]; rfl
  have hlr : Limbs (h :: t) := by rw [← hr]; exact Limbs_reverse hlu
  have hlrv : Limbs (hv :: tv) := by rw [← hrv]; exact Limbs_reverse hlv
  have ⟨_, hlt⟩ := Limbs_cons.mp hlr
  have ⟨hvB, hltv⟩ := Limbs_cons.mp hlrv
  have hX : qv ud uexp = qr (h :: t) uexp := by rw [← hr, qr_reverse]
  have hY : qv vd (uexp - 1) = qr (hv :: tv) (uexp - 1) := by rw [← hrv, qr_reverse]
  have htl : topLimb vd = hv := by rw [topLimb_eq_head_reverse, hrv]; rfl
  have hp1 : (0 : ℚ) < (B : ℚ) ^ (uexp - 1) := zpow_pos Bq_pos _
  have hp2 : (0 : ℚ) < (B : ℚ) ^ (uexp - 2) := zpow_pos Bq_pos _
  have hB12 : (B : ℚ) ^ (uexp - 1) = (B : ℚ) * (B : ℚ) ^ (uexp - 2) := by
    have := Bz_succ (uexp - 1); rwa [show uexp - 1 - 1 = uexp - 2 by ring] at this
  have hB2 : (2 : ℚ) ≤ (B : ℚ) := by exact_mod_cast B_ge_two
  by_cases hC0 : ud.reverse.headD 0 ≠ 1 ∨ topLimb vd ≠ B - 1 ∨ (ud.length ≥ 2 ∧ ud.reverse.tail.headD 0 ≠ 0)
  · rw [if_pos hC0]
    have hC : h ≠ 1 ∨ hv ≠ B - 1 ∨ (ud.length ≥ 2 ∧ t.headD 0 ≠ 0) := by
      rw [hr, htl] at hC0; simpa using hC0
    apply subGeneral_ok prec hp ud vd uexp 1 (by norm_num) hlu hnu htu hlv
    rw [hX, hY]
    have hXge := qr_ge_head h t uexp
    have hYlt := qr_lt (hv :: tv) (uexp - 1) hlrv
    rcases hC with c1 | c2 | c3
    · have : (2 : ℚ) ≤ (h : ℚ) := by
        have : 2 ≤ h := by omega
        exact_mod_cast this
      nlinarith
    · have hY2 := qr_lt_head hv tv (uexp - 1) hltv
      rw [show uexp - 1 - 1 = uexp - 2 by ring] at hY2
      have hvq : (hv : ℚ) + 1 ≤ (B : ℚ) - 1 := by
        have : hv + 1 ≤ B - 1 := by omega
        have h2 : ((B - 1 : ℕ) : ℚ) = (B : ℚ) - 1 := by rw [Nat.cast_sub (le_of_lt one_lt_B)]; simp
        rw [← h2]; exact_mod_cast this
      have h1 : (1 : ℚ) ≤ (h : ℚ) := by exact_mod_cast Nat.one_le_iff_ne_zero.mpr hh0
      nlinarith
    · obtain ⟨_, c4⟩ := c3
      cases t with
      | nil => simp at c4
      | cons s t' =>
        simp only [List.headD_cons] at c4
        have hs : (1 : ℚ) ≤ (s : ℚ) := by exact_mod_cast Nat.one_le_iff_ne_zero.mpr c4
        have h1 : (1 : ℚ) ≤ (h : ℚ) := by exact_mod_cast Nat.one_le_iff_ne_zero.mpr hh0
        rw [qr_cons, qr_cons, show uexp - 1 - 1 = uexp - 2 by ring]
        have := qr_nonneg t' (uexp - 2)
        nlinarith
  · rw [if_neg hC0]
    have hh1 : h = 1 := by
      by_contra hne; apply hC0; left; rw [hr]; simpa using hne
    rw [hr]; simp only [List.tail_cons]
    have hE : qv ud uexp - qv vd (uexp - 1) = (B : ℚ) ^ (uexp - 1) + qr t (uexp - 1) - qr (hv :: tv) (uexp - 1) := by
      rw [hX, hY, qr_cons, hh1]; push_cast; ring
    rw [hE, hrv]
    have := SubOK_of_close (subClose_spec prec hp t (hv :: tv) (uexp - 1) hlt hlrv)
    generalize subClose prec t (hv :: tv) (uexp - 1) = r at *
    obtain ⟨rd, e'⟩ := r
    exact this


/-- sub.c:89-403: the whole magnitude subtraction, operands ordered by exponent -/
theorem subCore_ok (prec : ℕ) (hp : 2 ≤ prec) (ud vd : List Nat) (uexp vexp : ℤ)
    (hlu : Limbs ud) (hnu : ud ≠ []) (htu : ud.getLast? ≠ some 0)
    (hlv : Limbs vd) (hnv : vd ≠ []) (hexp : vexp ≤ uexp) :
    SubOK prec (qv ud uexp - qv vd vexp) (subCore prec ud uexp vd vexp) := by
  unfold subCore
  simp only
  by_cases h0 : uexp - vexp = 0
  · rw [if_pos h0]
    have hve : vexp = uexp := by omega
    subst hve
    have hsp := scan_spec ud.reverse vd.reverse vexp (Limbs_reverse hlu) (Limbs_reverse hlv) (by simpa using hnu) (by simpa using hnv)
    rw [qr_reverse, qr_reverse] at hsp
    cases hsc : scan ud.reverse vd.reverse vexp with
    | uGone vr e =>
      rw [hsc] at hsp; simp only at hsp ⊢
      obtain ⟨hD, hl⟩ := hsp
      have := cancellation_ok prec (by omega) vr e hl true (-1) (by simp)
      rw [hD]
      generalize cancellation (prec + 1) vr e = c at *
      obtain ⟨rd, e'⟩ := c
      simpa using this
    | vGone ur e =>
      rw [hsc] at hsp; simp only at hsp ⊢
      obtain ⟨hD, hl, _⟩ := hsp
      have := cancellation_ok prec (by omega) ur e hl false 1 (by simp)
      rw [hD]
      generalize cancellation (prec + 1) ur e = c at *
      obtain ⟨rd, e'⟩ := c
      simpa using this
    | differ ur vr e =>
      rw [hsc] at hsp; simp only at hsp ⊢
      obtain ⟨hD, hl1, hl2, hn1, hn2, hd⟩ := hsp
      rw [hD]
      exact subDiffer_ok prec hp ur vr e hl1 hl2 hn1 hn2 hd
  · rw [if_neg h0]
    by_cases h1 : uexp - vexp = 1
    · rw [if_pos h1]
      have hve : vexp = uexp - 1 := by omega
      rw [hve]
      exact subOne_ok prec hp ud vd uexp hlu hnu htu hlv hnv
    · rw [if_neg h1]
      have hve : vexp = uexp - (uexp - vexp) := by ring
      have hX := qv_ge ud uexp hnu htu
      have hY := qv_lt vd vexp hlv
      have hB1 : (B : ℚ) ^ (uexp - 1) = (B : ℚ) * (B : ℚ) ^ (uexp - 2) := by
        have := Bz_succ (uexp - 1); rwa [show uexp - 1 - 1 = uexp - 2 by ring] at this
      have hYle : (B : ℚ) ^ vexp ≤ (B : ℚ) ^ (uexp - 2) := zpow_le_zpow_B (by omega)
      have hp2 : (0 : ℚ) < (B : ℚ) ^ (uexp - 2) := zpow_pos Bq_pos _
      have hB2 : (2 : ℚ) ≤ (B : ℚ) := by exact_mod_cast B_ge_two
      have := subGeneral_ok prec hp ud vd uexp (uexp - vexp) (by omega) hlu hnu htu hlv
        (by rw [← hve]; nlinarith)
      rwa [← hve] at this



theorem eps_lt_one (prec : ℕ) (hp : 2 ≤ prec) : eps prec < 1 := by
  rw [eps_eq, div_lt_one (pow_pos Bq_pos _)]
  have h1 : (B : ℚ) ^ 1 ≤ (B : ℚ) ^ (prec - 1) :=
    pow_le_pow_right₀ (by exact_mod_cast (le_of_lt one_lt_B)) (by omega)
  have h2 : (4 : ℚ) < (B : ℚ) := by rw [Bq_eq]; norm_num
  rw [pow_one] at h1; linarith

/-- from a `SubOK` triple to the mpf result built at sub.c:405-409 -/
theorem fin_of_SubOK (prec : ℕ) (hp : 2 ≤ prec) (D : ℚ) (rd : List Nat) (e : ℤ) (flip : Bool) (c : Bool)
    (h : SubOK prec D (rd, e, flip)) :
    WF ⟨prec, if (c != flip) = true then -(rd.length : Int) else (rd.length : Int), if rd.length = 0 then 0 else e, rd⟩ ∧
    (D = 0 → toQ ⟨prec, if (c != flip) = true then -(rd.length : Int) else (rd.length : Int), if rd.length = 0 then 0 else e, rd⟩ = 0) ∧
    (D ≠ 0 → |toQ ⟨prec, if (c != flip) = true then -(rd.length : Int) else (rd.length : Int), if rd.length = 0 then 0 else e, rd⟩
        - (if c then -1 else 1) * D| < eps prec * |D|) := by
  obtain ⟨h1, h2, h3, h4, h5, _⟩ := h
  simp only at h1 h2 h3 h4 h5
  refine ⟨WF_mk_neg h1 h2 h3 (fun h => by rw [h]; simp), fun hD => toQ_of_size_zero (h4 hD), fun hD => ?_⟩
  have hb := h5 hD
  have hne : rd.length ≠ 0 := by
    intro hl
    have : rd = [] := List.eq_nil_of_length_eq_zero hl
    rw [this, qv_nil, mul_zero, zero_sub, abs_neg] at hb
    have := eps_lt_one prec hp
    have hpos : 0 < |D| := abs_pos.mpr hD
    nlinarith
  rw [if_neg hne, toQ_mk_neg]
  have hq : (val rd : ℚ) * (B : ℚ) ^ (e - (rd.length : ℤ)) = qv rd e := rfl
  rw [mul_assoc, hq]
  have : (if (c != flip) = true then (-1 : ℚ) else 1) = (if c then -1 else 1) * (if flip then -1 else 1) := by
    cases c <;> cases flip <;> simp
  rw [this, mul_assoc, ← mul_sub, abs_mul]
  have : |(if c = true then (-1 : ℚ) else 1)| = 1 := by cases c <;> simp
  rw [this, one_mul]; exact hb

theorem subMag_spec (prec : ℕ) (hp : 2 ≤ prec) (u v : F) (hu : OpWF u) (hv : OpWF v)
    (hu0 : u.size ≠ 0) (hv0 : v.size ≠ 0) (hs : (u.size < 0) ↔ (v.size < 0)) :
    WF (subMag prec (decide (u.size < 0)) u v) ∧
    (toQ u - toQ v = 0 → toQ (subMag prec (decide (u.size < 0)) u v) = 0) ∧
    (toQ u - toQ v ≠ 0 →
      |toQ (subMag prec (decide (u.size < 0)) u v) - (toQ u - toQ v)| < eps prec * |toQ u - toQ v|) := by
  have hnu : u.d ≠ [] := fun h => hu0 (by have := hu.2.1; rw [h] at this; simp at this; omega)
  have hnv : v.d ≠ [] := fun h => hv0 (by have := hv.2.1; rw [h] at this; simp at this; omega)
  have hsg : sg v = sg u := by
    unfold sg
    by_cases h : u.size < 0
    · rw [if_pos h, if_pos (hs.mp h)]
    · rw [if_neg h, if_neg (fun h' => h (hs.mpr h'))]
  have hD : toQ u - toQ v = sg u * (qv u.d u.exp - qv v.d v.exp) := by rw [toQ_qv u, toQ_qv v, hsg]; ring
  have hsgc : sg u = (if (decide (u.size < 0)) = true then (-1 : ℚ) else 1) := by
    unfold sg; by_cases h : u.size < 0 <;> simp [h]
  have hsgne : sg u ≠ 0 := by rcases sg_cases u with h | h <;> rw [h] <;> norm_num
  have habs : |sg u| = 1 := by rcases sg_cases u with h | h <;> rw [h] <;> simp
  unfold subMag
  simp only
  by_cases hswap : u.exp < v.exp
  · simp only [hswap, decide_true, if_true]
    have hok := subCore_ok prec hp v.d u.d v.exp u.exp hv.1 hnv hv.2.2.1 hu.1 hnu (le_of_lt hswap)
    generalize subCore prec v.d v.exp u.d u.exp = r at *
    obtain ⟨rd, e, flip⟩ := r
    obtain ⟨f1, f2, f3⟩ := fin_of_SubOK prec hp _ rd e flip (decide (u.size < 0) != true) hok
    refine ⟨f1, fun h => f2 ?_, fun h => ?_⟩
    · rw [hD] at h
      rcases mul_eq_zero.mp h with h' | h'
      · exact absurd h' hsgne
      · linarith
    · have hne : qv v.d v.exp - qv u.d u.exp ≠ 0 := by
        intro h'; apply h; rw [hD]; have : qv u.d u.exp - qv v.d v.exp = 0 := by linarith
        rw [this, mul_zero]
      have := f3 hne
      rw [hD, abs_mul, habs, one_mul]
      have e1 : (if (decide (u.size < 0) != true) = true then (-1 : ℚ) else 1) * (qv v.d v.exp - qv u.d u.exp)
          = sg u * (qv u.d u.exp - qv v.d v.exp) := by
        rw [hsgc]; by_cases h' : u.size < 0 <;> simp [h']
      rw [e1] at this
      rw [show |qv u.d u.exp - qv v.d v.exp| = |qv v.d v.exp - qv u.d u.exp| from abs_sub_comm _ _]
      exact this
  · simp only [hswap, decide_false, if_false]
    have hok := subCore_ok prec hp u.d v.d u.exp v.exp hu.1 hnu hu.2.2.1 hv.1 hnv (by omega)
    generalize subCore prec u.d u.exp v.d v.exp = r at *
    obtain ⟨rd, e, flip⟩ := r
    obtain ⟨f1, f2, f3⟩ := fin_of_SubOK prec hp _ rd e flip (decide (u.size < 0) != false) hok
    refine ⟨f1, fun h => f2 ?_, fun h => ?_⟩
    · rw [hD] at h
      rcases mul_eq_zero.mp h with h' | h'
      · exact absurd h' hsgne
      · exact h'
    · have hne : qv u.d u.exp - qv v.d v.exp ≠ 0 := by
        intro h'; apply h; rw [hD, h', mul_zero]
      have := f3 hne
      rw [hD, abs_mul, habs, one_mul]
      have e1 : (if (decide (u.size < 0) != false) = true then (-1 : ℚ) else 1) = sg u := by
        rw [hsgc]; by_cases h' : u.size < 0 <;> simp [h']
      rw [e1] at this
      exact this



/-- what the property demands of a result `r` for the exact value `E` (format, zero, error bound) -/
def Accurate (prec : ℕ) (r : F) (E : ℚ) : Prop :=
  WF r ∧ (E = 0 → toQ r = 0) ∧ (E ≠ 0 → |toQ r - E| < eps prec * |E|)

theorem accurate_of_set (prec : ℕ) (hp : 1 ≤ prec) (u : F) (hu : OpWF u) : Accurate prec (set prec u) (toQ u) := by
  obtain ⟨h1, h2, _⟩ := set_spec prec hp u hu
  refine ⟨h1, fun h => ?_, fun h => h2 (fun h0 => h (toQ_of_size_zero (hu.d_nil h0)))⟩
  by_cases h0 : u.size = 0
  · unfold set; rw [hu.d_nil h0]; simp [top, toQ]
  · exfalso
    have hne : u.d ≠ [] := fun h' => h0 (by have := hu.2.1; rw [h'] at this; simp at this; omega)
    have := val_pos_of_top hne hu.2.2.1
    rw [toQ_sg] at h
    rcases mul_eq_zero.mp h with h' | h'
    · rcases sg_cases u with s | s <;> rw [s] at h' <;> norm_num at h'
    · have : (0 : ℚ) < (val u.d : ℚ) * (B : ℚ) ^ (u.exp - (u.d.length : ℤ)) :=
        mul_pos (by exact_mod_cast this) (zpow_pos Bq_pos _)
      linarith

theorem accurate_alias (prec : ℕ) (u : F) (hu : OpWF u) (hlen : u.d.length ≤ prec + 1) :
    Accurate prec {u with prec := prec} (toQ u) := by
  refine ⟨⟨hu.1, hu.2.1, by rw [← hu.2.1]; exact hlen, hu.2.2.1, hu.2.2.2⟩, fun h => by simpa [toQ] using h, fun h => ?_⟩
  have : toQ {u with prec := prec} = toQ u := rfl
  rw [this, sub_self, abs_zero]
  exact mul_pos (by unfold eps; positivity) (abs_pos.mpr h)

theorem accurate_subMag (prec : ℕ) (hp : 2 ≤ prec) (u v : F) (hu : OpWF u) (hv : OpWF v)
    (hu0 : u.size ≠ 0) (hv0 : v.size ≠ 0) (hs : (u.size < 0) ↔ (v.size < 0)) :
    Accurate prec (subMag prec (decide (u.size < 0)) u v) (toQ u - toQ v) :=
  subMag_spec prec hp u v hu hv hu0 hv0 hs

theorem accurate_addSame (prec : ℕ) (hp : 1 ≤ prec) (u v : F) (hu : OpWF u) (hv : OpWF v)
    (hu0 : u.size ≠ 0) (hv0 : v.size ≠ 0) (hs : (u.size < 0) ↔ (v.size < 0)) :
    Accurate prec (addSame prec u v) (toQ u + toQ v) := by
  obtain ⟨h1, h2⟩ := addSame_spec prec hp u v hu hv hu0 hv0 hs
  refine ⟨h1, fun h => ?_, fun _ => h2⟩
  -- same signs and both non-zero: the sum cannot vanish
  exfalso
  have hnu : u.d ≠ [] := fun h' => hu0 (by have := hu.2.1; rw [h'] at this; simp at this; omega)
  have hnv : v.d ≠ [] := fun h' => hv0 (by have := hv.2.1; rw [h'] at this; simp at this; omega)
  have hsg : sg v = sg u := by
    unfold sg
    by_cases h' : u.size < 0
    · rw [if_pos h', if_pos (hs.mp h')]
    · rw [if_neg h', if_neg (fun h'' => h' (hs.mpr h''))]
  rw [toQ_qv u, toQ_qv v, hsg, ← mul_add] at h
  have p1 : 0 < qv u.d u.exp := qv_pos_iff.mpr (val_pos_of_top hnu hu.2.2.1)
  have p2 : 0 < qv v.d v.exp := qv_pos_iff.mpr (val_pos_of_top hnv hv.2.2.1)
  rcases mul_eq_zero.mp h with h' | h'
  · rcases sg_cases u with s | s <;> rw [s] at h' <;> norm_num at h'
  · linarith

theorem neg_size_sign (v : F) (hv0 : v.size ≠ 0) (u : F) (hd : ¬ ((u.size < 0) ↔ (v.size < 0))) :
    (u.size < 0) ↔ (({v with size := -v.size} : F).size < 0) := by
  simp only
  constructor
  · intro h
    have : ¬ v.size < 0 := fun h' => hd ⟨fun _ => h', fun _ => h⟩
    omega
  · intro h
    by_contra hc
    exact hd ⟨fun h' => absurd h' hc, fun h' => by omega⟩

/-- mpf_sub, all sign combinations, zero operands and aliasing patterns -/
theorem sub_accurate (prec : ℕ) (hp : 2 ≤ prec) (u v : F) (hu : OpWF u) (hv : OpWF v) (rIsU rIsV : Bool)
    (hau : rIsU = true → u.d.length ≤ prec + 1) (hav : rIsV = true → v.d.length ≤ prec + 1) :
    Accurate prec (sub prec rIsU rIsV u v) (toQ u - toQ v) := by
  unfold sub
  by_cases hu0 : u.size = 0
  · rw [if_pos hu0, toQ_of_size_zero (hu.d_nil hu0), zero_sub, ← toQ_neg_size v hv]
    cases rIsV
    · rw [neg_eq_set]; exact accurate_of_set prec (by omega) _ (OpWF_neg_size v hv)
    · have := accurate_alias prec _ (OpWF_neg_size v hv) (hav rfl)
      exact this
  · rw [if_neg hu0]
    by_cases hv0 : v.size = 0
    · rw [if_pos hv0, toQ_of_size_zero (hv.d_nil hv0), sub_zero]
      cases rIsU
      · exact accurate_of_set prec (by omega) u hu
      · exact accurate_alias prec u hu (hau rfl)
    · rw [if_neg hv0]
      by_cases hs : (u.size < 0) ↔ (v.size < 0)
      · have hb : ((decide (u.size < 0)) != (decide (v.size < 0))) = false := by
          by_cases a : u.size < 0
          · simp [a, hs.mp a]
          · have b : ¬ v.size < 0 := fun h => a (hs.mpr h)
            simp [a, b]
        rw [hb]; simp only [Bool.false_eq_true, if_false]
        exact accurate_subMag prec hp u v hu hv hu0 hv0 hs
      · have hb : ((decide (u.size < 0)) != (decide (v.size < 0))) = true := by
          by_cases a : u.size < 0 <;> by_cases b : v.size < 0 <;> simp [a, b] <;> exact hs (by simp [a, b])
        rw [hb]; simp only [if_true]
        have := accurate_addSame prec (by omega) u {v with size := -v.size} hu (OpWF_neg_size v hv) hu0
          (by simpa using hv0) (neg_size_sign v hv0 u hs)
        rwa [toQ_neg_size v hv, ← sub_eq_add_neg] at this

/-- mpf_add, all sign combinations, zero operands and aliasing patterns -/
theorem add_accurate (prec : ℕ) (hp : 2 ≤ prec) (u v : F) (hu : OpWF u) (hv : OpWF v) (rIsU rIsV : Bool)
    (hau : rIsU = true → u.d.length ≤ prec + 1) (hav : rIsV = true → v.d.length ≤ prec + 1) :
    Accurate prec (add prec rIsU rIsV u v) (toQ u + toQ v) := by
  unfold add
  by_cases hu0 : u.size = 0
  · rw [if_pos hu0, toQ_of_size_zero (hu.d_nil hu0), zero_add]
    cases rIsV
    · exact accurate_of_set prec (by omega) v hv
    · exact accurate_alias prec v hv (hav rfl)
  · rw [if_neg hu0]
    by_cases hv0 : v.size = 0
    · rw [if_pos hv0, toQ_of_size_zero (hv.d_nil hv0), add_zero]
      cases rIsU
      · exact accurate_of_set prec (by omega) u hu
      · exact accurate_alias prec u hu (hau rfl)
    · rw [if_neg hv0]
      by_cases hs : (u.size < 0) ↔ (v.size < 0)
      · have hb : ((decide (u.size < 0)) != (decide (v.size < 0))) = false := by
          by_cases a : u.size < 0
          · simp [a, hs.mp a]
          · have b : ¬ v.size < 0 := fun h => a (hs.mpr h)
            simp [a, b]
        rw [hb]; simp only [Bool.false_eq_true, if_false]
        exact accurate_addSame prec (by omega) u v hu hv hu0 hv0 hs
      · have hb : ((decide (u.size < 0)) != (decide (v.size < 0))) = true := by
          by_cases a : u.size < 0 <;> by_cases b : v.size < 0 <;> simp [a, b] <;> exact hs (by simp [a, b])
        rw [hb]; simp only [if_true]
        have := accurate_subMag prec hp u {v with size := -v.size} hu (OpWF_neg_size v hv) hu0
          (by simpa using hv0) (neg_size_sign v hv0 u hs)
        rwa [toQ_neg_size v hv, sub_neg_eq_add] at this


/-! ### format rules of the exact functions -/

theorem OpWF.ne_nil {u : F} (hu : OpWF u) (h0 : u.size ≠ 0) : u.d ≠ [] :=
  fun h => h0 (by have := hu.2.1; rw [h] at this; simp at this; omega)

/-- keeping the top n ≥ 1 limbs of a non-zero operand, any sign, same exponent: well formed if n ≤ prec+1 -/
theorem WF_top (prec n : ℕ) (hn1 : 1 ≤ n) (hn : n ≤ prec + 1) (u : F) (hu : OpWF u) (h0 : u.size ≠ 0)
    (c : Prop) [Decidable c] (e : ℤ) :
    WF ⟨prec, if c then ((top n u.d).length : ℤ) else -((top n u.d).length : ℤ), e, top n u.d⟩ := by
  obtain ⟨t1, t2, t3, t4, _⟩ := top_facts n hn1 u.d hu.1 (hu.ne_nil h0) hu.2.2.1
  exact WF_mk t1 t3 (by rw [t4]; omega) (fun h => absurd h t2)

theorem abs_wf (prec : ℕ) (rIsU : Bool) (u : F) (hu : OpWF u) (hau : rIsU = true → u.d.length ≤ prec + 1) :
    WF (Mpf.abs prec rIsU u) := by
  unfold Mpf.abs
  cases rIsU
  · simp only [Bool.false_eq_true, if_false]
    by_cases h0 : u.size = 0
    · rw [hu.d_nil h0]
      have he := hu.2.2.2 h0
      simp only [top, List.length_nil, List.drop_nil, he]
      exact WF_zero prec
    · have := WF_top prec (prec + 1) (by omega) (le_refl _) u hu h0 True u.exp
      simpa using this
  · simp only [if_true]
    have hna : ((u.size.natAbs : ℕ) : ℤ).natAbs = u.size.natAbs := Int.natAbs_natCast _
    refine ⟨hu.1, ?_, ?_, hu.2.2.1, fun h => hu.2.2.2 ?_⟩
    · show u.d.length = ((u.size.natAbs : ℕ) : ℤ).natAbs
      rw [hna]; exact hu.2.1
    · show ((u.size.natAbs : ℕ) : ℤ).natAbs ≤ prec + 1
      rw [hna, ← hu.2.1]; exact hau rfl
    · have : ((u.size.natAbs : ℕ) : ℤ) = 0 := h
      omega

theorem neg_wf (prec : ℕ) (hp : 1 ≤ prec) (rIsU : Bool) (u : F) (hu : OpWF u) (hau : rIsU = true → u.d.length ≤ prec + 1) :
    WF (neg prec rIsU u) := by
  cases rIsU
  · rw [neg_eq_set]; exact (set_spec prec hp _ (OpWF_neg_size u hu)).1
  · unfold neg; simp only [if_true]
    refine ⟨hu.1, by simp [hu.2.1], by simp; rw [← hu.2.1]; exact hau rfl, hu.2.2.1, fun h => hu.2.2.2 (by simpa using h)⟩

theorem trunc_wf (prec : ℕ) (u : F) (hu : OpWF u) : WF (trunc prec u) := by
  unfold trunc
  by_cases h : u.size = 0 ∨ u.exp ≤ 0
  · rw [if_pos h]; exact WF_zero prec
  · rw [if_neg h]
    have h0 : u.size ≠ 0 := fun h' => h (Or.inl h')
    have hn := List.length_pos_of_ne_nil (hu.ne_nil h0)
    have hpos : 1 ≤ min (min u.d.length u.exp.toNat) (prec + 1) := by omega
    have hlen : (top (min (min u.d.length u.exp.toNat) (prec + 1)) u.d).length = min (min u.d.length u.exp.toNat) (prec + 1) := by
      rw [top_length]; omega
    have := WF_top prec _ hpos (by omega) u hu h0 (u.size ≥ 0) u.exp
    rw [hlen] at this
    exact this

theorem ceilOrFloor_wf (prec : ℕ) (u : F) (hu : OpWF u) (dir : ℤ) (hdir : dir = 1 ∨ dir = -1) :
    WF (ceilOrFloor prec u dir) := by
  unfold ceilOrFloor
  by_cases h0 : u.size = 0
  · rw [if_pos h0]; exact WF_zero prec
  rw [if_neg h0]
  by_cases he : u.exp ≤ 0
  · rw [if_pos he]
    by_cases hs : (decide (u.size < 0) != decide (dir < 0)) = true
    · rw [if_pos hs]; exact WF_zero prec
    · rw [if_neg hs]
      refine ⟨Limbs_cons.mpr ⟨one_lt_B, Limbs_nil⟩, ?_, ?_, by simp, ?_⟩ <;> rcases hdir with h | h <;> subst h <;> simp
  · rw [if_neg he]
    simp only
    have hn := List.length_pos_of_ne_nil (hu.ne_nil h0)
    set asize := min (min u.d.length u.exp.toNat) (prec + 1) with has
    have hpos : 1 ≤ asize := by omega
    have hle : asize ≤ prec + 1 := by omega
    obtain ⟨t1, t2, t3, t4, _⟩ := top_facts asize hpos u.d hu.1 (hu.ne_nil h0) hu.2.2.1
    have hlen : (top asize u.d).length = asize := by rw [t4]; omega
    have hbase : WF ⟨prec, if u.size ≥ 0 then (asize : ℤ) else -(asize : ℤ), u.exp, top asize u.d⟩ := by
      have := WF_top prec asize hpos hle u hu h0 (u.size ≥ 0) u.exp
      rwa [hlen] at this
    by_cases hc : (decide (u.size < 0) == decide (dir < 0)) = true ∧ (u.d.take (u.d.length - asize)).any (· != 0) = true
    · rw [if_pos hc]
      by_cases hcy : (val (top asize u.d) + 1) / B ^ asize ≠ 0
      · rw [if_pos hcy]
        refine ⟨Limbs_cons.mpr ⟨one_lt_B, Limbs_nil⟩, ?_, ?_, by simp, ?_⟩ <;> by_cases hs : u.size ≥ 0 <;> simp [hs]
      · rw [if_neg hcy]
        have hs : val (top asize u.d) + 1 < B ^ asize := by
          have := (Nat.div_eq_zero_iff.mp (not_not.mp hcy)); have := Bpow_pos asize; omega
        have hl := toLimbs_length asize (val (top asize u.d) + 1)
        have hne : toLimbs asize (val (top asize u.d) + 1) ≠ [] := by
          intro h; rw [h] at hl; simp at hl; omega
        have ht : (toLimbs asize (val (top asize u.d) + 1)).getLast? ≠ some 0 := by
          apply top_ne_zero_of_val_ge _ (Limbs_toLimbs _ _) hne
          rw [hl, val_toLimbs_of_lt hs]
          have := val_ge_of_top _ t2 t3
          rw [hlen] at this; omega
        have := @WF_mk prec (u.size ≥ 0) _ u.exp _ (Limbs_toLimbs asize (val (top asize u.d) + 1)) ht (by rw [hl]; exact hle)
          (fun h => absurd h hne)
        rwa [hl] at this
    · rw [if_neg hc]; exact hbase

theorem floor_wf (prec : ℕ) (u : F) (hu : OpWF u) : WF (floor prec u) := ceilOrFloor_wf prec u hu (-1) (Or.inr rfl)
theorem ceil_wf (prec : ℕ) (u : F) (hu : OpWF u) : WF (ceil prec u) := ceilOrFloor_wf prec u hu 1 (Or.inl rfl)

theorem mul_2exp_wf (prec : ℕ) (hp : 1 ≤ prec) (u : F) (e : ℕ) (hu : OpWF u) : WF (mul_2exp prec u e) := by
  unfold mul_2exp
  by_cases h0 : u.size = 0
  · rw [if_pos h0]; exact WF_zero prec
  rw [if_neg h0]
  by_cases he : e % 64 = 0
  · rw [if_pos he]; exact WF_top prec (prec + 1) (by omega) (le_refl _) u hu h0 (u.size ≥ 0) _
  · rw [if_neg he]
    obtain ⟨t1, t2, t3, t4, _⟩ := top_facts prec hp u.d hu.1 (hu.ne_nil h0) hu.2.2.1
    obtain ⟨s1, s2, s3, s4, _⟩ := shiftUp_spec (top prec u.d) (e % 64) t1 t2 t3 (Nat.mod_lt _ (by norm_num))
    dsimp only
    generalize shiftUp (top prec u.d) (e % 64) = r at *
    obtain ⟨rd, adj⟩ := r
    simp only at s1 s2 s3 s4 ⊢
    exact WF_mk s1 s2 (by rw [s3, t4]; omega) (fun h => by rw [h] at s3; simp at s3; have := List.length_pos_of_ne_nil t2; omega)

theorem div_2exp_wf (prec : ℕ) (hp : 1 ≤ prec) (u : F) (e : ℕ) (hu : OpWF u) : WF (div_2exp prec u e) := by
  unfold div_2exp
  by_cases h0 : u.size = 0
  · rw [if_pos h0]; exact WF_zero prec
  rw [if_neg h0]
  by_cases he : e % 64 = 0
  · rw [if_pos he]; exact WF_top prec (prec + 1) (by omega) (le_refl _) u hu h0 (u.size ≥ 0) _
  · rw [if_neg he]
    obtain ⟨t1, t2, t3, t4, _⟩ := top_facts prec hp u.d hu.1 (hu.ne_nil h0) hu.2.2.1
    have hc : e % 64 < 64 := Nat.mod_lt _ (by norm_num)
    obtain ⟨s1, s2, s3, s4, _⟩ := shiftUp_spec (top prec u.d) (64 - e % 64) t1 t2 t3 (by omega)
    dsimp only
    generalize shiftUp (top prec u.d) (64 - e % 64) = r at *
    obtain ⟨rd, adj⟩ := r
    simp only at s1 s2 s3 s4 ⊢
    exact WF_mk s1 s2 (by rw [s3, t4]; omega) (fun h => by rw [h] at s3; simp at s3; have := List.length_pos_of_ne_nil t2; omega)


/-! ### mul_ui -/

theorem accurate_of_nat (prec : ℕ) (r : F) (σ : ℚ) (hσ : σ = 1 ∨ σ = -1) (R N : ℕ) (s : ℚ) (hs : 0 < s)
    (hwf : WF r) (hr : toQ r = σ * (R : ℚ) * s) (hN : 0 < N) (hle : R ≤ N) (h : (N - R) * B ^ (prec - 1) < 4 * N) :
    Accurate prec r (σ * (N : ℚ) * s) := by
  refine ⟨hwf, fun h0 => ?_, fun _ => by rw [hr]; exact err_of_nat σ hσ R N s hs prec hle h⟩
  exfalso
  have : (0 : ℚ) < (N : ℚ) := by exact_mod_cast hN
  rcases hσ with h1 | h1 <;> rw [h1] at h0 <;> nlinarith

theorem mul_ui_spec (prec : ℕ) (hp : 1 ≤ prec) (u : F) (w : ℕ) (hu : OpWF u) (hw : w < B) :
    Accurate prec (mul_ui prec u w) (toQ u * w) ∧ (u.d.length ≤ prec → toQ (mul_ui prec u w) = toQ u * w) := by
  unfold mul_ui
  by_cases hz : w = 0 ∨ u.size = 0
  · rw [if_pos hz]
    have hE : toQ u * (w : ℚ) = 0 := by
      rcases hz with h | h
      · rw [h]; simp
      · rw [toQ_of_size_zero (hu.d_nil h)]; simp
    rw [hE]
    exact ⟨⟨WF_zero prec, fun _ => toQ_zero prec, fun h => absurd rfl h⟩, fun _ => toQ_zero prec⟩
  · rw [if_neg hz]
    have hw0 : w ≠ 0 := fun h => hz (Or.inl h)
    have h0 : u.size ≠ 0 := fun h => hz (Or.inr h)
    have hne := hu.ne_nil h0
    have hlen := List.length_pos_of_ne_nil hne
    have hU1 := val_ge_of_top u.d hne hu.2.2.1
    have hU2 := val_lt u.d hu.1
    simp only
    set len := u.d.length with hl
    set excess := len - prec with hex
    set n := (if len > prec then prec else len) with hn
    have hnl : n + excess = len := by rw [hn, hex]; split <;> omega
    have hn1 : 1 ≤ n := by rw [hn]; split <;> omega
    have hnp : n ≤ prec := by rw [hn]; split <;> omega
    set N := val u.d * w with hN
    have hN1 : B ^ (len - 1) ≤ N := le_trans hU1 (Nat.le_mul_of_pos_right _ (Nat.pos_of_ne_zero hw0))
    have hN2 : N < B ^ (len + 1) := by
      rw [pow_succ]; exact Nat.mul_lt_mul'' hU2 hw
    set t := N / B ^ excess with ht
    have ht1 : t < B ^ (n + 1) := by
      rw [ht, Nat.div_lt_iff_lt_mul (Bpow_pos _), ← pow_add]
      rwa [show n + 1 + excess = len + 1 by omega]
    have ht0 : B ^ (n - 1) ≤ t := by
      rw [ht, Nat.le_div_iff_mul_le (Bpow_pos _), ← pow_add]
      rwa [show n - 1 + excess = len - 1 by omega]
    have htle : t * B ^ excess ≤ N := Nat.div_mul_le_self N _
    have htgt : N < (t + 1) * B ^ excess := by
      rw [ht]; exact (Nat.div_lt_iff_lt_mul (Bpow_pos _)).mp (Nat.lt_succ_self _)
    have hcyB : t / B ^ n < B := by
      rw [Nat.div_lt_iff_lt_mul (Bpow_pos _), mul_comm, ← pow_succ]; exact ht1
    have hsplit : val (toLimbs n t) + B ^ n * (t / B ^ n) = t := by rw [val_toLimbs]; exact Nat.mod_add_div _ _
    clear_value N t n excess len
    -- the result limbs
    have key : ∀ (rd : List Nat) (c : ℕ), c ≤ 1 → Limbs rd → rd.getLast? ≠ some 0 → rd.length = n + c → val rd = t →
        Accurate prec ⟨prec, if u.size ≥ 0 then (rd.length : ℤ) else -(rd.length : ℤ), u.exp + (c : ℤ), rd⟩ (toQ u * w) ∧
        (len ≤ prec → toQ ⟨prec, if u.size ≥ 0 then (rd.length : ℤ) else -(rd.length : ℤ), u.exp + (c : ℤ), rd⟩ = toQ u * w) := by
      intro rd c hc1 hl1 hl2 hl3 hl4
      have hσ : (if u.size ≥ 0 then (1 : ℚ) else -1) = 1 ∨ (if u.size ≥ 0 then (1 : ℚ) else -1) = -1 := by
        by_cases h : u.size ≥ 0 <;> simp [h]
      have hne' : rd ≠ [] := by intro h; rw [h] at hl3; simp at hl3; omega
      have hwf := @WF_mk prec (u.size ≥ 0) _ (u.exp + (c : ℤ)) rd hl1 hl2 (by omega) (fun h => absurd h hne')
      have hq : toQ ⟨prec, if u.size ≥ 0 then (rd.length : ℤ) else -(rd.length : ℤ), u.exp + (c : ℤ), rd⟩
          = (if u.size ≥ 0 then (1 : ℚ) else -1) * ((t * B ^ excess : ℕ) : ℚ) * (B : ℚ) ^ (u.exp - (len : ℤ)) := by
        rw [toQ_mk, hl4, hl3]
        have : u.exp + (c : ℤ) - ((n + c : ℕ) : ℤ) = (excess : ℤ) + (u.exp - (len : ℤ)) := by omega
        rw [this, zpow_add₀ Bq_ne, zpow_natCast]; push_cast; ring
      have hE : toQ u * (w : ℚ) = (if u.size ≥ 0 then (1 : ℚ) else -1) * ((N : ℕ) : ℚ) * (B : ℚ) ^ (u.exp - (len : ℤ)) := by
        rw [toQ_def', hN, ← hl]; push_cast; ring
      rw [hE]
      refine ⟨accurate_of_nat prec _ _ hσ _ _ _ (zpow_pos Bq_pos _) hwf hq (lt_of_lt_of_le (Bpow_pos _) hN1) htle ?_, fun hle => ?_⟩
      · rcases Nat.eq_zero_or_pos excess with h | h
        · rw [h, pow_zero, mul_one] at htle htgt ⊢
          have : N - t = 0 := by omega
          rw [this, zero_mul]; have := Bpow_pos (len - 1); omega
        · have hnp' : n = prec := by omega
          have h1 : N - t * B ^ excess < B ^ excess := by
            have : (t + 1) * B ^ excess = t * B ^ excess + B ^ excess := by ring
            omega
          have h2 : B ^ excess * B ^ (prec - 1) = B ^ (len - 1) := by rw [← pow_add]; congr 1; omega
          calc (N - t * B ^ excess) * B ^ (prec - 1) < B ^ excess * B ^ (prec - 1) :=
                Nat.mul_lt_mul_of_pos_right h1 (Bpow_pos _)
            _ = B ^ (len - 1) := h2
            _ ≤ N := hN1
            _ ≤ 4 * N := by omega
      · have hex0 : excess = 0 := by omega
        rw [hq, hex0, pow_zero, mul_one]
        rw [hex0, pow_zero, mul_one] at htle htgt
        have : t = N := by omega
        rw [this]
    by_cases hcy : t / B ^ n ≠ 0
    · simp only [hcy, ne_eq, not_false_eq_true, if_true]
      have hlast : (toLimbs n t ++ [t / B ^ n]).getLast? = some (t / B ^ n) := by simp
      have := key (toLimbs n t ++ [t / B ^ n]) 1 (le_refl _)
        (Limbs_append.mpr ⟨Limbs_toLimbs _ _, Limbs_cons.mpr ⟨hcyB, Limbs_nil⟩⟩)
        (by rw [hlast]; exact fun h => hcy (Option.some.inj h)) (by simp [toLimbs_length]) (by rw [val_append, toLimbs_length]; simpa using hsplit)
      simpa using this
    · simp only [hcy, if_false]
      have hc0 : t / B ^ n = 0 := not_not.mp hcy
      have hlt : t < B ^ n := by
        rcases Nat.div_eq_zero_iff.mp hc0 with h | h
        · exact absurd h (ne_of_gt (Bpow_pos n))
        · exact h
      have hv : val (toLimbs n t) = t := val_toLimbs_of_lt hlt
      have hne' : toLimbs n t ≠ [] := by
        intro h; have := toLimbs_length n t; rw [h] at this; simp at this; omega
      have := key (toLimbs n t) 0 (by omega) (Limbs_toLimbs _ _)
        (by apply top_ne_zero_of_val_ge _ (Limbs_toLimbs _ _) hne'; rw [toLimbs_length, hv]; exact ht0)
        (by simp [toLimbs_length]) hv
      simpa using this


/-! ### set_d -/

/-- mpf_set_d on a normal binary64 (biased exponent 1..2046): exactly ±(2^52 + man)·2^(bexp − 1075), well formed. -/
theorem set_d_normal (prec : ℕ) (hp : 1 ≤ prec) (bits sign bexp man : ℕ)
    (h1 : bits / 2 ^ 63 % 2 = sign) (h2 : bits / 2 ^ 52 % 2 ^ 11 = bexp) (h3 : bits % 2 ^ 52 = man)
    (hb1 : 1 ≤ bexp) (hb2 : bexp ≤ 2046) :
    ∃ r, set_d prec bits = .ok r ∧ WF r ∧
      toQ r = (if sign = 1 then -1 else 1) * ((2 ^ 52 + man : ℕ) : ℚ) * (2 : ℚ) ^ ((bexp : ℤ) - 1075) := by
  have hm : man < 2 ^ 52 := by rw [← h3]; exact Nat.mod_lt _ (by norm_num)
  have hs : sign ≤ 1 := by rw [← h1]; exact Nat.lt_succ_iff.mp (Nat.mod_lt _ (by norm_num))
  unfold set_d
  dsimp only
  simp only [h1, h2, h3]
  rw [if_neg (show ¬ bexp = 0x7FF by omega), if_neg (show ¬ (bexp = 0 ∧ man = 0) by omega), if_neg (show ¬ bexp = 0 by omega)]
  dsimp only
  set manl := 2 ^ 63 + man * 2 ^ 11 with hmanl
  have hmB : manl < B := by rw [hmanl, B_eq]; omega
  have hm63 : 2 ^ 63 ≤ manl := by rw [hmanl]; omega
  obtain ⟨q, sc, hq, hsc⟩ : ∃ q sc : ℕ, (bexp : ℤ) - 1022 + 64 * 64 = 64 * (q : ℤ) + (sc : ℤ) ∧ sc < 64 := by
    refine ⟨(bexp + 3074) / 64, (bexp + 3074) % 64, ?_, Nat.mod_lt _ (by norm_num)⟩
    have := Nat.div_add_mod (bexp + 3074) 64
    omega
  have hsc' : (((bexp : ℤ) - 1022 + 64 * 64) % 64).toNat = sc := by omega
  have hq' : ((bexp : ℤ) - 1022 + 64 * 64) / 64 - 64 + 1 = (q : ℤ) - 63 := by omega
  rw [hsc', hq']
  have hval : (((2 ^ 52 + man : ℕ) : ℚ)) * (2 : ℚ) ^ ((bexp : ℤ) - 1075) = (manl : ℚ) * (2 : ℚ) ^ ((bexp : ℤ) - 1086) := by
    rw [hmanl]; push_cast
    have : (2 : ℚ) ^ ((bexp : ℤ) - 1075) = 2 ^ 11 * (2 : ℚ) ^ ((bexp : ℤ) - 1086) := by
      rw [← zpow_natCast (2 : ℚ) 11, ← zpow_add₀ (by norm_num : (2 : ℚ) ≠ 0)]; congr 1; omega
    rw [this]; ring
  have hσ : (if (if sign = 1 then (-2 : ℤ) else 2) < 0 then (-1 : ℚ) else 1) = (if sign = 1 then -1 else 1) := by
    by_cases h : sign = 1 <;> simp [h]
  by_cases hs0 : sc ≠ 0
  · rw [if_pos hs0]
    refine ⟨_, rfl, ?_, ?_⟩
    · have hhi : 1 ≤ manl / 2 ^ (64 - sc) := by
        rw [Nat.le_div_iff_mul_le (Nat.two_pow_pos _)]
        calc 1 * 2 ^ (64 - sc) ≤ 2 ^ 63 := by rw [one_mul]; exact Nat.pow_le_pow_right (by norm_num) (by omega)
          _ ≤ manl := hm63
      have hhiB : manl / 2 ^ (64 - sc) < B := lt_of_le_of_lt (Nat.div_le_self _ _) hmB
      refine ⟨Limbs_cons.mpr ⟨Nat.mod_lt _ B_pos, Limbs_cons.mpr ⟨hhiB, Limbs_nil⟩⟩, ?_, ?_, ?_, ?_⟩
      · by_cases h : sign = 1 <;> simp [h]
      · by_cases h : sign = 1 <;> simp [h] <;> omega
      · simp only [List.getLast?_cons_cons, List.getLast?_singleton, ne_eq, Option.some.injEq]; omega
      · by_cases h : sign = 1 <;> simp [h]
    · unfold toQ
      simp only [hσ, val_cons, val_nil, mul_zero, add_zero, List.length_cons, List.length_nil]
      rw [mul_assoc, mul_assoc, hval]
      congr 1
      -- lo + B·hi = manl · 2^sc
      have hsplit : (manl * 2 ^ sc) % B + B * (manl / 2 ^ (64 - sc)) = manl * 2 ^ sc := by
        have hB : B = 2 ^ (64 - sc) * 2 ^ sc := by unfold B; rw [← pow_add]; congr 1; omega
        have hdiv : manl * 2 ^ sc / B = manl / 2 ^ (64 - sc) := by
          rw [hB, Nat.mul_div_mul_right _ _ (Nat.two_pow_pos sc)]
        rw [← hdiv]; exact Nat.mod_add_div _ _
      have : (((manl * 2 ^ sc) % B + B * (manl / 2 ^ (64 - sc)) : ℕ) : ℚ) = (manl : ℚ) * 2 ^ sc := by
        rw [hsplit]; push_cast; ring
      push_cast at this ⊢
      have e64 : ((2 : ℚ) ^ 64) = (2 : ℚ) ^ (64 : ℤ) := by norm_num
      rw [this, Bq_eq, e64, ← zpow_mul, mul_assoc, ← zpow_natCast (2 : ℚ) sc, ← zpow_add₀ (by norm_num : (2 : ℚ) ≠ 0)]
      congr 2
      omega
  · rw [if_neg hs0]
    have hsc0 : sc = 0 := not_not.mp hs0
    refine ⟨_, rfl, ?_, ?_⟩
    · refine ⟨Limbs_cons.mpr ⟨B_pos, Limbs_cons.mpr ⟨hmB, Limbs_nil⟩⟩, ?_, ?_, ?_, ?_⟩
      · by_cases h : sign = 1 <;> simp [h]
      · by_cases h : sign = 1 <;> simp [h] <;> omega
      · simp only [List.getLast?_cons_cons, List.getLast?_singleton, ne_eq, Option.some.injEq]; omega
      · by_cases h : sign = 1 <;> simp [h]
    · unfold toQ
      simp only [hσ, val_cons, val_nil, mul_zero, add_zero, List.length_cons, List.length_nil, zero_add]
      rw [mul_assoc, mul_assoc, hval]
      congr 1
      push_cast
      have e64 : ((2 : ℚ) ^ 64) = (2 : ℚ) ^ (64 : ℤ) := by norm_num
      rw [Bq_eq, e64, ← zpow_mul, mul_comm ((2 : ℚ) ^ (64 : ℤ)), mul_assoc, ← zpow_add₀ (by norm_num : (2 : ℚ) ≠ 0)]
      congr 2
      omega


/-! ### add_ui -/

theorem accurate_pos (prec : ℕ) (r : F) (E R : ℚ) (hwf : WF r) (hr : toQ r = R) (hE : 0 < E) (h1 : R ≤ E)
    (h2 : (E - R) * (B : ℚ) ^ (prec - 1) < 4 * E) : Accurate prec r E := by
  refine ⟨hwf, fun h => absurd h (ne_of_gt hE), fun _ => ?_⟩
  have hQ : (0 : ℚ) < (B : ℚ) ^ (prec - 1) := pow_pos Bq_pos _
  rw [hr, eps_eq, abs_of_pos hE, abs_sub_comm, abs_of_nonneg (by linarith), div_mul_eq_mul_div, lt_div_iff₀ hQ]
  exact h2

theorem accurate_neg_size (prec : ℕ) (r : F) (E : ℚ) (h : Accurate prec r E) :
    Accurate prec {r with size := -r.size} (-E) := by
  obtain ⟨⟨w1, w2, w3, w4, w5⟩, h2, h3⟩ := h
  have hq : toQ {r with size := -r.size} = - toQ r := by
    unfold toQ; dsimp only
    rcases lt_trichotomy r.size 0 with h | h | h
    · rw [if_neg (by omega), if_pos h]; ring
    · have : r.d = [] := List.eq_nil_of_length_eq_zero (by rw [w2, h]; rfl)
      simp [this]
    · rw [if_pos (by omega), if_neg (by omega)]; ring
  refine ⟨⟨w1, by simpa using w2, by simpa using w3, w4, fun h => w5 (by simpa using h)⟩, fun h0 => ?_, fun h0 => ?_⟩
  · rw [hq, h2 (by linarith)]; ring
  · rw [hq, abs_neg, show -toQ r - -E = -(toQ r - E) by ring, abs_neg]
    exact h3 (fun h' => h0 (by rw [h']; ring))


theorem toQ_pos_qv (u : F) (h : 0 < u.size) : toQ u = qv u.d u.exp := by
  rw [toQ_qv]; unfold sg; rw [if_neg (by omega), one_mul]

theorem toQ_pos_mk (prec : ℕ) (e : ℤ) (l : List Nat) (k : ℤ) (hk : k = (l.length : ℤ)) :
    toQ ⟨prec, k, e, l⟩ = qv l e := by
  subst hk; unfold toQ qv; dsimp only; rw [if_neg (by omega), one_mul]

theorem WF_pos_mk (prec : ℕ) (e : ℤ) (l : List Nat) (k : ℤ) (hk : k = (l.length : ℤ)) (hl : Limbs l)
    (ht : l.getLast? ≠ some 0) (hn : l.length ≤ prec + 1) (hne : l ≠ []) : WF ⟨prec, k, e, l⟩ := by
  subst hk
  refine ⟨hl, by simp, by simpa using hn, ht, fun h => ?_⟩
  have : l.length = 0 := by have : (l.length : ℤ) = 0 := h; omega
  exact absurd (List.eq_nil_of_length_eq_zero this) hne

theorem qv_top_bound (n : ℕ) (d : List Nat) (e : ℤ) (hl : Limbs d) :
    qv (top n d) e ≤ qv d e ∧ qv d e - qv (top n d) e < (B : ℚ) ^ (e - (n : ℤ)) := by
  have h := qv_top n d e
  have hlo := val_take_lt hl (d.length - n)
  have hnn : (0 : ℚ) ≤ (val (d.take (d.length - n)) : ℚ) * (B : ℚ) ^ (e - (d.length : ℤ)) :=
    mul_nonneg (by positivity) (le_of_lt (zpow_pos Bq_pos _))
  refine ⟨by linarith, ?_⟩
  rw [h, add_sub_cancel_right]
  rcases Nat.eq_zero_or_pos (d.length - n) with h0 | h0
  · rw [h0]; simp; exact zpow_pos Bq_pos _
  · have := low_lt _ _ d.length e hlo
    have e1 : e - (d.length : ℤ) + ((d.length - n : ℕ) : ℤ) = e - (n : ℤ) := by omega
    rwa [e1] at this

theorem qv_append (a b : List Nat) (e : ℤ) : qv (a ++ b) e = qv a (e - (b.length : ℤ)) + qv b e := by
  unfold qv
  rw [val_append, List.length_append]; push_cast
  have : (B : ℚ) ^ a.length * (B : ℚ) ^ (e - ((a.length : ℤ) + (b.length : ℤ))) = (B : ℚ) ^ (e - (b.length : ℤ)) := by
    rw [← zpow_natCast, ← zpow_add₀ Bq_ne]; congr 1; ring
  rw [show e - (b.length : ℤ) - (a.length : ℤ) = e - ((a.length : ℤ) + (b.length : ℤ)) by ring, ← this]; ring

theorem qv_singleton (w : ℕ) (e : ℤ) : qv [w] e = (w : ℚ) * (B : ℚ) ^ (e - 1) := by
  unfold qv; simp [val]

theorem qv_replicate_zero (k : ℕ) (e : ℤ) : qv (List.replicate k 0) e = 0 := by
  unfold qv; rw [val_replicate_zero]; simp

theorem Bz_mul_pow (a : ℤ) (n : ℕ) : (B : ℚ) ^ a * (B : ℚ) ^ n = (B : ℚ) ^ (a + (n : ℤ)) := by
  rw [zpow_add₀ Bq_ne, zpow_natCast]

theorem set_ui_exact' (prec : Nat) (v : Nat) (hv : v < B) :
    toQ (set_ui prec v) = v ∧ WF (set_ui prec v) := by
  unfold set_ui
  by_cases h : v = 0
  · rw [if_pos h, h]; exact ⟨by simp [toQ], WF_zero prec⟩
  · rw [if_neg h]
    refine ⟨by simp [toQ, val], ?_⟩
    exact ⟨Limbs_cons.mpr ⟨hv, Limbs_nil⟩, rfl, by simp, by simpa using h, by simp⟩

/-- add_ui.c:54-143: u > 0 and v ≠ 0 -/
theorem add_ui_pos (prec : ℕ) (hp : 2 ≤ prec) (u : F) (w : ℕ) (hu : OpWF u) (hpos : 0 < u.size) (hw0 : w ≠ 0) (hw : w < B)
    (rIsU : Bool) (hau : rIsU = true → u.d.length ≤ prec + 1) :
    Accurate prec (add_ui prec rIsU u w) (toQ u + w) := by
  have h0 : u.size ≠ 0 := by omega
  have hne := hu.ne_nil h0
  have hnl := List.length_pos_of_ne_nil hne
  have hE : toQ u = qv u.d u.exp := toQ_pos_qv u hpos
  have hX1 := qv_ge u.d u.exp hne hu.2.2.1
  have hX2 := qv_lt u.d u.exp hu.1
  have hwq : (1 : ℚ) ≤ (w : ℚ) := by exact_mod_cast Nat.one_le_iff_ne_zero.mpr hw0
  have hwB : (w : ℚ) < (B : ℚ) := by exact_mod_cast hw
  have hB2 : (2 : ℚ) ≤ (B : ℚ) := by exact_mod_cast B_ge_two
  have hQ : (0 : ℚ) < (B : ℚ) ^ (prec - 1) := pow_pos Bq_pos _
  have hQB : (B : ℚ) ≤ (B : ℚ) ^ (prec - 1) := by
    calc (B : ℚ) = (B : ℚ) ^ 1 := (pow_one _).symm
      _ ≤ (B : ℚ) ^ (prec - 1) := pow_le_pow_right₀ (by linarith) (by omega)
  unfold add_ui
  rw [if_neg h0, if_neg (by omega)]
  simp only
  rw [if_neg hw0, hE]
  have hXpos : 0 < qv u.d u.exp := lt_of_lt_of_le (zpow_pos Bq_pos _) hX1
  have hQz : (B : ℚ) ^ (prec - 1) = (B : ℚ) ^ ((prec : ℤ) - 1) := by
    rw [← zpow_natCast]; congr 1; omega
  obtain ⟨c1, c2⟩ := qv_top_bound (prec + 1) u.d u.exp hu.1
  obtain ⟨tt1, tt2, tt3, tt4, _⟩ := top_facts (prec + 1) (by omega) u.d hu.1 hne hu.2.2.1
  by_cases he : u.exp > 0
  · rw [if_pos he]
    by_cases hbig : u.exp > (prec : ℤ)
    · -- v lies entirely below the precision of the result: sum_is_u
      rw [if_pos hbig]
      have hQu : (B : ℚ) ^ (prec - 1) * (B : ℚ) ≤ qv u.d u.exp := by
        rw [hQz, ← zpow_add_one₀ Bq_ne]
        exact le_trans (zpow_le_zpow_B (by omega)) hX1
      cases rIsU
      · simp only [Bool.false_eq_true, if_false]
        refine accurate_pos prec _ _ (qv (top (prec + 1) u.d) u.exp)
          (WF_pos_mk prec _ _ _ rfl tt1 tt3 (by rw [tt4]; omega) tt2) (toQ_pos_mk _ _ _ _ rfl) (by linarith) (by linarith) ?_
        have h1 : (B : ℚ) ^ (u.exp - ((prec + 1 : ℕ) : ℤ)) * (B : ℚ) ^ (prec - 1) * (B : ℚ) ≤ qv u.d u.exp := by
          rw [hQz, ← zpow_add₀ Bq_ne, ← zpow_add_one₀ Bq_ne]
          exact le_trans (zpow_le_zpow_B (by push_cast; omega)) hX1
        have hW : (0 : ℚ) < (B : ℚ) ^ (u.exp - ((prec + 1 : ℕ) : ℤ)) := zpow_pos Bq_pos _
        have hWQ : (B : ℚ) ^ (u.exp - ((prec + 1 : ℕ) : ℤ)) * (B : ℚ) ^ (prec - 1) * 2 ≤ qv u.d u.exp := by
          nlinarith [mul_nonneg (le_of_lt (mul_pos hW hQ)) (sub_nonneg.mpr hB2)]
        have p1 := mul_lt_mul_of_pos_right c2 hQ
        have p2 := mul_lt_mul_of_pos_right hwB hQ
        nlinarith
      · simp only [if_true]
        refine accurate_pos prec _ _ (qv u.d u.exp)
          ⟨hu.1, hu.2.1, by rw [← hu.2.1]; exact hau rfl, hu.2.2.1, hu.2.2.2⟩ (toQ_pos_qv _ hpos) (by linarith) (by linarith) ?_
        have p2 := mul_lt_mul_of_pos_right hwB hQ
        nlinarith
    · rw [if_neg hbig]
      obtain ⟨ue, hue⟩ : ∃ ue : ℕ, u.exp = (ue : ℤ) := ⟨u.exp.toNat, by omega⟩
      have huet : u.exp.toNat = ue := by omega
      rw [huet]
      by_cases hgap : ue > u.d.length
      · -- uuuuuu0000. + v: exact
        rw [if_pos hgap]
        have hlen : ([w] ++ List.replicate (ue - u.d.length - 1) 0 ++ u.d).length = ue := by simp; omega
        have hval : qv ([w] ++ List.replicate (ue - u.d.length - 1) 0 ++ u.d) (ue : ℤ) = qv u.d u.exp + w := by
          rw [qv_append, qv_append, qv_replicate_zero, qv_singleton, hue]
          have : (ue : ℤ) - (u.d.length : ℤ) - ((List.replicate (ue - u.d.length - 1) 0).length : ℤ) - 1 = 0 := by
            simp; omega
          rw [this]; simp; ring
        refine accurate_pos prec _ _ (qv u.d u.exp + w) ?_ ?_ (by linarith) (le_refl _) (by nlinarith)
        · refine WF_pos_mk prec _ _ _ (by rw [hlen]) ?_ ?_ (by rw [hlen]; omega) (by simp)
          · exact Limbs_append.mpr ⟨Limbs_append.mpr ⟨Limbs_cons.mpr ⟨hw, Limbs_nil⟩, Limbs_replicate_zero _⟩, hu.1⟩
          · rw [List.getLast?_append_of_ne_nil _ hne]; exact hu.2.2.1
        · rw [toQ_pos_mk _ _ _ _ (by rw [hlen]), hval]
      · -- uuuuuu.uuuu + v
        rw [if_neg hgap]
        obtain ⟨p1, p2, p3, p4, _⟩ := top_facts prec (by omega) u.d hu.1 hne hu.2.2.1
        obtain ⟨d1, d2⟩ := qv_top_bound prec u.d u.exp hu.1
        have hpn : min prec u.d.length = (top prec u.d).length := p4.symm
        generalize hup : top prec u.d = up at *
        have hn : ue ≤ up.length := by omega
        have hue1 : 1 ≤ ue := by omega
        have hdl : (up.drop (up.length - ue)).length = ue := by rw [List.length_drop]; omega
        have hhi : val (up.drop (up.length - ue)) < B ^ ue := by
          have := val_lt _ (Limbs_drop p1 (up.length - ue)); rwa [hdl] at this
        have hsplit := val_take_drop up (up.length - ue) (by omega)
        have hBue : B ≤ B ^ ue := by
          calc B = B ^ 1 := (pow_one B).symm
            _ ≤ B ^ ue := Nat.pow_le_pow_right B_pos hue1
        have htl : (up.take (up.length - ue)).length = up.length - ue := by rw [List.length_take]; omega
        generalize hs : val (up.drop (up.length - ue)) + w = s at *
        have hcy1 : s / B ^ ue ≤ 1 := by
          have : s < 2 * B ^ ue := by omega
          have := (Nat.div_lt_iff_lt_mul (Bpow_pos ue)).mpr this
          omega
        have hsmod : val (toLimbs ue s) + B ^ ue * (s / B ^ ue) = s := by rw [val_toLimbs]; exact Nat.mod_add_div _ _
        have hTl : (up.take (up.length - ue) ++ toLimbs ue s).length = up.length := by
          rw [List.length_append, htl, toLimbs_length]; omega
        have hTL : Limbs (up.take (up.length - ue) ++ toLimbs ue s) := Limbs_append.mpr ⟨Limbs_take p1 _, Limbs_toLimbs _ _⟩
        have e1 : B ^ up.length = B ^ (up.length - ue) * B ^ ue := by rw [← pow_add]; congr 1; omega
        have hTv : val (up.take (up.length - ue) ++ toLimbs ue s) + B ^ up.length * (s / B ^ ue)
            = val up + B ^ (up.length - ue) * w := by
          rw [val_append, htl, hsplit, e1, mul_assoc, add_assoc, ← mul_add, hsmod, ← hs, mul_add, add_assoc]
        generalize hT : up.take (up.length - ue) ++ toLimbs ue s = T at *
        generalize hc : s / B ^ ue = cy at *
        -- value and format of the result
        have hq := qv_carry T cy u.exp hcy1
        have hone : (B : ℚ) ^ (up.length - ue) * (B : ℚ) ^ (u.exp - (up.length : ℤ)) = 1 := by
          rw [← zpow_natCast, ← zpow_add₀ Bq_ne, hue]
          have : ((up.length - ue : ℕ) : ℤ) + ((ue : ℤ) - (up.length : ℤ)) = 0 := by omega
          rw [this, zpow_zero]
        have hval : qv (if cy ≠ 0 then T ++ [cy] else T) (u.exp + (cy : ℤ)) = qv up u.exp + w := by
          rw [hq, hTl, hTv]; unfold qv; push_cast
          rw [add_mul, mul_assoc ((B : ℚ) ^ (up.length - ue)), mul_comm (w : ℚ), ← mul_assoc, hone, one_mul]
        refine accurate_pos prec _ _ (qv up u.exp + w) ?_ ?_ (by linarith) (by linarith) ?_
        · refine WF_pos_mk prec _ _ _ rfl ?_ ?_ ?_ ?_
          · by_cases hcz : cy ≠ 0
            · rw [if_pos hcz]; exact Limbs_append.mpr ⟨hTL, Limbs_cons.mpr ⟨by have := B_ge_two; omega, Limbs_nil⟩⟩
            · rw [if_neg hcz]; exact hTL
          · by_cases hcz : cy ≠ 0
            · rw [if_pos hcz]; simp; exact hcz
            · rw [if_neg hcz]
              have hc0 : cy = 0 := not_not.mp hcz
              rw [hc0, mul_zero, add_zero] at hTv
              apply top_ne_zero_of_val_ge T hTL (by intro h; rw [h] at hTl; simp at hTl; omega)
              rw [hTl, hTv]
              have := val_ge_of_top up p2 p3
              omega
          · by_cases hcz : cy ≠ 0
            · rw [if_pos hcz]; simp; omega
            · rw [if_neg hcz]; omega
          · by_cases hcz : cy ≠ 0
            · rw [if_pos hcz]; simp
            · rw [if_neg hcz]; intro h; rw [h] at hTl; simp at hTl; omega
        · rw [toQ_pos_mk _ _ _ _ rfl, hval]
        · have hW : (B : ℚ) ^ (u.exp - (prec : ℤ)) * (B : ℚ) ^ (prec - 1) ≤ qv u.d u.exp := by
            rw [hQz, ← zpow_add₀ Bq_ne]
            exact le_trans (zpow_le_zpow_B (by omega)) hX1
          have p1' := mul_lt_mul_of_pos_right d2 hQ
          nlinarith
  · -- u < 1 ≤ v
    rw [if_neg he]
    obtain ⟨ne, hne'⟩ : ∃ ne : ℕ, u.exp = -(ne : ℤ) := ⟨(-u.exp).toNat, by omega⟩
    have hnet : (-u.exp).toNat = ne := by omega
    rw [hnet]
    have hL1 : Limbs [w] := Limbs_cons.mpr ⟨hw, Limbs_nil⟩
    by_cases hfar : ne ≥ prec
    · rw [if_pos hfar]
      refine accurate_pos prec _ _ (w : ℚ) (WF_pos_mk prec _ _ _ rfl hL1 (by simpa using hw0) (by simp) (by simp))
        (by rw [toQ_pos_mk prec 1 [w] 1 rfl, qv_singleton]; simp) (by linarith) (by linarith) ?_
      have h1 : qv u.d u.exp * (B : ℚ) ^ (prec - 1) < 1 := by
        have h2 : (B : ℚ) ^ u.exp * (B : ℚ) ^ (prec - 1) ≤ 1 := by
          rw [hQz, ← zpow_add₀ Bq_ne]
          have : (B : ℚ) ^ (u.exp + ((prec : ℤ) - 1)) ≤ (B : ℚ) ^ (0 : ℤ) := zpow_le_zpow_B (by omega)
          simpa using this
        calc qv u.d u.exp * (B : ℚ) ^ (prec - 1) < (B : ℚ) ^ u.exp * (B : ℚ) ^ (prec - 1) := mul_lt_mul_of_pos_right hX2 hQ
          _ ≤ 1 := h2
      nlinarith
    · rw [if_neg hfar]
      set m := (if u.d.length + ne + 1 > prec then prec - 1 - ne else u.d.length) with hm
      have hupm : (if u.d.length + ne + 1 > prec then top (prec - 1 - ne) u.d else u.d) = top m u.d := by
        rw [hm]; by_cases h : u.d.length + ne + 1 > prec
        · rw [if_pos h, if_pos h]
        · rw [if_neg h, if_neg h, top_of_le (le_refl _)]
      rw [hupm]
      obtain ⟨d1, d2⟩ := qv_top_bound m u.d u.exp hu.1
      have hml : (top m u.d).length + ne + 1 ≤ prec := by
        rw [top_length, hm]; by_cases h : u.d.length + ne + 1 > prec
        · rw [if_pos h]; omega
        · rw [if_neg h]; omega
      have hval : qv (top m u.d ++ List.replicate ne 0 ++ [w]) 1 = qv (top m u.d) u.exp + w := by
        rw [qv_append, qv_append, qv_replicate_zero, qv_singleton, hne']
        simp
      have hδ : (qv u.d u.exp - qv (top m u.d) u.exp) * (B : ℚ) ^ (prec - 1) < 1 ∨ qv u.d u.exp = qv (top m u.d) u.exp := by
        by_cases h : u.d.length + ne + 1 > prec
        · left
          have hmv : m = prec - 1 - ne := by rw [hm, if_pos h]
          have h2 : (B : ℚ) ^ (u.exp - (m : ℤ)) * (B : ℚ) ^ (prec - 1) = 1 := by
            rw [hQz, ← zpow_add₀ Bq_ne]
            have : u.exp - (m : ℤ) + ((prec : ℤ) - 1) = 0 := by omega
            rw [this, zpow_zero]
          calc _ < (B : ℚ) ^ (u.exp - (m : ℤ)) * (B : ℚ) ^ (prec - 1) := mul_lt_mul_of_pos_right d2 hQ
            _ = 1 := h2
        · right
          have hmv : m = u.d.length := by rw [hm, if_neg h]
          rw [hmv, top_of_le (le_refl _)]
      refine accurate_pos prec _ _ (qv (top m u.d) u.exp + w) ?_ ?_ (by linarith) (by linarith) ?_
      · refine WF_pos_mk prec _ _ _ rfl ?_ ?_ ?_ (by simp)
        · exact Limbs_append.mpr ⟨Limbs_append.mpr ⟨Limbs_top hu.1 _, Limbs_replicate_zero _⟩, hL1⟩
        · simp; exact hw0
        · simp; omega
      · rw [toQ_pos_mk _ _ _ _ rfl, hval]
      · rcases hδ with h | h
        · nlinarith
        · rw [h]; nlinarith


/-- mpf_add_ui in full -/
theorem add_ui_accurate (prec : ℕ) (hp : 2 ≤ prec) (u : F) (w : ℕ) (hu : OpWF u) (hw : w < B) (rIsU : Bool)
    (hau : rIsU = true → u.d.length ≤ prec + 1) :
    Accurate prec (add_ui prec rIsU u w) (toQ u + w) := by
  rcases lt_trichotomy u.size 0 with hneg | hz | hpos
  · -- negative u: -( (-u) - w )
    have hsub := sub_accurate prec hp {u with size := -u.size} (ofLimb w) (OpWF_neg_size u hu)
    have e : add_ui prec rIsU u w =
        {sub_ui prec false {u with size := -u.size} w with size := -(sub_ui prec false {u with size := -u.size} w).size} := by
      unfold add_ui; rw [if_neg (by omega), if_pos hneg]
    rw [e]
    have hsu : Accurate prec (sub_ui prec false {u with size := -u.size} w) (-toQ u - w) := by
      unfold sub_ui
      by_cases h0 : w = 0
      · rw [if_pos h0, h0]
        have := accurate_of_set prec (by omega) _ (OpWF_neg_size u hu)
        rw [toQ_neg_size u hu] at this; simpa using this
      · rw [if_neg h0]
        have := hsub (OpWF_ofLimb w h0 hw) false false (by simp) (by simp)
        rwa [toQ_neg_size u hu, toQ_ofLimb] at this
    have := accurate_neg_size prec _ _ hsu
    rwa [show -(-toQ u - (w : ℚ)) = toQ u + w by ring] at this
  · have e : add_ui prec rIsU u w = set_ui prec w := by unfold add_ui; rw [if_pos hz]
    rw [e, toQ_of_size_zero (hu.d_nil hz), zero_add]
    obtain ⟨h1, h2⟩ := set_ui_exact' prec w hw
    refine ⟨h2, fun h => by rw [h1]; exact h, fun h => ?_⟩
    rw [h1, sub_self, abs_zero]; exact mul_pos (by unfold eps; positivity) (abs_pos.mpr h)
  · by_cases h0 : w = 0
    · subst h0
      have e : add_ui prec rIsU u 0 = if rIsU then {u with prec := prec} else set prec u := by
        unfold add_ui; rw [if_neg (by omega), if_neg (by omega)]
        simp only [if_true]
        cases rIsU
        · simp only [Bool.false_eq_true, if_false]; unfold set; dsimp only; rw [if_pos (by omega)]
        · rfl
      rw [e]; simp only [Nat.cast_zero, add_zero]
      cases rIsU
      · exact accurate_of_set prec (by omega) u hu
      · exact accurate_alias prec u hu (hau rfl)
    · exact add_ui_pos prec hp u w hu hpos h0 hw rIsU hau


/-! ### exactness of add / sub -/

theorem fin_toQ (prec : ℕ) (rd : List Nat) (e : ℤ) (flip c : Bool) :
    toQ ⟨prec, if (c != flip) = true then -(rd.length : Int) else (rd.length : Int), if rd.length = 0 then 0 else e, rd⟩
      = (if c then -1 else 1) * ((if flip then -1 else 1) * qv rd e) := by
  by_cases hl : rd.length = 0
  · have : rd = [] := List.eq_nil_of_length_eq_zero hl
    subst this; simp [toQ, qv]
  · rw [if_neg hl, toQ_mk_neg]
    have hq : (val rd : ℚ) * (B : ℚ) ^ (e - (rd.length : ℤ)) = qv rd e := rfl
    rw [mul_assoc, hq]
    cases c <;> cases flip <;> simp

theorem subMag_exact (prec : ℕ) (hp : 2 ≤ prec) (u v : F) (hu : OpWF u) (hv : OpWF v)
    (hu0 : u.size ≠ 0) (hv0 : v.size ≠ 0) (hs : (u.size < 0) ↔ (v.size < 0))
    (fe : Fits (toQ u - toQ v) (PREC_TO_BITS prec)) :
    toQ (subMag prec (decide (u.size < 0)) u v) = toQ u - toQ v := by
  have hnu := hu.ne_nil hu0
  have hnv := hv.ne_nil hv0
  have hsg : sg v = sg u := by
    unfold sg
    by_cases h : u.size < 0
    · rw [if_pos h, if_pos (hs.mp h)]
    · rw [if_neg h, if_neg (fun h' => h (hs.mpr h'))]
  have hD : toQ u - toQ v = sg u * (qv u.d u.exp - qv v.d v.exp) := by rw [toQ_qv u, toQ_qv v, hsg]; ring
  have hsgc : sg u = (if (decide (u.size < 0)) = true then (-1 : ℚ) else 1) := by
    unfold sg; by_cases h : u.size < 0 <;> simp [h]
  rw [hD] at fe ⊢
  have fe' := fits_sg (sg_cases u) fe
  unfold subMag
  simp only
  by_cases hswap : u.exp < v.exp
  · simp only [hswap, decide_true, if_true]
    have hok := subCore_ok prec hp v.d u.d v.exp u.exp hv.1 hnv hv.2.2.1 hu.1 hnu (le_of_lt hswap)
    have fneg : Fits (qv v.d v.exp - qv u.d u.exp) (PREC_TO_BITS prec) := by
      have := fits_neg fe'; rwa [neg_sub] at this
    generalize subCore prec v.d v.exp u.d u.exp = r at *
    obtain ⟨rd, e, flip⟩ := r
    obtain ⟨_, _, _, z4, _, hwin⟩ := hok
    rw [fin_toQ]
    rcases exact_of_win prec (by omega) _ _ hwin fneg with h | h
    · simp only at h
      rw [h, hsgc]; by_cases h' : u.size < 0 <;> simp [h']
    · have hrd : rd = [] := z4 h
      have h2 : qv u.d u.exp - qv v.d v.exp = 0 := by linarith
      rw [hrd, qv_nil, h2]; simp
  · simp only [hswap, decide_false, if_false]
    have hok := subCore_ok prec hp u.d v.d u.exp v.exp hu.1 hnu hu.2.2.1 hv.1 hnv (by omega)
    generalize subCore prec u.d u.exp v.d v.exp = r at *
    obtain ⟨rd, e, flip⟩ := r
    obtain ⟨_, _, _, z4, _, hwin⟩ := hok
    rw [fin_toQ]
    rcases exact_of_win prec (by omega) _ _ hwin fe' with h | h
    · simp only at h
      rw [h, hsgc]; by_cases h' : u.size < 0 <;> simp [h']
    · have hrd : rd = [] := z4 h
      rw [hrd, qv_nil, h]; simp


theorem exact_of_set (prec : ℕ) (hp : 1 ≤ prec) (u : F) (hu : OpWF u) (f : Fits (toQ u) (PREC_TO_BITS prec)) :
    toQ (set prec u) = toQ u := (set_spec prec hp u hu).2.2 f

/-- mpf_sub is exact whenever both operands and the difference fit in p bits (all cases) -/
theorem sub_exact (prec : ℕ) (hp : 2 ≤ prec) (u v : F) (hu : OpWF u) (hv : OpWF v) (rIsU rIsV : Bool)
    (fu : Fits (toQ u) (PREC_TO_BITS prec)) (fv : Fits (toQ v) (PREC_TO_BITS prec))
    (fe : Fits (toQ u - toQ v) (PREC_TO_BITS prec)) :
    toQ (sub prec rIsU rIsV u v) = toQ u - toQ v := by
  unfold sub
  by_cases hu0 : u.size = 0
  · rw [if_pos hu0, toQ_of_size_zero (hu.d_nil hu0), zero_sub, ← toQ_neg_size v hv]
    cases rIsV
    · rw [neg_eq_set]
      exact exact_of_set prec (by omega) _ (OpWF_neg_size v hv) (by rw [toQ_neg_size v hv]; exact fits_neg fv)
    · rfl
  · rw [if_neg hu0]
    by_cases hv0 : v.size = 0
    · rw [if_pos hv0, toQ_of_size_zero (hv.d_nil hv0), sub_zero]
      cases rIsU
      · exact exact_of_set prec (by omega) u hu fu
      · rfl
    · rw [if_neg hv0]
      by_cases hs : (u.size < 0) ↔ (v.size < 0)
      · have hb : ((decide (u.size < 0)) != (decide (v.size < 0))) = false := by
          by_cases a : u.size < 0
          · simp [a, hs.mp a]
          · have b : ¬ v.size < 0 := fun h => a (hs.mpr h)
            simp [a, b]
        rw [hb]; simp only [Bool.false_eq_true, if_false]
        exact subMag_exact prec hp u v hu hv hu0 hv0 hs fe
      · have hb : ((decide (u.size < 0)) != (decide (v.size < 0))) = true := by
          by_cases a : u.size < 0 <;> by_cases b : v.size < 0 <;> simp [a, b] <;> exact hs (by simp [a, b])
        rw [hb]; simp only [if_true]
        have := addSame_exact prec (by omega) u {v with size := -v.size} hu (OpWF_neg_size v hv) hu0
          (by simpa using hv0) (neg_size_sign v hv0 u hs) fu (by rw [toQ_neg_size v hv]; exact fits_neg fv)
          (by rw [toQ_neg_size v hv, ← sub_eq_add_neg]; exact fe)
        rwa [toQ_neg_size v hv, ← sub_eq_add_neg] at this

/-- mpf_add is exact whenever both operands and the sum fit in p bits (all cases) -/
theorem add_exact (prec : ℕ) (hp : 2 ≤ prec) (u v : F) (hu : OpWF u) (hv : OpWF v) (rIsU rIsV : Bool)
    (fu : Fits (toQ u) (PREC_TO_BITS prec)) (fv : Fits (toQ v) (PREC_TO_BITS prec))
    (fe : Fits (toQ u + toQ v) (PREC_TO_BITS prec)) :
    toQ (add prec rIsU rIsV u v) = toQ u + toQ v := by
  unfold add
  by_cases hu0 : u.size = 0
  · rw [if_pos hu0, toQ_of_size_zero (hu.d_nil hu0), zero_add]
    cases rIsV
    · exact exact_of_set prec (by omega) v hv fv
    · rfl
  · rw [if_neg hu0]
    by_cases hv0 : v.size = 0
    · rw [if_pos hv0, toQ_of_size_zero (hv.d_nil hv0), add_zero]
      cases rIsU
      · exact exact_of_set prec (by omega) u hu fu
      · rfl
    · rw [if_neg hv0]
      by_cases hs : (u.size < 0) ↔ (v.size < 0)
      · have hb : ((decide (u.size < 0)) != (decide (v.size < 0))) = false := by
          by_cases a : u.size < 0
          · simp [a, hs.mp a]
          · have b : ¬ v.size < 0 := fun h => a (hs.mpr h)
            simp [a, b]
        rw [hb]; simp only [Bool.false_eq_true, if_false]
        exact addSame_exact prec (by omega) u v hu hv hu0 hv0 hs fu fv fe
      · have hb : ((decide (u.size < 0)) != (decide (v.size < 0))) = true := by
          by_cases a : u.size < 0 <;> by_cases b : v.size < 0 <;> simp [a, b] <;> exact hs (by simp [a, b])
        rw [hb]; simp only [if_true]
        have := subMag_exact prec hp u {v with size := -v.size} hu (OpWF_neg_size v hv) hu0
          (by simpa using hv0) (neg_size_sign v hv0 u hs) (by rw [toQ_neg_size v hv, sub_neg_eq_add]; exact fe)
        rwa [toQ_neg_size v hv, sub_neg_eq_add] at this


/-! ### shifts of long operands -/

theorem top_top (n : ℕ) (d : List Nat) : top n (top n d) = top n d :=
  top_of_le (by rw [top_length]; omega)

/-- the operand truncated to its n most significant limbs (what the shifts and copies read) -/
def truncOp (n : ℕ) (u : F) : F :=
  ⟨u.prec, if u.size ≥ 0 then ((top n u.d).length : ℤ) else -((top n u.d).length : ℤ), u.exp, top n u.d⟩

theorem truncOp_spec (n prec : ℕ) (hn1 : 1 ≤ prec) (hn : prec ≤ n) (u : F) (hu : OpWF u) (h0 : u.size ≠ 0) :
    OpWF (truncOp n u) ∧ (truncOp n u).size ≠ 0 ∧ ((truncOp n u).size ≥ 0 ↔ u.size ≥ 0) ∧
    (truncOp n u).d.length ≤ n ∧
    |toQ (truncOp n u) - toQ u| < eps prec * |toQ u| := by
  have hne := hu.ne_nil h0
  obtain ⟨t1, t2, t3, t4, _⟩ := top_facts n (by omega) u.d hu.1 hne hu.2.2.1
  have hlp : 0 < (top n u.d).length := List.length_pos_of_ne_nil t2
  have hsz : (truncOp n u).size ≠ 0 := by
    unfold truncOp; dsimp only
    by_cases h : u.size ≥ 0
    · rw [if_pos h]; omega
    · rw [if_neg h]; omega
  refine ⟨⟨t1, ?_, t3, fun h => absurd h hsz⟩, hsz, ?_, by unfold truncOp; dsimp only; rw [t4]; omega, ?_⟩
  · unfold truncOp; dsimp only
    by_cases h : u.size ≥ 0
    · rw [if_pos h]; simp
    · rw [if_neg h]; simp
  · unfold truncOp; dsimp only
    by_cases h : u.size ≥ 0
    · rw [if_pos h]; constructor <;> intro <;> omega
    · rw [if_neg h]; constructor <;> intro <;> omega
  · have hq : toQ (truncOp n u) = (if u.size ≥ 0 then (1 : ℚ) else -1) * qv (top n u.d) u.exp := by
      unfold truncOp; rw [toQ_mk, mul_assoc]; rfl
    have hq2 : toQ u = (if u.size ≥ 0 then (1 : ℚ) else -1) * qv u.d u.exp := by rw [toQ_def', mul_assoc]; rfl
    have hσ : |(if u.size ≥ 0 then (1 : ℚ) else -1)| = 1 := by by_cases h : u.size ≥ 0 <;> simp [h]
    rw [hq, hq2, ← mul_sub, abs_mul, abs_mul, hσ, one_mul, one_mul]
    obtain ⟨b1, b2⟩ := qv_top_lt n u.d u.exp hu.1
    have hX := qv_ge u.d u.exp hne hu.2.2.1
    have hXpos : 0 < qv u.d u.exp := lt_of_lt_of_le (zpow_pos Bq_pos _) hX
    have hQ : (0 : ℚ) < (B : ℚ) ^ (prec - 1) := pow_pos Bq_pos _
    rw [eps_eq, abs_of_pos hXpos, abs_sub_comm, abs_of_nonneg (by linarith), div_mul_eq_mul_div, lt_div_iff₀ hQ]
    have h1 : (B : ℚ) ^ (u.exp - (n : ℤ)) * (B : ℚ) ^ (prec - 1) ≤ (B : ℚ) ^ (u.exp - 1) := by
      rw [← zpow_natCast, ← zpow_add₀ Bq_ne]; exact zpow_le_zpow_B (by omega)
    have := mul_lt_mul_of_pos_right b2 hQ
    nlinarith

/-- mpf_mul_2exp for an operand of any length: the shift is exact on the operand truncated to prec (or prec+1) limbs -/
theorem mul_2exp_trunc (prec : ℕ) (u : F) (e : ℕ) (n : ℕ) (hn : n = if e % 64 = 0 then prec + 1 else prec)
    (h0 : u.size ≠ 0) (hs : (truncOp n u).size ≠ 0) (hsg : (truncOp n u).size ≥ 0 ↔ u.size ≥ 0) :
    mul_2exp prec (truncOp n u) e = mul_2exp prec u e ∧ div_2exp prec (truncOp n u) e = div_2exp prec u e := by
  have hd : (truncOp n u).d = top n u.d := rfl
  have he : (truncOp n u).exp = u.exp := rfl
  have hdec : (if (truncOp n u).size ≥ 0 then (1 : ℤ) else 0) = (if u.size ≥ 0 then 1 else 0) := by
    by_cases h : u.size ≥ 0
    · rw [if_pos h, if_pos (hsg.mpr h)]
    · rw [if_neg h, if_neg (fun h' => h (hsg.mp h'))]
  constructor
  · unfold mul_2exp
    rw [if_neg hs, if_neg h0]
    by_cases h64 : e % 64 = 0
    · rw [if_pos h64] at hn; subst hn
      simp only [h64, if_true, hd, he, top_top]
      by_cases h : u.size ≥ 0
      · rw [if_pos h, if_pos (hsg.mpr h)]
      · rw [if_neg h, if_neg (fun h' => h (hsg.mp h'))]
    · rw [if_neg h64] at hn; subst hn
      simp only [h64, if_false, hd, he, top_top]
      by_cases h : u.size ≥ 0
      · simp only [if_pos h, if_pos (hsg.mpr h)]
      · simp only [if_neg h, if_neg (fun h' => h (hsg.mp h'))]
  · unfold div_2exp
    rw [if_neg hs, if_neg h0]
    by_cases h64 : e % 64 = 0
    · rw [if_pos h64] at hn; subst hn
      simp only [h64, if_true, hd, he, top_top]
      by_cases h : u.size ≥ 0
      · rw [if_pos h, if_pos (hsg.mpr h)]
      · rw [if_neg h, if_neg (fun h' => h (hsg.mp h'))]
    · rw [if_neg h64] at hn; subst hn
      simp only [h64, if_false, hd, he, top_top]
      by_cases h : u.size ≥ 0
      · simp only [if_pos h, if_pos (hsg.mpr h)]
      · simp only [if_neg h, if_neg (fun h' => h (hsg.mp h'))]


end Mpir.Mpf
