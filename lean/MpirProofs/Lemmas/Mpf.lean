/- Helper lemmas for the mpf model (Mpir/Model/Mpf.lean): limb-vector facts (`toLimbs`, `top`,
   top-limb bounds), the abstraction `toQ : F → ℚ`, and the integer inequalities behind the
   accuracy theorems of Props/C13.lean. -/
import MpirProofs.Lemmas.Base
import Mpir.Model.Mpf
import Mathlib.Tactic.Ring
import Mathlib.Tactic.Linarith
import Mathlib.Tactic.Positivity
import Mathlib.Tactic.FieldSimp
import Mathlib.Tactic.NormNum
import Mathlib.Tactic.Push
import Mathlib.Algebra.Order.Field.Power
import Mathlib.Data.Rat.Floor
namespace Mpir.Mpf
open Mpir

/-! ### limb vectors -/

theorem B_ge_two : 2 ≤ B := by rw [B_eq]; norm_num
theorem one_lt_B : 1 < B := by rw [B_eq]; norm_num
theorem Bpow_pos (n : Nat) : 0 < B ^ n := Nat.pos_of_ne_zero (pow_ne_zero _ (by rw [B_eq]; norm_num))

theorem toLimbs_length : ∀ (n v : Nat), (toLimbs n v).length = n
  | 0, _ => rfl
  | n + 1, v => by simp [toLimbs, toLimbs_length n]

theorem Limbs_toLimbs : ∀ (n v : Nat), Limbs (toLimbs n v)
  | 0, _ => Limbs_nil
  | n + 1, v => by
      simp only [toLimbs]
      exact Limbs_cons.mpr ⟨Nat.mod_lt _ B_pos, Limbs_toLimbs n _⟩

theorem val_toLimbs : ∀ (n v : Nat), val (toLimbs n v) = v % B ^ n
  | 0, v => by simp [toLimbs, Nat.mod_one]
  | n + 1, v => by
      simp only [toLimbs, val_cons, val_toLimbs n, pow_succ]
      rw [mul_comm (B ^ n) B, Nat.mod_mul]

theorem val_toLimbs_of_lt {n v : Nat} (h : v < B ^ n) : val (toLimbs n v) = v := by
  rw [val_toLimbs, Nat.mod_eq_of_lt h]

theorem top_length (n : Nat) (l : List Nat) : (top n l).length = min n l.length := by
  unfold top; simp; omega

theorem Limbs_top {l : List Nat} (h : Limbs l) (n : Nat) : Limbs (top n l) := Limbs_drop h _

/-- `l` = dropped low part + B^k · kept top part -/
theorem val_top (n : Nat) (l : List Nat) :
    val l = val (l.take (l.length - n)) + B ^ (l.length - n) * val (top n l) := by
  unfold top
  exact val_take_drop l _ (Nat.sub_le _ _)

theorem val_take_lt {l : List Nat} (h : Limbs l) (k : Nat) : val (l.take k) < B ^ k := by
  have := val_lt _ (Limbs_take h k)
  rw [List.length_take] at this
  exact lt_of_lt_of_le this (Nat.pow_le_pow_right B_pos (Nat.min_le_left _ _))

theorem top_of_le {n : Nat} {l : List Nat} (h : l.length ≤ n) : top n l = l := by
  unfold top; rw [Nat.sub_eq_zero_of_le h]; rfl

theorem getLast?_top {n : Nat} {l : List Nat} (hn : 0 < n) : (top n l).getLast? = l.getLast? := by
  unfold top
  by_cases hl : l = []
  · subst hl; simp
  · have : l.length - n < l.length := by
      have := List.length_pos_of_ne_nil hl; omega
    rw [List.getLast?_drop]; simp; omega

/-- a vector whose top limb is non-zero is at least B^(len-1) -/
theorem val_ge_of_top : ∀ (l : List Nat), l ≠ [] → l.getLast? ≠ some 0 → B ^ (l.length - 1) ≤ val l
  | [], h, _ => absurd rfl h
  | [x], _, h => by
      simp at h; simp; omega
  | x :: y :: ys, _, h => by
      have ih := val_ge_of_top (y :: ys) (by simp) (by simpa [List.getLast?_cons_cons] using h)
      simp only [List.length_cons, Nat.add_sub_cancel] at ih ⊢
      rw [val_cons, pow_succ]
      nlinarith [B_pos]

theorem val_pos_of_top {l : List Nat} (hne : l ≠ []) (h : l.getLast? ≠ some 0) : 0 < val l :=
  lt_of_lt_of_le (Bpow_pos _) (val_ge_of_top l hne h)

/-- conversely: value ≥ B^(len-1) forces a non-zero top limb -/
theorem top_ne_zero_of_val_ge : ∀ (l : List Nat), Limbs l → l ≠ [] → B ^ (l.length - 1) ≤ val l →
    l.getLast? ≠ some 0
  | [], _, h, _ => absurd rfl h
  | [x], _, _, h => by simp at h ⊢; omega
  | x :: y :: ys, hl, _, h => by
      have ⟨hx, hys⟩ := Limbs_cons.mp hl
      rw [List.getLast?_cons_cons]
      apply top_ne_zero_of_val_ge (y :: ys) hys (by simp)
      simp only [List.length_cons, Nat.add_sub_cancel] at h ⊢
      rw [val_cons, pow_succ] at h
      by_contra hc
      push Not at hc
      nlinarith [B_pos]

theorem getLast?_eq_topLimb (l : List Nat) (hne : l ≠ []) : l.getLast? = some (topLimb l) := by
  unfold topLimb
  cases h : l.getLast? with
  | none => exact absurd (List.getLast?_eq_none_iff.mp h) hne
  | some x => rfl


/-! ### abstraction -/

/-- the rational value of an mpf: ± val d · B^(exp - |size|) -/
def toQ (f : F) : ℚ :=
  (if f.size < 0 then -1 else 1) * (val f.d : ℚ) * (B : ℚ) ^ (f.exp - (f.d.length : ℤ))

/-- the property's relative error bound 2^(2-p), p = mpf_get_prec = 64·prec - 64 -/
def eps (prec : Nat) : ℚ := (2 : ℚ) ^ ((2 : ℤ) - (PREC_TO_BITS prec : ℤ))

theorem Bq_pos : (0 : ℚ) < (B : ℚ) := by exact_mod_cast B_pos
theorem Bq_ne : (B : ℚ) ≠ 0 := ne_of_gt Bq_pos
theorem Bq_eq : (B : ℚ) = 2 ^ 64 := by rw [B_eq]; norm_num

theorem toQ_mk (p : Nat) (c : Prop) [Decidable c] (e : Int) (l : List Nat) :
    toQ ⟨p, if c then (l.length : Int) else -(l.length : Int), e, l⟩ =
      (if c then 1 else -1) * (val l : ℚ) * (B : ℚ) ^ (e - (l.length : ℤ)) := by
  unfold toQ
  by_cases hc : c
  · simp [hc]
  · simp only [hc, if_false]
    by_cases hl : l = []
    · subst hl; simp
    · have : 0 < l.length := List.length_pos_of_ne_nil hl
      have h2 : -(l.length : Int) < 0 := by omega
      rw [if_pos h2]

theorem toQ_zero (p : Nat) : toQ (zero p) = 0 := by simp [toQ, zero]

theorem toQ_of_size_zero {f : F} (h : f.d = []) : toQ f = 0 := by simp [toQ, h]

/-- numerators over a common positive scale: an integer inequality gives the rational error bound -/
theorem rel_err_scale (R E : ℤ) (s : ℚ) (hs : 0 < s) (p : ℕ) (h : |R - E| * 2 ^ p < 4 * |E|) :
    |(R : ℚ) * s - (E : ℚ) * s| < (2 : ℚ) ^ ((2 : ℤ) - (p : ℤ)) * |(E : ℚ) * s| := by
  have h' : ((|R - E| * 2 ^ p : ℤ) : ℚ) < ((4 * |E| : ℤ) : ℚ) := by exact_mod_cast h
  push_cast at h'
  have e1 : (R : ℚ) * s - E * s = ((R : ℚ) - E) * s := by ring
  rw [e1, abs_mul, abs_mul, abs_of_pos hs]
  have e2 : (2 : ℚ) ^ ((2 : ℤ) - (p : ℤ)) = 4 / 2 ^ p := by
    rw [zpow_sub₀ (by norm_num : (2 : ℚ) ≠ 0)]; norm_num
  rw [e2]
  have hp : (0 : ℚ) < 2 ^ p := by positivity
  rw [div_mul_eq_mul_div, lt_div_iff₀ hp]
  nlinarith


/-! ### format rules of constructed results -/

theorem WF_mk {p : Nat} {c : Prop} [Decidable c] {e : Int} {l : List Nat}
    (hl : Limbs l) (ht : l.getLast? ≠ some 0) (hn : l.length ≤ p + 1) (hz : l = [] → e = 0) :
    WF ⟨p, if c then (l.length : Int) else -(l.length : Int), e, l⟩ := by
  refine ⟨hl, ?_, ?_, ht, ?_⟩
  · by_cases hc : c <;> simp [hc]
  · by_cases hc : c <;> simp [hc] <;> omega
  · intro h
    apply hz
    have h : (if c then (l.length : Int) else -(l.length : Int)) = 0 := h
    have h0 : l.length = 0 := by
      by_cases hc : c
      · rw [if_pos hc] at h; omega
      · rw [if_neg hc] at h; omega
    exact List.eq_nil_of_length_eq_zero h0

theorem WF_zero (p : Nat) : WF (zero p) := by
  refine ⟨Limbs_nil, rfl, by simp [zero], by simp [zero], fun _ => rfl⟩

theorem OpWF.d_nil {u : F} (hu : OpWF u) (h : u.size = 0) : u.d = [] :=
  List.eq_nil_of_length_eq_zero (by rw [hu.2.1, h]; rfl)

theorem OpWF.size_ne {u : F} (hu : OpWF u) (h : u.d ≠ []) : u.size ≠ 0 := by
  intro hs; exact h (hu.d_nil hs)

theorem OpWF.len_pos {u : F} (hu : OpWF u) (h : u.size ≠ 0) : 0 < u.d.length := by
  rw [hu.2.1]; omega

/-! ### natLimbs -/

theorem natLimbs_zero : natLimbs 0 = [] := by rw [natLimbs]; simp

theorem natLimbs_pos {v : Nat} (h : v ≠ 0) : natLimbs v = v % B :: natLimbs (v / B) := by
  rw [natLimbs]; simp [h]

theorem natLimbs_spec (v : Nat) :
    val (natLimbs v) = v ∧ Limbs (natLimbs v) ∧ (natLimbs v).getLast? ≠ some 0 ∧ (v = 0 → natLimbs v = []) := by
  induction v using Nat.strong_induction_on with
  | _ v ih =>
    by_cases h : v = 0
    · subst h; rw [natLimbs_zero]; simp [Limbs_nil]
    · rw [natLimbs_pos h]
      have hlt : v / B < v := Nat.div_lt_self (Nat.pos_of_ne_zero h) one_lt_B
      obtain ⟨i1, i2, i3, i4⟩ := ih _ hlt
      refine ⟨?_, Limbs_cons.mpr ⟨Nat.mod_lt _ B_pos, i2⟩, ?_, fun h0 => absurd h0 h⟩
      · rw [val_cons, i1]; exact Nat.mod_add_div v B
      · by_cases hq : v / B = 0
        · rw [i4 hq]
          have : v % B = v := Nat.mod_eq_of_lt ((Nat.div_eq_zero_iff.mp hq).resolve_left (by have := B_pos; omega))
          simp; omega
        · have hne : natLimbs (v / B) ≠ [] := by
            intro hnil; rw [hnil] at i1; simp at i1; exact hq i1.symm
          rw [List.getLast?_cons_of_ne_nil hne]; exact i3

end Mpir.Mpf
