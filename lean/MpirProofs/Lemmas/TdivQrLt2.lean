/- Helper lemmas for the model of mpn_tdiv_qr, part 8: the "numerator less than twice the denominator" branch assembled
   (tdiv_qr.c:155-369): after the `n2p[qn - 1] < h` step the quotient is at most one too large and never too small;
   the rest of the branch makes quotient and remainder exact. -/
import MpirProofs.Lemmas.TdivQrLt2Tail
namespace Mpir.TdivQr
open Mpir Mpir.DivWord Mpir.SbDiv

/-- tdiv_qr.c:276-313 on numbers.  Hypotheses: N = n2·W + nl, D = d2·W + dl (W = 2^(64-c)·B^i), the approximate quotient
    qp0 = ⌊n2/d2⌋ with remainder rem1, d2 normalised.  Conclusion: the state (q, r) after the step satisfies the identity
    N + q·dl = q·D + r·W + nl, q·D ≤ N + D, N < q·D + D, and r has qn limbs or qn+1 limbs with B^qn ≤ r < 2·B^qn
    (and, for c = 0, r < ⌊q·dl/B^(i+1)⌋ + B^qn). -/
theorem lt2Step2_inv (n d : List Nat) (i c qn : Nat) (qp0 rem1 d2 : List Nat) (n2v : Nat)
    (hd : Limbs d) (hqp0 : Limbs qp0) (hrem1 : Limbs rem1) (hd2 : Limbs d2) (hqn : 1 ≤ qn) (hc : c ≤ 63)
    (hi : i < d.length) (hlr1 : rem1.length = qn) (hld2 : d2.length = qn)
    (hWn : val n = n2v * (2 ^ (64 - c) * B ^ i) + (n.getD i 0 % 2 ^ (64 - c) * B ^ i + val (n.take i)))
    (hWd : val d = val d2 * (2 ^ (64 - c) * B ^ i) + (d.getD i 0 % 2 ^ (64 - c) * B ^ i + val (d.take i)))
    (hnl : n.getD i 0 % 2 ^ (64 - c) * B ^ i + val (n.take i) < 2 ^ (64 - c) * B ^ i)
    (hdl : d.getD i 0 % 2 ^ (64 - c) * B ^ i + val (d.take i) < 2 ^ (64 - c) * B ^ i)
    (hdiv : n2v = val qp0 * val d2 + val rem1) (hr1 : val rem1 < val d2) (hq1 : val qp0 < B ^ qn)
    (hnorm : B ^ qn ≤ 2 * val d2)
    (hqlo : qp0.getD (qn - 1) 0 * B ^ (qn - 1) ≤ val qp0)
    (hqhi : val qp0 < (qp0.getD (qn - 1) 0 + 1) * B ^ (qn - 1)) (hqtB : qp0.getD (qn - 1) 0 < B) :
    Limbs (lt2Step2 d (i + 1) c qn qp0 rem1 d2).1 ∧ (lt2Step2 d (i + 1) c qn qp0 rem1 d2).1.length = qp0.length ∧
    val (lt2Step2 d (i + 1) c qn qp0 rem1 d2).1 < B ^ qn ∧ Limbs (lt2Step2 d (i + 1) c qn qp0 rem1 d2).2 ∧
    val n + val (lt2Step2 d (i + 1) c qn qp0 rem1 d2).1 * (d.getD i 0 % 2 ^ (64 - c) * B ^ i + val (d.take i)) =
      val (lt2Step2 d (i + 1) c qn qp0 rem1 d2).1 * val d +
        val (lt2Step2 d (i + 1) c qn qp0 rem1 d2).2 * (2 ^ (64 - c) * B ^ i) +
        (n.getD i 0 % 2 ^ (64 - c) * B ^ i + val (n.take i)) ∧
    val (lt2Step2 d (i + 1) c qn qp0 rem1 d2).1 * val d ≤ val n + val d ∧
    val n < val (lt2Step2 d (i + 1) c qn qp0 rem1 d2).1 * val d + val d ∧
    ((lt2Step2 d (i + 1) c qn qp0 rem1 d2).2.length = qn ∨
      ((lt2Step2 d (i + 1) c qn qp0 rem1 d2).2.length = qn + 1 ∧ B ^ qn ≤ val (lt2Step2 d (i + 1) c qn qp0 rem1 d2).2 ∧
       val (lt2Step2 d (i + 1) c qn qp0 rem1 d2).2 < 2 * B ^ qn ∧
       (c = 0 → val (lt2Step2 d (i + 1) c qn qp0 rem1 d2).2 <
          val (lt2Step2 d (i + 1) c qn qp0 rem1 d2).1 * val (d.take (i + 1)) / B ^ (i + 1) + B ^ qn))) := by
  obtain ⟨k, hk⟩ : ∃ k, qn = k + 1 := ⟨qn - 1, by omega⟩
  obtain ⟨hxB, hxlo, hxhi⟩ := lt2X_spec d i c hd hi hc
  obtain ⟨hrlo, hrhi⟩ := top_bounds rem1 k hrem1 (by rw [hlr1, hk])
  have hW : 2 ^ (64 - c) * B ^ i * 2 ^ c = B * B ^ i := by
    have := Mpir.B_split c (by omega : c ≤ 64)
    rw [this]; ring
  have hp : 0 < 2 ^ c := by positivity
  have hd2lt := val_lt d2 hd2
  rw [hld2] at hd2lt
  have hPk := Bpow_pos k
  have hBK : B ^ qn = B * B ^ k := by rw [hk, pow_succ]; ring
  have h3K : 3 * B ^ k ≤ val d2 := by
    have h6 : 6 * B ^ k ≤ B * B ^ k := Nat.mul_le_mul_right _ (by decide)
    omega
  -- h = ⌊x·qt/B⌋
  have hh1 : lt2X d (i + 1) c * qp0.getD (qn - 1) 0 / B * B ≤ lt2X d (i + 1) c * qp0.getD (qn - 1) 0 :=
    Nat.div_mul_le_self _ _
  have hh2 : lt2X d (i + 1) c * qp0.getD (qn - 1) 0 < (lt2X d (i + 1) c * qp0.getD (qn - 1) 0 / B + 1) * B := by
    have := Nat.div_add_mod (lt2X d (i + 1) c * qp0.getD (qn - 1) 0) B
    have hm := Nat.mod_lt (lt2X d (i + 1) c * qp0.getD (qn - 1) 0) B_pos
    rw [Nat.add_mul, Nat.one_mul, Nat.mul_comm _ B]; omega
  have hhe : (umul_ppmm (lt2X d (i + 1) c) (qp0.getD (qn - 1) 0)).1 =
      lt2X d (i + 1) c * qp0.getD (qn - 1) 0 / B := rfl
  have hk1 : qn - 1 = k := by omega
  rw [hk1] at hqlo hqhi hqtB hh1 hh2 hhe
  have hid1 := lt2_identity (val n) (val d) _ n2v (val d2) _ _ (val qp0) (val rem1) hWn hWd hdiv
  rcases lt2Step2_spec d (i + 1) c qn qp0 rem1 d2 hqp0 hrem1 hd2 hlr1 hld2 (by rw [hk1]; exact hqlo) with
    ⟨hf, sv, sl, slen, rv, rl, rlen⟩ | ⟨hnf, hst⟩
  · -- the test fires
    rw [hk1, hhe] at hf
    generalize lt2Step2 d (i + 1) c qn qp0 rem1 d2 = st at *
    have hdiv2 : n2v = val st.1 * val d2 + val st.2 := by
      have : val qp0 * val d2 = val st.1 * val d2 + val d2 := by rw [← sv]; ring
      omega
    have hid2 := lt2_identity (val n) (val d) _ n2v (val d2) _ _ (val st.1) (val st.2) hWn hWd hdiv2
    have hfire := lt2_fire B (B ^ k) (B ^ i) (2 ^ c) (2 ^ (64 - c) * B ^ i) _ _ (val qp0) (val rem1)
      (qp0.getD k 0) (rem1.getD k 0) (lt2X d (i + 1) c) _ hW hp hh1 (by omega) hrhi hqlo hnl hxlo
    have hlow := lt2_lower2 (val n) (val d) _ n2v (val d2) _ _ (val qp0) (val rem1) (B ^ qn) hWn hWd hdiv hdl hq1 hnorm
    have hqD : val qp0 * val d = val st.1 * val d + val d := by rw [← sv]; ring
    refine ⟨sl, slen, by omega, rl, hid2, by omega, by omega, ?_⟩
    rcases rlen with h | ⟨h1, h2⟩
    · exact Or.inl h
    · refine Or.inr ⟨h1, h2, by omega, ?_⟩
      intro hc0
      subst hc0
      rw [pow_zero, Nat.mul_one] at hxlo
      have hsm := lt2_fire_small B (B ^ k) (B ^ i) _ (val qp0) (val rem1) (qp0.getD k 0) (rem1.getD k 0)
        (lt2X d (i + 1) 0) _ B_pos hh1 (by omega) hrhi hqlo (Nat.le_of_lt hxB) hxlo
      have hdB : d.getD i 0 % 2 ^ (64 - 0) = d.getD i 0 := Nat.mod_eq_of_lt (limb_getD hd i)
      rw [hdB, ← val_take_succ d i hi] at hsm
      have hq : val qp0 - 1 = val st.1 := by omega
      rw [hq, ← pow_succ'] at hsm
      have : val rem1 ≤ val st.1 * val (d.take (i + 1)) / B ^ (i + 1) :=
        (Nat.le_div_iff_mul_le (Bpow_pos _)).mpr hsm
      omega
  · -- the test does not fire
    rw [hk1, hhe] at hnf
    rw [hst]
    have hnofire := lt2_nofire B (B ^ k) (B ^ i) (2 ^ c) (2 ^ (64 - c) * B ^ i) _ (val d2) (val qp0) (val rem1)
      (qp0.getD k 0) (rem1.getD k 0) (lt2X d (i + 1) c) _ hW hp hh2 hqtB hxB hnf hrlo hqhi hxhi h3K
    have hup := lt2_upper (val n) (val d) _ n2v (val d2) _ _ (val qp0) (val rem1) hWn hWd hdiv hr1 hnl
    refine ⟨hqp0, rfl, hq1, hrem1, hid1, ?_, hup, Or.inl hlr1⟩
    -- q1·D ≤ N + D from q1·dl ≤ (r1 + d2)·W + dl
    have e : (val rem1 + val d2) * (2 ^ (64 - c) * B ^ i) =
        val rem1 * (2 ^ (64 - c) * B ^ i) + val d2 * (2 ^ (64 - c) * B ^ i) := by ring
    show val qp0 * val d ≤ val n + val d
    omega

/-- the whole branch -/
theorem lt2_spec (T : Thresholds) (n d : List Nat) (hn : Limbs n) (hd : Limbs d) (hdn : 3 ≤ d.length)
    (hnn : d.length ≤ n.length) (htop : d.getD (d.length - 1) 0 ≠ 0) (adjust : Nat)
    (hadj : adjust = if n.getD (n.length - 1) 0 ≥ d.getD (d.length - 1) 0 then 1 else 0)
    (hlt : n.length + adjust < 2 * d.length) : Spec n d (lt2 T n d adjust) := by
  have hadj01 : adjust = 0 ∨ adjust = 1 := by rw [hadj]; split <;> simp
  obtain ⟨hdge, hfit⟩ := fit_of_adjust n d hn hd (by omega) hnn htop adjust hadj
  have hfitT := fit_top n d hn (by omega) htop adjust hadj
  by_cases hq0 : n.length - d.length + adjust = 0
  · -- qn = 0: the numerator is smaller than the denominator
    have hm : lt2 T n d adjust = ([0], n.take d.length, true) := by
      unfold lt2; simp only []; rw [if_pos hq0]
    rw [hm]
    have hnd : n.length = d.length := by omega
    have ha0 : adjust = 0 := by omega
    rw [take_all n _ hnd]
    subst ha0
    rw [hnd, Nat.add_zero, Nat.sub_self, pow_zero, Nat.mul_one] at hfit
    refine spec_intro n d _ _ ?_ (Nat.mod_eq_of_lt hfit).symm (Limbs_cons.mpr ⟨B_pos, Limbs_nil⟩) (by simp [hnd]) hn hnd
    rw [Nat.div_eq_of_lt hfit]; simp [val_cons]
  · obtain ⟨qn, hqn⟩ : ∃ qn, n.length - d.length + adjust = qn := ⟨_, rfl⟩
    have hqn1 : 1 ≤ qn := by omega
    obtain ⟨i, hi⟩ : ∃ i, d.length - qn = i + 1 := ⟨d.length - qn - 1, by omega⟩
    have hdn' : d.length = qn + (i + 1) := by omega
    have hnn' : n.length + adjust = d.length + qn := by omega
    have hin : i < n.length := by omega
    have hid : i < d.length := by omega
    unfold lt2
    simp only []
    rw [hqn, if_neg (by omega), hi]
    -- extraction
    have hexs := lt2Extract_spec n d hn hd qn i adjust hqn1 hdn' hnn' hadj01 htop hfitT
    generalize lt2Extract n d adjust qn (i + 1) = ex at *
    obtain ⟨hc63, hd2v, hd2l, hd2len, hd2n, hn2v, hn2l, hn2len, hd2top, hdtopB⟩ := hexs
    obtain ⟨hWd, hWdlt⟩ := split_W d i ex.1 hid hd (by omega)
    obtain ⟨hWn, hWnlt⟩ := split_W n i ex.1 hin hn (by omega)
    rw [← hd2v] at hWd
    rw [← hn2v] at hWn
    have hWc : 2 ^ (64 - ex.1) * B ^ i * 2 ^ ex.1 = B ^ (i + 1) := by
      have := Mpir.B_split ex.1 (by omega : ex.1 ≤ 64)
      rw [pow_succ, this]; ring
    have hWpos : 0 < 2 ^ (64 - ex.1) * B ^ i := Nat.mul_pos (by positivity) (Bpow_pos i)
    -- the extracted numerator fits
    have hfitE : val ex.2.2 < val ex.2.1 * B ^ qn := by
      have e1 : n.length + adjust - 1 = (qn - 1) + qn + (i + 1) := by omega
      rw [e1, pow_add, pow_add, ← hWc] at hfitT
      have h1 : val ex.2.2 * (2 ^ (64 - ex.1) * B ^ i) ≤ val n := by omega
      have h2 : val ex.2.2 * (2 ^ (64 - ex.1) * B ^ i) <
          d.getD (d.length - 1) 0 * 2 ^ ex.1 * B ^ (qn - 1) * B ^ qn * (2 ^ (64 - ex.1) * B ^ i) := by
        calc val ex.2.2 * (2 ^ (64 - ex.1) * B ^ i) ≤ val n := h1
          _ < d.getD (d.length - 1) 0 * (B ^ (qn - 1) * B ^ qn * (2 ^ (64 - ex.1) * B ^ i * 2 ^ ex.1)) := hfitT
          _ = d.getD (d.length - 1) 0 * 2 ^ ex.1 * B ^ (qn - 1) * B ^ qn * (2 ^ (64 - ex.1) * B ^ i) := by ring
      have h3 := Nat.lt_of_mul_lt_mul_right h2
      calc val ex.2.2 < d.getD (d.length - 1) 0 * 2 ^ ex.1 * B ^ (qn - 1) * B ^ qn := h3
        _ ≤ val ex.2.1 * B ^ qn := Nat.mul_le_mul_right _ hd2top
    -- the approximate quotient
    have hests := lt2Estimate_spec T ex.2.2 ex.2.1 qn hqn1 hn2l hd2l hn2len hd2len hd2n hfitE
    generalize lt2Estimate T ex.2.2 ex.2.1 qn = est at *
    obtain ⟨hq1v, hr1v, hq1l, hq1len, hr1l, hr1len, hestok⟩ := hests
    have hd20 : 0 < val ex.2.1 := by have := Bpow_pos qn; omega
    have hdiv : val ex.2.2 = val est.1 * val ex.2.1 + val est.2.1 := by
      rw [hq1v, hr1v, Nat.mul_comm]; exact (Nat.div_add_mod _ _).symm
    have hr1lt : val est.2.1 < val ex.2.1 := by rw [hr1v]; exact Nat.mod_lt _ hd20
    -- qp with the limb zeroed at tdiv_qr.c:200
    have hpadl : Limbs (if adjust = 0 then [0] else ([] : List Nat)) := by
      split
      · exact Limbs_cons.mpr ⟨B_pos, Limbs_nil⟩
      · exact Limbs_nil
    have hpadv : val (if adjust = 0 then [0] else ([] : List Nat)) = 0 := by split <;> simp [val_cons]
    have hpadlen : (if adjust = 0 then [0] else ([] : List Nat)).length = 1 - adjust := by
      rcases hadj01 with h | h <;> simp [h]
    have hqp0l : Limbs (est.1 ++ if adjust = 0 then [0] else []) := Limbs_append.mpr ⟨hq1l, hpadl⟩
    have hqp0v : val (est.1 ++ if adjust = 0 then [0] else []) = val est.1 := by
      rw [val_append, hpadv, Nat.mul_zero, Nat.add_zero]
    have hqp0len : (est.1 ++ if adjust = 0 then [0] else []).length = n.length - d.length + 1 := by
      rw [List.length_append, hq1len, hpadlen]; omega
    have hqp0top : (est.1 ++ if adjust = 0 then [0] else []).getD (qn - 1) 0 = est.1.getD (qn - 1) 0 := by
      simp only [List.getD_eq_getElem?_getD]
      rw [List.getElem?_append_left (by omega)]
    obtain ⟨hqlo, hqhi⟩ := top_bounds est.1 (qn - 1) hq1l (by omega)
    have hq1lt := val_lt est.1 hq1l
    rw [hq1len] at hq1lt
    -- the step against the first ignored limb
    have hinv := lt2Step2_inv n d i ex.1 qn (est.1 ++ if adjust = 0 then [0] else []) est.2.1 ex.2.1 (val ex.2.2)
      hd hqp0l hr1l hd2l hqn1 hc63 hid hr1len hd2len hWn hWd hWnlt hWdlt (by rw [hqp0v]; exact hdiv) hr1lt
      (by rw [hqp0v]; exact hq1lt) hd2n (by rw [hqp0v, hqp0top]; exact hqlo) (by rw [hqp0v, hqp0top]; exact hqhi)
      (by rw [hqp0top]; exact limb_getD hq1l _)
    generalize lt2Step2 d (i + 1) ex.1 qn (est.1 ++ if adjust = 0 then [0] else []) est.2.1 ex.2.1 = st at *
    obtain ⟨hstl, hstlen, hstlt, hstrl, hsid, hslo, hshi, hslr⟩ := hinv
    rw [hestok]
    exact lt2Tail_spec n d i ex.1 qn st.1 st.2 hn hd hstl hstrl hqn1 hc63 hdn' hin (by rw [hstlen, hqp0len])
      (by rw [hstlen, hqp0len]; omega) hstlt hsid hslo hshi hslr

end Mpir.TdivQr
