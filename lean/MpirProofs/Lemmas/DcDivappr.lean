/-
  Lemmas for C02 part c02_dcappr: the contract of the repaired mpn_dc_divappr_q (value-level model
  Mpir/Model/DcDivappr.lean, rep = true).  INVARIANT of every call on its window W (2n+1 limbs) and cut divisor D (n+1
  limbs, normalised, W < D·B^n): the n quotient limbs Q and the three limbs r3 = np[dn-2 .. dn] it leaves satisfy
      W < (Q + 1)·D            (Q is not below ⌊W/D⌋)
      ⌊W/B^(n-1)⌋ = tS D Q n + r3   (r3 is the truncated remainder, in particular it is NON-NEGATIVE)
  with tS the truncated product of Lemmas/DcDivapprArith.lean; since Q·D - B^(n-1)·tS D Q n < n·B^n ≤ D this gives
  Q ≤ ⌊W/D⌋ + 1.  Leaf: Lemmas/SbDivQRem.lean (`sbLeaf_spec`).
-/
import MpirProofs.Lemmas.SbDivQRem
import MpirProofs.Lemmas.DcDiv
namespace Mpir.DcDivappr
open Mpir Mpir.DcDiv

theorem B2' : B ^ 2 = B * B := by ring
theorem B3' : B ^ 3 = B * B * B := by ring

theorem helperLoop_eq (D : Nat) : ∀ (k x : Nat), x < B ^ 3 → helperLoop D k x = (x + sumd D k) % B ^ 3
  | 0, x, hx => by
    show x = (x + 0) % B ^ 3
    rw [Nat.add_zero, Nat.mod_eq_of_lt hx]
  | k + 1, x, _ => by
    show helperLoop D k ((x + D / B ^ k % B) % B ^ 3) = (x + (sumd D k + D / B ^ k % B)) % B ^ 3
    rw [helperLoop_eq D k _ (Nat.mod_lt _ (Bpow_pos 3)), Nat.add_mod, Nat.mod_mod, ← Nat.add_mod]
    congr 1; ring

/-- __divappr_helper (value level) leaves, modulo B³, window + ⌊D/B^(k-1)⌋ + Σ_{i<k-1} d_i - B·D, i.e. the truncated
    remainder of the all-ones quotient of k limbs -/
theorem helper3_spec (k w0 Wt D u t : Nat) (hk : 1 ≤ k) (hw0 : w0 < B) (hWt : Wt < B ^ (k + 1)) (hD : D < B ^ (k + 1))
    (hid : w0 + B * Wt + D / B ^ (k - 1) + sumd D (k - 1) + u * B ^ 3 = B * D + t) (ht : t < B ^ 3) :
    helper3 k w0 Wt D = t := by
  have hB := B_pos
  obtain ⟨j, rfl⟩ : ∃ j, k = j + 1 := ⟨k - 1, by omega⟩
  rw [Nat.add_sub_cancel] at hid
  unfold helper3
  simp only []
  have hs := subN_spec (j + 1 + 1) Wt D hWt hD.le
  have hdk : D / B ^ (j + 1) < B := by
    rw [Nat.div_lt_iff_lt_mul (Bpow_pos _), ← pow_succ']; exact hD
  have hsd : sumd D (j + 1) = sumd D j + D / B ^ j % B := rfl
  have hDj := SbDivQ.div_succ_split D j
  have hx : w0 + B * (((subN (j + 1 + 1) Wt D).1 % B ^ 2 + D / B ^ (j + 1) % B) % B ^ 2) < B ^ 3 := by
    have := Nat.mod_lt ((subN (j + 1 + 1) Wt D).1 % B ^ 2 + D / B ^ (j + 1) % B) (Bpow_pos 2)
    rw [B2'] at this ⊢
    rw [B3']
    nlinarith
  rw [helperLoop_eq D (j + 1) _ hx, hsd, Nat.mod_eq_of_lt hdk]
  obtain ⟨h1, _, h3⟩ := hs
  have e : B ^ (j + 1 + 1) = B * B * B ^ j := by rw [pow_succ, pow_succ]; ring
  rw [e] at h1
  generalize (subN (j + 1 + 1) Wt D).1 = a at *
  generalize (subN (j + 1 + 1) Wt D).2 = c at *
  generalize D / B ^ (j + 1) = dk at *
  generalize D / B ^ j % B = dj at *
  generalize D / B ^ j = Dj at *
  generalize sumd D j = S at *
  obtain ⟨E, hE⟩ : ∃ E, E = c * B ^ j := ⟨_, rfl⟩
  have h1' : a + D = Wt + B * B * E := by rw [hE]; linarith
  clear h1 hE hWt hD e hx hsd
  rw [B2', B3'] at *
  simp only [B_eq] at *
  omega

/-! ## the fix-up loop dc_divappr_q.c:127-128 -/

/-- below a multiple of B^(i+1) all digits up to i are B-1 -/
theorem digit_dec_low (A i : Nat) (hA : 1 ≤ A) : (A * B ^ (i + 1) - 1) / B ^ i % B = B - 1 := by
  have hB := B_pos
  have hP := Bpow_pos i
  obtain ⟨a, rfl⟩ : ∃ a, A = a + 1 := ⟨A - 1, by omega⟩
  have e : (a + 1) * B ^ (i + 1) - 1 = (a * B + (B - 1)) * B ^ i + (B ^ i - 1) := by
    have h := pow_succ_sub_one i
    have h2 : (a + 1) * B ^ (i + 1) = a * B ^ (i + 1) + B ^ (i + 1) := by ring
    have h3 : a * B ^ (i + 1) = a * B * B ^ i := by rw [pow_succ]; ring
    have h4 : (a * B + (B - 1)) * B ^ i = a * B * B ^ i + (B - 1) * B ^ i := by ring
    have h5 := Bpow_pos (i + 1)
    omega
  rw [e, div_of_split _ _ _ (by omega), mod_of_split _ _ _ (by omega)]

theorem digit_dec_at (Q1 z : Nat) (h1 : Q1 % B ≠ 0) : (Q1 * B ^ z - 1) / B ^ z % B ≠ B - 1 := by
  have hB := B_pos
  have hP := Bpow_pos z
  have hQ1 : 1 ≤ Q1 := by
    by_contra hc
    have : Q1 = 0 := by omega
    rw [this] at h1; simp at h1
  have e : Q1 * B ^ z - 1 = (Q1 - 1) * B ^ z + (B ^ z - 1) := by
    obtain ⟨q, rfl⟩ : ∃ q, Q1 = q + 1 := ⟨Q1 - 1, by omega⟩
    rw [Nat.add_sub_cancel]
    have : (q + 1) * B ^ z = q * B ^ z + B ^ z := by ring
    omega
  rw [e, div_of_split _ _ _ (by omega)]
  have := Nat.div_add_mod Q1 B
  have := Nat.mod_lt Q1 hB
  simp only [B_eq] at *
  omega

/-- the fix-up loop adds the divisor limbs d_(sh-2), d_(sh-3), … while the decremented quotient limbs are B-1: with z
    such limbs the (sl+3)-limb number (X, cy) grows by Σ_{i<z} d_(sh-2-i) modulo B^(sl+3) -/
theorem fixLoop_run (sl sh D Qd z : Nat) (hz : z ≤ sh - 1) (hlow : ∀ i, i < z → Qd / B ^ i % B = B - 1)
    (hat : z < sh - 1 → Qd / B ^ z % B ≠ B - 1) :
    ∀ (j f i X cy : Nat), i + j = z → j ≤ f → X < B ^ (sl + 2) → cy < B →
      ∃ k', (fixLoop sl sh D Qd f i X cy).1 < B ^ (sl + 2) ∧ (fixLoop sl sh D Qd f i X cy).2 < B ∧
        (fixLoop sl sh D Qd f i X cy).1 + B ^ (sl + 2) * (fixLoop sl sh D Qd f i X cy).2 + k' * (B ^ (sl + 2) * B)
          = X + B ^ (sl + 2) * cy + sumd (D / B ^ (sh - 1 - z)) j
  | 0, f, i, X, cy, hij, _, hX, hcy => by
    have hiz : i = z := by omega
    subst hiz
    refine ⟨0, ?_⟩
    match f with
    | 0 => exact ⟨hX, hcy, by simp [fixLoop, sumd]⟩
    | f + 1 =>
      have hc : ¬ (i < sh - 1 ∧ Qd / B ^ i % B = B - 1) := by
        rintro ⟨h1, h2⟩; exact hat h1 h2
      unfold fixLoop
      rw [if_neg hc]
      exact ⟨hX, hcy, by simp [sumd]⟩
  | j + 1, f, i, X, cy, hij, hjf, hX, hcy => by
    have hB := B_pos
    obtain ⟨f', rfl⟩ : ∃ f', f = f' + 1 := ⟨f - 1, by omega⟩
    have hc : i < sh - 1 ∧ Qd / B ^ i % B = B - 1 := ⟨by omega, hlow i (by omega)⟩
    unfold fixLoop
    rw [if_pos hc]
    simp only []
    have hv : D / B ^ (sh - 2 - i) % B < B := Nat.mod_lt _ hB
    have hvle : D / B ^ (sh - 2 - i) % B ≤ B ^ (sl + 2) := by
      have : B ^ 1 ≤ B ^ (sl + 2) := Nat.pow_le_pow_right hB (by omega)
      rw [pow_one] at this; omega
    obtain ⟨a1, a2, a3⟩ := addN_spec (sl + 2) X (D / B ^ (sh - 2 - i) % B) hX hvle
    obtain ⟨k', r1, r2, r3⟩ := fixLoop_run sl sh D Qd z hz hlow hat j f' (i + 1)
      (addN (sl + 2) X (D / B ^ (sh - 2 - i) % B)).1 ((cy + (addN (sl + 2) X (D / B ^ (sh - 2 - i) % B)).2) % B)
      (by omega) (by omega) a2 (Nat.mod_lt _ hB)
    have ev : D / B ^ (sh - 2 - i) % B = D / B ^ (sh - 1 - z) / B ^ j % B := by
      rw [div_pow_add]; congr 3; omega
    have hs : sumd (D / B ^ (sh - 1 - z)) (j + 1) = sumd (D / B ^ (sh - 1 - z)) j + D / B ^ (sh - 1 - z) / B ^ j % B := rfl
    rw [hs, ← ev]
    have hdm := Nat.div_add_mod (cy + (addN (sl + 2) X (D / B ^ (sh - 2 - i) % B)).2) B
    refine ⟨k' + (cy + (addN (sl + 2) X (D / B ^ (sh - 2 - i) % B)).2) / B, r1, r2, ?_⟩
    generalize (fixLoop sl sh D Qd f' (i + 1) _ _).1 = R1 at *
    generalize (fixLoop sl sh D Qd f' (i + 1) _ _).2 = R2 at *
    generalize (addN (sl + 2) X (D / B ^ (sh - 2 - i) % B)).1 = A1 at *
    generalize (addN (sl + 2) X (D / B ^ (sh - 2 - i) % B)).2 = A2 at *
    generalize D / B ^ (sh - 2 - i) % B = v at *
    generalize sumd (D / B ^ (sh - 1 - z)) j = S at *
    generalize B ^ (sl + 2) = P at *
    generalize (cy + A2) / B = c' at *
    generalize (cy + A2) % B = m' at *
    have : P * (B * c' + m') = P * (cy + A2) := by rw [hdm]
    nlinarith

/-! ## the correction loop dc_divappr_q.c:116-129 -/

theorem hiCorr_stop (rep : Bool) (sl sh D qn0 : Nat) (st : Nat × Nat × Nat × Nat × Nat) (h : st.2.2.2.1 < B / 2) :
    ∀ f, hiCorr rep sl sh D qn0 f st = st
  | 0 => rfl
  | f + 1 => by
    unfold hiCorr
    rw [if_neg (by omega)]

theorem hiCorr_succ (rep : Bool) (sl sh D qn0 f : Nat) (st : Nat × Nat × Nat × Nat × Nat) :
    hiCorr rep sl sh D qn0 (f + 1) st =
      if st.2.2.2.1 ≥ B / 2 then
        (let b := subN (qn0 - sl) st.1 1
         let a := addN (sl + 2) st.2.2.1 (D / B ^ (sh - 1))
         let g := fixLoop sl sh D (b.1 % B ^ sh) sh 0 a.1 ((st.2.2.2.1 + a.2) % B)
         let st' := (b.1, (st.2.1 + B - b.2) % B, g.1, g.2, st.2.2.2.2 + 1)
         if rep then hiCorr rep sl sh D qn0 f st' else st')
      else st := rfl

theorem mm_zero (sl : Nat) : ∀ (m D : Nat), mm sl D 0 m = 0
  | 0, _ => rfl
  | m + 1, D => by
    show (0 / B ^ m) * (D % B ^ sl) + mm sl (D / B) (0 % B ^ m) m = 0
    rw [Nat.zero_div, Nat.zero_mod, mm_zero sl m, Nat.zero_mul]

/-- the truncated remainder is small: r3 < B² + (m+1)·B as soon as the quotient is not below the floor -/
theorem r3_bound (j X Q Dc t r3 Wc : Nat) (hQ : Q < B * B ^ j) (hDc : Dc < B * B * B ^ j) (hX : X = t + r3)
    (hb : B * (Q * Dc) ≤ B * B ^ j * t + (j + 1) * (B * B * B ^ j)) (hW : B ^ j * X ≤ Wc)
    (hfl : Wc < (Q + 1) * (Dc + 1)) : r3 < B * B + (j + 2) * B := by
  have hB := B_pos
  have hP := Bpow_pos j
  generalize B ^ j = P at *
  by_contra hc
  have h1 : B * P * (B * B + (j + 2) * B) ≤ B * P * r3 := Nat.mul_le_mul_left _ (by omega)
  have h2 : B * (P * X) ≤ B * Wc := Nat.mul_le_mul_left _ hW
  have h3 : B * (Wc + 1) ≤ B * ((Q + 1) * (Dc + 1)) := Nat.mul_le_mul_left _ hfl
  have h4 : B * (Q + 1) ≤ B * (B * P) := Nat.mul_le_mul_left _ hQ
  have h5 : B * (Dc + 1) ≤ B * (B * B * P) := Nat.mul_le_mul_left _ hDc
  subst hX
  nlinarith

/-- one pass of the correction loop on a negative truncated remainder (cy = B-1): the high quotient half is decremented,
    the remainder grows by ⌊D/B^(sh-1)⌋ and the fix-up limbs and becomes non-negative, the loop stops -/
theorem hiCorr_neg (sl sh D qn0 Qup Qh qh Y tp : Nat) (hQh1 : 1 ≤ Qh) (hQh : Qh < B ^ sh)
    (hqh : qh < B) (hY : Y < tp) (htp : 2 * tp ≤ B ^ (sl + 2)) (hF1 : B ^ (sl + 2) ≤ 2 * (D / B ^ (sh - 1)))
    (hF2 : D / B ^ (sh - 1) < B ^ (sl + 2)) (hshB : sh ≤ B) :
    ∃ g1 g2 fs, hiCorr true sl sh D qn0 loopFuel (Qup * B ^ sh + Qh, qh, Y + B ^ (sl + 2) - tp, B - 1, 0)
        = (Qup * B ^ sh + (Qh - 1), qh, g1, g2, 1) ∧ g1 < B ^ (sl + 2) ∧ g2 ≤ 1 ∧
      g1 + B ^ (sl + 2) * g2 + tp = Y + D / B ^ (sh - 1) + fs ∧
      tS D Qh sh = tS D (Qh - 1) sh + D / B ^ (sh - 1) + fs := by
  have hB := B_pos
  have hB2 : 2 ≤ B := by rw [B_eq]; omega
  obtain ⟨z, Q1, eQ, hQ1⟩ := exists_trailing Qh hQh1
  have hPz := Bpow_pos z
  have hQ1pos : 1 ≤ Q1 := by
    by_contra hc
    have : Q1 = 0 := by omega
    rw [this] at hQ1; simp at hQ1
  have hzsh : z < sh := by
    by_contra hc
    have : B ^ sh ≤ B ^ z := Nat.pow_le_pow_right hB (by omega)
    have : 1 * B ^ z ≤ Q1 * B ^ z := Nat.mul_le_mul_right _ hQ1pos
    omega
  have hdec := tS_dec sh z D Q1 (by rw [← eQ]; exact hQh) hQ1
  rw [← eQ] at hdec
  have hlow : ∀ i, i < z → (Qh - 1) / B ^ i % B = B - 1 := by
    intro i hi
    have e : Qh = (Q1 * B ^ (z - i - 1)) * B ^ (i + 1) := by
      rw [eQ, Nat.mul_assoc, ← pow_add]; congr 2; omega
    rw [e]
    exact digit_dec_low _ i (Nat.mul_pos hQ1pos (Bpow_pos _))
  have hat : z < sh - 1 → (Qh - 1) / B ^ z % B ≠ B - 1 := by
    intro _; rw [eQ]; exact digit_dec_at Q1 z hQ1
  have hP := Bpow_pos (sl + 2)
  have hBP : B * B ≤ B ^ (sl + 2) := by
    have : B ^ 2 ≤ B ^ (sl + 2) := Nat.pow_le_pow_right hB (by omega)
    rw [B2'] at this; exact this
  -- the pass
  have hcy : (Qup * B ^ sh + Qh, qh, Y + B ^ (sl + 2) - tp, B - 1, 0).2.2.2.1 ≥ B / 2 := by
    show B - 1 ≥ B / 2
    rw [B_eq]; omega
  have hb : subN (qn0 - sl) (Qup * B ^ sh + Qh) 1 = (Qup * B ^ sh + Qh - 1, 0) := by
    unfold subN
    rw [if_neg (by omega)]
  have hbm : (Qup * B ^ sh + Qh - 1) % B ^ sh = Qh - 1 := by
    have : Qup * B ^ sh + Qh - 1 = Qup * B ^ sh + (Qh - 1) := by omega
    rw [this, mod_of_split _ _ _ (by omega)]
  have hqh' : (qh + B - 0) % B = qh := by
    rw [Nat.sub_zero, Nat.add_mod_right, Nat.mod_eq_of_lt hqh]
  have hpass : hiCorr true sl sh D qn0 loopFuel (Qup * B ^ sh + Qh, qh, Y + B ^ (sl + 2) - tp, B - 1, 0)
      = hiCorr true sl sh D qn0 5 (Qup * B ^ sh + Qh - 1, qh,
          (fixLoop sl sh D (Qh - 1) sh 0 (addN (sl + 2) (Y + B ^ (sl + 2) - tp) (D / B ^ (sh - 1))).1
            ((B - 1 + (addN (sl + 2) (Y + B ^ (sl + 2) - tp) (D / B ^ (sh - 1))).2) % B)).1,
          (fixLoop sl sh D (Qh - 1) sh 0 (addN (sl + 2) (Y + B ^ (sl + 2) - tp) (D / B ^ (sh - 1))).1
            ((B - 1 + (addN (sl + 2) (Y + B ^ (sl + 2) - tp) (D / B ^ (sh - 1))).2) % B)).2, 0 + 1) := by
    show hiCorr true sl sh D qn0 (5 + 1) _ = _
    rw [hiCorr_succ, if_pos hcy]
    simp only [↓reduceIte]
    rw [hb]
    simp only []
    rw [hbm, hqh']
  have hX : Y + B ^ (sl + 2) - tp < B ^ (sl + 2) := by omega
  obtain ⟨a1, a2, a3⟩ := addN_spec (sl + 2) (Y + B ^ (sl + 2) - tp) (D / B ^ (sh - 1)) hX hF2.le
  obtain ⟨k', r1, r2, r3⟩ := fixLoop_run sl sh D (Qh - 1) z (by omega) hlow hat z sh 0
    (addN (sl + 2) (Y + B ^ (sl + 2) - tp) (D / B ^ (sh - 1))).1
    ((B - 1 + (addN (sl + 2) (Y + B ^ (sl + 2) - tp) (D / B ^ (sh - 1))).2) % B)
    (by omega) (by omega) a2 (Nat.mod_lt _ hB)
  have hfs := sumd_le z (D / B ^ (sh - 1 - z))
  have hzB : z * B ≤ B * B := Nat.mul_le_mul_right _ (by omega)
  have hdm := Nat.div_add_mod (B - 1 + (addN (sl + 2) (Y + B ^ (sl + 2) - tp) (D / B ^ (sh - 1))).2) B
  have hml := Nat.mod_lt (B - 1 + (addN (sl + 2) (Y + B ^ (sl + 2) - tp) (D / B ^ (sh - 1))).2) hB
  generalize hg : fixLoop sl sh D (Qh - 1) sh 0 _ _ = g at *
  obtain ⟨g1, g2⟩ := g
  simp only at r1 r2 r3
  generalize (addN (sl + 2) (Y + B ^ (sl + 2) - tp) (D / B ^ (sh - 1))).1 = A1 at *
  generalize (addN (sl + 2) (Y + B ^ (sl + 2) - tp) (D / B ^ (sh - 1))).2 = A2 at *
  generalize sumd (D / B ^ (sh - 1 - z)) z = fs at *
  generalize D / B ^ (sh - 1) = F at *
  generalize (B - 1 + A2) / B = c' at *
  generalize (B - 1 + A2) % B = m' at *
  generalize hPd : B ^ (sl + 2) = P at *
  -- value identity modulo P·B
  have hc' : c' = A2 := by
    rcases Nat.eq_zero_or_pos A2 with h | h
    · subst h
      have : B * c' + m' = B - 1 := by omega
      rcases Nat.eq_zero_or_pos c' with h0 | h0
      · exact h0
      · have : B * 1 ≤ B * c' := Nat.mul_le_mul_left _ h0
        omega
    · have hA : A2 = 1 := by omega
      subst hA
      have : B * c' + m' = B := by omega
      rcases Nat.lt_or_ge c' 1 with h0 | h0
      · have : c' = 0 := by omega
        subst this; omega
      · rcases Nat.lt_or_ge c' 2 with h1 | h1
        · omega
        · have : B * 2 ≤ B * c' := Nat.mul_le_mul_left _ h1
          omega
  subst hc'
  have hval : g1 + P * g2 + tp + (k' + c') * (P * B) = Y + F + fs + P * B := by
    have e1' : P * (B * c') + P * m' = P * (B - 1) + P * c' := by rw [← Nat.mul_add, ← Nat.mul_add, hdm]
    have e2 : P * (B - 1) + P = P * B := by
      obtain ⟨b, hb⟩ : ∃ b, B = b + 1 := ⟨B - 1, by omega⟩
      rw [hb, Nat.add_sub_cancel]; ring
    have e4 : (k' + c') * (P * B) = k' * (P * B) + P * (B * c') := by ring
    have e5 : c' * P = P * c' := Nat.mul_comm _ _
    omega
  have hbound : g1 + P * g2 < P * B := by
    have : P * (g2 + 1) ≤ P * B := Nat.mul_le_mul_left _ r2
    have : P * (g2 + 1) = P * g2 + P := by ring
    omega
  have hbound2 : Y + F + fs < tp + 2 * P := by omega
  have hge : tp ≤ Y + F + fs := by omega
  have h2PB : 2 * P ≤ P * B := by
    have : P * 2 ≤ P * B := Nat.mul_le_mul_left _ hB2
    omega
  have hkc : k' + c' = 1 := by
    rcases Nat.lt_trichotomy (k' + c') 1 with h | h | h
    · exfalso
      have : k' + c' = 0 := by omega
      rw [this, Nat.zero_mul] at hval
      omega
    · exact h
    · exfalso
      have : 2 * (P * B) ≤ (k' + c') * (P * B) := Nat.mul_le_mul_right _ h
      omega
  rw [hkc, Nat.one_mul] at hval
  have hfin : g1 + P * g2 + tp = Y + F + fs := by omega
  have hg2 : g2 ≤ 1 := by
    by_contra hc
    have : P * 2 ≤ P * g2 := Nat.mul_le_mul_left _ (by omega)
    omega
  refine ⟨g1, g2, fs, ?_, r1, hg2, hfin, hdec⟩
  rw [hpass]
  have hstop := hiCorr_stop true sl sh D qn0 (Qup * B ^ sh + Qh - 1, qh, g1, g2, 0 + 1)
    (by show g2 < B / 2; rw [B_eq]; omega) 5
  rw [hstop]
  have : Qup * B ^ sh + Qh - 1 = Qup * B ^ sh + (Qh - 1) := by omega
  rw [this]

/-- the top sl+2 limbs of a normalised divisor are at least B^(sl+2)/2 -/
theorem half_norm (sl D Pk : Nat) (hPk : 0 < Pk) (hnorm : Pk * B ^ (sl + 2) ≤ 2 * D) : B ^ (sl + 2) ≤ 2 * (D / Pk) := by
  have hBe : B = 2 * (B / 2) := by rw [B_eq]
  have e2 : B ^ (sl + 2) = 2 * (B ^ (sl + 1) * (B / 2)) := by
    rw [pow_succ B (sl + 1)]
    calc B ^ (sl + 1) * B = B ^ (sl + 1) * (2 * (B / 2)) := by rw [← hBe]
      _ = 2 * (B ^ (sl + 1) * (B / 2)) := by ring
  have : B ^ (sl + 1) * (B / 2) ≤ D / Pk := by
    rw [Nat.le_div_iff_mul_le hPk]
    rw [e2] at hnorm
    have e3 : Pk * (2 * (B ^ (sl + 1) * (B / 2))) = 2 * (B ^ (sl + 1) * (B / 2) * Pk) := by ring
    omega
  omega

theorem lt_mul_div_succ' (W P : Nat) (hP : 0 < P) : W < P * (W / P + 1) := by
  have := Nat.div_add_mod W P
  have := Nat.mod_lt W hP
  nlinarith

/-- dc_divappr_q.c:106-129: middle product, subtraction, correction loop.  Given the high half Qh with its truncated
    remainder r3h (relative to the divisor cut by sl limbs) and W < (Qh+1)·B^sl·D, the state after the loop holds a high
    half Qh' ∈ {Qh, Qh-1} whose truncated remainder relative to the FULL divisor is non-negative and is what the limbs
    (X, cy) hold; the loop ran at most once; still W < (Qh'+1)·B^sl·D. -/
theorem mid_spec (n sl sh W D Qup qh qn0 Qh r3h : Nat) (hn : n = sl + sh) (hsh : 1 ≤ sh) (hsl : 1 ≤ sl)
    (hD : D < B ^ (n + 1)) (hnorm : B ^ (n + 1) ≤ 2 * D) (hsz : 2 * (n + 2) ≤ B) (hqh : qh ≤ 1) (hQh : Qh < B ^ sh)
    (hXH : W / B ^ (n + sl - 1) = tS (D / B ^ sl) Qh sh + r3h) (hfl : W < (Qh + 1) * B ^ sl * D) :
    ∃ Qh' X cyf cnt,
      hiCorr true sl sh D qn0 loopFuel
        (Qup * B ^ sh + Qh, qh,
          (subN (sl + 2) (W / B ^ (n - 1) % B ^ sl + B ^ sl * (r3h % B ^ 2)) (mulmidV (n - 1) sh D Qh sh)).1,
          (r3h / B ^ 2 + B - (subN (sl + 2) (W / B ^ (n - 1) % B ^ sl + B ^ sl * (r3h % B ^ 2))
            (mulmidV (n - 1) sh D Qh sh)).2) % B, 0)
        = (Qup * B ^ sh + Qh', qh, X, cyf, cnt) ∧
      Qh' < B ^ sh ∧ X < B ^ (sl + 2) ∧ cyf ≤ 1 ∧ cnt ≤ 1 ∧
      W / B ^ (n - 1) = tS D Qh' sh + X + B ^ (sl + 2) * cyf ∧ W < (Qh' + 1) * B ^ sl * D := by
  have hB := B_pos
  have hB2 : 2 ≤ B := by rw [B_eq]; omega
  have hPs := Bpow_pos sl
  have hshB : sh ≤ B := by omega
  obtain ⟨j, hj⟩ : ∃ j, sh = j + 1 := ⟨sh - 1, by omega⟩
  -- the middle product
  have htp : mm sl D Qh sh = mulmidV (n - 1) sh D Qh sh := by
    have := mm_eq_mulmidV sl (n - 1) sh D hsl (by omega) sh 0 Qh hQh rfl
    rw [pow_zero, Nat.div_one] at this; exact this
  have htS := tS_mm sl sh D Qh
  have hmm := mm_le sl sh D Qh hQh
  rw [htp] at htS hmm
  generalize mulmidV (n - 1) sh D Qh sh = tp at *
  -- bounds on D
  have ePn : B ^ (n + 1) = B ^ sl * (B * B * B ^ j) := by
    rw [hn, hj]; rw [show sl + (j + 1) + 1 = sl + (1 + 1 + j) by omega, pow_add, pow_add, pow_add, pow_one]
  have hDc : D / B ^ sl < B * B * B ^ j := by
    rw [Nat.div_lt_iff_lt_mul hPs, Nat.mul_comm, ← ePn]; exact hD
  have hDlt : D < B ^ sl * (D / B ^ sl + 1) := lt_mul_div_succ' D _ hPs
  -- r3h is small
  have hr3 : r3h < B * B + (j + 2) * B := by
    have hbnd := (tS_bounds sh (D / B ^ sl) Qh hQh).2
    rw [hj] at hbnd hQh
    rw [pow_succ' B j] at hQh
    rw [pow_succ' B j, show j + 1 + 1 = 1 + 1 + j by omega, pow_add, pow_add, pow_one] at hbnd
    have e1 : W / B ^ (n + sl - 1) = W / B ^ (2 * sl) / B ^ j := by
      rw [div_pow_add]; congr 2; omega
    have hW1 : B ^ j * (W / B ^ (n + sl - 1)) ≤ W / B ^ (2 * sl) := by
      rw [e1]; exact Nat.mul_div_le _ _
    have hW2 : W / B ^ (2 * sl) < (Qh + 1) * (D / B ^ sl + 1) := by
      rw [Nat.div_lt_iff_lt_mul (Bpow_pos _), two_mul, pow_add]
      have : (Qh + 1) * B ^ sl * D < (Qh + 1) * B ^ sl * (B ^ sl * (D / B ^ sl + 1)) :=
        Nat.mul_lt_mul_of_pos_left hDlt (by positivity)
      calc W < (Qh + 1) * B ^ sl * D := hfl
        _ < (Qh + 1) * B ^ sl * (B ^ sl * (D / B ^ sl + 1)) := this
        _ = (Qh + 1) * (D / B ^ sl + 1) * (B ^ sl * B ^ sl) := by ring
    rw [hj] at hXH
    exact r3_bound j _ Qh (D / B ^ sl) _ r3h _ hQh hDc hXH hbnd hW1 hW2
  -- the limbs
  have hdm := Nat.div_add_mod r3h (B ^ 2)
  have hrlo := Nat.mod_lt r3h (Bpow_pos 2)
  have hcy0 : r3h / B ^ 2 ≤ 1 := by
    have : r3h / B ^ 2 < 2 := by
      rw [Nat.div_lt_iff_lt_mul (Bpow_pos 2), B2']
      have : (j + 2) * B ≤ B * B := Nat.mul_le_mul_right _ (by omega)
      omega
    omega
  have hxl := Nat.mod_lt (W / B ^ (n - 1)) hPs
  have hXX := Nat.div_add_mod (W / B ^ (n - 1)) (B ^ sl)
  have eXH : W / B ^ (n - 1) / B ^ sl = W / B ^ (n + sl - 1) := by
    rw [div_pow_add]; congr 2; omega
  rw [eXH, hXH] at hXX
  have eP : B ^ (sl + 2) = B ^ sl * B ^ 2 := by rw [pow_add]
  have hPpos := Bpow_pos (sl + 2)
  have h2tp : 2 * tp ≤ B ^ (sl + 2) := by
    rw [eP, B2']
    have : 2 * sh ≤ B := by omega
    have : 2 * sh * (B * B ^ sl) ≤ B * (B * B ^ sl) := Nat.mul_le_mul_right _ this
    nlinarith
  have hYlt : W / B ^ (n - 1) % B ^ sl + B ^ sl * (r3h % B ^ 2) < B ^ (sl + 2) := by
    rw [eP]
    have : B ^ sl * (r3h % B ^ 2 + 1) ≤ B ^ sl * B ^ 2 := Nat.mul_le_mul_left _ hrlo
    nlinarith
  have hfull : B ^ sl * r3h = B ^ sl * (r3h % B ^ 2) + B ^ (sl + 2) * (r3h / B ^ 2) := by
    rw [eP]; conv_lhs => rw [← hdm]
    ring
  generalize hY : W / B ^ (n - 1) % B ^ sl + B ^ sl * (r3h % B ^ 2) = Y at *
  -- key identity: XX + tp = Y + P·cy0 + tS D Qh sh
  have hK : W / B ^ (n - 1) + tp = Y + B ^ (sl + 2) * (r3h / B ^ 2) + tS D Qh sh := by
    rw [htS, ← hXX, ← hY]
    have : B ^ sl * (tS (D / B ^ sl) Qh sh + r3h) = B ^ sl * tS (D / B ^ sl) Qh sh + B ^ sl * r3h := by ring
    rw [this, hfull]; ring
  have hqhB : qh < B := by omega
  by_cases hcase : tp ≤ Y + B ^ (sl + 2) * (r3h / B ^ 2)
  · -- non-negative: no pass
    have hsub : (subN (sl + 2) Y tp).1 + B ^ (sl + 2) * ((r3h / B ^ 2 + B - (subN (sl + 2) Y tp).2) % B) + tp
        = Y + B ^ (sl + 2) * (r3h / B ^ 2) ∧ (subN (sl + 2) Y tp).1 < B ^ (sl + 2) ∧
        (r3h / B ^ 2 + B - (subN (sl + 2) Y tp).2) % B ≤ 1 := by
      unfold subN
      generalize r3h / B ^ 2 = cy0 at *
      generalize B ^ (sl + 2) = P at *
      by_cases h : Y < tp
      · rw [if_pos h]
        simp only []
        have hc1 : cy0 = 1 := by
          rcases Nat.eq_zero_or_pos cy0 with h0 | h0
          · subst h0; omega
          · omega
        subst hc1
        have : (1 + B - 1) % B = 0 := by rw [Nat.add_sub_cancel_left, Nat.mod_self]
        rw [this]; omega
      · rw [if_neg h]
        simp only []
        have : (cy0 + B - 0) % B = cy0 := by
          rw [Nat.sub_zero, Nat.add_mod_right, Nat.mod_eq_of_lt (by omega)]
        rw [this]; omega
    obtain ⟨s1, s2, s3⟩ := hsub
    refine ⟨Qh, _, _, 0, hiCorr_stop true sl sh D qn0 _ (by
      show (r3h / B ^ 2 + B - (subN (sl + 2) Y tp).2) % B < B / 2
      rw [B_eq] at *; omega) _, hQh, s2, s3, by omega, ?_, hfl⟩
    omega
  · -- negative: one pass
    have hc0 : r3h / B ^ 2 = 0 := by
      rcases Nat.eq_zero_or_pos (r3h / B ^ 2) with h0 | h0
      · exact h0
      · exfalso
        have : B ^ (sl + 2) * 1 ≤ B ^ (sl + 2) * (r3h / B ^ 2) := Nat.mul_le_mul_left _ h0
        omega
    rw [hc0, Nat.mul_zero, Nat.add_zero] at hK hcase
    have hYtp : Y < tp := by omega
    have hQh1 : 1 ≤ Qh := by
      by_contra hc
      have : Qh = 0 := by omega
      subst this
      rw [mm_zero] at htp
      omega
    have es : subN (sl + 2) Y tp = (Y + B ^ (sl + 2) - tp, 1) := by
      unfold subN; rw [if_pos hYtp]
    have ecy : (0 + B - 1) % B = B - 1 := by rw [Nat.zero_add, Nat.mod_eq_of_lt (by omega)]
    rw [hc0, es]
    simp only []
    rw [ecy]
    have ePn2 : B ^ (n + 1) = B ^ (sh - 1) * B ^ (sl + 2) := by
      rw [← pow_add]; congr 1; omega
    have hF2 : D / B ^ (sh - 1) < B ^ (sl + 2) := by
      rw [Nat.div_lt_iff_lt_mul (Bpow_pos _), Nat.mul_comm, ← ePn2]; exact hD
    have hF1 : B ^ (sl + 2) ≤ 2 * (D / B ^ (sh - 1)) := half_norm _ _ _ (Bpow_pos _) (by rw [← ePn2]; exact hnorm)
    obtain ⟨g1, g2, fs, erun, hg1, hg2, hval, hdec⟩ :=
      hiCorr_neg sl sh D qn0 Qup Qh qh Y tp hQh1 hQh hqhB hYtp h2tp hF1 hF2 hshB
    refine ⟨Qh - 1, g1, g2, 1, erun, by omega, hg1, hg2, le_refl _, by omega, ?_⟩
    -- the floor side
    have hb := (tS_bounds sh D Qh hQh).1
    have hlt := lt_mul_div_succ' W (B ^ (n - 1)) (Bpow_pos _)
    have hXlt : W / B ^ (n - 1) + 1 ≤ tS D Qh sh := by omega
    have e3 : B ^ (n - 1) * B = B ^ sl * B ^ sh := by
      rw [← pow_succ, ← pow_add]; congr 1; omega
    have h1 : B ^ (n - 1) * (W / B ^ (n - 1) + 1) ≤ B ^ (n - 1) * tS D Qh sh := Nat.mul_le_mul_left _ hXlt
    have h2 : B ^ sl * (B ^ sh * tS D Qh sh) ≤ B ^ sl * (B * (Qh * D)) := Nat.mul_le_mul_left _ hb
    have h3 : B * (B ^ (n - 1) * tS D Qh sh) ≤ B * (Qh * B ^ sl * D) := by
      calc B * (B ^ (n - 1) * tS D Qh sh) = B ^ sl * (B ^ sh * tS D Qh sh) := by
            rw [← Nat.mul_assoc, Nat.mul_comm B, e3]; ring
        _ ≤ B ^ sl * (B * (Qh * D)) := h2
        _ = B * (Qh * B ^ sl * D) := by ring
    have h4 := Nat.le_of_mul_le_mul_left h3 hB
    have : Qh - 1 + 1 = Qh := by omega
    rw [this]; omega

/-! ## the saturating exits -/

theorem lex_ge (a b P : Nat) (hP : 0 < P) : (a / P > b / P ∨ (a / P = b / P ∧ a % P ≥ b % P)) ↔ b ≤ a := by
  have ha := Nat.div_add_mod a P
  have hb := Nat.div_add_mod b P
  have ha' := Nat.mod_lt a hP
  have hb' := Nat.mod_lt b hP
  constructor
  · rintro (h | ⟨h1, h2⟩)
    · have : P * (b / P + 1) ≤ P * (a / P) := Nat.mul_le_mul_left _ h
      have e : P * (b / P + 1) = P * (b / P) + P := by ring
      omega
    · rw [h1] at ha; omega
  · intro h
    rcases Nat.lt_trichotomy (a / P) (b / P) with h1 | h1 | h1
    · exfalso
      have : P * (a / P + 1) ≤ P * (b / P) := Nat.mul_le_mul_left _ h1
      have e : P * (a / P + 1) = P * (a / P) + P := by ring
      omega
    · right; refine ⟨h1, ?_⟩; rw [h1] at ha; omega
    · left; exact h1

/-- __divappr_helper on a window X (its high part u·B³ not seen) and a divisor Dk of k+1 limbs: the three limbs are the
    truncated remainder of the all-ones quotient -/
theorem sat_eq (k X Dk u t : Nat) (hk : 1 ≤ k) (hDk : Dk < B ^ (k + 1)) (hX : X / B < B ^ (k + 1))
    (hid : X + Dk / B ^ (k - 1) + sumd Dk (k - 1) + u * B ^ 3 = B * Dk + t) (ht : t < B ^ 3) :
    helper3 k (X % B) (X / B) Dk = t ∧ X + u * B ^ 3 = tS Dk (B ^ k - 1) k + t := by
  have hB := B_pos
  have hdm := Nat.div_add_mod X B
  refine ⟨helper3_spec k (X % B) (X / B) Dk u t hk (Nat.mod_lt _ hB) hX hDk (by omega) ht, ?_⟩
  obtain ⟨j, rfl⟩ : ∃ j, k = j + 1 := ⟨k - 1, by omega⟩
  have := tS_sat j Dk
  rw [Nat.add_sub_cancel] at hid
  omega

/-- what a sub-call (leaf or recursion) on m quotient limbs guarantees; dn = the caller's divisor length -/
def CutSpec (m dn Nsub D : Nat) (r : Res) : Prop :=
  r.ok = true ∧ r.q < B ^ m ∧ r.wl ≤ 1 ∧
  Nsub / B ^ (dn - (m + 1)) < (r.q + 1) * (D / B ^ (dn - (m + 1))) ∧
  Nsub / B ^ (dn - (m + 1)) / B ^ (m - 1) = tS (D / B ^ (dn - (m + 1))) r.q m + r.r3

/-- the recursive calls keep `CutSpec` (induction hypothesis) -/
def RecOK (C n dn D : Nat) (recur : Nat → Nat → Nat → Nat → Res) : Prop :=
  ∀ m Nsub, C ≤ m → m < n → Nsub < B ^ (dn + m) → Nsub / B ^ (dn - (m + 1)) / B ^ m < D / B ^ (dn - (m + 1)) →
    CutSpec m dn Nsub D (recur (dn + m) dn Nsub D)

theorem sub_spec (C n dn D m Nsub : Nat) (recur : Nat → Nat → Nat → Nat → Res) (hrec : RecOK C n dn D recur)
    (hdn : dn = n + 1) (hm : 1 ≤ m) (hmn : m < n) (hD : D < B ^ dn) (hnorm : B ^ dn ≤ 2 * D) (hsize : 2 * dn + 2 ≤ B)
    (hN : Nsub < B ^ (dn + m)) (hpre : Nsub / B ^ (dn - (m + 1)) / B ^ m < D / B ^ (dn - (m + 1))) :
    CutSpec m dn Nsub D (if m < C then sbLeaf (dn + m) dn Nsub D else recur (dn + m) dn Nsub D) := by
  by_cases h : m < C
  · rw [if_pos h]
    obtain ⟨h1, h2, h3, h4, h5⟩ := SbDivQ.sbLeaf_spec m dn Nsub D hm (by omega) hN hD hnorm hsize hpre
    exact ⟨h1, h2, by omega, h4, h5⟩
  · rw [if_neg h]
    exact hrec m Nsub (by omega) hmn hN hpre

theorem W_bounds (n W D : Nat) (hD : D < B ^ (n + 1)) (hW : W < D * B ^ n) : W < B ^ (2 * n + 1) := by
  have : D * B ^ n ≤ B ^ (n + 1) * B ^ n := Nat.mul_le_mul_right _ hD.le
  have e : B ^ (n + 1) * B ^ n = B ^ (2 * n + 1) := by rw [← pow_add]; congr 1; omega
  omega

/-- dc_divappr_q.c:96-104 -/
theorem hiPart_spec (C n dn W D sl sh : Nat) (recur : Nat → Nat → Nat → Nat → Res) (hrec : RecOK C n dn D recur)
    (hdn : dn = n + 1) (hn : n = sl + sh) (hsh : 1 ≤ sh) (hsl : 1 ≤ sl) (hD : D < B ^ (n + 1))
    (hnorm : B ^ (n + 1) ≤ 2 * D) (hW : W < D * B ^ n) (hsz : 2 * (n + 2) ≤ B) :
    (hiPart C sbLeaf recur n dn W D sl sh).2.2.1 = true ∧ (hiPart C sbLeaf recur n dn W D sl sh).2.2.2 ≤ 1 ∧
    (hiPart C sbLeaf recur n dn W D sl sh).1 < B ^ sh ∧
    W / B ^ (n + sl - 1) = tS (D / B ^ sl) (hiPart C sbLeaf recur n dn W D sl sh).1 sh
      + (hiPart C sbLeaf recur n dn W D sl sh).2.1 ∧
    W < ((hiPart C sbLeaf recur n dn W D sl sh).1 + 1) * B ^ sl * D := by
  have hB := B_pos
  have hPs := Bpow_pos sl
  have hPh := Bpow_pos sh
  have hDc : D / B ^ sl < B ^ (sh + 1) := by
    rw [Nat.div_lt_iff_lt_mul hPs, ← pow_add]
    have : sh + 1 + sl = n + 1 := by omega
    rw [this]; exact hD
  have hDlt := lt_mul_div_succ' D _ hPs
  unfold hiPart
  by_cases hc : W / B ^ (n + sl) ≥ D / B ^ sl
  · rw [if_pos hc]
    simp only []
    have eX : W / B ^ (n + sl - 1) / B = W / B ^ (n + sl) := by
      rw [div_pow_succ']; congr 2; omega
    have hXlt : W / B ^ (n + sl - 1) < (D / B ^ sl + 1) * B := by
      rw [Nat.div_lt_iff_lt_mul (Bpow_pos _)]
      have e : (D / B ^ sl + 1) * B * B ^ (n + sl - 1) = B ^ sl * (D / B ^ sl + 1) * B ^ n := by
        have : B ^ (n + sl - 1) * B = B ^ sl * B ^ n := by rw [← pow_succ, ← pow_add]; congr 1; omega
        calc (D / B ^ sl + 1) * B * B ^ (n + sl - 1) = (D / B ^ sl + 1) * (B ^ (n + sl - 1) * B) := by ring
          _ = (D / B ^ sl + 1) * (B ^ sl * B ^ n) := by rw [this]
          _ = B ^ sl * (D / B ^ sl + 1) * B ^ n := by ring
      rw [e]
      have : D * B ^ n < B ^ sl * (D / B ^ sl + 1) * B ^ n := Nat.mul_lt_mul_of_pos_right hDlt (Bpow_pos n)
      omega
    have hXge : B * (D / B ^ sl) ≤ W / B ^ (n + sl - 1) := by
      have h1 := Nat.div_add_mod (W / B ^ (n + sl - 1)) B
      rw [eX] at h1
      have : B * (D / B ^ sl) ≤ B * (W / B ^ (n + sl)) := Nat.mul_le_mul_left _ hc
      omega
    have hF : D / B ^ sl / B ^ (sh - 1) < B * B := by
      rw [Nat.div_lt_iff_lt_mul (Bpow_pos _)]
      have : B * B * B ^ (sh - 1) = B ^ (sh + 1) := by
        rw [show sh + 1 = 1 + 1 + (sh - 1) by omega, pow_add, pow_add, pow_one]
      rw [this]; exact hDc
    have hS := sumd_le (sh - 1) (D / B ^ sl)
    have hshB : (sh - 1) * B + 2 * B ≤ B * B := by
      calc (sh - 1) * B + 2 * B = (sh - 1 + 2) * B := by ring
        _ ≤ B * B := Nat.mul_le_mul_right _ (by omega)
    have hB3 : B * B * 2 ≤ B ^ 3 := by
      rw [B3']; exact Nat.mul_le_mul_left _ (by rw [B_eq]; omega)
    have e1 : (D / B ^ sl + 1) * B = B * (D / B ^ sl) + B := by ring
    obtain ⟨e, he⟩ : ∃ e, W / B ^ (n + sl - 1) = B * (D / B ^ sl) + e := ⟨W / B ^ (n + sl - 1) - B * (D / B ^ sl), by omega⟩
    have he1 : e < B := by omega
    have ht : W / B ^ (n + sl - 1) + D / B ^ sl / B ^ (sh - 1) + sumd (D / B ^ sl) (sh - 1) + 0 * B ^ 3
        = B * (D / B ^ sl) + (e + D / B ^ sl / B ^ (sh - 1) + sumd (D / B ^ sl) (sh - 1)) := by omega
    have htlt : e + D / B ^ sl / B ^ (sh - 1) + sumd (D / B ^ sl) (sh - 1) < B ^ 3 := by omega
    have hXB : W / B ^ (n + sl - 1) / B < B ^ (sh + 1) := by
      rw [Nat.div_lt_iff_lt_mul hB]
      have : (D / B ^ sl + 1) * B ≤ B ^ (sh + 1) * B := Nat.mul_le_mul_right _ hDc
      omega
    obtain ⟨s1, s2⟩ := sat_eq sh (W / B ^ (n + sl - 1)) (D / B ^ sl) 0 _ hsh hDc hXB ht htlt
    rw [eX] at s1
    rw [s1]
    refine ⟨trivial, Nat.zero_le _, by omega, by omega, ?_⟩
    rw [Nat.sub_add_cancel hPh]
    calc W < D * B ^ n := hW
      _ = B ^ sh * B ^ sl * D := by rw [hn, pow_add]; ring
  · rw [if_neg hc]
    simp only []
    have hNs : W / B ^ sl < B ^ (dn + sh) := by
      rw [Nat.div_lt_iff_lt_mul hPs, ← pow_add]
      have := W_bounds n W D hD hW
      have e : dn + sh + sl = 2 * n + 1 := by omega
      rw [e]; exact this
    have es : dn - (sh + 1) = sl := by omega
    have hpre : W / B ^ sl / B ^ (dn - (sh + 1)) / B ^ sh < D / B ^ (dn - (sh + 1)) := by
      rw [es, div_pow_add, div_pow_add]
      have : sl + (sl + sh) = n + sl := by omega
      rw [this]; omega
    obtain ⟨c1, c2, c3, c4, c5⟩ := sub_spec C n dn D sh (W / B ^ sl) recur hrec hdn hsh (by omega)
      (by rw [hdn]; exact hD) (by rw [hdn]; exact hnorm) (by omega) hNs hpre
    rw [es] at c4 c5
    rw [div_pow_add] at c4
    rw [div_pow_add, div_pow_add] at c5
    have e5 : sl + (sl + (sh - 1)) = n + sl - 1 := by omega
    rw [e5] at c5
    refine ⟨c1, c3, c2, c5, ?_⟩
    have h1 := lt_mul_div_succ' W (B ^ (sl + sl)) (Bpow_pos _)
    have h2 : B ^ sl * (D / B ^ sl) ≤ D := Nat.mul_div_le _ _
    generalize (if sh < C then sbLeaf (dn + sh) dn (W / B ^ sl) D else recur (dn + sh) dn (W / B ^ sl) D).q = q at *
    have h3 : B ^ (sl + sl) * (W / B ^ (sl + sl) + 1) ≤ B ^ (sl + sl) * ((q + 1) * (D / B ^ sl)) :=
      Nat.mul_le_mul_left _ c4
    have h4 : (q + 1) * B ^ sl * (B ^ sl * (D / B ^ sl)) ≤ (q + 1) * B ^ sl * D := Nat.mul_le_mul_left _ h2
    calc W < B ^ (sl + sl) * (W / B ^ (sl + sl) + 1) := h1
      _ ≤ B ^ (sl + sl) * ((q + 1) * (D / B ^ sl)) := h3
      _ = (q + 1) * B ^ sl * (B ^ sl * (D / B ^ sl)) := by rw [pow_add]; ring
      _ ≤ (q + 1) * B ^ sl * D := h4

theorem tS_hi_le (n sl sh D Q : Nat) (hn : n = sl + sh) (hsl : 1 ≤ sl) (hQ : Q < B ^ sh) :
    B ^ (n - 1) * tS D Q sh ≤ Q * B ^ sl * D := by
  have hB := B_pos
  have hb := (tS_bounds sh D Q hQ).1
  have e3 : B ^ (n - 1) * B = B ^ sl * B ^ sh := by
    rw [← pow_succ, ← pow_add]; congr 1; omega
  have h2 : B ^ sl * (B ^ sh * tS D Q sh) ≤ B ^ sl * (B * (Q * D)) := Nat.mul_le_mul_left _ hb
  have h3 : B * (B ^ (n - 1) * tS D Q sh) ≤ B * (Q * B ^ sl * D) := by
    calc B * (B ^ (n - 1) * tS D Q sh) = B ^ sl * (B ^ sh * tS D Q sh) := by
          rw [← Nat.mul_assoc, Nat.mul_comm B, e3]; ring
      _ ≤ B ^ sl * (B * (Q * D)) := h2
      _ = B * (Q * B ^ sl * D) := by ring
  exact Nat.le_of_mul_le_mul_left h3 hB

/-- dc_divappr_q.c:131-145 -/
theorem loPart_spec (C n dn W D sl sh X cyf Qh' : Nat) (recur : Nat → Nat → Nat → Nat → Res)
    (hrec : RecOK C n dn D recur) (hdn : dn = n + 1) (hn : n = sl + sh) (hsh : 1 ≤ sh) (hsl : 2 ≤ sl)
    (hD : D < B ^ (n + 1)) (hnorm : B ^ (n + 1) ≤ 2 * D) (hsz : 2 * (n + 2) ≤ B)
    (hX : X < B ^ (sl + 2)) (hcy : cyf ≤ 1) (hQh' : Qh' < B ^ sh)
    (hXX : W / B ^ (n - 1) = tS D Qh' sh + X + B ^ (sl + 2) * cyf) (hfl : W < (Qh' + 1) * B ^ sl * D) :
    (loPart C sbLeaf recur n dn W D sl sh X cyf).2.2.1 = true ∧ (loPart C sbLeaf recur n dn W D sl sh X cyf).2.2.2 ≤ 1 ∧
    (loPart C sbLeaf recur n dn W D sl sh X cyf).1 < B ^ sl ∧
    W < (Qh' * B ^ sl + (loPart C sbLeaf recur n dn W D sl sh X cyf).1 + 1) * D ∧
    W / B ^ (n - 1) = tS D (Qh' * B ^ sl + (loPart C sbLeaf recur n dn W D sl sh X cyf).1) n
      + (loPart C sbLeaf recur n dn W D sl sh X cyf).2.1 := by
  have hB := B_pos
  have hPs := Bpow_pos sl
  have hPh := Bpow_pos sh
  have hDk : D / B ^ sh < B ^ (sl + 1) := by
    rw [Nat.div_lt_iff_lt_mul hPh, ← pow_add]
    have : sl + 1 + sh = n + 1 := by omega
    rw [this]; exact hD
  have hnn : sh + sl = n := by omega
  have hsplit : ∀ Ql, Ql < B ^ sl → tS D (Qh' * B ^ sl + Ql) n = tS D Qh' sh + tS (D / B ^ sh) Ql sl := by
    intro Ql hQl
    rw [← hnn]; exact tS_split sl sh D Qh' Ql hQh' hQl
  unfold loPart
  by_cases hc : cyf ≠ 0 ∨ X / B ≥ D / B ^ sh
  · rw [if_pos hc]
    simp only []
    have hQl : B ^ sl - 1 < B ^ sl := by omega
    -- t3 ≥ B·Dk
    have eP : B ^ (sl + 2) = B * B ^ (sl + 1) := by rw [← pow_succ']
    have hge : B * (D / B ^ sh) ≤ X + B ^ (sl + 2) * cyf := by
      rcases hc with h | h
      · have : B ^ (sl + 2) * 1 ≤ B ^ (sl + 2) * cyf := Nat.mul_le_mul_left _ (by omega)
        have : B * (D / B ^ sh) ≤ B * B ^ (sl + 1) := Nat.mul_le_mul_left _ hDk.le
        omega
      · have h1 := Nat.div_add_mod X B
        have : B * (D / B ^ sh) ≤ B * (X / B) := Nat.mul_le_mul_left _ h
        omega
    obtain ⟨j, hj⟩ : ∃ j, sl = j + 1 := ⟨sl - 1, by omega⟩
    have hsat := tS_sat j (D / B ^ sh)
    rw [← hj] at hsat
    have hj' : j = sl - 1 := by omega
    rw [hj'] at hsat
    obtain ⟨F, hF⟩ : ∃ F, F = D / B ^ sh / B ^ (sl - 1) := ⟨_, rfl⟩
    rw [← hF] at hsat
    obtain ⟨t4, ht4⟩ : ∃ t4, X + B ^ (sl + 2) * cyf + F + sumd (D / B ^ sh) (sl - 1)
        = B * (D / B ^ sh) + t4 :=
      ⟨X + B ^ (sl + 2) * cyf + F + sumd (D / B ^ sh) (sl - 1) - B * (D / B ^ sh),
        (Nat.add_sub_of_le (le_trans hge (Nat.le_trans (Nat.le_add_right _ _) (Nat.le_add_right _ _)))).symm⟩
    have hXXt : W / B ^ (n - 1) = tS D (Qh' * B ^ sl + (B ^ sl - 1)) n + t4 := by
      rw [hsplit _ hQl]; omega
    -- t4 is small
    have ht4lt : t4 < B * B + (n - 1 + 2) * B := by
      have hQ : Qh' * B ^ sl + (B ^ sl - 1) < B ^ n := by
        rw [← hnn, pow_add]
        have : (Qh' + 1) * B ^ sl ≤ B ^ sh * B ^ sl := Nat.mul_le_mul_right _ hQh'
        have e : (Qh' + 1) * B ^ sl = Qh' * B ^ sl + B ^ sl := by ring
        omega
      have hbnd := (tS_bounds n D _ hQ).2
      have en : n = (n - 1) + 1 := by omega
      have e1 : B ^ n = B * B ^ (n - 1) := by rw [← pow_succ']; congr 1
      have e2 : B ^ (n + 1) = B * B * B ^ (n - 1) := by
        rw [show n + 1 = 1 + 1 + (n - 1) by omega, pow_add, pow_add, pow_one]
      rw [e1] at hQ hbnd
      rw [e2] at hbnd hD
      have hbnd' : B * ((Qh' * B ^ sl + (B ^ sl - 1)) * D)
          ≤ B * B ^ (n - 1) * tS D (Qh' * B ^ sl + (B ^ sl - 1)) n + (n - 1 + 1) * (B * B * B ^ (n - 1)) := by
        rw [← en]; exact hbnd
      have hfl' : W < (Qh' * B ^ sl + (B ^ sl - 1) + 1) * (D + 1) := by
        have e : Qh' * B ^ sl + (B ^ sl - 1) + 1 = (Qh' + 1) * B ^ sl := by
          have : (Qh' + 1) * B ^ sl = Qh' * B ^ sl + B ^ sl := by ring
          omega
        rw [e]
        have : (Qh' + 1) * B ^ sl * D ≤ (Qh' + 1) * B ^ sl * (D + 1) := Nat.mul_le_mul_left _ (by omega)
        omega
      exact r3_bound (n - 1) _ _ D _ t4 W hQ hD hXXt hbnd' (Nat.mul_div_le _ _) hfl'
    have ht4B3 : t4 < B ^ 3 := by
      rw [B3']
      have h1 : (n - 1 + 2) * B ≤ B * B := Nat.mul_le_mul_right _ (by omega)
      have h2 : B * B * 2 ≤ B * B * B := Nat.mul_le_mul_left _ (by rw [B_eq]; omega)
      omega
    have hu : cyf * B ^ (sl - 1) * B ^ 3 = B ^ (sl + 2) * cyf := by
      rw [Nat.mul_assoc, ← pow_add]
      have : sl - 1 + 3 = sl + 2 := by omega
      rw [this]; ring
    have hXB : X / B < B ^ (sl + 1) := by
      rw [Nat.div_lt_iff_lt_mul hB, ← pow_succ]; exact hX
    obtain ⟨s1, _⟩ := sat_eq sl X (D / B ^ sh) (cyf * B ^ (sl - 1)) t4 (by omega) hDk hXB (by rw [hu, ← hF]; omega) ht4B3
    rw [s1]
    refine ⟨trivial, Nat.zero_le _, hQl, ?_, hXXt⟩
    have e : Qh' * B ^ sl + (B ^ sl - 1) + 1 = (Qh' + 1) * B ^ sl := by
      have : (Qh' + 1) * B ^ sl = Qh' * B ^ sl + B ^ sl := by ring
      omega
    rw [e]; exact hfl
  · rw [if_neg hc]
    simp only []
    have hcy0 : cyf = 0 := by
      by_contra h; exact hc (Or.inl h)
    have hXlt : X / B < D / B ^ sh := by
      by_contra h; exact hc (Or.inr (by omega))
    subst hcy0
    rw [Nat.mul_zero, Nat.add_zero] at hXX
    have hlow := Nat.mod_lt W (Bpow_pos (n - 1))
    have hNl : W % B ^ (n - 1) + B ^ (n - 1) * X < B ^ (dn + sl) := by
      have e : B ^ (dn + sl) = B ^ (n - 1) * B ^ (sl + 2) := by rw [← pow_add]; congr 1; omega
      rw [e]
      have : B ^ (n - 1) * (X + 1) ≤ B ^ (n - 1) * B ^ (sl + 2) := Nat.mul_le_mul_left _ hX
      nlinarith
    have es : dn - (sl + 1) = sh := by omega
    have eNl : (W % B ^ (n - 1) + B ^ (n - 1) * X) / B ^ (n - 1) = X := by
      have : W % B ^ (n - 1) + B ^ (n - 1) * X = X * B ^ (n - 1) + W % B ^ (n - 1) := by ring
      rw [this, div_of_split _ _ _ hlow]
    have e1 : (W % B ^ (n - 1) + B ^ (n - 1) * X) / B ^ sh / B ^ sl = X / B := by
      rw [div_pow_add, show sh + sl = (n - 1) + 1 by omega, ← div_pow_succ', eNl]
    have e2 : (W % B ^ (n - 1) + B ^ (n - 1) * X) / B ^ sh / B ^ (sl - 1) = X := by
      rw [div_pow_add, show sh + (sl - 1) = n - 1 by omega, eNl]
    obtain ⟨c1, c2, c3, c4, c5⟩ := sub_spec C n dn D sl (W % B ^ (n - 1) + B ^ (n - 1) * X) recur hrec hdn (by omega)
      (by omega) (by rw [hdn]; exact hD) (by rw [hdn]; exact hnorm) (by omega) hNl (by rw [es, e1]; exact hXlt)
    rw [es] at c4 c5
    rw [e2] at c5
    generalize (if sl < C then sbLeaf (dn + sl) dn (W % B ^ (n - 1) + B ^ (n - 1) * X) D
      else recur (dn + sl) dn (W % B ^ (n - 1) + B ^ (n - 1) * X) D) = r at *
    refine ⟨c1, c3, c2, ?_, ?_⟩
    · have h1 := tS_hi_le n sl sh D Qh' hn (by omega) hQh'
      have h2 := lt_mul_div_succ' (W % B ^ (n - 1) + B ^ (n - 1) * X) (B ^ sh) hPh
      have h3 : B ^ sh * (D / B ^ sh) ≤ D := Nat.mul_div_le _ _
      have h4 : B ^ sh * ((W % B ^ (n - 1) + B ^ (n - 1) * X) / B ^ sh + 1) ≤ B ^ sh * ((r.q + 1) * (D / B ^ sh)) :=
        Nat.mul_le_mul_left _ c4
      have h5 : (r.q + 1) * (B ^ sh * (D / B ^ sh)) ≤ (r.q + 1) * D := Nat.mul_le_mul_left _ h3
      have h6 : B ^ sh * ((r.q + 1) * (D / B ^ sh)) = (r.q + 1) * (B ^ sh * (D / B ^ sh)) := by ring
      have hW := Nat.div_add_mod W (B ^ (n - 1))
      rw [hXX] at hW
      have h7 : B ^ (n - 1) * (tS D Qh' sh + X) = B ^ (n - 1) * tS D Qh' sh + B ^ (n - 1) * X := by ring
      have h8 : (Qh' * B ^ sl + r.q + 1) * D = Qh' * B ^ sl * D + (r.q + 1) * D := by ring
      omega
    · rw [hsplit _ c2, hXX, c5]; ring

theorem pow_sub_one_mod (n : Nat) (hn : 1 ≤ n) : (B ^ n - 1) % B = B - 1 := by
  have hB := B_pos
  obtain ⟨j, rfl⟩ : ∃ j, n = j + 1 := ⟨n - 1, by omega⟩
  have hP := Bpow_pos j
  have e : B ^ (j + 1) - 1 = (B ^ j - 1) * B + (B - 1) := by
    rw [pow_succ]
    have : (B ^ j - 1) * B + B = B ^ j * B := by
      calc (B ^ j - 1) * B + B = (B ^ j - 1 + 1) * B := by ring
        _ = B ^ j * B := by rw [Nat.sub_add_cancel hP]
    omega
  rw [e, mod_of_split _ _ _ (by omega)]

/-- dc_divappr_q.c:77-93, the rare case -/
theorem rare_spec (n W D : Nat) (hn : 2 ≤ n) (hD : D < B ^ (n + 1)) (hnorm : B ^ (n + 1) ≤ 2 * D) (hW : W < D * B ^ n)
    (hsz : 2 * (n + 2) ≤ B) (hc : D / B ≤ W / B ^ (n + 1)) :
    (helper3 n (W / B ^ (n - 1) % B) (W / B ^ n) D / B ^ 2 ≥ B / 2 →
      W < (B ^ n - 2 + 1) * D ∧
      W / B ^ (n - 1) = tS D (B ^ n - 2) n + (helper3 n (W / B ^ (n - 1) % B) (W / B ^ n) D + D / B ^ (n - 1)) % B ^ 3) ∧
    (¬ helper3 n (W / B ^ (n - 1) % B) (W / B ^ n) D / B ^ 2 ≥ B / 2 →
      W / B ^ (n - 1) = tS D (B ^ n - 1) n + helper3 n (W / B ^ (n - 1) % B) (W / B ^ n) D) := by
  have hB := B_pos
  have hB2 : 2 ≤ B := by rw [B_eq]; omega
  have hPn := Bpow_pos n
  obtain ⟨j, hj⟩ : ∃ j, n = j + 1 := ⟨n - 1, by omega⟩
  have hj' : n - 1 = j := by omega
  have eXB : W / B ^ (n - 1) / B = W / B ^ n := by rw [div_pow_succ']; congr 2; omega
  have hXlt : W / B ^ (n - 1) < B * D := by
    rw [Nat.div_lt_iff_lt_mul (Bpow_pos _)]
    have e0 : B ^ n = B ^ (n - 1) * B := by rw [← pow_succ]; congr 1; omega
    have : B * D * B ^ (n - 1) = D * B ^ n := by
      rw [e0]; ring
    rw [this]; exact hW
  have hXB : W / B ^ (n - 1) / B < B ^ (n + 1) := by
    rw [Nat.div_lt_iff_lt_mul hB]
    have : B * D ≤ B ^ (n + 1) * B := by
      have := Nat.mul_le_mul_left B hD.le
      rw [Nat.mul_comm (B ^ (n + 1))]; exact this
    omega
  -- XX ≥ B·D - B·(B-1)
  have hXge : B * D ≤ W / B ^ (n - 1) + B * B := by
    have e1 : W / B ^ (n - 1) / B ^ 2 = W / B ^ (n + 1) := by rw [div_pow_add]; congr 2; omega
    have h1 : B ^ 2 * (W / B ^ (n - 1) / B ^ 2) ≤ W / B ^ (n - 1) := Nat.mul_div_le _ _
    rw [e1, B2'] at h1
    have h2 : B * B * (D / B) ≤ B * B * (W / B ^ (n + 1)) := Nat.mul_le_mul_left _ hc
    have h3 := Nat.div_add_mod D B
    have h4 := Nat.mod_lt D hB
    have h5 : B * D = B * B * (D / B) + B * (D % B) := by
      conv_lhs => rw [← h3]
      ring
    have h6 : B * (D % B + 1) ≤ B * B := Nat.mul_le_mul_left _ h4
    have h7 : B * (D % B + 1) = B * (D % B) + B := by ring
    omega
  have hF1 : B ^ 2 ≤ 2 * (D / B ^ (n - 1)) :=
    half_norm 0 D (B ^ (n - 1)) (Bpow_pos _) (by rw [← pow_add]; rw [show n - 1 + (0 + 2) = n + 1 by omega]; exact hnorm)
  have hF2 : D / B ^ (n - 1) < B * B := by
    rw [Nat.div_lt_iff_lt_mul (Bpow_pos _)]
    have : B * B * B ^ (n - 1) = B ^ (n + 1) := by
      rw [show n + 1 = 1 + 1 + (n - 1) by omega, pow_add, pow_add, pow_one]
    rw [this]; exact hD
  rw [B2'] at hF1
  have hS := sumd_le (n - 1) D
  have hnB : (n - 1) * B + 3 * B ≤ B * B := by
    calc (n - 1) * B + 3 * B = (n - 1 + 3) * B := by ring
      _ ≤ B * B := Nat.mul_le_mul_right _ (by omega)
  have hB3 : B * B * 2 ≤ B ^ 3 := by rw [B3']; exact Nat.mul_le_mul_left _ hB2
  have hB3' : B * B * (B - 1) + B * B = B ^ 3 := by
    rw [B3']
    calc B * B * (B - 1) + B * B = B * B * (B - 1 + 1) := by ring
      _ = B * B * B := by rw [Nat.sub_add_cancel hB]
  have hsat := tS_sat j D
  rw [← hj, ← hj'] at hsat
  obtain ⟨F, hF⟩ : ∃ F, F = D / B ^ (n - 1) := ⟨_, rfl⟩
  rw [← hF] at hF1 hF2 hsat ⊢
  rw [← eXB]
  by_cases hsign : B * D ≤ W / B ^ (n - 1) + F + sumd D (n - 1)
  · -- non-negative
    obtain ⟨t, ht⟩ : ∃ t, W / B ^ (n - 1) + F + sumd D (n - 1) + 0 * B ^ 3 = B * D + t :=
      ⟨W / B ^ (n - 1) + F + sumd D (n - 1) - B * D, by omega⟩
    have htlt : t < B * B * 2 := by omega
    obtain ⟨s1, s2⟩ := sat_eq n (W / B ^ (n - 1)) D 0 t (by omega) hD hXB (by rw [← hF]; exact ht) (by omega)
    rw [s1]
    have htd : t / B ^ 2 < 2 := by rw [Nat.div_lt_iff_lt_mul (Bpow_pos 2), B2']; omega
    have hBh : 2 ≤ B / 2 := by rw [B_eq]; omega
    constructor
    · intro h; exfalso; omega
    · intro _; omega
  · -- negative
    obtain ⟨sg, hsg⟩ : ∃ sg, W / B ^ (n - 1) + F + sumd D (n - 1) + sg = B * D :=
      ⟨B * D - (W / B ^ (n - 1) + F + sumd D (n - 1)), by omega⟩
    have hsg1 : 1 ≤ sg := by omega
    have hsg2 : sg + F ≤ B * B := by omega
    obtain ⟨s1, s2⟩ := sat_eq n (W / B ^ (n - 1)) D 1 (B ^ 3 - sg) (by omega) hD hXB (by rw [← hF]; omega) (by omega)
    rw [s1]
    have hdec := tS_dec n 0 D (B ^ n - 1) (by rw [pow_zero, Nat.mul_one]; omega)
      (by rw [pow_sub_one_mod n (by omega)]; omega)
    rw [pow_zero, Nat.mul_one, Nat.sub_zero, ← hF] at hdec
    have hd0 : sumd F 0 = 0 := rfl
    rw [hd0, Nat.add_zero] at hdec
    have e2 : B ^ n - 1 - 1 = B ^ n - 2 := by omega
    rw [e2] at hdec
    have hr3' : (B ^ 3 - sg + F) % B ^ 3 = F - sg := by
      have : B ^ 3 - sg + F = (F - sg) + B ^ 3 := by omega
      rw [this, Nat.add_mod_right, Nat.mod_eq_of_lt (by omega)]
    constructor
    · intro _
      rw [hr3']
      refine ⟨?_, by omega⟩
      have hb := (tS_bounds n D (B ^ n - 1) (by omega)).1
      have hlt := lt_mul_div_succ' W (B ^ (n - 1)) (Bpow_pos _)
      have hXlt2 : W / B ^ (n - 1) + 1 ≤ tS D (B ^ n - 1) n := by omega
      have h1 : B ^ (n - 1) * (W / B ^ (n - 1) + 1) ≤ B ^ (n - 1) * tS D (B ^ n - 1) n := Nat.mul_le_mul_left _ hXlt2
      have e3 : B ^ n = B * B ^ (n - 1) := by rw [← pow_succ']; congr 1; omega
      rw [e3] at hb
      have h2 : B * (B ^ (n - 1) * tS D (B * B ^ (n - 1) - 1) n) ≤ B * ((B * B ^ (n - 1) - 1) * D) := by
        rw [← Nat.mul_assoc]; exact hb
      have h3 := Nat.le_of_mul_le_mul_left h2 hB
      rw [← e3] at h3
      have hPn2 : 2 ≤ B ^ n := by
        calc 2 ≤ B := hB2
          _ = B ^ 1 := (pow_one B).symm
          _ ≤ B ^ n := Nat.pow_le_pow_right hB (by omega)
      have : B ^ n - 2 + 1 = B ^ n - 1 := by omega
      rw [this]; omega
    · intro h; exfalso
      apply h
      have : B * B * (B - 1) ≤ B ^ 3 - sg := by omega
      have : B - 1 ≤ (B ^ 3 - sg) / B ^ 2 := by
        rw [Nat.le_div_iff_mul_le (Bpow_pos 2), B2']
        rw [Nat.mul_comm]; exact this
      rw [B_eq] at *; omega

/-- dc_divappr_q.c:72-147 (everything after the reduction loop), repaired C: the invariant of the header of this file -/
theorem dcTail_spec (C n dn W D Qup qh qn0 : Nat) (ok0 : Bool) (recur : Nat → Nat → Nat → Nat → Res)
    (hrec : RecOK C n dn D recur) (hdn : dn = n + 1) (hn3 : 3 ≤ n) (hD : D < B ^ (n + 1))
    (hnorm : B ^ (n + 1) ≤ 2 * D) (hW : W < D * B ^ n) (hsz : 2 * (n + 2) ≤ B) (hqh : qh ≤ 1) :
    (dcTail true C sbLeaf recur n dn W D Qup qh qn0 ok0).ok = ok0 ∧
    (dcTail true C sbLeaf recur n dn W D Qup qh qn0 ok0).qh = qh ∧
    (dcTail true C sbLeaf recur n dn W D Qup qh qn0 ok0).wl ≤ 1 ∧
    ∃ Ql, Ql < B ^ n ∧ (dcTail true C sbLeaf recur n dn W D Qup qh qn0 ok0).q = Qup * B ^ n + Ql ∧
      W < (Ql + 1) * D ∧ W / B ^ (n - 1) = tS D Ql n + (dcTail true C sbLeaf recur n dn W D Qup qh qn0 ok0).r3 := by
  have hB := B_pos
  have hPn := Bpow_pos n
  have hPn2 : 2 ≤ B ^ n := by
    calc 2 ≤ B := by rw [B_eq]; omega
      _ = B ^ 1 := (pow_one B).symm
      _ ≤ B ^ n := Nat.pow_le_pow_right hB (by omega)
  unfold dcTail
  simp only []
  have e1 : W / B ^ (n + 1) / B ^ (n - 1) = W / B ^ (2 * n) := by rw [div_pow_add]; congr 2; omega
  have e2 : D / B / B ^ (n - 1) = D / B ^ n := by rw [div_pow_succ]; congr 2; omega
  have hlex := lex_ge (W / B ^ (n + 1)) (D / B) (B ^ (n - 1)) (Bpow_pos _)
  rw [e1, e2] at hlex
  by_cases hrare : W / B ^ (2 * n) > D / B ^ n ∨ (W / B ^ (2 * n) = D / B ^ n ∧ W / B ^ (n + 1) % B ^ (n - 1) ≥ D / B % B ^ (n - 1))
  · rw [if_pos hrare]
    obtain ⟨r1, r2⟩ := rare_spec n W D (by omega) hD hnorm hW hsz (hlex.mp hrare)
    simp only [Bool.true_and, decide_eq_true_eq]
    by_cases hs : helper3 n (W / B ^ (n - 1) % B) (W / B ^ n) D / B ^ 2 ≥ B / 2
    · rw [if_pos hs]
      obtain ⟨f1, f2⟩ := r1 hs
      exact ⟨rfl, rfl, Nat.zero_le _, B ^ n - 2, by omega, rfl, f1, f2⟩
    · rw [if_neg hs]
      have f2 := r2 hs
      refine ⟨rfl, rfl, Nat.zero_le _, B ^ n - 1, by omega, rfl, ?_, f2⟩
      rw [Nat.sub_add_cancel hPn, Nat.mul_comm]; exact hW
  · rw [if_neg hrare]
    obtain ⟨sh, hsh⟩ : ∃ sh, sh = n / 2 := ⟨_, rfl⟩
    obtain ⟨sl, hsl⟩ : ∃ sl, sl = n - sh := ⟨_, rfl⟩
    rw [← hsh, ← hsl]
    have hnsum : n = sl + sh := by omega
    have hsh1 : 1 ≤ sh := by omega
    have hsl2 : 2 ≤ sl := by omega
    obtain ⟨h1, h2, h3, h4, h5⟩ := hiPart_spec C n dn W D sl sh recur hrec hdn hnsum hsh1 (by omega) hD hnorm hW hsz
    generalize hiPart C sbLeaf recur n dn W D sl sh = hi at *
    obtain ⟨Qh', X, cyf, cnt, erun, m1, m2, m3, m4, m5, m6⟩ :=
      mid_spec n sl sh W D Qup qh qn0 hi.1 hi.2.1 hnsum hsh1 (by omega) hD hnorm hsz hqh h3 h4 h5
    rw [erun]
    simp only []
    obtain ⟨l1, l2, l3, l4, l5⟩ := loPart_spec C n dn W D sl sh X cyf Qh' recur hrec hdn hnsum hsh1 hsl2 hD hnorm hsz
      m2 m3 m1 m5 m6
    generalize loPart C sbLeaf recur n dn W D sl sh X cyf = lo at *
    refine ⟨by rw [h1, l1]; simp, trivial, by omega, Qh' * B ^ sl + lo.1, ?_, ?_, l4, l5⟩
    · rw [hnsum, Nat.add_comm sl sh, pow_add]
      have : (Qh' + 1) * B ^ sl ≤ B ^ sh * B ^ sl := Nat.mul_le_mul_right _ m1
      have e : (Qh' + 1) * B ^ sl = Qh' * B ^ sl + B ^ sl := by ring
      omega
    · rw [hnsum, Nat.add_comm sl sh, pow_add]; ring

/-! ## the exact reduction loop dc_divappr_q.c:64-70 -/

theorem redStep_spec (T dn sh Wt D : Nat) (hT : 6 ≤ T) (hdn : 3 ≤ dn) (hsh1 : 1 ≤ sh) (hshdn : sh ≤ dn)
    (hD : D < B ^ dn) (hnorm : B ^ dn ≤ 2 * D) (hWt : Wt < D * B ^ sh) :
    (if sh ≤ T then sbQr (dn + sh) dn Wt D else dcDivQr T (dn + sh) dn Wt D).ok = true ∧
    (if sh ≤ T then sbQr (dn + sh) dn Wt D else dcDivQr T (dn + sh) dn Wt D).q = Wt / D ∧
    (if sh ≤ T then sbQr (dn + sh) dn Wt D else dcDivQr T (dn + sh) dn Wt D).r = Wt % D := by
  have hD0 : 0 < D := by
    have := Bpow_pos dn; omega
  have hq : Wt / D < B ^ sh := by rw [Nat.div_lt_iff_lt_mul hD0, Nat.mul_comm]; exact hWt
  have hN : Wt < B ^ (dn + sh) := by
    rw [pow_add]
    have : D * B ^ sh ≤ B ^ dn * B ^ sh := Nat.mul_le_mul_right _ hD.le
    omega
  have hhalf : B ^ dn / 2 ≤ D := by omega
  by_cases h : sh ≤ T
  · rw [if_pos h]
    unfold sbQr
    simp only [Nat.add_sub_cancel_left]
    refine ⟨?_, Nat.mod_eq_of_lt hq, trivial⟩
    simp [hhalf, hD, hN]; omega
  · rw [if_neg h]
    obtain ⟨⟨ok, id, hr, hq', hqh, _⟩, _⟩ := dcDivQr_spec T (dn + sh) dn Wt D hT (by omega) (by omega) hnorm hD hN
    rw [Nat.add_sub_cancel_left] at id hq'
    obtain ⟨e1, e2⟩ := Mpir.DivWord.divmod_of_eq Wt D _ _ id hr
    generalize dcDivQr T (dn + sh) dn Wt D = r at *
    have hqh0 : r.qh = 0 := by
      rcases Nat.eq_zero_or_pos r.qh with h0 | h0
      · exact h0
      · exfalso
        have : 1 * B ^ sh ≤ r.qh * B ^ sh := Nat.mul_le_mul_right _ h0
        omega
    rw [hqh0, Nat.zero_mul, Nat.zero_add] at e1
    exact ⟨ok, e1.symm, e2.symm⟩

theorem redLoop_spec (T dn D : Nat) (hT : 6 ≤ T) (hdn : 3 ≤ dn) (hD : D < B ^ dn) (hnorm : B ^ dn ≤ 2 * D) :
    ∀ (fuel qn W Qup : Nat) (ok : Bool), dn - 1 ≤ qn → qn - (dn - 1) ≤ fuel → W < D * B ^ qn →
      (redLoop T dn D fuel qn W Qup ok).1 = dn - 1 ∧ (redLoop T dn D fuel qn W Qup ok).2.2.2 = ok ∧
      ∃ Qr, Qr < B ^ (qn - (dn - 1)) ∧ (redLoop T dn D fuel qn W Qup ok).2.2.1 = Qup * B ^ (qn - (dn - 1)) + Qr ∧
        W = Qr * D * B ^ (dn - 1) + (redLoop T dn D fuel qn W Qup ok).2.1 ∧
        (redLoop T dn D fuel qn W Qup ok).2.1 < D * B ^ (dn - 1)
  | 0, qn, W, Qup, ok, h1, h2, hW => by
    have e : qn = dn - 1 := by omega
    subst e
    exact ⟨rfl, rfl, 0, by simp, by simp [redLoop], by simp [redLoop], hW⟩
  | fuel + 1, qn, W, Qup, ok, h1, h2, hW => by
    unfold redLoop
    by_cases hc : dn - 1 < qn
    · rw [if_pos hc]
      simp only []
      obtain ⟨sh, hsh⟩ : ∃ sh, sh = min dn (qn - dn + 1) := ⟨_, rfl⟩
      rw [← hsh]
      have hsh1 : 1 ≤ sh := by omega
      have hshdn : sh ≤ dn := by omega
      have hshq : sh ≤ qn - dn + 1 := by omega
      have hP := Bpow_pos (qn - sh)
      have hD0 : 0 < D := by have := Bpow_pos dn; omega
      have eq : B ^ qn = B ^ sh * B ^ (qn - sh) := by rw [← pow_add]; congr 1; omega
      have hWt : W / B ^ (qn - sh) < D * B ^ sh := by
        rw [Nat.div_lt_iff_lt_mul hP, Nat.mul_assoc, ← eq]; exact hW
      obtain ⟨s1, s2, s3⟩ := redStep_spec T dn sh (W / B ^ (qn - sh)) D hT hdn hsh1 hshdn hD hnorm hWt
      generalize (if sh ≤ T then sbQr (dn + sh) dn (W / B ^ (qn - sh)) D
        else dcDivQr T (dn + sh) dn (W / B ^ (qn - sh)) D) = r at *
      have hqlt : r.q < B ^ sh := by
        rw [s2, Nat.div_lt_iff_lt_mul hD0, Nat.mul_comm]; exact hWt
      have hrlt : r.r < D := by rw [s3]; exact Nat.mod_lt _ hD0
      have hdm := Nat.div_add_mod (W / B ^ (qn - sh)) D
      rw [← s2, ← s3] at hdm
      have hWdm := Nat.div_add_mod W (B ^ (qn - sh))
      have hWm := Nat.mod_lt W hP
      have hW' : W % B ^ (qn - sh) + B ^ (qn - sh) * r.r < D * B ^ (qn - sh) := by
        have : B ^ (qn - sh) * (r.r + 1) ≤ B ^ (qn - sh) * D := Nat.mul_le_mul_left _ hrlt
        nlinarith
      have hok : (ok && r.ok) = ok := by rw [s1, Bool.and_true]
      rw [hok]
      obtain ⟨i1, i2, Qr, i3, i4, i5, i6⟩ := redLoop_spec T dn D hT hdn hD hnorm fuel (qn - sh)
        (W % B ^ (qn - sh) + B ^ (qn - sh) * r.r) (Qup * B ^ sh + r.q) ok (by omega) (by omega) hW'
      refine ⟨i1, i2, r.q * B ^ (qn - sh - (dn - 1)) + Qr, ?_, ?_, ?_, i6⟩
      · have e : B ^ (qn - (dn - 1)) = B ^ sh * B ^ (qn - sh - (dn - 1)) := by rw [← pow_add]; congr 1; omega
        rw [e]
        have : (r.q + 1) * B ^ (qn - sh - (dn - 1)) ≤ B ^ sh * B ^ (qn - sh - (dn - 1)) := Nat.mul_le_mul_right _ hqlt
        nlinarith
      · rw [i4]
        have e : B ^ (qn - (dn - 1)) = B ^ sh * B ^ (qn - sh - (dn - 1)) := by rw [← pow_add]; congr 1; omega
        rw [e]; ring
      · have e : B ^ (qn - sh) = B ^ (qn - sh - (dn - 1)) * B ^ (dn - 1) := by rw [← pow_add]; congr 1; omega
        have hthis : W = (D * r.q + r.r) * B ^ (qn - sh) + W % B ^ (qn - sh) := by rw [hdm]; linarith
        generalize (redLoop T dn D fuel (qn - sh) (W % B ^ (qn - sh) + B ^ (qn - sh) * r.r) (Qup * B ^ sh + r.q) ok).2.1 = Wf at *
        generalize W % B ^ (qn - sh) = Wl at *
        rw [e] at hthis i5
        generalize B ^ (qn - sh - (dn - 1)) = E at *
        generalize B ^ (dn - 1) = Bd at *
        calc W = D * r.q * (E * Bd) + (Wl + E * Bd * r.r) := by rw [hthis]; ring
          _ = D * r.q * (E * Bd) + (Qr * D * Bd + Wf) := by rw [i5]
          _ = (r.q * E + Qr) * D * Bd + Wf := by ring
    · rw [if_neg hc]
      have e : qn = dn - 1 := by omega
      subst e
      exact ⟨rfl, rfl, 0, by simp, by simp, by simp, hW⟩

/-! ## the whole routine -/

/-- what a call of mpn_dc_divappr_q guarantees, relative to the divisor limbs it uses (dn = min (dn0, qn0 + 1) of them, Dc) and
    the dividend limbs it reads (Nc) -/
def CallSpec (nn dn0 N D0 : Nat) (r : Res) : Prop :=
  let qn0 := nn - dn0
  let dn := if qn0 + 1 < dn0 then qn0 + 1 else dn0
  let Dc := D0 / B ^ (dn0 - dn)
  let Nc := N / B ^ (dn0 - dn)
  r.ok = true ∧ r.q < B ^ qn0 ∧ r.qh ≤ 1 ∧ r.wl ≤ 1 ∧
  Nc < (r.qh * B ^ qn0 + r.q + 1) * Dc ∧ (r.qh * B ^ qn0 + r.q) * Dc ≤ Nc + (dn - 1) * B ^ (dn - 1) ∧
  (qn0 + 1 < dn0 → Nc / B ^ qn0 < Dc → r.qh = 0 ∧ Nc / B ^ (qn0 - 1) = tS Dc r.q qn0 + r.r3)

theorem dcDivapprF_succ (rep : Bool) (T C : Nat) (leaf : Leaf) (fuel nn dn0 N D0 : Nat) :
    dcDivapprF rep T C leaf (fuel + 1) nn dn0 N D0 =
      (let qn0 := nn - dn0
       let cut := decide (qn0 + 1 < dn0)
       let D := if cut then D0 / B ^ (dn0 - (qn0 + 1)) else D0
       let dn := if cut then qn0 + 1 else dn0
       let top := N / B ^ (nn - dn)
       let qh := if top ≥ D then 1 else 0
       let top := if qh ≠ 0 then top - D else top
       let W0 := N / B ^ (nn - dn - qn0) % B ^ qn0 + B ^ qn0 * top
       let lp := redLoop T dn D qn0 qn0 W0 0 true
       let n := lp.1
       let ok0 := lp.2.2.2 && decide (dn = n + 1) && decide (2 ≤ n)
       dcTail rep C leaf (fun a b c d => dcDivapprF rep T C leaf fuel a b c d) n dn lp.2.1 D lp.2.2.1 qh qn0 ok0) := rfl

/-- the core of a call once the cut is resolved: dn limbs of divisor Dc, s ignored limbs -/
theorem call_core (T C : Nat) (hT : 6 ≤ T) (fuel qn0 dn Nc Dc : Nat) (hdn4 : 4 ≤ dn) (hdnq : dn ≤ qn0 + 1)
    (hDc : Dc < B ^ dn) (hnorm : B ^ dn ≤ 2 * Dc) (hNc : Nc < B ^ (dn + qn0)) (hsz : 2 * dn + 2 ≤ B)
    (hrec : RecOK C (dn - 1) dn Dc (fun a b c d => dcDivapprF true T C sbLeaf fuel a b c d))
    (top qh top' W0 : Nat) (etop : top = Nc / B ^ qn0) (eqh : qh = if top ≥ Dc then 1 else 0)
    (etop' : top' = if qh ≠ 0 then top - Dc else top) (eW0 : W0 = Nc % B ^ qn0 + B ^ qn0 * top')
    (lp : Nat × Nat × Nat × Bool) (elp : lp = redLoop T dn Dc qn0 qn0 W0 0 true) (r : Res)
    (er : r = dcTail true C sbLeaf (fun a b c d => dcDivapprF true T C sbLeaf fuel a b c d) lp.1 dn lp.2.1 Dc lp.2.2.1 qh qn0
      (lp.2.2.2 && decide (dn = lp.1 + 1) && decide (2 ≤ lp.1))) :
    r.ok = true ∧ r.q < B ^ qn0 ∧ r.qh ≤ 1 ∧ r.wl ≤ 1 ∧ r.qh = qh ∧
    Nc < (r.qh * B ^ qn0 + r.q + 1) * Dc ∧ (r.qh * B ^ qn0 + r.q) * Dc ≤ Nc + (dn - 1) * B ^ (dn - 1) ∧
    (dn = qn0 + 1 → qh = 0 → Nc / B ^ (qn0 - 1) = tS Dc r.q qn0 + r.r3) := by
  have hB := B_pos
  have hPq := Bpow_pos qn0
  have hD0 : 0 < Dc := by have := Bpow_pos dn; omega
  have htop : top < B ^ dn := by
    rw [etop, Nat.div_lt_iff_lt_mul hPq, ← pow_add]; exact hNc
  have hqh : qh ≤ 1 := by
    rw [eqh]; split <;> omega
  have htop' : top = qh * Dc + top' ∧ top' < Dc := by
    rw [etop', eqh]
    by_cases h : top ≥ Dc
    · rw [if_pos h]; simp only [ne_eq, one_ne_zero, not_false_eq_true, if_true, Nat.one_mul]; omega
    · rw [if_neg h]; simp only [ne_eq, not_true_eq_false, if_false, Nat.zero_mul]; omega
  obtain ⟨ht1, ht2⟩ := htop'
  have hNcdm := Nat.div_add_mod Nc (B ^ qn0)
  have hNcm := Nat.mod_lt Nc hPq
  rw [← etop] at hNcdm
  have hW0 : W0 < Dc * B ^ qn0 := by
    rw [eW0]
    have : B ^ qn0 * (top' + 1) ≤ B ^ qn0 * Dc := Nat.mul_le_mul_left _ ht2
    nlinarith
  have hNcW : Nc = qh * Dc * B ^ qn0 + W0 := by
    rw [eW0]
    have : B ^ qn0 * top = B ^ qn0 * (qh * Dc + top') := by rw [← ht1]
    have e : B ^ qn0 * (qh * Dc + top') = qh * Dc * B ^ qn0 + B ^ qn0 * top' := by ring
    omega
  obtain ⟨l1, l2, Qr, l3, l4, l5, l6⟩ := redLoop_spec T dn Dc hT (by omega) hDc hnorm qn0 qn0 W0 0 true (by omega) (by omega) hW0
  rw [← elp] at l1 l2 l4 l5 l6
  have hok0 : (lp.2.2.2 && decide (dn = lp.1 + 1) && decide (2 ≤ lp.1)) = true := by
    rw [l1, l2]; simp; omega
  have hn : lp.1 = dn - 1 := l1
  have hspec := dcTail_spec C (dn - 1) dn lp.2.1 Dc lp.2.2.1 qh qn0 (lp.2.2.2 && decide (dn = lp.1 + 1) && decide (2 ≤ lp.1))
    (fun a b c d => dcDivapprF true T C sbLeaf fuel a b c d) hrec (by omega) (by omega)
    (by rw [show dn - 1 + 1 = dn by omega]; exact hDc) (by rw [show dn - 1 + 1 = dn by omega]; exact hnorm) l6 (by omega) hqh
  have hr : r = dcTail true C sbLeaf (fun a b c d => dcDivapprF true T C sbLeaf fuel a b c d) (dn - 1) dn lp.2.1 Dc lp.2.2.1 qh qn0
      (lp.2.2.2 && decide (dn = lp.1 + 1) && decide (2 ≤ lp.1)) := by
    rw [er, hn]
  rw [← hr] at hspec
  obtain ⟨t1, t2, t3, Ql, t4, t5, t6, t7⟩ := hspec
  rw [hok0] at t1
  have l4' : lp.2.2.1 = Qr := by
    rw [l4]; simp
  rw [l4'] at t5
  have l5' : W0 = Qr * Dc * B ^ (dn - 1) + lp.2.1 := l5
  generalize lp.2.1 = Wr at *
  have ePq : B ^ qn0 = B ^ (qn0 - (dn - 1)) * B ^ (dn - 1) := by rw [← pow_add]; congr 1; omega
  have hqlt : r.q < B ^ qn0 := by
    rw [t5, ePq]
    have : (Qr + 1) * B ^ (dn - 1) ≤ B ^ (qn0 - (dn - 1)) * B ^ (dn - 1) := Nat.mul_le_mul_right _ l3
    nlinarith
  -- Ql·Dc ≤ Wr + n·B^n
  have hup : Ql * Dc ≤ Wr + (dn - 1) * B ^ (dn - 1) := by
    have hb := (tS_bounds (dn - 1) Dc Ql t4).2
    have h1 : B ^ (dn - 1 - 1) * (Wr / B ^ (dn - 1 - 1)) ≤ Wr := Nat.mul_div_le _ _
    have e1 : B ^ (dn - 1) = B * B ^ (dn - 1 - 1) := by rw [← pow_succ']; congr 1; omega
    have e2 : B ^ (dn - 1 + 1) = B * B ^ (dn - 1) := by rw [pow_succ']
    rw [e2] at hb
    have h2 : B ^ (dn - 1 - 1) * tS Dc Ql (dn - 1) ≤ B ^ (dn - 1 - 1) * (Wr / B ^ (dn - 1 - 1)) :=
      Nat.mul_le_mul_left _ (by omega)
    have h3 : B * (Ql * Dc) ≤ B * (Wr + (dn - 1) * B ^ (dn - 1)) := by
      calc B * (Ql * Dc) ≤ B ^ (dn - 1) * tS Dc Ql (dn - 1) + (dn - 1) * (B * B ^ (dn - 1)) := hb
        _ = B * (B ^ (dn - 1 - 1) * tS Dc Ql (dn - 1)) + B * ((dn - 1) * B ^ (dn - 1)) := by rw [e1]; ring
        _ ≤ B * Wr + B * ((dn - 1) * B ^ (dn - 1)) := by
            have := Nat.mul_le_mul_left B (le_trans h2 h1); omega
        _ = B * (Wr + (dn - 1) * B ^ (dn - 1)) := by ring
    exact Nat.le_of_mul_le_mul_left h3 hB
  have hQf : r.qh * B ^ qn0 + r.q = qh * B ^ qn0 + Qr * B ^ (dn - 1) + Ql := by rw [t2, t5]; ring
  have hNc2 : Nc = (qh * B ^ qn0 + Qr * B ^ (dn - 1)) * Dc + Wr := by rw [hNcW, l5']; ring
  refine ⟨t1, hqlt, by rw [t2]; exact hqh, t3, t2, ?_, ?_, ?_⟩
  · have e : r.qh * B ^ qn0 + r.q + 1 = qh * B ^ qn0 + Qr * B ^ (dn - 1) + (Ql + 1) := by rw [hQf]; ring
    rw [e, hNc2]
    have : (qh * B ^ qn0 + Qr * B ^ (dn - 1) + (Ql + 1)) * Dc = (qh * B ^ qn0 + Qr * B ^ (dn - 1)) * Dc + (Ql + 1) * Dc := by ring
    omega
  · rw [hQf, hNc2]
    have : (qh * B ^ qn0 + Qr * B ^ (dn - 1) + Ql) * Dc = (qh * B ^ qn0 + Qr * B ^ (dn - 1)) * Dc + Ql * Dc := by ring
    omega
  · intro hdq hq0
    have e0 : qn0 - (dn - 1) = 0 := by omega
    rw [e0, pow_zero] at l3
    have hQr0 : Qr = 0 := by omega
    rw [hQr0, Nat.zero_mul, Nat.zero_add] at t5
    rw [hq0, hQr0] at hNc2
    simp only [Nat.zero_mul, Nat.add_zero, Nat.zero_add] at hNc2
    have e1 : dn - 1 = qn0 := by omega
    rw [e1] at t7
    rw [t5, hNc2]; exact t7

theorem norm_div (a s D : Nat) (ha : 2 ≤ a) (hnorm : B ^ (a + s) ≤ 2 * D) : B ^ a ≤ 2 * (D / B ^ s) := by
  obtain ⟨sl, rfl⟩ : ∃ sl, a = sl + 2 := ⟨a - 2, by omega⟩
  exact half_norm sl D (B ^ s) (Bpow_pos _) (by rw [← pow_add, Nat.add_comm]; exact hnorm)

/-- MAIN INDUCTION: every call of the repaired mpn_dc_divappr_q inside its domain keeps `CallSpec` -/
theorem dcDivapprF_spec (T C : Nat) (hT : 6 ≤ T) (hC : 3 ≤ C) :
    ∀ (fuel nn dn0 N D0 : Nat), 3 ≤ nn - dn0 → 4 ≤ dn0 → D0 < B ^ dn0 → B ^ dn0 ≤ 2 * D0 → N < B ^ nn →
      2 * dn0 + 2 ≤ B → nn - dn0 < fuel → CallSpec nn dn0 N D0 (dcDivapprF true T C sbLeaf fuel nn dn0 N D0)
  | 0, _, _, _, _, _, _, _, _, _, _, hf => by omega
  | fuel + 1, nn, dn0, N, D0, hq3, hd4, hD0, hnorm0, hN, hsz, hf => by
    have hB := B_pos
    obtain ⟨qn0, hqn0⟩ : ∃ qn0, qn0 = nn - dn0 := ⟨_, rfl⟩
    have hnn : nn = dn0 + qn0 := by omega
    subst hnn
    -- resolve the cut
    obtain ⟨dn, hdn⟩ : ∃ dn, dn = if qn0 + 1 < dn0 then qn0 + 1 else dn0 := ⟨_, rfl⟩
    have hdn4 : 4 ≤ dn := by rw [hdn]; split <;> omega
    have hdnq : dn ≤ qn0 + 1 := by rw [hdn]; split <;> omega
    have hdnle : dn ≤ dn0 := by rw [hdn]; split <;> omega
    obtain ⟨s, hs⟩ : ∃ s, dn0 = dn + s := ⟨dn0 - dn, by omega⟩
    have hPs := Bpow_pos s
    have hDc : D0 / B ^ s < B ^ dn := by
      rw [Nat.div_lt_iff_lt_mul hPs, ← pow_add, ← hs]; exact hD0
    have hnormc : B ^ dn ≤ 2 * (D0 / B ^ s) := norm_div dn s D0 (by omega) (by rw [← hs]; exact hnorm0)
    have hNc : N / B ^ s < B ^ (dn + qn0) := by
      rw [Nat.div_lt_iff_lt_mul hPs, ← pow_add]
      have : dn + qn0 + s = dn0 + qn0 := by omega
      rw [this]; exact hN
    -- the recursive calls
    have hrec : RecOK C (dn - 1) dn (D0 / B ^ s) (fun a b c d => dcDivapprF true T C sbLeaf fuel a b c d) := by
      intro m Nsub hCm hmn hNsub hpre
      have ih := dcDivapprF_spec T C hT hC fuel (dn + m) dn Nsub (D0 / B ^ s) (by omega) hdn4 hDc hnormc hNsub (by omega)
        (by omega)
      unfold CallSpec at ih
      simp only [Nat.add_sub_cancel_left] at ih
      rw [if_pos (by omega)] at ih
      obtain ⟨i1, i2, i3, i4, i5, i6, i7⟩ := ih
      obtain ⟨j1, j2⟩ := i7 (by omega) hpre
      rw [j1, Nat.zero_mul, Nat.zero_add] at i5
      exact ⟨i1, i2, i4, i5, j2⟩
    -- unfold one level
    have hcore := call_core T C hT fuel qn0 dn (N / B ^ s) (D0 / B ^ s) hdn4 hdnq hDc hnormc hNc (by omega) hrec
      _ _ _ _ rfl rfl rfl rfl _ rfl _ rfl
    have e1 : dn0 + qn0 - dn0 = qn0 := by omega
    have ecall : dcDivapprF true T C sbLeaf (fuel + 1) (dn0 + qn0) dn0 N D0 =
        dcTail true C sbLeaf (fun a b c d => dcDivapprF true T C sbLeaf fuel a b c d)
          (redLoop T dn (D0 / B ^ s) qn0 qn0
            (N / B ^ s % B ^ qn0 + B ^ qn0 *
              (if (if N / B ^ s / B ^ qn0 ≥ D0 / B ^ s then 1 else 0) ≠ 0 then N / B ^ s / B ^ qn0 - D0 / B ^ s
               else N / B ^ s / B ^ qn0)) 0 true).1 dn
          (redLoop T dn (D0 / B ^ s) qn0 qn0
            (N / B ^ s % B ^ qn0 + B ^ qn0 *
              (if (if N / B ^ s / B ^ qn0 ≥ D0 / B ^ s then 1 else 0) ≠ 0 then N / B ^ s / B ^ qn0 - D0 / B ^ s
               else N / B ^ s / B ^ qn0)) 0 true).2.1 (D0 / B ^ s)
          (redLoop T dn (D0 / B ^ s) qn0 qn0
            (N / B ^ s % B ^ qn0 + B ^ qn0 *
              (if (if N / B ^ s / B ^ qn0 ≥ D0 / B ^ s then 1 else 0) ≠ 0 then N / B ^ s / B ^ qn0 - D0 / B ^ s
               else N / B ^ s / B ^ qn0)) 0 true).2.2.1
          (if N / B ^ s / B ^ qn0 ≥ D0 / B ^ s then 1 else 0) qn0
          ((redLoop T dn (D0 / B ^ s) qn0 qn0
            (N / B ^ s % B ^ qn0 + B ^ qn0 *
              (if (if N / B ^ s / B ^ qn0 ≥ D0 / B ^ s then 1 else 0) ≠ 0 then N / B ^ s / B ^ qn0 - D0 / B ^ s
               else N / B ^ s / B ^ qn0)) 0 true).2.2.2 &&
            decide (dn = (redLoop T dn (D0 / B ^ s) qn0 qn0
              (N / B ^ s % B ^ qn0 + B ^ qn0 *
                (if (if N / B ^ s / B ^ qn0 ≥ D0 / B ^ s then 1 else 0) ≠ 0 then N / B ^ s / B ^ qn0 - D0 / B ^ s
                 else N / B ^ s / B ^ qn0)) 0 true).1 + 1) &&
            decide (2 ≤ (redLoop T dn (D0 / B ^ s) qn0 qn0
              (N / B ^ s % B ^ qn0 + B ^ qn0 *
                (if (if N / B ^ s / B ^ qn0 ≥ D0 / B ^ s then 1 else 0) ≠ 0 then N / B ^ s / B ^ qn0 - D0 / B ^ s
                 else N / B ^ s / B ^ qn0)) 0 true).1)) := by
      rw [dcDivapprF_succ]
      simp only [e1]
      have eD : (if decide (qn0 + 1 < dn0) = true then D0 / B ^ (dn0 - (qn0 + 1)) else D0) = D0 / B ^ s := by
        by_cases h : qn0 + 1 < dn0
        · simp only [h, decide_true, if_true]
          rw [if_pos h] at hdn
          congr 2; omega
        · simp only [h, decide_false]
          rw [if_neg h] at hdn
          have : s = 0 := by omega
          rw [this, pow_zero, Nat.div_one]; simp
      have edn : (if decide (qn0 + 1 < dn0) = true then qn0 + 1 else dn0) = dn := by
        rw [hdn]; by_cases h : qn0 + 1 < dn0 <;> simp [h]
      rw [eD, edn]
      have e2 : dn0 + qn0 - dn = s + qn0 := by omega
      rw [e2, Nat.add_sub_cancel, ← div_pow_add]
    rw [ecall]
    obtain ⟨c1, c2, c3, c4, c5, c6, c7, c8⟩ := hcore
    unfold CallSpec
    simp only [e1]
    rw [← hdn]
    have es : dn0 - dn = s := by omega
    rw [es]
    refine ⟨c1, c2, c3, c4, c6, c7, ?_⟩
    intro hcut hpre
    have hq0 : (if N / B ^ s / B ^ qn0 ≥ D0 / B ^ s then 1 else 0) = 0 := by
      rw [if_neg (by omega)]
    rw [if_pos hcut] at hdn
    exact ⟨by rw [c5]; exact hq0, c8 hdn hq0⟩

/-- error budget: from the two halves of `CallSpec` (relative to the limbs used) to ⌊N/D0⌋ or ⌊N/D0⌋ + 1 -/
theorem appr_budget (Q N D0 Ps n Bn : Nat) (hPs : 0 < Ps) (hD0 : 0 < D0)
    (c1 : N / Ps < (Q + 1) * (D0 / Ps)) (c2 : Q * (D0 / Ps) ≤ N / Ps + n * Bn)
    (hE : n * Bn * Ps + Q * (Ps - 1) ≤ D0) : Q = N / D0 ∨ Q = N / D0 + 1 := by
  have hN := lt_mul_div_succ' N Ps hPs
  have hDl : Ps * (D0 / Ps) ≤ D0 := Nat.mul_div_le _ _
  have hDu := lt_mul_div_succ' D0 Ps hPs
  have low : N < (Q + 1) * D0 := by
    have a : Ps * (N / Ps + 1) ≤ Ps * ((Q + 1) * (D0 / Ps)) := Nat.mul_le_mul_left _ c1
    have b : (Q + 1) * (Ps * (D0 / Ps)) ≤ (Q + 1) * D0 := Nat.mul_le_mul_left _ hDl
    have e : Ps * ((Q + 1) * (D0 / Ps)) = (Q + 1) * (Ps * (D0 / Ps)) := by ring
    omega
  have high : Q * D0 ≤ N + D0 := by
    have a : Ps * (Q * (D0 / Ps)) ≤ Ps * (N / Ps + n * Bn) := Nat.mul_le_mul_left _ c2
    have b : Ps * (N / Ps) ≤ N := Nat.mul_div_le _ _
    have c : Q * D0 ≤ Q * (Ps * (D0 / Ps) + (Ps - 1)) := Nat.mul_le_mul_left _ (by
      have : Ps * (D0 / Ps + 1) = Ps * (D0 / Ps) + Ps := by ring
      omega)
    have e1 : Q * (Ps * (D0 / Ps) + (Ps - 1)) = Ps * (Q * (D0 / Ps)) + Q * (Ps - 1) := by ring
    have e2 : Ps * (N / Ps + n * Bn) = Ps * (N / Ps) + n * Bn * Ps := by ring
    omega
  have h1 : N / D0 < Q + 1 := (Nat.div_lt_iff_lt_mul hD0).mpr low
  have h2 : Q < N / D0 + 2 := by
    have hdm := Nat.div_add_mod N D0
    have hm := Nat.mod_lt N hD0
    have : Q * D0 < (N / D0 + 2) * D0 := by nlinarith
    exact Nat.lt_of_mul_lt_mul_right this
  omega

/-- the routine as a whole: ASSERTed domain ⇒ every callee inside its domain, qh ≤ 1, the `while` at :116 ran at most once in
    every call, result ⌊N/D⌋ or ⌊N/D⌋ + 1 -/
theorem dcDivappr_contract (T C nn dn N D : Nat) (hT : 6 ≤ T) (hC : 3 ≤ C) (hdn : 6 ≤ dn) (hnn : dn + 3 ≤ nn)
    (hnorm : B ^ dn ≤ 2 * D) (hD : D < B ^ dn) (hN : N < B ^ nn) (hsize : 2 * dn + 2 ≤ B) :
    (dcDivappr true T C sbLeaf nn dn N D).ok = true ∧ (dcDivappr true T C sbLeaf nn dn N D).q < B ^ (nn - dn) ∧
    (dcDivappr true T C sbLeaf nn dn N D).qh ≤ 1 ∧ (dcDivappr true T C sbLeaf nn dn N D).wl ≤ 1 ∧
    ((dcDivappr true T C sbLeaf nn dn N D).qh * B ^ (nn - dn) + (dcDivappr true T C sbLeaf nn dn N D).q = N / D ∨
     (dcDivappr true T C sbLeaf nn dn N D).qh * B ^ (nn - dn) + (dcDivappr true T C sbLeaf nn dn N D).q = N / D + 1) := by
  have hB := B_pos
  unfold dcDivappr
  have hspec := dcDivapprF_spec T C hT hC nn nn dn N D (by omega) (by omega) hD hnorm hN hsize (by omega)
  unfold CallSpec at hspec
  simp only [] at hspec
  obtain ⟨c1, c2, c3, c4, c5, c6, _⟩ := hspec
  have hD0 : 0 < D := by have := Bpow_pos dn; omega
  refine ⟨c1, c2, c3, c4, ?_⟩
  generalize dcDivapprF true T C sbLeaf nn nn dn N D = r at *
  by_cases hcut : nn - dn + 1 < dn
  · rw [if_pos hcut] at c5 c6
    rw [Nat.add_sub_cancel] at c6
    apply appr_budget _ N D (B ^ (dn - (nn - dn + 1))) (nn - dn) (B ^ (nn - dn)) (Bpow_pos _) hD0 c5 c6
    -- (n+2)·B^n·Ps ≤ D
    have hQ : r.qh * B ^ (nn - dn) + r.q ≤ 2 * B ^ (nn - dn) := by
      have : r.qh * B ^ (nn - dn) ≤ 1 * B ^ (nn - dn) := Nat.mul_le_mul_right _ c3
      omega
    have e : B ^ dn = B * (B ^ (nn - dn) * B ^ (dn - (nn - dn + 1))) := by
      rw [← pow_add, ← pow_succ']; congr 1; omega
    have hPs := Bpow_pos (dn - (nn - dn + 1))
    have h1 : (r.qh * B ^ (nn - dn) + r.q) * (B ^ (dn - (nn - dn + 1)) - 1)
        ≤ 2 * B ^ (nn - dn) * B ^ (dn - (nn - dn + 1)) := Nat.mul_le_mul hQ (by omega)
    have h2 : 2 * (nn - dn + 2) * (B ^ (nn - dn) * B ^ (dn - (nn - dn + 1))) ≤ B * (B ^ (nn - dn) * B ^ (dn - (nn - dn + 1))) :=
      Nat.mul_le_mul_right _ (by omega)
    rw [e] at hnorm
    nlinarith
  · rw [if_neg hcut] at c5 c6
    rw [Nat.sub_self, pow_zero] at c5 c6
    apply appr_budget _ N D 1 (dn - 1) (B ^ (dn - 1)) (by omega) hD0 c5 c6
    rw [Nat.sub_self, Nat.mul_zero, Nat.add_zero, Nat.mul_one]
    have e : B ^ dn = B * B ^ (dn - 1) := by rw [← pow_succ']; congr 1; omega
    have h2 : 2 * (dn - 1) * B ^ (dn - 1) ≤ B * B ^ (dn - 1) := Nat.mul_le_mul_right _ (by omega)
    rw [e] at hnorm
    nlinarith

end Mpir.DcDivappr
