/- FFT ring layer: mpn_mul_2expmod_2expp1, mpn_div_2expmod_2expp1, the limb rotation and mpir_fft_adjust. -/
import MpirProofs.Lemmas.FftRingNorm
namespace Mpir.Fft
open Mpir

/-! ### arithmetic shift of the signed top limb -/

theorem sint_sar (h k : Nat) (hh : h < B) (hk : 1 ≤ k) :
    sint (sar h k) = sint h / 2 ^ k ∧ -4611686018427387904 ≤ sint h / 2 ^ k ∧ sint h / 2 ^ k < 4611686018427387904 := by
  have hs := sint_range h hh
  have h2 : (2 : Int) ≤ 2 ^ k := by
    calc (2 : Int) = 2 ^ 1 := by norm_num
      _ ≤ 2 ^ k := pow_le_pow_right₀ (by norm_num) hk
  have hpos : (0 : Int) < 2 ^ k := by positivity
  have b1 : -4611686018427387904 ≤ sint h / 2 ^ k := by
    apply Int.le_ediv_of_mul_le hpos; nlinarith
  have b2 : sint h / 2 ^ k < 4611686018427387904 := by
    apply Int.ediv_lt_of_lt_mul hpos; nlinarith
  refine ⟨?_, b1, b2⟩
  unfold sar; exact sint_ofInt _ (by omega) (by omega)

/-- Lemma A: the logical shift of a limb is the arithmetic shift of its signed reading plus the sign extension -/
theorem shr_signed (h k : Nat) (hk : k ≤ 64) :
    ((h / 2 ^ k : Nat) : Int) = sint h / 2 ^ k + 2 ^ (64 - k) * (if h < B / 2 then 0 else 1) := by
  have hB : (B : Int) = 2 ^ k * 2 ^ (64 - k) := by exact_mod_cast B_split k hk
  have e := sint_eq h
  rw [hB] at e
  push_cast
  rw [e]
  have hpos : (2 : Int) ^ k ≠ 0 := by positivity
  rw [show sint h + 2 ^ k * 2 ^ (64 - k) * (if h < B / 2 then (0 : Int) else 1) =
        sint h + 2 ^ k * (2 ^ (64 - k) * (if h < B / 2 then (0 : Int) else 1)) by ring]
  rw [Int.add_mul_ediv_left _ _ hpos]


/-! ### lshift over `xs ++ ys` -/

theorem lshiftGo_append (c : Nat) : ∀ (xs ys : List Nat) (lo : Nat),
    lshiftGo c (xs ++ ys) lo =
      ((lshiftGo c xs lo).1 ++ (lshiftGo c ys (lshiftGo c xs lo).2).1, (lshiftGo c ys (lshiftGo c xs lo).2).2)
  | [], ys, lo => by simp [lshiftGo]
  | x :: xs, ys, lo => by
    simp only [List.cons_append, lshiftGo]
    rw [lshiftGo_append c xs ys]

/-! ### mpn_mul_2expmod_2expp1 -/

theorem mul_2expmod_spec (xs : List Nat) (h d : Nat) (hx : Limbs (xs ++ [h])) (hn : 1 ≤ xs.length)
    (hd1 : 1 ≤ d) (hd : d ≤ 63) :
    ∃ ys g, mul_2expmod (xs ++ [h]) d = ys ++ [g] ∧ ys.length = xs.length ∧ Limbs (ys ++ [g]) ∧
      rval (ys ++ [g]) ≡ rval (xs ++ [h]) * 2 ^ d [ZMOD pmod xs.length] ∧
      -((B : Int) * (sint h / 2 ^ (64 - d) + 1)) < rval (ys ++ [g]) ∧
      rval (ys ++ [g]) < (B : Int) ^ xs.length - (B : Int) * (sint h / 2 ^ (64 - d)) := by
  have ⟨hxs, hh⟩ := Limbs_snoc.mp hx
  have hd0 : d ≠ 0 := by omega
  unfold mul_2expmod
  simp only [hd0, ↓reduceIte, top_snoc]
  -- lshift
  have hl : lshift (xs ++ [h]) d = ((lshiftGo d xs 0).1 ++ [((h <<< d) % B) ||| (lshiftGo d xs 0).2], h >>> (64 - d)) := by
    unfold lshift; rw [lshiftGo_append]; simp [lshiftGo]
  obtain ⟨lv, lc, ll, lnn⟩ := lshiftGo_val d (by omega) xs 0 hxs (by positivity)
  obtain ⟨le, lhi⟩ := lshift_limb h (lshiftGo d xs 0).2 d (by omega) lc
  rw [hl]; simp only [top_snoc, setTop_snoc]
  set ts := (lshiftGo d xs 0).1 with hts
  set o1 := (lshiftGo d xs 0).2 with ho1
  set hi2 := ((h <<< d) % B) ||| o1 with hhi2
  -- sub_1 on ts ++ [0]
  obtain ⟨t0, tr, hts0⟩ : ∃ t0 tr, ts = t0 :: tr := List.exists_cons_of_length_pos (by omega)
  have hlim0 : Limbs (t0 :: (tr ++ [0])) := by
    have : t0 :: (tr ++ [0]) = ts ++ [0] := by rw [hts0]; rfl
    rw [this]; exact Limbs_snoc.mpr ⟨ll, B_pos⟩
  have e0 : ts ++ [0] = t0 :: (tr ++ [0]) := by rw [hts0]; rfl
  rw [e0]
  obtain ⟨sv, _, sl', sn⟩ := sub_1_val' t0 (tr ++ [0]) hi2 hlim0 lhi
  set t2 := (sub_1 (t0 :: (tr ++ [0])) hi2).1 with ht2
  set bw := (sub_1 (t0 :: (tr ++ [0])) hi2).2
  have hv0 : val (t0 :: (tr ++ [0])) = val ts := by rw [← e0, val_snoc]; simp
  rw [hv0] at sv
  have htrl : tr.length + 1 = xs.length := by rw [← lnn, hts0]; simp
  simp only [List.length_append, List.length_cons, List.length_nil] at sn sv
  -- t2 = u0 :: us, us nonempty
  obtain ⟨u0, us, hu⟩ : ∃ u0 us, t2 = u0 :: us := List.exists_cons_of_length_pos (by omega)
  rw [hu] at sl' sn sv
  simp only [List.length_cons] at sn
  obtain ⟨r0, rs, hus⟩ : ∃ r0 rs, us = r0 :: rs := List.exists_cons_of_length_pos (by omega)
  have ⟨hu0, hul⟩ := Limbs_cons.mp sl'
  rw [hu]; simp only [List.take_succ_cons, List.take_zero, List.drop_succ_cons, List.drop_zero]
  -- hi1
  obtain ⟨sq, q1, q2⟩ := sint_sar h (64 - d) hh (by omega)
  set q := sint h / 2 ^ (64 - d) with hq
  have hmin : sar h (64 - d) ≠ B / 2 := by
    intro hc
    have : sint (B / 2) = -9223372036854775808 := by rw [sint_def]; simp [B_eq]
    rw [hc, this] at sq; omega
  have hsl : sar h (64 - d) < B := by unfold sar; exact ofInt_lt _
  have hneg := sint_lneg _ hsl hmin
  rw [sq] at hneg
  rw [hus] at hul ⊢
  obtain ⟨⟨k, hk⟩, al, an⟩ := addmod1_spec r0 rs (lneg (sar h (64 - d))) hul (lneg_lt _)
  rw [hneg] at hk
  have rlen : rs.length + 1 = xs.length := by rw [hus] at sn; simp at sn; omega
  -- assemble
  have hres : ([u0] ++ addmod1 (r0 :: rs) (lneg (sar h (64 - d)))).length = xs.length + 1 := by
    simp [an, rlen]
  obtain ⟨ys, g, hyg, hys⟩ := exists_snoc _ xs.length hres
  have hLim : Limbs (ys ++ [g]) := by
    rw [← hyg]; exact Limbs_append.mpr ⟨Limbs_cons.mpr ⟨hu0, Limbs_nil⟩, al⟩
  refine ⟨ys, g, hyg, hys, hLim, ?_⟩
  -- value
  have hvr : (val (ys ++ [g]) : Int) = (val ts : Int) - hi2 - (B : Int) * q + (k + bw) * (B : Int) ^ (xs.length + 1) := by
    have rl : rs.length = tr.length := by omega
    rw [← hyg]; simp only [List.singleton_append, val_cons]
    push_cast; rw [hk]
    rw [hus] at sv; simp only [val_cons] at sv
    have sv' := congrArg (fun z : Nat => (z : Int)) sv
    simp only [val_cons] at sv' ⊢
    push_cast at sv' ⊢
    rw [← htrl, rl]
    linear_combination sv'
  -- the shifted-out bits
  have hA := shr_signed h (64 - d) (by omega)
  have e64 : 64 - (64 - d) = d := by omega
  rw [e64, ← Nat.shiftRight_eq_div_pow] at hA
  have hse := sint_eq h
  set neg : Int := (if h < B / 2 then 0 else 1) with hnegd
  have lv' := congrArg (fun z : Nat => (z : Int)) lv
  have le' : (hi2 : Int) + (B : Int) * ((h >>> (64 - d) : Nat) : Int) = (h : Int) * 2 ^ d + o1 := by exact_mod_cast le
  push_cast at lv'
  have hs2 : sint h * 2 ^ d = (hi2 : Int) + (B : Int) * q - o1 := by
    linear_combination (-(2 : Int) ^ d) * hse - le' + (B : Int) * hA
  have htv0 : (0 : Int) ≤ val ts := by positivity
  have htv1 := valZ_lt ts ll
  rw [lnn] at htv1
  have hhi0 : (0 : Int) ≤ hi2 := by positivity
  have hhi1 : (hi2 : Int) < B := by exact_mod_cast lhi
  have hP := B_le_pow xs.length hn
  have hrv : rval (ys ++ [g]) = (val ts : Int) - hi2 - (B : Int) * q := by
    apply rval_of_eq ys g hLim _ (k + bw)
    · rw [hys]; exact hvr
    · rw [hys, pow_succ]
      generalize (B : Int) ^ xs.length = P at *
      rw [BZ_eq] at *; linarith
    · rw [hys, pow_succ]
      generalize (B : Int) ^ xs.length = P at *
      rw [BZ_eq] at *; linarith
  refine ⟨?_, ?_, ?_⟩
  · rw [modEq_pmod_iff]; refine ⟨-((hi2 : Int) + (B : Int) * q), ?_⟩
    rw [hrv, rval_snoc]
    linear_combination lv' - (B : Int) ^ xs.length * hs2
  · rw [hrv]; linarith
  · rw [hrv]; linarith

/-! ### mpn_div_2expmod_2expp1 -/

theorem snoc2_access (ts : List Nat) (a b : Nat) :
    (ts ++ [a] ++ [b]).getD ts.length 0 = a ∧ (ts ++ [a] ++ [b]).getD (ts.length + 1) 0 = b ∧
    (ts ++ [a] ++ [b]).take ts.length = ts := by
  refine ⟨?_, ?_, ?_⟩
  · simp [List.getD_eq_getElem?_getD]
  · simp [List.getD_eq_getElem?_getD]
  · simp

/-- sub_ddmmss(r1, r0, p1, p0, 0, lo) -/
theorem sub_dd (p0 p1 lo : Nat) (h0 : p0 < B) (h1 : p1 < B) (hl : lo < B) :
    ∃ k : Int, ((lsub p0 lo : Nat) : Int) + (B : Int) * (lsub p1 (boolToNat (p0 < lo)) : Nat) =
      (p0 : Int) + (B : Int) * p1 - lo + (B : Int) * (B : Int) * k := by
  unfold lsub boolToNat
  simp only [B_eq] at *
  by_cases c1 : p0 < lo
  · by_cases c2 : p1 = 0
    · refine ⟨1, ?_⟩; simp only [c1, decide_true, ↓reduceIte]; push_cast; omega
    · refine ⟨0, ?_⟩; simp only [c1, decide_true, ↓reduceIte]; push_cast; omega
  · refine ⟨0, ?_⟩; simp only [c1, decide_false]; push_cast; omega

theorem fits_div (P v q W : Int) (hP : (B : Int) ≤ P) (hv0 : 0 ≤ v) (hv1 : v < P)
    (hq1 : -4611686018427387904 ≤ q) (hq2 : q < 4611686018427387904) (hW0 : 0 ≤ W) (hW1 : W < P) :
    -(P * (B : Int)) ≤ 2 * (v + P * q - W) ∧ 2 * (v + P * q - W) < P * (B : Int) := by
  rw [BZ_eq] at *
  have hP0 : (0 : Int) ≤ P := by linarith
  have h1 : P * (-4611686018427387904) ≤ P * q := mul_le_mul_of_nonneg_left hq1 hP0
  have h2 : P * q ≤ P * 4611686018427387903 := mul_le_mul_of_nonneg_left (by omega) hP0
  constructor <;> linarith

theorem div_2expmod_spec (xs : List Nat) (h d : Nat) (hx : Limbs (xs ++ [h])) (hn : 1 ≤ xs.length)
    (hd1 : 1 ≤ d) (hd : d ≤ 63) :
    ∃ ys g, div_2expmod (xs ++ [h]) d = ys ++ [g] ∧ ys.length = xs.length ∧ Limbs (ys ++ [g]) ∧
      rval (ys ++ [g]) * 2 ^ d ≡ rval (xs ++ [h]) [ZMOD pmod xs.length] ∧
      (sint h / 2 ^ d - 1) * (B : Int) ^ xs.length < rval (ys ++ [g]) ∧
      rval (ys ++ [g]) < (sint h / 2 ^ d + 1) * (B : Int) ^ xs.length := by
  have ⟨hxs, hh⟩ := Limbs_snoc.mp hx
  have hd0 : d ≠ 0 := by omega
  obtain ⟨m, hm⟩ : ∃ m, xs.length = m + 1 := ⟨xs.length - 1, by omega⟩
  obtain ⟨x0, rest, hx0⟩ : ∃ x0 rest, xs ++ [h] = x0 :: rest := List.exists_cons_of_length_pos (by simp)
  have hrl : rest.length = m + 1 := by
    have := congrArg List.length hx0; simp at this; omega
  obtain ⟨rv1, rL, rlim, rlen, rdiv, rlo⟩ := rshift_val' x0 rest d (hx0 ▸ hx) hd1 hd
  rw [← hx0] at rv1 rL rlim rlen rdiv rlo
  set T := (rshift (xs ++ [h]) d).1 with hT
  set L := (rshift (xs ++ [h]) d).2 with hL
  have hTL : rshift (xs ++ [h]) d = (T, L) := rfl
  simp only [List.length_append, List.length_cons, List.length_nil, hm] at rlen
  obtain ⟨ts, g, hTs, htsl⟩ := exists_snoc T (m + 1) (by omega)
  obtain ⟨ts', p0, hts', hts'l⟩ := exists_snoc ts m htsl
  have hLimT : Limbs (ts' ++ [p0] ++ [g]) := by rw [← hts', ← hTs]; exact rlim
  have ⟨hLts, hg⟩ := Limbs_snoc.mp hLimT
  have ⟨hLts', hp0⟩ := Limbs_snoc.mp hLts
  -- the top limb of the logical shift
  have hvx : val (xs ++ [h]) = val xs + B ^ (m + 1) * h := by rw [val_snoc, hm]
  have hvT : val T = val ts + B ^ (m + 1) * g := by rw [hTs, val_snoc, htsl]
  have hxsl := val_lt xs hxs
  have htsv := val_lt ts (hts' ▸ hLts)
  rw [hm] at hxsl; rw [htsl] at htsv
  have hPpos : 0 < B ^ (m + 1) := Bpow_pos _
  have hgd : g = h / 2 ^ d := by
    have e1 : val T / B ^ (m + 1) = g := by
      rw [hvT, Nat.add_mul_div_left _ _ hPpos, Nat.div_eq_of_lt htsv, Nat.zero_add]
    have e2 : val (xs ++ [h]) / B ^ (m + 1) = h := by
      rw [hvx, Nat.add_mul_div_left _ _ hPpos, Nat.div_eq_of_lt hxsl, Nat.zero_add]
    rw [← e1, rdiv, Nat.div_div_eq_div_mul, Nat.mul_comm, ← Nat.div_div_eq_div_mul, e2]
  -- unfold the model
  obtain ⟨sq, q1, q2⟩ := sint_sar h d hh hd1
  set q := sint h / 2 ^ d with hq
  set p1 := sar h d with hp1
  have hp1B : p1 < B := by unfold p1 sar; exact ofInt_lt _
  obtain ⟨k, hk⟩ := sub_dd p0 p1 L hp0 hp1B rL
  set r0 := lsub p0 L
  set r1 := lsub p1 (boolToNat (p0 < L))
  have hres : div_2expmod (xs ++ [h]) d = ts' ++ [r0] ++ [r1] := by
    unfold div_2expmod
    simp only [hd0, ↓reduceIte, hTL, top_snoc, hTs, setTop_snoc]
    have hl1 : (xs ++ [h]).length - 1 - 1 = ts'.length := by simp [hm, hts'l]
    have hl2 : (xs ++ [h]).length - 1 = ts'.length + 1 := by simp [hm, hts'l]
    rw [hl1, hl2, hts']
    obtain ⟨a1, a2, a3⟩ := snoc2_access ts' p0 p1
    rw [a1, a2, a3]; simp only [List.append_assoc, List.cons_append, List.nil_append]; rfl
  have hLimR : Limbs (ts' ++ [r0] ++ [r1]) :=
    Limbs_snoc.mpr ⟨Limbs_snoc.mpr ⟨hLts', lsub_lt _ _⟩, lsub_lt _ _⟩
  refine ⟨ts' ++ [r0], r1, hres, by simp [hts'l, hm], hLimR, ?_⟩
  -- value
  have hA := shr_signed h d (by omega)
  rw [← hgd] at hA
  have hse := sint_eq h
  have hse1 := sint_eq p1
  rw [sq] at hse1
  set neg : Int := (if h < B / 2 then 0 else 1)
  set neg1 : Int := (if p1 < B / 2 then 0 else 1)
  have hvts : (val ts : Int) = val ts' + (B : Int) ^ m * p0 := by
    rw [hts', val_snoc, hts'l]; push_cast; ring
  have hvr : (val (ts' ++ [r0] ++ [r1]) : Int) =
      ((val ts : Int) + (B : Int) ^ (m + 1) * q - (B : Int) ^ m * L) + (neg1 + k) * (B : Int) ^ ((ts' ++ [r0]).length + 1) := by
    rw [val_snoc, val_snoc]; simp only [List.length_append, List.length_cons, List.length_nil, hts'l]
    push_cast
    rw [hvts]
    have e : (B : Int) ^ (m + 0 + 1) = (B : Int) ^ m * B := by rw [Nat.add_zero, pow_succ]
    rw [e, pow_succ, pow_succ]
    linear_combination ((B : Int) ^ m) * hk + ((B : Int) ^ m * B) * hse1
  have hts0 : (0 : Int) ≤ val ts := by positivity
  have hts1 : (val ts : Int) < (B : Int) ^ (m + 1) := by exact_mod_cast htsv
  have hL0 : (0 : Int) ≤ L := by positivity
  have hL1 : (B : Int) ^ m * L < (B : Int) ^ (m + 1) := by
    rw [pow_succ]; exact mul_lt_mul_of_pos_left (by exact_mod_cast rL) (BZpow_pos m)
  have hL2 : (0 : Int) ≤ (B : Int) ^ m * L := mul_nonneg (le_of_lt (BZpow_pos m)) hL0
  have hP := B_le_pow (m + 1) (by omega)
  have hrv : rval (ts' ++ [r0] ++ [r1]) = (val ts : Int) + (B : Int) ^ (m + 1) * q - (B : Int) ^ m * L := by
    have hf := fits_div _ _ q _ hP hts0 hts1 q1 q2 hL2 hL1
    apply rval_of_eq (ts' ++ [r0]) r1 hLimR _ (neg1 + k) hvr
    · simp only [List.length_append, List.length_cons, List.length_nil, hts'l]
      rw [pow_succ]; exact hf.1
    · simp only [List.length_append, List.length_cons, List.length_nil, hts'l]
      rw [pow_succ]; exact hf.2
  rw [hrv, hm]
  refine ⟨?_, by linarith, by linarith⟩
  -- congruence
  have hdm := Nat.div_add_mod (val (xs ++ [h])) (2 ^ d)
  rw [← rdiv, hvT, hvx] at hdm
  set r := (val xs + B ^ (m + 1) * h) % 2 ^ d with hr
  have hB2 : (B : Int) = 2 ^ (64 - d) * 2 ^ d := by
    have := B_split d (by omega); rw [Nat.mul_comm] at this; exact_mod_cast this
  have rlo'' : L = r * 2 ^ (64 - d) := by rw [rlo, hvx]
  have rlo' : (L : Int) = r * 2 ^ (64 - d) := by rw [rlo'']; push_cast; ring
  have hdm' := congrArg (fun z : Nat => (z : Int)) hdm
  push_cast at hdm'
  rw [modEq_pmod_iff]; refine ⟨-(r : Int), ?_⟩
  rw [rval_snoc, hm, rlo']
  have e : (B : Int) ^ (m + 1) = (B : Int) ^ m * (2 ^ (64 - d) * 2 ^ d) := by rw [pow_succ, ← hB2]
  linear_combination hdm' + (B : Int) ^ (m + 1) * hse - (2 ^ d * (B : Int) ^ (m + 1)) * hA + (r : Int) * e + ((B : Int) ^ (m + 1) * neg) * hB2

/-! ### the limb rotation (multiplication by B^x) and mpir_fft_adjust -/

theorem sl_mid (a b c : List Nat) : sl (a ++ b ++ c) a.length (a.length + b.length) = b := by
  unfold sl; simp

theorem neg_n_spec (u : List Nat) (hu : Limbs u) :
    val (neg_n u).1 + val u = B ^ u.length * (neg_n u).2 ∧ (neg_n u).2 ≤ 1 ∧
    Limbs (neg_n u).1 ∧ (neg_n u).1.length = u.length := by
  obtain ⟨h1, h2, h3, h4⟩ := negNC_zero_val u hu
  refine ⟨h1, ?_, h3, h4⟩
  rcases h2 with ⟨h, _⟩ | ⟨h, _⟩ <;> unfold neg_n <;> omega

theorem sub_1_spec (r : List Nat) (v : Nat) (hr : Limbs r) (hne : 0 < r.length) (hv : v < B) :
    val (sub_1 r v).1 + v = val r + B ^ r.length * (sub_1 r v).2 ∧ (sub_1 r v).2 ≤ 1 ∧
    Limbs (sub_1 r v).1 ∧ (sub_1 r v).1.length = r.length := by
  obtain ⟨r0, rs, rfl⟩ := List.exists_cons_of_length_pos hne
  simpa using sub_1_val' r0 rs v hr hv

theorem add_1_spec (r : List Nat) (v : Nat) (hr : Limbs r) (hne : 0 < r.length) (hv : v < B) :
    val (add_1 r v).1 + B ^ r.length * (add_1 r v).2 = val r + v ∧ (add_1 r v).2 ≤ 1 ∧
    Limbs (add_1 r v).1 ∧ (add_1 r v).1.length = r.length := by
  obtain ⟨r0, rs, rfl⟩ := List.exists_cons_of_length_pos hne
  simpa using add_1_val' r0 rs v hr hv

theorem addmod1_spec' (r : List Nat) (c : Nat) (hr : Limbs r) (hne : 0 < r.length) (hc : c < B) :
    (∃ k : Int, (val (addmod1 r c) : Int) = val r + sint c + k * (B : Int) ^ r.length) ∧
    Limbs (addmod1 r c) ∧ (addmod1 r c).length = r.length := by
  obtain ⟨r0, rs, rfl⟩ := List.exists_cons_of_length_pos hne
  simpa using addmod1_spec r0 rs c hr hc

theorem fits_rot (P X v w s : Int) (hX : X * (B : Int) ≤ P) (hX0 : 0 < X) (hv0 : 0 ≤ v) (hv1 : v < P)
    (hw0 : 0 ≤ w) (hw1 : w < X) (hs1 : -9223372036854775808 ≤ s) (hs2 : s < 9223372036854775808) :
    -(P * (B : Int)) ≤ 2 * (v - w - X * s) ∧ 2 * (v - w - X * s) < P * (B : Int) := by
  rw [BZ_eq] at *
  have h1 : X * (-9223372036854775808) ≤ X * s := mul_le_mul_of_nonneg_left hs1 (le_of_lt hX0)
  have h2 : X * s ≤ X * 9223372036854775807 := mul_le_mul_of_nonneg_left (by omega) (le_of_lt hX0)
  constructor <;> linarith

/-- `mulBx` multiplies by B^x modulo p (x < limbs) -/
theorem mulBx_spec (L H : List Nat) (h : Nat) (hx : Limbs (L ++ H ++ [h])) (hL : 1 ≤ L.length) (hmin : h ≠ B / 2) :
    ∃ ys g, mulBx (L ++ H ++ [h]) H.length = ys ++ [g] ∧ ys.length = L.length + H.length ∧ Limbs (ys ++ [g]) ∧
      rval (ys ++ [g]) ≡ rval (L ++ H ++ [h]) * (B : Int) ^ H.length [ZMOD pmod (L.length + H.length)] ∧
      rval (ys ++ [g]) = (B : Int) ^ H.length * val L - val H - (B : Int) ^ H.length * sint h := by
  have ⟨hLH, hh⟩ := Limbs_snoc.mp hx
  have ⟨hLl, hHl⟩ := Limbs_append.mp hLH
  -- the pieces
  have hlen : (L ++ H ++ [h]).length - 1 = L.length + H.length := by simp
  have hsl : sl (L ++ H ++ [h]) (L.length + H.length - H.length) (L.length + H.length) = H := by
    rw [Nat.add_sub_cancel]; exact sl_mid L H [h]
  have htk : (L ++ H ++ [h]).take (L.length + H.length - H.length) = L := by
    rw [Nat.add_sub_cancel]; simp
  obtain ⟨nv, nc, nl, nn⟩ := neg_n_spec H hHl
  set rlo := (neg_n H).1
  set cy := (neg_n H).2
  have hr0 : Limbs (L ++ [0]) := Limbs_snoc.mpr ⟨hLl, B_pos⟩
  obtain ⟨⟨k, hk⟩, al, an⟩ := addmod1_spec' (L ++ [0]) (lneg h) hr0 (by simp) (lneg_lt h)
  set r1 := addmod1 (L ++ [0]) (lneg h)
  have hcy : cy < B := by have := B_eq; omega
  obtain ⟨sv, _, sl1, sn⟩ := sub_1_spec r1 cy al (by rw [an]; simp) hcy
  set r2 := (sub_1 r1 cy).1
  set bw := (sub_1 r1 cy).2
  have hres : mulBx (L ++ H ++ [h]) H.length = rlo ++ r2 := by
    unfold mulBx
    simp only [hlen, hsl, htk, top_snoc]
    rfl
  have hl2 : (rlo ++ r2).length = (L.length + H.length) + 1 := by
    simp [nn, sn, an]; omega
  obtain ⟨ys, g, hyg, hys⟩ := exists_snoc _ _ hl2
  have hLim : Limbs (ys ++ [g]) := by rw [← hyg]; exact Limbs_append.mpr ⟨nl, sl1⟩
  rw [sint_lneg h hh hmin] at hk
  simp only [List.length_append, List.length_cons, List.length_nil, val_snoc] at hk an sn
  have hvr : (val (ys ++ [g]) : Int) = ((B : Int) ^ H.length * val L - val H - (B : Int) ^ H.length * sint h) +
      (k + bw) * (B : Int) ^ (ys.length + 1) := by
    rw [← hyg, val_append, nn, hys]
    have nv' := congrArg (fun z : Nat => (z : Int)) nv
    have sv' := congrArg (fun z : Nat => (z : Int)) sv
    rw [an] at sv'
    push_cast at nv' sv' hk ⊢
    have e : (B : Int) ^ (L.length + H.length + 1) = (B : Int) ^ H.length * (B : Int) ^ (L.length + 1) := by
      rw [← pow_add]; congr 1; omega
    rw [e]
    linear_combination nv' + (B : Int) ^ H.length * sv' + (B : Int) ^ H.length * hk
  have hs := sint_range h hh
  have hL0 : (0 : Int) ≤ val L := by positivity
  have hL1 := valZ_lt L hLl
  have hH0 : (0 : Int) ≤ val H := by positivity
  have hH1 := valZ_lt H hHl
  have hXpos := BZpow_pos H.length
  have hPX : (B : Int) ^ (L.length + H.length) = (B : Int) ^ H.length * (B : Int) ^ L.length := by
    rw [← pow_add]; congr 1; omega
  have hBL := B_le_pow L.length hL
  have hrv : rval (ys ++ [g]) = (B : Int) ^ H.length * val L - val H - (B : Int) ^ H.length * sint h := by
    have hf := fits_rot ((B : Int) ^ (L.length + H.length)) ((B : Int) ^ H.length) ((B : Int) ^ H.length * val L) (val H) (sint h)
      (by rw [hPX]; exact mul_le_mul_of_nonneg_left hBL (le_of_lt hXpos)) hXpos
      (mul_nonneg (le_of_lt hXpos) hL0) (by rw [hPX]; exact mul_lt_mul_of_pos_left hL1 hXpos) hH0 hH1 hs.1 hs.2
    apply rval_of_eq ys g hLim _ (k + bw) hvr
    · rw [hys, pow_succ]; exact hf.1
    · rw [hys, pow_succ]; exact hf.2
  refine ⟨ys, g, by rw [hres, hyg], hys, hLim, ?_, hrv⟩
  rw [modEq_pmod_iff]; refine ⟨-((val H : Int) + (B : Int) ^ H.length * sint h), ?_⟩
  rw [hrv, rval_snoc, val_append]; simp only [List.length_append]; push_cast
  rw [hPX]; ring

/-- mul_2expmod for every d < 64 (d = 0 copies) -/
theorem mul_2expmod_cong (xs : List Nat) (h d : Nat) (hx : Limbs (xs ++ [h])) (hn : 1 ≤ xs.length) (hd : d < 64) :
    ∃ ys g, mul_2expmod (xs ++ [h]) d = ys ++ [g] ∧ ys.length = xs.length ∧ Limbs (ys ++ [g]) ∧
      rval (ys ++ [g]) ≡ rval (xs ++ [h]) * 2 ^ d [ZMOD pmod xs.length] := by
  by_cases hd0 : d = 0
  · subst hd0
    refine ⟨xs, h, by simp [mul_2expmod], rfl, hx, by simp⟩
  · obtain ⟨ys, g, h1, h2, h3, h4, _⟩ := mul_2expmod_spec xs h d hx hn (by omega) (by omega)
    exact ⟨ys, g, h1, h2, h3, h4⟩

theorem B_pow_two (x : Nat) : (B : Int) ^ x = 2 ^ (64 * x) := by
  rw [pow_mul]; congr 1

theorem adjust_spec (xs : List Nat) (h i w : Nat) (hx : Limbs (xs ++ [h])) (hiw : i * w < 64 * xs.length)
    (hmin : h ≠ B / 2) :
    ∃ ys g, adjust (xs ++ [h]) i w = ys ++ [g] ∧ ys.length = xs.length ∧ Limbs (ys ++ [g]) ∧
      rval (ys ++ [g]) ≡ rval (xs ++ [h]) * 2 ^ (i * w) [ZMOD pmod xs.length] := by
  have hn : 1 ≤ xs.length := by omega
  unfold adjust
  simp only
  have hdm := Nat.div_add_mod (i * w) 64
  have hd : i * w % 64 < 64 := Nat.mod_lt _ (by norm_num)
  by_cases hX : i * w / 64 = 0
  · simp only [hX, ne_eq, not_true_eq_false, ↓reduceIte]
    have : i * w = i * w % 64 := by omega
    obtain ⟨ys, g, h1, h2, h3, h4⟩ := mul_2expmod_cong xs h (i * w % 64) hx hn hd
    exact ⟨ys, g, h1, h2, h3, by rw [← this] at h4; exact h4⟩
  · simp only [hX, ne_eq, not_false_eq_true, ↓reduceIte]
    set X := i * w / 64 with hXd
    have hXn : X < xs.length := by omega
    -- split xs = L ++ H
    set L := xs.take (xs.length - X) with hLd
    set H := xs.drop (xs.length - X) with hHd
    have hLH : xs = L ++ H := (List.take_append_drop _ _).symm
    have hLl : L.length = xs.length - X := by simp [hLd]
    have hHl : H.length = X := by simp [hHd]; omega
    have hx' : Limbs (L ++ H ++ [h]) := by rw [← hLH]; exact hx
    obtain ⟨ms, mg, m1, m2, m3, m4, _⟩ := mulBx_spec L H h hx' (by omega) hmin
    rw [hHl, ← hLH] at m1
    rw [m1]
    have hmsl : ms.length = xs.length := by rw [m2, hLl, hHl]; omega
    obtain ⟨ys, g, h1, h2, h3, h4⟩ := mul_2expmod_cong ms mg (i * w % 64) m3 (by omega) hd
    refine ⟨ys, g, h1, by rw [h2, hmsl], h3, ?_⟩
    rw [hmsl] at h4
    rw [← hLH, hLl, hHl, show xs.length - X + X = xs.length by omega] at m4
    refine h4.trans ?_
    have e : (2 : Int) ^ (i * w) = (B : Int) ^ X * 2 ^ (i * w % 64) := by
      rw [B_pow_two, ← pow_add]; congr 1; omega
    rw [e, ← mul_assoc]
    exact Int.ModEq.mul_right _ m4

end Mpir.Fft
