/- mpn_mulmod_2expm1 (mpn/generic/mulmod_2expm1.c): value-level arithmetic of the folding and of the CRT recombination. -/
import MpirProofs.Lemmas.FftRingMulmodK
import Mpir.Model.Mulmod2expm1
namespace Mpir.Mm1
open Mpir Mpir.Fft

/-- folding `lo + hi` once more (the end-around carry): a residue of `lo + Q·hi` modulo `Q − 1` below `Q`,
    zero only for the value zero -/
theorem fold_val (Q lo hi : Nat) (hQ : 2 ≤ Q) (hlo : lo < Q) (hhi : hi < Q) :
    (lo + hi) % Q + (lo + hi) / Q < Q ∧
    ((lo + hi) % Q + (lo + hi) / Q) % (Q - 1) = (lo + Q * hi) % (Q - 1) ∧
    ((lo + hi) % Q + (lo + hi) / Q = 0 ↔ lo + Q * hi = 0) := by
  have hdm := Nat.div_add_mod (lo + hi) Q
  have hml := Nat.mod_lt (lo + hi) (show 0 < Q by omega)
  have hd : (lo + hi) / Q ≤ 1 := by
    have : (lo + hi) / Q < 2 := (Nat.div_lt_iff_lt_mul (by omega)).mpr (by omega)
    omega
  generalize (lo + hi) / Q = d at *
  generalize (lo + hi) % Q = r at *
  have hid : lo + Q * hi = (r + d) + (Q - 1) * (hi + d) := by
    obtain ⟨q, rfl⟩ : ∃ q, Q = q + 1 := ⟨Q - 1, by omega⟩
    simp only [Nat.add_sub_cancel]
    nlinarith
  refine ⟨?_, ?_, ?_⟩
  · rcases Nat.eq_zero_or_pos d with h | h
    · omega
    · have : d = 1 := by omega
      subst this; omega
  · rw [hid, Nat.add_mul_mod_self_left]
  · constructor
    · intro h
      have : r = 0 ∧ d = 0 := by omega
      obtain ⟨rfl, rfl⟩ := this
      have : lo + hi = 0 := by omega
      have h1 : lo = 0 := by omega
      have h2 : hi = 0 := by omega
      subst h1 h2; simp
    · intro h
      have h1 : lo = 0 := by omega
      have h2 : Q * hi = 0 := by omega
      have h3 : hi = 0 := by
        rcases Nat.mul_eq_zero.mp h2 with h | h
        · omega
        · exact h
      subst h1 h3
      rcases Nat.eq_zero_or_pos d with h | h
      · omega
      · have : d = 1 := by omega
        subst this; omega

/-- the CRT step of mulmod_2expm1.c:117-126 with the exact carry handling: from `S ≡ P (mod H − 1)`,
    `Dv ≡ P (mod H + 1)` and `W ≡ (S + Dv) + H·(S − Dv) (mod H² − 1)`, the rotation of `W` by one bit
    inside `2·log H` bits is `≡ P (mod H² − 1)`. -/
theorem crt_core (H2 S Dv P W : Nat) (hH : 1 ≤ H2)
    (hS : S % (2 * H2 - 1) = P % (2 * H2 - 1))
    (hD : (Dv : Int) ≡ P [ZMOD (2 * H2 : Int) + 1])
    (hW : (W : Int) ≡ ((S : Int) + Dv) + (2 * H2 : Int) * ((S : Int) - Dv) [ZMOD (2 * H2 : Int) * (2 * H2) - 1]) :
    (W / 2 + W % 2 * (2 * H2 * H2)) % (2 * H2 * (2 * H2) - 1) = P % (2 * H2 * (2 * H2) - 1) := by
  set H : Int := 2 * H2 with hHd
  have hN : ((2 * H2 * (2 * H2) - 1 : Nat) : Int) = H * H - 1 := by
    have : 1 ≤ 2 * H2 * (2 * H2) := by nlinarith
    rw [Nat.cast_sub this]; push_cast; rw [hHd]
  have hS' : ((S : Int)) ≡ P [ZMOD H - 1] := by
    have h1 : ((2 * H2 - 1 : Nat) : Int) = H - 1 := by
      rw [Nat.cast_sub (by omega)]; push_cast; rw [hHd]
    have h2 : S ≡ P [MOD (2 * H2 - 1)] := hS
    have h3 := (Int.natCast_modEq_iff.mpr h2)
    rwa [h1] at h3
  -- everything as divisibility
  obtain ⟨a, ha⟩ := hS'.symm.dvd
  obtain ⟨d, hd⟩ := hD.symm.dvd
  obtain ⟨w, hw⟩ := hW.symm.dvd
  apply Int.natCast_modEq_iff.mp
  rw [hN]
  apply Int.ModEq.symm
  apply Int.modEq_of_dvd
  -- 2·(X − P) is a multiple of N, N odd
  have hdm := Nat.div_add_mod W 2
  have hX2 : (2 : Int) * ((W / 2 + W % 2 * (2 * H2 * H2) : Nat) : Int) = W + (W % 2 : Nat) * (H * H - 1) := by
    have := congrArg (fun z : Nat => (z : Int)) hdm
    push_cast at this ⊢
    rw [hHd]; linear_combination this
  have key : (2 : Int) * (((W / 2 + W % 2 * (2 * H2 * H2) : Nat) : Int) - P) =
      (H * H - 1) * ((W % 2 : Nat) + w + a + - d) := by
    rw [mul_sub, hX2]
    linear_combination hw + (1 + H) * ha + (1 - H) * hd
  have hodd : H * H - 1 = 2 * (2 * H2 * H2 - 1) + 1 := by rw [hHd]; ring
  refine ⟨(((W / 2 + W % 2 * (2 * H2 * H2) : Nat) : Int) - P) - (2 * H2 * H2 - 1) * ((W % 2 : Nat) + w + a + - d), ?_⟩
  generalize (((W / 2 + W % 2 * (2 * H2 * H2) : Nat) : Int) - P) = E at *
  generalize ((W % 2 : Nat) + w + a + - d : Int) = F at *
  rw [hodd] at key ⊢
  linear_combination (-(2 * (H2:Int) * H2 - 1)) * key

/-- the carry/borrow bookkeeping of mulmod_2expm1.c:229-265, relationally: `S1, c` = sum and carry of `S + Dv`
    in `log H` bits, `D1, bor` = difference and borrow, `S2, bor2` = `S1 − bor`, then (only without a second
    borrow) `D2, c2` = `D1 + c` and `Sf = S2 + c2`.  The pair `(Sf, Df)` is `(S + Dv) + H·(S − Dv)` up to one
    multiple of `H² − 1`. -/
theorem recomb_val (H2 S Dv S1 c D1 bor S2 bor2 D2 c2 Sf Df : Nat) (hH : 1 ≤ H2)
    (hS : S < 2 * H2) (hDv : Dv ≤ 2 * H2)
    (h1 : S1 + 2 * H2 * c = S + Dv) (h1b : S1 < 2 * H2) (hc : c ≤ 1)
    (h2 : D1 + Dv = S + 2 * H2 * bor) (h2b : D1 < 2 * H2) (hbor : bor ≤ 1)
    (h3 : S2 + bor = S1 + 2 * H2 * bor2) (h3b : S2 < 2 * H2) (hbor2 : bor2 ≤ 1)
    (h4 : bor2 = 0 → D2 + 2 * H2 * c2 = D1 + c ∧ D2 < 2 * H2 ∧ c2 ≤ 1 ∧ Sf = S2 + c2 ∧ Df = D2)
    (h5 : bor2 = 1 → Sf = S2 ∧ Df = D1) :
    Sf < 2 * H2 ∧ Df < 2 * H2 ∧ (bor2 = 0 → c2 = 1 → S2 % 2 = 0) ∧
    ((Sf = 0 ∧ Df = 0) ↔ (S = 0 ∧ Dv = 0)) ∧
    ((Sf : Int) + (2 * H2 : Int) * Df ≡ ((S : Int) + Dv) + (2 * H2 : Int) * ((S : Int) - Dv)
      [ZMOD (2 * H2 : Int) * (2 * H2) - 1]) := by
  have hc' : c = 0 ∨ c = 1 := by omega
  have hbor' : bor = 0 ∨ bor = 1 := by omega
  have hbor2' : bor2 = 0 ∨ bor2 = 1 := by omega
  rcases hbor2' with hb2 | hb2
  · obtain ⟨h4a, h4b, h4c, h4d, h4e⟩ := h4 hb2
    subst hb2 h4d h4e
    have hc2' : c2 = 0 ∨ c2 = 1 := by omega
    have side : c2 ≤ bor := by
      rcases hc' with rfl | rfl <;> rcases hbor' with rfl | rfl <;> rcases hc2' with rfl | rfl <;>
        simp only [Nat.mul_zero, Nat.mul_one, Nat.add_zero] at * <;> omega
    refine ⟨?_, h4b, ?_, ?_, ?_⟩
    · rcases hc' with rfl | rfl <;> rcases hbor' with rfl | rfl <;> rcases hc2' with rfl | rfl <;>
        simp only [Nat.mul_zero, Nat.mul_one, Nat.add_zero] at * <;> omega
    · intro _ hc2
      subst hc2
      rcases hc' with rfl | rfl <;> rcases hbor' with rfl | rfl <;>
        simp only [Nat.mul_zero, Nat.mul_one, Nat.add_zero] at * <;> omega
    · rcases hc' with rfl | rfl <;> rcases hbor' with rfl | rfl <;> rcases hc2' with rfl | rfl <;>
        simp only [Nat.mul_zero, Nat.mul_one, Nat.add_zero] at * <;> omega
    · apply Int.ModEq.symm
      apply Int.modEq_of_dvd
      refine ⟨(bor : Int) - c2, ?_⟩
      have e1 := congrArg (fun z : Nat => (z : Int)) h1
      have e2 := congrArg (fun z : Nat => (z : Int)) h2
      have e3 := congrArg (fun z : Nat => (z : Int)) h3
      have e4 := congrArg (fun z : Nat => (z : Int)) h4a
      push_cast at e1 e2 e3 e4 ⊢
      linear_combination e3 + e1 + (2 * (H2 : Int)) * e4 + (2 * (H2 : Int)) * e2
  · obtain ⟨h5a, h5b⟩ := h5 hb2
    subst hb2 h5a h5b
    have side : c = 1 ∧ bor = 1 := by
      rcases hc' with rfl | rfl <;> rcases hbor' with rfl | rfl <;>
        simp only [Nat.mul_zero, Nat.mul_one, Nat.add_zero] at * <;> first | omega | exact ⟨trivial, trivial⟩
    obtain ⟨rfl, rfl⟩ := side
    simp only [Nat.mul_one] at *
    refine ⟨h3b, h2b, fun h => by omega, ?_, ?_⟩
    · omega
    · apply Int.ModEq.symm
      apply Int.modEq_of_dvd
      refine ⟨1, ?_⟩
      have e1 := congrArg (fun z : Nat => (z : Int)) h1
      have e2 := congrArg (fun z : Nat => (z : Int)) h2
      have e3 := congrArg (fun z : Nat => (z : Int)) h3
      push_cast at e1 e2 e3 ⊢
      linear_combination e3 + e1 + (2 * (H2 : Int)) * e2

theorem divmod_of (x r q Q : Nat) (h : r + Q * q = x) (hr : r < Q) : x / Q = q ∧ x % Q = r := by
  subst h
  have hQ : 0 < Q := by omega
  constructor
  · rw [Nat.add_mul_div_left _ _ hQ, Nat.div_eq_of_lt hr, Nat.zero_add]
  · rw [Nat.add_mul_mod_self_left, Nat.mod_eq_of_lt hr]

/-- `xp[n-1] >> (GMP_NUMB_BITS - k)` is the part of the number above bit `64n − k` -/
theorem top_shr (x : List Nat) (n k : Nat) (hx : Limbs x) (hl : x.length = n) (hn : 1 ≤ n) (hk : k ≤ 63) :
    x.getD (n - 1) 0 >>> (64 - k) = val x / 2 ^ (64 * n - k) := by
  obtain ⟨xs, t, rfl, hxs⟩ := exists_snoc x (n - 1) (by omega)
  have hg : (xs ++ [t]).getD (n - 1) 0 = t := by
    rw [List.getD_eq_getElem?_getD, List.getElem?_append_right (by omega), hxs]; simp
  have hlt : val xs < B ^ (n - 1) := by
    have := val_lt xs (Limbs_snoc.mp hx).1
    rwa [hxs] at this
  rw [hg, val_snoc, hxs, two_pow_b n k hn hk, ← Nat.div_div_eq_div_mul,
    Nat.add_mul_div_left _ _ (Bpow_pos _), Nat.div_eq_of_lt hlt, Nat.zero_add, Nat.shiftRight_eq_div_pow]

theorem maskK_spec (x : List Nat) (n k : Nat) (hx : Limbs x) (hl : x.length = n) (hn : 1 ≤ n) (hk : k ≤ 64) :
    val (maskK x n k) = val x % 2 ^ (64 * n - k) ∧ (maskK x n k).length = n ∧ Limbs (maskK x n k) :=
  mask_top_mod x n k hx hl hn hk

/-- mulmod_2expm1.c:71-81 (and mulmod_2expp1_basecase.c:108-117): the product split at bit `b = 64n − k` -/
theorem prod_halves (P n k : Nat) (hn : 1 ≤ n) (hk1 : 1 ≤ k) (hk : k ≤ 63)
    (hPQ : P < 2 ^ (64 * n - k) * 2 ^ (64 * n - k)) :
    let tp := toLimbs (2 * n) P
    let c := tp.getD (n - 1) 0
    let tp1 := setAt tp (n - 1) (c &&& (2 ^ (64 - k) - 1))
    let sh := lshift (tp1.drop n) k
    let hi := setAt sh.1 0 (sh.1.getD 0 0 ||| (c >>> (64 - k)))
    (val (tp1.take n) = P % 2 ^ (64 * n - k) ∧ (tp1.take n).length = n ∧ Limbs (tp1.take n)) ∧ sh.2 = 0 ∧
    (val hi = P / 2 ^ (64 * n - k) ∧ hi.length = n ∧ Limbs hi) := by
  intro tp c tp1 sh hi
  have htp : tp = toLimbs (2 * n) P := rfl
  have hcd : c = tp.getD (n - 1) 0 := rfl
  have htp1 : tp1 = setAt tp (n - 1) (c &&& (2 ^ (64 - k) - 1)) := rfl
  have hshd : sh = lshift (tp1.drop n) k := rfl
  have hhid : hi = setAt sh.1 0 (sh.1.getD 0 0 ||| (c >>> (64 - k))) := rfl
  clear_value hi sh tp1 c tp
  set Q := 2 ^ (64 * n - k) with hQ
  have hQpos : 0 < Q := Nat.two_pow_pos _
  have hBn := Bn_eq n k hn hk
  have hQb := two_pow_b n k hn hk
  rw [← hQ] at hBn hQb
  obtain ⟨tv, tl, tL⟩ := toLimbs_spec (2 * n) P
  rw [← htp] at tv tl tL
  have hQB : Q ≤ B ^ n := by rw [hBn]; exact Nat.le_mul_of_pos_right _ (Nat.two_pow_pos _)
  have hP : P < B ^ (2 * n) := by
    rw [two_mul, pow_add]; exact lt_of_lt_of_le hPQ (Nat.mul_le_mul hQB hQB)
  rw [Nat.mod_eq_of_lt hP] at tv
  have hcB : c < B := by rw [hcd]; exact Limbs_getD tp tL _
  have hidx : n - 1 < tp.length := by rw [tl]; omega
  have hn1 : n - 1 + 1 = n := by omega
  obtain ⟨p1, p2, p3⟩ := setAt_parts tp (n - 1) (c &&& (2 ^ (64 - k) - 1)) hidx
  rw [hn1] at p1 p2
  have hand : c &&& (2 ^ (64 - k) - 1) = c % 2 ^ (64 - k) := Nat.and_two_pow_sub_one_eq_mod _ _
  have hLl : (tp.take (n - 1)).length = n - 1 := by simp [tl]; omega
  have hLv := val_lt _ (Limbs_take tL (n - 1)); rw [hLl] at hLv
  have hdec : P = val (tp.take (n - 1)) + B ^ (n - 1) * (c + B * val (tp.drop n)) := by
    have e1 := val_take_drop tp n (by rw [tl]; omega)
    rw [tv] at e1
    have e2 : val (tp.take n) = val (tp.take (n - 1)) + B ^ (n - 1) * c := by
      have := take_succ_getD tp (n - 1) hidx
      rw [hn1] at this; rw [this, val_snoc, hLl, hcd]
    have e3 : B ^ n = B ^ (n - 1) * B := by rw [← pow_succ, hn1]
    rw [e1, e2, e3]; ring
  have hlo : val (tp1.take n) = P % Q ∧ (tp1.take n).length = n ∧ Limbs (tp1.take n) := by
    rw [htp1, p1, hand]
    refine ⟨?_, by simp [hLl]; omega, Limbs_snoc.mpr ⟨Limbs_take tL _, lt_of_le_of_lt (Nat.mod_le _ _) hcB⟩⟩
    rw [val_snoc, hLl, hdec, hQb, add_mul_mod_mul _ _ _ _ hLv]
    congr 2
    rw [B_split (64 - k) (by omega), Nat.mul_assoc, Nat.add_mul_mod_self_left]
  have hupl : (tp.drop n).length = n := by simp [tl]; omega
  have hupL : Limbs (tp.drop n) := Limbs_drop tL _
  have hPdivQ : P / Q = val (tp.drop n) * 2 ^ k + c / 2 ^ (64 - k) := by
    rw [hdec, hQb, ← Nat.div_div_eq_div_mul, Nat.add_mul_div_left _ _ (Bpow_pos _), Nat.div_eq_of_lt hLv, Nat.zero_add]
    have e : B = 2 ^ (64 - k) * 2 ^ k := by
      have := B_split (64 - k) (by omega); rw [show 64 - (64 - k) = k by omega] at this; exact this
    rw [e, Nat.mul_assoc, Nat.add_mul_div_left _ _ (Nat.two_pow_pos _)]; ring
  have hhiVQ : P / Q < Q := (Nat.div_lt_iff_lt_mul hQpos).mpr hPQ
  have hsh : sh = lshift (tp.drop n) k := by rw [hshd, htp1, p2]
  obtain ⟨lv, lc, ll, ln⟩ := lshiftGo_val k (by omega) (tp.drop n) 0 hupL (Nat.two_pow_pos _)
  rw [hupl, Nat.add_zero] at lv
  rw [hupl] at ln
  have hsh' : sh = ((lshiftGo k (tp.drop n) 0).1, (lshiftGo k (tp.drop n) 0).2) := hsh
  have hsh1 : sh.1 = (lshiftGo k (tp.drop n) 0).1 := by rw [hsh']
  have hsh2 : sh.2 = (lshiftGo k (tp.drop n) 0).2 := by rw [hsh']
  rw [← hsh1, ← hsh2] at lv
  rw [← hsh2] at lc
  rw [← hsh1] at ll ln
  have hc10 : sh.2 = 0 := by
    by_contra hne
    have h1 : B ^ n * 1 ≤ B ^ n * sh.2 := Nat.mul_le_mul_left _ (Nat.one_le_iff_ne_zero.mpr hne)
    have h2 : val (tp.drop n) * 2 ^ k < B ^ n :=
      lt_of_le_of_lt (by rw [hPdivQ]; exact Nat.le_add_right _ _) (lt_of_lt_of_le hhiVQ hQB)
    generalize B ^ n = BN at *
    generalize val (tp.drop n) * 2 ^ k = W at *
    omega
  rw [hc10, Nat.mul_zero, Nat.add_zero] at lv
  obtain ⟨h0, hrest, hhi0⟩ : ∃ h0 hrest, sh.1 = h0 :: hrest := List.exists_cons_of_length_pos (by omega)
  have ⟨hh0B, hrestL⟩ := Limbs_cons.mp (hhi0 ▸ ll)
  have hx : c >>> (64 - k) < 2 ^ k := by
    rw [Nat.shiftRight_eq_div_pow, Nat.div_lt_iff_lt_mul (Nat.two_pow_pos _)]
    have := B_split k (by omega); rw [this] at hcB; exact hcB
  have hdvd : 2 ^ k ∣ h0 := by
    have hv : val sh.1 = h0 + B * val hrest := by rw [hhi0]; rfl
    have d1 : 2 ^ k ∣ val sh.1 := by rw [lv]; exact Dvd.intro_left _ rfl
    have d2 : 2 ^ k ∣ B * val hrest := Dvd.dvd.mul_right (two_pow_dvd_B k (by omega)) _
    rw [hv] at d1
    exact (Nat.dvd_add_left d2).mp d1
  have hset : hi = (h0 + c / 2 ^ (64 - k)) :: hrest := by
    rw [hhid, hhi0]; unfold setAt
    simp only [List.getD_cons_zero, List.take_zero, List.nil_append, Nat.zero_add, List.drop_succ_cons, List.drop_zero,
      List.singleton_append]
    rw [or_low _ _ k hdvd hx, Nat.shiftRight_eq_div_pow]
  have hnewB : h0 + c / 2 ^ (64 - k) < B := by
    have : h0 ||| (c >>> (64 - k)) < 2 ^ 64 := Nat.or_lt_two_pow hh0B (lt_of_lt_of_le hx (Nat.pow_le_pow_right (by norm_num) (by omega)))
    rw [or_low _ _ k hdvd hx, Nat.shiftRight_eq_div_pow] at this; exact this
  refine ⟨hlo, hc10, ?_⟩
  rw [hset]
  refine ⟨?_, by rw [← ln, hhi0]; simp, Limbs_cons.mpr ⟨hnewB, hrestL⟩⟩
  have hv : val sh.1 = h0 + B * val hrest := by rw [hhi0]; rfl
  rw [hPdivQ, ← lv, hv]; simp only [val_cons]; ring

/-- what every level of mpn_mulmod_2expm1 delivers for the product `P`: no carry lost, n limbs, a residue of `P`
    modulo `2^b − 1` below `2^b`, and the limbs are zero exactly when `P` is zero (a non-zero multiple of
    `2^b − 1` comes back as `2^b − 1`) -/
def Good (b P : Nat) (r : List Nat × Bool) : Prop :=
  r.2 = true ∧ r.1.length = (b + 63) / 64 ∧ Limbs r.1 ∧ val r.1 < 2 ^ b ∧
  val r.1 % (2 ^ b - 1) = P % (2 ^ b - 1) ∧ (val r.1 = 0 ↔ P = 0)

theorem two_le_two_pow (b : Nat) (hb : 1 ≤ b) : 2 ≤ 2 ^ b := by
  calc 2 = 2 ^ 1 := rfl
    _ ≤ 2 ^ b := Nat.pow_le_pow_right (by norm_num) hb

theorem basecase_spec (yp zp : List Nat) (b : Nat) (hb : 1 ≤ b) (hy : Limbs yp) (hz : Limbs zp)
    (hly : yp.length = (b + 63) / 64) (hlz : zp.length = (b + 63) / 64)
    (hyb : val yp < 2 ^ b) (hzb : val zp < 2 ^ b) : Good b (val yp * val zp) (basecase yp zp b) := by
  generalize hn : (b + 63) / 64 = n at *
  have hn1 : 1 ≤ n := by omega
  have hQ2 := two_le_two_pow b hb
  have hPQ : val yp * val zp < 2 ^ b * 2 ^ b := Nat.mul_lt_mul'' hyb hzb
  generalize hPdef : val yp * val zp = P at *
  have hhi : P / 2 ^ b < 2 ^ b := (Nat.div_lt_iff_lt_mul (by omega)).mpr hPQ
  have hlo : P % 2 ^ b < 2 ^ b := Nat.mod_lt _ (by omega)
  have hdm : P % 2 ^ b + 2 ^ b * (P / 2 ^ b) = P := Nat.mod_add_div P (2 ^ b)
  obtain ⟨f1, f2, f3⟩ := fold_val (2 ^ b) (P % 2 ^ b) (P / 2 ^ b) hQ2 hlo hhi
  rw [hdm] at f2 f3
  by_cases hk : 64 * n - b = 0
  · have hb' : b = 64 * n := by omega
    subst hb'
    have hQB : 2 ^ (64 * n) = B ^ n := (B_pow_two' n).symm
    rw [hQB] at f1 f2 f3 hhi hlo hdm hPQ
    obtain ⟨tv, tl, tL⟩ := toLimbs_spec (2 * n) P
    have hP : P < B ^ (2 * n) := by rw [two_mul, pow_add]; exact hPQ
    rw [Nat.mod_eq_of_lt hP] at tv
    set tp := toLimbs (2 * n) P with htp
    have hlol : (tp.take n).length = n := by simp [tl]; omega
    have hhil : (tp.drop n).length = n := by simp [tl]; omega
    have hsplit := val_take_drop tp n (by omega)
    rw [tv] at hsplit
    have hlov := val_lt _ (Limbs_take tL n); rw [hlol] at hlov
    obtain ⟨d1, d2⟩ := divmod_of P (val (tp.take n)) (val (tp.drop n)) (B ^ n) hsplit.symm hlov
    obtain ⟨a1, a2, a3, a4⟩ := addNC_val (tp.take n) (tp.drop n) 0 (Limbs_take tL _) (Limbs_drop tL _)
      (by rw [hlol, hhil]) (by omega)
    have e : basecase yp zp (64 * n) =
        ((add_1 (add_n (tp.take n) (tp.drop n)).1 (add_n (tp.take n) (tp.drop n)).2).1,
         (add_1 (add_n (tp.take n) (tp.drop n)).1 (add_n (tp.take n) (tp.drop n)).2).2 == 0) := by
      unfold basecase
      simp only [hn, Nat.sub_self, ↓reduceIte, hPdef]
      rfl
    rw [e]
    have hadd : add_n (tp.take n) (tp.drop n) = addNC (tp.take n) (tp.drop n) 0 := rfl
    rw [← hadd, hlol, Nat.add_zero, ← d1, ← d2] at a1
    rw [← hadd] at a2 a3
    rw [← hadd, hlol] at a4
    generalize add_n (tp.take n) (tp.drop n) = a at *
    have hav := val_lt a.1 a3; rw [a4] at hav
    obtain ⟨g1, g2⟩ := divmod_of _ _ _ _ a1 hav
    obtain ⟨r1, r2, r3, r4⟩ := add_1_spec a.1 a.2 a3 (by omega) (by have := B_eq; omega)
    rw [a4] at r1 r4
    generalize add_1 a.1 a.2 = r at *
    rw [← g1, ← g2] at r1
    have hr0 : r.2 = 0 := by
      by_contra hne
      have : B ^ n * 1 ≤ B ^ n * r.2 := Nat.mul_le_mul_left _ (Nat.one_le_iff_ne_zero.mpr hne)
      omega
    rw [hr0, Nat.mul_zero, Nat.add_zero] at r1
    refine ⟨by simp [hr0], by show r.1.length = _; rw [hn]; exact r4, r3, ?_, ?_, ?_⟩
    · show val r.1 < _; rw [r1, hQB]; exact f1
    · show val r.1 % _ = _; rw [r1, hQB]; exact f2
    · show val r.1 = 0 ↔ _; rw [r1]; exact f3
  · obtain ⟨k, hkd⟩ : ∃ k, k = 64 * n - b := ⟨_, rfl⟩
    have hk1 : 1 ≤ k := by omega
    have hk63 : k ≤ 63 := by omega
    have hb' : b = 64 * n - k := by omega
    subst hb'
    have hBn := Bn_eq n k hn1 hk63
    obtain ⟨⟨l1, l2, l3⟩, hs0, h1, h2, h3⟩ := prod_halves P n k hn1 hk1 hk63 hPQ
    have e : basecase yp zp (64 * n - k) =
        let tp := toLimbs (2 * n) P
        let c := tp.getD (n - 1) 0
        let tp1 := setAt tp (n - 1) (c &&& (2 ^ (64 - k) - 1))
        let sh := lshift (tp1.drop n) k
        let hi := setAt sh.1 0 (sh.1.getD 0 0 ||| (c >>> (64 - k)))
        let a := add_n (tp1.take n) hi
        let r := add_1 (maskK a.1 n k) (a.1.getD (n - 1) 0 >>> (64 - k))
        (r.1, (a.2 + sh.2 == 0) && r.2 == 0) := by
      unfold basecase
      simp only [hn, ← hkd, hPdef, show k ≠ 0 by omega, ↓reduceIte]
    rw [e]
    simp only
    generalize toLimbs (2 * n) P = tp at *
    generalize tp.getD (n - 1) 0 = c at *
    generalize setAt tp (n - 1) (c &&& (2 ^ (64 - k) - 1)) = tp1 at *
    generalize lshift (tp1.drop n) k = sh at *
    generalize setAt sh.1 0 (sh.1.getD 0 0 ||| (c >>> (64 - k))) = hi at *
    obtain ⟨a1, a2, a3, a4⟩ := addNC_val (tp1.take n) hi 0 l3 h3 (by rw [l2, h2]) (by omega)
    have hadd : add_n (tp1.take n) hi = addNC (tp1.take n) hi 0 := rfl
    rw [← hadd, l2, Nat.add_zero, l1, h1] at a1
    rw [← hadd] at a2 a3
    rw [← hadd, l2] at a4
    generalize add_n (tp1.take n) hi = a at *
    have hQB : 2 * 2 ^ (64 * n - k) ≤ B ^ n := by
      rw [hBn, Nat.mul_comm]; exact Nat.mul_le_mul_left _ (two_le_two_pow k hk1)
    have ha0 : a.2 = 0 := by
      by_contra hne
      have : B ^ n * 1 ≤ B ^ n * a.2 := Nat.mul_le_mul_left _ (Nat.one_le_iff_ne_zero.mpr hne)
      omega
    rw [ha0, Nat.mul_zero, Nat.add_zero] at a1
    have hc := top_shr a.1 n k a3 a4 hn1 hk63
    obtain ⟨m1, m2, m3⟩ := maskK_spec a.1 n k a3 a4 hn1 (by omega)
    rw [hc, a1]
    rw [a1] at m1
    generalize maskK a.1 n k = am at *
    have hcB : (P % 2 ^ (64 * n - k) + P / 2 ^ (64 * n - k)) / 2 ^ (64 * n - k) < B := by
      have := B_eq
      have : (P % 2 ^ (64 * n - k) + P / 2 ^ (64 * n - k)) / 2 ^ (64 * n - k) < 2 :=
        (Nat.div_lt_iff_lt_mul (by omega)).mpr (by omega)
      omega
    obtain ⟨r1, r2, r3, r4⟩ := add_1_spec am _ m3 (by omega) hcB
    rw [m2, m1] at r1
    rw [m2] at r4
    generalize add_1 am ((P % 2 ^ (64 * n - k) + P / 2 ^ (64 * n - k)) / 2 ^ (64 * n - k)) = r at *
    have hr0 : r.2 = 0 := by
      by_contra hne
      have : B ^ n * 1 ≤ B ^ n * r.2 := Nat.mul_le_mul_left _ (Nat.one_le_iff_ne_zero.mpr hne)
      omega
    rw [hr0, Nat.mul_zero, Nat.add_zero] at r1
    refine ⟨by simp [hr0, ha0, hs0], by show r.1.length = _; rw [hn]; exact r4, r3, ?_, ?_, ?_⟩
    · show val r.1 < _; rw [r1]; exact f1
    · show val r.1 % _ = _; rw [r1]; exact f2
    · show val r.1 = 0 ↔ _; rw [r1]; exact f3
end Mpir.Mm1
