/- jacobi_base (mpn_jacobi_base, JACOBI_BASE_METHOD 1) computes the Jacobi symbol; the executable
   `kronecker` equals the mathematical `kronSym`. -/
import MpirProofs.Lemmas.Gcd
import MpirProofs.Lemmas.GcdKronDef
import Mathlib.NumberTheory.LegendreSymbol.JacobiSymbol
import Mathlib.Data.Nat.Bitwise
import Mathlib.Tactic.Ring
import Mathlib.Tactic.Linarith
import Mathlib.Tactic.IntervalCases
import Mathlib.Tactic.NormNum
namespace Mpir.Gcd
open Mpir

/-! ### bit 1 of the running sign word -/

theorem and_two_eq (x : Nat) : x &&& 2 = if x.testBit 1 then 2 else 0 := by
  have h := Nat.and_two_pow x 1
  simp only [pow_one] at h
  rw [h]; cases x.testBit 1 <;> simp

theorem bit1ToPN_eq (x : Nat) : bit1ToPN x = if x.testBit 1 then -1 else 1 := by
  unfold bit1ToPN
  rw [and_two_eq]; cases x.testBit 1 <;> simp

theorem testBit_one_eq (x : Nat) : x.testBit 1 = decide (x / 2 % 2 = 1) := by
  have := Nat.testBit_eq_decide_div_mod_eq (x := x) (i := 1)
  simpa using this

theorem bit1ToPN_xor (x y : Nat) : bit1ToPN (x ^^^ y) = bit1ToPN x * bit1ToPN y := by
  simp only [bit1ToPN_eq, Nat.testBit_xor]
  cases x.testBit 1 <;> cases y.testBit 1 <;> simp


open scoped NumberTheorySymbols in
/-- (2/b) for odd b, by bits 1 and 2 of b. -/
theorem jacobi_two_eq (b : Nat) (hb : b % 2 = 1) :
    jacobiSym 2 b = if (b / 4 % 2 + b / 2 % 2) % 2 = 1 then -1 else 1 := by
  rw [jacobiSym.at_two (Nat.odd_iff.mpr hb), ZMod.χ₈_nat_eq_if_mod_eight]
  have : b % 8 = 1 ∨ b % 8 = 3 ∨ b % 8 = 5 ∨ b % 8 = 7 := by omega
  split_ifs <;> omega

theorem twosBit1_testBit (t b : Nat) :
    (twosBit1 t b).testBit 1 = (decide (t % 2 = 1) && decide ((b / 4 % 2 + b / 2 % 2) % 2 = 1)) := by
  unfold twosBit1
  rw [Nat.testBit_and, Nat.testBit_shiftLeft, Nat.testBit_xor, Nat.testBit_shiftRight]
  have h0 : t.testBit 0 = decide (t % 2 = 1) := by
    have := Nat.testBit_eq_decide_div_mod_eq (x := t) (i := 0); simpa only [pow_zero, Nat.div_one] using this
  have h1 : b.testBit 1 = decide (b / 2 % 2 = 1) := testBit_one_eq b
  have h2 : b.testBit 2 = decide (b / 4 % 2 = 1) := by
    have := Nat.testBit_eq_decide_div_mod_eq (x := b) (i := 2); simpa using this
  simp only [ge_iff_le, le_refl, decide_true, Bool.true_and, Nat.sub_self, h0, h1, h2]
  have e1 : b / 2 % 2 = 0 ∨ b / 2 % 2 = 1 := by omega
  have e2 : b / 4 % 2 = 0 ∨ b / 4 % 2 = 1 := by omega
  rcases e1 with e1 | e1 <;> rcases e2 with e2 | e2 <;> simp [e1, e2]

/-- JACOBI_TWOS_U_BIT1: the sign of (2/b)^twos. -/
theorem bit1ToPN_twosBit1 (t b : Nat) (hb : b % 2 = 1) :
    bit1ToPN (twosBit1 t b) = jacobiSym 2 b ^ t := by
  rw [bit1ToPN_eq, twosBit1_testBit, jacobi_two_eq b hb]
  by_cases hc : (b / 4 % 2 + b / 2 % 2) % 2 = 1
  · rw [if_pos hc]
    rcases Nat.even_or_odd t with ht | ht
    · have : t % 2 ≠ 1 := by rcases ht with ⟨k, rfl⟩; omega
      simp only [hc, this, ht.neg_one_pow, decide_false, decide_true, Bool.false_and]; rfl
    · have : t % 2 = 1 := Nat.odd_iff.mp ht
      simp only [hc, this, ht.neg_one_pow, decide_true, Bool.true_and]; rfl
  · rw [if_neg hc]
    simp only [hc, decide_false, Bool.and_false, one_pow]; rfl

/-- JACOBI_RECIP_UU_BIT1: quadratic reciprocity for odd a, b. -/
theorem jacobi_recip (a b : Nat) (ha : a % 2 = 1) (hb : b % 2 = 1) :
    jacobiSym a b = bit1ToPN (a &&& b) * jacobiSym b a := by
  rw [← jacobiSym.quadratic_reciprocity_if ha hb, bit1ToPN_eq, Nat.testBit_and,
    testBit_one_eq, testBit_one_eq]
  have ea : a % 4 = 3 ↔ a / 2 % 2 = 1 := by omega
  have eb : b % 4 = 3 ↔ b / 2 % 2 = 1 := by omega
  by_cases h1 : a / 2 % 2 = 1 <;> by_cases h2 : b / 2 % 2 = 1 <;> simp [ea, eb, h1, h2]

/-- PROCESS_TWOS_ANY: stripping the factors of two from x > 0. -/
theorem jacobi_strip (x b : Nat) (hx : 0 < x) (hb : b % 2 = 1) :
    jacobiSym x b = bit1ToPN (twosBit1 (ctz x) b) * jacobiSym ((x >>> ctz x : Nat) : ℤ) b := by
  rw [bit1ToPN_twosBit1 _ _ hb, ← jacobiSym.pow_left, ← jacobiSym.mul_left]
  congr 1
  have := ctz_mul x hx
  exact_mod_cast this.symm

theorem shiftRight_ctz_le (x : Nat) (hx : 0 < x) : x >>> ctz x ≤ x := by
  have := ctz_mul x hx
  calc x >>> ctz x ≤ 2 ^ ctz x * (x >>> ctz x) := Nat.le_mul_of_pos_left _ (by positivity)
    _ = x := this


theorem jacobi_self (b : Nat) (hb1 : 1 < b) : jacobiSym b b = 0 := by
  rw [jacobiSym.mod_left, Int.emod_self]; exact jacobiSym.zero_left hb1

/-- The `a_gt_b` loop: a, b odd, a ≥ b > 1, enough fuel. -/
theorem jacobiBaseLoop_spec : ∀ (f a b bit : Nat), a % 2 = 1 → b % 2 = 1 → 1 < b → b ≤ a →
    a + b ≤ f → jacobiBaseLoop f a b bit = bit1ToPN bit * jacobiSym a b
  | 0, a, b, bit, _, _, hb1, _, hf => by omega
  | f + 1, a, b, bit, ha, hb, hb1, hab, hf => by
    rw [jacobiBaseLoop]
    dsimp only
    by_cases h0 : a - b = 0
    · have : a = b := by omega
      subst this
      rw [if_pos h0, jacobi_self _ hb1, mul_zero]
    rw [if_neg h0]
    have hx : 0 < a - b := Nat.pos_of_ne_zero h0
    -- J(a | b) = J(a - b | b)
    have e1 : jacobiSym a b = jacobiSym ((a - b : Nat) : ℤ) b := by
      apply jacobiSym.mod_left'
      rw [Nat.cast_sub hab, Int.sub_emod, Int.emod_self, sub_zero, Int.emod_emod_of_dvd _ (dvd_refl _)]
    have e2 := jacobi_strip (a - b) b hx hb
    have hyo := ctz_odd (a - b) hx
    have hyle := shiftRight_ctz_le (a - b) hx
    generalize (a - b) >>> ctz (a - b) = y at *
    generalize twosBit1 (ctz (a - b)) b = tb at *
    rw [e1, e2, bit1ToPN_xor]
    by_cases hy1 : y = 1
    · rw [if_pos hy1, hy1]; simp
    rw [if_neg hy1]
    by_cases hyb : y ≥ b
    · rw [if_pos hyb, jacobiBaseLoop_spec f y b _ hyo hb hb1 hyb (by omega), bit1ToPN_xor]
      ring
    · rw [if_neg hyb, jacobiBaseLoop_spec f b y _ hb hyo (by omega) (by omega) (by omega),
        bit1ToPN_xor, bit1ToPN_xor, jacobi_recip y b hyo hb]
      ring

/-- mpn_jacobi_base computes result_bit1's sign times the Jacobi symbol (a/b), b odd, b > 1. -/
theorem jacobi_base_spec (a b bit : Nat) (hb : b % 2 = 1) (hb1 : 1 < b) :
    jacobi_base a b bit = bit1ToPN bit * jacobiSym a b := by
  unfold jacobi_base
  by_cases h0 : a = 0
  · subst h0
    rw [if_pos rfl, Nat.cast_zero, jacobiSym.zero_left hb1, mul_zero]
  rw [if_neg h0]
  dsimp only
  have hx : 0 < a := Nat.pos_of_ne_zero h0
  have e2 := jacobi_strip a b hx hb
  have hyo := ctz_odd a hx
  generalize a >>> ctz a = y at *
  generalize twosBit1 (ctz a) b = tb at *
  rw [e2, bit1ToPN_xor]
  by_cases hy1 : y = 1
  · rw [if_pos hy1, hy1]; simp
  rw [if_neg hy1]
  by_cases hyb : y ≥ b
  · rw [if_pos hyb, jacobiBaseLoop_spec _ y b _ hyo hb hb1 hyb (le_refl _), bit1ToPN_xor]
    ring
  · rw [if_neg hyb, jacobiBaseLoop_spec _ b y _ hb hyo (by omega) (by omega) (by omega),
      bit1ToPN_xor, bit1ToPN_xor, jacobi_recip y b hyo hb]
    ring


/-- non-vacuity: a concrete run of the model, and the spec instantiated on it. -/
example : jacobi_base 1001 9907 0 = -1 := by decide +kernel
example : jacobi_base 1001 9907 2 = 1 := by decide +kernel
example : jacobi_base 30 45 0 = 0 := by decide +kernel
example : jacobiSym 1001 9907 = -1 := by
  have h := jacobi_base_spec 1001 9907 0 (by norm_num) (by norm_num)
  have h1 : jacobi_base 1001 9907 0 = -1 := by decide +kernel
  have h2 : bit1ToPN 0 = 1 := by decide
  rw [h1, h2, one_mul] at h
  exact_mod_cast h.symm

/-! ### the executable Kronecker symbol (Cohen 1.4.10) equals `kronSym` -/

theorem stripTwosAux_spec : ∀ (f : Nat) (x : ℤ) (v : Nat), x ≠ 0 → x.natAbs ≤ f →
    ∃ (c : Nat) (x' : ℤ), stripTwosAux f x v = (x', v + c) ∧ x = 2 ^ c * x' ∧ x' % 2 = 1
  | 0, x, v, hx, hf => by omega
  | f + 1, x, v, hx, hf => by
    rw [stripTwosAux]
    by_cases h : x % 2 = 0 ∧ x ≠ 0
    · rw [if_pos h]
      obtain ⟨c, x', h1, h2, h3⟩ := stripTwosAux_spec f (x / 2) (v + 1) (by omega) (by omega)
      refine ⟨c + 1, x', ?_, ?_, h3⟩
      · rw [h1, Nat.add_assoc, Nat.add_comm 1 c]
      · have : x = 2 * (x / 2) := by omega
        rw [pow_succ, mul_comm (2 ^ c) 2, mul_assoc, ← h2]; exact this
    · rw [if_neg h]
      exact ⟨0, x, rfl, by simp, by omega⟩

theorem stripTwos_spec (x : ℤ) (hx : x ≠ 0) :
    ∃ (c : Nat) (x' : ℤ), stripTwos x = (x', c) ∧ x = 2 ^ c * x' ∧ x' % 2 = 1 := by
  obtain ⟨c, x', h1, h2, h3⟩ := stripTwosAux_spec x.natAbs x 0 hx (le_refl _)
  exact ⟨c, x', by rw [stripTwos, h1, Nat.zero_add], h2, h3⟩

theorem kron2_eq_chi8 (a : ℤ) : kron2 a = ZMod.χ₈ a := by
  rw [ZMod.χ₈_int_eq_if_mod_eight]
  unfold kron2
  dsimp only
  rw [Int.emod_emod_of_dvd a (by norm_num : (2 : ℤ) ∣ 8)]

theorem kron2_nat_odd (b : Nat) (hb : b % 2 = 1) : kron2 (b : ℤ) = jacobiSym 2 b := by
  rw [kron2_eq_chi8, jacobiSym.at_two (Nat.odd_iff.mpr hb)]; simp

theorem kron2_odd (a : ℤ) (ha : a % 2 = 1) : kron2 a = 1 ∨ kron2 a = -1 := by
  unfold kron2
  dsimp only
  rw [Int.emod_emod_of_dvd a (by norm_num : (2 : ℤ) ∣ 8)]
  split_ifs <;> simp_all

theorem kron2_even (a : ℤ) (ha : a % 2 = 0) : kron2 a = 0 := by
  unfold kron2
  dsimp only
  rw [Int.emod_emod_of_dvd a (by norm_num : (2 : ℤ) ∣ 8), if_pos ha]

theorem pm_one_pow (s : ℤ) (hs : s = 1 ∨ s = -1) (c : Nat) :
    s ^ c = if c % 2 = 1 then s else 1 := by
  rcases Nat.even_or_odd c with hc | hc
  · have : c % 2 ≠ 1 := by rcases hc with ⟨k, rfl⟩; omega
    rw [if_neg this]
    rcases hs with rfl | rfl
    · simp
    · exact hc.neg_one_pow
  · rw [if_pos (Nat.odd_iff.mp hc)]
    rcases hs with rfl | rfl
    · simp
    · exact hc.neg_one_pow

/-- reciprocity with a possibly negative odd numerator (Cohen 1.4.10 step 4). -/
theorem jacobi_recip_int (a : ℤ) (b : Nat) (ha : a % 2 = 1) (hb : b % 2 = 1) :
    jacobiSym a b = (if a % 4 = 3 ∧ (b : ℤ) % 4 = 3 then -1 else 1) * jacobiSym b a.natAbs := by
  have hno : a.natAbs % 2 = 1 := by omega
  rcases le_or_gt 0 a with h | h
  · obtain ⟨n, rfl⟩ := Int.eq_ofNat_of_zero_le h
    rw [Int.natAbs_natCast] at *
    rw [← jacobiSym.quadratic_reciprocity_if hno hb]
    have e1 : (n : ℤ) % 4 = 3 ↔ n % 4 = 3 := by omega
    have e2 : (b : ℤ) % 4 = 3 ↔ b % 4 = 3 := by omega
    simp only [e1, e2]
    split_ifs <;> simp
  · have hn : a = -((a.natAbs : Nat) : ℤ) := by omega
    generalize a.natAbs = n at *
    subst hn
    rw [jacobiSym.neg _ (Nat.odd_iff.mpr hb), ZMod.χ₄_nat_eq_if_mod_four,
      ← jacobiSym.quadratic_reciprocity_if hno hb]
    have e1 : (-(n : ℤ)) % 4 = 3 ↔ n % 4 = 1 := by omega
    have e2 : (b : ℤ) % 4 = 3 ↔ b % 4 = 3 := by omega
    simp only [e1, e2]
    have hn4 : n % 4 = 1 ∨ n % 4 = 3 := by omega
    have hb4 : b % 4 = 1 ∨ b % 4 = 3 := by omega
    rcases hn4 with hn4 | hn4 <;> rcases hb4 with hb4 | hb4 <;> simp [hn4, hb4, hb]

/-- Cohen 1.4.10 steps 3-4: for odd positive b and any integer a, `kronLoop` returns k·(a/b). -/
theorem kronLoop_spec : ∀ (f : Nat) (a : ℤ) (b : Nat) (k : ℤ), b % 2 = 1 → a.natAbs + 1 ≤ f →
    kronLoop f a (b : ℤ) k = k * jacobiSym a b
  | 0, a, b, k, hb, hf => by omega
  | f + 1, a, b, k, hb, hf => by
    rw [kronLoop]
    by_cases ha0 : a = 0
    · subst ha0
      rw [if_pos rfl]
      by_cases hb1 : 1 < b
      · rw [if_pos (by exact_mod_cast hb1), jacobiSym.zero_left hb1, mul_zero]
      · have : b = 1 := by omega
        subst this
        rw [if_neg (by norm_num), jacobiSym.one_right, mul_one]
    rw [if_neg ha0]
    obtain ⟨c, a', hs, hmul, hodd⟩ := stripTwos_spec a ha0
    rw [hs]
    dsimp only
    have hro : a'.natAbs % 2 = 1 := by omega
    have hrpos : (0 : ℤ) < (a'.natAbs : ℤ) := by omega
    have hrle : a'.natAbs ≤ a.natAbs := by
      rw [hmul, Int.natAbs_mul, Int.natAbs_pow]
      exact Nat.le_mul_of_pos_left _ (by positivity)
    have hlt := Int.emod_lt_of_pos (b : ℤ) hrpos
    have hnn := Int.emod_nonneg (b : ℤ) (ne_of_gt hrpos)
    rw [kronLoop_spec f _ a'.natAbs _ hro (by omega), ← jacobiSym.mod_left]
    have hs2 : kron2 (b : ℤ) = 1 ∨ kron2 (b : ℤ) = -1 := kron2_odd _ (by omega)
    have e : jacobiSym a b = (if c % 2 = 1 then kron2 (b : ℤ) else 1) *
        ((if a' % 4 = 3 ∧ (b : ℤ) % 4 = 3 then -1 else 1) * jacobiSym b a'.natAbs) := by
      rw [hmul, jacobiSym.mul_left, jacobiSym.pow_left, ← kron2_nat_odd b hb,
        pm_one_pow _ hs2, jacobi_recip_int a' b hodd hb]
    rw [e]
    split_ifs <;> ring

/-- The executable Kronecker symbol (Cohen 1.4.10) equals the mathematical one, for all integers. -/
theorem kronecker_eq_kronSym (a b : ℤ) : kronecker a b = kronSym a b := by
  unfold kronecker kronSym
  by_cases hb0 : b = 0
  · rw [if_pos hb0, if_pos hb0]
  rw [if_neg hb0, if_neg hb0]
  obtain ⟨c, b', hs, hmul, hodd⟩ := stripTwos_spec b hb0
  have hro : b'.natAbs % 2 = 1 := by omega
  have hnat : b.natAbs = 2 ^ c * b'.natAbs := by
    rw [hmul, Int.natAbs_mul, Int.natAbs_pow]; rfl
  have hpv : padicValNat 2 b.natAbs = c := by
    rw [hnat, padicValNat.mul (by positivity) (by omega), padicValNat.prime_pow,
      padicValNat.eq_zero_of_not_dvd (by omega), Nat.add_zero]
  have hdiv : b.natAbs / 2 ^ c = b'.natAbs := by
    rw [hnat, Nat.mul_div_cancel_left _ (by positivity)]
  rw [hpv, hdiv]
  have hc0 : b % 2 = 1 → c = 0 := by
    intro h
    rcases Nat.eq_zero_or_pos c with h0 | h0
    · exact h0
    · exfalso
      obtain ⟨d, rfl⟩ : ∃ d, c = d + 1 := ⟨c - 1, by omega⟩
      rw [pow_succ, mul_assoc] at hmul
      generalize (2 : ℤ) ^ d = p at hmul
      have : b % 2 = 0 := by
        rw [hmul, mul_comm p, mul_assoc]; exact Int.mul_emod_right _ _
      omega
  by_cases hee : a % 2 = 0 ∧ b % 2 = 0
  · rw [if_pos hee, kron2_even a hee.1]
    have : c ≠ 0 := by
      intro h0; subst h0
      rw [pow_zero, one_mul] at hmul; subst hmul; omega
    rw [zero_pow this]; simp
  rw [if_neg hee, hs]
  dsimp only
  rw [kronLoop_spec _ a b'.natAbs _ hro (by omega)]
  have hp : (0 : ℤ) < 2 ^ c := by positivity
  have hneg : b' < 0 ↔ b < 0 := by
    constructor
    · intro h; rw [hmul]; exact mul_neg_of_pos_of_neg hp h
    · intro h
      by_contra hcon
      have : 0 ≤ b := by rw [hmul]; exact mul_nonneg hp.le (not_lt.mp hcon)
      omega
  have hk : (if c % 2 = 0 then 1 else kron2 a) = kron2 a ^ c := by
    by_cases ha : a % 2 = 1
    · rw [pm_one_pow _ (kron2_odd a ha)]
      have : c % 2 = 0 ∨ c % 2 = 1 := by omega
      rcases this with h | h <;> simp [h]
    · have : c = 0 := hc0 (by omega)
      subst this; simp
  rw [hk]
  simp only [hneg]
  split_ifs <;> ring

/-- non-vacuity: negative numerator, even and negative denominators. -/
example : kronecker (-15) 28 = -1 := by decide +kernel
example : kronecker (-7) (-22) = -1 := by decide +kernel
example : kronecker 1001 9907 = -1 := by decide +kernel
example : kronSym (-15) 28 = -1 := by rw [← kronecker_eq_kronSym]; decide +kernel
example : kronSym (-7) (-22) = -1 := by rw [← kronecker_eq_kronSym]; decide +kernel

/-- On the domain of mpn_jacobi_base the model agrees with the executable Kronecker symbol. -/
theorem jacobi_base_eq_kronecker (a b bit : Nat) (hb : b % 2 = 1) (hb1 : 1 < b) :
    jacobi_base a b bit = bit1ToPN bit * kronecker a b := by
  rw [jacobi_base_spec a b bit hb hb1, kronecker_eq_kronSym]
  unfold kronSym
  have hb0 : (b : ℤ) ≠ 0 := by omega
  have hpv : padicValNat 2 b = 0 := padicValNat.eq_zero_of_not_dvd (by omega)
  rw [if_neg hb0, Int.natAbs_natCast, hpv, pow_zero, pow_zero, Nat.div_one,
    if_neg (by omega), one_mul, one_mul]

end Mpir.Gcd
